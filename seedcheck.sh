#!/bin/bash
# ./seedcheck.sh <Cxx> <mN> [tier]  — confirm a seeded change produced by a sub-agent (patch + demonstration under
# /tmp/mut/out/<Cxx>/), run the property's check against it, and file everything under /verif/seeded/<Cxx>-<mN>/.
set -u
export GOFLAGS=-mod=mod GOPROXY=off GOSUMDB=off GOTOOLCHAIN=local
ID=$1; M=$2; TIER=${3:-quick}
SRC=/tmp/mut/out/$ID; WT=/tmp/mut/$ID; DST=/verif/seeded/$ID-$M
if [ "${ROUND:-1}" = 2 ]; then SRC=/tmp/mut/out2/$ID; DST=/verif/seeded/$ID-r2$M; fi
if [ "${ROUND:-1}" = 3 ]; then SRC=/tmp/mut/out3/$ID; DST=/verif/seeded/$ID-r3$M; fi
[ -f "$SRC/$M.diff" ] || { echo "no $SRC/$M.diff"; exit 2; }
mkdir -p "$DST"; cp "$SRC/$M.diff" "$DST/patch.diff"; rm -rf "$DST/demo"; cp -r "$SRC/${M}_demo" "$DST/demo" 2>/dev/null
[ -d "$WT" ] || git -C /repo worktree add --detach "$WT" HEAD >/dev/null 2>&1
git -C "$WT" checkout -q --detach "$(git -C /repo rev-parse HEAD)" 2>/dev/null
git -C "$WT" checkout -q -- . ; git -C "$WT" clean -fdq
LOG=$DST/confirm.log; : > "$LOG"
# demonstration files: *_test.go go into the package named in RUN.txt / by their package clause
place_demo() {
  find "$DST/demo" -name '*_test.go' | while read -r f; do
    rel=${f#$DST/demo/}
    case "$rel" in
      pkg/*|cmd/*) dir="$WT/$(dirname "$rel")" ;;
      *)
        pkg=$(grep -m1 '^package ' "$f" | awk '{print $2}' | sed 's/_test$//')
        dir=$(grep -rl --include=*.go "^package $pkg\$" "$WT/pkg" "$WT/cmd" 2>/dev/null | head -1 | xargs dirname)
        hint=$(grep -o 'pkg/[a-z_/]*' "$DST/demo/RUN.txt" 2>/dev/null | head -1)
        [ -n "$hint" ] && [ -d "$WT/${hint%/}" ] && dir="$WT/${hint%/}"
        ;;
    esac
    cp "$f" "$dir/"; echo "$dir"
  done | sort -u
}
run_demo() { # $1 = label
  dirs=$(place_demo)
  rc=0
  for d in $dirs; do
    names=$(grep -ho 'func Test[A-Za-z0-9_]*' "$d"/zz_seeded*_test.go | sed 's/func //' | paste -sd'|')
    (cd "$d" && timeout 600 go test -vet=off -count=1 -run "^($names)\$" . ) >> "$LOG" 2>&1 || rc=1
  done
  echo "demo[$1] rc=$rc" | tee -a "$LOG"
  for d in $dirs; do rm -f "$d"/zz_seeded*_test.go; done
  return $rc
}
echo "== demo WITHOUT the change" >> "$LOG"; run_demo without; R0=$?
git -C "$WT" apply "$DST/patch.diff" || { echo "PATCH DOES NOT APPLY"; exit 2; }
echo "== build + package tests WITH the change" >> "$LOG"
(cd "$WT" && go build ./pkg/... ./cmd/... ) >> "$LOG" 2>&1; RB=$?
PKGS=$(grep '^+++ b/' "$DST/patch.diff" | sed 's|+++ b/||' | xargs -n1 dirname | sort -u | sed 's|^|./|')
(cd "$WT" && go test -vet=off -count=1 $PKGS 2>&1 | grep -E '^(--- FAIL|\s+--- FAIL|ok|FAIL|panic)' ) >> "$LOG" 2>&1
FAILS=$(grep -E '^\s*--- FAIL' "$LOG" | grep -v -E 'TestStart|TestCancel|TestRelease|TestCreatePing|Seeded' | sort -u | tr '\n' ';')
echo "== demo WITH the change" >> "$LOG"; run_demo with; R1=$?
echo "== check $ID $TIER against the change" >> "$LOG"
OUT=$(cd /verif && VERIF_REPO=$WT ./check "$ID" "$TIER" 2>&1); RC=$?
echo "$OUT" | grep -E '^(summary|VIOLATION|KNOWN-FINDING|INCONCLUSIVE|BUILD-FAILED|violation-detail)' | cut -c1-500 | head -15 >> "$LOG"
KEYS=$(echo "$OUT" | grep -o 'violation-detail property=[A-Z0-9]* key=[^ ]*' | sed 's/.*key=//' | sort | uniq -c | sort -rn | head -6 | awk '{print $2"x"$1}' | paste -sd, )
git -C "$WT" checkout -q -- . ; git -C "$WT" clean -fdq
echo "RESULT ${DST##*/} build=$RB demo_without=$R0 demo_with=$R1 unexpected_test_failures=[$FAILS] check_${TIER}_rc=$RC keys=[$KEYS]"
python3 - "$DST" "$ID" "${DST##*-}" "$TIER" "$RB" "$R0" "$R1" "$FAILS" "$RC" "$KEYS" "$SRC/$M.json" <<'PY'
import json,sys,os
dst,ID,M,tier,rb,r0,r1,fails,rc,keys,src=sys.argv[1:12]
meta={}
try: meta=json.load(open(src))
except Exception as e: meta={"note":"agent meta unreadable: %s"%e}
mp=os.path.join(dst,"meta.json")
old={}
if os.path.exists(mp):
    try: old=json.load(open(mp))
    except Exception: old={}
runs=old.get("check_runs",[])
runs.append({"tier":tier,"exit":int(rc),"violation_keys":keys})
out={"property":ID,"mutation":M,"from_agent":meta,
 "confirmed":{"builds":rb=="0","demo_passes_without_change":r0=="0","demo_fails_with_change":r1!="0","existing_tests_of_touched_packages":"pass" if not fails else "unexpected failures: "+fails,
  "what_was_run":"seedcheck.sh: demo without/with the change in a scratch worktree of /repo HEAD, go build ./pkg/... ./cmd/..., go test of the touched packages, then VERIF_REPO=<worktree> ./check %s <tier>"%ID},
 "check_runs":runs,"detected":any(r["exit"]==1 for r in runs)}
json.dump(out,open(mp,"w"),indent=1)
PY
