#!/opt/veriftools/pyvenv/bin/python
import json,jsonschema,glob,sys
jsonschema.validate(json.load(open('/verif/MANIFEST.json')),json.load(open('/root/.vp/MANIFEST.schema.json')))
es=json.load(open('/root/.vp/EVIDENCE.schema.json'))
for f in sorted(glob.glob('/verif/evidence/*.json')):
    try:
        jsonschema.validate(json.load(open(f)),es); print('ok',f)
    except Exception as e:
        print('INVALID',f,str(e)[:300]); sys.exit(1)
print('manifest ok')
