#!/bin/bash
# ./sweep.sh <tier> <seed...> — runs every implemented check at the given seeds, one after another,
# and prints one line per run (exit status + summary). Used for silence sweeps on the unchanged tree.
# IDS="C01 C03" restricts the sweep to those checks.
cd "$(dirname "$0")"
tier=$1; shift
for seed in "$@"; do
  for id in ${IDS:-$(cat implemented.txt)}; do
    out=$(VERIF_SEED=$seed ./check $id $tier 2>&1); rc=$?
    echo "seed=$seed $id rc=$rc $(echo "$out" | grep -E '^summary' | cut -c1-200)"
    echo "$out" | grep -E '^(VIOLATION|violation-detail|INCONCLUSIVE|BUILD-FAILED)' | cut -c1-300 | head -5
  done
done
