// Package memnet is an in-memory netceptor.Backend with taps, fault plans, a redial
// loop and scripted peers. It links real netceptor.Netceptor instances without any hook.
package memnet

import (
	"container/heap"
	"context"
	"fmt"
	"io"
	"math/rand"
	"sync"
	"sync/atomic"
	"time"

	"github.com/ansible/receptor/pkg/netceptor"
)

// TapEvent is one datagram handed to a link by a node (Dir "send") or handed by the
// link to a node (Dir "recv"), or a fault decision (Dir "drop"/"dup").
type TapEvent struct {
	Seq  uint64
	T    time.Duration // since Net start, one monotonic clock
	Link string
	From string
	To   string
	Dir  string
	Data []byte
}

// Plan is a per-link fault plan. Probabilities are per message.
type Plan struct {
	DataDrop     float64
	DataDup      float64
	DataDelayMin time.Duration
	DataDelayMax time.Duration
	DataReorder  bool // data datagrams are not kept FIFO
	CtlDrop      float64
	CtlDup       float64
	CtlDelayMin  time.Duration
	CtlDelayMax  time.Duration
	CtlReorder   bool // control messages (types 1-3) are not kept FIFO
	Type2Reorder bool // only service advertisements (type 2) are not kept FIFO; routing updates stay in order
	Type2MinWait time.Duration
}

// Net is a set of nodes and links sharing one tap log.
type Net struct {
	mu      sync.Mutex
	start   time.Time
	seq     uint64
	Tap     func(TapEvent) // called under the Net tap mutex: ordered by Seq
	tapMu   sync.Mutex
	KeepRaw bool // keep full payload of data packets in tap events (default: header+first 64 bytes)
	Links   map[string]*Link
	flaps   int64
	closed  chan struct{}
}

// New creates a network.
func New() *Net {
	return &Net{start: time.Now(), Links: map[string]*Link{}, closed: make(chan struct{})}
}

// Stop ends all redial loops.
func (n *Net) Stop() {
	n.mu.Lock()
	select {
	case <-n.closed:
	default:
		close(n.closed)
	}
	ls := []*Link{}
	for _, l := range n.Links {
		ls = append(ls, l)
	}
	n.mu.Unlock()
	for _, l := range ls {
		l.Down()
	}
}

// Flaps returns how many times a link re-established a session while planned up.
func (n *Net) Flaps() int64 { return atomic.LoadInt64(&n.flaps) }

// Now returns the time since network start.
func (n *Net) Now() time.Duration { return time.Since(n.start) }

func (n *Net) tap(link, from, to, dir string, data []byte) {
	if n.Tap == nil {
		return
	}
	d := data
	if !n.KeepRaw && len(d) > 100 && len(d) > 0 && d[0] == 0 {
		d = d[:100]
	}
	c := append([]byte(nil), d...)
	n.tapMu.Lock()
	n.seq++
	e := TapEvent{Seq: n.seq, T: time.Since(n.start), Link: link, From: from, To: to, Dir: dir, Data: c}
	n.Tap(e)
	n.tapMu.Unlock()
}

// Endpoint is one side of a link: something that can be given sessions.
type Endpoint struct {
	Name string
	mu   sync.Mutex
	be   *Backend
}

// Backend implements netceptor.Backend; sessions are pushed into Ch.
type Backend struct {
	Ch  chan netceptor.BackendSession
	ctx context.Context
	mu  sync.Mutex
	st  chan struct{}
}

// NewBackend creates a backend.
func NewBackend() *Backend {
	return &Backend{Ch: make(chan netceptor.BackendSession), st: make(chan struct{})}
}

// Start implements netceptor.Backend.
func (b *Backend) Start(ctx context.Context, _ *sync.WaitGroup) (chan netceptor.BackendSession, error) {
	b.mu.Lock()
	b.ctx = ctx
	close(b.st)
	b.mu.Unlock()
	return b.Ch, nil
}

// Ctx returns the context given to Start (blocks until started).
func (b *Backend) Ctx() context.Context {
	<-b.st
	b.mu.Lock()
	defer b.mu.Unlock()
	return b.ctx
}

// Offer hands a session to the netceptor owning this backend; false if it is gone.
func (b *Backend) Offer(s netceptor.BackendSession, stop <-chan struct{}) bool {
	ctx := b.Ctx()
	select {
	case b.Ch <- s:
		return true
	case <-ctx.Done():
		return false
	case <-stop:
		return false
	}
}

// Link is a bidirectional link between two named endpoints.
type Link struct {
	net      *Net
	ID       string
	A, B     string
	Cost     float64
	seed     int64
	mu       sync.Mutex
	plan     Plan
	up       bool
	stop     chan struct{}
	cur      *pair
	beA      *Backend
	beB      *Backend
	Redial   time.Duration
	silentAB atomic.Bool // A->B direction carries nothing
	silentBA atomic.Bool
	done     chan struct{}
}

// NewLink registers a link (down). Attach backends with SetBackends, then Up().
func (n *Net) NewLink(id, a, b string, cost float64, seed int64) *Link {
	l := &Link{net: n, ID: id, A: a, B: b, Cost: cost, seed: seed, Redial: 40 * time.Millisecond}
	n.mu.Lock()
	n.Links[id] = l
	n.mu.Unlock()
	return l
}

// SetBackends sets (or replaces, after a node restart) the backend of each side. nil keeps the old one.
func (l *Link) SetBackends(a, b *Backend) {
	l.mu.Lock()
	if a != nil {
		l.beA = a
	}
	if b != nil {
		l.beB = b
	}
	l.mu.Unlock()
}

// SetPlan replaces the fault plan (applies to messages sent from now on).
func (l *Link) SetPlan(p Plan) { l.mu.Lock(); l.plan = p; l.mu.Unlock() }

// GetPlan returns the current plan.
func (l *Link) GetPlan() Plan { l.mu.Lock(); defer l.mu.Unlock(); return l.plan }

// IsUp reports the planned state.
func (l *Link) IsUp() bool { l.mu.Lock(); defer l.mu.Unlock(); return l.up }

// Silence makes the link carry nothing in the given directions while sessions stay open.
func (l *Link) Silence(ab, ba bool) { l.silentAB.Store(ab); l.silentBA.Store(ba) }

// Up starts the redial loop.
func (l *Link) Up() {
	l.mu.Lock()
	if l.up {
		l.mu.Unlock()
		return
	}
	l.up = true
	l.stop = make(chan struct{})
	l.done = make(chan struct{})
	stop, done := l.stop, l.done
	l.mu.Unlock()
	l.Silence(false, false)
	go l.redialLoop(stop, done)
}

// Down closes the current session (both ends see an error, like a closed TCP connection) and stops redialling.
func (l *Link) Down() {
	l.mu.Lock()
	if !l.up {
		l.mu.Unlock()
		return
	}
	l.up = false
	close(l.stop)
	cur := l.cur
	done := l.done
	l.mu.Unlock()
	if cur != nil {
		cur.closeBoth()
	}
	<-done
}

// Kick closes the current session without changing the plan (a flap).
func (l *Link) Kick() {
	l.mu.Lock()
	cur := l.cur
	l.mu.Unlock()
	if cur != nil {
		cur.closeBoth()
	}
}

func (l *Link) redialLoop(stop chan struct{}, done chan struct{}) {
	defer close(done)
	gen := 0
	for {
		select {
		case <-stop:
			return
		case <-l.net.closed:
			return
		default:
		}
		l.mu.Lock()
		ba, bb := l.beA, l.beB
		l.mu.Unlock()
		if ba == nil || bb == nil || ba.Ctx().Err() != nil || bb.Ctx().Err() != nil {
			// one side is not running: a real dialer would fail to connect
			select {
			case <-stop:
				return
			case <-l.net.closed:
				return
			case <-time.After(l.Redial):
			}
			continue
		}
		p := newPair(l, gen)
		gen++
		l.mu.Lock()
		l.cur = p
		l.mu.Unlock()
		if gen > 1 {
			atomic.AddInt64(&l.net.flaps, 1)
		}
		okA := ba.Offer(p.a, stop)
		okB := false
		if okA {
			okB = bb.Offer(p.b, stop)
		}
		if !okA || !okB {
			p.closeBoth()
		}
		select {
		case <-p.closed:
		case <-stop:
			p.closeBoth()
			return
		case <-l.net.closed:
			p.closeBoth()
			return
		}
		select {
		case <-stop:
			return
		case <-l.net.closed:
			return
		case <-time.After(l.Redial):
		}
	}
}

// pair is one session pair.
type pair struct {
	l      *Link
	a, b   *Session
	closed chan struct{}
	once   sync.Once
}

func newPair(l *Link, gen int) *pair {
	p := &pair{l: l, closed: make(chan struct{})}
	p.a = newSession(p, l.A, l.B, &l.silentAB, l.seed*7919+int64(gen)*2+1)
	p.b = newSession(p, l.B, l.A, &l.silentBA, l.seed*7919+int64(gen)*2+2)
	p.a.peer, p.b.peer = p.b, p.a
	go p.a.pump()
	go p.b.pump()
	return p
}

func (p *pair) closeBoth() { p.once.Do(func() { close(p.closed) }) }

type qitem struct {
	at   time.Time
	n    uint64
	data []byte
}
type pq []qitem

func (q pq) Len() int { return len(q) }
func (q pq) Less(i, j int) bool {
	if q[i].at.Equal(q[j].at) {
		return q[i].n < q[j].n
	}
	return q[i].at.Before(q[j].at)
}
func (q pq) Swap(i, j int)       { q[i], q[j] = q[j], q[i] }
func (q *pq) Push(x interface{}) { *q = append(*q, x.(qitem)) }
func (q *pq) Pop() interface{} {
	o := *q
	x := o[len(o)-1]
	*q = o[:len(o)-1]
	return x
}

// Session is one end of a pair: the netceptor calls Send/Recv/Close on it.
type Session struct {
	p        *pair
	self     string
	other    string
	peer     *Session
	silent   *atomic.Bool
	in       chan []byte // delivered to self's Recv
	mu       sync.Mutex
	rng      *rand.Rand
	q        pq
	n        uint64
	lastData time.Time
	lastCtl  time.Time
	wake     chan struct{}
}

func newSession(p *pair, self, other string, silent *atomic.Bool, seed int64) *Session {
	return &Session{p: p, self: self, other: other, silent: silent, in: make(chan []byte, 4096),
		rng: rand.New(rand.NewSource(seed)), wake: make(chan struct{}, 1)}
}

func durBetween(r *rand.Rand, lo, hi time.Duration) time.Duration {
	if hi <= lo {
		return lo
	}
	return lo + time.Duration(r.Int63n(int64(hi-lo)+1))
}

// Send implements BackendSession: self sends towards other.
func (s *Session) Send(b []byte) error {
	select {
	case <-s.p.closed:
		return fmt.Errorf("memnet: session closed")
	default:
	}
	l := s.p.l
	l.net.tap(l.ID, s.self, s.other, "send", b)
	if s.silent.Load() {
		return nil
	}
	plan := l.GetPlan()
	isData := len(b) > 0 && b[0] == 0
	s.mu.Lock()
	var drop, dup float64
	var dmin, dmax time.Duration
	var reorder bool
	if isData {
		drop, dup, dmin, dmax, reorder = plan.DataDrop, plan.DataDup, plan.DataDelayMin, plan.DataDelayMax, plan.DataReorder
	} else {
		drop, dup, dmin, dmax, reorder = plan.CtlDrop, plan.CtlDup, plan.CtlDelayMin, plan.CtlDelayMax, plan.CtlReorder
		if len(b) > 0 && b[0] == 2 && plan.Type2Reorder {
			reorder = true
		}
		if len(b) > 0 && b[0] == 2 && dmin < plan.Type2MinWait {
			dmin = plan.Type2MinWait
			if dmax < dmin {
				dmax = dmin
			}
		}
	}
	copies := 1
	if drop > 0 && s.rng.Float64() < drop {
		copies = 0
	} else if dup > 0 && s.rng.Float64() < dup {
		copies = 2
	}
	now := time.Now()
	for i := 0; i < copies; i++ {
		at := now.Add(durBetween(s.rng, dmin, dmax))
		if !reorder {
			if isData {
				if at.Before(s.lastData) {
					at = s.lastData
				}
				s.lastData = at
			} else {
				if at.Before(s.lastCtl) {
					at = s.lastCtl
				}
				s.lastCtl = at
			}
		}
		s.n++
		heap.Push(&s.q, qitem{at: at, n: s.n, data: append([]byte(nil), b...)})
	}
	s.mu.Unlock()
	if copies == 0 {
		l.net.tap(l.ID, s.self, s.other, "drop", b)
		return nil
	}
	if copies == 2 {
		l.net.tap(l.ID, s.self, s.other, "dup", b)
	}
	select {
	case s.wake <- struct{}{}:
	default:
	}
	return nil
}

// pump delivers queued messages of this sender to the peer's inbox at their due time.
func (s *Session) pump() {
	for {
		s.mu.Lock()
		var wait time.Duration = -1
		var it qitem
		have := false
		if len(s.q) > 0 {
			d := time.Until(s.q[0].at)
			if d <= 0 {
				it = heap.Pop(&s.q).(qitem)
				have = true
			} else {
				wait = d
			}
		}
		s.mu.Unlock()
		if have {
			l := s.p.l
			// The "recv" tap is logged BEFORE the datagram is handed over, so that in the tap log every
			// receive precedes all of its consequences (a logged receive on a closing session may not
			// actually be processed; monitors treat "recv" as "may have been received").
			l.net.tap(l.ID, s.self, s.other, "recv", it.data)
			select {
			case s.peer.in <- it.data:
			case <-s.p.closed:
				return
			}
			continue
		}
		var tc <-chan time.Time
		if wait >= 0 {
			t := time.NewTimer(wait)
			tc = t.C
			select {
			case <-tc:
			case <-s.wake:
				t.Stop()
			case <-s.p.closed:
				t.Stop()
				return
			}
		} else {
			select {
			case <-s.wake:
			case <-s.p.closed:
				return
			}
		}
	}
}

// Recv implements BackendSession.
func (s *Session) Recv(d time.Duration) ([]byte, error) {
	select {
	case b := <-s.in:
		return b, nil
	default:
	}
	t := time.NewTimer(d)
	defer t.Stop()
	select {
	case b := <-s.in:
		return b, nil
	case <-s.p.closed:
		return nil, io.EOF
	case <-t.C:
		return nil, netceptor.ErrTimeout
	}
}

// Close implements BackendSession: closing either end ends the pair (like TCP).
func (s *Session) Close() error {
	s.p.closeBoth()
	return nil
}
