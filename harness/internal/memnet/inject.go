package memnet

// TapInject logs a synthetic tap event (ordered with all others), for traffic that does not
// cross a memnet link, e.g. datagrams handed to a node by a scripted session.
func (n *Net) TapInject(link, from, to, dir string, data []byte) { n.tap(link, from, to, dir, data) }
