package memnet

import (
	"context"
	"io"
	"sync"
	"time"

	"github.com/ansible/receptor/pkg/netceptor"
)

// Scripted is a BackendSession driven by the harness. Everything the node writes to it
// is recorded; Deliver hands a datagram to the node; Barrier waits until the node's
// protocol loop has finished processing everything delivered before.
type Scripted struct {
	Name       string
	toNode     chan scriptedMsg
	mu         sync.Mutex
	cond       *sync.Cond
	got        []GotMsg
	recvCnt    int
	closed     chan struct{}
	once       sync.Once
	nodeClosed bool
	OnSend     func(b []byte) // optional synchronous observer (called without lock)
	start      time.Time
}

type scriptedMsg struct {
	data []byte
	ack  chan int
}

// GotMsg is a datagram written by the node to the scripted peer.
type GotMsg struct {
	T    time.Duration
	Data []byte
}

// NewScripted creates a scripted session.
func NewScripted(name string) *Scripted {
	s := &Scripted{Name: name, toNode: make(chan scriptedMsg), closed: make(chan struct{}), start: time.Now()}
	s.cond = sync.NewCond(&s.mu)
	return s
}

// Send is called by the node.
func (s *Scripted) Send(b []byte) error {
	select {
	case <-s.closed:
		return io.ErrClosedPipe
	default:
	}
	c := append([]byte(nil), b...)
	s.mu.Lock()
	s.got = append(s.got, GotMsg{T: time.Since(s.start), Data: c})
	s.cond.Broadcast()
	s.mu.Unlock()
	if s.OnSend != nil {
		s.OnSend(c)
	}
	return nil
}

// Recv is called by the node.
func (s *Scripted) Recv(d time.Duration) ([]byte, error) {
	s.mu.Lock()
	s.recvCnt++
	call := s.recvCnt
	s.cond.Broadcast()
	s.mu.Unlock()
	t := time.NewTimer(d)
	defer t.Stop()
	select {
	case m := <-s.toNode:
		m.ack <- call
		return m.data, nil
	case <-s.closed:
		return nil, io.EOF
	case <-t.C:
		return nil, netceptor.ErrTimeout
	}
}

// Close is called by the node (or the harness) and ends the session.
func (s *Scripted) Close() error {
	s.once.Do(func() { close(s.closed) })
	s.mu.Lock()
	s.nodeClosed = true
	s.cond.Broadcast()
	s.mu.Unlock()
	return nil
}

// Closed reports whether the session has ended.
func (s *Scripted) Closed() bool {
	select {
	case <-s.closed:
		return true
	default:
		return false
	}
}

// Done returns a channel closed when the session ends.
func (s *Scripted) Done() <-chan struct{} { return s.closed }

// Deliver hands b to the node; returns false if the session ended or the timeout expired first.
func (s *Scripted) Deliver(b []byte, timeout time.Duration) bool {
	return s.deliver(b, timeout) > 0
}

// deliver returns the number of the Recv call that took the datagram (0 = not delivered).
func (s *Scripted) deliver(b []byte, timeout time.Duration) int {
	t := time.NewTimer(timeout)
	defer t.Stop()
	m := scriptedMsg{data: b, ack: make(chan int, 1)}
	select {
	case s.toNode <- m:
		return <-m.ack
	case <-s.closed:
		return 0
	case <-t.C:
		return 0
	}
}

// BarrierByte is an unknown message type ignored by the protocol loop in both phases.
const BarrierByte = 0xEE

// Barrier returns true once everything delivered before has been fully processed by the
// node's protocol loop: it hands over one ignored datagram and waits for one more Recv call.
func (s *Scripted) Barrier(timeout time.Duration) bool {
	call := s.deliver([]byte{BarrierByte}, timeout)
	if call == 0 {
		return false
	}
	// The barrier datagram was taken by Recv call k. protoReader calls Recv again (k+1) only
	// after the protocol loop took the barrier from ReadChan, i.e. finished everything before.
	deadline := time.Now().Add(timeout)
	s.mu.Lock()
	defer s.mu.Unlock()
	for s.recvCnt < call+1 && !s.nodeClosed {
		if time.Now().After(deadline) {
			return false
		}
		waitCond(s.cond, 50*time.Millisecond)
	}
	return !s.nodeClosed
}

func waitCond(c *sync.Cond, d time.Duration) {
	t := time.AfterFunc(d, func() { c.Broadcast() })
	c.Wait()
	t.Stop()
}

// Got returns a copy of everything the node wrote so far.
func (s *Scripted) Got() []GotMsg {
	s.mu.Lock()
	defer s.mu.Unlock()
	return append([]GotMsg(nil), s.got...)
}

// WaitGot waits until pred is true over the received messages, or timeout.
func (s *Scripted) WaitGot(pred func([]GotMsg) bool, timeout time.Duration) bool {
	deadline := time.Now().Add(timeout)
	s.mu.Lock()
	defer s.mu.Unlock()
	for !pred(s.got) {
		if time.Now().After(deadline) {
			return false
		}
		waitCond(s.cond, 20*time.Millisecond)
	}
	return true
}

// OneShotBackend is a backend that offers exactly the given sessions.
type OneShotBackend struct {
	sessions []netceptor.BackendSession
}

// NewOneShot creates a backend offering the sessions once.
func NewOneShot(ss ...netceptor.BackendSession) *OneShotBackend {
	return &OneShotBackend{sessions: ss}
}

// Start implements netceptor.Backend.
func (b *OneShotBackend) Start(_ context.Context, _ *sync.WaitGroup) (chan netceptor.BackendSession, error) {
	ch := make(chan netceptor.BackendSession, len(b.sessions))
	for _, s := range b.sessions {
		ch <- s
	}
	return ch, nil
}
