// Package wire is the harness's own encoder/decoder of the receptor backend wire
// format, written from the protocol description (DESIGN.md appendix A), not imported
// from receptor. HighwayHash is a third-party module, not receptor code.
package wire

import (
	"encoding/binary"
	"encoding/json"
	"fmt"
	"time"

	"github.com/minio/highwayhash"
)

const (
	TData   = 0
	TRoute  = 1
	TAdvert = 2
	TReject = 3
)

var zeroKey = make([]byte, 32)

// Hash returns the 64-bit node hash used in data headers.
func Hash(name string) uint64 {
	h, _ := highwayhash.New64(zeroKey)
	_, _ = h.Write([]byte(name))
	return h.Sum64()
}

// Data is a decoded data packet.
type Data struct {
	TTL         byte
	FromHash    uint64
	ToHash      uint64
	FromService string
	ToService   string
	Payload     []byte
}

func fixed8(s string) []byte {
	b := make([]byte, 8)
	copy(b, s)
	return b
}

func unfixed8(b []byte) string {
	n := len(b)
	for n > 0 && b[n-1] == 0 {
		n--
	}
	return string(b[:n])
}

// EncodeData builds a type-0 datagram.
func EncodeData(ttl byte, fromNode, toNode, fromSvc, toSvc string, payload []byte) []byte {
	b := make([]byte, 36+len(payload))
	b[0] = TData
	b[1] = ttl
	binary.BigEndian.PutUint64(b[4:12], Hash(fromNode))
	binary.BigEndian.PutUint64(b[12:20], Hash(toNode))
	copy(b[20:28], fixed8(fromSvc))
	copy(b[28:36], fixed8(toSvc))
	copy(b[36:], payload)
	return b
}

// DecodeData parses a type-0 datagram.
func DecodeData(b []byte) (*Data, error) {
	if len(b) < 36 || b[0] != TData {
		return nil, fmt.Errorf("not a data packet")
	}
	return &Data{
		TTL:         b[1],
		FromHash:    binary.BigEndian.Uint64(b[4:12]),
		ToHash:      binary.BigEndian.Uint64(b[12:20]),
		FromService: unfixed8(b[20:28]),
		ToService:   unfixed8(b[28:36]),
		Payload:     b[36:],
	}, nil
}

// Route is a type-1 routing update.
type Route struct {
	NodeID             string
	UpdateID           string
	UpdateEpoch        uint64
	UpdateSequence     uint64
	Connections        map[string]float64
	ForwardingNode     string
	SuspectedDuplicate uint64
}

// EncodeRoute builds a type-1 datagram.
func EncodeRoute(r *Route) []byte {
	b, _ := json.Marshal(r)
	return append([]byte{TRoute}, b...)
}

// DecodeRoute parses a type-1 datagram.
func DecodeRoute(b []byte) (*Route, error) {
	if len(b) < 1 || b[0] != TRoute {
		return nil, fmt.Errorf("not a routing update")
	}
	r := &Route{}
	if err := json.Unmarshal(b[1:], r); err != nil {
		return nil, err
	}
	return r, nil
}

// Advert is a type-2 service advertisement.
type Advert struct {
	NodeID       string
	Service      string
	Time         time.Time
	ConnType     byte
	Tags         map[string]string
	WorkCommands []map[string]any
	Cancel       bool
}

// EncodeAdvert builds a type-2 datagram.
func EncodeAdvert(a *Advert) []byte {
	b, _ := json.Marshal(a)
	return append([]byte{TAdvert}, b...)
}

// DecodeAdvert parses a type-2 datagram.
func DecodeAdvert(b []byte) (*Advert, error) {
	if len(b) < 1 || b[0] != TAdvert {
		return nil, fmt.Errorf("not an advertisement")
	}
	a := &Advert{}
	if err := json.Unmarshal(b[1:], a); err != nil {
		return nil, err
	}
	return a, nil
}

// Unreach is the JSON body of the reserved service "unreach".
type Unreach struct {
	FromNode    string
	ToNode      string
	FromService string
	ToService   string
	Problem     string
}

// Frame prefixes a datagram with the stream backends' uint16 little-endian length.
func Frame(b []byte) []byte {
	out := make([]byte, 2+len(b))
	binary.LittleEndian.PutUint16(out, uint16(len(b)))
	copy(out[2:], b)
	return out
}
