// Package ctl drives real receptor daemon processes: a supervisor that starts / kills /
// restarts the daemon binary built from /repo, a control-service client, and a TCP proxy
// that can cut, heal and observe the backend links between daemons.
package ctl

import (
	"fmt"
	"net"
	"os"
	"os/exec"
	"path/filepath"
	"strings"
	"sync"
	"syscall"
	"time"

	"verif/harness/internal/child"
)

// WorkCmd is one --work-command entry.
type WorkCmd struct {
	Type         string
	Command      string
	Params       string
	AllowRuntime bool
	Verify       bool
}

// Cfg describes a daemon.
type Cfg struct {
	ID         string
	Dir        string // working directory of this daemon: data/, ctl.sock, *.out
	TCPCtl     bool   // also serve the control service on a loopback TCP port
	Listen     bool   // run a TCP backend listener on a loopback port
	ListenCost float64
	Peers      []string // backend addresses to dial (host:port)
	Work       []WorkCmd
	SigningKey string
	VerifyKey  string
	Extra      []string // extra raw command-line words
	Env        []string // extra environment (VERIF_POINTS=..., ...)
	LogLevel   string
	NoService  bool // do not listen on the mesh service "control"
	// IgnoreSIGINT starts the daemon with SIGINT ignored, the disposition a daemon inherits under nohup or as a
	// background job of a non-interactive shell (and passes on to its command runners).
	IgnoreSIGINT bool
}

// Daemon is a supervised daemon process.
type Daemon struct {
	Cfg
	Bin        string
	Wrap       []string // optional wrapper command (e.g. strace ...) in front of the daemon binary
	CtlPort    int
	ListenPort int
	mu         sync.Mutex
	cmd        *exec.Cmd
	done       chan struct{}
	gen        int
	outFile    string
	exitErr    error
}

// FreePort asks the OS for a free loopback TCP port.
func FreePort() int {
	l, err := net.Listen("tcp", "127.0.0.1:0")
	if err != nil {
		return 0
	}
	defer l.Close()
	return l.Addr().(*net.TCPAddr).Port
}

// NewDaemon prepares a daemon (ports are allocated once and kept across restarts).
func NewDaemon(cfg Cfg) *Daemon {
	d := &Daemon{Cfg: cfg, Bin: os.Getenv("VERIF_DAEMON")}
	_ = os.MkdirAll(filepath.Join(cfg.Dir, "data"), 0o755)
	if cfg.TCPCtl {
		d.CtlPort = FreePort()
	}
	if cfg.Listen {
		d.ListenPort = FreePort()
	}
	return d
}

// Sock returns the Unix control socket path.
func (d *Daemon) Sock() string { return filepath.Join(d.Dir, "ctl.sock") }

// DataDir returns the directory holding the unit directories of this node.
func (d *Daemon) DataDir() string { return filepath.Join(d.Dir, "data", d.ID) }

// OutFile returns the output file of the current (or last) process generation.
func (d *Daemon) OutFile() string { d.mu.Lock(); defer d.mu.Unlock(); return d.outFile }

func (d *Daemon) args() []string {
	lvl := d.LogLevel
	if lvl == "" {
		lvl = "warning"
	}
	a := []string{"--node", "id=" + d.ID, "datadir=" + filepath.Join(d.Dir, "data"), "--log-level", lvl}
	for _, w := range d.Work {
		wa := []string{"--work-command", "worktype=" + w.Type, "command=" + w.Command}
		if w.Params != "" {
			wa = append(wa, "params="+w.Params)
		}
		if w.AllowRuntime {
			wa = append(wa, "allowruntimeparams=true")
		}
		if w.Verify {
			wa = append(wa, "verifysignature=true")
		}
		a = append(a, wa...)
	}
	if d.SigningKey != "" {
		a = append(a, "--work-signing", "privatekey="+d.SigningKey)
	}
	if d.VerifyKey != "" {
		a = append(a, "--work-verification", "publickey="+d.VerifyKey)
	}
	cs := []string{"--control-service", "filename=" + d.Sock()}
	if d.NoService {
		cs = append(cs, "service=")
	} else {
		cs = append(cs, "service=control")
	}
	if d.TCPCtl {
		cs = append(cs, fmt.Sprintf("tcplisten=127.0.0.1:%d", d.CtlPort))
	}
	a = append(a, cs...)
	if d.Listen {
		la := []string{"--tcp-listener", "bindaddr=127.0.0.1", fmt.Sprintf("port=%d", d.ListenPort)}
		if d.ListenCost > 0 {
			la = append(la, fmt.Sprintf("cost=%g", d.ListenCost))
		}
		a = append(a, la...)
	}
	for _, p := range d.Peers {
		a = append(a, "--tcp-peer", "address="+p)
	}
	if !d.Listen && len(d.Peers) == 0 {
		a = append(a, "--local-only")
	}
	a = append(a, d.Extra...)
	return a
}

// Start launches the daemon with extra environment env (in addition to Cfg.Env) and waits
// until its Unix control socket greets. It returns an error if the process exits or the
// socket does not come up within the watchdog.
func (d *Daemon) Start(env ...string) error {
	var err error
	for attempt := 0; attempt < 3; attempt++ {
		err = d.startOnce(env...)
		if err == nil || !strings.Contains(err.Error(), "address already in use") {
			return err
		}
		// the port picked earlier was taken by someone else in the meantime: pick again
		if d.TCPCtl {
			d.CtlPort = FreePort()
		}
		if d.Listen && attempt > 0 {
			// the backend port is referenced by peers/proxies; change it only as a last resort
			d.ListenPort = FreePort()
		}
		time.Sleep(200 * time.Millisecond)
	}
	return err
}

func (d *Daemon) startOnce(env ...string) error {
	d.mu.Lock()
	if d.cmd != nil {
		d.mu.Unlock()
		return fmt.Errorf("already running")
	}
	d.gen++
	_ = os.Remove(d.Sock())
	_ = os.Remove(d.Sock() + ".lock")
	out := filepath.Join(d.Dir, fmt.Sprintf("daemon-%d.out", d.gen))
	f, err := os.Create(out)
	if err != nil {
		d.mu.Unlock()
		return err
	}
	bin, args := d.Bin, d.args()
	if len(d.Wrap) > 0 {
		args = append(append([]string{}, d.Wrap[1:]...), append([]string{d.Bin}, args...)...)
		bin = d.Wrap[0]
	}
	if d.IgnoreSIGINT && len(d.Wrap) == 0 {
		// an ignored signal stays ignored across exec; the shell is replaced by the daemon (same pid)
		args = append([]string{"-c", `trap "" INT; exec "$@"`, "sh", bin}, args...)
		bin = "/bin/sh"
	}
	cmd := exec.Command(bin, args...)
	cmd.Stdout = f
	cmd.Stderr = f
	cmd.Dir = d.Dir
	cmd.Env = append(os.Environ(), "GORACE=halt_on_error=0 exitcode=0 log_path="+filepath.Join(d.Dir, "race-"+d.ID))
	cmd.Env = append(cmd.Env, d.Env...)
	cmd.Env = append(cmd.Env, env...)
	cmd.SysProcAttr = &syscall.SysProcAttr{Setpgid: true}
	if err := cmd.Start(); err != nil {
		f.Close()
		d.mu.Unlock()
		return err
	}
	d.cmd = cmd
	d.outFile = out
	done := make(chan struct{})
	d.done = done
	d.mu.Unlock()
	go func() {
		err := cmd.Wait()
		f.Close()
		d.mu.Lock()
		d.exitErr = err
		if d.cmd == cmd {
			d.cmd = nil
		}
		d.mu.Unlock()
		close(done)
	}()
	deadline := time.Now().Add(60 * time.Second)
	for time.Now().Before(deadline) {
		select {
		case <-done:
			return fmt.Errorf("daemon %s exited during start-up: %s", d.ID, tailOf(out, 700))
		default:
		}
		c, err := DialUnix(d.Sock(), 2*time.Second)
		if err == nil {
			c.Close()
			return nil
		}
		time.Sleep(50 * time.Millisecond)
	}
	return fmt.Errorf("daemon %s: control socket did not come up within 60 s: %s", d.ID, tailOf(out, 700))
}

// Alive reports whether the process is running.
func (d *Daemon) Alive() bool {
	d.mu.Lock()
	defer d.mu.Unlock()
	return d.cmd != nil
}

// Pid returns the pid of the running process (0 if none).
func (d *Daemon) Pid() int {
	d.mu.Lock()
	defer d.mu.Unlock()
	if d.cmd == nil || d.cmd.Process == nil {
		return 0
	}
	return d.cmd.Process.Pid
}

// Done returns a channel closed when the current process has exited (nil if none was started).
func (d *Daemon) Done() <-chan struct{} { d.mu.Lock(); defer d.mu.Unlock(); return d.done }

// WaitExit waits up to limit for the process to exit.
func (d *Daemon) WaitExit(limit time.Duration) bool {
	done := d.Done()
	if done == nil {
		return true
	}
	select {
	case <-done:
		return true
	case <-time.After(limit):
		return false
	}
}

// Kill sends SIGKILL to the daemon process (not to its detached runners) and waits.
func (d *Daemon) Kill() {
	d.mu.Lock()
	cmd, done := d.cmd, d.done
	d.mu.Unlock()
	if cmd == nil {
		return
	}
	if len(d.Wrap) > 0 {
		// the daemon is a child of the wrapper: kill it first (its detached runners are left alone)
		for _, pid := range childPids(cmd.Process.Pid) {
			_ = syscall.Kill(pid, syscall.SIGKILL)
		}
	}
	_ = cmd.Process.Kill()
	<-done
}

func childPids(pid int) []int {
	out := []int{}
	tasks, _ := os.ReadDir(fmt.Sprintf("/proc/%d/task", pid))
	for _, t := range tasks {
		b, err := os.ReadFile(fmt.Sprintf("/proc/%d/task/%s/children", pid, t.Name()))
		if err != nil {
			continue
		}
		for _, f := range strings.Fields(string(b)) {
			c := 0
			if _, err := fmt.Sscan(f, &c); err == nil && c > 1 {
				out = append(out, c)
			}
		}
	}
	return out
}

// Dump sends SIGQUIT (goroutine dump into the output file) and waits for the exit.
func (d *Daemon) Dump() {
	d.mu.Lock()
	cmd, done := d.cmd, d.done
	d.mu.Unlock()
	if cmd == nil {
		return
	}
	_ = cmd.Process.Signal(syscall.SIGQUIT)
	select {
	case <-done:
	case <-time.After(10 * time.Second):
		_ = cmd.Process.Kill()
		<-done
	}
}

// Fatal classifies the output of the last process generation: fatal line, first receptor frame, race count.
func (d *Daemon) Fatal() (fatal, top string, races int) {
	return child.Classify(d.OutFile())
}

// OutTail returns the last n bytes of the current output file.
func (d *Daemon) OutTail(n int) string {
	b, err := os.ReadFile(d.OutFile())
	if err != nil {
		return ""
	}
	if len(b) > n {
		b = b[len(b)-n:]
	}
	return string(b)
}

// KillStrays kills every process whose command line mentions dir (runners and producers
// that outlived their daemon). Used at the end of a trial.
func KillStrays(dir string) {
	ents, _ := os.ReadDir("/proc")
	self := os.Getpid()
	for _, e := range ents {
		pid := 0
		if _, err := fmt.Sscan(e.Name(), &pid); err != nil || pid == self || pid <= 1 {
			continue
		}
		b, err := os.ReadFile(filepath.Join("/proc", e.Name(), "cmdline"))
		if err != nil {
			continue
		}
		// match the directory itself, not siblings that merely share the prefix (t1 vs t10)
		cl := string(b)
		if strings.Contains(cl, dir+"/") || strings.HasSuffix(strings.TrimRight(cl, "\x00"), dir) || strings.Contains(cl, dir+"\x00") {
			_ = syscall.Kill(pid, syscall.SIGKILL)
		}
	}
}

// PidAlive reports whether pid exists and is not a zombie.
func PidAlive(pid int) bool {
	if pid <= 0 {
		return false
	}
	b, err := os.ReadFile(fmt.Sprintf("/proc/%d/stat", pid))
	if err != nil {
		return false
	}
	s := string(b)
	i := strings.LastIndex(s, ")")
	if i < 0 || i+2 >= len(s) {
		return false
	}
	return s[i+2] != 'Z' && s[i+2] != 'X'
}

func tailOf(file string, n int) string {
	b, err := os.ReadFile(file)
	if err != nil {
		return ""
	}
	if len(b) > n {
		b = b[len(b)-n:]
	}
	return strings.ReplaceAll(string(b), "\n", " | ")
}
