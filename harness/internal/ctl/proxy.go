package ctl

import (
	"bytes"
	"fmt"
	"net"
	"sync"
	"sync/atomic"
	"time"
)

// Proxy is a loopback TCP forwarder placed between two daemons' backends. It can be cut
// (all connections closed, new ones refused) and healed, counts bytes, and keeps the
// traffic of each direction so that a monitor can search it (C19) .
type Proxy struct {
	Addr   string // where peers dial
	Target string
	l      net.Listener
	mu     sync.Mutex
	conns  map[net.Conn]struct{}
	cut    bool
	closed bool
	Bytes  atomic.Int64
	Conns  atomic.Int64
	keep   bool
	buf    bytes.Buffer
	burst  atomic.Int64
}

// NewProxy listens on a fresh loopback port and forwards to target.
func NewProxy(target string, keepTraffic bool) (*Proxy, error) {
	l, err := net.Listen("tcp", "127.0.0.1:0")
	if err != nil {
		return nil, err
	}
	p := &Proxy{Addr: l.Addr().String(), Target: target, l: l, conns: map[net.Conn]struct{}{}, keep: keepTraffic}
	go p.accept()
	return p, nil
}

func (p *Proxy) accept() {
	for {
		c, err := p.l.Accept()
		if err != nil {
			return
		}
		p.mu.Lock()
		if p.cut || p.closed {
			p.mu.Unlock()
			c.Close()
			continue
		}
		p.mu.Unlock()
		t, err := net.Dial("tcp", p.Target)
		if err != nil {
			c.Close()
			continue
		}
		p.mu.Lock()
		if p.cut || p.closed {
			p.mu.Unlock()
			c.Close()
			t.Close()
			continue
		}
		p.conns[c] = struct{}{}
		p.conns[t] = struct{}{}
		p.mu.Unlock()
		p.Conns.Add(1)
		go p.pipe(c, t)
		go p.pipe(t, c)
	}
}

// SetBurst makes the proxy a bursty link: bytes are held back and forwarded only at ticks d apart (everything that
// arrived since the last tick goes out back to back). 0 switches it off. Applies to connections made afterwards.
func (p *Proxy) SetBurst(d time.Duration) { p.burst.Store(int64(d)) }

func (p *Proxy) pipe(a, b net.Conn) {
	buf := make([]byte, 32768)
	burst := time.Duration(p.burst.Load())
	var pmu sync.Mutex
	var pending []byte
	stop := make(chan struct{})
	if burst > 0 {
		go func() {
			t := time.NewTicker(burst)
			defer t.Stop()
			for {
				select {
				case <-stop:
					return
				case <-t.C:
					pmu.Lock()
					out := pending
					pending = nil
					pmu.Unlock()
					if len(out) > 0 {
						if _, werr := b.Write(out); werr != nil {
							a.Close()
							return
						}
					}
				}
			}
		}()
	}
	for {
		n, err := a.Read(buf)
		if n > 0 {
			p.Bytes.Add(int64(n))
			if p.keep {
				p.mu.Lock()
				p.buf.Write(buf[:n])
				p.mu.Unlock()
			}
			if burst > 0 {
				pmu.Lock()
				pending = append(pending, buf[:n]...)
				pmu.Unlock()
			} else if _, werr := b.Write(buf[:n]); werr != nil {
				break
			}
		}
		if err != nil {
			break
		}
	}
	close(stop)
	a.Close()
	b.Close()
	p.mu.Lock()
	delete(p.conns, a)
	delete(p.conns, b)
	p.mu.Unlock()
}

// Cut closes every connection and refuses new ones until Heal.
func (p *Proxy) Cut() {
	p.mu.Lock()
	p.cut = true
	cs := []net.Conn{}
	for c := range p.conns {
		cs = append(cs, c)
	}
	p.mu.Unlock()
	for _, c := range cs {
		c.Close()
	}
}

// Heal lets new connections through again.
func (p *Proxy) Heal() { p.mu.Lock(); p.cut = false; p.mu.Unlock() }

// Traffic returns a copy of all bytes seen (both directions) if keepTraffic was set.
func (p *Proxy) Traffic() []byte {
	p.mu.Lock()
	defer p.mu.Unlock()
	return append([]byte(nil), p.buf.Bytes()...)
}

// Close stops the proxy.
func (p *Proxy) Close() {
	p.mu.Lock()
	p.closed = true
	p.mu.Unlock()
	p.l.Close()
	p.Cut()
}

func (p *Proxy) String() string { return fmt.Sprintf("proxy %s -> %s", p.Addr, p.Target) }
