package ctl

import (
	"encoding/binary"
	"net"
	"sync"
	"sync/atomic"
)

// Tap is a loopback TCP forwarder placed on one backend link between two daemons (like
// Proxy) that additionally re-assembles the stream backends' frames (uint16 little-endian
// length + datagram, see DESIGN Appendix A) separately for each direction and hands every
// complete datagram to an observer. Mesh sessions are QUIC connections, so the payload of
// data datagrams is always encrypted: a monitor that wants to know whether a node sent
// anything towards a remote service has to look at the datagram headers (type byte,
// to-service), not search the bytes. The observer is called from the forwarding
// goroutines (one per direction and connection) and must be thread-safe.
type Tap struct {
	Addr   string // where the dialing daemon connects
	Target string
	l      net.Listener
	mu     sync.Mutex
	conns  map[net.Conn]struct{}
	closed bool
	obs    func(dir int, datagram []byte)
	Bytes  [2]atomic.Int64 // raw bytes per direction
	Frames [2]atomic.Int64 // complete datagrams per direction
	Conns  atomic.Int64
}

// Directions of a Tap.
const (
	TapDialerToTarget = 0
	TapTargetToDialer = 1
)

// NewTap listens on a fresh loopback port and forwards to target. obs may be nil.
func NewTap(target string, obs func(dir int, datagram []byte)) (*Tap, error) {
	l, err := net.Listen("tcp", "127.0.0.1:0")
	if err != nil {
		return nil, err
	}
	t := &Tap{Addr: l.Addr().String(), Target: target, l: l, conns: map[net.Conn]struct{}{}, obs: obs}
	go t.accept()
	return t, nil
}

func (t *Tap) accept() {
	for {
		c, err := t.l.Accept()
		if err != nil {
			return
		}
		d, err := net.Dial("tcp", t.Target)
		if err != nil {
			c.Close()
			continue
		}
		t.mu.Lock()
		if t.closed {
			t.mu.Unlock()
			c.Close()
			d.Close()
			continue
		}
		t.conns[c] = struct{}{}
		t.conns[d] = struct{}{}
		t.mu.Unlock()
		t.Conns.Add(1)
		go t.pipe(c, d, TapDialerToTarget)
		go t.pipe(d, c, TapTargetToDialer)
	}
}

func (t *Tap) pipe(a, b net.Conn, dir int) {
	buf := make([]byte, 65536)
	var acc []byte
	for {
		n, err := a.Read(buf)
		if n > 0 {
			t.Bytes[dir].Add(int64(n))
			acc = append(acc, buf[:n]...)
			for len(acc) >= 2 {
				l := int(binary.LittleEndian.Uint16(acc))
				if len(acc) < 2+l {
					break
				}
				t.Frames[dir].Add(1)
				if t.obs != nil {
					t.obs(dir, acc[2:2+l])
				}
				acc = acc[2+l:]
			}
			if len(acc) == 0 {
				acc = nil
			}
			if _, werr := b.Write(buf[:n]); werr != nil {
				break
			}
		}
		if err != nil {
			break
		}
	}
	a.Close()
	b.Close()
	t.mu.Lock()
	delete(t.conns, a)
	delete(t.conns, b)
	t.mu.Unlock()
}

// Close stops the tap and closes every connection.
func (t *Tap) Close() {
	t.mu.Lock()
	t.closed = true
	cs := []net.Conn{}
	for c := range t.conns {
		cs = append(cs, c)
	}
	t.mu.Unlock()
	t.l.Close()
	for _, c := range cs {
		c.Close()
	}
}
