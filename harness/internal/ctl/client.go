package ctl

import (
	"bufio"
	"encoding/json"
	"fmt"
	"io"
	"net"
	"regexp"
	"strings"
	"sync"
	"time"
)

// Client is one control-service session. Every byte received is appended to Transcript.
type Client struct {
	C        net.Conn
	R        *bufio.Reader
	Greeting string
	Kind     string // unix | tcp | mesh
	mu       sync.Mutex
	tr       []byte
}

type teeReader struct {
	c  net.Conn
	cl *Client
}

func (t teeReader) Read(p []byte) (int, error) {
	n, err := t.c.Read(p)
	if n > 0 {
		t.cl.mu.Lock()
		t.cl.tr = append(t.cl.tr, p[:n]...)
		t.cl.mu.Unlock()
	}
	return n, err
}

// Transcript returns everything the daemon wrote on this session so far.
func (c *Client) Transcript() []byte {
	c.mu.Lock()
	defer c.mu.Unlock()
	return append([]byte(nil), c.tr...)
}

// FromConn wraps an established connection and reads the greeting line.
func FromConn(conn net.Conn, kind string, timeout time.Duration) (*Client, error) {
	c := &Client{C: conn, Kind: kind}
	c.R = bufio.NewReaderSize(teeReader{conn, c}, 1<<16)
	_ = conn.SetReadDeadline(time.Now().Add(timeout))
	g, err := c.R.ReadString('\n')
	if err != nil {
		conn.Close()
		return nil, fmt.Errorf("greeting: %w", err)
	}
	_ = conn.SetReadDeadline(time.Time{})
	c.Greeting = g
	if !strings.HasPrefix(g, "Receptor Control, node ") {
		conn.Close()
		return nil, fmt.Errorf("unexpected greeting %q", g)
	}
	return c, nil
}

// DialUnix opens a session on a Unix control socket.
func DialUnix(path string, timeout time.Duration) (*Client, error) {
	conn, err := net.DialTimeout("unix", path, timeout)
	if err != nil {
		return nil, err
	}
	return FromConn(conn, "unix", timeout)
}

// DialTCP opens a session on a TCP control listener.
func DialTCP(addr string, timeout time.Duration) (*Client, error) {
	conn, err := net.DialTimeout("tcp", addr, timeout)
	if err != nil {
		return nil, err
	}
	return FromConn(conn, "tcp", timeout)
}

// Close closes the session.
func (c *Client) Close() {
	if cc, ok := c.C.(interface{ CloseConnection() error }); ok {
		_ = cc.CloseConnection()
		return
	}
	_ = c.C.Close()
}

// Send writes raw bytes.
func (c *Client) Send(b []byte, timeout time.Duration) error {
	_ = c.C.SetWriteDeadline(time.Now().Add(timeout))
	_, err := c.C.Write(b)
	_ = c.C.SetWriteDeadline(time.Time{})
	return err
}

// ReadLine reads one reply line (without the newline).
func (c *Client) ReadLine(timeout time.Duration) (string, error) {
	_ = c.C.SetReadDeadline(time.Now().Add(timeout))
	defer c.C.SetReadDeadline(time.Time{})
	s, err := c.R.ReadString('\n')
	if err != nil {
		return s, err
	}
	return strings.TrimRight(s, "\n"), nil
}

// Line sends one request line and reads one reply line.
func (c *Client) Line(cmd string, timeout time.Duration) (string, error) {
	if err := c.Send([]byte(cmd+"\n"), timeout); err != nil {
		return "", err
	}
	return c.ReadLine(timeout)
}

// JSON sends a JSON request and reads one reply line.
func (c *Client) JSON(req map[string]any, timeout time.Duration) (string, error) {
	b, _ := json.Marshal(req)
	return c.Line(string(b), timeout)
}

// HalfClose closes the writing side of the session.
func (c *Client) HalfClose() error {
	switch cc := c.C.(type) {
	case *net.UnixConn:
		return cc.CloseWrite()
	case *net.TCPConn:
		return cc.CloseWrite()
	default:
		// a mesh stream: Close() closes the writing side only
		return c.C.Close()
	}
}

var ackRe = regexp.MustCompile(`^Work unit created with ID ([a-zA-Z0-9]+)\. Send stdin data and EOF\.$`)

// SubmitResult is the outcome of a work submit exchange.
type SubmitResult struct {
	UnitID string // from the acknowledgement line ("" if refused)
	Ack    string // first reply line
	Final  string // reply line after the payload ("" if none was read)
	Err    error  // transport error, if any
}

// Submit sends a submit request (a plain line or a JSON object), and if acknowledged the
// payload followed by a half-close, then reads the final reply. The session is used up.
func (c *Client) Submit(req any, payload []byte, timeout time.Duration) SubmitResult {
	var line string
	switch r := req.(type) {
	case string:
		line = r
	default:
		b, _ := json.Marshal(r)
		line = string(b)
	}
	res := SubmitResult{}
	res.Ack, res.Err = c.Line(line, timeout)
	if res.Err != nil {
		return res
	}
	m := ackRe.FindStringSubmatch(res.Ack)
	if m == nil {
		return res
	}
	res.UnitID = m[1]
	if len(payload) > 0 {
		if res.Err = c.Send(payload, timeout); res.Err != nil {
			return res
		}
	}
	if res.Err = c.HalfClose(); res.Err != nil {
		return res
	}
	res.Final, res.Err = c.ReadLine(timeout)
	if res.Err == io.EOF && res.Final != "" {
		res.Err = nil
	}
	return res
}

// ResultsStart sends a results request (plain line or JSON object) and reads the first reply line.
// If it is the "Streaming results" line, the raw output follows on c.R until EOF.
func (c *Client) ResultsStart(req any, timeout time.Duration) (string, error) {
	var line string
	switch r := req.(type) {
	case string:
		line = r
	default:
		b, _ := json.Marshal(r)
		line = string(b)
	}
	return c.Line(line, timeout)
}

// Status parses a `work status` / entry of `work list` reply.
type Status struct {
	State      int
	StateName  string
	Detail     string
	StdoutSize int64
	WorkType   string
	ExtraData  map[string]any
	Raw        string
}

// ParseStatus decodes one status object.
func ParseStatus(line string) (*Status, error) {
	if strings.HasPrefix(line, "ERROR") {
		return nil, fmt.Errorf("%s", line)
	}
	var m map[string]any
	if err := json.Unmarshal([]byte(line), &m); err != nil {
		return nil, fmt.Errorf("unparseable status %q: %w", line, err)
	}
	return statusFromMap(m, line)
}

func statusFromMap(m map[string]any, raw string) (*Status, error) {
	st := &Status{Raw: raw}
	f, ok := m["State"].(float64)
	if !ok {
		return nil, fmt.Errorf("status without State: %q", raw)
	}
	st.State = int(f)
	st.StateName, _ = m["StateName"].(string)
	st.Detail, _ = m["Detail"].(string)
	if s, ok := m["StdoutSize"].(float64); ok {
		st.StdoutSize = int64(s)
	}
	st.WorkType, _ = m["WorkType"].(string)
	st.ExtraData, _ = m["ExtraData"].(map[string]any)
	return st, nil
}

// ParseList decodes a `work list` reply into unit id -> status.
func ParseList(line string) (map[string]*Status, error) {
	if strings.HasPrefix(line, "ERROR") {
		return nil, fmt.Errorf("%s", line)
	}
	var m map[string]map[string]any
	if err := json.Unmarshal([]byte(line), &m); err != nil {
		return nil, fmt.Errorf("unparseable list %q: %w", trunc(line, 200), err)
	}
	out := map[string]*Status{}
	for id, sm := range m {
		st, err := statusFromMap(sm, "")
		if err != nil {
			return nil, fmt.Errorf("unit %s: %w", id, err)
		}
		out[id] = st
	}
	return out, nil
}

func trunc(s string, n int) string {
	if len(s) > n {
		return s[:n] + "..."
	}
	return s
}

// Final reports whether state is a finished state (2 succeeded, 3 failed, 4 cancelled).
func Final(state int) bool { return state >= 2 && state <= 4 }
