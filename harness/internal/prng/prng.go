// Package prng is a stateless counter-mode byte stream: byte i of stream `seed` is a pure
// function of (seed, i), so producers and checkers regenerate any range independently.
package prng

func mix(x uint64) uint64 {
	x += 0x9e3779b97f4a7c15
	x = (x ^ (x >> 30)) * 0xbf58476d1ce4e5b9
	x = (x ^ (x >> 27)) * 0x94d049bb133111eb
	return x ^ (x >> 31)
}

// Fill writes stream[off : off+len(buf)] into buf.
func Fill(seed uint64, off int64, buf []byte) {
	for i := range buf {
		p := uint64(off) + uint64(i)
		w := mix(seed*0x2545F4914F6CDD1D + p/8)
		buf[i] = byte(w >> (8 * (p % 8)))
	}
}

// Bytes returns stream[off : off+n].
func Bytes(seed uint64, off int64, n int) []byte {
	b := make([]byte, n)
	Fill(seed, off, b)
	return b
}

// FirstDiff compares got with stream[off:]; returns -1 if equal, else the index of the first difference.
func FirstDiff(seed uint64, off int64, got []byte) int {
	const blk = 4096
	tmp := make([]byte, blk)
	for p := 0; p < len(got); p += blk {
		n := len(got) - p
		if n > blk {
			n = blk
		}
		Fill(seed, off+int64(p), tmp[:n])
		for i := 0; i < n; i++ {
			if tmp[i] != got[p+i] {
				return p + i
			}
		}
	}
	return -1
}
