// Package ev is the verdict / evidence / known-findings layer shared by every monitor.
//
// A monitor creates one Run, reports what it observed (Eval, Distinct, Count, Sample),
// reports violations with a *key* (a specific signature built from what the harness
// controls) and finally calls Finish, which writes /verif/evidence/<id>.json, prints the
// KNOWN-FINDING / VIOLATION / INCONCLUSIVE lines and exits with the contract's status.
package ev

import (
	"bufio"
	"encoding/json"
	"fmt"
	"os"
	"path/filepath"
	"sort"
	"strconv"
	"strings"
	"sync"
	"time"
)

// Root is the /verif directory (overridable for tests of the harness itself).
func Root() string {
	if r := os.Getenv("VERIF_ROOT"); r != "" {
		return r
	}
	return "/verif"
}

type violation struct {
	Key     string `json:"key"`
	What    string `json:"what"`
	Witness any    `json:"witness,omitempty"`
	Replay  string `json:"replay,omitempty"`
}

// Run accumulates the observations of one check invocation.
type Run struct {
	ID    string
	Tier  string
	Seed  int64
	Level string

	start time.Time
	mu    sync.Mutex

	evaluations  int
	distinct     map[string]struct{}
	rule         string
	samples      []any
	counters     map[string]int64
	sets         map[string]map[string]struct{}
	extra        map[string]any
	assumptions  []string
	exhaustive   *bool
	violations   []violation
	inconclusive []string
	known        map[string]string
	fixedKeys    map[string]string
}

// New creates a run for property id. Tier is "quick" or "thorough".
func New(id, tier, level string) *Run {
	seed := int64(1)
	if s := os.Getenv("VERIF_SEED"); s != "" {
		if v, err := strconv.ParseInt(s, 10, 64); err == nil {
			seed = v
		}
	}
	if tier != "thorough" {
		tier = "quick"
	}
	r := &Run{
		ID: id, Tier: tier, Seed: seed, Level: level, start: time.Now(),
		distinct: map[string]struct{}{}, counters: map[string]int64{},
		sets: map[string]map[string]struct{}{}, extra: map[string]any{},
		known: map[string]string{}, fixedKeys: map[string]string{},
	}
	r.loadKnown()
	r.assumptions = []string{
		"Go runtime and race detector are correct",
		"the harness's own wire codec, reference models and bookkeeping are correct",
		"only the executions actually produced by this run are judged",
	}
	return r
}

func (r *Run) loadKnown() {
	f, err := os.Open(filepath.Join(Root(), "known-findings.txt"))
	if err != nil {
		return
	}
	defer f.Close()
	sc := bufio.NewScanner(f)
	for sc.Scan() {
		line := strings.TrimSpace(sc.Text())
		if !strings.HasPrefix(line, "known:") {
			continue
		}
		fields := strings.Fields(strings.TrimPrefix(line, "known:"))
		if len(fields) < 2 || fields[0] != "property="+r.ID || !strings.HasPrefix(fields[1], "key=") {
			continue
		}
		r.known[strings.TrimPrefix(fields[1], "key=")] = strings.Join(fields[2:], " ")
	}
}

// Quick reports whether this is the quick tier.
func (r *Run) Quick() bool { return r.Tier != "thorough" }

// Pick returns q for the quick tier and t for thorough.
func (r *Run) Pick(q, t int) int {
	if r.Quick() {
		return q
	}
	return t
}

// Rule sets the human description of generation and non-triviality.
func (r *Run) Rule(s string) { r.mu.Lock(); r.rule = s; r.mu.Unlock() }

// Assume appends an assumption.
func (r *Run) Assume(s string) { r.mu.Lock(); r.assumptions = append(r.assumptions, s); r.mu.Unlock() }

// Exhaustive records that a finite space was enumerated completely.
func (r *Run) Exhaustive(b bool) { r.mu.Lock(); r.exhaustive = &b; r.mu.Unlock() }

// Eval counts n evaluated cases.
func (r *Run) Eval(n int) { r.mu.Lock(); r.evaluations += n; r.mu.Unlock() }

// Distinct records a distinct non-trivial case by key.
func (r *Run) Distinct(key string) { r.mu.Lock(); r.distinct[key] = struct{}{}; r.mu.Unlock() }

// Count adds to a named counter written into coverage.
func (r *Run) Count(name string, n int64) { r.mu.Lock(); r.counters[name] += n; r.mu.Unlock() }

// SetAdd adds a member to a named set whose cardinality is written into coverage.
func (r *Run) SetAdd(name, member string) {
	r.mu.Lock()
	m := r.sets[name]
	if m == nil {
		m = map[string]struct{}{}
		r.sets[name] = m
	}
	m[member] = struct{}{}
	r.mu.Unlock()
}

// Extra stores an arbitrary value in coverage.
func (r *Run) Extra(name string, v any) { r.mu.Lock(); r.extra[name] = v; r.mu.Unlock() }

// Sample keeps up to 4 sample cases.
func (r *Run) Sample(v any) {
	r.mu.Lock()
	if len(r.samples) < 4 {
		r.samples = append(r.samples, v)
	}
	r.mu.Unlock()
}

// Inconclusive records a trial that could not be decided.
func (r *Run) Inconclusive(why string) {
	r.mu.Lock()
	r.inconclusive = append(r.inconclusive, why)
	r.mu.Unlock()
	fmt.Printf("inconclusive-trial property=%s %s\n", r.ID, why)
}

// Violation records a violation under a specific key.
func (r *Run) Violation(key, what string, witness any) {
	r.mu.Lock()
	defer r.mu.Unlock()
	// keep at most 5 witnesses per key, but count all
	n := 0
	for _, v := range r.violations {
		if v.Key == key {
			n++
		}
	}
	r.counters["violations_observed:"+key]++
	if n >= 5 {
		return
	}
	r.violations = append(r.violations, violation{Key: key, What: what, Witness: witness})
}

// IsKnown reports whether key is listed as a known finding.
func (r *Run) IsKnown(key string) bool { _, ok := r.known[key]; return ok }

// NViolations returns the number of recorded violation witnesses (known or not).
func (r *Run) NViolations() int { r.mu.Lock(); defer r.mu.Unlock(); return len(r.violations) }

func (r *Run) writeReplay(i int, v *violation) string {
	dir := filepath.Join(Root(), ".work", "replay")
	_ = os.MkdirAll(dir, 0o755)
	p := filepath.Join(dir, fmt.Sprintf("%s-%s-seed%d-%d.json", r.ID, r.Tier, r.Seed, i))
	b, _ := json.MarshalIndent(map[string]any{
		"property": r.ID, "tier": r.Tier, "seed": r.Seed, "key": v.Key, "what": v.What, "witness": v.Witness,
	}, "", " ")
	_ = os.WriteFile(p, b, 0o644)
	return p
}

// Finish writes the evidence file, prints verdict lines and exits.
// minDistinct is the tier floor for distinct non-trivial cases (>= 2 for the schema).
func (r *Run) Finish(minDistinct int) {
	r.mu.Lock()
	defer r.mu.Unlock()
	if minDistinct < 2 {
		minDistinct = 2
	}
	unknown := 0
	knownSeen := map[string]bool{}
	for i := range r.violations {
		v := &r.violations[i]
		if _, ok := r.known[v.Key]; ok {
			knownSeen[v.Key] = true
			continue
		}
		unknown++
		v.Replay = r.writeReplay(i, v)
	}
	cov := map[string]any{
		"evaluations":         r.evaluations,
		"distinct_nontrivial": len(r.distinct),
		"rule":                r.rule,
		"samples":             r.samples,
		"inconclusive_trials": len(r.inconclusive),
	}
	if len(r.samples) == 0 {
		cov["samples"] = []any{"(no sample recorded)"}
	}
	if r.exhaustive != nil {
		cov["exhaustive"] = *r.exhaustive
	}
	for k, v := range r.counters {
		cov[k] = v
	}
	for k, m := range r.sets {
		cov["distinct_"+k] = len(m)
		if len(m) <= 40 {
			l := make([]string, 0, len(m))
			for s := range m {
				l = append(l, s)
			}
			sort.Strings(l)
			cov[k+"_values"] = l
		}
	}
	for k, v := range r.extra {
		cov[k] = v
	}
	kf := []string{}
	for k := range knownSeen {
		kf = append(kf, k)
	}
	sort.Strings(kf)
	cov["known_findings_reproduced"] = kf
	if len(r.inconclusive) > 0 {
		n := len(r.inconclusive)
		if n > 10 {
			n = 10
		}
		cov["inconclusive_reasons"] = r.inconclusive[:n]
	}
	evd := map[string]any{
		"property_id": r.ID,
		"tier":        r.Tier,
		"seed":        r.Seed,
		"level":       r.Level,
		"coverage":    cov,
		"assumptions": r.assumptions,
		"wall_s":      time.Since(r.start).Seconds(),
		"violations":  unknown,
	}
	_ = os.MkdirAll(filepath.Join(Root(), "evidence"), 0o755)
	b, _ := json.MarshalIndent(evd, "", " ")
	tmp := filepath.Join(Root(), "evidence", "."+r.ID+".json.tmp")
	_ = os.WriteFile(tmp, append(b, '\n'), 0o644)
	_ = os.Rename(tmp, filepath.Join(Root(), "evidence", r.ID+".json"))

	fmt.Printf("summary property=%s tier=%s seed=%d evaluations=%d distinct_nontrivial=%d inconclusive=%d violations=%d known=%d wall=%.1fs\n",
		r.ID, r.Tier, r.Seed, r.evaluations, len(r.distinct), len(r.inconclusive), unknown, len(knownSeen), time.Since(r.start).Seconds())
	for _, k := range kf {
		fmt.Printf("KNOWN-FINDING: property=%s key=%s %s\n", r.ID, k, r.known[k])
	}
	if unknown > 0 {
		for _, v := range r.violations {
			if _, ok := r.known[v.Key]; ok {
				continue
			}
			fmt.Printf("violation-detail property=%s key=%s %s\n", r.ID, v.Key, v.What)
			fmt.Printf("VIOLATION property=%s replay=%s\n", r.ID, v.Replay)
		}
		os.Stdout.Sync()
		os.Exit(1)
	}
	if len(r.distinct) < minDistinct || r.evaluations == 0 {
		fmt.Printf("INCONCLUSIVE property=%s distinct_nontrivial=%d floor=%d (monitors observed too little)\n", r.ID, len(r.distinct), minDistinct)
		os.Exit(3)
	}
	// too many inconclusive trials makes the run itself inconclusive
	if len(r.inconclusive)*4 > r.evaluations && len(r.inconclusive) > 2 {
		fmt.Printf("INCONCLUSIVE property=%s inconclusive_trials=%d of %d\n", r.ID, len(r.inconclusive), r.evaluations)
		os.Exit(3)
	}
	os.Exit(0)
}
