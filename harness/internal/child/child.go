// Package child supervises child processes: output to a file, progress file, watchdog
// (SIGQUIT for a goroutine dump, then SIGKILL), classification of fatal Go runtime errors.
package child

import (
	"bufio"
	"os"
	"os/exec"
	"regexp"
	"strings"
	"syscall"
	"time"
)

// Result describes how a child ended.
type Result struct {
	ExitCode  int
	Signaled  bool
	TimedOut  bool
	OutFile   string
	Fatal     string // first "panic: ..." / "fatal error: ..." line, if any
	TopFrame  string // first receptor frame after the fatal line (function name, no line numbers)
	Races     int
}

// Run starts cmd with stdout+stderr redirected to outFile and waits. If the process runs
// longer than limit it gets SIGQUIT (goroutine dump) and 5 s later SIGKILL.
// stall, if non-nil, is polled every second: returning true triggers the same shutdown.
func Run(cmd *exec.Cmd, outFile string, limit time.Duration, stall func() bool) Result {
	f, err := os.Create(outFile)
	if err != nil {
		return Result{ExitCode: -1, OutFile: outFile, Fatal: "harness: " + err.Error()}
	}
	cmd.Stdout = f
	cmd.Stderr = f
	if err := cmd.Start(); err != nil {
		f.Close()
		return Result{ExitCode: -1, OutFile: outFile, Fatal: "harness: " + err.Error()}
	}
	done := make(chan error, 1)
	go func() { done <- cmd.Wait() }()
	res := Result{OutFile: outFile}
	deadline := time.NewTimer(limit)
	defer deadline.Stop()
	tick := time.NewTicker(time.Second)
	defer tick.Stop()
	var werr error
loop:
	for {
		select {
		case werr = <-done:
			break loop
		case <-deadline.C:
			res.TimedOut = true
			_ = cmd.Process.Signal(syscall.SIGQUIT)
			select {
			case werr = <-done:
			case <-time.After(5 * time.Second):
				_ = cmd.Process.Kill()
				werr = <-done
			}
			break loop
		case <-tick.C:
			if stall != nil && stall() {
				res.TimedOut = true
				_ = cmd.Process.Signal(syscall.SIGQUIT)
				select {
				case werr = <-done:
				case <-time.After(5 * time.Second):
					_ = cmd.Process.Kill()
					werr = <-done
				}
				break loop
			}
		}
	}
	f.Close()
	if werr != nil {
		if ee, ok := werr.(*exec.ExitError); ok {
			res.ExitCode = ee.ExitCode()
			if ws, ok := ee.Sys().(syscall.WaitStatus); ok && ws.Signaled() {
				res.Signaled = true
			}
		} else {
			res.ExitCode = -1
		}
	}
	res.Fatal, res.TopFrame, res.Races = Classify(outFile)
	return res
}

var frameRe = regexp.MustCompile(`^(github\.com/ansible/receptor/[^\s(]+)`)

// Classify scans a Go program's output for the fatal line and the first receptor frame.
func Classify(outFile string) (fatal, top string, races int) {
	f, err := os.Open(outFile)
	if err != nil {
		return "", "", 0
	}
	defer f.Close()
	sc := bufio.NewScanner(f)
	sc.Buffer(make([]byte, 1<<20), 1<<24)
	inFatal := false
	for sc.Scan() {
		line := sc.Text()
		if strings.HasPrefix(line, "WARNING: DATA RACE") {
			races++
		}
		if fatal == "" && (strings.HasPrefix(line, "panic: ") || strings.HasPrefix(line, "fatal error: ")) {
			fatal = line
			if len(fatal) > 200 {
				fatal = fatal[:200]
			}
			inFatal = true
			continue
		}
		if inFatal && top == "" {
			if m := frameRe.FindStringSubmatch(strings.TrimSpace(line)); m != nil {
				top = m[1]
				// strip closure numbering noise but keep the function
				inFatal = false
			}
		}
	}
	return fatal, top, races
}

// FatalClass reduces a fatal line to a class without addresses or indices.
func FatalClass(fatal string) string {
	s := fatal
	for _, p := range []string{"index out of range", "nil pointer dereference", "close of closed channel", "interface conversion", "slice bounds out of range", "concurrent map", "checkptr", "all goroutines are asleep", "send on closed channel", "out of memory", "stack overflow"} {
		if strings.Contains(s, p) {
			return strings.ReplaceAll(p, " ", "-")
		}
	}
	if s == "" {
		return "none"
	}
	if len(s) > 60 {
		s = s[:60]
	}
	return strings.ReplaceAll(s, " ", "-")
}
