package chunkproxy

import (
	"bytes"
	"io"
	"math/rand"
	"testing"
)

func TestPipePairIdentity(t *testing.T) {
	for _, mode := range Modes {
		a, b, st, cl := PipePair(mode, 7)
		rng := rand.New(rand.NewSource(3))
		var want []byte
		for i := 0; i < 400; i++ {
			l := []int{0, 1, 35, 36, 37, 300, 5000, 16420}[rng.Intn(8)]
			f := make([]byte, 2+l)
			f[0], f[1] = byte(l), byte(l>>8)
			rng.Read(f[2:])
			want = append(want, f...)
		}
		go func() {
			off := 0
			for off < len(want) {
				// one frame per write, like receptor
				l := 2 + (int(want[off]) | int(want[off+1])<<8)
				a.Write(want[off : off+l])
				off += l
			}
		}()
		got := make([]byte, len(want))
		if _, err := io.ReadFull(b, got); err != nil {
			t.Fatal(mode, err)
		}
		if !bytes.Equal(got, want) {
			t.Fatal(mode, "stream altered")
		}
		t.Log(mode, st.Snapshot())
		cl()
	}
}
