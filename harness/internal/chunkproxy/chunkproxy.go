// Package chunkproxy re-segments byte streams: a TCP proxy and an in-memory connection
// pair whose two directions pass through a seeded chunker. The chunker can follow the
// stream backends' framing (uint16 little-endian length ‖ bytes, parsed by its own
// state machine) so that it can cut frames at chosen offset classes (inside the 2-byte
// length prefix, right after it, inside the 36-byte data header, at the header/payload
// boundary, mid-payload) or coalesce many frames into one write; every cut it made is
// counted by class, so that evidence reports what was actually done to the stream.
package chunkproxy

import (
	"io"
	"math/rand"
	"net"
	"sync"
	"time"
)

// Modes understood by Pump.
var Modes = []string{"tiny", "split", "coalesce", "random", "mixed"}

// Stats counts what the chunkers of one proxy / pair did.
type Stats struct {
	mu sync.Mutex
	m  map[string]int64
}

// NewStats creates an empty counter set.
func NewStats() *Stats { return &Stats{m: map[string]int64{}} }

func (s *Stats) add(k string, n int64) {
	s.mu.Lock()
	s.m[k] += n
	s.mu.Unlock()
}

// Snapshot returns a copy of the counters.
func (s *Stats) Snapshot() map[string]int64 {
	s.mu.Lock()
	defer s.mu.Unlock()
	o := map[string]int64{}
	for k, v := range s.m {
		o[k] = v
	}
	return o
}

var randomSizes = []int{1, 1, 2, 3, 17, 37, 38, 39, 100, 255, 256, 1000, 4096, 16384, 16421, 16422, 16423, 65536}

type chunker struct {
	mode       string
	frameAware bool
	rng        *rand.Rand
	st         *Stats
	// parser state at the write position
	frameOff int // offset inside the current frame of the next byte to be written (0 = boundary)
	lenLo    byte
	total    int // 2+L, valid when frameOff >= 2
	sub      string
}

// advance moves the parser over written bytes; returns the number of frames completed.
func (c *chunker) advance(b []byte) int {
	done := 0
	for len(b) > 0 {
		switch {
		case c.frameOff == 0:
			c.lenLo = b[0]
			c.frameOff = 1
			b = b[1:]
		case c.frameOff == 1:
			c.total = 2 + (int(c.lenLo) | int(b[0])<<8)
			c.frameOff = 2
			b = b[1:]
			if c.total == 2 {
				c.frameOff = 0
				done++
			}
		default:
			k := c.total - c.frameOff
			if k > len(b) {
				k = len(b)
			}
			c.frameOff += k
			b = b[k:]
			if c.frameOff == c.total {
				c.frameOff = 0
				done++
			}
		}
	}
	return done
}

// frameTotal returns the total size (prefix included) of the frame at the write position, or -1.
func (c *chunker) frameTotal(buf []byte) int {
	switch {
	case c.frameOff >= 2:
		return c.total
	case c.frameOff == 1 && len(buf) >= 1:
		return 2 + (int(c.lenLo) | int(buf[0])<<8)
	case c.frameOff == 0 && len(buf) >= 2:
		return 2 + (int(buf[0]) | int(buf[1])<<8)
	}
	return -1
}

func sizeClass(n int) string {
	switch {
	case n == 1:
		return "1"
	case n <= 3:
		return "2-3"
	case n < 64:
		return "4-63"
	case n < 1024:
		return "64-1023"
	case n <= 16384:
		return "1K-16K"
	}
	return ">16K"
}

func (c *chunker) next(buf []byte) int {
	mode := c.mode
	if mode == "mixed" {
		// a new sub-mode at every frame boundary (frame-aware) or every 8th write on average (blind)
		if c.sub == "" || (c.frameAware && (c.frameOff == 0 || c.rng.Intn(4) == 0)) || (!c.frameAware && c.rng.Intn(8) == 0) {
			c.sub = []string{"tiny", "split", "coalesce", "random", "split"}[c.rng.Intn(5)]
		}
		mode = c.sub
	}
	n := len(buf)
	if !c.frameAware {
		switch mode {
		case "tiny":
			// not frame-aware: tiny pieces half of the time, so that throughput stays usable
			if c.rng.Intn(2) == 0 {
				n = 1 + c.rng.Intn(3)
			} else {
				n = 200 + c.rng.Intn(3800)
			}
		case "coalesce":
			n = 65536
		default:
			n = randomSizes[c.rng.Intn(len(randomSizes))]
		}
	} else {
		total := c.frameTotal(buf)
		switch mode {
		case "tiny":
			if total < 0 || total < 600 || c.frameOff < 48 {
				n = 1 + c.rng.Intn(3)
			} else {
				n = 1 + c.rng.Intn(4096)
			}
		case "split":
			if total < 0 {
				n = 1
				break
			}
			cands := []int{1, 2, 3 + c.rng.Intn(35), 38, total - 1, total, total}
			if total > 40 {
				cands = append(cands, 39+c.rng.Intn(total-39))
			}
			ok := cands[:0]
			for _, x := range cands {
				if x > c.frameOff && x <= total {
					ok = append(ok, x)
				}
			}
			if len(ok) == 0 {
				n = total - c.frameOff
			} else {
				n = ok[c.rng.Intn(len(ok))] - c.frameOff
			}
		case "coalesce":
			n = 65536
		default:
			n = randomSizes[c.rng.Intn(len(randomSizes))]
		}
	}
	if n > len(buf) {
		n = len(buf)
	}
	if n < 1 {
		n = 1
	}
	return n
}

func (c *chunker) classify(n int, frames int) {
	c.st.add("writes", 1)
	c.st.add("bytes", int64(n))
	c.st.add("size:"+sizeClass(n), 1)
	if !c.frameAware {
		return
	}
	c.st.add("frames", int64(frames))
	if frames >= 2 {
		c.st.add("coalesced_writes", 1)
		c.st.add("coalesced_frames", int64(frames))
	}
	switch {
	case c.frameOff == 0:
		c.st.add("cut:frame-end", 1)
	case c.frameOff == 1:
		c.st.add("cut:in-length-prefix", 1)
	case c.frameOff == 2:
		c.st.add("cut:after-prefix", 1)
	case c.frameOff < 38:
		c.st.add("cut:in-header", 1)
	case c.frameOff == 38:
		c.st.add("cut:header-payload-boundary", 1)
	default:
		c.st.add("cut:mid-payload", 1)
	}
}

// Pump copies src to dst, re-segmenting the stream. It returns when either side fails.
func Pump(dst io.Writer, src io.Reader, mode string, frameAware bool, seed int64, st *Stats) error {
	if st == nil {
		st = NewStats()
	}
	c := &chunker{mode: mode, frameAware: frameAware, rng: rand.New(rand.NewSource(seed)), st: st}
	type piece struct {
		b   []byte
		err error
	}
	// The queue stands for the kernel buffers of a real socket pair: it is deep enough for a whole
	// sub-run, so that the link is never driven into two-way saturation (see the C02 notes).
	ch := make(chan piece, 32768)
	stop := make(chan struct{})
	defer close(stop)
	go func() {
		b := make([]byte, 65536)
		for {
			n, err := src.Read(b)
			if n > 0 {
				select {
				case ch <- piece{b: append([]byte(nil), b[:n]...)}:
				case <-stop:
					return
				}
			}
			if err != nil {
				select {
				case ch <- piece{err: err}:
				case <-stop:
				}
				return
			}
		}
	}()
	var buf []byte
	var rerr error
	for {
		if len(buf) == 0 {
			if rerr != nil {
				return rerr
			}
			p := <-ch
			if p.err != nil {
				return p.err
			}
			buf = append(buf[:0], p.b...)
		}
		// gather whatever else is there (and, when coalescing, wait a little for more)
		wait := time.Duration(0)
		m := c.mode
		if m == "mixed" {
			m = c.sub
		}
		if m == "coalesce" && len(buf) < 65536 {
			wait = time.Duration(1+c.rng.Intn(3)) * time.Millisecond
		}
		var tc <-chan time.Time
		var tm *time.Timer
		if wait > 0 {
			tm = time.NewTimer(wait)
			tc = tm.C
		}
	gather:
		for rerr == nil && len(buf) < 262144 {
			if tc != nil {
				select {
				case p := <-ch:
					if p.err != nil {
						rerr = p.err
					} else {
						buf = append(buf, p.b...)
					}
				case <-tc:
					tc = nil
				}
			} else {
				select {
				case p := <-ch:
					if p.err != nil {
						rerr = p.err
					} else {
						buf = append(buf, p.b...)
					}
				default:
					break gather
				}
			}
		}
		if tm != nil {
			tm.Stop()
		}
		n := c.next(buf)
		if _, err := dst.Write(buf[:n]); err != nil {
			return err
		}
		frames := 0
		if c.frameAware {
			frames = c.advance(buf[:n])
		}
		c.classify(n, frames)
		buf = buf[n:]
		if len(buf) == 0 {
			buf = nil
		}
		// give the reader a chance to see the cut as a separate read
		if (!c.frameAware || c.frameOff != 0) && c.rng.Intn(8) == 0 {
			time.Sleep(time.Duration(20+c.rng.Intn(200)) * time.Microsecond)
		}
	}
}

// Proxy is a loopback TCP proxy whose two directions are re-chunked.
type Proxy struct {
	Addr   string
	target string
	mode   string
	aware  bool
	seed   int64
	li     net.Listener
	st     *Stats
	mu     sync.Mutex
	conns  []net.Conn
	nconn  int64
	closed bool
}

// NewProxy listens on 127.0.0.1:0 and forwards every accepted connection to target.
func NewProxy(target, mode string, frameAware bool, seed int64) (*Proxy, error) {
	li, err := net.Listen("tcp", "127.0.0.1:0")
	if err != nil {
		return nil, err
	}
	p := &Proxy{Addr: li.Addr().String(), target: target, mode: mode, aware: frameAware, seed: seed, li: li, st: NewStats()}
	go p.loop()
	return p, nil
}

// Stats returns the counters of all connections of this proxy.
func (p *Proxy) Stats() *Stats { return p.st }

func (p *Proxy) loop() {
	for {
		c, err := p.li.Accept()
		if err != nil {
			return
		}
		t, err := net.DialTimeout("tcp", p.target, 5*time.Second)
		if err != nil {
			c.Close()
			continue
		}
		p.mu.Lock()
		if p.closed {
			p.mu.Unlock()
			c.Close()
			t.Close()
			return
		}
		p.conns = append(p.conns, c, t)
		p.nconn++
		k := p.nconn
		p.mu.Unlock()
		p.st.add("connections", 1)
		go func() {
			_ = Pump(t, c, p.mode, p.aware, p.seed*1000+k*2, p.st)
			c.Close()
			t.Close()
		}()
		go func() {
			_ = Pump(c, t, p.mode, p.aware, p.seed*1000+k*2+1, p.st)
			c.Close()
			t.Close()
		}()
	}
}

// Close stops the proxy and closes its connections.
func (p *Proxy) Close() {
	p.mu.Lock()
	p.closed = true
	cs := p.conns
	p.conns = nil
	p.mu.Unlock()
	p.li.Close()
	for _, c := range cs {
		c.Close()
	}
}

// PipePair returns two connection ends; what is written to one is read from the other
// after passing through a chunker (each Write of the chunker is seen as one Read, or as
// the head of one, by the reader: net.Pipe preserves write boundaries).
func PipePair(mode string, seed int64) (a, b net.Conn, st *Stats, closeFn func()) {
	st = NewStats()
	a, pa := net.Pipe()
	pb, b := net.Pipe()
	cl := func() { a.Close(); pa.Close(); pb.Close(); b.Close() }
	go func() { _ = Pump(pb, pa, mode, true, seed*2, st); cl() }()
	go func() { _ = Pump(pa, pb, mode, true, seed*2+1, st); cl() }()
	return a, b, st, cl
}
