// Package mesh manages real netceptor.Netceptor instances linked by memnet, and carries
// the harness's own picture of the topology (the oracle side of C01/C10/C18).
package mesh

import (
	"context"
	"fmt"
	"io"
	"math"
	"sort"
	"sync"
	"time"

	"verif/harness/internal/memnet"

	"github.com/ansible/receptor/pkg/logger"
	"github.com/ansible/receptor/pkg/netceptor"
)

func init() {
	logger.SetGlobalQuietMode()
}

// Consts are the operational constants given to NewWithConsts.
type Consts struct {
	MTU         int
	RouteUpdate time.Duration
	ServiceAd   time.Duration
	SeenExpire  time.Duration
	MaxHops     byte
	Idle        time.Duration
}

// DefaultConsts returns short timers suitable for monitors.
func DefaultConsts() Consts {
	return Consts{MTU: 16384, RouteUpdate: 400 * time.Millisecond, ServiceAd: 0, SeenExpire: time.Hour, MaxHops: 30, Idle: 1300 * time.Millisecond}
}

// Node is one (restartable) real node.
type Node struct {
	ID      string
	mu      sync.Mutex
	N       *netceptor.Netceptor
	Gen     int
	Started time.Time
	Alive   bool
}

// Inst returns the current netceptor instance.
func (n *Node) Inst() *netceptor.Netceptor { n.mu.Lock(); defer n.mu.Unlock(); return n.N }

// Generation returns the incarnation number (incremented by every restart).
func (n *Node) Generation() int { n.mu.Lock(); defer n.mu.Unlock(); return n.Gen }

// IsAlive reports whether the node is running.
func (n *Node) IsAlive() bool { n.mu.Lock(); defer n.mu.Unlock(); return n.Alive }

// SetAlive overrides the harness's liveness mark (used for abrupt, isolated death).
func (n *Node) SetAlive(v bool) { n.mu.Lock(); n.Alive = v; n.mu.Unlock() }

// LinkInfo is the harness's record of a link.
type LinkInfo struct {
	L           *memnet.Link
	A, B        string
	Cost        float64
	ViaNodeCost bool // cost expressed through per-node overrides on both ends
	Dead        bool // silently failed (sessions open, nothing carried)
}

// Mesh is a set of nodes and links.
type Mesh struct {
	Net   *memnet.Net
	C     Consts
	mu    sync.Mutex
	Nodes map[string]*Node
	Links map[string]*LinkInfo
	Seed  int64
	nlink int
}

// New creates a mesh.
func New(c Consts, seed int64) *Mesh {
	return &Mesh{Net: memnet.New(), C: c, Nodes: map[string]*Node{}, Links: map[string]*LinkInfo{}, Seed: seed}
}

func (m *Mesh) newInst(id string) *netceptor.Netceptor {
	n := netceptor.NewWithConsts(context.Background(), id, m.C.MTU, m.C.RouteUpdate, m.C.ServiceAd, m.C.SeenExpire, m.C.MaxHops, m.C.Idle)
	n.Logger.SetOutput(io.Discard)
	return n
}

// AddNode starts a node.
func (m *Mesh) AddNode(id string) *Node {
	n := &Node{ID: id, N: m.newInst(id), Started: time.Now(), Alive: true}
	m.mu.Lock()
	m.Nodes[id] = n
	m.mu.Unlock()
	return n
}

// Node returns a node by id.
func (m *Mesh) Node(id string) *Node { m.mu.Lock(); defer m.mu.Unlock(); return m.Nodes[id] }

func (m *Mesh) attach(li *LinkInfo, side string) *memnet.Backend {
	var self, other string
	if side == "A" {
		self, other = li.A, li.B
	} else {
		self, other = li.B, li.A
	}
	nd := m.Node(self)
	be := memnet.NewBackend()
	inst := nd.Inst()
	var err error
	if li.ViaNodeCost {
		// base cost differs from the link cost; the per-node override carries the real one
		err = inst.AddBackend(be, netceptor.BackendConnectionCost(li.Cost+13), netceptor.BackendNodeCost(map[string]float64{other: li.Cost}))
	} else {
		err = inst.AddBackend(be, netceptor.BackendConnectionCost(li.Cost))
	}
	if err != nil {
		panic(err)
	}
	return be
}

// Connect creates a link between two nodes and brings it up.
func (m *Mesh) Connect(a, b string, cost float64, viaNodeCost bool) *LinkInfo {
	m.mu.Lock()
	m.nlink++
	id := fmt.Sprintf("L%d:%s-%s", m.nlink, a, b)
	seed := m.Seed*1000003 + int64(m.nlink)
	m.mu.Unlock()
	l := m.Net.NewLink(id, a, b, cost, seed)
	li := &LinkInfo{L: l, A: a, B: b, Cost: cost, ViaNodeCost: viaNodeCost}
	m.mu.Lock()
	m.Links[id] = li
	m.mu.Unlock()
	var ba, bb *memnet.Backend
	if m.Node(a).IsAlive() {
		ba = m.attach(li, "A")
	}
	if m.Node(b).IsAlive() {
		bb = m.attach(li, "B")
	}
	l.SetBackends(ba, bb)
	l.Up()
	return li
}

// StopNode shuts a node down (its sessions are closed by receptor itself).
func (m *Mesh) StopNode(id string) {
	n := m.Node(id)
	n.mu.Lock()
	n.Alive = false
	inst := n.N
	n.mu.Unlock()
	inst.Shutdown()
}

// RestartNode starts a new instance under the same ID and re-attaches its links.
func (m *Mesh) RestartNode(id string) {
	n := m.Node(id)
	n.mu.Lock()
	old := n.N
	wasAlive := n.Alive
	n.mu.Unlock()
	if wasAlive {
		old.Shutdown()
	}
	inst := m.newInst(id)
	n.mu.Lock()
	n.N = inst
	n.Gen++
	n.Started = time.Now()
	n.Alive = true
	n.mu.Unlock()
	m.mu.Lock()
	lis := []*LinkInfo{}
	for _, li := range m.Links {
		if li.A == id || li.B == id {
			lis = append(lis, li)
		}
	}
	m.mu.Unlock()
	for _, li := range lis {
		if li.A == id {
			li.L.SetBackends(m.attach(li, "A"), nil)
		} else {
			li.L.SetBackends(nil, m.attach(li, "B"))
		}
	}
}

// Shutdown stops everything.
func (m *Mesh) Shutdown() {
	m.mu.Lock()
	ns := []*Node{}
	for _, n := range m.Nodes {
		ns = append(ns, n)
	}
	m.mu.Unlock()
	for _, n := range ns {
		n.Inst().Shutdown()
	}
	m.Net.Stop()
}

// Topology is the harness's picture: live nodes and effective (carrying) links.
type Topology struct {
	Nodes []string
	Adj   map[string]map[string]float64
}

// Topo returns the real topology: alive nodes, links that are planned up and not dead.
func (m *Mesh) Topo() *Topology {
	m.mu.Lock()
	defer m.mu.Unlock()
	t := &Topology{Adj: map[string]map[string]float64{}}
	for id, n := range m.Nodes {
		if n.IsAlive() {
			t.Nodes = append(t.Nodes, id)
			t.Adj[id] = map[string]float64{}
		}
	}
	sort.Strings(t.Nodes)
	for _, li := range m.Links {
		if !li.L.IsUp() || li.Dead {
			continue
		}
		if _, ok := t.Adj[li.A]; !ok {
			continue
		}
		if _, ok := t.Adj[li.B]; !ok {
			continue
		}
		// parallel links: receptor admits one session per peer id; the harness never creates them
		t.Adj[li.A][li.B] = li.Cost
		t.Adj[li.B][li.A] = li.Cost
	}
	return t
}

// Dist computes all-pairs least costs (Floyd-Warshall). Unreachable = +Inf.
func (t *Topology) Dist() map[string]map[string]float64 {
	d := map[string]map[string]float64{}
	for _, a := range t.Nodes {
		d[a] = map[string]float64{}
		for _, b := range t.Nodes {
			if a == b {
				d[a][b] = 0
			} else if c, ok := t.Adj[a][b]; ok {
				d[a][b] = c
			} else {
				d[a][b] = math.Inf(1)
			}
		}
	}
	for _, k := range t.Nodes {
		for _, i := range t.Nodes {
			for _, j := range t.Nodes {
				if d[i][k]+d[k][j] < d[i][j] {
					d[i][j] = d[i][k] + d[k][j]
				}
			}
		}
	}
	return d
}

// HopDist computes all-pairs least hop counts along least-cost paths is not needed; this
// returns, for a source, the set of admissible next hops per destination.
func (t *Topology) NextHops(d map[string]map[string]float64, n, dst string) []string {
	out := []string{}
	for nb, c := range t.Adj[n] {
		if c+d[nb][dst] == d[n][dst] {
			out = append(out, nb)
		}
	}
	sort.Strings(out)
	return out
}

// ConnectForeign links an instance that is not managed by the mesh (e.g. a second node using an ID
// that already exists) to mesh node peer. label names the foreign end in the tap log.
func (m *Mesh) ConnectForeign(inst *netceptor.Netceptor, label, peer string, cost float64) *memnet.Link {
	m.mu.Lock()
	m.nlink++
	id := fmt.Sprintf("L%d:%s-%s", m.nlink, label, peer)
	seed := m.Seed*1000003 + int64(m.nlink)
	m.mu.Unlock()
	l := m.Net.NewLink(id, label, peer, cost, seed)
	ba := memnet.NewBackend()
	if err := inst.AddBackend(ba, netceptor.BackendConnectionCost(cost)); err != nil {
		panic(err)
	}
	bb := memnet.NewBackend()
	if err := m.Node(peer).Inst().AddBackend(bb, netceptor.BackendConnectionCost(cost)); err != nil {
		panic(err)
	}
	l.SetBackends(ba, bb)
	l.Up()
	return l
}

// NewInst creates an unmanaged instance with the mesh's constants.
func (m *Mesh) NewInst(id string) *netceptor.Netceptor { return m.newInst(id) }

// LinkList returns a snapshot of all links.
func (m *Mesh) LinkList() []*LinkInfo {
	m.mu.Lock()
	defer m.mu.Unlock()
	out := []*LinkInfo{}
	for _, li := range m.Links {
		out = append(out, li)
	}
	return out
}
