package main

import (
	"context"
	"fmt"
	"io"
	"math/rand"
	"runtime"
	"strings"
	"sync"
	"sync/atomic"
	"time"

	"github.com/ansible/receptor/pkg/netceptor"

	"verif/harness/internal/ev"
	"verif/harness/internal/memnet"
	"verif/harness/internal/wire"
)

// c06Node starts a real node "n" with k scripted neighbour sessions s0..s(k-1) that completed the handshake.
func c06Node(run *ev.Run, what string, idx, k int) (*netceptor.Netceptor, []*memnet.Scripted, []string, bool) {
	n := netceptor.NewWithConsts(context.Background(), "n", 16384, 10*time.Second, 0, time.Hour, 30, time.Hour)
	n.Logger.SetOutput(io.Discard)
	sess := make([]*memnet.Scripted, k)
	names := make([]string, k)
	for i := 0; i < k; i++ {
		names[i] = fmt.Sprintf("s%d", i)
		sess[i] = memnet.NewScripted(names[i])
		if err := n.AddBackend(memnet.NewOneShot(sess[i])); err != nil {
			run.Inconclusive("C06: AddBackend: " + err.Error())
			n.Shutdown()
			return nil, nil, nil, false
		}
		hs := wire.EncodeRoute(&wire.Route{NodeID: names[i], UpdateID: fmt.Sprintf("%shs%d-%d", what, idx, i), UpdateEpoch: 3, UpdateSequence: 1, Connections: map[string]float64{"n": 1}, ForwardingNode: names[i]})
		if !sess[i].Deliver(hs, 10*time.Second) || !sess[i].Barrier(10*time.Second) {
			run.Inconclusive(fmt.Sprintf("C06 %s %d: handshake of session %d not processed", what, idx, i))
			n.Shutdown()
			return nil, nil, nil, false
		}
	}
	return n, sess, names, true
}

// c06Relays counts, per UpdateID with the given prefix, how often the node wrote it to each session.
func c06Relays(sess []*memnet.Scripted, prefix string) map[string]map[int]int {
	relays := map[string]map[int]int{}
	for si, s := range sess {
		for _, g := range s.Got() {
			r, err := wire.DecodeRoute(g.Data)
			if err != nil || r.ForwardingNode != "n" || !strings.HasPrefix(r.UpdateID, prefix) {
				continue
			}
			if relays[r.UpdateID] == nil {
				relays[r.UpdateID] = map[int]int{}
			}
			relays[r.UpdateID][si]++
		}
	}
	return relays
}

func c06Settle(sess []*memnet.Scripted) {
	count := func() int {
		c := 0
		for _, s := range sess {
			c += len(s.Got())
		}
		return c
	}
	last, stable := count(), 0
	for i := 0; i < 600 && stable < 6; i++ {
		time.Sleep(15 * time.Millisecond)
		if c := count(); c == last {
			stable++
		} else {
			last, stable = c, 0
		}
	}
}

// runC06Storm: the same update (a suspected-duplicate notice, or an ordinary update) reaches the node over all
// of its k links at the same instant (spin barrier per message), many times over. Whatever the interleaving of
// the k protocol goroutines, each UpdateID may be written at most once to each session and never to all of them.
func runC06Storm(run *ev.Run, idx int, seed int64) {
	rng := rand.New(rand.NewSource(seed))
	k := 3 + rng.Intn(3)
	n, sess, names, ok := c06Node(run, "st", idx, k)
	if !ok {
		return
	}
	defer n.Shutdown()
	m := 150 + rng.Intn(150)
	prefix := fmt.Sprintf("st%dx", idx)
	type msg struct {
		uid    string
		notice bool
		e, s   uint64
	}
	msgs := make([]msg, m)
	for j := range msgs {
		msgs[j] = msg{uid: fmt.Sprintf("%s%d", prefix, j), notice: rng.Intn(4) != 0, e: 5, s: uint64(j + 1)}
	}
	var arrived atomic.Int64
	var failed atomic.Bool
	var wg sync.WaitGroup
	for si := 0; si < k; si++ {
		wg.Add(1)
		go func(si int) {
			defer wg.Done()
			for j, mm := range msgs {
				r := &wire.Route{NodeID: "ost", UpdateID: mm.uid, UpdateEpoch: mm.e, UpdateSequence: mm.s, Connections: map[string]float64{"mk" + mm.uid: 1}, ForwardingNode: names[si]}
				if mm.notice {
					r.SuspectedDuplicate = 4
				}
				raw := wire.EncodeRoute(r)
				arrived.Add(1)
				for spins := 0; arrived.Load() < int64((j+1)*k) && !failed.Load(); spins++ {
					if spins > 2000 {
						runtime.Gosched()
					}
				}
				if !sess[si].Deliver(raw, 10*time.Second) {
					failed.Store(true)
					return
				}
			}
			if !sess[si].Barrier(20 * time.Second) {
				failed.Store(true)
			}
		}(si)
	}
	wg.Wait()
	run.Eval(1)
	if failed.Load() {
		run.Inconclusive(fmt.Sprintf("C06 storm %d: a delivery was not processed", idx))
		return
	}
	c06Settle(sess)
	relays := c06Relays(sess, prefix)
	twice, back, relayedNotices, relayedUpdates := 0, 0, 0, 0
	for j, mm := range msgs {
		rs := relays[mm.uid]
		if len(rs) > 0 {
			if mm.notice {
				relayedNotices++
			} else {
				relayedUpdates++
			}
		}
		bad := false
		for _, c := range rs {
			if c > 1 {
				bad = true
			}
		}
		if bad {
			twice++
			if twice == 1 {
				run.Violation("relay:twice", fmt.Sprintf("storm %d: update %s (notice=%v), delivered on all %d links at the same instant, was written more than once to a neighbour: per-session counts %v", idx, mm.uid, mm.notice, k, rs), map[string]any{"message_index": j, "sessions": k})
			}
		} else if len(rs) == k {
			back++
			if back == 1 {
				run.Violation("relay:back-to-source", fmt.Sprintf("storm %d: update %s was relayed to all %d sessions although every one of them had delivered it", idx, mm.uid, k), nil)
			}
		}
	}
	run.Count("storm_messages_on_all_links_at_once", int64(m))
	run.Count("storm_notices_relayed", int64(relayedNotices))
	run.Count("storm_updates_relayed", int64(relayedUpdates))
	if relayedNotices+relayedUpdates < m/2 {
		run.Inconclusive(fmt.Sprintf("C06 storm %d: only %d of %d messages were relayed at all", idx, relayedNotices+relayedUpdates, m))
		return
	}
	run.Distinct(fmt.Sprintf("storm|k=%d|m=%d", k, m/50))
}

// runC06LinkLoss: the origin is (or was) a direct neighbour. Its newest update is accepted over the direct link,
// the link is lost (and possibly re-established by a restarted incarnation); afterwards older / equal updates of
// the origin that the node has not seen by UpdateID arrive through another neighbour. They must change nothing
// and must not be relayed; a genuinely newer one must still be accepted (non-vacuity).
func runC06LinkLoss(run *ev.Run, idx int, seed int64) {
	rng := rand.New(rand.NewSource(seed))
	k := 2 + rng.Intn(2)
	n, sess, _, ok := c06Node(run, "ll", idx, k)
	if !ok {
		return
	}
	defer n.Shutdown()
	prefix := fmt.Sprintf("ll%dx", idx)
	uidN := 0
	type upd struct {
		uid    string
		e, s   uint64
		marker string
	}
	mk := func(e, s uint64) upd {
		uidN++
		u := fmt.Sprintf("%s%d", prefix, uidN)
		return upd{uid: u, e: e, s: s, marker: "mk" + u}
	}
	enc := func(u upd, fwd string, direct bool) []byte {
		c := map[string]float64{u.marker: 1}
		if direct {
			c["n"] = 1
		}
		return wire.EncodeRoute(&wire.Route{NodeID: "ox", UpdateID: u.uid, UpdateEpoch: u.e, UpdateSequence: u.s, Connections: c, ForwardingNode: fwd})
	}
	readMarker := func() string { return markerOf(n.Status().KnownConnectionCosts["ox"]) }
	hist := []string{}
	note := func(f string, a ...any) { hist = append(hist, fmt.Sprintf(f, a...)) }
	fail := func(key, what string) {
		run.Violation(key, fmt.Sprintf("link-loss history %d: %s", idx, what), map[string]any{"history": hist})
	}
	// the currently newest accepted update of ox
	var cur upd
	connect := func(e, s uint64, more int) (*memnet.Scripted, bool) {
		x := memnet.NewScripted("ox")
		if err := n.AddBackend(memnet.NewOneShot(x)); err != nil {
			run.Inconclusive("C06: AddBackend: " + err.Error())
			return nil, false
		}
		// the first routing message only establishes the session (it is not taken over as routing knowledge);
		// the origin's next update is the first one the node accepts over the direct link
		hs := mk(e, s)
		if !x.Deliver(enc(hs, "ox", true), 10*time.Second) || !x.Barrier(10*time.Second) {
			run.Inconclusive(fmt.Sprintf("C06 link-loss %d: direct handshake not processed", idx))
			return nil, false
		}
		note("direct link up: ox e=%d s=%d uid=%s (handshake)", hs.e, hs.s, hs.uid)
		for i := 0; i < more+1; i++ {
			u := mk(e, s+1)
			if i > 0 {
				u = mk(e, cur.s+1+uint64(rng.Intn(3)))
			}
			if !x.Deliver(enc(u, "ox", true), 10*time.Second) || !x.Barrier(10*time.Second) {
				run.Inconclusive(fmt.Sprintf("C06 link-loss %d: direct update not processed", idx))
				return nil, false
			}
			cur = u
			note("direct update: ox e=%d s=%d uid=%s", u.e, u.s, u.uid)
			if got := readMarker(); got != cur.marker {
				fail("linkloss:direct-update-not-applied", fmt.Sprintf("picture of ox shows %q after the direct update %s", got, cur.uid))
				return nil, false
			}
		}
		return x, true
	}
	waitConn := func(want bool) bool {
		for i := 0; i < 400; i++ {
			_, has := n.Status().KnownConnectionCosts["n"]["ox"]
			if has == want {
				return true
			}
			time.Sleep(10 * time.Millisecond)
		}
		return false
	}
	e0 := uint64(5 + rng.Intn(3))
	x, ok := connect(e0, uint64(3+rng.Intn(20)), rng.Intn(3))
	if !ok {
		return
	}
	if !waitConn(true) {
		run.Inconclusive(fmt.Sprintf("C06 link-loss %d: direct connection not listed", idx))
		return
	}
	if got := readMarker(); got != cur.marker {
		fail("linkloss:direct-update-not-applied", fmt.Sprintf("picture of ox shows %q after the direct update %s", got, cur.uid))
		return
	}
	cycles := 1 + rng.Intn(2)
	nStale, nNewer := 0, 0
	shape := []string{}
	for cyc := 0; cyc < cycles; cyc++ {
		// lose the link
		how := rng.Intn(2)
		if how == 0 {
			x.Close()
			shape = append(shape, "closed")
		} else {
			// ox says goodbye: an update that no longer lists n ends the session ("remote node no longer lists us")
			uidN++
			bye := upd{uid: fmt.Sprintf("%s%d", prefix, uidN), e: cur.e, s: cur.s + 1}
			bye.marker = "mk" + bye.uid
			if !x.Deliver(enc(bye, "ox", false), 10*time.Second) {
				run.Inconclusive(fmt.Sprintf("C06 link-loss %d: goodbye not delivered", idx))
				return
			}
			// (the protocol loop ends the session on it without taking it over as routing knowledge)
			shape = append(shape, "unlisted")
			note("ox update without n: e=%d s=%d uid=%s", bye.e, bye.s, bye.uid)
		}
		if !waitConn(false) {
			run.Inconclusive(fmt.Sprintf("C06 link-loss %d: direct connection still listed after the link was ended (%s)", idx, shape[len(shape)-1]))
			return
		}
		x.Close()
		note("direct link lost (%s); newest accepted: e=%d s=%d marker=%s", shape[len(shape)-1], cur.e, cur.s, cur.marker)
		c06Settle(sess)
		// older / equal updates through another neighbour
		cands := []upd{}
		if cur.s > 1 {
			cands = append(cands, mk(cur.e, cur.s-1-uint64(rng.Intn(int(cur.s-1)))))
		}
		cands = append(cands, mk(cur.e, cur.s), mk(cur.e-1-uint64(rng.Intn(3)), cur.s+uint64(rng.Intn(1000))))
		rng.Shuffle(len(cands), func(a, b int) { cands[a], cands[b] = cands[b], cands[a] })
		cands = cands[:1+rng.Intn(len(cands))]
		for _, u := range cands {
			via := rng.Intn(k)
			if !sess[via].Deliver(enc(u, fmt.Sprintf("s%d", via), rng.Intn(2) == 0), 10*time.Second) || !sess[via].Barrier(10*time.Second) {
				run.Inconclusive(fmt.Sprintf("C06 link-loss %d: stale delivery not processed", idx))
				return
			}
			nStale++
			note("via s%d: ox e=%d s=%d uid=%s (not newer than e=%d s=%d)", via, u.e, u.s, u.uid, cur.e, cur.s)
			run.Eval(1)
			if got := readMarker(); got != cur.marker {
				fail("linkloss:stale-applied", fmt.Sprintf("after the direct link to ox was lost, update %s (e=%d s=%d), not newer than the accepted e=%d s=%d, changed the picture of ox from %q to %q", u.uid, u.e, u.s, cur.e, cur.s, cur.marker, got))
				return
			}
			c06Settle(sess)
			if rs := c06Relays(sess, prefix)[u.uid]; len(rs) > 0 {
				fail("linkloss:stale-relayed", fmt.Sprintf("after the direct link to ox was lost, update %s (e=%d s=%d), not newer than the accepted e=%d s=%d, was relayed: %v", u.uid, u.e, u.s, cur.e, cur.s, rs))
				return
			}
		}
		// a newer one is still accepted, applied and relayed to the others
		if rng.Intn(3) != 0 {
			u := mk(cur.e, cur.s+1+uint64(rng.Intn(4)))
			via := rng.Intn(k)
			if !sess[via].Deliver(enc(u, fmt.Sprintf("s%d", via), false), 10*time.Second) || !sess[via].Barrier(10*time.Second) {
				run.Inconclusive(fmt.Sprintf("C06 link-loss %d: newer delivery not processed", idx))
				return
			}
			note("via s%d: newer ox e=%d s=%d uid=%s", via, u.e, u.s, u.uid)
			if got := readMarker(); got != u.marker {
				fail("linkloss:newer-not-applied", fmt.Sprintf("newer update %s (e=%d s=%d > e=%d s=%d) did not become the picture of ox (%q)", u.uid, u.e, u.s, cur.e, cur.s, got))
				return
			}
			cur = u
			nNewer++
		}
		if cyc+1 < cycles {
			// ox comes back: same incarnation with a higher sequence, or a restarted one with a higher epoch
			e, s := cur.e, cur.s+1+uint64(rng.Intn(5))
			if rng.Intn(2) == 0 {
				e, s = cur.e+1+uint64(rng.Intn(2)), uint64(1+rng.Intn(3))
				shape = append(shape, "restarted")
			} else {
				shape = append(shape, "reconnected")
			}
			if x, ok = connect(e, s, rng.Intn(2)); !ok {
				return
			}
			if !waitConn(true) {
				run.Inconclusive(fmt.Sprintf("C06 link-loss %d: direct connection not listed after reconnect", idx))
				return
			}
		}
	}
	run.Count("linkloss_not_newer_updates_after_link_loss", int64(nStale))
	run.Count("linkloss_newer_updates_accepted", int64(nNewer))
	run.Distinct(fmt.Sprintf("linkloss|%v|stale=%d", shape, nStale))
	if idx < 1 {
		run.Sample(map[string]any{"linkloss_history": hist})
	}
}
