// vmon is the monitor binary: vmon <property|helper> [tier] [args...].
package main

import (
	"fmt"
	"os"
	"path/filepath"
	"runtime/pprof"
	"sort"
	"time"

	"verif/harness/internal/ev"
)

type entry func(tier string, args []string)

var registry = map[string]entry{}

func register(name string, f entry) { registry[name] = f }

func main() {
	if len(os.Args) < 2 {
		usage()
	}
	f, ok := registry[os.Args[1]]
	if !ok {
		usage()
	}
	tier := "quick"
	args := []string{}
	if len(os.Args) > 2 {
		tier = os.Args[2]
		args = os.Args[3:]
	}
	if len(os.Args[1]) == 3 && os.Args[1][0] == 'C' {
		go watchdog(os.Args[1], tier)
	}
	f(tier, args)
}

// watchdog ends a property monitor that does not finish at all (for instance because the code under test, which
// many monitors run in-process, is deadlocked in a call the monitor has no bound for): the goroutines are dumped for
// triage and the run ends as inconclusive. The limits are far beyond any normal run (quick 40 min, thorough 6 h;
// VERIF_WATCHDOG_S overrides).
func watchdog(id, tier string) {
	limit := 40 * time.Minute
	if tier != "quick" {
		limit = 6 * time.Hour
	}
	if v := os.Getenv("VERIF_WATCHDOG_S"); v != "" {
		var s int
		if _, err := fmt.Sscan(v, &s); err == nil && s > 0 {
			limit = time.Duration(s) * time.Second
		}
	}
	time.Sleep(limit)
	dir := filepath.Join(ev.Root(), ".work", "replay")
	_ = os.MkdirAll(dir, 0o755)
	path := filepath.Join(dir, fmt.Sprintf("%s-%s-watchdog-goroutines.txt", id, tier))
	if f, err := os.Create(path); err == nil {
		_ = pprof.Lookup("goroutine").WriteTo(f, 2)
		f.Close()
	}
	fmt.Printf("INCONCLUSIVE property=%s the monitor did not finish within %v (goroutines: %s)\n", id, limit, path)
	os.Exit(3)
}

func usage() {
	names := []string{}
	for k := range registry {
		names = append(names, k)
	}
	sort.Strings(names)
	fmt.Fprintf(os.Stderr, "usage: vmon <%v> [quick|thorough] [args]\n", names)
	os.Exit(2)
}
