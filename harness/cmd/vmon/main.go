// vmon is the monitor binary: vmon <property|helper> [tier] [args...].
package main

import (
	"fmt"
	"os"
	"sort"
)

type entry func(tier string, args []string)

var registry = map[string]entry{}

func register(name string, f entry) { registry[name] = f }

func main() {
	if len(os.Args) < 2 {
		usage()
	}
	f, ok := registry[os.Args[1]]
	if !ok {
		usage()
	}
	tier := "quick"
	args := []string{}
	if len(os.Args) > 2 {
		tier = os.Args[2]
		args = os.Args[3:]
	}
	f(tier, args)
}

func usage() {
	names := []string{}
	for k := range registry {
		names = append(names, k)
	}
	sort.Strings(names)
	fmt.Fprintf(os.Stderr, "usage: vmon <%v> [quick|thorough] [args]\n", names)
	os.Exit(2)
}
