package main

import (
	"context"
	"fmt"
	"strings"
	"sync"
	"sync/atomic"
	"time"

	"verif/harness/internal/ev"
	"verif/harness/internal/mesh"
)

// Additional C16 sub-monitors.
//
// (1) bursts: several writers send datagrams back to back from ONE socket to an unbound service of
//     a reachable node; every datagram that reached the node must produce a notice on that socket
//     (conservation: notices received == datagrams sent), however fast they arrive.
// (2) local dials: a stream dial to an unbound service of the dialling node itself must fail because
//     the service is unknown, not by running into the context deadline / handshake timeout.
func runC16Extra(run *ev.Run) {
	c := mesh.DefaultConsts()
	c.Idle = time.Hour
	m := mesh.New(c, run.Seed*31+16)
	defer m.Shutdown()
	m.AddNode("ba")
	m.AddNode("bb")
	m.Connect("ba", "bb", 1, false)
	a, b := m.Node("ba").Inst(), m.Node("bb").Inst()
	if !pollUntil(1500, func() bool {
		_, ok := a.Status().RoutingTable["bb"]
		_, ok2 := b.Status().RoutingTable["ba"]
		return ok && ok2
	}) {
		run.Inconclusive("C16 extras: mesh did not form")
		return
	}
	// ---- (1) bursts
	for round := 0; round < run.Pick(3, 20); round++ {
		pc, err := a.ListenPacket("")
		if err != nil {
			continue
		}
		done := make(chan struct{})
		ch := pc.SubscribeUnreachable(done)
		var got atomic.Int64
		wrongs := atomic.Int64{}
		svc := fmt.Sprintf("nb%d", round)
		go func() {
			for n := range ch {
				if n.Problem == "service unknown" && n.ToNode == "bb" && n.ToService == svc {
					got.Add(1)
				} else {
					wrongs.Add(1)
				}
				if round%2 == 1 {
					time.Sleep(200 * time.Microsecond) // a consumer that is not always waiting in the receive
				}
			}
		}()
		const writers, per = 4, 40
		var sent atomic.Int64
		var wg sync.WaitGroup
		for w := 0; w < writers; w++ {
			wg.Add(1)
			go func() {
				defer wg.Done()
				for i := 0; i < per; i++ {
					if _, err := pc.WriteTo([]byte("burst"), a.NewAddr("bb", svc)); err == nil {
						sent.Add(1)
					}
				}
			}()
		}
		wg.Wait()
		// progress-bounded wait: as long as notices keep arriving, keep waiting; then a ping fence + quiet rounds
		last, quiet := int64(-1), 0
		for i := 0; i < 400 && quiet < 8 && got.Load() < sent.Load(); i++ {
			time.Sleep(25 * time.Millisecond)
			if g := got.Load(); g == last {
				quiet++
			} else {
				last, quiet = g, 0
			}
			if quiet == 4 {
				ctx, cancel := context.WithTimeout(context.Background(), 5*time.Second)
				_, _, _ = a.Ping(ctx, "bb", 30)
				cancel()
			}
		}
		run.Eval(1)
		run.Count("burst_datagrams_sent", sent.Load())
		run.Count("burst_notices_received", got.Load())
		if got.Load() < sent.Load() {
			run.Violation("notice:missing:burst", fmt.Sprintf("burst round %d: %d datagrams were sent back to back from one socket to an unbound service of a reachable node, but only %d 'service unknown' notices reached that socket", round, sent.Load(), got.Load()), map[string]any{"writers": writers, "per_writer": per, "slow_consumer": round%2 == 1})
		} else {
			run.Distinct(fmt.Sprintf("burst|slow=%v", round%2 == 1))
		}
		close(done)
		_ = pc.Close()
	}
	// ---- (3) a socket that is closed while datagrams for it are still undelivered (nobody was reading): once it is
	// closed its service is unbound, and a sender must be told so like for any other unbound service
	for i := 0; i < run.Pick(4, 30); i++ {
		svc := fmt.Sprintf("uq%d", i)
		victim, err := b.ListenPacket(svc)
		if err != nil {
			continue
		}
		pc, err := a.ListenPacket("")
		if err != nil {
			_ = victim.Close()
			continue
		}
		done := make(chan struct{})
		ch := pc.SubscribeUnreachable(done)
		var got atomic.Int64
		go func() {
			for n := range ch {
				if n.Problem == "service unknown" && n.ToNode == "bb" && n.ToService == svc {
					got.Add(1)
				}
			}
		}()
		pending := 1 + i%4
		for k := 0; k < pending; k++ {
			_, _ = pc.WriteTo([]byte("unread"), a.NewAddr("bb", svc))
		}
		time.Sleep(time.Duration(5+10*(i%3)) * time.Millisecond)
		early := got.Load()
		closed := make(chan struct{})
		go func() { _ = victim.Close(); close(closed) }()
		closeReturned := true
		select {
		case <-closed:
		case <-time.After(20 * time.Second):
			closeReturned = false
		}
		ok := false
		for try := 0; try < 40 && !ok; try++ {
			_, _ = pc.WriteTo([]byte("after-close"), a.NewAddr("bb", svc))
			for w := 0; w < 10 && !ok; w++ {
				time.Sleep(25 * time.Millisecond)
				ok = got.Load() > early
			}
		}
		run.Eval(1)
		run.Count("closed_with_unread_datagrams", 1)
		if !ok {
			// is the node still reachable at all? (otherwise the absence of a notice proves nothing)
			ctx, cancel := context.WithTimeout(context.Background(), 10*time.Second)
			_, _, perr := a.Ping(ctx, "bb", 30)
			cancel()
			if perr != nil {
				run.Inconclusive(fmt.Sprintf("C16 extras: bb not reachable after closing a socket with unread datagrams (%v)", perr))
			}
			run.Violation("notice:missing:after-close-with-unread-datagrams", fmt.Sprintf("socket %q on bb was closed while %d datagram(s) for it were undelivered (Close returned: %v); 40 further datagrams to that service over 10 s produced no 'service unknown' notice at the sending socket (ping to bb afterwards: %v)", svc, pending, closeReturned, perr), nil)
			close(done)
			_ = pc.Close()
			break
		}
		run.Distinct(fmt.Sprintf("closed-unread|pending=%d", pending))
		close(done)
		_ = pc.Close()
	}
	// ---- (4) sockets opened while notices for ANOTHER socket are being fanned out on the same node (a noisy socket
	// whose consumer is slow keeps the node's notice broker busy): the new socket sends to an unbound service at once
	// and must get its own notice
	{
		noisy, err := a.ListenPacket("")
		if err == nil {
			ndone := make(chan struct{})
			nch := noisy.SubscribeUnreachable(ndone)
			go func() {
				for range nch {
					time.Sleep(time.Millisecond) // a slow consumer (capacity 1000 notices/s, five times the noise rate)
				}
			}()
			stopNoise := make(chan struct{})
			var nwg sync.WaitGroup
			for w := 0; w < 2; w++ {
				nwg.Add(1)
				go func() {
					defer nwg.Done()
					for {
						select {
						case <-stopNoise:
							return
						default:
						}
						_, _ = noisy.WriteTo([]byte("noise"), a.NewAddr("bb", "noise"))
						time.Sleep(10 * time.Millisecond)
					}
				}()
			}
			rounds := run.Pick(60, 400)
			missing := 0
			for i := 0; i < rounds && missing == 0; i++ {
				pc, err := a.ListenPacket("")
				if err != nil {
					continue
				}
				done := make(chan struct{})
				ch := pc.SubscribeUnreachable(done)
				svc := fmt.Sprintf("nz%d", i)
				var got atomic.Int64
				go func() {
					for n := range ch {
						if n.Problem == "service unknown" && n.ToNode == "bb" && n.ToService == svc {
							got.Add(1)
						}
					}
				}()
				_, werr := pc.WriteTo([]byte("fresh"), a.NewAddr("bb", svc))
				ok := false
				for w := 0; w < 400 && !ok; w++ {
					time.Sleep(25 * time.Millisecond)
					ok = got.Load() > 0
				}
				run.Eval(1)
				run.Count("sockets_opened_during_notice_fan_out", 1)
				if !ok && werr == nil {
					ctx, cancel := context.WithTimeout(context.Background(), 10*time.Second)
					_, _, perr := a.Ping(ctx, "bb", 30)
					cancel()
					if perr != nil {
						run.Inconclusive(fmt.Sprintf("C16 extras: bb not reachable (%v)", perr))
					} else {
						missing++
						run.Violation("notice:missing:socket-opened-during-fan-out", fmt.Sprintf("socket %d was opened while notices for another socket of the same node were being delivered; it subscribed, sent one datagram to the unbound service %q of a reachable node and got no 'service unknown' notice within 10 s (ping afterwards fine)", i, svc), nil)
					}
				}
				close(done)
				_ = pc.Close()
			}
			close(stopNoise)
			nwg.Wait()
			close(ndone)
			_ = noisy.Close()
			if missing == 0 {
				run.Distinct("fresh-socket-during-fan-out")
			}
		}
	}
	// ---- (2) local dials
	for i := 0; i < run.Pick(3, 12); i++ {
		target := "ba"
		if i%2 == 1 {
			target = "localhost"
		}
		ctx, cancel := context.WithTimeout(context.Background(), 25*time.Second) // longer than the 15 s handshake timeout
		conn, err := a.DialContext(ctx, target, fmt.Sprintf("nl%d", i), nil)
		cancel()
		run.Eval(1)
		switch {
		case err == nil:
			_ = conn.CloseConnection()
			run.Violation("dial:connected-to-unbound-service:local", fmt.Sprintf("a dial to an unbound service of the dialling node itself (%s) succeeded", target), nil)
		case strings.Contains(err.Error(), "deadline exceeded") || strings.Contains(err.Error(), "timeout") || strings.Contains(err.Error(), "did not complete"):
			run.Violation("dial:not-failed-fast:local", fmt.Sprintf("a dial to an unbound service of the dialling node itself (%s) was not abandoned because the service is unknown; it ran into a timeout: %v", target, err), nil)
		default:
			run.Distinct("local-dial|" + target)
		}
	}
}
