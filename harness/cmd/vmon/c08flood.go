package main

import (
	"bufio"
	"fmt"
	"net"
	"os"
	"path/filepath"
	"strings"
	"sync"
	"sync/atomic"
	"time"

	"verif/harness/internal/child"
	"verif/harness/internal/ctl"
	"verif/harness/internal/ev"
)

// C08 "any number of concurrent sessions": more sessions than the node has file descriptors for.
//
// A daemon is started with a low descriptor limit (`ulimit -n L` in front of the binary, as an
// init script or container would set it). A client opens, alternating between the Unix socket and
// the TCP control port, more sessions than the limit allows and holds them: the node greets as
// many as it has descriptors for, the rest wait in the listeners' queues while accept(2) fails
// with "too many open files" (the surplus is a matter of counting: more connections are open than
// the process may hold descriptors). Sessions that were greeted must still answer `status`. Then the
// client closes everything. Afterwards a FRESH session on EACH listener kind must be greeted and
// get answers to `status` and a self-ping within a generous bound - the client's sessions were
// input like any other, and "all other control sessions continue to get timely answers afterwards".
// A daemon that died is reported with the crash classification used elsewhere in C08.

// debugging aid: `vmon c08flood <tier>` runs the flood trials alone (point VERIF_ROOT at a scratch
// directory, the evidence file is written like for a full run).
func init() {
	register("c08flood", func(tier string, _ []string) {
		run := ev.New("C08", tier, "exploration")
		base := filepath.Join(workDir(), "c08")
		_ = os.MkdirAll(base, 0o755)
		c08Flood(run, base)
		run.Finish(0)
	})
}

const (
	c08FloodAfter = 30 * time.Second // bound for the fresh sessions after the flood (retried)
	c08FloodHeld  = 30 * time.Second // bound for `status` on a session held during the flood
)

type c08FloodConn struct {
	kind    string
	c       net.Conn
	r       *bufio.Reader
	greeted atomic.Bool
}

func c08FloodDial(d *ctl.Daemon, kind string, timeout time.Duration) (net.Conn, error) {
	if kind == "tcp" {
		return net.DialTimeout("tcp", fmt.Sprintf("127.0.0.1:%d", d.CtlPort), timeout)
	}
	return net.DialTimeout("unix", d.Sock(), timeout)
}

func c08FloodOpen(d *ctl.Daemon, kind string, timeout time.Duration) (*ctl.Client, error) {
	if kind == "tcp" {
		return ctl.DialTCP(fmt.Sprintf("127.0.0.1:%d", d.CtlPort), timeout)
	}
	return ctl.DialUnix(d.Sock(), timeout)
}

// c08FloodFresh: a fresh session of the kind must be greeted and answer status + self-ping.
func c08FloodFresh(d *ctl.Daemon, kind string, bound time.Duration) (greeted, answered bool, attempts int, detail string) {
	deadline := time.Now().Add(bound)
	for time.Now().Before(deadline) && d.Alive() {
		attempts++
		c, err := c08FloodOpen(d, kind, minDur(c08ProbeWait, time.Until(deadline)+time.Second))
		if err != nil {
			detail = fmt.Sprintf("attempt %d: fresh %s session: %v", attempts, kind, err)
			time.Sleep(300 * time.Millisecond)
			continue
		}
		greeted = true
		r := &c08Reader{c: c}
		okAll := true
		for _, p := range []string{"status", "ping"} {
			ok, seen, err := c08ProbeOnce(r, p, d.ID)
			if !ok {
				okAll = false
				detail = fmt.Sprintf("attempt %d: %s on a fresh %s session: err=%v lines=%q", attempts, p, kind, err, seen)
				break
			}
		}
		c.Close()
		if okAll {
			return true, true, attempts, ""
		}
	}
	return greeted, false, attempts, detail
}

func c08FloodLimitOf(pid int) string {
	b, err := os.ReadFile(fmt.Sprintf("/proc/%d/limits", pid))
	if err != nil {
		return ""
	}
	for _, l := range strings.Split(string(b), "\n") {
		if strings.HasPrefix(l, "Max open files") {
			if f := strings.Fields(l); len(f) >= 4 {
				return f[3]
			}
		}
	}
	return ""
}

func c08FloodCrash(run *ev.Run, d *ctl.Daemon, limit int, stage string, wit map[string]any) {
	fatal, top, _ := d.Fatal()
	if t := c08TopFrame(d.OutFile()); t != "" {
		top = t
	}
	if fatal == "" {
		fatal = "(no panic / fatal line) tail: " + c08Trunc(d.OutTail(600), 600)
	}
	wit["fatal"], wit["top_frame"], wit["stage"] = fatal, top, stage
	run.Count("crashes", 1)
	run.Violation("crash:flood:"+stage, fmt.Sprintf("a daemon limited to %d descriptors died %s more control sessions than that were opened and held: %s at %s :: %s", limit, stage, child.FatalClass(fatal), top, c08Trunc(fatal, 300)), wit)
}

func c08FloodOnce(run *ev.Run, base string, round, limit int) {
	run.Eval(1)
	name := fmt.Sprintf("flood%d", round)
	dir := filepath.Join(base, name)
	_ = os.MkdirAll(dir, 0o755)
	id := fmt.Sprintf("d08f%d", round)
	var d *ctl.Daemon
	var err error
	for try := 0; try < 4; try++ {
		d = ctl.NewDaemon(ctl.Cfg{ID: id, Dir: dir, TCPCtl: true, LogLevel: "error"})
		// the node's log (stdout) is discarded: the unchanged accept loop reports every failed accept
		// and retries at once, megabytes per second while the shortage lasts; panics and fatal
		// errors go to stderr and stay in the output file
		d.Wrap = []string{"/bin/sh", "-c", fmt.Sprintf(`ulimit -n %d || exit 97; exec "$@" >/dev/null`, limit), "sh"}
		if err = d.Start(); err == nil {
			// the TCP listener greets as well
			var c *ctl.Client
			for t0 := time.Now(); time.Since(t0) < 30*time.Second && d.Alive(); time.Sleep(100 * time.Millisecond) {
				if c, err = c08FloodOpen(d, "tcp", 5*time.Second); err == nil {
					c.Close()
					break
				}
			}
		}
		if err == nil {
			break
		}
		d.Kill()
		time.Sleep(300 * time.Millisecond)
	}
	if err != nil {
		run.Inconclusive(fmt.Sprintf("C08 flood: daemon with ulimit -n %d did not start: %v", limit, err))
		return
	}
	defer func() {
		d.Kill()
		c08KillStrays(dir)
	}()
	if got := c08FloodLimitOf(d.Pid()); got != fmt.Sprint(limit) {
		run.Inconclusive(fmt.Sprintf("C08 flood: the daemon's descriptor limit is %q, not %d", got, limit))
		return
	}
	wit := map[string]any{"descriptor_limit": limit, "daemon_output": d.OutFile()}
	// ---- before: both listeners serve
	for _, kind := range []string{"unix", "tcp"} {
		if _, ok, _, detail := c08FloodFresh(d, kind, c08FloodAfter); !ok {
			if !d.Alive() {
				c08FloodCrash(run, d, limit, "before", wit)
			} else {
				run.Inconclusive(fmt.Sprintf("C08 flood: %s listener of the limited daemon did not serve before the flood: %s", kind, detail))
			}
			return
		}
	}
	// ---- flood: alternate unix / tcp until far more sessions are open than descriptors exist
	total := 2*limit + 40
	conns := []*c08FloodConn{}
	var rwg sync.WaitGroup
	var greeted [2]atomic.Int64
	dialErrs := 0
	for i := 0; i < total; i++ {
		kind := []string{"unix", "tcp"}[i%2]
		c, err := c08FloodDial(d, kind, 5*time.Second)
		if err != nil {
			dialErrs++
			continue
		}
		fc := &c08FloodConn{kind: kind, c: c, r: bufio.NewReader(c)}
		conns = append(conns, fc)
		rwg.Add(1)
		go func(fc *c08FloodConn, ki int) {
			defer rwg.Done()
			l, err := fc.r.ReadString('\n')
			if err == nil && strings.HasPrefix(l, "Receptor Control, node ") {
				fc.greeted.Store(true)
				greeted[ki].Add(1)
			}
		}(fc, i%2)
	}
	closeAll := func() {
		for _, fc := range conns {
			_ = fc.c.Close()
		}
		rwg.Wait()
	}
	// wait until the number of greeted sessions has stopped growing (bounded)
	last, stable := int64(-1), 0
	for t0 := time.Now(); time.Since(t0) < 10*time.Second && stable < 10; time.Sleep(50 * time.Millisecond) {
		if g := greeted[0].Load() + greeted[1].Load(); g == last {
			stable++
		} else {
			last, stable = g, 0
		}
	}
	opened := map[string]int{}
	pending := map[string]int{}
	var held []*c08FloodConn
	heldKinds := map[string]int{}
	for _, fc := range conns {
		opened[fc.kind]++
		if !fc.greeted.Load() {
			pending[fc.kind]++
		} else if heldKinds[fc.kind] < 2 {
			heldKinds[fc.kind]++
			held = append(held, fc)
		}
	}
	run.Count("flood_sessions_opened", int64(len(conns)))
	run.Count("flood_sessions_greeted", last)
	run.Count("flood_sessions_waiting_unix", int64(pending["unix"]))
	run.Count("flood_sessions_waiting_tcp", int64(pending["tcp"]))
	wit["sessions_opened"], wit["sessions_greeted"], wit["sessions_waiting_without_greeting"], wit["dial_errors"] = opened, last, pending, dialErrs
	if !d.Alive() {
		closeAll()
		c08FloodCrash(run, d, limit, "while", wit)
		return
	}
	// more connections are open than the process may hold descriptors, so the surplus cannot have
	// been accepted: those sessions wait, ungreeted, while accept fails in the node
	effective := map[string]bool{}
	for _, k := range []string{"unix", "tcp"} {
		effective[k] = pending[k] > 0 && len(conns) > limit
	}
	// ---- sessions that were greeted keep answering while the node is out of descriptors
	for _, fc := range held {
		_ = fc.c.SetDeadline(time.Now().Add(c08FloodHeld))
		ok := false
		var lines []string
		if _, err := fc.c.Write([]byte("status\n")); err == nil {
			for len(lines) < 4 {
				l, err := fc.r.ReadString('\n')
				if err != nil {
					lines = append(lines, "read: "+err.Error())
					break
				}
				if c08ProbeMatch("status", id, strings.TrimRight(l, "\n")) {
					ok = true
					break
				}
				lines = append(lines, c08Trunc(l, 200))
			}
		} else {
			lines = append(lines, "write: "+err.Error())
		}
		_ = fc.c.SetDeadline(time.Time{})
		run.Count("flood_held_sessions_probed", 1)
		if !ok {
			alive := d.Alive()
			closeAll()
			if !alive {
				c08FloodCrash(run, d, limit, "while", wit)
				return
			}
			wit["held_session_lines"] = lines
			run.Violation("flood:held-session-unanswered:"+fc.kind, fmt.Sprintf("daemon limited to %d descriptors, %d control sessions open (%d greeted): `status` on a greeted %s session was not answered within %v while the process was alive: %q", limit, len(conns), last, fc.kind, c08FloodHeld, lines), wit)
			return
		}
	}
	// ---- the client goes away
	closeAll()
	// ---- afterwards: every listener serves fresh sessions again
	type after struct {
		kind              string
		greeted, answered bool
		attempts          int
		detail            string
	}
	res := make([]after, 2)
	var awg sync.WaitGroup
	for i, kind := range []string{"unix", "tcp"} {
		awg.Add(1)
		go func(i int, kind string) {
			defer awg.Done()
			g, a, n, det := c08FloodFresh(d, kind, c08FloodAfter)
			res[i] = after{kind, g, a, n, det}
		}(i, kind)
	}
	awg.Wait()
	if !d.Alive() {
		c08FloodCrash(run, d, limit, "after", wit)
		return
	}
	for _, a := range res {
		if a.answered {
			run.Count("flood_listeners_serving_afterwards", 1)
			if effective[a.kind] {
				run.Distinct(fmt.Sprintf("flood|%s|limit=%d|sessions-left-waiting", a.kind, limit))
			}
			continue
		}
		w := map[string]any{"kind": a.kind, "attempts": a.attempts, "last_attempt": a.detail}
		for k, v := range wit {
			w[k] = v
		}
		key := "flood:listener-dead:" + a.kind
		what := "was never greeted"
		if a.greeted {
			key = "flood:no-answer:" + a.kind
			what = "was greeted but got no answer to status / self-ping"
		}
		run.Violation(key, fmt.Sprintf("daemon limited to %d descriptors: a client opened %d control sessions (%d greeted, %d unix + %d tcp left waiting while accept failed), then closed them all; afterwards a fresh %s session %s in %d attempts over %v although the process is alive: %s", limit, len(conns), last, pending["unix"], pending["tcp"], a.kind, what, a.attempts, c08FloodAfter, a.detail), w)
	}
	for _, k := range []string{"unix", "tcp"} {
		if !effective[k] {
			run.Inconclusive(fmt.Sprintf("C08 flood (limit %d): no %s session was left waiting although %d sessions were open", limit, k, len(conns)))
		}
	}
}

// c08Flood runs the descriptor-exhaustion trials; the limit depends on the seed.
func c08Flood(run *ev.Run, base string) {
	t0 := time.Now()
	limits := []int{64, 80, 96, 128, 200}
	n := run.Pick(1, 4)
	for r := 0; r < n; r++ {
		c08FloodOnce(run, base, r, limits[(int(run.Seed)+r)%len(limits)])
	}
	run.Extra("flood_s", time.Since(t0).Seconds())
}
