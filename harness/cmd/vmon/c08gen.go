package main

import (
	"bytes"
	"encoding/json"
	"fmt"
	"math/rand"
	"regexp"
	"strings"
)

// C08 generator and the conservative "definitely invalid" classifier.
//
// Both are written from the documented control-service protocol (DESIGN appendix A), not from
// receptor's code: one request per line, either `<command> <params...>` or a JSON object with
// a string "command"; built-in commands ping, status, connect, traceroute, reload, work with
// the sub-commands submit, list, status, cancel, release, force-release, results.

// c08Input is one generated case. Raw is a template: placeholders (@NODE@, @FIN@, @RUN@,
// @TMP@, @TMPRUN@, @REL@, @DISKV@, @DISKE@, @DISKG@, @DISKN@, @DISKF@, @REP:<n>:<text>@) are
// resolved by the executor right before the case runs (unit fixtures are created on demand).
type c08Input struct {
	Idx    int    `json:"idx"`
	Mode   string `json:"mode"`             // line | script
	Raw    string `json:"raw,omitempty"`    // request line template without terminator (line mode)
	NL     string `json:"nl"`               // terminator actually sent: "\n", "\r\n" or "" (unterminated)
	After  string `json:"after,omitempty"`  // what the client does right after sending: "", halfclose, close
	Chunk  int    `json:"chunk,omitempty"`  // >0: send in writes of this many bytes
	Script string `json:"script,omitempty"` // script name (script mode)
	Arg    int    `json:"arg,omitempty"`    // script parameter (sizes)
	Cmd    string `json:"cmd"`              // generator's idea of the command addressed ("" = none)
	Mut    string `json:"mut"`              // fine mutation label (evidence: distinct cases)
	Class  string `json:"class"`            // stable class label (violation keys)
	Well   string `json:"well,omitempty"`   // well-formed command: expected answer shape
}

var c08Commands = map[string]bool{"ping": true, "status": true, "connect": true, "traceroute": true, "reload": true, "work": true}
var c08Subs = map[string]bool{"submit": true, "list": true, "status": true, "cancel": true, "release": true, "force-release": true, "results": true}

// c08Verdict is the classifier's judgement of one request line.
type c08Verdict struct {
	Blank   bool   // nothing but blanks / CR: not a request, a reply is optional
	Reached bool   // first token / "command" names a registered command (reaches InitFromString / InitFromJSON)
	Cmd     string // ping, status, ..., work.<sub> ("" if none)
	Invalid bool   // DEFINITELY not a valid command: the reply must start with ERROR
	Why     string
}

var c08UnknownRe = regexp.MustCompile(`^nosuch[0-9a-z]{1,16}$`)

// c08Judge classifies a request line (without its terminator). unknownUnit tells whether a
// unit id is known (to the harness) not to exist. The judgement is conservative: Invalid is
// set only when the line is invalid under the strict and under a tolerant reading.
func c08Judge(line []byte, unknownUnit func(string) bool) c08Verdict {
	// the protocol ignores CR; a tolerant reader ignores only a trailing one
	all := bytes.ReplaceAll(line, []byte{'\r'}, nil)
	trail := bytes.TrimRight(line, "\r")
	v := c08JudgeCore(all, unknownUnit)
	if bytes.Equal(all, trail) {
		return v
	}
	v2 := c08JudgeCore(trail, unknownUnit)
	v.Invalid = v.Invalid && v2.Invalid
	return v
}

func c08MaxDepth(s []byte) int {
	d, m := 0, 0
	inStr, esc := false, false
	for _, c := range s {
		if inStr {
			switch {
			case esc:
				esc = false
			case c == '\\':
				esc = true
			case c == '"':
				inStr = false
			}
			continue
		}
		switch c {
		case '"':
			inStr = true
		case '{', '[':
			d++
			if d > m {
				m = d
			}
		case '}', ']':
			d--
		}
	}
	return m
}

// c08DupKeys reports whether the top-level object repeats a key.
func c08DupKeys(s []byte) bool {
	dec := json.NewDecoder(bytes.NewReader(s))
	t, err := dec.Token()
	if err != nil || t != json.Delim('{') {
		return false
	}
	seen := map[string]bool{}
	for dec.More() {
		kt, err := dec.Token()
		if err != nil {
			return false
		}
		k, ok := kt.(string)
		if !ok {
			return false
		}
		if seen[k] {
			return true
		}
		seen[k] = true
		var skip json.RawMessage
		if err := dec.Decode(&skip); err != nil {
			return false
		}
	}
	return false
}

func c08IsBlank(s []byte) bool {
	for _, c := range s {
		if c != ' ' && c != '\t' && c != '\r' && c != '\v' && c != '\f' {
			return false
		}
	}
	return true
}

func c08Fields(s []byte) []string {
	return strings.FieldsFunc(string(s), func(r rune) bool { return r == ' ' || r == '\t' || r == '\v' || r == '\f' })
}

func c08JudgeCore(s []byte, unknownUnit func(string) bool) c08Verdict {
	v := c08Verdict{}
	if c08IsBlank(s) {
		v.Blank = true
		return v
	}
	if unknownUnit == nil {
		unknownUnit = func(string) bool { return false }
	}
	inv := func(why string) c08Verdict { v.Invalid = true; v.Why = why; return v }
	if s[0] == '{' {
		deep := c08MaxDepth(s) > 500
		var m map[string]any
		uerr := json.Unmarshal(s, &m)
		if uerr == nil {
			if c, ok := m["command"].(string); ok && c08Commands[c] {
				v.Reached = true
				v.Cmd = c
				if c == "work" {
					if sub, ok := m["subcommand"].(string); ok && c08Subs[strings.ToLower(sub)] {
						v.Cmd = "work." + strings.ToLower(sub)
					}
				}
			}
		}
		if deep {
			return v // nesting limits differ between JSON implementations: not judged
		}
		if !json.Valid(s) {
			return inv("starts with { but is not valid JSON")
		}
		if uerr != nil {
			return v // grammatical JSON that this decoder refuses (number range): not judged
		}
		if c08DupKeys(s) {
			return v // duplicate keys: which one counts is implementation-defined
		}
		cv, ok := m["command"]
		if !ok {
			return inv("JSON object without command")
		}
		cmd, ok := cv.(string)
		if !ok {
			return inv("command is not a string")
		}
		if !c08Commands[cmd] {
			if c08Commands[strings.ToLower(cmd)] {
				return v
			}
			return inv("unknown command")
		}
		reqStr := func(name string) bool { // true if the required string field is missing or of a wrong type
			x, ok := m[name]
			if !ok {
				return true
			}
			_, isS := x.(string)
			return !isS
		}
		optBad := func(name string) bool { // optional string field of a wrong type (null is not judged)
			x, ok := m[name]
			if !ok || x == nil {
				return false
			}
			_, isS := x.(string)
			return !isS
		}
		switch cmd {
		case "ping", "traceroute":
			if reqStr("target") {
				return inv(cmd + " without a string target")
			}
		case "connect":
			if reqStr("node") || reqStr("service") {
				return inv("connect without string node/service")
			}
			if optBad("tls") {
				return inv("connect tls of a wrong type")
			}
		case "status":
			if x, ok := m["requested_fields"]; ok && x != nil {
				l, isL := x.([]any)
				if !isL {
					return inv("requested_fields is not a list")
				}
				for _, e := range l {
					if _, isS := e.(string); !isS {
						return inv("requested_fields element is not a string")
					}
				}
			}
		case "work":
			if reqStr("subcommand") {
				return inv("work without a string subcommand")
			}
			sub := m["subcommand"].(string)
			if !c08Subs[strings.ToLower(sub)] {
				return inv("unknown work subcommand")
			}
			if sub != strings.ToLower(sub) {
				return v
			}
			switch sub {
			case "submit":
				if reqStr("node") || reqStr("worktype") {
					return inv("submit without string node/worktype")
				}
				if optBad("params") {
					return inv("submit with non-string params")
				}
			case "status", "cancel", "release", "force-release":
				if reqStr("unitid") {
					return inv("work " + sub + " without a string unitid")
				}
				if unknownUnit(m["unitid"].(string)) {
					return inv("unknown work unit")
				}
			case "results":
				if reqStr("unitid") {
					return inv("work results without a string unitid")
				}
				sp, ok := m["startpos"]
				if !ok {
					return inv("work results without startpos")
				}
				switch sp.(type) {
				case bool, []any, map[string]any:
					return inv("work results startpos of a wrong type")
				case float64:
					if unknownUnit(m["unitid"].(string)) {
						return inv("unknown work unit")
					}
				}
			}
		}
		return v
	}
	// plain form, `<command> <params...>`. Two readings: strict (tokens are separated by exactly
	// one space, so blanks can be part of a parameter) and tolerant (runs of blanks separate
	// tokens). ERROR is demanded only when the line is invalid under both.
	strictToks := strings.Split(string(s), " ")
	strict := strings.ToLower(strictToks[0])
	if c08Commands[strict] {
		v.Reached = true
		v.Cmd = strict
		if strict == "work" && len(strictToks) > 1 && c08Subs[strings.ToLower(strictToks[1])] {
			v.Cmd = "work." + strings.ToLower(strictToks[1])
		}
	}
	whyS := c08PlainInvalid(strictToks, unknownUnit)
	whyT := c08PlainInvalid(c08Fields(s), unknownUnit)
	if whyS != "" && whyT != "" {
		return inv(whyT)
	}
	return v
}

// c08PlainInvalid returns why a token list is not a valid command ("" if it may be one).
func c08PlainInvalid(f []string, unknownUnit func(string) bool) string {
	if len(f) == 0 {
		return ""
	}
	f0 := strings.ToLower(f[0])
	if !c08Commands[f0] {
		return "unknown first token"
	}
	rest := strings.Join(f[1:], " ")
	switch f0 {
	case "ping", "traceroute":
		if rest == "" {
			return f0 + " without a target"
		}
	case "connect":
		if len(f) < 3 {
			return "connect without node and service"
		}
	case "work":
		if len(f) < 2 {
			return "work without a subcommand"
		}
		sub := strings.ToLower(f[1])
		if !c08Subs[sub] {
			return "unknown work subcommand"
		}
		switch sub {
		case "submit":
			if len(f) < 4 {
				return "work submit without node and work type"
			}
		case "status", "cancel", "release", "force-release":
			if len(f) < 3 {
				return "work " + sub + " without a unit id"
			}
			if len(f) == 3 && unknownUnit(f[2]) {
				return "unknown work unit"
			}
		case "results":
			if len(f) < 3 {
				return "work results without a unit id"
			}
			if unknownUnit(f[2]) && (len(f) == 3 || (len(f) == 4 && c08Decimal(f[3]))) {
				return "unknown work unit"
			}
		}
	}
	return ""
}

func c08Decimal(s string) bool {
	if s == "" || len(s) > 15 {
		return false
	}
	for _, c := range s {
		if c < '0' || c > '9' {
			return false
		}
	}
	return true
}

// ---------------------------------------------------------------- generator

type c08KV struct{ K, V string } // V is raw JSON text

func c08Obj(kvs []c08KV) string {
	var b strings.Builder
	b.WriteByte('{')
	for i, kv := range kvs {
		if i > 0 {
			b.WriteByte(',')
		}
		kb, _ := json.Marshal(kv.K)
		b.Write(kb)
		b.WriteByte(':')
		b.WriteString(kv.V)
	}
	b.WriteByte('}')
	return b.String()
}

func c08Q(s string) string { b, _ := json.Marshal(s); return string(b) }

type c08TypeVal struct{ Name, Raw string }

var c08Types = []c08TypeVal{
	{"null", "null"}, {"true", "true"}, {"zero", "0"}, {"neg", "-1"}, {"float", "1.5"}, {"big", "1e308"},
	{"empty-str", `""`}, {"str", `"x"`}, {"empty-arr", "[]"}, {"num-arr", "[1]"}, {"str-arr", `["a"]`},
	{"empty-obj", "{}"}, {"obj", `{"a":1}`}, {"hugeint", "123456789012345678901234567890"},
}

type c08Field struct {
	Name  string
	Valid string // raw JSON of a valid value ("" = absent in the baseline)
	Typ   string // string | list | int
}

type c08Spec struct {
	Cmd    string // ping ... work.status
	Fields []c08Field
	Plain  []string // valid plain tokens after the command words
}

func c08Specs() []c08Spec {
	sig := c08Field{"signature", "", "string"}
	return []c08Spec{
		{"ping", []c08Field{{"target", `"@NODE@"`, "string"}}, []string{"@NODE@"}},
		{"traceroute", []c08Field{{"target", `"@NODE@"`, "string"}}, []string{"@NODE@"}},
		{"connect", []c08Field{{"node", `"@NODE@"`, "string"}, {"service", `"control"`, "string"}, {"tls", "", "string"}}, []string{"@NODE@", "control"}},
		{"status", []c08Field{{"requested_fields", "", "list"}}, nil},
		{"reload", []c08Field{{"bogus", "", "string"}}, nil},
		{"work.submit", []c08Field{{"node", `"@NODE@"`, "string"}, {"worktype", `"gen"`, "string"}, {"params", "", "string"},
			{"tlsclient", "", "string"}, {"ttl", "", "string"}, {"signwork", "", "string"}, sig}, []string{"@NODE@", "gen"}},
		{"work.list", []c08Field{{"unitid", "", "string"}}, nil},
		{"work.status", []c08Field{{"unitid", `"@FIN@"`, "string"}, sig}, []string{"@FIN@"}},
		{"work.cancel", []c08Field{{"unitid", `"@TMPRUN@"`, "string"}, sig}, []string{"@TMPRUN@"}},
		{"work.release", []c08Field{{"unitid", `"@TMP@"`, "string"}, sig}, []string{"@TMP@"}},
		{"work.force-release", []c08Field{{"unitid", `"@TMP@"`, "string"}, sig}, []string{"@TMP@"}},
		{"work.results", []c08Field{{"unitid", `"@FIN@"`, "string"}, {"startpos", "0", "int"}, sig}, []string{"@FIN@", "0"}},
	}
}

func (s *c08Spec) head() []c08KV {
	if strings.HasPrefix(s.Cmd, "work.") {
		return []c08KV{{"command", `"work"`}, {"subcommand", c08Q(strings.TrimPrefix(s.Cmd, "work."))}}
	}
	return []c08KV{{"command", c08Q(s.Cmd)}}
}

func (s *c08Spec) words() string { return strings.ReplaceAll(s.Cmd, ".", " ") }

// baseline returns the valid JSON form, with field `skip` left out and `extra` appended.
func (s *c08Spec) baseline(skip string, extra ...c08KV) string {
	kvs := s.head()
	for _, f := range s.Fields {
		if f.Name == skip || f.Valid == "" {
			continue
		}
		kvs = append(kvs, c08KV{f.Name, f.Valid})
	}
	kvs = append(kvs, extra...)
	return c08Obj(kvs)
}

func c08Bucket(typ, tname string) string {
	switch typ {
	case "list":
		switch tname {
		case "empty-arr", "str-arr":
			return "list"
		case "num-arr":
			return "badlist"
		}
		return "nonlist"
	case "int":
		switch tname {
		case "zero", "neg", "float", "big", "hugeint":
			return "number"
		case "empty-str", "str":
			return "string"
		}
		return "nonnumber"
	}
	if tname == "empty-str" || tname == "str" {
		return "string"
	}
	return "nonstring"
}

type c08Gen struct {
	out []*c08Input
	rng *rand.Rand
}

func (g *c08Gen) add(in c08Input) *c08Input {
	if in.Mode == "" {
		in.Mode = "line"
	}
	if in.Mode == "line" && in.NL == "" && in.After == "" {
		in.NL = "\n"
	}
	p := &in
	g.out = append(g.out, p)
	return p
}

// unterminated adds a line that is sent without terminator (after = halfclose | close).
func (g *c08Gen) unterminated(in c08Input, after string) {
	in.Mode = "line"
	in.After = after
	in.NL = ""
	p := &in
	g.out = append(g.out, p)
}

var c08UnitSubs = []string{"status", "cancel", "release", "force-release", "results", "list"}

type c08UID struct{ Name, ID, Class string }

func c08UIDs(sub string) []c08UID {
	exist := "@FIN@"
	switch sub {
	case "cancel":
		exist = "@TMPRUN@"
	case "release", "force-release":
		exist = "@TMP@"
	}
	return []c08UID{
		{"existing", exist, "unit-existing"},
		{"running", map[bool]string{true: "@TMPRUN@", false: "@RUN@"}[sub == "cancel" || sub == "release" || sub == "force-release"], "unit-existing"},
		{"released", "@REL@", "unit-released"},
		{"unknown", "nosuchunit7", "unit-unknown"},
		{"ondisk-valid", "@DISKV@", "unit-only-on-disk"},
		{"ondisk-empty", "@DISKE@", "unit-only-on-disk"},
		{"ondisk-garbage", "@DISKG@", "unit-only-on-disk"},
		{"ondisk-nostatus", "@DISKN@", "unit-dir-nostatus"},
		{"ondisk-file", "@DISKF@", "unit-path-is-file"},
		{"ondisk-valid-dot", "@DISKV@/.", "unit-only-on-disk"},
		{"ondisk-valid-updown", "../@NODE@/@DISKV@", "unit-only-on-disk"},
		{"existing-slash", exist + "/", "unit-pathchars"},
		{"existing-updown", "../@NODE@/" + exist, "unit-pathchars"},
		{"slash", "a/b", "unit-pathchars"},
		{"dotdot", "..", "unit-pathchars"},
		{"dotdot2", "../..", "unit-pathchars"},
		{"dotdot-etc", "../../../../../../../../etc", "unit-pathchars"},
		{"abs", "/etc/passwd", "unit-pathchars"},
		{"root", "/", "unit-pathchars"},
		{"dot", ".", "unit-dot"},
		{"empty", "", "unit-empty"},
		{"nul", "ab\x00cd", "unit-nul"},
		{"space", "a b", "unit-space"},
		{"long4k", "@REP:4096:A@", "unit-long"},
		{"unicode", "é世\U0001F600", "unit-unicode"},
		{"format", "%s%n%x", "unit-format"},
	}
}

// genC08 returns the case list: a deterministic function of (seed, thorough).
func genC08(seed int64, thorough bool) []*c08Input {
	g := &c08Gen{rng: rand.New(rand.NewSource(seed*7919 + 17))}
	specs := c08Specs()

	// ---- well-formed traffic (answers are checked for shape)
	for _, w := range []c08Input{
		{Raw: "status", Cmd: "status", Well: "status"},
		{Raw: `{"command":"status"}`, Cmd: "status", Well: "status"},
		{Raw: `{"command":"status","requested_fields":["NodeID","Version"]}`, Cmd: "status", Well: "status"},
		{Raw: `{"command":"status","requested_fields":[]}`, Cmd: "status", Well: "json"},
		{Raw: "ping @NODE@", Cmd: "ping", Well: "ping"},
		{Raw: `{"command":"ping","target":"@NODE@"}`, Cmd: "ping", Well: "ping"},
		{Raw: "ping nosuchnode", Cmd: "ping", Well: "pingfail"},
		{Raw: "traceroute @NODE@", Cmd: "traceroute", Well: "json"},
		{Raw: "traceroute nosuchnode", Cmd: "traceroute", Well: "json"},
		{Raw: `{"command":"traceroute","target":"@NODE@"}`, Cmd: "traceroute", Well: "json"},
		{Raw: "connect nosuchnode control", Cmd: "connect", Well: "any"},
		{Raw: "connect @NODE@ nosuchsvc", Cmd: "connect", Well: "any"},
		{Raw: "reload", Cmd: "reload", Well: "any"},
		{Raw: `{"command":"reload"}`, Cmd: "reload", Well: "any"},
		{Raw: "work list", Cmd: "work.list", Well: "list"},
		{Raw: `{"command":"work","subcommand":"list"}`, Cmd: "work.list", Well: "list"},
		{Raw: "work list @FIN@", Cmd: "work.list", Well: "list"},
		{Raw: "work status @FIN@", Cmd: "work.status", Well: "unit"},
		{Raw: "work status @RUN@", Cmd: "work.status", Well: "unit"},
		{Raw: `{"command":"work","subcommand":"status","unitid":"@FIN@"}`, Cmd: "work.status", Well: "unit"},
		{Raw: "work release @TMP@", Cmd: "work.release", Well: "json"},
		{Raw: "work force-release @TMP@", Cmd: "work.force-release", Well: "json"},
		{Raw: "work cancel @TMPRUN@", Cmd: "work.cancel", Well: "json"},
		{Raw: `{"command":"work","subcommand":"release","unitid":"@TMP@"}`, Cmd: "work.release", Well: "json"},
	} {
		w.Mut = "well:" + w.Raw
		w.Class = "well:" + w.Cmd
		g.add(w)
	}

	// ---- every field of every command: absent and every JSON type
	for si := range specs {
		s := &specs[si]
		for _, f := range s.Fields {
			g.add(c08Input{Raw: s.baseline(f.Name), Cmd: s.Cmd, Mut: fmt.Sprintf("json:%s.%s=absent", s.Cmd, f.Name), Class: fmt.Sprintf("%s.%s:absent", s.Cmd, f.Name)})
			for _, t := range c08Types {
				g.add(c08Input{Raw: s.baseline(f.Name, c08KV{f.Name, t.Raw}), Cmd: s.Cmd,
					Mut: fmt.Sprintf("json:%s.%s=%s", s.Cmd, f.Name, t.Name), Class: fmt.Sprintf("%s.%s:%s", s.Cmd, f.Name, c08Bucket(f.Typ, t.Name))})
			}
		}
		// extra unknown fields
		for _, t := range []c08TypeVal{c08Types[0], c08Types[7], c08Types[12]} {
			g.add(c08Input{Raw: s.baseline("", c08KV{"bogus_field", t.Raw}), Cmd: s.Cmd, Mut: fmt.Sprintf("json:%s+unknown=%s", s.Cmd, t.Name), Class: s.Cmd + ":unknown-field"})
		}
		// duplicate keys: valid then invalid type, and the reverse
		if f := s.Fields[0]; f.Valid != "" {
			g.add(c08Input{Raw: s.baseline("", c08KV{f.Name, "5"}), Cmd: s.Cmd, Mut: fmt.Sprintf("json:%s.%s dup valid,num", s.Cmd, f.Name), Class: s.Cmd + ":dupkey"})
			kvs := append(s.head(), c08KV{f.Name, "[]"})
			for _, ff := range s.Fields {
				if ff.Valid != "" {
					kvs = append(kvs, c08KV{ff.Name, ff.Valid})
				}
			}
			g.add(c08Input{Raw: c08Obj(kvs), Cmd: s.Cmd, Mut: fmt.Sprintf("json:%s.%s dup arr,valid", s.Cmd, f.Name), Class: s.Cmd + ":dupkey"})
		}
		g.add(c08Input{Raw: c08Obj(append([]c08KV{{"command", `"bogus"`}}, s.head()...)), Cmd: s.Cmd, Mut: "json:" + s.Cmd + " dup command bogus,valid", Class: s.Cmd + ":dupkey"})
		g.add(c08Input{Raw: c08Obj(append(s.head(), c08KV{"command", "7"})), Cmd: s.Cmd, Mut: "json:" + s.Cmd + " dup command valid,num", Class: s.Cmd + ":dupkey"})
	}
	// the top-level "command" and the work "subcommand" themselves
	g.add(c08Input{Raw: `{"target":"@NODE@"}`, Mut: "json:command=absent", Class: "command:absent"})
	g.add(c08Input{Raw: `{"command":"work"}`, Cmd: "work", Mut: "json:work.subcommand=absent", Class: "work.subcommand:absent"})
	for _, t := range c08Types {
		g.add(c08Input{Raw: `{"command":` + t.Raw + `,"target":"@NODE@"}`, Mut: "json:command=" + t.Name, Class: "command:" + c08Bucket("string", t.Name)})
		g.add(c08Input{Raw: `{"command":"work","subcommand":` + t.Raw + `,"unitid":"@FIN@"}`, Cmd: "work", Mut: "json:work.subcommand=" + t.Name, Class: "work.subcommand:" + c08Bucket("string", t.Name)})
	}
	for _, c := range []string{"bogus", "PING", "Status", "work ", " work", "ping\x00", "wor", "workk", "status;reload", "../ping"} {
		g.add(c08Input{Raw: `{"command":` + c08Q(c) + `,"target":"@NODE@"}`, Mut: "json:command=" + c08Q(c), Class: "command:unknown"})
	}
	for _, c := range []string{"bogus", "STATUS", "List", "submit ", "", "force_release", "forcerelease", "results\x00"} {
		g.add(c08Input{Raw: `{"command":"work","subcommand":` + c08Q(c) + `,"unitid":"@FIN@","startpos":0}`, Cmd: "work", Mut: "json:work.subcommand=" + c08Q(c), Class: "work.subcommand:unknown"})
	}

	// ---- startpos values
	for _, sp := range []string{"-1", "-9223372036854775808", "9223372036854775807", "9223372036854775808", "1e308", "-1e308", "1.5", "2999", "3000", "3001", `"5"`, `"-1"`, `"abc"`, `""`, "1e999", "0.0000001", "-0"} {
		g.add(c08Input{Raw: `{"command":"work","subcommand":"results","unitid":"@FIN@","startpos":` + sp + `}`, Cmd: "work.results", Mut: "json:work.results.startpos=" + sp, Class: "work.results.startpos:value"})
	}
	for _, sp := range []string{"-1", "-9223372036854775808", "9223372036854775807", "9223372036854775808", "99999999999999999999999", "1.5", "1e3", "abc", "0x10", "+5", "2999", "3000", "3001", "٣", "0 0", ""} {
		g.add(c08Input{Raw: "work results @FIN@ " + sp, Cmd: "work.results", Mut: "plain:work.results startpos=" + sp, Class: "work.results.startpos:value"})
	}

	// ---- unit ids
	coreUID := map[string]bool{"existing": true, "released": true, "unknown": true, "ondisk-valid": true, "ondisk-empty": true, "ondisk-garbage": true,
		"ondisk-nostatus": true, "ondisk-file": true, "dotdot": true, "nul": true, "long4k": true, "empty": true}
	for _, sub := range c08UnitSubs {
		for _, u := range c08UIDs(sub) {
			if !thorough && sub != "status" && !coreUID[u.Name] {
				continue // quick: the full id list for `work status`, the core ids for the other sub-commands
			}
			extra := ""
			jextra := ""
			if sub == "results" {
				extra = " 0"
				jextra = `,"startpos":0`
			}
			if !strings.ContainsAny(u.ID, "\x00") || true {
				g.add(c08Input{Raw: "work " + sub + " " + u.ID + extra, Cmd: "work." + sub, Mut: fmt.Sprintf("plain:work.%s uid=%s", sub, u.Name), Class: u.Class})
			}
			g.add(c08Input{Raw: `{"command":"work","subcommand":"` + sub + `","unitid":` + c08Q(u.ID) + jextra + `}`, Cmd: "work." + sub, Mut: fmt.Sprintf("json:work.%s uid=%s", sub, u.Name), Class: u.Class})
		}
	}

	// ---- plain forms: 0..5 tokens after the command words
	for si := range specs {
		s := &specs[si]
		for n := 0; n <= 5; n++ {
			toks := []string{}
			for i := 0; i < n; i++ {
				if i < len(s.Plain) {
					toks = append(toks, s.Plain[i])
				} else {
					toks = append(toks, "x")
				}
			}
			raw := strings.TrimSpace(s.words() + " " + strings.Join(toks, " "))
			g.add(c08Input{Raw: raw, Cmd: s.Cmd, Mut: fmt.Sprintf("plain:%s tokens=%d", s.Cmd, n), Class: "plain:" + s.Cmd + ":tokens"})
		}
	}
	g.add(c08Input{Raw: "work", Cmd: "work", Mut: "plain:work tokens=0", Class: "plain:work:tokens"})
	g.add(c08Input{Raw: "work bogus", Cmd: "work", Mut: "plain:work bogus", Class: "plain:work:unknown-sub"})
	g.add(c08Input{Raw: "work bogus a b c", Cmd: "work", Mut: "plain:work bogus a b c", Class: "plain:work:unknown-sub"})
	g.add(c08Input{Raw: "work submit @NODE@ nosuchtype", Cmd: "work.submit", Mut: "plain:work.submit unknown worktype", Class: "work.submit:unknown-worktype"})
	g.add(c08Input{Raw: "work submit nosuchnode gen", Cmd: "work.submit", Mut: "plain:work.submit unknown node", Class: "work.submit:unknown-node"})
	g.add(c08Input{Raw: "work submit localhost gen", Cmd: "work.submit", Mut: "plain:work.submit localhost", Class: "work.submit:localhost"})
	g.add(c08Input{Raw: `{"command":"work","subcommand":"submit","node":"nosuchnode","worktype":"gen","ttl":"1s","signwork":"true"}`, Cmd: "work.submit", Mut: "json:work.submit remote ttl signwork", Class: "work.submit:unknown-node"})
	g.add(c08Input{Raw: `{"command":"work","subcommand":"submit","node":"nosuchnode","worktype":"gen","ttl":"-1h"}`, Cmd: "work.submit", Mut: "json:work.submit remote negative ttl", Class: "work.submit:unknown-node"})
	g.add(c08Input{Raw: `{"command":"work","subcommand":"submit","node":"nosuchnode","worktype":"gen","secret_x":"y"}`, Cmd: "work.submit", Mut: "json:work.submit remote secret", Class: "work.submit:unknown-node"})

	// ---- blanks, CR/LF, case, tabs around valid commands
	wsBase := []struct{ cmd, line string }{{"ping", "ping @NODE@"}, {"status", "status"}, {"connect", "connect nosuchnode control"}, {"traceroute", "traceroute @NODE@"}, {"reload", "reload"}, {"work.status", "work status @FIN@"}, {"work.list", "work list"}}
	if !thorough {
		wsBase = []struct{ cmd, line string }{wsBase[0], wsBase[1], wsBase[2], wsBase[5]}
	}
	for _, b := range wsBase {
		up := strings.ToUpper(b.line[:strings.IndexAny(b.line+" ", " ")]) + b.line[strings.IndexAny(b.line+" ", " "):]
		for _, w := range []struct{ n, l, nl string }{
			{"lead-space", " " + b.line, "\n"}, {"trail-space", b.line + " ", "\n"}, {"trail-2space", b.line + "  ", "\n"},
			{"double-space", strings.ReplaceAll(b.line, " ", "  "), "\n"}, {"lead-tab", "\t" + b.line, "\n"}, {"trail-tab", b.line + "\t", "\n"},
			{"tab-sep", strings.ReplaceAll(b.line, " ", "\t"), "\n"}, {"crlf", b.line, "\r\n"}, {"lead-cr", "\r" + b.line, "\n"},
			{"mid-cr", b.line[:2] + "\r" + b.line[2:], "\n"}, {"upper", up, "\n"}, {"trail-nul", b.line + "\x00", "\n"}, {"lead-nul", "\x00" + b.line, "\n"},
			{"trail-vt", b.line + "\v", "\n"},
		} {
			g.add(c08Input{Raw: w.l, NL: w.nl, Cmd: b.cmd, Mut: "ws:" + w.n + ":" + b.cmd, Class: "plain:whitespace"})
		}
	}
	for _, bl := range []struct{ n, l, nl string }{{"empty", "", "\n"}, {"crlf-only", "", "\r\n"}, {"space", " ", "\n"}, {"spaces", "     ", "\n"}, {"tab", "\t", "\n"}, {"cr3", "\r\r\r", "\n"}, {"space-cr", " \r", "\n"}} {
		g.add(c08Input{Raw: bl.l, NL: bl.nl, Mut: "blank:" + bl.n, Class: "blank"})
	}

	// ---- bytes
	for _, b := range []struct{ n, l string }{
		{"nul", "\x00"}, {"soh", "\x01"}, {"del", "\x7f"}, {"x80", "\x80"}, {"xff", "\xff"}, {"xc0", "\xc0"}, {"bad-utf8", "\xc3\x28"}, {"trunc-utf8", "\xe2\x82"},
		{"bom-status", "\xef\xbb\xbfstatus"}, {"utf16", "\xff\xfes\x00t\x00a\x00t\x00u\x00s\x00"}, {"nul1000", "@REP:1000:\x00@"}, {"telnet", "\xff\xf4\xff\xfd\x06"},
		{"http", "GET / HTTP/1.1"}, {"tls-hello", "\x16\x03\x01\x02\x00\x01\x00\x01\xfc\x03\x03"}, {"format", "%s%s%n%x"}, {"shell", "$(reboot)"}, {"backtick", "`id`"}, {"semicolon", "; ls"},
		{"path", "../../etc/passwd"}, {"dash-h", "-h"}, {"help", "help"}, {"quit", "quit"}, {"qmark", "?"}, {"json-array", `[{"command":"status"}]`}, {"json-string", `"status"`},
		{"json-num", "5"}, {"json-null", "null"}, {"json-true", "true"}, {"quote-status", `'status'`}, {"stat", "stat"}, {"statuss", "statuss"}, {"status-nul-mid", "sta\x00tus"},
		{"high200", "@REP:200:\xfe@"}, {"esc-seq", "\x1b[2J\x1b[H"}, {"ping-nul-target", "ping \x00"}, {"ping-high-target", "ping \xff\xfe\xfd"}, {"connect-nul", "connect \x00 \x00"},
		{"work-nul", "work \x00"}, {"emoji", "\U0001F600 status"},
	} {
		g.add(c08Input{Raw: b.l, Mut: "bytes:" + b.n, Class: "bytes"})
	}

	// ---- "{"-prefixed garbage and JSON shapes
	for _, j := range []string{
		`{`, `{}`, `{{`, `{"command"`, `{"command":}`, `{"command":"ping"`, `{"command":"ping"}}`, `{"command":"status"}garbage`, `{]`, `{"a":1}`, `{"command":""}`,
		`{ "command" : "status" }`, "{\t\"command\":\"status\"}", `{"command":"status"}`, `{"COMMAND":"status"}`, `{"Command":"status"}`, `{"command":"status",}`,
		`{'command':'status'}`, `{command:"status"}`, `{"command":"status"} {"command":"status"}`, `{"command":"status"}{"command":"status"}`, `{"command":"status" "x":1}`,
		`{"command":"ping","target":"\ud800"}`, `{"command":"ping","target":"\u0000"}`, "{\"command\":\"ping\",\"target\":\"\xff\xfe\"}", `{"command":"ping","target":"\x"}`,
		`{"command":"status","x":1e999}`, `{"command":"status","x":-}`, `{"command":"status","x":01}`, `{"command":"status","x":NaN}`, `{"command":"status","x":Infinity}`,
		`{"":""}`, `{"\u0000":1}`, `{"command":"status","":""}`, "{\x00}", "{\xff}", `{/*c*/"command":"status"}`, `{"command":"status"}//`, `{"command":"status"}` + "\x00",
	} {
		g.add(c08Input{Raw: j, Mut: "jsongarbage:" + j, Class: "jsongarbage"})
	}
	for _, j := range []struct{ v, bucket string }{{`[null]`, "badlist"}, {`[[]]`, "badlist"}, {`["NodeID",5]`, "badlist"}, {`[5,"NodeID"]`, "badlist"}, {`["nosuchfield"]`, "list"},
		{`["NodeID","NodeID","NodeID"]`, "list"}, {`{"0":"NodeID"}`, "nonlist"}, {`"NodeID"`, "nonlist"}, {`"[\"NodeID\"]"`, "nonlist"}} {
		g.add(c08Input{Raw: `{"command":"status","requested_fields":` + j.v + `}`, Cmd: "status", Mut: "json:status.requested_fields=" + j.v, Class: "status.requested_fields:" + j.bucket})
	}
	// deep nesting
	for _, n := range []int{9999, 10001, 100000} {
		ob, cb := fmt.Sprintf("@REP:%d:[@", n), fmt.Sprintf("@REP:%d:]@", n)
		g.add(c08Input{Raw: `{"command":"status","x":` + ob + cb + `}`, Cmd: "status", Mut: fmt.Sprintf("deep:status extra array %d", n), Class: "json-deep"})
		g.add(c08Input{Raw: `{"command":"status","x":` + ob, Cmd: "", Mut: fmt.Sprintf("deep:unclosed %d", n), Class: "json-deep"})
		if n > 20000 && !thorough {
			continue // the daemon reads a line byte by byte: quick keeps the 100 000-deep cases to two
		}
		g.add(c08Input{Raw: `{"command":"ping","target":` + ob + cb + `}`, Cmd: "ping", Mut: fmt.Sprintf("deep:ping target array %d", n), Class: "json-deep"})
		g.add(c08Input{Raw: `{"command":"status","requested_fields":` + ob + cb + `}`, Cmd: "status", Mut: fmt.Sprintf("deep:status requested_fields array %d", n), Class: "json-deep"})
		g.add(c08Input{Raw: `{"command":"status","x":` + fmt.Sprintf(`@REP:%d:{"a":@`, n) + `1` + fmt.Sprintf("@REP:%d:}@", n) + `}`, Cmd: "status", Mut: fmt.Sprintf("deep:status extra object %d", n), Class: "json-deep"})
		g.add(c08Input{Raw: fmt.Sprintf("@REP:%d:{@", n), Mut: fmt.Sprintf("deep:braces %d", n), Class: "json-deep"})
	}

	// ---- over-long lines, terminated and not
	sizes := []int{65536, 1 << 20}
	if thorough {
		sizes = append(sizes, 16<<20)
	}
	for _, sz := range sizes {
		lbl := fmt.Sprintf("%dK", sz>>10)
		rep := fmt.Sprintf("@REP:%d:A@", sz)
		big := []c08Input{
			{Raw: rep, Mut: "long:" + lbl + " unknown token", Class: "overlong"},
			{Raw: "{" + rep, Mut: "long:" + lbl + " brace garbage", Class: "overlong"},
			{Raw: `{"command":"status","pad":"` + rep + `"}`, Cmd: "status", Mut: "long:" + lbl + " valid status with padding", Class: "overlong", Well: "status"},
			{Raw: "ping " + rep, Cmd: "ping", Mut: "long:" + lbl + " ping target", Class: "overlong"},
			{Raw: "work status " + rep, Cmd: "work.status", Mut: "long:" + lbl + " work status id", Class: "overlong"},
			{Raw: `{"command":"work","subcommand":"status","unitid":"` + rep + `"}`, Cmd: "work.status", Mut: "long:" + lbl + " json work status id", Class: "overlong"},
		}
		for i, b := range big {
			if sz >= 16<<20 {
				// 16 MiB (thorough): one terminated and one unterminated line only — the daemon reads byte by byte
				if i == 0 {
					g.add(b)
				}
				if i == 1 {
					b2 := b
					b2.Mut += " unterminated+halfclose"
					g.unterminated(b2, "halfclose")
				}
				continue
			}
			if sz >= 1<<20 && !thorough && i >= 2 {
				break // quick: two 1 MiB shapes (the daemon reads a line byte by byte: seconds per MiB)
			}
			g.add(b)
			if (i < 3 && (thorough || sz < 1<<20)) || (i == 1 && sz < 16<<20) {
				b2 := b
				b2.Mut += " unterminated+halfclose"
				b2.Well = ""
				g.unterminated(b2, "halfclose")
				if thorough || sz < 1<<20 {
					b3 := b
					b3.Mut += " unterminated+close"
					b3.Well = ""
					g.unterminated(b3, "close")
				}
			}
		}
	}
	// unterminated short lines: mid-line disconnects
	for _, l := range []struct{ cmd, l string }{{"status", "status"}, {"status", "sta"}, {"work.status", "work status @FIN@"}, {"work.submit", "work submit @NODE@ gen"}, {"", `{"command":"sta`},
		{"status", `{"command":"status"}`}, {"ping", "ping @NODE@"}, {"work.results", "work results @FIN@"}, {"connect", "connect @NODE@ control"}, {"", "bogus"}, {"", "{"}, {"", "\x00"}} {
		g.unterminated(c08Input{Raw: l.l, Cmd: l.cmd, Mut: "unterminated+halfclose:" + l.l, Class: "unterminated:halfclose"}, "halfclose")
		g.unterminated(c08Input{Raw: l.l, Cmd: l.cmd, Mut: "unterminated+close:" + l.l, Class: "unterminated:close"}, "close")
	}
	// terminated line followed by an immediate close (the reply has nowhere to go)
	for _, l := range []struct{ cmd, l string }{{"status", "status"}, {"ping", "ping @NODE@"}, {"work.list", "work list"}, {"work.status", "work status @FIN@"}, {"work.results", "work results @FIN@"}, {"work.submit", "work submit @NODE@ gen"}, {"connect", "connect @NODE@ control"}, {"traceroute", "traceroute @NODE@"}, {"", "bogus"}} {
		g.out = append(g.out, &c08Input{Mode: "line", Raw: l.l, NL: "\n", After: "close", Cmd: l.cmd, Mut: "line+close:" + l.l, Class: "disconnect:after-request"})
	}
	// valid commands in tiny writes
	for _, l := range []struct{ cmd, l, well string }{{"status", "status", "status"}, {"ping", `{"command":"ping","target":"@NODE@"}`, "ping"}, {"work.list", "work list", "list"}} {
		g.add(c08Input{Raw: l.l, Chunk: 1, Cmd: l.cmd, Mut: "chunk1:" + l.l, Class: "well:chunked", Well: l.well})
	}

	// ---- protocol-stage scripts
	scripts := []struct {
		name, cmd string
		arg       int
	}{
		{"open-close", "", 0}, {"open-idle-close", "", 0},
		{"submit:ack-close", "work.submit", 0}, {"submit:midpayload-close", "work.submit", 100000}, {"submit:payload-noeof-close", "work.submit", 0},
		{"submit:hold", "work.submit", 0}, {"submit:ok", "work.submit", 0}, {"submit:json-ok", "work.submit", 0}, {"submit:bigpayload", "work.submit", 4 << 20},
		{"submit:garbage-payload", "work.submit", 3000}, {"submit:empty-payload", "work.submit", 0}, {"submit:remote-ack-close", "work.submit", 0},
		{"results:mid-close", "work.results", 0}, {"results:full", "work.results", 0}, {"results:startpos-mid", "work.results", 1500}, {"results:json-mid-close", "work.results", 0},
		{"results:running-hold", "work.results", 0}, {"results:halfclose", "work.results", 0},
		{"connect:close-after-connecting", "connect", 0}, {"connect:nested", "connect", 0}, {"connect:nested-garbage", "connect", 65536}, {"connect:nested-halfclose", "connect", 0},
		{"connect:json-nested", "connect", 0}, {"connect:nested2", "connect", 0}, {"connect:nested-submit-close", "connect", 0},
		{"pipelined", "status", 0}, {"pipelined-close", "status", 0},
	}
	for _, s := range scripts {
		g.out = append(g.out, &c08Input{Mode: "script", Script: s.name, Arg: s.arg, Cmd: s.cmd, Mut: "script:" + s.name, Class: "script:" + s.name})
	}

	// ---- seeded part: random bytes, random field combinations, random token lists, bit flips
	nRand := 90
	if thorough {
		nRand = 20000
	}
	for i := 0; i < nRand; i++ {
		switch g.rng.Intn(6) {
		case 0: // random bytes (no LF)
			n := 1 + g.rng.Intn(120)
			b := make([]byte, n)
			for k := range b {
				b[k] = byte(g.rng.Intn(256))
				if b[k] == '\n' {
					b[k] = 0
				}
			}
			if g.rng.Intn(3) == 0 {
				b[0] = '{'
			}
			g.add(c08Input{Raw: c08NoAt(string(b)), Mut: fmt.Sprintf("rand:bytes#%d", i), Class: "rand:bytes"})
		case 1, 2: // random combination of field mutations of one command
			s := &specs[g.rng.Intn(len(specs))]
			kvs := s.head()
			desc := []string{}
			cls := "" // class of the first field that is not in its valid form (same labels as the systematic part)
			for _, f := range s.Fields {
				switch g.rng.Intn(4) {
				case 0:
					desc = append(desc, f.Name+"-")
					if cls == "" && f.Valid != "" {
						cls = fmt.Sprintf("%s.%s:absent", s.Cmd, f.Name)
					}
				case 1:
					if f.Valid != "" {
						kvs = append(kvs, c08KV{f.Name, f.Valid})
						desc = append(desc, f.Name+"+")
					}
				default:
					t := c08Types[g.rng.Intn(len(c08Types))]
					kvs = append(kvs, c08KV{f.Name, t.Raw})
					desc = append(desc, f.Name+"="+t.Name)
					if b := c08Bucket(f.Typ, t.Name); cls == "" && b != "string" && b != "list" && b != "number" {
						cls = fmt.Sprintf("%s.%s:%s", s.Cmd, f.Name, b)
					}
				}
			}
			if cls == "" {
				cls = s.Cmd + ":valid-combo"
			}
			if g.rng.Intn(4) == 0 {
				g.rng.Shuffle(len(kvs), func(a, b int) { kvs[a], kvs[b] = kvs[b], kvs[a] })
			}
			g.add(c08Input{Raw: c08Obj(kvs), Cmd: s.Cmd, Mut: "rand:combo:" + s.Cmd + ":" + strings.Join(desc, ","), Class: cls})
		case 3: // random token list
			dict := []string{"ping", "status", "connect", "traceroute", "reload", "work", "submit", "list", "cancel", "release", "force-release", "results", "@NODE@", "gen", "@FIN@", "@RUN@", "nosuchunit7", "control", "0", "-1", "x", "", "\t", "..", "/", "{", "}", "\x00", "@REL@", "99999999999999999999"}
			n := 1 + g.rng.Intn(6)
			toks := make([]string, n)
			for k := range toks {
				toks[k] = dict[g.rng.Intn(len(dict))]
			}
			if g.rng.Intn(2) == 0 {
				toks[0] = dict[g.rng.Intn(6)]
			}
			raw := strings.Join(toks, " ")
			cmd := ""
			if c08Commands[strings.ToLower(toks[0])] {
				cmd = toks[0]
			}
			if cmd == "work" && n > 1 && (toks[1] == "cancel" || toks[1] == "release" || toks[1] == "force-release") {
				raw = strings.ReplaceAll(strings.ReplaceAll(raw, "@FIN@", "@TMP@"), "@RUN@", "@TMPRUN@")
			}
			g.add(c08Input{Raw: raw, Cmd: cmd, Mut: fmt.Sprintf("rand:tokens#%d", i), Class: "rand:tokens"})
		case 4: // byte mutation of a valid JSON request
			s := &specs[g.rng.Intn(len(specs))]
			if s.Cmd == "work.cancel" || s.Cmd == "work.release" || s.Cmd == "work.force-release" {
				s = &specs[0]
			}
			b := []byte(s.baseline(""))
			for k := 0; k < 1+g.rng.Intn(3); k++ {
				p := g.rng.Intn(len(b))
				switch g.rng.Intn(4) {
				case 0:
					b[p] ^= 1 << uint(g.rng.Intn(8))
				case 1:
					b = append(b[:p], b[p+1:]...)
				case 2:
					b = append(b[:p], append([]byte{byte(g.rng.Intn(256))}, b[p:]...)...)
				default:
					b[p] = "{}[]\":,\\ \x00"[g.rng.Intn(10)]
				}
				if len(b) == 0 {
					b = []byte("{")
				}
			}
			raw := strings.ReplaceAll(string(b), "\n", " ")
			g.add(c08Input{Raw: raw, Cmd: s.Cmd, Mut: fmt.Sprintf("rand:flip:%s#%d", s.Cmd, i), Class: "rand:flip"})
		default: // byte mutation of a valid plain request
			s := &specs[g.rng.Intn(len(specs))]
			if s.Cmd == "work.cancel" || s.Cmd == "work.release" || s.Cmd == "work.force-release" {
				s = &specs[7]
			}
			b := []byte(strings.TrimSpace(s.words() + " " + strings.Join(s.Plain, " ")))
			p := g.rng.Intn(len(b))
			switch g.rng.Intn(3) {
			case 0:
				b[p] ^= 1 << uint(g.rng.Intn(8))
			case 1:
				b = append(b[:p], b[p+1:]...)
			default:
				b = append(b[:p], append([]byte{byte(g.rng.Intn(256))}, b[p:]...)...)
			}
			raw := strings.ReplaceAll(string(b), "\n", " ")
			if raw == "" {
				raw = " "
			}
			g.add(c08Input{Raw: raw, Cmd: s.Cmd, Mut: fmt.Sprintf("rand:plainflip:%s#%d", s.Cmd, i), Class: "rand:plainflip"})
		}
	}
	if thorough {
		// every byte value alone and glued to a valid command
		for b := 0; b < 256; b++ {
			if b == '\n' {
				continue
			}
			g.add(c08Input{Raw: c08NoAt(string([]byte{byte(b)})), Mut: fmt.Sprintf("byte:%02x", b), Class: "bytes"})
			g.add(c08Input{Raw: c08NoAt("status" + string([]byte{byte(b)})), Cmd: "status", Mut: fmt.Sprintf("status+byte:%02x", b), Class: "bytes"})
			g.add(c08Input{Raw: c08NoAt(string([]byte{byte(b)}) + "work list"), Cmd: "work.list", Mut: fmt.Sprintf("byte:%02x+work list", b), Class: "bytes"})
		}
		// scripts again with seeded sizes
		for i := 0; i < 40; i++ {
			s := scripts[2+g.rng.Intn(len(scripts)-2)]
			arg := s.arg
			if arg > 0 {
				arg = 1 + g.rng.Intn(arg)
			}
			g.out = append(g.out, &c08Input{Mode: "script", Script: s.name, Arg: arg, Cmd: s.cmd, Mut: fmt.Sprintf("script:%s#%d", s.name, i), Class: "script:" + s.name})
		}
	}
	for i, in := range g.out {
		in.Idx = i
	}
	return g.out
}

// c08NoAt keeps random data from accidentally forming a placeholder.
func c08NoAt(s string) string { return strings.ReplaceAll(s, "@", "#") }
