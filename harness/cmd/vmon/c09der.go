package main

// The harness's OWN DER encoder for the subjectAltName extension (shared by C09 and C20).
// Written from X.690 / RFC 5280; deliberately does not call receptor's MakeReceptorSAN and does
// not use encoding/asn1 either, so that the oracle side shares no code with what is being judged.
//
//   SubjectAltName ::= SEQUENCE OF GeneralName
//   GeneralName    ::= CHOICE { otherName [0] IMPLICIT SEQUENCE { type-id OID, value [0] EXPLICIT ANY },
//                               dNSName [2] IA5String, iPAddress [7] OCTET STRING, ... }
//   receptor node id = otherName with type-id 1.3.6.1.4.1.2312.19.1 and value UTF8String

// content octets of OID 1.3.6.1.4.1.2312.19.1 (2312 = 0x12*128 + 0x08 -> 92 08)
var receptorOIDContent = []byte{0x2b, 0x06, 0x01, 0x04, 0x01, 0x92, 0x08, 0x13, 0x01}

// content octets of OID 2.5.29.17 (subjectAltName) are only needed through encoding/asn1's
// ObjectIdentifier when handing the extension to crypto/x509.

// derLen encodes a definite length in the minimal (DER) form.
func derLen(n int) []byte {
	if n < 0x80 {
		return []byte{byte(n)}
	}
	var b []byte
	for v := n; v > 0; v >>= 8 {
		b = append([]byte{byte(v)}, b...)
	}
	return append([]byte{0x80 | byte(len(b))}, b...)
}

// derTLV builds tag || length || content.
func derTLV(tag byte, content []byte) []byte {
	out := make([]byte, 0, len(content)+6)
	out = append(out, tag)
	out = append(out, derLen(len(content))...)
	return append(out, content...)
}

// sanEntry is one GeneralName the generators ask for.
type sanEntry struct {
	Kind string // "id" (receptor otherName), "dns", "ip", "otherOID" (otherName with a foreign type-id)
	Val  []byte
}

func sanID(s string) sanEntry  { return sanEntry{"id", []byte(s)} }
func sanDNS(s string) sanEntry { return sanEntry{"dns", []byte(s)} }
func sanIP(b []byte) sanEntry  { return sanEntry{"ip", b} }

// a foreign otherName type-id: 1.3.6.1.4.1.2312.19.2 (same arc, last number differs)
var foreignOIDContent = []byte{0x2b, 0x06, 0x01, 0x04, 0x01, 0x92, 0x08, 0x13, 0x02}

func derGeneralName(e sanEntry) []byte {
	switch e.Kind {
	case "id", "otherOID":
		oid := receptorOIDContent
		if e.Kind == "otherOID" {
			oid = foreignOIDContent
		}
		inner := derTLV(0x0c, e.Val)                           // UTF8String
		val := derTLV(0xa0, inner)                             // [0] EXPLICIT
		return derTLV(0xa0, append(derTLV(0x06, oid), val...)) // [0] IMPLICIT SEQUENCE
	case "dns":
		return derTLV(0x82, e.Val)
	case "ip":
		return derTLV(0x87, e.Val)
	}
	panic("unknown sanEntry kind " + e.Kind)
}

// derSAN builds the extnValue of a subjectAltName extension.
func derSAN(entries []sanEntry) []byte {
	var body []byte
	for _, e := range entries {
		body = append(body, derGeneralName(e)...)
	}
	return derTLV(0x30, body)
}
