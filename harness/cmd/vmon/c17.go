package main

import (
	"bytes"
	"context"
	"crypto/ecdsa"
	"crypto/elliptic"
	crand "crypto/rand"
	"crypto/tls"
	"crypto/x509"
	"crypto/x509/pkix"
	"encoding/json"
	"fmt"
	"io"
	"math/big"
	"math/rand"
	"net"
	"os"
	"os/exec"
	"path/filepath"
	"regexp"
	"runtime"
	"runtime/pprof"
	"sort"
	"strconv"
	"strings"
	"sync"
	"sync/atomic"
	"time"

	"verif/harness/internal/child"
	"verif/harness/internal/ev"
	"verif/harness/internal/mesh"

	"github.com/ansible/receptor/pkg/netceptor"
)

// C17 — sockets, listeners and streams close at any time without crash or leak.
//
// Part A: seeded close-race scenarios run in a child process (a crash is attributed to the
// scenario in flight; a close/read/write that never returns is a wedge).
// Part B: per-operation-kind leak ramps in child processes: after c, 2c and 4c completed cycles
// the listener registry size and the goroutine groups (goroutine profile, grouped by first
// receptor/quic frame) are sampled at quiescent points; growth proportional to the number of
// cycles is a leak, constant offsets are not. After Shutdown no receptor goroutine may remain.

func init() {
	register("C17", runC17)
	register("c17scen", c17ScenChild)
	register("c17ramp", c17RampChild)
}

// ---------------------------------------------------------------- shared helpers (child side)

func c17Mesh(ids ...string) *mesh.Mesh {
	c := mesh.DefaultConsts()
	c.Idle = time.Hour
	m := mesh.New(c, 17)
	for _, id := range ids {
		m.AddNode(id)
	}
	for i := 1; i < len(ids); i++ {
		m.Connect(ids[i-1], ids[i], 1, false)
	}
	// wait for full routing
	deadline := time.Now().Add(60 * time.Second)
	for time.Now().Before(deadline) {
		ok := true
		for _, a := range ids {
			rt := m.Node(a).Inst().Status().RoutingTable
			for _, b := range ids {
				if a != b {
					if _, has := rt[b]; !has {
						ok = false
					}
				}
			}
		}
		if ok {
			return m
		}
		time.Sleep(50 * time.Millisecond)
	}
	return nil
}

func within(d time.Duration, f func()) bool {
	done := make(chan struct{})
	go func() { f(); close(done) }()
	select {
	case <-done:
		return true
	case <-time.After(d):
		return false
	}
}

// ---------------------------------------------------------------- part A: scenarios

type c17Scen struct {
	Idx  int    `json:"idx"`
	Kind string `json:"kind"`
	K    int    `json:"k"`
	Seed int64  `json:"seed"`
	// Rounds: close storms repeat their open + k-simultaneous-closes step this many times
	Rounds int `json:"rounds,omitempty"`
}

var c17ScenKinds = []string{
	"blocked-deliverers-close", "blocked-deliverers-close", "close-during-readfrom", "close-during-readfrom-deadline",
	"double-close-packetconn", "double-close-listener", "double-close-conn", "listener-close-pending-dials",
	"ctx-cancel-mid-dial", "dial-unknown-service", "close-while-traffic", "listen-close-immediately",
	"conn-close-during-read", "concurrent-close-conn", "shutdown-race",
	"close-storm-listener", "close-storm-packetconn",
}

func c17RunScenario(m *mesh.Mesh, sc *c17Scen, progress string) string {
	rng := rand.New(rand.NewSource(sc.Seed))
	a, b := m.Node("a").Inst(), m.Node("b").Inst()
	svc := fmt.Sprintf("s%d", sc.Idx%100000)
	const bound = 40 * time.Second
	switch sc.Kind {
	case "blocked-deliverers-close":
		pc, err := a.ListenPacket(svc)
		if err != nil {
			return "setup: " + err.Error()
		}
		var returned atomic.Int32
		k := sc.K
		var wg sync.WaitGroup
		for i := 0; i < k; i++ {
			wg.Add(1)
			go func(i int) {
				defer wg.Done()
				// local senders: each WriteTo blocks inside the node delivering to the unread listener
				spc, err := a.ListenPacket("")
				if err != nil {
					return
				}
				defer spc.Close()
				_, _ = spc.WriteTo([]byte(fmt.Sprintf("blocked-%d", i)), a.NewAddr("a", svc))
				returned.Add(1)
			}(i)
		}
		// one more deliverer through the backend link from b
		spb, _ := b.ListenPacket("")
		if spb != nil {
			_, _ = spb.WriteTo([]byte("remote"), b.NewAddr("a", svc))
		}
		time.Sleep(time.Duration(80+rng.Intn(120)) * time.Millisecond)
		blocked := k - int(returned.Load())
		appendLine(progress, fmt.Sprintf("NOTE %d blocked=%d", sc.Idx, blocked))
		if !within(bound, func() { _ = pc.Close() }) {
			return "wedge: PacketConn.Close did not return"
		}
		if !within(bound, wg.Wait) {
			return fmt.Sprintf("wedge: %d senders still blocked in WriteTo after the listener was closed", k-int(returned.Load()))
		}
		if spb != nil {
			_ = spb.Close()
		}
	case "close-during-readfrom", "close-during-readfrom-deadline":
		pc, err := a.ListenPacket(svc)
		if err != nil {
			return "setup: " + err.Error()
		}
		if sc.Kind == "close-during-readfrom-deadline" {
			_ = pc.SetReadDeadline(time.Now().Add(3 * time.Second))
		}
		done := make(chan struct{})
		for i := 0; i < sc.K; i++ {
			go func() {
				buf := make([]byte, 100)
				_, _, _ = pc.ReadFrom(buf)
				done <- struct{}{}
			}()
		}
		time.Sleep(time.Duration(rng.Intn(50)) * time.Millisecond)
		_ = pc.Close()
		for i := 0; i < sc.K; i++ {
			select {
			case <-done:
			case <-time.After(bound):
				return "wedge: ReadFrom did not return after Close"
			}
		}
	case "double-close-packetconn":
		pc, err := a.ListenPacketAndAdvertise(svc, map[string]string{"x": "y"})
		if err != nil {
			return "setup: " + err.Error()
		}
		var wg sync.WaitGroup
		for i := 0; i < sc.K; i++ {
			wg.Add(1)
			go func() { defer wg.Done(); _ = pc.Close() }()
		}
		if !within(bound, wg.Wait) {
			return "wedge: concurrent PacketConn.Close"
		}
		_ = pc.Close()
	case "double-close-listener":
		li, err := a.Listen(svc, nil)
		if err != nil {
			return "setup: " + err.Error()
		}
		var wg sync.WaitGroup
		for i := 0; i < sc.K; i++ {
			wg.Add(1)
			go func() { defer wg.Done(); _ = li.Close() }()
		}
		if !within(bound, wg.Wait) {
			return "wedge: concurrent Listener.Close"
		}
		_ = li.Close()
	case "double-close-conn", "concurrent-close-conn", "conn-close-during-read":
		li, err := a.Listen(svc, nil)
		if err != nil {
			return "setup: " + err.Error()
		}
		acc := make(chan net.Conn, 1)
		go func() {
			c, err := li.Accept()
			if err == nil {
				acc <- c
			} else {
				acc <- nil
			}
		}()
		ctx, cancel := context.WithTimeout(context.Background(), 30*time.Second)
		c, err := b.DialContext(ctx, "a", svc, nil)
		cancel()
		if err != nil {
			_ = li.Close()
			return "setup: dial: " + err.Error()
		}
		var sc2 net.Conn
		select {
		case sc2 = <-acc:
		case <-time.After(bound):
			return "wedge: Accept did not return for an established dial"
		}
		if sc.Kind == "conn-close-during-read" {
			rd := make(chan struct{})
			go func() { buf := make([]byte, 10); _, _ = c.Read(buf); close(rd) }()
			time.Sleep(time.Duration(rng.Intn(30)) * time.Millisecond)
			_ = c.CloseConnection()
			select {
			case <-rd:
			case <-time.After(bound):
				return "wedge: Read did not return after CloseConnection"
			}
		} else {
			var wg sync.WaitGroup
			for i := 0; i < sc.K; i++ {
				wg.Add(1)
				go func(i int) {
					defer wg.Done()
					if i%2 == 0 {
						_ = c.Close()
					} else {
						_ = c.CloseConnection()
					}
				}(i)
			}
			if !within(bound, wg.Wait) {
				return "wedge: concurrent Conn.Close/CloseConnection"
			}
			_ = c.Close()
			_ = c.CloseConnection()
		}
		if sc2 != nil {
			_ = sc2.Close()
			if cc, ok := sc2.(interface{ CloseConnection() error }); ok {
				_ = cc.CloseConnection()
			}
		}
		if !within(bound, func() { _ = li.Close() }) {
			return "wedge: Listener.Close did not return"
		}
	case "listener-close-pending-dials":
		li, err := a.Listen(svc, nil)
		if err != nil {
			return "setup: " + err.Error()
		}
		var wg sync.WaitGroup
		for i := 0; i < sc.K; i++ {
			wg.Add(1)
			go func() {
				defer wg.Done()
				ctx, cancel := context.WithTimeout(context.Background(), 25*time.Second)
				defer cancel()
				c, err := b.DialContext(ctx, "a", svc, nil)
				if err == nil {
					_ = c.Close()
					_ = c.CloseConnection()
				}
			}()
		}
		time.Sleep(time.Duration(rng.Intn(150)) * time.Millisecond)
		if !within(bound, func() { _ = li.Close() }) {
			return "wedge: Listener.Close did not return while dials were pending"
		}
		if !within(bound, wg.Wait) {
			return "wedge: dials pending on a closed listener did not return"
		}
	case "ctx-cancel-mid-dial":
		li, err := a.Listen(svc, nil)
		if err != nil {
			return "setup: " + err.Error()
		}
		ctx, cancel := context.WithCancel(context.Background())
		go func() { time.Sleep(time.Duration(rng.Intn(40)) * time.Millisecond); cancel() }()
		ok := within(bound, func() {
			c, err := b.DialContext(ctx, "a", svc, nil)
			if err == nil {
				_ = c.Close()
				_ = c.CloseConnection()
			}
		})
		cancel()
		if !ok {
			return "wedge: DialContext did not return after its context was cancelled"
		}
		if !within(bound, func() { _ = li.Close() }) {
			return "wedge: Listener.Close did not return"
		}
	case "dial-unknown-service":
		ok := within(bound, func() {
			ctx, cancel := context.WithTimeout(context.Background(), 25*time.Second)
			defer cancel()
			c, err := b.DialContext(ctx, "a", svc, nil)
			if err == nil {
				_ = c.CloseConnection()
			}
		})
		if !ok {
			return "wedge: dial to an unknown service did not return"
		}
	case "close-while-traffic":
		pc, err := a.ListenPacket(svc)
		if err != nil {
			return "setup: " + err.Error()
		}
		stop := make(chan struct{})
		var wg sync.WaitGroup
		for i := 0; i < sc.K; i++ {
			wg.Add(1)
			go func(i int) {
				defer wg.Done()
				n := b
				if i%2 == 1 {
					n = a
				}
				spc, err := n.ListenPacket("")
				if err != nil {
					return
				}
				defer spc.Close()
				for {
					select {
					case <-stop:
						return
					default:
					}
					_, _ = spc.WriteTo([]byte("traffic"), n.NewAddr("a", svc))
				}
			}(i)
		}
		go func() {
			buf := make([]byte, 100)
			for {
				if _, _, err := pc.ReadFrom(buf); err != nil {
					return
				}
			}
		}()
		time.Sleep(time.Duration(20+rng.Intn(100)) * time.Millisecond)
		okc := within(bound, func() { _ = pc.Close() })
		time.Sleep(30 * time.Millisecond)
		close(stop)
		if !okc {
			return "wedge: PacketConn.Close did not return under traffic"
		}
		if !within(bound, wg.Wait) {
			return "wedge: senders did not return after the target was closed"
		}
	case "shutdown-race":
		// sockets being opened, used and closed on a node at the very moment it is shut down
		for iter := 0; iter < 12; iter++ {
			x := m.NewInst(fmt.Sprintf("x%d-%d", sc.Idx, iter))
			stop := make(chan struct{})
			var wg sync.WaitGroup
			for g := 0; g < sc.K; g++ {
				wg.Add(1)
				go func(g int) {
					defer wg.Done()
					for {
						select {
						case <-stop:
							return
						default:
						}
						switch g % 3 {
						case 0:
							if pc, err := x.ListenPacket(""); err == nil {
								_ = pc.Close()
							}
						case 1:
							ctx, cancel := context.WithTimeout(context.Background(), 20*time.Millisecond)
							_, _, _ = x.Ping(ctx, "nowhere", 5)
							cancel()
						default:
							if pc, err := x.ListenPacketAndAdvertise("", nil); err == nil {
								ch := pc.SubscribeUnreachable(stop)
								_ = ch
								_ = pc.Close()
							}
						}
					}
				}(g)
			}
			time.Sleep(time.Duration(rng.Intn(3000)) * time.Microsecond)
			x.Shutdown()
			time.Sleep(time.Duration(500+rng.Intn(2000)) * time.Microsecond)
			close(stop)
			if !within(bound, wg.Wait) {
				return "wedge: socket operations did not return after the node was shut down"
			}
		}
	case "close-storm-listener", "close-storm-packetconn":
		// k goroutines released by a spin barrier close the same object at the same instant, many times over:
		// narrow check-then-act windows in Close only open when the calls really overlap
		var stormTLS *tls.Config
		if sc.Kind == "close-storm-listener" {
			// a ready-made server certificate: Listen(svc, nil) generates an RSA key per call (~100 ms)
			cfg, err := c17SelfSigned()
			if err != nil {
				return "setup: " + err.Error()
			}
			stormTLS = cfg
		}
		for r := 0; r < sc.Rounds; r++ {
			var closeFn func()
			if sc.Kind == "close-storm-listener" {
				li, err := a.Listen(svc, stormTLS)
				if err != nil {
					return "setup: " + err.Error()
				}
				closeFn = func() { _ = li.Close() }
			} else {
				pc, err := a.ListenPacketAndAdvertise(svc, map[string]string{"x": "y"})
				if err != nil {
					return "setup: " + err.Error()
				}
				closeFn = func() { _ = pc.Close() }
			}
			var arrived atomic.Int32
			var wg sync.WaitGroup
			for i := 0; i < sc.K; i++ {
				wg.Add(1)
				go func() {
					defer wg.Done()
					arrived.Add(1)
					for spins := 0; arrived.Load() < int32(sc.K); spins++ {
						if spins > 5000 {
							runtime.Gosched()
						}
					}
					closeFn()
				}()
			}
			if !within(bound, wg.Wait) {
				return fmt.Sprintf("wedge: %d simultaneous Close calls did not all return (round %d)", sc.K, r)
			}
		}
		appendLine(progress, fmt.Sprintf("NOTE %d storm-rounds=%d k=%d", sc.Idx, sc.Rounds, sc.K))
	case "listen-close-immediately":
		li, err := a.Listen(svc, nil)
		if err != nil {
			return "setup: " + err.Error()
		}
		if sc.K > 2 {
			go func() {
				ctx, cancel := context.WithTimeout(context.Background(), 20*time.Second)
				defer cancel()
				c, err := b.DialContext(ctx, "a", svc, nil)
				if err == nil {
					_ = c.CloseConnection()
				}
			}()
			time.Sleep(time.Duration(rng.Intn(20)) * time.Millisecond)
		}
		if !within(bound, func() { _ = li.Close() }) {
			return "wedge: Listener.Close did not return"
		}
	}
	return "ok"
}

func c17ScenChild(_ string, args []string) {
	// args: scenariosFile progressFile
	var scs []*c17Scen
	b, err := os.ReadFile(args[0])
	if err != nil || json.Unmarshal(b, &scs) != nil {
		os.Exit(2)
	}
	progress := args[1]
	m := c17Mesh("a", "b")
	if m == nil {
		appendLine(progress, "SETUPFAIL")
		os.Exit(3)
	}
	appendLine(progress, "READY")
	for _, sc := range scs {
		appendLine(progress, fmt.Sprintf("BEGIN %d", sc.Idx))
		res := c17RunScenario(m, sc, progress)
		if strings.HasPrefix(res, "wedge") {
			appendLine(progress, fmt.Sprintf("END %d %s", sc.Idx, res))
			// a wedged object may hold node locks: dump goroutines and stop this child
			_ = pprof.Lookup("goroutine").WriteTo(os.Stdout, 2)
			os.Exit(42)
		}
		// the mesh must still work
		if ok, why := pingOK(m.Node("b").Inst(), "a", 3); !ok {
			appendLine(progress, fmt.Sprintf("END %d wedge: node no longer answers pings after the scenario: %s", sc.Idx, why))
			os.Exit(42)
		}
		appendLine(progress, fmt.Sprintf("END %d %s", sc.Idx, strings.ReplaceAll(res, "\n", " ")))
	}
	appendLine(progress, "DONE")
	os.Exit(0)
}

// ---------------------------------------------------------------- part B: leak ramps

var c17RampKinds = []string{
	"listenpacket-close", "advertise-close", "listen-close", "dial-close-closeconnection", "dial-closeconnection",
	"dial-accept-both-close", "ping", "ping-unknown-node", "traceroute", "dial-unknown-service", "dial-ctx-cancel",
	"datagram-to-unknown-service",
	// the same failing operations called with a context that is never cancelled (context.Background()), as an
	// embedding program or a long-lived caller would: what they started has to end with the call itself
	"ping-unknown-node-bg", "ping-expired-bg", "traceroute-bg",
}

var c17FrameRe = regexp.MustCompile(`^#\s+0x[0-9a-f]+\s+(\S+)\+0x`)

// goroutineGroups groups the goroutine profile by the first receptor (else quic-go) frame.
func goroutineGroups() map[string]int {
	var buf bytes.Buffer
	_ = pprof.Lookup("goroutine").WriteTo(&buf, 1)
	groups := map[string]int{}
	blocks := strings.Split(buf.String(), "\n\n")
	for _, blk := range blocks {
		lines := strings.Split(blk, "\n")
		if len(lines) > 0 && strings.HasPrefix(lines[0], "goroutine profile:") {
			// the header line is glued to the first (largest) group
			lines = lines[1:]
		}
		if len(lines) == 0 {
			continue
		}
		n := 0
		if _, err := fmt.Sscanf(lines[0], "%d @", &n); err != nil || n == 0 {
			continue
		}
		key, quic := "", ""
		for _, l := range lines[1:] {
			mm := c17FrameRe.FindStringSubmatch(l)
			if mm == nil {
				continue
			}
			fn := mm[1]
			if strings.Contains(fn, "verif/harness") || strings.HasPrefix(fn, "main.") {
				key = "" // a harness goroutine (e.g. blocked in a receptor call): not a receptor resource
				quic = ""
				break
			}
			if key == "" && strings.Contains(fn, "ansible/receptor") {
				key = fn
			}
			if quic == "" && strings.Contains(fn, "quic-go") {
				quic = fn
			}
		}
		if key == "" {
			key = quic
		}
		if key != "" {
			groups[strings.TrimPrefix(key, "github.com/ansible/receptor/")] += n
		}
	}
	return groups
}

type c17Sample struct {
	Cycles     int            `json:"cycles"`
	RegistryA  int            `json:"registry_a"`
	RegistryB  int            `json:"registry_b"`
	Goroutines map[string]int `json:"goroutines"`
	Total      int            `json:"total"`
	Settled    bool           `json:"settled"`
}

func registrySize(n *netceptor.Netceptor) int {
	n.GetListenerLock().RLock()
	defer n.GetListenerLock().RUnlock()
	return len(n.GetListenerRegistry())
}

func c17SampleNow(a, b *netceptor.Netceptor, cycles int) c17Sample {
	last := ""
	same := 0
	var s c17Sample
	for i := 0; i < 80; i++ {
		g := goroutineGroups()
		tot := 0
		for _, v := range g {
			tot += v
		}
		s = c17Sample{Cycles: cycles, RegistryA: registrySize(a), RegistryB: registrySize(b), Goroutines: g, Total: tot}
		sig := fmt.Sprintf("%d/%d/%d", s.RegistryA, s.RegistryB, tot)
		if sig == last {
			same++
		} else {
			same = 0
		}
		last = sig
		if same >= 3 {
			s.Settled = true
			return s
		}
		time.Sleep(400 * time.Millisecond)
	}
	return s
}

func c17Cycle(kind string, a, b *netceptor.Netceptor, li *netceptor.Listener, i int) {
	svc := fmt.Sprintf("r%d", i%1000000)
	switch kind {
	case "listenpacket-close":
		if pc, err := a.ListenPacket(svc); err == nil {
			_ = pc.Close()
		}
	case "advertise-close":
		if pc, err := a.ListenPacketAndAdvertise(svc, map[string]string{"k": "v"}); err == nil {
			_ = pc.Close()
		}
	case "listen-close":
		if l, err := a.Listen(svc, nil); err == nil {
			_ = l.Close()
		}
	case "dial-close-closeconnection", "dial-closeconnection", "dial-accept-both-close":
		ctx, cancel := context.WithTimeout(context.Background(), 30*time.Second)
		c, err := b.DialContext(ctx, "a", "echo", nil)
		cancel()
		if err != nil {
			return
		}
		_, _ = c.Write([]byte("hello"))
		buf := make([]byte, 5)
		_ = c.SetReadDeadline(time.Now().Add(20 * time.Second))
		_, _ = io.ReadFull(c, buf)
		if kind != "dial-closeconnection" {
			_ = c.Close()
		}
		_ = c.CloseConnection()
	case "ping":
		ctx, cancel := context.WithTimeout(context.Background(), 15*time.Second)
		_, _, _ = b.Ping(ctx, "a", 30)
		cancel()
	case "ping-unknown-node":
		ctx, cancel := context.WithTimeout(context.Background(), 300*time.Millisecond)
		_, _, _ = b.Ping(ctx, "nowhere", 30)
		cancel()
	case "ping-unknown-node-bg":
		_, _, _ = b.Ping(context.Background(), "nowhere", 30)
	case "ping-expired-bg":
		_, _, _ = b.Ping(context.Background(), "a", 0)
	case "traceroute-bg":
		for range b.Traceroute(context.Background(), "a") {
		}
	case "traceroute":
		ctx, cancel := context.WithTimeout(context.Background(), 15*time.Second)
		for range b.Traceroute(ctx, "a") {
		}
		cancel()
	case "dial-unknown-service":
		ctx, cancel := context.WithTimeout(context.Background(), 20*time.Second)
		c, err := b.DialContext(ctx, "a", "nosvc", nil)
		cancel()
		if err == nil {
			_ = c.CloseConnection()
		}
	case "dial-ctx-cancel":
		ctx, cancel := context.WithTimeout(context.Background(), time.Duration(1+i%20)*time.Millisecond)
		c, err := b.DialContext(ctx, "a", "echo", nil)
		cancel()
		if err == nil {
			_ = c.Close()
			_ = c.CloseConnection()
		}
	case "datagram-to-unknown-service":
		if pc, err := b.ListenPacket(""); err == nil {
			_, _ = pc.WriteTo([]byte("x"), b.NewAddr("a", "nosvc"))
			time.Sleep(2 * time.Millisecond)
			_ = pc.Close()
		}
	}
}

func c17RampChild(_ string, args []string) {
	// args: kind c outFile
	kind := args[0]
	c, _ := strconv.Atoi(args[1])
	out := args[2]
	m := c17Mesh("a", "b")
	if m == nil {
		os.Exit(3)
	}
	a, b := m.Node("a").Inst(), m.Node("b").Inst()
	// an echo listener on a whose accepted connections are closed by the server when the client is done
	li, err := a.Listen("echo", nil)
	if err != nil {
		os.Exit(3)
	}
	go func() {
		for {
			conn, err := li.Accept()
			if err != nil {
				return
			}
			go func(conn net.Conn) {
				buf := make([]byte, 64)
				for {
					n, err := conn.Read(buf)
					if n > 0 {
						_, _ = conn.Write(buf[:n])
					}
					if err != nil {
						break
					}
				}
				_ = conn.Close()
				if kind == "dial-accept-both-close" {
					if cc, ok := conn.(interface{ CloseConnection() error }); ok {
						_ = cc.CloseConnection()
					}
				}
			}(conn)
		}
	}()
	// warm-up (first use of code paths creates long-lived goroutines that are not per-cycle)
	for i := 0; i < 3; i++ {
		c17Cycle(kind, a, b, li, 900000+i)
	}
	res := map[string]any{"kind": kind, "c": c}
	samples := []c17Sample{c17SampleNow(a, b, 0)}
	done := 0
	for _, target := range []int{c, 2 * c, 4 * c} {
		for ; done < target; done++ {
			c17Cycle(kind, a, b, li, done)
		}
		samples = append(samples, c17SampleNow(a, b, done))
	}
	res["samples"] = samples
	// Shutdown stops all background activity
	_ = li.Close()
	m.Shutdown()
	time.Sleep(500 * time.Millisecond)
	after := c17SampleNow(a, b, done)
	left := map[string]int{}
	for g, n := range after.Goroutines {
		if !strings.Contains(g, "quic-go") {
			left[g] = n
		}
	}
	res["after_shutdown"] = left
	res["after_shutdown_settled"] = after.Settled
	bb, _ := json.Marshal(res)
	_ = os.WriteFile(out, bb, 0o644)
	os.Exit(0)
}

// ---------------------------------------------------------------- parent

func runC17(tier string, args []string) {
	run := ev.New("C17", tier, "exploration")
	run.Rule("part A: seeded close-race scenarios (k deliverers blocked on an unread listener at Close — local senders and a backend session —, Close during ReadFrom with/without deadline, concurrent/double Close of sockets, listeners, streams, close storms (thousands of rounds of k barrier-released simultaneous Close calls on a fresh listener / advertised socket), listener closed with pending dials, context cancelled mid-dial, dial to unknown service, Close under traffic) in child processes; process death or a call that never returns (40 s) is a violation. part B: per operation kind, c/2c/4c cycles; listener-registry sizes and goroutine groups sampled at quiescent points (3 equal samples); growth >= 0.5 per cycle in both intervals = leak; receptor goroutines after Shutdown = violation. distinct_nontrivial = distinct (scenario kind, k) with >= 2 deliverers actually blocked or a concurrent close + ramp kinds measured")
	work := workDir()
	rng := rand.New(rand.NewSource(run.Seed*179424673 + 17))
	nScen := run.Pick(42, 600)
	scs := []*c17Scen{}
	for i := 0; i < nScen; i++ {
		scs = append(scs, &c17Scen{Idx: i, Kind: c17ScenKinds[i%len(c17ScenKinds)], K: 2 + rng.Intn(5), Seed: rng.Int63(), Rounds: run.Pick(2500, 15000)})
	}
	var wg sync.WaitGroup
	var mu sync.Mutex
	// ---- part A: partitions of scenarios, restart after crash/wedge
	parts := 6
	for p := 0; p < parts; p++ {
		wg.Add(1)
		go func(p int) {
			defer wg.Done()
			mine := []*c17Scen{}
			for i, sc := range scs {
				if i%parts == p {
					mine = append(mine, sc)
				}
			}
			pos := 0
			for gen := 0; pos < len(mine); gen++ {
				sf := filepath.Join(work, fmt.Sprintf("c17-scen-p%d-g%d.json", p, gen))
				bb, _ := json.Marshal(mine[pos:])
				_ = os.WriteFile(sf, bb, 0o644)
				progress := filepath.Join(work, fmt.Sprintf("c17-scen-p%d-g%d.progress", p, gen))
				outFile := filepath.Join(work, fmt.Sprintf("c17-scen-p%d-g%d.out", p, gen))
				cmd := exec.Command(os.Args[0], "c17scen", "quick", sf, progress)
				cmd.Env = append(os.Environ(), "GORACE=halt_on_error=0 exitcode=0 log_path="+filepath.Join(work, fmt.Sprintf("race-c17-p%d-g%d", p, gen)))
				lastN, lastT := 0, time.Now()
				res := child.Run(cmd, outFile, 30*time.Minute, func() bool {
					n := len(readProgress(progress))
					if n != lastN {
						lastN, lastT = n, time.Now()
					}
					return time.Since(lastT) > 5*time.Minute
				})
				begun := -1
				consumed := 0
				ready := false
				blocked := map[int]int{}
				byIdx := map[int]*c17Scen{}
				for _, sc := range mine {
					byIdx[sc.Idx] = sc
				}
				for _, ln := range readProgress(progress) {
					f := strings.Fields(ln)
					if len(f) == 0 {
						continue
					}
					switch f[0] {
					case "READY":
						ready = true
					case "BEGIN":
						begun, _ = strconv.Atoi(f[1])
					case "NOTE":
						idx, _ := strconv.Atoi(f[1])
						fmt.Sscanf(f[2], "blocked=%d", new(int))
						var bl int
						fmt.Sscanf(f[2], "blocked=%d", &bl)
						blocked[idx] = bl
					case "END":
						idx, _ := strconv.Atoi(f[1])
						sc := byIdx[idx]
						status := strings.Join(f[2:], " ")
						consumed++
						begun = -1
						mu.Lock()
						run.Eval(1)
						run.Count("scenario_"+sc.Kind, 1)
						if strings.HasPrefix(status, "wedge") {
							run.Violation("wedge:"+sc.Kind, fmt.Sprintf("scenario %d %s (k=%d): %s", sc.Idx, sc.Kind, sc.K, status), map[string]any{"scenario": sc, "output": keepOutput(outFile)})
						} else if strings.HasPrefix(status, "setup") {
							run.Inconclusive(fmt.Sprintf("C17 scenario %d %s: %s", sc.Idx, sc.Kind, status))
						}
						if strings.HasPrefix(sc.Kind, "close-storm") && status == "ok" {
							run.Count("close_storm_rounds_completed", int64(sc.Rounds))
						}
						if sc.Kind == "blocked-deliverers-close" {
							run.Count("deliverers_blocked_at_close", int64(blocked[idx]))
							if blocked[idx] >= 2 {
								run.Distinct(fmt.Sprintf("%s|blocked=%d", sc.Kind, blocked[idx]))
							}
						} else if sc.K >= 2 {
							run.Distinct(fmt.Sprintf("%s|k=%d", sc.Kind, sc.K))
						}
						mu.Unlock()
					}
				}
				if !ready {
					mu.Lock()
					run.Inconclusive("C17 scenario child did not become ready: " + res.Fatal)
					mu.Unlock()
					return
				}
				if begun >= 0 {
					sc := byIdx[begun]
					mu.Lock()
					run.Eval(1)
					if res.TimedOut {
						run.Inconclusive(fmt.Sprintf("C17 scenario %d %s: child watchdog", sc.Idx, sc.Kind))
					} else {
						cls := child.FatalClass(res.Fatal)
						extra := ""
						if sc.Kind == "blocked-deliverers-close" {
							extra = fmt.Sprintf(" with %d deliverers blocked", blocked[begun])
						}
						run.Violation("crash:"+sc.Kind+":"+cls, fmt.Sprintf("scenario %d %s (k=%d)%s killed the process: %s at %s", sc.Idx, sc.Kind, sc.K, extra, res.Fatal, res.TopFrame), map[string]any{"scenario": sc, "output": keepOutput(outFile)})
						run.Count("crashes", 1)
					}
					mu.Unlock()
					consumed++
				}
				if consumed == 0 {
					return
				}
				pos += consumed
			}
		}(p)
	}
	// ---- part B: one child per operation kind
	c := run.Pick(15, 200)
	sem := make(chan struct{}, 6)
	for _, kind := range c17RampKinds {
		wg.Add(1)
		go func(kind string) {
			defer wg.Done()
			sem <- struct{}{}
			defer func() { <-sem }()
			out := filepath.Join(work, "c17-ramp-"+kind+".json")
			cmd := exec.Command(os.Args[0], "c17ramp", "quick", kind, fmt.Sprint(c), out)
			cmd.Env = append(os.Environ(), "GORACE=halt_on_error=0 exitcode=0 log_path="+filepath.Join(work, "race-c17-ramp-"+kind))
			outFile := filepath.Join(work, "c17-ramp-"+kind+".out")
			res := child.Run(cmd, outFile, 40*time.Minute, nil)
			mu.Lock()
			defer mu.Unlock()
			run.Eval(1)
			bb, err := os.ReadFile(out)
			if err != nil {
				if res.Fatal != "" && !res.TimedOut {
					run.Violation("crash:ramp:"+kind+":"+child.FatalClass(res.Fatal), fmt.Sprintf("leak ramp %s killed the process: %s at %s", kind, res.Fatal, res.TopFrame), map[string]any{"output": keepOutput(outFile)})
				} else {
					run.Inconclusive(fmt.Sprintf("C17 ramp %s produced no result (timed out=%v)", kind, res.TimedOut))
				}
				return
			}
			var rr struct {
				Samples              []c17Sample    `json:"samples"`
				AfterShutdown        map[string]int `json:"after_shutdown"`
				AfterShutdownSettled bool           `json:"after_shutdown_settled"`
			}
			if json.Unmarshal(bb, &rr) != nil || len(rr.Samples) != 4 {
				run.Inconclusive("C17 ramp " + kind + ": unreadable result")
				return
			}
			s1, s2, s4 := rr.Samples[1], rr.Samples[2], rr.Samples[3]
			if !s1.Settled || !s2.Settled || !s4.Settled {
				run.Inconclusive("C17 ramp " + kind + ": resource samples did not settle")
				return
			}
			run.Distinct("ramp|" + kind)
			grows := func(v1, v2, v4 int) bool {
				return float64(v2-v1) >= 0.5*float64(s2.Cycles-s1.Cycles) && float64(v4-v2) >= 0.5*float64(s4.Cycles-s2.Cycles)
			}
			if grows(s1.RegistryA, s2.RegistryA, s4.RegistryA) || grows(s1.RegistryB, s2.RegistryB, s4.RegistryB) {
				run.Violation("leak:"+kind+":registry", fmt.Sprintf("operation %s: listener registry grows with the number of completed cycles: a %d/%d/%d, b %d/%d/%d after %d/%d/%d cycles", kind, s1.RegistryA, s2.RegistryA, s4.RegistryA, s1.RegistryB, s2.RegistryB, s4.RegistryB, s1.Cycles, s2.Cycles, s4.Cycles), map[string]any{"samples": rr.Samples})
			}
			leaking := []string{}
			for g := range s4.Goroutines {
				if grows(s1.Goroutines[g], s2.Goroutines[g], s4.Goroutines[g]) {
					leaking = append(leaking, fmt.Sprintf("%s %d/%d/%d", g, s1.Goroutines[g], s2.Goroutines[g], s4.Goroutines[g]))
				}
			}
			sort.Strings(leaking)
			if len(leaking) > 0 {
				run.Violation("leak:"+kind+":goroutines", fmt.Sprintf("operation %s: goroutines grow with the number of completed cycles (%d/%d/%d cycles): %s", kind, s1.Cycles, s2.Cycles, s4.Cycles, strings.Join(leaking, "; ")), map[string]any{"samples": rr.Samples})
			}
			if len(rr.AfterShutdown) > 0 && rr.AfterShutdownSettled {
				l := []string{}
				for g, n := range rr.AfterShutdown {
					l = append(l, fmt.Sprintf("%s x%d", g, n))
				}
				sort.Strings(l)
				run.Violation("shutdown:goroutines-left:"+kind, fmt.Sprintf("after Shutdown (ramp %s) receptor goroutines are still running: %s", kind, strings.Join(l, "; ")), map[string]any{"left": rr.AfterShutdown})
			}
			run.Extra("ramp_"+kind, map[string]any{"cycles": []int{s1.Cycles, s2.Cycles, s4.Cycles}, "registry_a": []int{s1.RegistryA, s2.RegistryA, s4.RegistryA}, "registry_b": []int{s1.RegistryB, s2.RegistryB, s4.RegistryB}, "goroutines_total": []int{s1.Total, s2.Total, s4.Total}})
			if kind == "ping" {
				run.Sample(map[string]any{"ramp": kind, "samples": rr.Samples})
			}
		}(kind)
	}
	wg.Wait()
	run.Sample(map[string]any{"scenario": scs[0]})
	collectRaces(run, work)
	run.Finish(run.Pick(12, 20))
}

func keepOutput(outFile string) string {
	keep := filepath.Join(ev.Root(), ".work", "replay", filepath.Base(outFile))
	_ = os.MkdirAll(filepath.Dir(keep), 0o755)
	if data, err := os.ReadFile(outFile); err == nil {
		if len(data) > 300000 {
			data = data[:300000]
		}
		_ = os.WriteFile(keep, data, 0o644)
	}
	return keep
}

// c17SelfSigned returns a server TLS configuration with a fresh self-signed ECDSA certificate.
func c17SelfSigned() (*tls.Config, error) {
	key, err := ecdsa.GenerateKey(elliptic.P256(), crand.Reader)
	if err != nil {
		return nil, err
	}
	tpl := &x509.Certificate{SerialNumber: big.NewInt(17), Subject: pkix.Name{CommonName: "c17"}, NotBefore: time.Now().Add(-time.Hour), NotAfter: time.Now().Add(24 * time.Hour),
		KeyUsage: x509.KeyUsageDigitalSignature, ExtKeyUsage: []x509.ExtKeyUsage{x509.ExtKeyUsageServerAuth}, DNSNames: []string{"c17"}}
	der, err := x509.CreateCertificate(crand.Reader, tpl, tpl, &key.PublicKey, key)
	if err != nil {
		return nil, err
	}
	return &tls.Config{Certificates: []tls.Certificate{{Certificate: [][]byte{der}, PrivateKey: key}}, NextProtos: []string{"netceptor"}, MinVersion: tls.VersionTLS12}, nil
}
