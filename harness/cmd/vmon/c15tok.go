package main

// Token crafting for C15. Everything here is written from RFC 7515/7519 with the Go standard
// library only (crypto/rsa, crypto/hmac, encoding/base64, encoding/json): the oracle must not
// depend on the JWT library receptor uses, and the hostile forms (alg none, HMAC keyed with the
// public key, truncation, ...) have to be under the harness's control byte by byte.

import (
	"crypto"
	"crypto/hmac"
	"crypto/rand"
	"crypto/rsa"
	"crypto/sha256"
	"crypto/sha512"
	"crypto/x509"
	"encoding/base64"
	"encoding/json"
	"encoding/pem"
	"fmt"
	"hash"
	"math/big"
	mrand "math/rand"
	"os"
	"strings"
	"time"
)

// c15Keys is one RSA key pair with the encodings the attack tokens need.
type c15Keys struct {
	Priv    *rsa.PrivateKey
	PrivPEM []byte // "RSA PRIVATE KEY" (PKCS#1), what --work-signing loads
	PubPEM  []byte // "PUBLIC KEY" (PKIX), what --work-verification loads: exactly the file bytes
	PubDER  []byte
}

func c15NewKeys() (*c15Keys, error) {
	k, err := rsa.GenerateKey(rand.Reader, 2048)
	if err != nil {
		return nil, err
	}
	der, err := x509.MarshalPKIXPublicKey(&k.PublicKey)
	if err != nil {
		return nil, err
	}
	return &c15Keys{
		Priv:    k,
		PrivPEM: pem.EncodeToMemory(&pem.Block{Type: "RSA PRIVATE KEY", Bytes: x509.MarshalPKCS1PrivateKey(k)}),
		PubPEM:  pem.EncodeToMemory(&pem.Block{Type: "PUBLIC KEY", Bytes: der}),
		PubDER:  der,
	}, nil
}

func (k *c15Keys) write(privPath, pubPath string) error {
	if err := os.WriteFile(privPath, k.PrivPEM, 0o600); err != nil {
		return err
	}
	return os.WriteFile(pubPath, k.PubPEM, 0o644)
}

func c15b64(b []byte) string { return base64.RawURLEncoding.EncodeToString(b) }

// c15SigningInput returns base64url(header) "." base64url(claims).
func c15SigningInput(alg string, claims map[string]any) string {
	h, _ := json.Marshal(map[string]any{"alg": alg, "typ": "JWT"})
	c, _ := json.Marshal(claims)
	return c15b64(h) + "." + c15b64(c)
}

func c15RSASign(k *rsa.PrivateKey, alg, input string) string {
	var hh crypto.Hash
	var hs hash.Hash
	switch alg {
	case "RS256":
		hh, hs = crypto.SHA256, sha256.New()
	default:
		hh, hs = crypto.SHA512, sha512.New()
	}
	hs.Write([]byte(input))
	sig, err := rsa.SignPKCS1v15(rand.Reader, k, hh, hs.Sum(nil))
	if err != nil {
		panic(err)
	}
	return c15b64(sig)
}

func c15HMAC(alg string, secret []byte, input string) string {
	var m hash.Hash
	if alg == "HS256" {
		m = hmac.New(sha256.New, secret)
	} else {
		m = hmac.New(sha512.New, secret)
	}
	m.Write([]byte(input))
	return c15b64(m.Sum(nil))
}

// The token classes of the matrix.
var c15TokenClasses = []string{
	"absent", "empty", "garbage",
	"valid-rs512", "valid-rs256",
	"expired", "no-exp",
	"other-aud", "no-aud", "aud-list", "valid-for-other-node",
	"other-key",
	"none-nosig", "none-sig",
	"hs256-pubpem", "hs512-pubpem", "hs256-pubder", "hs512-pubder",
	"truncated", "valid-ws",
}

// c15TokVerdict classifies a token class from the statement alone:
//
//	+1 the token is correctly signed (RS512, the algorithm receptor itself issues) by the configured key, unexpired, addressed to this node
//	 0 don't care (right key but: other RSA algorithm, no exp claim, audience list containing this node, surrounding whitespace)
//	-1 missing, malformed, expired, wrongly addressed or wrongly signed
func c15TokVerdict(class string) int {
	switch class {
	case "valid-rs512":
		return +1
	case "valid-rs256", "no-exp", "aud-list", "valid-ws":
		return 0
	}
	return -1
}

// c15TokPresent: a non-empty token is carried by the request.
func c15TokPresent(class string) bool { return class != "absent" && class != "empty" }

// c15Minter makes the token of a class, for a node, now. Variation inside a class is drawn from rng.
type c15Minter struct {
	K, Other *c15Keys
}

// mint returns (token, present-in-request, human description).
func (m *c15Minter) mint(class, node, otherNode string, rng *mrand.Rand) (string, bool, string) {
	now := time.Now().Unix()
	good := map[string]any{"aud": []string{node}, "exp": now + 300}
	rs := func(k *c15Keys, alg string, claims map[string]any) string {
		in := c15SigningInput(alg, claims)
		return in + "." + c15RSASign(k.Priv, alg, in)
	}
	switch class {
	case "absent":
		return "", false, "no signature field"
	case "empty":
		return "", true, `signature ""`
	case "garbage":
		forms := []string{
			"garbage", "a.b.c", "....", "e30.e30.e30", "null", "{}", strings.Repeat("A", 400),
			c15b64([]byte(`{"alg":"RS512"}`)) + "." + c15b64([]byte(`not json`)) + "." + c15b64([]byte("sig")),
			c15b64([]byte(`{"alg":"XX999","typ":"JWT"}`)) + "." + c15b64([]byte(`{"aud":["`+node+`"]}`)) + "." + c15b64([]byte("sig")),
			c15b64([]byte(`{"typ":"JWT"}`)) + "." + c15b64([]byte(`{"aud":["`+node+`"]}`)) + ".",
			"éé.\x01\x02.\x7f",
			fmt.Sprintf("%x.%x.%x", rng.Uint64(), rng.Uint64(), rng.Uint64()),
		}
		i := rng.Intn(len(forms))
		return forms[i], true, fmt.Sprintf("garbage form %d", i)
	case "valid-rs512":
		return rs(m.K, "RS512", good), true, "RS512, configured key, aud=[node], exp=now+300s"
	case "valid-rs256":
		return rs(m.K, "RS256", good), true, "RS256, configured key, aud=[node], exp=now+300s"
	case "expired":
		ago := int64(2 + rng.Intn(7200))
		return rs(m.K, "RS512", map[string]any{"aud": []string{node}, "exp": now - ago}), true, fmt.Sprintf("RS512, configured key, exp=now-%ds", ago)
	case "no-exp":
		return rs(m.K, "RS512", map[string]any{"aud": []string{node}}), true, "RS512, configured key, no exp claim"
	case "other-aud":
		auds := [][]string{{"zz-" + node}, {node + "x"}, {strings.ToUpper(node)}, {"x", "y"}, {""}, {node[:len(node)-1]}}
		a := auds[rng.Intn(len(auds))]
		return rs(m.K, "RS512", map[string]any{"aud": a, "exp": now + 300}), true, fmt.Sprintf("RS512, configured key, aud=%q", a)
	case "no-aud":
		return rs(m.K, "RS512", map[string]any{"exp": now + 300}), true, "RS512, configured key, no aud claim"
	case "aud-list":
		return rs(m.K, "RS512", map[string]any{"aud": []string{"aa", node, "bb"}, "exp": now + 300}), true, "RS512, configured key, aud=[aa,node,bb]"
	case "valid-for-other-node":
		return rs(m.K, "RS512", map[string]any{"aud": []string{otherNode}, "exp": now + 300}), true, "RS512, configured key, aud=[the other node]"
	case "other-key":
		alg := []string{"RS512", "RS256"}[rng.Intn(2)]
		return rs(m.Other, alg, good), true, alg + " signed by a different RSA key"
	case "none-nosig":
		alg := []string{"none", "None", "NONE", "nOnE"}[rng.Intn(4)]
		return c15SigningInput(alg, good) + ".", true, "alg " + alg + ", empty signature part"
	case "none-sig":
		in := c15SigningInput("none", good)
		// the signature part of a genuinely valid token over different signing input
		v := rs(m.K, "RS512", good)
		return in + v[strings.LastIndex(v, "."):], true, "alg none with the signature part of a valid RS512 token"
	case "hs256-pubpem", "hs512-pubpem", "hs256-pubder", "hs512-pubder":
		alg := strings.ToUpper(class[:5])
		secret := m.K.PubPEM
		if strings.HasSuffix(class, "der") {
			secret = m.K.PubDER
		}
		in := c15SigningInput(alg, good)
		return in + "." + c15HMAC(alg, secret, in), true, alg + " keyed with the configured public key (" + class[6:] + " bytes)"
	case "truncated":
		v := rs(m.K, "RS512", good)
		switch rng.Intn(4) {
		case 0:
			k := 1 + rng.Intn(40)
			return v[:len(v)-k], true, fmt.Sprintf("valid RS512 token minus its last %d characters", k)
		case 1:
			return v[:strings.LastIndex(v, ".")+1], true, "valid RS512 token with the signature part emptied"
		case 2:
			return v[:strings.LastIndex(v, ".")], true, "valid RS512 token without the third part"
		default:
			d := strings.LastIndex(v, ".")
			k := 1 + rng.Intn(200)
			return v[:d+1] + v[d+1+k:], true, fmt.Sprintf("valid RS512 token with the first %d signature characters removed", k)
		}
	case "valid-ws":
		v := rs(m.K, "RS512", good)
		forms := []string{" " + v, v + " ", v + "\n", "\t" + v + "\t", v + "\r\n"}
		i := rng.Intn(len(forms))
		return forms[i], true, fmt.Sprintf("valid RS512 token with surrounding whitespace (form %d)", i)
	}
	panic("unknown token class " + class)
}

// mintExp returns a valid RS512 token for node with the given absolute expiry (boundary cells).
func (m *c15Minter) mintExp(node string, exp int64) string {
	in := c15SigningInput("RS512", map[string]any{"aud": []string{node}, "exp": exp})
	return in + "." + c15RSASign(m.K.Priv, "RS512", in)
}

// c15SelfCheck verifies the minter against the standard library (not receptor): the valid token
// verifies under the public key, the other-key token does not. A failure is a harness bug.
func (m *c15Minter) selfCheck() error {
	rng := mrand.New(mrand.NewSource(1))
	chk := func(tok string, alg crypto.Hash, pub *rsa.PublicKey) error {
		p := strings.Split(tok, ".")
		if len(p) != 3 {
			return fmt.Errorf("not three parts")
		}
		sig, err := base64.RawURLEncoding.DecodeString(p[2])
		if err != nil {
			return err
		}
		h := alg.New()
		h.Write([]byte(p[0] + "." + p[1]))
		return rsa.VerifyPKCS1v15(pub, alg, h.Sum(nil), sig)
	}
	v, _, _ := m.mint("valid-rs512", "n", "o", rng)
	if err := chk(v, crypto.SHA512, &m.K.Priv.PublicKey); err != nil {
		return fmt.Errorf("valid-rs512 does not verify: %v", err)
	}
	v, _, _ = m.mint("valid-rs256", "n", "o", rng)
	if err := chk(v, crypto.SHA256, &m.K.Priv.PublicKey); err != nil {
		return fmt.Errorf("valid-rs256 does not verify: %v", err)
	}
	if m.K.Priv.N.Cmp(m.Other.Priv.N) == 0 || m.K.Priv.N.Cmp(big.NewInt(0)) == 0 {
		return fmt.Errorf("key pairs are not distinct")
	}
	return nil
}
