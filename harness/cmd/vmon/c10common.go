package main

// Helpers shared by the C10 and C16 monitors (both need c10common.go): seeded topologies,
// a convergence gate against the harness's own shortest-path oracle, subscribed sockets
// with notice/receive logs, per-node raw notice logs and a bounded "outcome" wait.

import (
	"context"
	"encoding/json"
	"fmt"
	"math"
	"math/rand"
	"reflect"
	"sync"
	"sync/atomic"
	"time"

	"verif/harness/internal/memnet"
	"verif/harness/internal/mesh"
	"verif/harness/internal/wire"

	"github.com/ansible/receptor/pkg/netceptor"
)

// ---------------------------------------------------------------- topologies

type vLink struct {
	A    string  `json:"a"`
	B    string  `json:"b"`
	Cost float64 `json:"cost"`
}

type vTopo struct {
	Kind  string   `json:"kind"`
	Nodes []string `json:"nodes"`
	Links []vLink  `json:"links"`
}

var vCosts = []float64{1, 1, 1, 2, 3, 0.5, 7}

// genTopo builds a connected graph of n nodes: chain, ring, tree or random (tree + extra links).
func genTopo(rng *rand.Rand, kind string, n int) *vTopo {
	t := &vTopo{Kind: kind}
	for i := 0; i < n; i++ {
		t.Nodes = append(t.Nodes, fmt.Sprintf("n%d", i))
	}
	has := map[string]bool{}
	add := func(a, b int) {
		if a == b || has[fmt.Sprint(a, "|", b)] || has[fmt.Sprint(b, "|", a)] {
			return
		}
		has[fmt.Sprint(a, "|", b)] = true
		t.Links = append(t.Links, vLink{t.Nodes[a], t.Nodes[b], vCosts[rng.Intn(len(vCosts))]})
	}
	// node order is shuffled so that "n0" is not always an end of the chain
	perm := rng.Perm(n)
	switch kind {
	case "chain":
		for i := 1; i < n; i++ {
			add(perm[i-1], perm[i])
		}
	case "ring":
		for i := 1; i < n; i++ {
			add(perm[i-1], perm[i])
		}
		if n > 2 {
			add(perm[n-1], perm[0])
		}
	case "tree":
		for i := 1; i < n; i++ {
			add(perm[i], perm[rng.Intn(i)])
		}
	default: // random
		for i := 1; i < n; i++ {
			add(perm[i], perm[rng.Intn(i)])
		}
		extra := rng.Intn(n + 1)
		for k := 0; k < extra; k++ {
			add(rng.Intn(n), rng.Intn(n))
		}
	}
	return t
}

// buildMesh starts the nodes and links of a topology. tap may be nil.
func buildMesh(t *vTopo, c mesh.Consts, seed int64, tap func(memnet.TapEvent)) (*mesh.Mesh, map[string]*mesh.LinkInfo) {
	m := mesh.New(c, seed)
	m.Net.KeepRaw = true
	m.Net.Tap = tap
	for _, id := range t.Nodes {
		m.AddNode(id)
	}
	links := map[string]*mesh.LinkInfo{}
	for _, l := range t.Links {
		links[l.A+"|"+l.B] = m.Connect(l.A, l.B, l.Cost, false)
	}
	return m, links
}

type vTables map[string]map[string]string

func meshTables(m *mesh.Mesh, nodes []string) vTables {
	out := vTables{}
	for _, n := range nodes {
		out[n] = m.Node(n).Inst().Status().RoutingTable
	}
	return out
}

// meshSettled: every node knows exactly the real adjacency of every node (so no later update can
// change a table any more) and every next hop is a least-cost neighbour per the harness oracle.
func meshSettled(m *mesh.Mesh) (vTables, bool) {
	t, why := meshSettledWhy(m)
	return t, why == ""
}

// meshSettledWhy returns the tables and "" when settled, else the first reason why not.
func meshSettledWhy(m *mesh.Mesh) (vTables, string) {
	topo := m.Topo()
	d := topo.Dist()
	tabs := vTables{}
	for _, n := range topo.Nodes {
		st := m.Node(n).Inst().Status()
		tabs[n] = st.RoutingTable
		for _, o := range topo.Nodes {
			want := topo.Adj[o]
			got := st.KnownConnectionCosts[o]
			if len(want) == 0 && len(got) == 0 {
				continue
			}
			if !reflect.DeepEqual(want, got) {
				return nil, fmt.Sprintf("node %s knows %v as the links of %s, really %v", n, got, o, want)
			}
		}
		for _, dst := range topo.Nodes {
			if dst == n || math.IsInf(d[n][dst], 1) {
				continue
			}
			nh, ok := st.RoutingTable[dst]
			if !ok {
				return nil, fmt.Sprintf("node %s has no route to %s", n, dst)
			}
			good := false
			for _, a := range topo.NextHops(d, n, dst) {
				if a == nh {
					good = true
				}
			}
			if !good {
				return nil, fmt.Sprintf("node %s routes %s via %s, not a least-cost neighbour", n, dst, nh)
			}
		}
	}
	return tabs, ""
}

// waitSettled waits until meshSettled holds at three consecutive looks with identical tables.
func waitSettled(m *mesh.Mesh, watchdog time.Duration) (vTables, bool) {
	deadline := time.Now().Add(watchdog)
	var last vTables
	same := 0
	for time.Now().Before(deadline) {
		tabs, ok := meshSettled(m)
		if ok && last != nil && reflect.DeepEqual(tabs, last) {
			same++
			if same >= 3 {
				return tabs, true
			}
		} else {
			same = 0
		}
		if ok {
			last = tabs
		} else {
			last = nil
		}
		time.Sleep(120 * time.Millisecond)
	}
	return nil, false
}

// tableWalk follows the nodes' own tables from src to dst; nil if it does not arrive within limit steps.
func tableWalk(tabs vTables, src, dst string, limit int) []string {
	p := []string{src}
	cur := src
	for cur != dst {
		nx, ok := tabs[cur][dst]
		if !ok || len(p) > limit {
			return nil
		}
		p = append(p, nx)
		cur = nx
	}
	return p
}

// ---------------------------------------------------------------- observation

type vNotice struct {
	Ev uint64 `json:"ev"`
	netceptor.UnreachableNotification
}

type vRecv struct {
	Ev   uint64
	From string
	Data []byte
}

// vSock is a PacketConn whose unreachable subscription (and optionally its receive side) is logged.
type vSock struct {
	Node, Name string
	pc         netceptor.PacketConner
	done       chan struct{}
	once       sync.Once
	mu         sync.Mutex
	notices    []vNotice
	recvd      []vRecv
	subOK      bool
}

// openSock binds name ("" = ephemeral) on inst, subscribes to its unreachable notices and, when
// read is set, drains its receive side (into onRecv if given, else into the recvd log).
func openSock(inst *netceptor.Netceptor, evc *atomic.Uint64, node, name string, read bool, onRecv func([]byte)) (*vSock, error) {
	pc, err := inst.ListenPacket(name)
	if err != nil {
		return nil, err
	}
	s := &vSock{Node: node, Name: pc.LocalService(), pc: pc, done: make(chan struct{})}
	ch := pc.SubscribeUnreachable(s.done)
	if ch != nil {
		s.subOK = true
		go func() {
			for n := range ch {
				s.mu.Lock()
				s.notices = append(s.notices, vNotice{Ev: evc.Add(1), UnreachableNotification: n})
				s.mu.Unlock()
			}
		}()
	}
	if read {
		go func() {
			buf := make([]byte, 256)
			for {
				n, addr, err := pc.ReadFrom(buf)
				if err != nil {
					return
				}
				from := ""
				if addr != nil {
					from = addr.String()
				}
				if onRecv != nil {
					onRecv(append([]byte(nil), buf[:n]...))
					continue
				}
				s.mu.Lock()
				s.recvd = append(s.recvd, vRecv{Ev: evc.Add(1), From: from, Data: append([]byte(nil), buf[:n]...)})
				s.mu.Unlock()
			}
		}()
	}
	return s, nil
}

func (s *vSock) Close() error {
	var err error
	s.once.Do(func() {
		err = s.pc.Close()
		close(s.done)
	})
	return err
}

func (s *vSock) Notices() []vNotice {
	s.mu.Lock()
	defer s.mu.Unlock()
	return append([]vNotice(nil), s.notices...)
}

func (s *vSock) NNotices() int { s.mu.Lock(); defer s.mu.Unlock(); return len(s.notices) }

func (s *vSock) Recvd() []vRecv {
	s.mu.Lock()
	defer s.mu.Unlock()
	return append([]vRecv(nil), s.recvd...)
}

func (s *vSock) NRecvd() int { s.mu.Lock(); defer s.mu.Unlock(); return len(s.recvd) }

// vRaw logs every unreachable notice a node's netceptor hands to its broker (i.e. every notice
// that was addressed to and handled by this node, before any per-socket filtering).
type vRaw struct {
	Node string
	mu   sync.Mutex
	got  []vNotice
}

func openRaw(inst *netceptor.Netceptor, evc *atomic.Uint64, node string) *vRaw {
	r := &vRaw{Node: node}
	ch := inst.GetUnreachableBroker().Subscribe()
	if ch == nil {
		return r
	}
	go func() {
		for m := range ch {
			n, ok := m.(netceptor.UnreachableNotification)
			if !ok {
				continue
			}
			r.mu.Lock()
			r.got = append(r.got, vNotice{Ev: evc.Add(1), UnreachableNotification: n})
			r.mu.Unlock()
		}
	}()
	return r
}

func (r *vRaw) Got() []vNotice {
	r.mu.Lock()
	defer r.mu.Unlock()
	return append([]vNotice(nil), r.got...)
}

// vUnreachTap is an 'unreach' packet seen on a link.
type vUnreachTap struct {
	Ev   uint64       `json:"ev"`
	Dir  string       `json:"dir"`
	From string       `json:"from"`
	To   string       `json:"to"`
	Dest uint64       `json:"-"` // ToHash of the packet
	Msg  wire.Unreach `json:"msg"`
	OK   bool         `json:"decoded"`
}

func decodeUnreachTap(e memnet.TapEvent, d *wire.Data, ev uint64) vUnreachTap {
	u := vUnreachTap{Ev: ev, Dir: e.Dir, From: e.From, To: e.To, Dest: d.ToHash}
	if json.Unmarshal(d.Payload, &u.Msg) == nil {
		u.OK = true
	}
	return u
}

// waitOutcome polls cond. The wait is bounded by logical progress, not by a fixed time: as long as
// progress() (e.g. the number of link traversals of the packet in question) keeps changing the
// packet is still travelling and the wait goes on; once nothing moved for a quiet window a fence
// (a probe over the same path that returns only after the path was traversed) is run and the
// polling repeated with a window of at least 15 times the fence's own round trip, so that a
// machine on which everything is slow gets proportionally more patience. Returns (cond held,
// conclusive); a failing fence makes the case inconclusive.
func waitOutcome(cond func() bool, progress func() int64, fence func() bool) (bool, bool) {
	if progress == nil {
		progress = func() int64 { return 0 }
	}
	quiet := func(window time.Duration) bool {
		last := progress()
		deadline := time.Now().Add(window)
		sl := 50 * time.Microsecond
		for {
			if cond() {
				return true
			}
			if p := progress(); p != last {
				last = p
				deadline = time.Now().Add(window)
			}
			if time.Now().After(deadline) {
				return false
			}
			time.Sleep(sl)
			if sl < 4*time.Millisecond {
				sl *= 2
			}
		}
	}
	if quiet(3 * time.Second) {
		return true, true
	}
	for i := 0; i < 2; i++ {
		t0 := time.Now()
		if !fence() {
			return cond(), false
		}
		w := 15 * time.Since(t0)
		if w < 3*time.Second {
			w = 3 * time.Second
		}
		if w > 90*time.Second {
			return cond(), false // the machine is too slow to decide anything
		}
		if quiet(w) {
			return true, true
		}
	}
	return false, true
}

// fencePing: Ping with the maximum budget; true when the far end answered.
func fencePing(inst *netceptor.Netceptor, target string) bool {
	ok, _ := fencePingBounded(inst, target)
	return ok
}

// fencePingBounded is fencePing with a bound on the call itself: Ping opens a socket and subscribes it to the node's
// notices before it looks at its context, so a node whose notice machinery is deadlocked never returns from it.
// hung = a single Ping call (12 s context, 10 s internal timeout) had not returned after 90 s.
func fencePingBounded(inst *netceptor.Netceptor, target string) (ok, hung bool) {
	for i := 0; i < 3; i++ {
		res := make(chan error, 1)
		go func() {
			ctx, cancel := context.WithTimeout(context.Background(), 12*time.Second)
			_, _, err := inst.Ping(ctx, target, 255)
			cancel()
			res <- err
		}()
		select {
		case err := <-res:
			if err == nil {
				return true, false
			}
		case <-time.After(90 * time.Second):
			return false, true
		}
	}
	return false, false
}

// settle gives the notification pipelines (node broker -> socket filter -> socket broker ->
// subscriber) a bounded number of scheduler rounds after a fence.
func settleRounds() {
	for i := 0; i < 40; i++ {
		time.Sleep(5 * time.Millisecond)
	}
}
