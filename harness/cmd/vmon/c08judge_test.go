package main

import "testing"

func TestC08Judge(t *testing.T) {
	unk := func(id string) bool { return c08UnknownRe.MatchString(id) }
	cases := []struct {
		line    string
		invalid bool
		reached bool
	}{
		{"ping", true, true}, {"ping ", true, true}, {"ping  ", false, true}, {"ping \t", false, true}, {"ping\t", true, false}, {"ping x", false, true},
		{"PING x", false, true}, {"traceroute \t", false, true}, {"bogus", true, false}, {" status", false, false}, {"status x", false, true},
		{"connect a", true, true}, {"connect a b", false, true}, {"connect  b", false, true}, {"connect \t", true, true},
		{"work", true, true}, {"work bogus", true, true}, {"work status", true, true}, {"work status nosuchunit7", true, true}, {"work status  nosuchunit7", false, true},
		{"work status abc", false, true}, {"work results nosuchunit7 0", true, true}, {"work results nosuchunit7 x", false, true}, {"work submit a", true, true},
		{"work list", false, true}, {"work list nosuchunit7", false, true},
		{"{", true, false}, {`{"command":"status"}`, false, true}, {`{"command":"status","requested_fields":"x"}`, true, true}, {`{"command":"status","requested_fields":null}`, false, true},
		{`{"command":"status","requested_fields":[1]}`, true, true}, {`{"command":"Status"}`, false, false}, {`{"command":"nosuch"}`, true, false}, {`{"command":5}`, true, false},
		{`{"command":"ping"}`, true, true}, {`{"command":"ping","target":5}`, true, true}, {`{"command":"ping","target":"x","target":5}`, false, true},
		{`{"command":"work","subcommand":"results","unitid":"x"}`, true, true}, {`{"command":"work","subcommand":"results","unitid":"x","startpos":"5"}`, false, true},
		{`{"command":"work","subcommand":"status","unitid":"nosuchunit7"}`, true, true}, {`{"command":"work","subcommand":"list","unitid":5}`, false, true},
		{`{"command":"work","subcommand":"submit","node":"a","worktype":"b","params":5}`, true, true}, {`{"command":"work","subcommand":"submit","node":"a","worktype":"b","params":null}`, false, true},
		{`{"command":"status","x":1e999}`, false, false}, {"sta\rtus", false, true}, {"status\r", false, true}, {"bo\rgus", true, false},
	}
	for _, c := range cases {
		v := c08Judge([]byte(c.line), unk)
		if v.Invalid != c.invalid || v.Reached != c.reached {
			t.Errorf("%q: invalid=%v (want %v) reached=%v (want %v) why=%q", c.line, v.Invalid, c.invalid, v.Reached, c.reached, v.Why)
		}
	}
	for _, th := range []bool{false, true} {
		a, b := genC08(1, th), genC08(1, th)
		if len(a) != len(b) {
			t.Fatalf("generator not deterministic")
		}
		for i := range a {
			if *a[i] != *b[i] {
				t.Fatalf("generator not deterministic at %d", i)
			}
		}
		c := genC08(2, th)
		diff := 0
		for i := range a {
			if i < len(c) && a[i].Raw != c[i].Raw {
				diff++
			}
		}
		t.Logf("thorough=%v inputs=%d differing between seeds 1 and 2: %d", th, len(a), diff)
		if diff == 0 {
			t.Errorf("seeds give identical case lists")
		}
	}
}
