package main

// C15 — signature-protected work needs a valid token.
//
// Real daemons: T ("t15": work types sgen [verifysignature=true] and gen, --work-verification,
// --work-signing, Unix + TCP control listeners, mesh service "control", TCP backend listener) and
// R ("r15", same key and work types, peered to T). H is an in-process netceptor node that dials
// T's mesh control service. Every cell of
//   {submit, cancel, release, force-release, results, status, list} x {unix, tcp, mesh}
//   x {verifying, nonverifying, remote-signed, remote-unsigned, unknown} x token classes
// is one exchange against its own target unit (always fresh in the thorough tier). What the command did is observed independently of
// what the daemon answered: unit directories listed on disk, the producer's pid, flags in the
// status file on disk, bytes of the unit's (PRNG-regenerated) output arriving on the connection.
// The expected outcome is a table written from the statement (c15Expect); tokens are crafted by
// the harness itself (c15tok.go).

import (
	"bytes"
	"context"
	"encoding/json"
	"fmt"
	"io"
	mrand "math/rand"
	"os"
	"path/filepath"
	"sort"
	"strconv"
	"strings"
	"sync"
	"sync/atomic"
	"syscall"
	"time"

	"verif/harness/internal/ctl"
	"verif/harness/internal/ev"
	"verif/harness/internal/prng"

	"github.com/ansible/receptor/pkg/backends"
	"github.com/ansible/receptor/pkg/logger"
	"github.com/ansible/receptor/pkg/netceptor"
)

func init() { register("C15", runC15) }

const (
	c15V  = "verifying"
	c15N  = "nonverifying"
	c15RS = "remote-signed"
	c15RU = "remote-unsigned"
	c15U  = "unknown"

	c15GhostType = "ghost15" // work type of pre-created units that no daemon registers
)

var (
	c15Cmds  = []string{"submit", "cancel", "release", "force-release", "results", "status", "list"}
	c15Conns = []string{"unix", "tcp", "mesh"}
	c15Types = []string{c15V, c15N, c15RS, c15RU, c15U}
)

// Expected outcome of a cell, from the statement.
const (
	c15MustNot  = -1 // an effect is a violation
	c15DontCare = 0  // the statement does not decide
	c15Must     = 1  // positive control demanded by the statement (valid token / Unix socket must work)
	c15Control  = 2  // expected to work, but not demanded by the statement: inconclusive if it does not
	c15Answer   = 3  // status / list: not protected, only has to answer
)

// c15Policy is the verification policy the statement attaches to the unit the command addresses.
func c15Policy(cmd, typ string) string {
	switch typ {
	case c15V, c15RS:
		return c15V
	case c15RU:
		// submit names work type sgen (verifying on T) on node R without signwork: T's own check is the
		// verifying one. The other commands address a remote unit on T that was created WITHOUT signing
		// (work type gen on R): it does not expect a token.
		if cmd == "submit" {
			return c15V
		}
		return c15N
	case c15N:
		return c15N
	}
	return c15U
}

// c15Expect is the oracle table. It never looks at anything receptor computed.
func c15Expect(cmd, conn, typ, tok string) int {
	if cmd == "status" || cmd == "list" {
		return c15Answer
	}
	present := c15TokPresent(tok)
	switch c15Policy(cmd, typ) {
	case c15V:
		e := c15MustNot
		if conn == "unix" {
			// the local Unix socket is exempt: must work without a token; with any token: not decided
			e = c15DontCare
			if tok == "absent" {
				e = c15Must
			}
		} else {
			switch c15TokVerdict(tok) {
			case +1:
				e = c15Must
			case 0:
				e = c15DontCare
			}
		}
		if e == c15Must && cmd == "submit" && typ == c15RU {
			e = c15DontCare // T may or may not keep a local record of a submission R has to refuse
		}
		return e
	case c15N:
		if present {
			return c15MustNot // "a token sent to a work type that does not expect one is refused as well" (no Unix exemption)
		}
		if tok == "absent" {
			return c15Control
		}
		return c15DontCare
	default: // unknown work type: expects no token
		if present {
			return c15MustNot
		}
		return c15DontCare
	}
}

type c15Cell struct {
	Idx  int    `json:"idx"`
	Cmd  string `json:"cmd"`
	Conn string `json:"conn"`
	Type string `json:"worktype_class"`
	Tok  string `json:"token_class"`
	// boundary cells (thorough): a valid token used before / after its expiry
	Boundary string `json:"boundary,omitempty"` // "", "early", "late"
	// Form of the request line (session cells, c15sess.go): "" = JSON object with the token as a string;
	// "plain" = the plain-text command line (cannot carry a token); "null" / "number" = JSON object whose
	// signature field is null / a number (malformed token).
	Form string `json:"request_form,omitempty"`
	// Exp, when non-zero, is the expected outcome given by the generator of the cell (session and
	// key-replacement cells) instead of the table c15Expect.
	Exp int `json:"-"`
	// Origin ("session" / "keyfile:<phase>"), Label (what the token is, in words of the generator) and
	// History (":first", ":after-valid", ...) name such a cell in violation keys.
	Origin  string `json:"origin,omitempty"`
	Label   string `json:"token_label,omitempty"`
	History string `json:"history,omitempty"`
}

func (c c15Cell) key() string { return c.Cmd + ":" + c.Conn + ":" + c.Type + ":" + c.Tok }

type c15Obs struct {
	Cell         c15Cell  `json:"cell"`
	TokenDesc    string   `json:"token"`
	Token        string   `json:"token_text,omitempty"`
	Request      string   `json:"request,omitempty"`
	Reply        string   `json:"reply"`
	Effects      []string `json:"effects"`        // observed on the node the command was sent to (and on the unit's process)
	RemoteEffect []string `json:"remote_effects"` // submit cells with node=R: what appeared on R
	Unit         string   `json:"unit,omitempty"`
	Note         string   `json:"note,omitempty"`
	Undecided    string   `json:"undecided,omitempty"`
}

// ---------------------------------------------------------------- arena

type c15Arena struct {
	idx      int
	dir      string
	tid, rid string
	T, R     *ctl.Daemon
	H        *netceptor.Netceptor
	hctx     context.CancelFunc
	mint     *c15Minter
	seed     int64
	producer string // path of the producer script
	reuse    bool   // quick tier: a target that a refused command left untouched may serve further refusal cells
	pool     map[string][]*c15Target
	poolMu   sync.Mutex
	onLate   func(prev *c15Obs, eff []string) // a pooled target changed after the window of its last command
	// dirMu serialises "list directories / submit / list again" of submit cells (write lock) against
	// every other creation of units by the harness (read lock), so that a new directory is attributable.
	dirMu   sync.RWMutex
	pidDir  string
	nextSeq atomic.Int64
	shared  map[string]*c15Target
	shMu    sync.Mutex
	meshN   atomic.Int64
}

type c15Target struct {
	a       *c15Arena
	class   string
	unit    string // unit id on T
	runit   string // unit id on R (remote classes)
	pidfile string
	pid     int
	pstart  string // start time of pid (guards against pid reuse)
	seed    uint64
	ghost   bool
	uses    int     // commands this target has received
	last    *c15Obs // observation of the last command it received (pooled targets)
}

// The producer of C15's units is a four-line shell script instead of `vmon workgen`: a race-built vmon
// costs ~1.5 CPU-seconds per start, and the matrix needs many hundred fresh units. The payload is
// "<pidfile>\n<marker>\n"; the script records its pid, prints the marker (64 hex characters derived from
// the harness PRNG stream of the unit's seed) and then lives (exec sleep, same pid) until it is stopped.
const c15Producer = `#!/bin/sh
IFS= read -r pf
IFS= read -r mk
echo $$ > "$pf.tmp" && mv "$pf.tmp" "$pf"
printf '%s' "$mk"
exec sleep 86400
`

func c15Marker(seed uint64) []byte { return []byte(fmt.Sprintf("%x", prng.Bytes(seed, 0, 32))) }

func c15LongSpec(seed uint64, pidfile string) []byte {
	return []byte(pidfile + "\n" + string(c15Marker(seed)) + "\n")
}

func c15Ls(dir string) map[string]bool {
	out := map[string]bool{}
	ents, _ := os.ReadDir(dir)
	for _, e := range ents {
		if e.IsDir() {
			out[e.Name()] = true
		}
	}
	return out
}

func c15New(before, after map[string]bool) []string {
	n := []string{}
	for k := range after {
		if !before[k] {
			n = append(n, k)
		}
	}
	sort.Strings(n)
	return n
}

// c15Owner attributes a unit directory by the first line of the input it received: "mine" (names pidfile),
// "foreign" (names another pid file), "no-input" (no stdin file even after a wait: the unit was allocated but the submission never got as far as its input).
func c15Owner(unitdir, pidfile string) string {
	deadline := time.Now().Add(4 * time.Second)
	for {
		b, err := os.ReadFile(filepath.Join(unitdir, "stdin"))
		if err == nil && bytes.IndexByte(b, '\n') > 0 {
			if string(b[:bytes.IndexByte(b, '\n')]) == pidfile {
				return "mine"
			}
			return "foreign"
		}
		if time.Now().After(deadline) {
			if err == nil {
				return "foreign" // input file exists but is still being filled: a submission in progress, not ours
			}
			return "no-input"
		}
		time.Sleep(50 * time.Millisecond)
	}
}

func c15Exists(p string) bool { _, err := os.Lstat(p); return err == nil }

// c15DiskStatus reads a unit's status record straight from disk (the file is rewritten in place, so retry on a torn read).
func c15DiskStatus(unitdir string) map[string]any {
	for i := 0; i < 20; i++ {
		b, err := os.ReadFile(filepath.Join(unitdir, "status"))
		if err != nil {
			return nil
		}
		var m map[string]any
		if json.Unmarshal(bytes.TrimSpace(b), &m) == nil && m != nil {
			return m
		}
		time.Sleep(10 * time.Millisecond)
	}
	return nil
}

func c15Extra(m map[string]any) map[string]any {
	if m == nil {
		return nil
	}
	e, _ := m["ExtraData"].(map[string]any)
	return e
}

// prepare lays out the daemons (directories, ports) without starting them.
func (a *c15Arena) prepare(keyPriv, keyPub string) {
	work := []ctl.WorkCmd{
		{Type: "sgen", Command: "/bin/sh", Params: a.producer, Verify: true},
		{Type: "gen", Command: "/bin/sh", Params: a.producer},
	}
	// NB: --work-signing without tokenexpiration dereferences a nil duration at start-up, so it is always given.
	sign := []string{"--work-signing", "privatekey=" + keyPriv, "tokenexpiration=10m"}
	a.T = ctl.NewDaemon(ctl.Cfg{ID: a.tid, Dir: filepath.Join(a.dir, "T"), TCPCtl: true, Listen: true, Work: work, VerifyKey: keyPub, Extra: sign, LogLevel: "error"})
	a.R = ctl.NewDaemon(ctl.Cfg{ID: a.rid, Dir: filepath.Join(a.dir, "R"), Peers: []string{fmt.Sprintf("127.0.0.1:%d", a.T.ListenPort)}, Work: work, VerifyKey: keyPub, Extra: sign, LogLevel: "error"})
}

func (a *c15Arena) start() error {
	if err := a.T.Start(); err != nil {
		return fmt.Errorf("%v: %s", err, a.T.OutTail(1500))
	}
	if a.R != nil {
		if err := a.R.Start(); err != nil {
			return fmt.Errorf("%v: %s", err, a.R.OutTail(1500))
		}
	}
	ctx, cancel := context.WithCancel(context.Background())
	a.hctx = cancel
	a.H = netceptor.New(ctx, fmt.Sprintf("h15-%d", a.idx))
	a.H.Logger.SetOutput(io.Discard)
	lg := logger.NewReceptorLogger("c15")
	lg.SetOutput(io.Discard)
	be, err := backends.NewTCPDialer(fmt.Sprintf("127.0.0.1:%d", a.T.ListenPort), true, nil, lg)
	if err != nil {
		return err
	}
	if err := a.H.AddBackend(be); err != nil {
		return err
	}
	// wait for routes: H -> T, T -> R, and a working mesh control session
	deadline := time.Now().Add(90 * time.Second)
	for {
		if time.Now().After(deadline) {
			return fmt.Errorf("mesh did not come up (H routes %v)", a.H.Status().RoutingTable)
		}
		time.Sleep(200 * time.Millisecond)
		if _, ok := a.H.Status().RoutingTable[a.tid]; !ok {
			continue
		}
		c, err := ctl.DialUnix(a.T.Sock(), 5*time.Second)
		if err != nil {
			continue
		}
		l, _ := c.Line("status", 5*time.Second)
		c.Close()
		var st struct{ RoutingTable map[string]string }
		_ = json.Unmarshal([]byte(l), &st)
		if _, ok := st.RoutingTable[a.rid]; !ok && a.R != nil {
			continue
		}
		if _, ok := st.RoutingTable[fmt.Sprintf("h15-%d", a.idx)]; !ok {
			continue
		}
		mc, err := a.dial("mesh")
		if err != nil {
			continue
		}
		mc.Close()
		return nil
	}
}

func (a *c15Arena) dial(kind string) (*ctl.Client, error) {
	var last error
	for try := 0; try < 3; try++ {
		switch kind {
		case "unix":
			c, err := ctl.DialUnix(a.T.Sock(), 10*time.Second)
			if err == nil {
				return c, nil
			}
			last = err
		case "tcp":
			c, err := ctl.DialTCP(fmt.Sprintf("127.0.0.1:%d", a.T.CtlPort), 10*time.Second)
			if err == nil {
				return c, nil
			}
			last = err
		case "mesh":
			ctx, cancel := context.WithTimeout(context.Background(), 20*time.Second)
			conn, err := a.H.DialContext(ctx, a.tid, "control", nil)
			cancel()
			if err == nil {
				a.meshN.Add(1)
				c, err2 := ctl.FromConn(conn, "mesh", 20*time.Second)
				if err2 == nil {
					return c, nil
				}
				err = err2
			}
			last = err
		}
		time.Sleep(300 * time.Millisecond)
	}
	return nil, last
}

func (a *c15Arena) unixLine(d *ctl.Daemon, req map[string]any) (string, error) {
	c, err := ctl.DialUnix(d.Sock(), 10*time.Second)
	if err != nil {
		return "", err
	}
	defer c.Close()
	return c.JSON(req, 30*time.Second)
}

func (a *c15Arena) newPidfile() string {
	return filepath.Join(a.pidDir, fmt.Sprintf("u%06d.pid", a.nextSeq.Add(1)))
}

func c15WaitPid(pidfile string, limit time.Duration) int {
	deadline := time.Now().Add(limit)
	for time.Now().Before(deadline) {
		if b, err := os.ReadFile(pidfile); err == nil {
			if p, err := strconv.Atoi(strings.TrimSpace(string(b))); err == nil && p > 1 {
				return p
			}
		}
		time.Sleep(20 * time.Millisecond)
	}
	return 0
}

// c15ProcStart returns the start time (clock ticks since boot, field 22 of /proc/<pid>/stat) of a live,
// non-zombie process, "" otherwise. (pid, start time) identifies a process even when pids are recycled.
func c15ProcStart(pid int) string {
	if pid <= 1 {
		return ""
	}
	b, err := os.ReadFile(fmt.Sprintf("/proc/%d/stat", pid))
	if err != nil {
		return ""
	}
	st := string(b)
	i := strings.LastIndex(st, ")")
	if i < 0 {
		return ""
	}
	f := strings.Fields(st[i+1:])
	if len(f) < 20 || f[0] == "Z" || f[0] == "X" {
		return ""
	}
	return f[19]
}

// c15IsProducer: pid runs the producer script (sh <script>) or its final `sleep 86400`.
func c15IsProducer(pid int) bool {
	cl, _ := os.ReadFile(fmt.Sprintf("/proc/%d/cmdline", pid))
	return bytes.Contains(cl, []byte("sleep\x0086400")) || bytes.Contains(cl, []byte("producer.sh"))
}

// c15SameProc: the process recorded as (pid, start) is still running.
func c15SameProc(pid int, start string) bool {
	return start != "" && c15ProcStart(pid) == start
}

func c15WaitSize(file string, n int64, limit time.Duration) bool {
	deadline := time.Now().Add(limit)
	for time.Now().Before(deadline) {
		if fi, err := os.Stat(file); err == nil && fi.Size() >= n {
			return true
		}
		time.Sleep(25 * time.Millisecond)
	}
	return false
}

// makeTarget creates a fresh, running unit of the class through T's Unix socket (exempt by the statement).
func (a *c15Arena) makeTarget(class string, seed uint64, needOutput bool) (*c15Target, error) {
	t := &c15Target{a: a, class: class, seed: seed, pidfile: a.newPidfile()}
	req := map[string]any{"command": "work", "subcommand": "submit", "node": a.tid, "worktype": "sgen"}
	switch class {
	case c15N:
		req["worktype"] = "gen"
	case c15RS:
		req["node"] = a.rid
		req["signwork"] = "true"
	case c15RU:
		req["node"] = a.rid
		req["worktype"] = "gen"
	}
	c, err := ctl.DialUnix(a.T.Sock(), 10*time.Second)
	if err != nil {
		return nil, err
	}
	a.dirMu.RLock()
	res := c.Submit(req, c15LongSpec(seed, t.pidfile), 40*time.Second)
	a.dirMu.RUnlock()
	c.Close()
	if res.UnitID == "" || res.Err != nil || strings.HasPrefix(res.Final, "ERROR") {
		if res.UnitID != "" {
			_, _ = a.unixLine(a.T, map[string]any{"command": "work", "subcommand": "force-release", "unitid": res.UnitID})
		}
		return nil, fmt.Errorf("set-up submit failed: ack=%q final=%q err=%v", res.Ack, res.Final, res.Err)
	}
	t.unit = res.UnitID
	t.pid = c15WaitPid(t.pidfile, 40*time.Second)
	t.pstart = c15ProcStart(t.pid)
	if t.pid == 0 || t.pstart == "" {
		t.cleanup()
		return nil, fmt.Errorf("producer of unit %s did not start (final=%q)", t.unit, res.Final)
	}
	tdir := filepath.Join(a.T.DataDir(), t.unit)
	if class == c15RS || class == c15RU {
		deadline := time.Now().Add(20 * time.Second)
		for time.Now().Before(deadline) && t.runit == "" {
			if e := c15Extra(c15DiskStatus(tdir)); e != nil {
				t.runit, _ = e["RemoteUnitID"].(string)
			}
			if t.runit == "" {
				time.Sleep(50 * time.Millisecond)
			}
		}
		if t.runit == "" {
			t.cleanup()
			return nil, fmt.Errorf("remote unit id of %s not recorded", t.unit)
		}
	}
	if needOutput && !c15WaitSize(filepath.Join(tdir, "stdout"), 64, 40*time.Second) {
		t.cleanup()
		return nil, fmt.Errorf("output of unit %s did not reach T", t.unit)
	}
	return t, nil
}

func (t *c15Target) marker() []byte { return c15Marker(t.seed) }

// effects lists what has observably happened to the target, from disk / process table / received bytes only.
func (t *c15Target) effects(transcript []byte) []string {
	e := []string{}
	a := t.a
	tdir := filepath.Join(a.T.DataDir(), t.unit)
	if t.pid > 0 && !c15SameProc(t.pid, t.pstart) {
		e = append(e, "process-stopped")
	}
	if !c15Exists(tdir) {
		e = append(e, "unit-removed")
	} else if t.class == c15RS || t.class == c15RU {
		if x := c15Extra(c15DiskStatus(tdir)); x != nil {
			if b, _ := x["LocalCancelled"].(bool); b {
				e = append(e, "remote-cancel-recorded")
			}
			if b, _ := x["LocalReleased"].(bool); b {
				e = append(e, "remote-release-recorded")
			}
		}
	}
	if t.runit != "" && !c15Exists(filepath.Join(a.R.DataDir(), t.runit)) {
		e = append(e, "remote-unit-removed")
	}
	if len(transcript) > 0 && bytes.Contains(transcript, t.marker()) {
		e = append(e, "output-read")
	}
	return e
}

func (t *c15Target) cleanup() {
	a := t.a
	if t.unit != "" && c15Exists(filepath.Join(a.T.DataDir(), t.unit)) {
		_, _ = a.unixLine(a.T, map[string]any{"command": "work", "subcommand": "force-release", "unitid": t.unit})
	}
	if t.runit != "" && c15Exists(filepath.Join(a.R.DataDir(), t.runit)) {
		_, _ = a.unixLine(a.R, map[string]any{"command": "work", "subcommand": "force-release", "unitid": t.runit})
	}
	if t.pid > 0 && c15SameProc(t.pid, t.pstart) {
		// the runner forwards SIGINT; give it a moment, then make sure
		for i := 0; i < 50 && c15SameProc(t.pid, t.pstart); i++ {
			time.Sleep(20 * time.Millisecond)
		}
		if c15SameProc(t.pid, t.pstart) {
			_ = syscall.Kill(t.pid, syscall.SIGKILL)
		}
	}
}

// ghost units: directories of a work type nobody registers, written before T starts.
func c15GhostID(idx int) string { return fmt.Sprintf("gh%06d", idx) }

func (a *c15Arena) writeGhost(id string, seed uint64) error {
	d := filepath.Join(a.T.DataDir(), id)
	if err := os.MkdirAll(d, 0o700); err != nil {
		return err
	}
	st, _ := json.Marshal(map[string]any{"State": 2, "Detail": "exit status 0", "StdoutSize": 64, "WorkType": c15GhostType, "ExtraData": nil})
	if err := os.WriteFile(filepath.Join(d, "status"), append(st, '\n'), 0o600); err != nil {
		return err
	}
	_ = os.WriteFile(filepath.Join(d, "stdin"), []byte("{}"), 0o600)
	return os.WriteFile(filepath.Join(d, "stdout"), c15Marker(seed), 0o600)
}

func (a *c15Arena) sharedTarget(class string) (*c15Target, error) {
	a.shMu.Lock()
	defer a.shMu.Unlock()
	if t, ok := a.shared[class]; ok {
		if t == nil {
			return nil, fmt.Errorf("shared %s unit unavailable", class)
		}
		return t, nil
	}
	var t *c15Target
	var err error
	if class == c15U {
		t = &c15Target{a: a, class: class, unit: "ghshared", seed: 7, ghost: true}
	} else {
		for try := 0; try < 3 && t == nil; try++ {
			t, err = a.makeTarget(class, uint64(a.seed)<<20+uint64(900000+try), false)
		}
	}
	a.shared[class] = t
	return t, err
}

func (a *c15Arena) stop() {
	// producers first (their command line does not name the scratch directory)
	if files, _ := filepath.Glob(filepath.Join(a.pidDir, "*.pid")); files != nil {
		for _, f := range files {
			if b, err := os.ReadFile(f); err == nil {
				if p, err := strconv.Atoi(strings.TrimSpace(string(b))); err == nil && p > 1 && ctl.PidAlive(p) && c15IsProducer(p) {
					_ = syscall.Kill(p, syscall.SIGKILL)
				}
			}
		}
	}
	if a.T != nil {
		a.T.Kill()
	}
	if a.R != nil {
		a.R.Kill()
	}
	if a.hctx != nil {
		a.H.Shutdown()
		a.hctx()
		a.hctx = nil
	}
	ctl.KillStrays(a.dir)
}

// ---------------------------------------------------------------- cells

func (a *c15Arena) cellRng(c c15Cell) *mrand.Rand {
	return mrand.New(mrand.NewSource(a.seed*1000003 + int64(c.Idx)*7919 + 17))
}

func (a *c15Arena) cellSeed(c c15Cell) uint64 { return uint64(a.seed)<<20 + uint64(c.Idx) + 1 }

func c15Trunc(s string, n int) string {
	if len(s) > n {
		return s[:n] + fmt.Sprintf("...(%d bytes)", len(s))
	}
	return s
}

// token for the cell: (text, present, description). Boundary cells bring their own token.
func (a *c15Arena) token(c c15Cell, override func() (string, string)) (string, bool, string) {
	if override != nil {
		tok, desc := override()
		return tok, true, desc
	}
	return a.mint.mint(c.Tok, a.tid, a.rid, a.cellRng(c))
}

// requestLine renders the request of a cell in the cell's form.
func c15RequestLine(c c15Cell, req map[string]any, tok string, present bool) string {
	switch c.Form {
	case "plain":
		switch c.Cmd {
		case "submit":
			return fmt.Sprintf("work submit %v %v", req["node"], req["worktype"])
		case "results":
			return fmt.Sprintf("work results %v 0", req["unitid"])
		}
		return fmt.Sprintf("work %s %v", c.Cmd, req["unitid"])
	case "null":
		req["signature"] = nil
	case "number":
		req["signature"] = 1234567
	default:
		if present {
			req["signature"] = tok
		}
	}
	rb, _ := json.Marshal(req)
	return string(rb)
}

// runSubmit: one submit exchange; effect = a unit directory appeared (on T; on R for the remote classes).
func (a *c15Arena) runSubmit(c c15Cell, override func() (string, string)) *c15Obs {
	cl, err := a.dial(c.Conn)
	if err != nil {
		return &c15Obs{Cell: c, Undecided: "dial: " + err.Error()}
	}
	return a.submitOn(cl, c, override, true)
}

// submitOn: the submit exchange on an established session. closeAfter: the session is closed once the
// exchange is over (before the clean-up); otherwise it is left to the caller (multi-command sessions).
func (a *c15Arena) submitOn(cl *ctl.Client, c c15Cell, override func() (string, string), closeAfter bool) *c15Obs {
	o := &c15Obs{Cell: c}
	tok, present, desc := a.token(c, override)
	o.TokenDesc, o.Token = desc, c15Trunc(tok, 900)
	req := map[string]any{"command": "work", "subcommand": "submit", "node": a.tid, "worktype": "sgen"}
	remote := false
	switch c.Type {
	case c15N:
		req["worktype"] = "gen"
	case c15U:
		req["worktype"] = "nosuch15"
	case c15RS:
		req["node"], req["signwork"], remote = a.rid, "true", true
	case c15RU:
		req["node"], remote = a.rid, true
	}
	line := c15RequestLine(c, req, tok, present)
	o.Request = c15Trunc(line, 1200)
	pidfile := a.newPidfile()
	payload := c15LongSpec(a.cellSeed(c), pidfile)
	a.dirMu.Lock()
	tb := c15Ls(a.T.DataDir())
	var rbf map[string]bool
	if remote {
		rbf = c15Ls(a.R.DataDir())
	}
	res := cl.Submit(line, payload, 40*time.Second)
	o.Reply = res.Ack
	if res.Final != "" {
		o.Reply += " | " + res.Final
	}
	tnew := c15New(tb, c15Ls(a.T.DataDir()))
	if remote && len(tnew) > 0 {
		// T accepted and recorded a remote unit: wait (still holding the lock) until its first attempt at R is over
		deadline := time.Now().Add(20 * time.Second)
		for time.Now().Before(deadline) {
			st := c15DiskStatus(filepath.Join(a.T.DataDir(), tnew[0]))
			if st == nil {
				break
			}
			if s, _ := st["State"].(float64); s >= 2 {
				break
			}
			if x := c15Extra(st); x != nil {
				if b, _ := x["RemoteStarted"].(bool); b {
					break
				}
			}
			time.Sleep(50 * time.Millisecond)
		}
	}
	// Units on R are created by T's remote units, whose retries after a failed connection attempt run
	// asynchronously: a new directory on R is attributed by the payload it received (every payload names
	// its own pid file), not by the lock alone.
	var rnew, foreign []string
	if remote {
		for _, u := range c15New(rbf, c15Ls(a.R.DataDir())) {
			switch c15Owner(filepath.Join(a.R.DataDir(), u), pidfile) {
			case "mine":
				rnew = append(rnew, u)
			case "no-input":
				rnew = append(rnew, u+"(never received input)")
			default:
				foreign = append(foreign, u)
			}
		}
	}
	a.dirMu.Unlock()
	if closeAfter {
		cl.Close()
	}
	if len(foreign) > 0 {
		o.Note += fmt.Sprintf("units of other cells appeared on R meanwhile: %v; ", foreign)
	}
	if res.Err != nil && res.Ack == "" {
		o.Note = "no reply: " + res.Err.Error()
	}
	for _, u := range tnew {
		o.Effects = append(o.Effects, "unit-created:"+u)
	}
	for _, u := range rnew {
		o.RemoteEffect = append(o.RemoteEffect, "unit-created:"+u)
	}
	if len(tnew) > 0 {
		o.Unit = tnew[0]
	}
	// a started producer is further evidence (not needed for the verdict); clean up what was created
	if len(tnew) > 0 && !remote {
		if p := c15WaitPid(pidfile, 5*time.Second); p > 0 {
			o.Effects = append(o.Effects, "process-started")
		}
	}
	for _, u := range tnew {
		_, _ = a.unixLine(a.T, map[string]any{"command": "work", "subcommand": "force-release", "unitid": u})
	}
	for _, u := range rnew {
		if i := strings.Index(u, "("); i > 0 {
			u = u[:i]
		}
		if c15Exists(filepath.Join(a.R.DataDir(), u)) {
			_, _ = a.unixLine(a.R, map[string]any{"command": "work", "subcommand": "force-release", "unitid": u})
		}
	}
	if p := c15WaitPid(pidfile, time.Millisecond); p > 0 {
		if ps := c15ProcStart(p); ps != "" && c15IsProducer(p) {
			time.Sleep(200 * time.Millisecond)
			if c15SameProc(p, ps) {
				_ = syscall.Kill(p, syscall.SIGKILL)
			}
		}
	}
	return o
}

// getTarget returns the unit a cell works on: a fresh one, or (quick tier, refusal cells only) one that every
// earlier command left verifiably untouched.
func (a *c15Arena) getTarget(c c15Cell, reuseOK bool) (*c15Target, error) {
	needOutput := c.Cmd == "results"
	for reuseOK {
		a.poolMu.Lock()
		var t *c15Target
		if l := a.pool[c.Type]; len(l) > 0 {
			t = l[len(l)-1]
			a.pool[c.Type] = l[:len(l)-1]
		}
		a.poolMu.Unlock()
		if t == nil {
			break
		}
		if eff := t.effects(nil); len(eff) > 0 {
			// something happened to the unit after the observation window of the command it received last
			if a.onLate != nil && t.last != nil {
				a.onLate(t.last, eff)
			}
			t.cleanup()
			continue
		}
		if needOutput && !c15WaitSize(filepath.Join(a.T.DataDir(), t.unit, "stdout"), 64, 40*time.Second) {
			t.cleanup()
			continue
		}
		return t, nil
	}
	return a.makeTarget(c.Type, a.cellSeed(c), needOutput)
}

func (a *c15Arena) putTarget(t *c15Target, o *c15Obs, reusable bool) {
	t.uses++
	if reusable && a.reuse && o.Undecided == "" && len(o.Effects) == 0 && t.uses < 8 {
		t.last = o
		a.poolMu.Lock()
		a.pool[t.class] = append(a.pool[t.class], t)
		a.poolMu.Unlock()
		return
	}
	t.cleanup()
}

// drainPool re-examines and removes the pooled targets at the end of the run.
func (a *c15Arena) drainPool() {
	a.poolMu.Lock()
	all := []*c15Target{}
	for k, l := range a.pool {
		all = append(all, l...)
		delete(a.pool, k)
	}
	a.poolMu.Unlock()
	for _, t := range all {
		if eff := t.effects(nil); len(eff) > 0 && a.onLate != nil && t.last != nil {
			a.onLate(t.last, eff)
		}
		t.cleanup()
	}
}

// runUnitOp: cancel / release / force-release / results against a running unit that nothing has touched yet.
func (a *c15Arena) runUnitOp(c c15Cell, override func() (string, string)) *c15Obs {
	o := &c15Obs{Cell: c}
	exp := c15CellExpect(c)
	var t *c15Target
	var err error
	if c.Type == c15U {
		t = &c15Target{a: a, class: c15U, unit: c15GhostID(c.Idx), seed: a.cellSeed(c), ghost: true}
		if !c15Exists(filepath.Join(a.T.DataDir(), t.unit)) {
			o.Undecided = "ghost unit missing before the command"
			return o
		}
	} else {
		t, err = a.getTarget(c, a.reuse && exp == c15MustNot && c.Boundary == "")
		if err != nil {
			o.Undecided = "target: " + err.Error()
			return o
		}
	}
	defer func() {
		if !t.ghost {
			a.putTarget(t, o, exp == c15MustNot && c.Boundary == "")
		}
	}()
	o.Unit = t.unit
	if pre := t.effects(nil); len(pre) > 0 {
		o.Undecided = fmt.Sprintf("target changed before the command: %v", pre)
		return o
	}
	cl, err := a.dial(c.Conn)
	if err != nil {
		o.Undecided = "dial: " + err.Error()
		return o
	}
	defer cl.Close()
	a.unitOpOn(cl, c, t, exp, override, o)
	return o
}

// unitOpOn: one cancel / release / force-release / results exchange about target t on an established
// session; fills o with the request, the reply and the effects observed on t.
func (a *c15Arena) unitOpOn(cl *ctl.Client, c c15Cell, t *c15Target, exp int, override func() (string, string), o *c15Obs) {
	tok, present, desc := a.token(c, override)
	o.TokenDesc, o.Token = desc, c15Trunc(tok, 900)
	req := map[string]any{"command": "work", "subcommand": c.Cmd, "unitid": t.unit}
	if c.Cmd == "results" {
		req["startpos"] = 0
	}
	line := c15RequestLine(c, req, tok, present)
	o.Request = c15Trunc(line, 1200)
	reply, rerr := cl.Line(line, 30*time.Second)
	o.Reply = c15Trunc(reply, 300)
	if rerr != nil {
		o.Note = "reply: " + rerr.Error()
	}
	wait := 400 * time.Millisecond // every effect of an accepted command starts before its reply is written
	if exp == c15Must || exp == c15Control {
		wait = 25 * time.Second
	} else if c.Cmd == "results" && rerr == nil && !strings.HasPrefix(reply, "ERROR") {
		wait = 6 * time.Second
	}
	deadline := time.Now().Add(wait)
	buf := make([]byte, 8192)
	for {
		if c.Cmd == "results" {
			_ = cl.C.SetReadDeadline(time.Now().Add(150 * time.Millisecond))
			_, _ = cl.R.Read(buf)
		} else {
			time.Sleep(50 * time.Millisecond)
		}
		o.Effects = t.effects(cl.Transcript())
		if len(o.Effects) > 0 && (exp != c15Must && exp != c15Control || c15Wanted(c.Cmd, o.Effects)) {
			break
		}
		if time.Now().After(deadline) {
			break
		}
	}
}

// c15CellExpect: the expected outcome of a cell (table c15Expect; boundary, session and key-replacement
// cells carry the expectation their generator derived from the statement).
func c15CellExpect(c c15Cell) int {
	if c.Exp != 0 {
		return c.Exp
	}
	switch c.Boundary {
	case "early":
		return c15Must
	case "late":
		return c15MustNot
	}
	return c15Expect(c.Cmd, c.Conn, c.Type, c.Tok)
}

// c15Wanted: does the effect list contain what the command is for (used only to stop polling positive controls).
func c15Wanted(cmd string, eff []string) bool {
	for _, e := range eff {
		switch cmd {
		case "cancel":
			if e == "process-stopped" || e == "remote-cancel-recorded" {
				return true
			}
		case "release", "force-release":
			if e == "unit-removed" || e == "remote-release-recorded" {
				return true
			}
		case "results":
			if e == "output-read" {
				return true
			}
		}
	}
	return false
}

// runQuery: status / list are not protected by the statement; they only have to answer.
func (a *c15Arena) runQuery(c c15Cell) *c15Obs {
	o := &c15Obs{Cell: c}
	t, err := a.sharedTarget(c.Type)
	if err != nil || t == nil {
		o.Undecided = fmt.Sprintf("shared target: %v", err)
		return o
	}
	o.Unit = t.unit
	tok, present, desc := a.token(c, nil)
	o.TokenDesc = desc
	req := map[string]any{"command": "work", "subcommand": c.Cmd, "unitid": t.unit}
	if present {
		req["signature"] = tok
	}
	cl, err := a.dial(c.Conn)
	if err != nil {
		o.Undecided = "dial: " + err.Error()
		return o
	}
	defer cl.Close()
	reply, rerr := cl.JSON(req, 30*time.Second)
	o.Reply = c15Trunc(reply, 300)
	if rerr != nil {
		o.Note = "reply: " + rerr.Error()
		return o
	}
	var m map[string]any
	if json.Unmarshal([]byte(reply), &m) == nil {
		if c.Cmd == "list" {
			m, _ = m[t.unit].(map[string]any)
		}
		if _, ok := m["State"]; ok {
			o.Effects = []string{"answered"}
		}
	}
	return o
}

func (a *c15Arena) runCell(c c15Cell) *c15Obs {
	switch c.Cmd {
	case "submit":
		return a.runSubmit(c, nil)
	case "status", "list":
		return a.runQuery(c)
	}
	return a.runUnitOp(c, nil)
}

// ---------------------------------------------------------------- judging

type c15Judge struct {
	run *ev.Run
	mu  sync.Mutex
	tab map[string]int // expectation/outcome table for the evidence file
}

func (j *c15Judge) count(k string) { j.mu.Lock(); j.tab[k]++; j.mu.Unlock() }

func c15ExpName(e int) string {
	switch e {
	case c15MustNot:
		return "must-refuse"
	case c15Must:
		return "must-work"
	case c15Control:
		return "expected-to-work"
	case c15Answer:
		return "must-answer"
	}
	return "dont-care"
}

// judge applies the oracle to one observation. Returns false if the cell was undecided.
func (j *c15Judge) judge(o *c15Obs) bool {
	c := o.Cell
	run := j.run
	if o.Undecided != "" {
		return false
	}
	exp := c15Expect(c.Cmd, c.Conn, c.Type, c.Tok)
	tokLabel := c.Tok
	switch c.Boundary {
	case "early":
		exp, tokLabel = c15Must, "valid-before-expiry"
	case "late":
		exp, tokLabel = c15MustNot, "valid-after-expiry"
	}
	effect := len(o.Effects) > 0
	refusedReply := strings.HasPrefix(o.Reply, "ERROR")
	switch exp {
	case c15Answer:
		if !effect {
			return false
		}
		j.count("answered")
	case c15MustNot:
		if effect {
			kind := "effect:" + c.Cmd
			if c.Cmd == "submit" && refusedReply {
				kind = "effect:submit-created-unit"
			}
			run.Violation(fmt.Sprintf("%s:%s:%s:%s", kind, c.Conn, c.Type, tokLabel),
				fmt.Sprintf("work %s over %s for a %s work type with token class %s took effect %v (reply %q); the statement demands a refusal without effect", c.Cmd, c.Conn, c.Type, tokLabel, o.Effects, c15Trunc(o.Reply, 120)), o)
		}
	case c15Must:
		if !effect {
			k := fmt.Sprintf("control-refused:%s:%s", c.Cmd, c.Conn)
			if c.Type != c15V {
				k += ":" + c.Type
			}
			if c.Boundary != "" {
				k += ":" + tokLabel
			}
			run.Violation(k, fmt.Sprintf("positive control: work %s over %s for a %s work type with token class %s had no effect (reply %q)", c.Cmd, c.Conn, c.Type, tokLabel, c15Trunc(o.Reply, 160)), o)
		}
	case c15Control:
		if !effect {
			o.Undecided = fmt.Sprintf("non-verifying control without token had no effect (reply %q)", c15Trunc(o.Reply, 160))
			return false
		}
	}
	// remote half of submit cells: what appeared on R
	if c.Cmd == "submit" && (c.Type == c15RS || c.Type == c15RU) {
		reff := len(o.RemoteEffect) > 0
		switch {
		case c.Type == c15RU && reff:
			run.Violation(fmt.Sprintf("effect-remote:submit:%s:%s:%s", c.Conn, c.Type, tokLabel),
				fmt.Sprintf("an unsigned remote submission of a verifying work type created a unit on the remote node: %v", o.RemoteEffect), o)
		case c.Type == c15RS && reff && exp == c15MustNot:
			run.Violation(fmt.Sprintf("effect-remote:submit:%s:%s:%s", c.Conn, c.Type, tokLabel),
				fmt.Sprintf("a submission that had to be refused created a unit on the remote node: %v", o.RemoteEffect), o)
		case c.Type == c15RS && !reff && exp == c15Must:
			run.Violation(fmt.Sprintf("control-refused:submit:%s:%s:on-remote", c.Conn, c.Type),
				fmt.Sprintf("positive control: signed remote submission did not create a unit on the remote node (reply %q)", c15Trunc(o.Reply, 160)), o)
		}
		if reff {
			j.count("remote-unit-created")
		} else {
			j.count("remote-unit-not-created")
		}
	}
	out := "no-effect"
	if effect {
		out = "effect"
	}
	j.count(c15ExpName(exp) + "/" + out)
	if c.Cmd == "cancel" && c.Type == c15U {
		// cancelling a unit of an unknown work type does nothing observable: evaluated, not counted as decided
		j.count("unobservable")
	} else {
		run.Distinct(c.key() + c.Boundary)
	}
	run.SetAdd("triples", c.Cmd+":"+c.Conn+":"+c.Type)
	run.SetAdd("token_classes", tokLabel)
	if effect {
		for _, e := range o.Effects {
			if i := strings.Index(e, ":"); i > 0 {
				e = e[:i]
			}
			run.SetAdd("effect_kinds", e)
		}
	}
	return true
}

// ---------------------------------------------------------------- run

// c15Plan enumerates the cells of a tier. full: the complete product; otherwise the local classes are
// complete and the remote classes are reduced to a core of token classes plus one seeded extra class per triple.
func c15Plan(seed int64, full bool) (cells []c15Cell, rule string) {
	rng := mrand.New(mrand.NewSource(seed*7777 + 5))
	core := map[string]bool{"absent": true, "valid-rs512": true}
	rest := []string{}
	for _, t := range c15TokenClasses {
		if !core[t] {
			rest = append(rest, t)
		}
	}
	for _, cmd := range c15Cmds {
		for _, conn := range c15Conns {
			for _, typ := range c15Types {
				remote := typ == c15RS || typ == c15RU
				var extra map[string]bool
				if remote && !full {
					if cmd == "status" || cmd == "list" {
						continue
					}
					extra = map[string]bool{rest[rng.Intn(len(rest))]: true}
				}
				for _, tok := range c15TokenClasses {
					if remote && !full && !core[tok] && !extra[tok] {
						continue
					}
					cells = append(cells, c15Cell{Cmd: cmd, Conn: conn, Type: typ, Tok: tok})
				}
			}
		}
	}
	rng.Shuffle(len(cells), func(i, k int) { cells[i], cells[k] = cells[k], cells[i] })
	for i := range cells {
		cells[i].Idx = i
	}
	return cells, ""
}

func runC15(tier string, _ []string) {
	run := ev.New("C15", tier, "fault_enumeration")
	full := !run.Quick()
	nArenas := run.Pick(2, 3)
	workers := run.Pick(10, 10)
	if v, err := strconv.Atoi(os.Getenv("C15_ARENAS")); err == nil && v > 0 {
		nArenas = v
	}
	if v, err := strconv.Atoi(os.Getenv("C15_WORKERS")); err == nil && v > 0 {
		workers = v
	}
	if os.Getenv("C15_FULL") == "1" {
		full = true
	}
	cells, _ := c15Plan(run.Seed, full)
	scope := "the complete product for the local classes (verifying, nonverifying, unknown); for the remote classes (units on T that run on R) submit/cancel/release/force-release/results x 3 connection kinds x {absent, valid-rs512, one seeded further token class}"
	if full {
		scope = "the complete product, remote classes included, plus expiry-boundary cells (a valid token with 6 s to live used at once, one with 3 s to live used >= 2 s after its expiry; distances to the boundary are measured) for the five protected commands over tcp and mesh"
	}
	run.Rule("cells = {submit,cancel,release,force-release,results,status,list} x {unix,tcp,mesh} x {verifying,nonverifying,remote-signed,remote-unsigned,unknown} x " +
		fmt.Sprintf("%d token classes %v; this tier enumerates %s. ", len(c15TokenClasses), c15TokenClasses, scope) +
		"Each cell is one command against real daemons (T verifying, R remote, H in-process mesh client) and its own target unit (a running producer with a pid file and known output; pre-created directories of an unregistered work type for 'unknown'). thorough: every target is fresh. quick: cells whose expected outcome is a refusal may use a unit that at most 7 earlier refused commands left verifiably untouched (it is re-examined before every use and at the end; a change found then is attributed to the last command it received); all other cells get a fresh unit. " +
		"Effects are read from disk, the process table and the received bytes (new unit directories on T and on R attributed by lock and by the payload they received, producer pid, unit directory removed, cancel/release flags in the status file, the unit's output on the connection), never from the reply. " +
		"the seed draws the variant inside a token class (garbage form, truncation point, age of the expired token, foreign audience, whitespace form), unit payload seeds, the cell order and the extra token class of the reduced remote part. " +
		"A cell is distinct by (command, connection kind, work-type class, token class) and counted only when its outcome was decided from disk / process table / received bytes. " +
		"Histories (c15sess.go): (a) multi-command sessions - two or three commands on ONE tcp / mesh connection, each about its own verifying-type unit, in the shapes valid,bad / bad,valid / valid,bad,valid / bad,valid,bad / valid,valid,bad / valid,bad,bad, where 'bad' is any of the refusable token classes or a request form that cannot carry a token (plain-text line, signature null, signature a number) and an accepted non-final command is a cancel / release / force-release; every command must have the outcome it has on a fresh connection (quick, per connection kind: each second command x {absent, plain-text or one seeded class} after a valid first one, about three reverse sessions, one of each three-command shape; thorough: each second command x all classes after a seeded valid first one and x {absent, plain-text} after each of the three, each first command x all classes in reverse, 10 of each three-command shape); units of refused steps are looked at again at the end of the session. " +
		"(b) replacement of the verification key on a daemon of its own (k15): the configured key file is replaced (rename over it / rewrite in place / remove and create) while the daemon runs, after commands were verified with the previous content; in every generation (quick: A, B, A; thorough: seven generations of three keys) each protected command over tcp and mesh is sent with an unexpired, correctly addressed RS512 token of every key: the key in the file must work, retired and never-configured keys must be refused without effect; all commands of a generation are over before the file is touched.")
	run.Assume("'the configured key' is the content of the configured key file at the time the command is judged (the file is complete and no command is in flight while it is replaced)")
	run.Assume("Unix-socket commands are used by the harness to create and to clean up target units (exempt by the statement)")
	run.Assume("token without exp claim, audience list containing this node, valid token in another RSA algorithm (RS256) and valid token with surrounding whitespace are don't-care; a token without aud claim is 'not addressed to this node'")
	run.Assume("a non-empty token sent for a non-verifying or unknown work type has to be refused on every connection kind including the Unix socket (the last clause of the statement has no exemption); an empty string counts as no token there")
	run.Assume("status and list are not protected by the statement: they only have to answer")
	run.Assume("a remote submission (node=R) of work type sgen is judged on T by T's own policy for sgen (verifying); independently, R must not create a unit for an unsigned submission")
	run.Exhaustive(full)

	base := filepath.Join(workDir(), "c15")
	_ = os.MkdirAll(filepath.Join(base, "keys"), 0o755)
	k1, err1 := c15NewKeys()
	k2, err2 := c15NewKeys()
	if err1 != nil || err2 != nil {
		run.Inconclusive(fmt.Sprintf("key generation: %v %v", err1, err2))
		run.Finish(10)
	}
	priv, pub := filepath.Join(base, "keys", "priv.pem"), filepath.Join(base, "keys", "pub.pem")
	if err := k1.write(priv, pub); err != nil {
		run.Inconclusive("writing keys: " + err.Error())
		run.Finish(10)
	}
	if err := os.WriteFile(filepath.Join(base, "producer.sh"), []byte(c15Producer), 0o755); err != nil {
		run.Inconclusive("writing producer: " + err.Error())
		run.Finish(10)
	}
	minter := &c15Minter{K: k1, Other: k2}
	if err := minter.selfCheck(); err != nil {
		run.Inconclusive("token minter self-check: " + err.Error())
		run.Finish(10)
	}
	logger.SetGlobalQuietMode()

	// arenas: cells are dealt round-robin; ghost units are written before T starts
	arenas := make([]*c15Arena, nArenas)
	per := make([][]c15Cell, nArenas)
	for i, c := range cells {
		per[i%nArenas] = append(per[i%nArenas], c)
	}
	var swg sync.WaitGroup
	startErr := make([]error, nArenas)
	for i := range arenas {
		a := &c15Arena{idx: i, dir: filepath.Join(base, fmt.Sprintf("a%d", i)), tid: "t15", rid: "r15", mint: minter, seed: run.Seed, shared: map[string]*c15Target{}, pool: map[string][]*c15Target{},
			producer: filepath.Join(base, "producer.sh"), reuse: !full}
		a.pidDir = filepath.Join(a.dir, "pids")
		_ = os.MkdirAll(a.pidDir, 0o755)
		arenas[i] = a
		swg.Add(1)
		go func(i int) {
			defer swg.Done()
			a.prepare(priv, pub)
			for _, c := range per[i] {
				if c.Type == c15U && c.Cmd != "submit" && c.Cmd != "status" && c.Cmd != "list" {
					if err := a.writeGhost(c15GhostID(c.Idx), a.cellSeed(c)); err != nil {
						startErr[i] = err
						return
					}
				}
			}
			if err := a.writeGhost("ghshared", 7); err != nil {
				startErr[i] = err
				return
			}
			startErr[i] = a.start()
		}(i)
	}
	swg.Wait()
	for i, e := range startErr {
		if e != nil {
			run.Inconclusive(fmt.Sprintf("arena %d did not start: %v", i, e))
			for _, a := range arenas {
				a.stop()
			}
			run.Finish(len(cells) * 9 / 10)
		}
	}

	j := &c15Judge{run: run, tab: map[string]int{}}
	// key replacement runs on its own daemon, next to the matrix
	sessions := c15SessionPlan(run.Seed, full)
	rotKeys := []*c15Keys{k1, k2}
	if full {
		k3, err := c15NewKeys()
		if err != nil {
			run.Inconclusive("key generation: " + err.Error())
		} else {
			rotKeys = append(rotKeys, k3)
		}
	}
	rotDone := make(chan int, 1)
	go func() {
		rotDone <- c15KeyReplacement(run, j, base, filepath.Join(base, "producer.sh"), rotKeys, full)
	}()
	for _, a := range arenas {
		a.onLate = func(prev *c15Obs, eff []string) {
			o := *prev
			o.Effects = eff
			o.Note = "effect appeared after the observation window of the command (seen when the unit was examined again)"
			c := prev.Cell
			if c.Origin != "" {
				j.judgeGiven(&o, "")
				return
			}
			run.Violation(fmt.Sprintf("effect:%s:%s:%s:%s", c.Cmd, c.Conn, c.Type, c.Tok),
				fmt.Sprintf("work %s over %s for a %s work type with token class %s took (delayed) effect %v", c.Cmd, c.Conn, c.Type, c.Tok, eff), o)
		}
	}
	var wg sync.WaitGroup
	var sampleMu sync.Mutex
	sampled := map[string]bool{}
	for ai, a := range arenas {
		// the sessions of this arena are queued between its cells (same workers)
		var mySessions []c15Session
		for si, s := range sessions {
			if si%len(arenas) == ai {
				mySessions = append(mySessions, s)
			}
		}
		type job struct {
			c *c15Cell
			s *c15Session
		}
		ch := make(chan job, len(per[ai])+len(mySessions))
		every, ns := len(per[ai])+1, 0
		if len(mySessions) > 0 {
			every = len(per[ai])*3/4/len(mySessions) + 1 // all sessions are queued within the first three quarters
		}
		for ci := range per[ai] {
			if ci%every == 0 && ns < len(mySessions) {
				ch <- job{s: &mySessions[ns]}
				ns++
			}
			ch <- job{c: &per[ai][ci]}
		}
		for ; ns < len(mySessions); ns++ {
			ch <- job{s: &mySessions[ns]}
		}
		close(ch)
		for w := 0; w < workers; w++ {
			wg.Add(1)
			go func(a *c15Arena) {
				defer wg.Done()
				for jb := range ch {
					if jb.s != nil {
						c15DoSession(run, j, a, *jb.s)
						continue
					}
					c := *jb.c
					var o *c15Obs
					for try := 0; try < 2; try++ {
						if try > 0 && c.Type == c15U && c.Cmd != "submit" {
							break // a ghost unit cannot be re-created under a running daemon
						}
						o = a.runCell(c)
						if j.judge(o) {
							break
						}
					}
					run.Eval(1)
					if o.Undecided != "" || (c15Expect(c.Cmd, c.Conn, c.Type, c.Tok) == c15Answer && len(o.Effects) == 0) {
						why := o.Undecided
						if why == "" {
							why = fmt.Sprintf("no answer (reply %q %s)", o.Reply, o.Note)
						}
						run.Inconclusive(fmt.Sprintf("cell %s: %s", c.key(), why))
						continue
					}
					sampleMu.Lock()
					sk := c.Cmd + "/" + fmt.Sprint(len(o.Effects) > 0)
					if !sampled[sk] && c.Conn != "unix" && c.Type == c15V && c.Cmd != "status" && c.Cmd != "list" && len(sampled) < 4 {
						sampled[sk] = true
						s := *o
						s.Token = c15Trunc(s.Token, 80)
						s.Request = c15Trunc(s.Request, 160)
						run.Sample(s)
					}
					sampleMu.Unlock()
				}
			}(a)
		}
	}
	wg.Wait()
	for _, a := range arenas {
		a.drainPool()
	}
	tRot := time.Now()
	rotPlanned := <-rotDone
	run.Extra("keyfile_wait_after_matrix_s", time.Since(tRot).Seconds())

	if full {
		c15Boundary(run, j, arenas)
	}

	// the daemons must have survived; a dead daemon makes "no effect" observations meaningless
	meshDials := int64(0)
	for _, a := range arenas {
		meshDials += a.meshN.Load()
		for _, d := range []*ctl.Daemon{a.T, a.R} {
			if !d.Alive() {
				fatal, top, _ := d.Fatal()
				run.Inconclusive(fmt.Sprintf("daemon %s of arena %d died during the run: %s at %s; tail: %s", d.ID, a.idx, fatal, top, c15Trunc(d.OutTail(600), 600)))
			}
		}
	}
	j.mu.Lock()
	run.Extra("outcome_table", j.tab)
	j.mu.Unlock()
	run.Count("cells_planned", int64(len(cells)))
	run.Count("sessions_planned", int64(len(sessions)))
	run.Extra("sessions_worker_busy_s", float64(c15SessionBusyMs.Load())/1000)

	run.Count("keyfile_commands_planned", int64(rotPlanned))
	run.Count("mesh_sessions", meshDials)
	run.Count("arenas", int64(nArenas))
	for _, a := range arenas {
		a.stop()
		for _, d := range []*ctl.Daemon{a.T, a.R} {
			files, _ := filepath.Glob(filepath.Join(d.Dir, "race-*"))
			for _, f := range files {
				if b, err := os.ReadFile(f); err == nil {
					_ = os.WriteFile(filepath.Join(workDir(), fmt.Sprintf("race-c15-a%d-%s", a.idx, filepath.Base(f))), b, 0o644)
				}
			}
		}
	}
	collectRaces(run, workDir())
	run.Finish((len(cells) + len(sessions) + rotPlanned) * 9 / 10)
}

// c15Boundary: a valid token that expires in 6 s must work when used at once, and the same kind of token
// must be refused when it is used >= 2 s after its expiry (the distance to the boundary is measured, never assumed).
func c15Boundary(run *ev.Run, j *c15Judge, arenas []*c15Arena) {
	var wg sync.WaitGroup
	idx := 1 << 20
	for _, cmd := range []string{"submit", "cancel", "release", "force-release", "results"} {
		for ci, conn := range []string{"tcp", "mesh"} {
			idx += 2
			a := arenas[(idx/2+ci)%len(arenas)]
			wg.Add(1)
			go func(a *c15Arena, cmd, conn string, idx int) {
				defer wg.Done()
				do := func(c c15Cell, tokf func() (string, string)) *c15Obs {
					if cmd == "submit" {
						return a.runSubmit(c, tokf)
					}
					return a.runUnitOp(c, tokf)
				}
				// early use: the token is minted right before it is sent
				early := c15Cell{Idx: idx, Cmd: cmd, Conn: conn, Type: c15V, Tok: "valid-rs512", Boundary: "early"}
				var exp int64
				oe := do(early, func() (string, string) {
					exp = time.Now().Unix() + 6
					return a.mint.mintExp(a.tid, exp), "valid RS512 token (boundary early)"
				})
				run.Eval(1)
				if oe.Undecided == "" && len(oe.Effects) == 0 && exp != 0 && time.Now().Unix() >= exp-1 {
					oe.Undecided = "early use was not over 1 s before the expiry (loaded machine)"
				}
				if oe.Undecided != "" || !j.judge(oe) {
					run.Inconclusive("boundary " + early.key() + ":early: " + oe.Undecided)
				}
				// late use: minted now with 3 s to live, sent once the clock is >= 2 s past the expiry
				late := early
				late.Boundary, late.Idx = "late", idx+1
				lexp := time.Now().Unix() + 3
				ltok := a.mint.mintExp(a.tid, lexp)
				ol := do(late, func() (string, string) {
					for time.Now().Unix() < lexp+2 {
						time.Sleep(100 * time.Millisecond)
					}
					return ltok, "valid RS512 token (boundary late)"
				})
				run.Eval(1)
				if ol.Undecided != "" || !j.judge(ol) {
					run.Inconclusive("boundary " + late.key() + ":late: " + ol.Undecided)
				}
			}(a, cmd, conn, idx)
		}
	}
	wg.Wait()
}
