package main

import (
	"context"
	"fmt"
	"io"
	"math/rand"
	"runtime"
	"sort"
	"strings"
	"sync"
	"sync/atomic"
	"time"

	"verif/harness/internal/ev"
	"verif/harness/internal/memnet"
	"verif/harness/internal/mesh"
	"verif/harness/internal/wire"

	"github.com/ansible/receptor/pkg/netceptor"
)

// C11 — only admissible peers stay connected: allow-list, identity, cost, one per ID.
//
// A real node is offered scripted backend sessions whose handshake and later updates are the
// product of the admission-relevant fields; after an exact barrier the node's public state
// (Status().Connections / KnownConnectionCosts / RoutingTable), the reject message and the
// session's fate are compared with the admission rules evaluated by the harness on the fields
// it sent. Races: several sessions announcing one ID at the same moment. Duplicate IDs: two
// real nodes with one ID started >= 1.1 s apart anywhere in a mesh.

func init() { register("C11", runC11) }

type c11Case struct {
	Idx      int    `json:"idx"`
	Allow    string `json:"allow_list"`     // nil | has | lacks
	Override bool   `json:"cost_override"`  // per-node cost override configured for the peer id
	ID       string `json:"announced_id"`   // good | empty | own | dup
	Cost     string `json:"announced_cost"` // equal | diff | missing
	FwdNeOrg bool   `json:"forwarder_differs_from_origin"`
	Later    string `json:"later"` // none | consistent | changeid | dropnode | changecost | sessionend
}

func (c *c11Case) label() string {
	return fmt.Sprintf("allow=%s,override=%v,id=%s,cost=%s,fwd!=org=%v,later=%s", c.Allow, c.Override, c.ID, c.Cost, c.FwdNeOrg, c.Later)
}

func c11Product() []*c11Case {
	out := []*c11Case{}
	for _, allow := range []string{"nil", "has", "lacks"} {
		for _, ov := range []bool{false, true} {
			for _, id := range []string{"good", "empty", "own", "dup"} {
				for _, cost := range []string{"equal", "diff", "missing"} {
					for _, fwd := range []bool{false, true} {
						laters := []string{"none"}
						if id == "good" && allow != "lacks" && cost == "equal" {
							laters = []string{"consistent", "changeid", "dropnode", "changecost", "sessionend"}
						}
						for _, l := range laters {
							out = append(out, &c11Case{Idx: len(out), Allow: allow, Override: ov, ID: id, Cost: cost, FwdNeOrg: fwd, Later: l})
						}
					}
				}
			}
		}
	}
	return out
}

func c11Node(id string) *netceptor.Netceptor {
	n := netceptor.NewWithConsts(context.Background(), id, 16384, 10*time.Second, 0, time.Hour, 30, time.Hour)
	n.Logger.SetOutput(io.Discard)
	return n
}

func hasReject(s *memnet.Scripted) bool {
	for _, g := range s.Got() {
		if len(g.Data) > 0 && g.Data[0] == wire.TReject {
			return true
		}
	}
	return false
}

func connCost(st netceptor.Status, id string) (float64, bool) {
	for _, c := range st.Connections {
		if c.NodeID == id {
			return c.Cost, true
		}
	}
	return 0, false
}

// pollUntil polls cond every 20 ms for at most rounds rounds.
func pollUntil(rounds int, cond func() bool) bool {
	for i := 0; i < rounds; i++ {
		if cond() {
			return true
		}
		time.Sleep(20 * time.Millisecond)
	}
	return cond()
}

func runC11Case(run *ev.Run, c *c11Case) {
	const self = "n"
	n := c11Node(self)
	defer n.Shutdown()
	viol := func(key, what string, st *netceptor.Status, s *memnet.Scripted) {
		w := map[string]any{"case": c, "what": what}
		if st != nil {
			w["connections"] = st.Connections
			w["known_costs"] = st.KnownConnectionCosts
			w["routing_table"] = st.RoutingTable
		}
		if s != nil {
			w["session_closed_by_node"] = s.Closed()
			w["reject_message_received"] = hasReject(s)
		}
		run.Violation(key, "case "+c.label()+": "+what, w)
	}
	// a legitimate peer "q" is connected first (the target of the duplicate-id announcements)
	q := memnet.NewScripted("q")
	if err := n.AddBackend(memnet.NewOneShot(q), netceptor.BackendConnectionCost(1)); err != nil {
		run.Inconclusive("C11: " + err.Error())
		return
	}
	q.Deliver(wire.EncodeRoute(&wire.Route{NodeID: "q", UpdateID: fmt.Sprintf("q%d", c.Idx), UpdateEpoch: 3, UpdateSequence: 1, Connections: map[string]float64{self: 1}, ForwardingNode: "q"}), 10*time.Second)
	if !q.Barrier(10 * time.Second) {
		run.Inconclusive(fmt.Sprintf("C11 case %d: set-up session not processed", c.Idx))
		return
	}
	peer := "p"
	announced := peer
	switch c.ID {
	case "empty":
		announced = ""
	case "own":
		announced = self
	case "dup":
		announced = "q"
	}
	base := 2.0
	eff := base
	mods := []func(*netceptor.BackendInfo){netceptor.BackendConnectionCost(base)}
	if c.Override {
		// an override for the announced id (and an unrelated one)
		mods = append(mods, netceptor.BackendNodeCost(map[string]float64{announced: 5, "someoneelse": 9}))
		eff = 5
	}
	switch c.Allow {
	case "has":
		mods = append(mods, netceptor.BackendAllowedPeers([]string{"x1", announced, "x2"}))
	case "lacks":
		mods = append(mods, netceptor.BackendAllowedPeers([]string{"x1", "x2"}))
	}
	s := memnet.NewScripted("hostile")
	if err := n.AddBackend(memnet.NewOneShot(s), mods...); err != nil {
		run.Inconclusive("C11: " + err.Error())
		return
	}
	origin := announced
	if c.FwdNeOrg {
		origin = "elsewhere" // the handshake names another origin; the peer is identified by the forwarder field
	}
	seq := uint64(1)
	send := func(nodeID, fwd string, conns map[string]float64) bool {
		seq++
		ok := s.Deliver(wire.EncodeRoute(&wire.Route{NodeID: nodeID, UpdateID: fmt.Sprintf("c%d-%d", c.Idx, seq), UpdateEpoch: 4, UpdateSequence: seq, Connections: conns, ForwardingNode: fwd}), 5*time.Second)
		if ok {
			s.Barrier(5 * time.Second)
		}
		return ok
	}
	send(origin, announced, map[string]float64{self: eff})
	// rule evaluation on what was sent
	admissibleHS := c.ID == "good" && c.Allow != "lacks"
	st := n.Status()
	_, listed := connCost(st, announced)
	if c.ID == "dup" {
		// the id is already connected (legitimately, by q): the new session must be turned away and q must stay
		if !pollUntil(100, func() bool { return s.Closed() }) {
			viol("admit:duplicate-id", "a second session announcing an already connected id was not closed", &st, s)
		} else if !hasReject(s) {
			run.Count("reject_message_not_received", 1)
		}
		st = n.Status()
		if cst, ok := connCost(st, "q"); !ok || cst != 1 || q.Closed() {
			viol("duplicate-id:original-lost", "the original connection of the id was dropped or altered by the duplicate", &st, q)
		}
		run.Eval(1)
		run.Distinct("dup|" + c.Allow)
		return
	}
	if !admissibleHS {
		cls := c.ID
		if c.ID == "good" {
			cls = "not-on-allow-list"
		}
		if listed {
			viol("admit:"+cls, fmt.Sprintf("a session announcing id %q is listed as an established connection", announced), &st, s)
		}
		closed := pollUntil(100, func() bool { return s.Closed() })
		st = n.Status()
		if _, l2 := connCost(st, announced); l2 || !closed {
			if !listed {
				viol("admit:"+cls, fmt.Sprintf("a session announcing id %q stays connected (listed=%v, session closed by node=%v)", announced, l2, closed), &st, s)
			}
		} else if !hasReject(s) {
			run.Count("reject_message_not_received", 1)
		}
		// nothing may be left behind
		if announced != self {
			if _, ok := st.KnownConnectionCosts[self][announced]; ok {
				viol("leftover-edge:"+cls, "an edge to the rejected peer is left in the node's own adjacency", &st, s)
			}
			if _, ok := st.RoutingTable[announced]; ok && announced != "" {
				viol("leftover-route:"+cls, "a route to the rejected peer is left in the routing table", &st, s)
			}
		}
		// ... also after the session has ended
		s.Close()
		if !pollUntil(150, func() bool { _, l := connCost(n.Status(), announced); return !l }) {
			st = n.Status()
			viol("not-forgotten:"+cls, fmt.Sprintf("connection %q is still listed after its session ended", announced), &st, s)
		}
		run.Eval(1)
		run.Distinct("reject|" + cls + "|" + c.Allow + "|" + fmt.Sprint(c.Override))
		return
	}
	// admissible handshake: must be established with the effective cost
	if cst, ok := connCost(st, peer); !ok || cst != eff || s.Closed() {
		viol("control-refused:handshake", fmt.Sprintf("an admissible peer is not established with cost %v (listed=%v cost=%v closed=%v)", eff, ok, cst, s.Closed()), &st, s)
		run.Eval(1)
		return
	}
	// the peer's first own update states its cost for the link
	switch c.Cost {
	case "equal":
		send(peer, peer, map[string]float64{self: eff, "other": 3})
	case "diff":
		send(peer, peer, map[string]float64{self: eff + 1})
	case "missing":
		send(peer, peer, map[string]float64{"other": 3})
	}
	st = n.Status()
	_, listed = connCost(st, peer)
	disconnected := func(why, key string) {
		closed := pollUntil(100, func() bool { return s.Closed() })
		st = n.Status()
		if _, l := connCost(st, peer); l || !closed {
			viol("stays-connected:"+key, fmt.Sprintf("peer %s but is still connected (listed=%v, session closed by node=%v)", why, l, closed), &st, s)
			return
		}
		if !hasReject(s) {
			// the reject message is written by a separate goroutine and the session is closed right after:
			// whether it still gets out is not promised by the statement (counted, not judged)
			run.Count("reject_message_not_received", 1)
		}
		if _, ok := st.KnownConnectionCosts[self][peer]; ok {
			viol("leftover-edge:"+key, "an edge to the disconnected peer is left in the node's own adjacency", &st, s)
		}
		if _, ok := st.KnownConnectionCosts[peer][self]; ok {
			viol("leftover-edge:"+key, "the disconnected peer's edge to the node is left in the known costs", &st, s)
		}
		if !pollUntil(60, func() bool { _, ok := n.Status().RoutingTable[peer]; return !ok }) {
			st = n.Status()
			viol("leftover-route:"+key, "a route to the disconnected peer is left in the routing table", &st, s)
		}
	}
	switch c.Cost {
	case "diff":
		disconnected("announced a different cost for the link", "cost-disagreement")
		run.Eval(1)
		run.Distinct("cost-diff|" + fmt.Sprint(c.Override) + "|" + c.Allow)
		return
	case "missing":
		// a peer that never listed the node: the statement gives no rule; recorded, not judged
		run.Eval(1)
		run.Count("never-listed-peer_listed_"+fmt.Sprint(listed), 1)
		return
	}
	if !listed || s.Closed() {
		viol("control-refused:equal-cost", "an admissible peer with the same cost was disconnected", &st, s)
		run.Eval(1)
		return
	}
	// it must be routable
	if !pollUntil(100, func() bool { return n.Status().RoutingTable[peer] == peer }) {
		st = n.Status()
		viol("control-refused:no-route", "an established admissible peer never appears in the routing table", &st, s)
	}
	switch c.Later {
	case "consistent":
		send(peer, peer, map[string]float64{self: eff, "other": 4})
		send("far", peer, map[string]float64{peer: 1})
		st = n.Status()
		if _, l := connCost(st, peer); !l || s.Closed() {
			viol("control-refused:consistent", "a consistently behaving peer was disconnected", &st, s)
		}
	case "changeid":
		send("zz", "zz", map[string]float64{self: eff})
		disconnected("later spoke under a different id", "id-changed")
	case "dropnode":
		send(peer, peer, map[string]float64{"other": 3})
		disconnected("stopped listing the node as a neighbour", "stopped-listing")
	case "changecost":
		send(peer, peer, map[string]float64{self: eff + 2})
		disconnected("later announced a different cost", "cost-changed")
	case "sessionend":
		s.Close()
		if !pollUntil(150, func() bool { _, l := connCost(n.Status(), peer); return !l }) {
			st = n.Status()
			viol("not-forgotten:session-ended", "the connection is still listed after its session ended", &st, s)
		} else {
			st = n.Status()
			if _, ok := st.KnownConnectionCosts[self][peer]; ok {
				viol("leftover-edge:session-ended", "an edge to the peer is left after its session ended", &st, s)
			}
			if !pollUntil(60, func() bool { _, ok := n.Status().RoutingTable[peer]; return !ok }) {
				viol("leftover-route:session-ended", "a route to the peer is left after its session ended", &st, s)
			}
		}
	}
	run.Eval(1)
	run.Distinct("later|" + c.Later + "|" + fmt.Sprint(c.Override) + "|" + c.Allow + "|" + fmt.Sprint(c.FwdNeOrg))
}

// runC11Race: k sessions announce the same id at the same moment: exactly one may stay. One node serves several
// rounds, each with a fresh id and fresh sessions (the admission window is narrow: many rounds are needed).
func runC11Race(run *ev.Run, idx int, seed int64) {
	rng := rand.New(rand.NewSource(seed))
	n := c11Node("n")
	defer n.Shutdown()
	rounds := 10
	for round := 0; round < rounds; round++ {
		id := fmt.Sprintf("same%d", round)
		k := 2 + rng.Intn(7)
		ss := make([]*memnet.Scripted, k)
		for i := range ss {
			ss[i] = memnet.NewScripted(fmt.Sprintf("r%d-%d", round, i))
			if err := n.AddBackend(memnet.NewOneShot(ss[i]), netceptor.BackendConnectionCost(1)); err != nil {
				run.Inconclusive("C11 race: " + err.Error())
				return
			}
		}
		var wg sync.WaitGroup
		start := make(chan struct{})
		took := make([]time.Duration, k)
		t0 := time.Now()
		// two thirds of the races release all sessions from a spin barrier (no sleeping: the handshakes reach the
		// node's admission code within microseconds of each other), the rest are spread over 0-200 us
		spin := (idx+round)%3 != 0
		var arrived atomic.Int32
		for i := range ss {
			wg.Add(1)
			go func(i int, jit time.Duration) {
				defer wg.Done()
				<-start
				if spin {
					arrived.Add(1)
					for n := 0; arrived.Load() < int32(k); n++ {
						if n > 20000 {
							runtime.Gosched()
						}
					}
				} else {
					time.Sleep(jit)
				}
				took[i] = time.Since(t0)
				ss[i].Deliver(wire.EncodeRoute(&wire.Route{NodeID: id, UpdateID: fmt.Sprintf("r%d-%d-%d", idx, round, i), UpdateEpoch: 4, UpdateSequence: 1, Connections: map[string]float64{"n": 1}, ForwardingNode: id}), 5*time.Second)
				ss[i].Barrier(5 * time.Second)
			}(i, time.Duration(rng.Intn(200))*time.Microsecond)
		}
		close(start)
		wg.Wait()
		// all but one must be turned away (closed by the node, with a reject message)
		pollUntil(150, func() bool {
			open := 0
			for _, s := range ss {
				if !s.Closed() {
					open++
				}
			}
			return open <= 1
		})
		open, rejected := 0, 0
		for _, s := range ss {
			if !s.Closed() {
				open++
			} else if hasReject(s) {
				rejected++
			}
		}
		st := n.Status()
		_, listed := connCost(st, id)
		run.Eval(1)
		switch {
		case open > 1:
			run.Violation("race:two-established", fmt.Sprintf("race %d round %d: %d of %d simultaneous sessions announcing the same id stay open", idx, round, open, k), map[string]any{"k": k, "connections": st.Connections})
		case open == 0 || !listed:
			run.Violation("race:none-established", fmt.Sprintf("race %d round %d: none of %d simultaneous sessions with an admissible id ended up established (open=%d listed=%v)", idx, round, k, open, listed), map[string]any{"k": k, "connections": st.Connections})
		}
		run.Count("race_reject_messages_received", int64(rejected))
		// how close were the handshakes (measured)
		sort.Slice(took, func(a, b int) bool { return took[a] < took[b] })
		if k >= 2 && took[1]-took[0] < 500*time.Microsecond {
			run.Distinct(fmt.Sprintf("race|k=%d", k))
		}
		run.Count("race_sessions", int64(k))
		// the surviving session is ended before the next round
		for _, s := range ss {
			s.Close()
		}
	}
}

// runC11DupNodes: two real nodes with one ID, started >= 1.1 s apart, attached anywhere in a mesh.
func runC11DupNodes(run *ev.Run, idx int, seed int64) {
	rng := rand.New(rand.NewSource(seed))
	c := mesh.DefaultConsts()
	c.RouteUpdate = 300 * time.Millisecond
	c.Idle = time.Hour
	m := mesh.New(c, seed)
	defer m.Shutdown()
	nn := 3 + rng.Intn(3)
	ids := []string{}
	for i := 0; i < nn; i++ {
		id := fmt.Sprintf("k%d", i)
		ids = append(ids, id)
		m.AddNode(id)
		if i > 0 {
			m.Connect(id, ids[rng.Intn(i)], 1, false)
		}
	}
	first := m.NewInst("twin")
	defer first.Shutdown()
	at1 := ids[rng.Intn(nn)]
	m.ConnectForeign(first, "twin#1", at1, 1)
	time.Sleep(time.Duration(1200+rng.Intn(800)) * time.Millisecond)
	second := m.NewInst("twin")
	defer second.Shutdown()
	// The later node attaches to another node than the earlier one: a node that dials the very neighbour
	// the earlier twin is connected to is turned away at the handshake (one connection per id) and never
	// becomes part of the mesh at all.
	at2 := ids[rng.Intn(nn)]
	for at2 == at1 {
		at2 = ids[rng.Intn(nn)]
	}
	m.ConnectForeign(second, "twin#2", at2, 1)
	// bounded progress: up to 40 update periods
	ok := false
	for i := 0; i < 400; i++ {
		select {
		case <-second.NetceptorDone():
			ok = true
		default:
		}
		if ok {
			break
		}
		time.Sleep(c.RouteUpdate / 10)
	}
	run.Eval(1)
	w := map[string]any{"mesh_nodes": nn, "first_attached_to": at1, "second_attached_to": at2}
	firstDown := false
	select {
	case <-first.NetceptorDone():
		firstDown = true
	default:
	}
	switch {
	case firstDown:
		run.Violation("twins:earlier-shut-down", fmt.Sprintf("duplicate-id run %d: the node that started earlier shut itself down", idx), w)
		return
	case !ok:
		run.Violation("twins:later-keeps-running", fmt.Sprintf("duplicate-id run %d: the node that started later is still running after 40 update periods", idx), w)
		return
	}
	// the earlier one keeps working: reachable from a far node after convergence
	far := ids[0]
	reach := false
	for i := 0; i < 60 && !reach; i++ {
		ctx, cancel := context.WithTimeout(context.Background(), 2*time.Second)
		_, _, err := m.Node(far).Inst().Ping(ctx, "twin", 30)
		cancel()
		reach = err == nil
		if !reach {
			time.Sleep(c.RouteUpdate)
		}
	}
	select {
	case <-first.NetceptorDone():
		run.Violation("twins:earlier-shut-down", fmt.Sprintf("duplicate-id run %d: the node that started earlier shut itself down", idx), w)
		return
	default:
	}
	if !reach {
		run.Violation("twins:earlier-unreachable", fmt.Sprintf("duplicate-id run %d: after the later node shut down, the earlier one cannot be pinged from %s within 60 update periods", idx, far), w)
		return
	}
	run.Distinct(fmt.Sprintf("twins|%s-%s|n=%d", at1, at2, nn))
}

func runC11(tier string, args []string) {
	run := ev.New("C11", tier, "exploration")
	run.Rule("static product: allow-list {nil, contains, lacks} x per-node cost override x announced id {good, empty, own, already connected} x announced cost {equal, different, missing entry} x forwarder != origin x later behaviour {consistent, changes id, stops listing the node, changes cost, session ends}, each against a fresh real node with exact barriers; the harness evaluates the admission rules on the fields it sent and compares with Status(), the reject message and the session's fate. races: 1500 rounds (thorough 15000) of 2-8 sessions announcing one fresh id, two thirds released from a spin barrier (exactly one may stay). duplicate ids: two real nodes with one id started 1.2-2 s apart at random attachment points of 3-5-node meshes. distinct_nontrivial = distinct rule-exercising classes + races whose first two handshakes were < 0.5 ms apart + twin placements")
	run.Assume("a peer that never lists the node in its own updates (cost 'missing') is recorded, not judged: the statement only speaks of peers that stop listing it")
	cases := c11Product()
	reps := run.Pick(1, 6)
	nRaces := run.Pick(150, 1500)
	nTwins := run.Pick(2, 20)
	rng := rand.New(rand.NewSource(run.Seed*32452843 + 11))
	sem := make(chan struct{}, 16)
	var wg sync.WaitGroup
	for r := 0; r < reps; r++ {
		for _, c := range cases {
			wg.Add(1)
			sem <- struct{}{}
			go func(c *c11Case) {
				defer wg.Done()
				defer func() { <-sem }()
				runC11Case(run, c)
			}(c)
		}
	}
	for i := 0; i < nRaces; i++ {
		wg.Add(1)
		sem <- struct{}{}
		go func(i int, s int64) {
			defer wg.Done()
			defer func() { <-sem }()
			runC11Race(run, i, s)
		}(i, rng.Int63())
	}
	for i := 0; i < nTwins; i++ {
		wg.Add(1)
		go func(i int, s int64) {
			defer wg.Done()
			runC11DupNodes(run, i, s)
		}(i, rng.Int63())
	}
	wg.Wait()
	run.Exhaustive(false)
	run.Sample(map[string]any{"case": cases[7], "label": cases[7].label()})
	run.Sample(map[string]any{"case": cases[len(cases)-3], "label": cases[len(cases)-3].label()})
	run.Extra("static_cases", len(cases))
	_ = strings.TrimSpace
	collectRaces(run, workDir())
	run.Finish(run.Pick(25, 40))
}
