package main

import (
	"bytes"
	"fmt"
	"math/rand"
	"net"
	"os"
	"os/exec"
	"path/filepath"
	"sort"
	"strings"
	"sync"
	"sync/atomic"
	"time"

	"verif/harness/internal/ctl"
	"verif/harness/internal/ev"
)

// C13 — work units only move forward; release removes them; unit IDs are unique.
//
// Concurrent clients issue seeded command sequences against a real daemon pair. Three oracles:
// (1) offline checker over the status-write observer log (every status rewrite of daemon and
// runner processes, logged under the file lock by the verif hook): stage never decreases, a
// Succeeded record is never changed, size never shrinks while running; (2) client-side
// histories ordered by a global logical clock; (3) /proc and directory observations after
// `cancelled` / `released` replies, uniqueness of acknowledged ids and of each unit's stdin.

func init() { register("C13", runC13) }

func c13Stage(state int) int {
	switch {
	case state <= 0:
		return 0
	case state == 1:
		return 1
	default:
		return 2
	}
}

type c13Unit struct {
	N        int
	Kind     string
	Remote   bool
	Spec     GenSpec
	Payload  []byte
	ID       string
	PidFile  string
	mu       sync.Mutex
	released bool  // a `released` reply was received and the files were seen gone
	relPending bool
	relSeq   int64 // logical time of that reply
	cancSeq  int64 // logical time of a `cancelled` reply (0 = none)
	subDone  int64 // logical time at which the submit exchange finished
}

type c13Obs struct {
	Call, Ret int64
	Unit      string
	State     int
	Size      int64
	Detail    string
	Via       string
}

type c13Hist struct {
	idx     int
	ignoreInt   bool // daemons started with SIGINT ignored (nohup / background-job disposition)
	cancelEarly bool // many cancels right after the submit
	dir     string
	run     *ev.Run
	L, R    *ctl.Daemon
	clock   atomic.Int64
	mu      sync.Mutex
	units   []*c13Unit
	obs     []c13Obs
	acks    map[string]int // id -> number of acknowledgements
	sleeps  string
	ops     map[string]int
	notes   []string
	stLog   string
	restart bool
}

func (h *c13Hist) tick() int64 { return h.clock.Add(1) }

func (h *c13Hist) viol(key, what string, extra map[string]any) {
	w := map[string]any{"history": h.idx, "injected_delays": h.sleeps, "what": what}
	for k, v := range extra {
		w[k] = v
	}
	keep := filepath.Join(ev.Root(), ".work", "replay", fmt.Sprintf("C13-artifacts-seed%d-hist%d", h.run.Seed, h.idx))
	if _, err := os.Stat(keep); err != nil {
		_ = os.MkdirAll(keep, 0o755)
		_ = exec.Command("cp", "-a", h.stLog, keep).Run()
		_ = exec.Command("cp", "-a", h.L.OutFile(), keep).Run()
	}
	w["artifacts"] = keep
	h.run.Violation(key, fmt.Sprintf("history %d (delays %q): %s", h.idx, h.sleeps, what), w)
}

var c13Kinds = []string{"instant", "long", "failing", "empty", "remote-instant", "remote-long", "long", "instant"}

func (h *c13Hist) newUnit(rng *rand.Rand) *c13Unit {
	h.mu.Lock()
	n := len(h.units)
	u := &c13Unit{N: n}
	h.units = append(h.units, u)
	h.mu.Unlock()
	u.Kind = c13Kinds[rng.Intn(len(c13Kinds))]
	u.Remote = strings.HasPrefix(u.Kind, "remote")
	u.PidFile = filepath.Join(h.dir, "pids", fmt.Sprintf("u%d.pid", n))
	u.Spec = GenSpec{Seed: uint64(rng.Int63()) | 1, PidFile: u.PidFile, Pad: fmt.Sprintf("unit-%d-%d-%s", h.idx, n, strings.Repeat("x", rng.Intn(200)))}
	switch u.Kind {
	case "instant", "remote-instant":
		u.Spec.Chunks = []GenChunk{{N: 1 + rng.Intn(3000)}}
	case "failing":
		u.Spec.Chunks = []GenChunk{{N: 1 + rng.Intn(300)}}
		u.Spec.Exit = 1 + rng.Intn(3)
	case "empty":
	case "endless":
		// runs for 20 minutes unless it is stopped: a cancel cannot be mistaken for the job ending by itself
		for i := 0; i < 2400; i++ {
			u.Spec.Chunks = append(u.Spec.Chunks, GenChunk{N: 10, PauseMs: 500})
		}
	case "stubborn":
		// a long-running command that ignores SIGINT: cancelling it needs the runner's escalation to SIGKILL
		u.Spec.IgnoreInt = true
		for i := 0; i < 1200; i++ {
			u.Spec.Chunks = append(u.Spec.Chunks, GenChunk{N: 10, PauseMs: 500})
		}
	default: // long
		k := 3 + rng.Intn(5)
		for i := 0; i < k; i++ {
			u.Spec.Chunks = append(u.Spec.Chunks, GenChunk{N: 1 + rng.Intn(4000), PauseMs: 200 + rng.Intn(400)})
		}
	}
	u.Payload = mustJSON(u.Spec)
	return u
}

func (h *c13Hist) record(o c13Obs) {
	h.mu.Lock()
	h.obs = append(h.obs, o)
	h.mu.Unlock()
}

func (h *c13Hist) count(op string) {
	h.mu.Lock()
	h.ops[op]++
	h.mu.Unlock()
}

func (h *c13Hist) submit(u *c13Unit) {
	c, err := ctl.DialUnix(h.L.Sock(), 5*time.Second)
	if err != nil {
		return
	}
	defer c.Close()
	node := "l"
	if u.Remote {
		node = "r"
	}
	r := c.Submit(fmt.Sprintf("work submit %s gen", node), u.Payload, 20*time.Second)
	if r.UnitID != "" {
		u.mu.Lock()
		u.ID = r.UnitID
		if r.Err == nil && strings.HasPrefix(r.Final, "{") {
			u.subDone = h.tick() // the whole exchange completed: the payload is stored
		}
		u.mu.Unlock()
		h.mu.Lock()
		h.acks[r.UnitID]++
		h.mu.Unlock()
	}
	h.count("submit:" + u.Kind)
}

func (h *c13Hist) pickUnit(rng *rand.Rand) *c13Unit {
	h.mu.Lock()
	defer h.mu.Unlock()
	cands := []*c13Unit{}
	for _, u := range h.units {
		u.mu.Lock()
		if u.ID != "" {
			cands = append(cands, u)
		}
		u.mu.Unlock()
	}
	if len(cands) == 0 {
		return nil
	}
	return cands[rng.Intn(len(cands))]
}

func (h *c13Hist) statusOp(u *c13Unit) {
	call := h.tick()
	st, raw, err := unitStatus(h.L, u.ID, 15*time.Second)
	ret := h.tick()
	h.count("status")
	if err != nil || st == nil {
		// an ERROR for a released / unknown unit is legitimate; a released unit that is still known is checked below
		_ = raw
		return
	}
	u.mu.Lock()
	rel, relSeq := u.released, u.relSeq
	u.mu.Unlock()
	if rel && call > relSeq {
		h.viol("release:still-known", fmt.Sprintf("unit %s (%s) answered `work status` with state %d after its release had been acknowledged", u.ID, u.Kind, st.State), map[string]any{"status": raw})
		return
	}
	h.record(c13Obs{Call: call, Ret: ret, Unit: u.ID, State: st.State, Size: st.StdoutSize, Detail: st.Detail, Via: "status"})
}

func (h *c13Hist) listOp() {
	call := h.tick()
	m, _, err := listUnits(h.L, 15*time.Second)
	ret := h.tick()
	h.count("list")
	if err != nil {
		return
	}
	h.mu.Lock()
	us := append([]*c13Unit(nil), h.units...)
	h.mu.Unlock()
	for _, u := range us {
		u.mu.Lock()
		id, rel, relSeq := u.ID, u.released, u.relSeq
		u.mu.Unlock()
		if id == "" {
			continue
		}
		st := m[id]
		if st == nil {
			continue
		}
		if rel && call > relSeq {
			h.viol("release:still-known", fmt.Sprintf("unit %s (%s) is still in `work list` (state %d) after its release had been acknowledged", id, u.Kind, st.State), nil)
			continue
		}
		h.record(c13Obs{Call: call, Ret: ret, Unit: id, State: st.State, Size: st.StdoutSize, Detail: st.Detail, Via: "list"})
	}
}

func readPid(path string) int {
	b, err := os.ReadFile(path)
	if err != nil {
		return 0
	}
	pid := 0
	fmt.Sscan(string(b), &pid)
	return pid
}

func (h *c13Hist) cancelOp(u *c13Unit) {
	u.mu.Lock()
	started := u.subDone != 0
	u.mu.Unlock()
	reply, err := ctlLine(h.L, "work cancel "+u.ID, 180*time.Second)
	h.count("cancel")
	if err != nil && !u.Remote && h.L.Alive() && strings.Contains(err.Error(), "timeout") {
		// receptor escalates to SIGKILL 10 s after the interrupt, so a cancel of a local unit that is still
		// unanswered after 3 minutes while the unit's process lives did not stop it
		pid := readPid(u.PidFile)
		runners := runnerPids(filepath.Join(h.L.DataDir(), u.ID))
		if (pid > 0 && ctl.PidAlive(pid)) || len(runners) > 0 {
			cls := "running"
			if !started {
				cls = "during-submit"
			}
			h.viol("cancel:no-reply-process-alive:"+cls, fmt.Sprintf("`work cancel %s` (%s, daemon started with SIGINT ignored: %v) got no reply within 3 minutes and the unit's process is still alive (producer pid %d, runner pids %v)", u.ID, u.Kind, h.L.IgnoreSIGINT, pid, runners), nil)
		}
		return
	}
	if err != nil || !strings.Contains(reply, `"cancelled"`) {
		return
	}
	seq := h.tick()
	u.mu.Lock()
	if u.cancSeq == 0 {
		u.cancSeq = seq
	}
	u.mu.Unlock()
	if !started {
		h.count("cancel-during-submit")
	}
	// Cancelling stops the unit's process: the producer (pid file) and the runner must be gone
	// within a bounded wait (receptor itself escalates to SIGKILL after 10 s).
	deadline := time.Now().Add(25 * time.Second)
	for {
		pid := readPid(u.PidFile)
		alive := pid > 0 && ctl.PidAlive(pid)
		var runners []int
		if !u.Remote {
			runners = runnerPids(filepath.Join(h.L.DataDir(), u.ID))
		}
		if !alive && len(runners) == 0 {
			// the producer may not have started yet (pid file absent): look again a little later
			if pid == 0 {
				time.Sleep(1500 * time.Millisecond)
				pid = readPid(u.PidFile)
				if pid > 0 && ctl.PidAlive(pid) {
					continue
				}
			}
			return
		}
		if time.Now().After(deadline) {
			cls := "running"
			if !started {
				cls = "during-submit"
			}
			h.viol("cancel:process-alive:"+cls, fmt.Sprintf("unit %s (%s) was acknowledged as cancelled (%s) but its process is still alive 25 s later (producer pid %d alive=%v, runner pids %v)", u.ID, u.Kind, strings.TrimSpace(reply), pid, alive, runners), nil)
			return
		}
		time.Sleep(200 * time.Millisecond)
	}
}

func (h *c13Hist) releaseOp(u *c13Unit, force bool) {
	cmd := "release"
	if force {
		cmd = "force-release"
	}
	reply, err := ctlLine(h.L, "work "+cmd+" "+u.ID, 60*time.Second)
	h.count(cmd)
	if err != nil || !strings.Contains(reply, `"released"`) {
		return
	}
	u.mu.Lock()
	first := !u.released && !u.relPending
	u.relPending = true
	u.mu.Unlock()
	if !first {
		return
	}
	// A successful release removes the unit and its files. For a local unit this has happened when
	// the reply is sent; for a started remote unit receptor replies once the remote side accepted the
	// release and removes the local files when the remote unit is gone, so a bounded wait is allowed.
	dir := filepath.Join(h.L.DataDir(), u.ID)
	rounds := 25
	if u.Remote {
		rounds = 450
	}
	gone := false
	for i := 0; i < rounds; i++ {
		if _, err := os.Stat(dir); os.IsNotExist(err) {
			gone = true
			break
		}
		time.Sleep(200 * time.Millisecond)
	}
	if !gone {
		ents, _ := os.ReadDir(dir)
		names := []string{}
		for _, e := range ents {
			names = append(names, e.Name())
		}
		kind := "local"
		if u.Remote {
			kind = "remote"
		}
		h.viol("release:dir-remains:"+cmd+":"+kind, fmt.Sprintf("unit %s (%s) was acknowledged as released (%s) but its directory still exists %d s later with %v", u.ID, u.Kind, strings.TrimSpace(reply), rounds/5, names), nil)
		return
	}
	if u.Remote {
		// the in-memory entry of an asynchronously released remote unit goes right after its files
		stillListed := true
		for i := 0; i < 100 && stillListed; i++ {
			if m, _, err := listUnits(h.L, 15*time.Second); err == nil && m[u.ID] == nil {
				stillListed = false
			} else {
				time.Sleep(100 * time.Millisecond)
			}
		}
		if stillListed {
			h.viol("release:still-listed:"+cmd+":remote", fmt.Sprintf("unit %s (%s) was acknowledged as released and its directory is gone, but it is still listed 10 s later", u.ID, u.Kind), nil)
			return
		}
	}
	// from here on the unit must be unknown
	u.mu.Lock()
	u.released = true
	u.relSeq = h.tick()
	u.mu.Unlock()
}

func (h *c13Hist) resultsOp(u *c13Unit, rng *rand.Rand) {
	c, err := ctl.DialUnix(h.L.Sock(), 5*time.Second)
	if err != nil {
		return
	}
	defer c.Close()
	h.count("results")
	first, err := c.ResultsStart(fmt.Sprintf("work results %s %d", u.ID, rng.Intn(50)), 10*time.Second)
	if err != nil || !strings.HasPrefix(first, "Streaming") {
		return
	}
	_ = c.C.SetReadDeadline(time.Now().Add(time.Duration(200+rng.Intn(800)) * time.Millisecond))
	buf := make([]byte, 4096)
	for {
		if _, err := c.R.Read(buf); err != nil {
			return
		}
	}
}

func (h *c13Hist) client(ci int, seed int64, nops int, burst *sync.WaitGroup, burstAt int) {
	rng := rand.New(rand.NewSource(seed))
	for i := 0; i < nops; i++ {
		if !h.L.Alive() {
			time.Sleep(300 * time.Millisecond)
		}
		if i == burstAt {
			// all clients submit at the same moment
			u := h.newUnit(rng)
			burst.Done()
			burst.Wait()
			h.submit(u)
			h.count("burst-submit")
			continue
		}
		r := rng.Intn(100)
		switch {
		case r < 22 || i < 2:
			u := h.newUnit(rng)
			if rng.Intn(6) == 0 {
				// cancel (from another session) while the submit exchange is still in progress
				done := make(chan struct{})
				go func() { h.submitSlow(u, rng.Int63()); close(done) }()
				for k := 0; k < 100; k++ {
					u.mu.Lock()
					id := u.ID
					u.mu.Unlock()
					if id != "" {
						h.cancelOp(u)
						break
					}
					time.Sleep(10 * time.Millisecond)
				}
				<-done
			} else if rng.Intn(8) == 0 {
				h.submitAbort(u, rng.Int63())
			} else if rng.Intn(6) == 0 || (h.cancelEarly && rng.Intn(2) == 0) {
				// cancel at once: the command runner has only just been launched
				if h.cancelEarly {
					u.Kind, u.Remote = "endless", false
					u.Spec.Chunks = nil
					for k := 0; k < 2400; k++ {
						u.Spec.Chunks = append(u.Spec.Chunks, GenChunk{N: 10, PauseMs: 500})
					}
					u.Spec.Exit = 0
					u.Payload = mustJSON(u.Spec)
				}
				h.submit(u)
				if u.ID != "" {
					time.Sleep(time.Duration(rng.Intn(40)) * time.Millisecond)
					h.count("cancel-right-after-submit")
					h.cancelOp(u)
				}
			} else {
				h.submit(u)
			}
		case r < 45:
			if u := h.pickUnit(rng); u != nil {
				h.statusOp(u)
			}
		case r < 55:
			h.listOp()
		case r < 70:
			if u := h.pickUnit(rng); u != nil {
				h.cancelOp(u)
			}
		case r < 80:
			if u := h.pickUnit(rng); u != nil {
				h.releaseOp(u, false)
			}
		case r < 86:
			if u := h.pickUnit(rng); u != nil {
				h.releaseOp(u, true)
			}
		case r < 93:
			if u := h.pickUnit(rng); u != nil {
				h.resultsOp(u, rng)
			}
		default:
			// unknown unit ids
			id := fmt.Sprintf("nope%04d", rng.Intn(10000))
			for _, cmd := range []string{"status", "cancel", "release"} {
				if l, err := ctlLine(h.L, "work "+cmd+" "+id, 15*time.Second); err == nil && !strings.HasPrefix(l, "ERROR") {
					h.viol("unknown-unit-accepted:"+cmd, fmt.Sprintf("`work %s %s` for a unit that never existed answered %q", cmd, id, l), nil)
				}
			}
			h.count("unknown-id")
		}
		time.Sleep(time.Duration(rng.Intn(250)) * time.Millisecond)
	}
}

// submitSlow performs a submit whose payload is sent only after a pause, so that the unit id is
// known (acknowledged) while the unit has not been started yet.
func (h *c13Hist) submitSlow(u *c13Unit, seed int64) {
	c, err := ctl.DialUnix(h.L.Sock(), 5*time.Second)
	if err != nil {
		return
	}
	defer c.Close()
	node := "l"
	if u.Remote {
		node = "r"
	}
	ack, err := c.Line(fmt.Sprintf("work submit %s gen", node), 15*time.Second)
	if err != nil {
		return
	}
	var id string
	if _, err := fmt.Sscanf(ack, "Work unit created with ID %s", &id); err != nil {
		return
	}
	id = strings.TrimSuffix(id, ".")
	u.mu.Lock()
	u.ID = id
	u.mu.Unlock()
	h.mu.Lock()
	h.acks[id]++
	h.mu.Unlock()
	time.Sleep(time.Duration(300+rand.New(rand.NewSource(seed)).Intn(500)) * time.Millisecond)
	_ = c.Send(u.Payload, 10*time.Second)
	_ = c.HalfClose()
	fin, ferr := c.ReadLine(20 * time.Second)
	if ferr == nil && strings.HasPrefix(fin, "{") {
		u.mu.Lock()
		u.subDone = h.tick()
		u.mu.Unlock()
	}
	h.count("submit-slow:" + u.Kind)
}

// submitAbort starts a submit and breaks the connection during the stdin phase in a way the daemon sees as an
// error, not as the end of the input: the client closes its unix socket while the acknowledgement line is still
// unread in its receive queue, so the daemon's next read fails with ECONNRESET. The unit must end Failed and
// must never be started (observed through the status-write log, which covers units the harness has no id for).
func (h *c13Hist) submitAbort(u *c13Unit, seed int64) {
	rng := rand.New(rand.NewSource(seed))
	c, err := net.DialTimeout("unix", h.L.Sock(), 5*time.Second)
	if err != nil {
		return
	}
	node := "l"
	if u.Remote {
		node = "r"
	}
	// the greeting line is read, the acknowledgement is not
	_ = c.SetDeadline(time.Now().Add(10 * time.Second))
	buf := make([]byte, 512)
	_, _ = c.Read(buf)
	part := u.Payload
	if len(part) > 1 {
		part = part[:1+rng.Intn(len(part)-1)]
	}
	_, _ = c.Write([]byte(fmt.Sprintf("work submit %s gen\n", node)))
	_, _ = c.Write(part)
	time.Sleep(time.Duration(20+rng.Intn(200)) * time.Millisecond)
	_ = c.Close()
	h.count("submit-aborted-with-reset:" + u.Kind)
}

// Delay configurations that widen the race windows between the daemon's and the runner's
// status writes (sleeps sit between critical sections, never inside the status-file lock).
var c13Delays = []string{
	"",
	"runner:runner.after_final=sleep(400)",
	"runner:runner.before_final=sleep(400)",
	"daemon:cancel.before_write=sleep(400)",
	"daemon:cancel.signalled=sleep(300)",
	"runner:runner.term_received=sleep(300)",
	"runner:runner.term_killed=sleep(300)",
	"daemon:daemon.runner_started=sleep(200)",
	"daemon:submit.before_start=sleep(200)",
	"runner:runner.init=sleep(300)",
	"daemon:release.before_remove=sleep(300)",
	"daemon:release.removed=sleep(300)",
	"runner:runner.cmd_started=sleep(300);daemon:cancel.before_write=sleep(200)",
	"daemon:restart.incomplete=sleep(500)",
}

func (h *c13Hist) execute(seed int64, nclients, nops int) {
	run := h.run
	rng := rand.New(rand.NewSource(seed))
	_ = os.MkdirAll(filepath.Join(h.dir, "pids"), 0o755)
	h.stLog = filepath.Join(h.dir, "status.log")
	genw := []ctl.WorkCmd{genWork()}
	env := []string{"VERIF_STATUS_LOG=" + h.stLog}
	if h.sleeps != "" {
		env = append(env, "VERIF_POINTS="+h.sleeps)
	}
	h.R = ctl.NewDaemon(ctl.Cfg{ID: "r", Dir: filepath.Join(h.dir, "r"), Listen: true, Work: genw, IgnoreSIGINT: h.ignoreInt, Env: []string{"VERIF_STATUS_LOG=" + filepath.Join(h.dir, "status-r.log")}})
	if err := h.R.Start(); err != nil {
		run.Inconclusive(fmt.Sprintf("C13 history %d: remote daemon did not start: %v", h.idx, err))
		return
	}
	defer h.R.Kill()
	h.L = ctl.NewDaemon(ctl.Cfg{ID: "l", Dir: filepath.Join(h.dir, "l"), Peers: []string{fmt.Sprintf("127.0.0.1:%d", h.R.ListenPort)}, Work: genw, IgnoreSIGINT: h.ignoreInt, Env: env})
	if err := h.L.Start(); err != nil {
		run.Inconclusive(fmt.Sprintf("C13 history %d: daemon did not start: %v", h.idx, err))
		return
	}
	defer func() { h.L.Kill(); ctl.KillStrays(h.dir) }()
	if !waitRoute(h.L, []string{"r"}, 40*time.Second) {
		run.Inconclusive(fmt.Sprintf("C13 history %d: mesh did not form", h.idx))
		return
	}
	var burst sync.WaitGroup
	burst.Add(nclients)
	burstAt := 2 + rng.Intn(nops-2)
	var wg sync.WaitGroup
	for ci := 0; ci < nclients; ci++ {
		wg.Add(1)
		go func(ci int, s int64) {
			defer wg.Done()
			h.client(ci, s, nops, &burst, burstAt)
		}(ci, rng.Int63())
	}
	if h.restart {
		// restart of the daemon mid-history (SIGKILL + start on the same directory)
		time.Sleep(time.Duration(1500+rng.Intn(2500)) * time.Millisecond)
		h.L.Kill()
		if err := h.L.Start(); err != nil {
			run.Inconclusive(fmt.Sprintf("C13 history %d: restart failed: %v", h.idx, err))
		}
		h.count("daemon-restart")
	}
	wg.Wait()
	if h.L.Alive() {
		// a command that ignores SIGINT is cancelled while the release race runs
		var sw sync.WaitGroup
		sw.Add(1)
		su := h.newUnit(rng)
		go func() {
			defer sw.Done()
			su.Kind = "stubborn"
			su.Remote = false
			su.Spec.IgnoreInt = true
			su.Spec.Exit = 0
			su.Spec.Chunks = nil
			for i := 0; i < 1200; i++ { // runs for ten minutes unless it is stopped
				su.Spec.Chunks = append(su.Spec.Chunks, GenChunk{N: 10, PauseMs: 500})
			}
			su.Payload = mustJSON(su.Spec)
			h.submit(su)
			if su.ID == "" {
				return
			}
			for i := 0; i < 100; i++ {
				if st, _, err := unitStatus(h.L, su.ID, 10*time.Second); err == nil && st != nil && st.State == 1 && readPid(su.PidFile) > 0 {
					break
				}
				time.Sleep(100 * time.Millisecond)
			}
			h.cancelOp(su)
			h.count("cancel-stubborn-command")
		}()
		h.releaseRace(rng)
		sw.Wait()
	}
	if !h.L.Alive() {
		fatal, top, _ := h.L.Fatal()
		h.viol("daemon-died", "daemon exited during the history: "+fatal+" at "+top, map[string]any{"tail": h.L.OutTail(2000)})
		return
	}
	// settle: every unit that is still known becomes final (bounded number of poll rounds)
	for round := 0; round < 100; round++ {
		m, _, err := listUnits(h.L, 15*time.Second)
		if err == nil {
			pending := 0
			for _, st := range m {
				if !ctl.Final(st.State) {
					pending++
				}
			}
			if pending == 0 {
				break
			}
		}
		h.listOp()
		time.Sleep(300 * time.Millisecond)
	}
	h.listOp()
	// released units stay gone across a restart
	h.L.Kill()
	if err := h.L.Start(); err == nil {
		m, _, err := listUnits(h.L, 20*time.Second)
		if err == nil {
			for _, u := range h.units {
				if u.released && m[u.ID] != nil {
					h.viol("release:reappeared", fmt.Sprintf("unit %s (%s) was acknowledged as released but is listed again (state %d) after a daemon restart", u.ID, u.Kind, m[u.ID].State), nil)
				}
			}
		}
	}
	h.check()
}

// releaseRace: a unit is released while other sessions keep asking for it; the unit directory is
// padded with files (behind the daemon's back) so that its removal takes a little while. Once the
// release has been acknowledged the unit must be unknown, and stay unknown.
func (h *c13Hist) releaseRace(rng *rand.Rand) {
	for round := 0; round < 2; round++ {
		u := h.newUnit(rng)
		u.Kind = "instant"
		u.Remote = false
		u.Spec.Chunks = []GenChunk{{N: 100}}
		u.Spec.Exit = 0
		u.Payload = mustJSON(u.Spec)
		h.submit(u)
		if u.ID == "" {
			return
		}
		for i := 0; i < 100; i++ {
			if st, _, err := unitStatus(h.L, u.ID, 10*time.Second); err == nil && st != nil && ctl.Final(st.State) {
				break
			}
			time.Sleep(100 * time.Millisecond)
		}
		dir := filepath.Join(h.L.DataDir(), u.ID)
		for i := 0; i < 400; i++ {
			_ = os.WriteFile(filepath.Join(dir, fmt.Sprintf("pad%03d", i)), []byte("x"), 0o600)
		}
		stop := make(chan struct{})
		var pw sync.WaitGroup
		for p := 0; p < 4; p++ {
			pw.Add(1)
			go func(p int) {
				defer pw.Done()
				for {
					select {
					case <-stop:
						return
					default:
					}
					if p%2 == 0 {
						_, _ = ctlLine(h.L, "work status "+u.ID, 10*time.Second)
					} else {
						_, _ = ctlLine(h.L, "work list "+u.ID, 10*time.Second)
					}
				}
			}(p)
		}
		time.Sleep(30 * time.Millisecond)
		reply, err := ctlLine(h.L, "work release "+u.ID, 60*time.Second)
		time.Sleep(100 * time.Millisecond)
		close(stop)
		pw.Wait()
		h.count("release-under-queries")
		if err != nil || !strings.Contains(reply, `"released"`) {
			continue
		}
		// acknowledged: from now on the unit must be unknown (checked three times, half a second apart)
		for k := 0; k < 3; k++ {
			if l, err := ctlLine(h.L, "work status "+u.ID, 15*time.Second); err == nil && !strings.HasPrefix(l, "ERROR") {
				h.viol("release:still-known:under-queries", fmt.Sprintf("unit %s was acknowledged as released while other sessions were asking for it; %d ms later `work status` still answers %s", u.ID, k*500, trunc200(l)), nil)
				break
			}
			if m, _, err := listUnits(h.L, 15*time.Second); err == nil && m[u.ID] != nil {
				h.viol("release:still-known:under-queries", fmt.Sprintf("unit %s was acknowledged as released while other sessions were asking for it; %d ms later it is still in `work list`", u.ID, k*500), nil)
				break
			}
			time.Sleep(500 * time.Millisecond)
		}
		u.mu.Lock()
		u.released = true
		u.relSeq = h.tick()
		u.mu.Unlock()
	}
}

func (h *c13Hist) check() {
	run := h.run
	// ---- ids and inputs
	for id, n := range h.acks {
		if n > 1 {
			h.viol("id:duplicate-ack", fmt.Sprintf("unit id %s was acknowledged to %d different submitters", id, n), nil)
		}
	}
	stdinChecked := 0
	for _, u := range h.units {
		if u.ID == "" || u.released || u.subDone == 0 {
			continue
		}
		b, err := os.ReadFile(filepath.Join(h.L.DataDir(), u.ID, "stdin"))
		if err != nil {
			continue
		}
		stdinChecked++
		if !bytes.Equal(b, u.Payload) {
			h.viol("id:stdin-mismatch", fmt.Sprintf("stdin of unit %s (%s) holds %d bytes that are not its submitter's payload (%d bytes): two units shared a directory?", u.ID, u.Kind, len(b), len(u.Payload)), map[string]any{"stdin_head": trunc200(string(b)), "payload_head": trunc200(string(u.Payload))})
		}
	}
	run.Count("stdin_files_checked", int64(stdinChecked))
	// ---- client-side histories: for observations A entirely before B on the same unit
	byUnit := map[string][]c13Obs{}
	for _, o := range h.obs {
		byUnit[o.Unit] = append(byUnit[o.Unit], o)
	}
	for id, os_ := range byUnit {
		sort.Slice(os_, func(i, j int) bool { return os_[i].Ret < os_[j].Ret })
		// running maxima over observations that returned before B was called
		for j, b := range os_ {
			for i := 0; i < j; i++ {
				a := os_[i]
				if a.Ret >= b.Call {
					continue
				}
				if c13Stage(b.State) < c13Stage(a.State) && a.State == 3 && a.Detail == "Pending at restart" {
					h.viol("log:stage-regress:failed-at-restart-then-runner", fmt.Sprintf("unit %s was reported in state %d (%q) and later in state %d (%q)", id, a.State, a.Detail, b.State, b.Detail), map[string]any{"earlier": a, "later": b})
				} else if c13Stage(b.State) < c13Stage(a.State) && a.State == 3 && a.Detail == "Locally Cancelled" {
					// the same defect as seen in the status-write log (one key for one defect)
					h.viol("log:stage-regress:cancel-during-submit-remote", fmt.Sprintf("unit %s was reported in state %d (%q) and later in state %d (%q)", id, a.State, a.Detail, b.State, b.Detail), map[string]any{"earlier": a, "later": b})
				} else if c13Stage(b.State) < c13Stage(a.State) {
					h.viol("api:stage-regress", fmt.Sprintf("unit %s was reported in state %d (%q) and later in state %d (%q)", id, a.State, a.Detail, b.State, b.Detail), map[string]any{"earlier": a, "later": b})
				} else if a.State == 2 && (b.State != 2 || b.Size != a.Size) {
					h.viol("api:succeeded-changed", fmt.Sprintf("unit %s was reported Succeeded with size %d and later state %d size %d (%q)", id, a.Size, b.State, b.Size, b.Detail), map[string]any{"earlier": a, "later": b})
				} else if a.State == 1 && b.State == 1 && b.Size < a.Size {
					h.viol("api:size-shrank", fmt.Sprintf("unit %s was reported running with size %d and later with size %d", id, a.Size, b.Size), map[string]any{"earlier": a, "later": b})
				}
			}
		}
	}
	run.Count("client_observations", int64(len(h.obs)))
	// ---- status-write observer log (both processes; ordered per file by the file lock)
	ws := append(readStatusLog(h.stLog), readStatusLog(filepath.Join(h.dir, "status-r.log"))...)
	perFile := map[string][]statusWrite{}
	for _, w := range ws {
		perFile[w.File] = append(perFile[w.File], w)
	}
	overlap := 0
	for file, l := range perFile {
		roles := map[string]bool{}
		cancelSeen := false
		for _, w := range l {
			roles[w.Role] = true
			run.Count("status_writes_"+w.Role+"_"+w.Op, 1)
			if w.NewState == 4 {
				cancelSeen = true
			}
			if w.Op != "update" || !w.HadOld {
				continue
			}
			unit := filepath.Base(filepath.Dir(file))
			tr := fmt.Sprintf("%d->%d", w.OldState, w.NewState)
			run.SetAdd("status_transitions", tr)
			switch {
			case c13Stage(w.NewState) < c13Stage(w.OldState):
				cls := "other"
				if w.OldState == 3 && strings.Contains(w.OldDetail, "Pending at restart") {
					cls = "failed-at-restart-then-runner"
				} else if w.OldState == 3 && w.OldDetail == "Locally Cancelled" && w.NewState == 0 {
					cls = "cancel-during-submit-remote"
				} else if w.OldState == 4 {
					cls = "cancelled-then-" + w.Role
				} else if w.OldState == 3 {
					cls = "failed-then-" + w.Role
				}
				h.viol("log:stage-regress:"+cls, fmt.Sprintf("status of unit %s was rewritten by the %s from state %d (%q) to state %d (%q)", unit, w.Role, w.OldState, w.OldDetail, w.NewState, w.NewDetail), map[string]any{"write": w})
			case w.OldState == 2 && (w.NewState != 2 || w.NewSize != w.OldSize):
				cls := "other"
				if w.NewState == 4 {
					cls = "cancel-after-success"
				}
				h.viol("log:succeeded-changed:"+cls, fmt.Sprintf("status of unit %s was Succeeded (size %d) and was rewritten by the %s to state %d size %d (%q)", unit, w.OldSize, w.Role, w.NewState, w.NewSize, w.NewDetail), map[string]any{"write": w})
			case w.OldState == 1 && w.NewState == 1 && w.NewSize < w.OldSize:
				h.viol("log:size-shrank", fmt.Sprintf("status of unit %s: recorded size went from %d to %d while running (%s)", unit, w.OldSize, w.NewSize, w.Role), map[string]any{"write": w})
			}
		}
		if roles["daemon"] && roles["runner"] && cancelSeen {
			overlap++
		}
	}
	run.Count("status_writes_observed", int64(len(ws)))
	if overlap > 0 {
		run.Distinct(fmt.Sprintf("hist%d|%s|restart=%v|overlaps=%d", h.idx, h.sleeps, h.restart, overlap))
	}
	run.Count("units_with_cancel_overlapping_runner_writes", int64(overlap))
	h.mu.Lock()
	for k, v := range h.ops {
		run.Count("op_"+k, int64(v))
	}
	h.mu.Unlock()
}

func runC13(tier string, args []string) {
	run := ev.New("C13", tier, "exploration")
	run.Rule("histories: 4-8 concurrent clients issue seeded sequences of submit (instant/long/failing/empty/remote) / status / list / cancel / release / force-release / results / unknown-id commands, one simultaneous submit burst, cancel during an unfinished submit, optional daemon restart, with a verif-hook delay widening one race window per history; oracles: status-write observer log (per file, in lock order), client observation order by a global logical clock, /proc + directory checks after cancelled/released replies, id and stdin uniqueness. distinct_nontrivial = histories in which a cancel/release overlapped runner writes of the same unit (both roles wrote the file and a Canceled record exists)")
	work := workDir()
	rng := rand.New(rand.NewSource(run.Seed*104729 + 13))
	nh := run.Pick(8, 80)
	nops := run.Pick(14, 40)
	type hs struct {
		h        *c13Hist
		seed     int64
		nclients int
	}
	hists := []hs{}
	for i := 0; i < nh; i++ {
		h := &c13Hist{idx: i, dir: filepath.Join(work, fmt.Sprintf("h%d", i)), run: run, acks: map[string]int{}, ops: map[string]int{}}
		h.sleeps = c13Delays[(i+int(run.Seed))%len(c13Delays)]
		h.restart = i%4 == 3
		h.ignoreInt = i%2 == 1
		hists = append(hists, hs{h, rng.Int63(), 4 + rng.Intn(5)})
	}
	{
		// one more history per run: the runner is slow to install its signal handler (hook delay before it), the
		// daemons ignore SIGINT as under nohup, and half of the submits are cancelled at once
		h := &c13Hist{idx: nh, dir: filepath.Join(work, fmt.Sprintf("h%d", nh)), run: run, acks: map[string]int{}, ops: map[string]int{}}
		h.sleeps, h.ignoreInt, h.cancelEarly = "runner:runner.init=sleep(400)", true, true
		hists = append(hists, hs{h, rng.Int63(), 4})
	}
	if len(args) >= 2 && args[0] == "--hist" {
		var idx int
		fmt.Sscan(args[1], &idx)
		hists = hists[idx : idx+1]
	}
	sem := make(chan struct{}, 8)
	var wg sync.WaitGroup
	for _, x := range hists {
		wg.Add(1)
		sem <- struct{}{}
		go func(x hs) {
			defer wg.Done()
			defer func() { <-sem }()
			_ = os.MkdirAll(x.h.dir, 0o755)
			x.h.execute(x.seed, x.nclients, nops)
			run.Eval(1)
			if x.h.idx < 2 {
				x.h.mu.Lock()
				run.Sample(map[string]any{"history": x.h.idx, "delays": x.h.sleeps, "clients": x.nclients, "ops": x.h.ops, "units": len(x.h.units), "observations": len(x.h.obs)})
				x.h.mu.Unlock()
			}
			_ = os.RemoveAll(x.h.dir)
		}(x)
	}
	wg.Wait()
	run.Finish(run.Pick(3, 20))
}
