package main

import (
	"encoding/json"
	"fmt"
	"math/rand"
	"os"
	"os/exec"
	"path/filepath"
	"sort"
	"strings"
	"sync"
	"time"

	"verif/harness/internal/child"
	"verif/harness/internal/ev"

	"github.com/ansible/receptor/pkg/netceptor"
	"github.com/ansible/receptor/pkg/types"
)

// C12 part D: the rule list as a NODE CONFIGURATION. Parts A-C hand rule lists to
// ParseFirewallRules / AddFirewallRules themselves; a user writes them into the node section of
// the configuration (`--node firewallrules=...` / YAML `node: {firewallrules: [...]}`), which
// becomes a types.NodeCfg whose Init() is the node's start-up. Each configuration is started in
// its own child process (Init sets process-global state):
//   - a list the reference model refuses (one malformation injected into one rule of an
//     otherwise valid list) must make Init() fail - the node must not start, least of all with
//     fewer restrictions than written;
//   - a list the reference model accepts must start AND be in force: node-local datagrams between
//     real sockets of the started node are delivered / silently dropped / rejected with a
//     'blocked by firewall' notice exactly as the reference model's first matching rule says.

func init() {
	register("c12cfgchild", c12CfgChild)
}

type c12CfgCase struct {
	Idx    int           `json:"idx"`
	Node   string        `json:"node"`
	Rules  []c12RuleSpec `json:"rules"`
	Inject string        `json:"inject,omitempty"` // "" = valid list
	BadAt  int           `json:"bad_at"`           // index of the malformed rule (-1 valid list)
	Pkts   []c12CfgPkt   `json:"packets"`          // node-local packets (origin = dest = Node)
}

type c12CfgPkt struct {
	c12MeshPkt
	Expect string `json:"expect,omitempty"` // the reference outcome; only steers how long the child waits
}

type c12CfgObs struct {
	ID        string `json:"id"`
	SendErr   string `json:"send_err,omitempty"`
	Delivered int    `json:"delivered"`
	Notices   int    `json:"notices"`
}

type c12CfgRes struct {
	Idx     int         `json:"idx"`
	Refused bool        `json:"refused"`
	Err     string      `json:"err,omitempty"`
	Panic   string      `json:"panic,omitempty"`
	Harness string      `json:"harness,omitempty"` // the child could not do its job (not receptor's fault)
	Obs     []c12CfgObs `json:"obs,omitempty"`
	Stray   int         `json:"stray"`
	Other   int         `json:"other_notices"`
}

// ---------------------------------------------------------------- child

func c12CfgInit(cfg types.NodeCfg) (err error, panicked string) {
	defer func() {
		if r := recover(); r != nil {
			panicked = fmt.Sprint(r)
		}
	}()
	return cfg.Init(), ""
}

// c12CfgChild: args = caseFile resultFile dataDir. Starts ONE node from the configuration and,
// if it starts, sends the case's packets between sockets of that node.
func c12CfgChild(_ string, args []string) {
	if len(args) < 3 {
		os.Exit(2)
	}
	b, err := os.ReadFile(args[0])
	if err != nil {
		fmt.Println("c12cfgchild:", err)
		os.Exit(2)
	}
	cs := &c12CfgCase{}
	if err := json.Unmarshal(b, cs); err != nil {
		fmt.Println("c12cfgchild: bad case:", err)
		os.Exit(2)
	}
	res := &c12CfgRes{Idx: cs.Idx}
	var mu sync.Mutex
	finish := func() {
		mu.Lock() // never released: the process exits
		out, _ := json.Marshal(res)
		if err := os.WriteFile(args[1]+".tmp", append(out, '\n'), 0o644); err != nil {
			os.Exit(2)
		}
		if err := os.Rename(args[1]+".tmp", args[1]); err != nil {
			os.Exit(2)
		}
		os.Exit(0)
	}
	cfg := types.NodeCfg{ID: cs.Node, DataDir: args[2], FirewallRules: c12BuildData(cs.Rules)}
	ierr, pan := c12CfgInit(cfg)
	if pan != "" {
		res.Panic = pan
		finish()
	}
	if ierr != nil {
		res.Refused, res.Err = true, ierr.Error()
		finish()
	}
	n := netceptor.MainInstance
	if n == nil {
		res.Harness = "Init() returned nil but there is no main node instance"
		finish()
	}
	obs := map[string]*c12CfgObs{}
	byTuple := map[string]*c12CfgObs{}
	for i := range cs.Pkts {
		o := &c12CfgObs{ID: cs.Pkts[i].ID}
		obs[o.ID] = o
		byTuple[cs.Pkts[i].tuple()] = o
		res.Obs = append(res.Obs, *o)
	}
	done := make(chan struct{})
	socks := map[string]netceptor.PacketConner{}
	svcs := map[string]bool{}
	for _, p := range cs.Pkts {
		svcs[p.FS], svcs[p.TS] = true, true
	}
	for svc := range svcs {
		pc, err := n.ListenPacket(svc)
		if err != nil {
			res.Harness = "ListenPacket(" + svc + "): " + err.Error()
			finish()
		}
		socks[svc] = pc
		go func(svc string, pc netceptor.PacketConner) {
			buf := make([]byte, 4096)
			for {
				k, addr, err := pc.ReadFrom(buf)
				if err != nil {
					return
				}
				mu.Lock()
				o := obs[string(buf[:k])]
				var p *c12MeshPkt
				for i := range cs.Pkts {
					if o != nil && cs.Pkts[i].ID == o.ID {
						p = &cs.Pkts[i].c12MeshPkt
					}
				}
				if p != nil && p.TS == svc && addr.String() == cs.Node+":"+p.FS {
					o.Delivered++
				} else {
					res.Stray++
				}
				mu.Unlock()
			}
		}(svc, pc)
		go func(svc string, ch chan netceptor.UnreachableNotification) {
			for msg := range ch {
				mu.Lock()
				o := byTuple[msg.FromNode+"|"+msg.FromService+"|"+msg.ToNode+"|"+msg.ToService]
				switch {
				case msg.Problem != netceptor.ProblemRejected:
					res.Other++
				case o == nil || msg.FromService != svc:
					res.Stray++
				default:
					o.Notices++
				}
				mu.Unlock()
			}
		}(svc, pc.SubscribeUnreachable(done))
	}
	poll := func(limit time.Duration, cond func() bool) {
		for t0 := time.Now(); time.Since(t0) < limit; time.Sleep(2 * time.Millisecond) {
			mu.Lock()
			ok := cond()
			mu.Unlock()
			if ok {
				return
			}
		}
	}
	for _, p := range cs.Pkts {
		o := obs[p.ID]
		// a node-local WriteTo returns once the node has decided the packet's fate (handed to the
		// reader, dropped, or the notice originated); the watchdog only covers a wedged node
		errc := make(chan error, 1)
		go func(p c12MeshPkt) {
			_, err := socks[p.FS].WriteTo([]byte(p.ID), n.NewAddr(p.D, p.TS))
			errc <- err
		}(p.c12MeshPkt)
		select {
		case err := <-errc:
			if err != nil {
				mu.Lock()
				o.SendErr = err.Error()
				mu.Unlock()
			}
		case <-time.After(30 * time.Second):
			mu.Lock()
			o.SendErr = "harness watchdog: WriteTo did not return within 30 s"
			mu.Unlock()
		}
		// what the reference expects to arrive gets a generous wait (the expectation only steers
		// the waiting, the parent judges); silence is looked at after a short settle and once
		// more when all packets have been sent
		if p.Expect != "silence" && p.Expect != "" {
			poll(20*time.Second, func() bool { return o.Delivered > 0 || o.Notices > 0 || o.SendErr != "" })
		} else {
			poll(150*time.Millisecond, func() bool { return o.Delivered > 0 || o.Notices > 0 })
		}
	}
	time.Sleep(300 * time.Millisecond)
	mu.Lock()
	for i := range res.Obs {
		res.Obs[i] = *obs[res.Obs[i].ID]
	}
	mu.Unlock()
	finish()
}

// ---------------------------------------------------------------- generator

func c12CfgCopy(rules []c12RuleSpec) []c12RuleSpec {
	out := make([]c12RuleSpec, len(rules))
	for i, r := range rules {
		out[i] = append(c12RuleSpec{}, r...)
	}
	return out
}

// c12CfgGoodList: a valid list in the vocabulary of the mesh part (node names a/b/c, the mesh's
// services), shaped like a real configuration: a few specific rules, often a service-specific
// drop / reject, often a catch-all.
func c12CfgGoodList(rng *rand.Rand) []c12RuleSpec {
	rules := []c12RuleSpec{}
	for k, nr := 0, 1+rng.Intn(4); k < nr; k++ {
		rules = append(rules, c12GenMeshRule(rng))
	}
	for _, act := range []string{"reject", "drop"} {
		if rng.Intn(100) < 60 {
			r := c12RuleSpec{{K: c12KeyCase(rng, 2+rng.Intn(2)), V: c12MeshSvcVals[rng.Intn(len(c12Svcs))]}, {K: c12RandCase(rng, "action"), V: c12RandCase(rng, act)}}
			at := rng.Intn(len(rules) + 1)
			rules = append(rules[:at:at], append([]c12RuleSpec{r}, rules[at:]...)...)
		}
	}
	if rng.Intn(100) < 35 {
		rules = append(rules, c12RuleSpec{{K: c12RandCase(rng, "action"), V: c12RandCase(rng, c12Actions[rng.Intn(3)])}})
	}
	return rules
}

// c12CfgPackets picks node-local packets for a valid list: first packets the list stops (reject
// whose notice gets through, drop, any reject), then one it lets through, then random ones.
func c12CfgPackets(rng *rand.Rand, node string, ref []c12RefRule, n int) []c12CfgPkt {
	dec := func(_ string, p c12Pkt) (string, int) { return c12RefDecide(ref, p) }
	var noticed, dropped, rejected, passed, all []c12MeshPkt
	for _, fs := range c12Svcs {
		for _, ts := range c12Svcs {
			mp := c12MeshPkt{O: node, FS: fs, D: node, TS: ts}
			sim := c12Simulate(dec, mp)
			all = append(all, mp)
			prim := c12Deciding(sim.Steps, "primary")
			switch {
			case sim.Notice:
				noticed = append(noticed, mp)
			case prim != nil && prim.Action == "drop":
				dropped = append(dropped, mp)
			case prim != nil && prim.Action == "reject":
				rejected = append(rejected, mp)
			case sim.Delivered && prim != nil:
				passed = append(passed, mp)
			}
		}
	}
	out := []c12CfgPkt{}
	used := map[string]bool{}
	take := func(from []c12MeshPkt) {
		if len(out) >= n || len(from) == 0 {
			return
		}
		for try := 0; try < 8; try++ {
			mp := from[rng.Intn(len(from))]
			if !used[mp.tuple()] {
				used[mp.tuple()] = true
				sim := c12Simulate(dec, mp)
				out = append(out, c12CfgPkt{c12MeshPkt: mp, Expect: sim.outcome()})
				return
			}
		}
	}
	take(noticed)
	take(dropped)
	take(rejected)
	take(passed)
	for guard := 0; len(out) < n && guard < 50; guard++ {
		take(all)
	}
	return out
}

func genC12Cfg(seed int64, good, badPerClass int) []*c12CfgCase {
	rng := rand.New(rand.NewSource(seed*7_000_003 + int64(good)*131 + int64(badPerClass)))
	cases := []*c12CfgCase{}
	classes := []string{"lone-slash", "unterminated", "bad-regex", "unknown-key", "nonstring-key", "unknown-action", "missing-action", "non-string", "non-string-action"}
	for rep := 0; rep < badPerClass; rep++ {
		for _, class := range classes {
			for try := 0; ; try++ {
				rules := c12CfgGoodList(rng)
				if rep%2 == 1 && len(rules) > 1 && rng.Intn(3) == 0 {
					rules = rules[:1] // now and then the malformed rule stands alone
				}
				before := c12CfgCopy(rules)
				label := c12Inject(rng, rules, class)
				if _, why := c12RefParse(rules); why == "" {
					if try > 20 {
						panic("C12 harness bug: injected malformation " + label + " is accepted by the reference model")
					}
					continue
				}
				badAt := -1
				for i := range rules {
					if fmt.Sprint(rules[i]) != fmt.Sprint(before[i]) {
						badAt = i
					}
				}
				cs := &c12CfgCase{Node: c12Chain[rng.Intn(3)], Rules: rules, Inject: label, BadAt: badAt}
				// packets chosen against what is left when the malformed rule is taken out: what a
				// node that (wrongly) starts ought at the very least to be stopping
				rest := append(append([]c12RuleSpec{}, before[:max(badAt, 0)]...), before[max(badAt, 0)+1:]...)
				if ref, why := c12RefParse(rest); why == "" {
					cs.Pkts = c12CfgPackets(rng, cs.Node, ref, 3)
					for k := range cs.Pkts {
						cs.Pkts[k].Expect = "" // nothing is expected of a node that must not start
					}
				}
				cases = append(cases, cs)
				break
			}
		}
	}
	for g := 0; g < good; g++ {
		for try := 0; ; try++ {
			rules := c12CfgGoodList(rng)
			ref, why := c12RefParse(rules)
			if why != "" {
				panic("C12 harness bug: configuration rule list refused by the reference: " + why)
			}
			cs := &c12CfgCase{Node: c12Chain[rng.Intn(3)], Rules: rules, BadAt: -1}
			cs.Pkts = c12CfgPackets(rng, cs.Node, ref, 4)
			stops := false
			for _, mp := range cs.Pkts {
				if a, _ := c12RefDecide(ref, mp.pkt()); a != "accept" {
					stops = true
				}
			}
			if stops || try > 20 { // a list that stops nothing cannot show that it is in force
				cases = append(cases, cs)
				break
			}
		}
	}
	rng.Shuffle(len(cases), func(i, j int) { cases[i], cases[j] = cases[j], cases[i] })
	for i, cs := range cases {
		cs.Idx = i
		for k := range cs.Pkts {
			cs.Pkts[k].ID = fmt.Sprintf("cfg%d-p%d", i, k)
		}
	}
	return cases
}

// ---------------------------------------------------------------- parent

func c12CfgClass(cs *c12CfgCase) string {
	if f := strings.Fields(cs.Inject); len(f) > 0 {
		return f[0]
	}
	return "valid"
}

func c12CfgRunOne(work string, cs *c12CfgCase) (*c12CfgRes, child.Result) {
	base := filepath.Join(work, fmt.Sprintf("c12cfg-%d", cs.Idx))
	b, _ := json.Marshal(cs)
	_ = os.WriteFile(base+".case", b, 0o644)
	cmd := exec.Command(os.Args[0], "c12cfgchild", "quick", base+".case", base+".result", base+".data")
	cmd.Env = append(os.Environ(), "GORACE=halt_on_error=0 exitcode=0 atexit_sleep_ms=0 log_path="+filepath.Join(work, fmt.Sprintf("race-c12cfg-%d", cs.Idx)))
	cr := child.Run(cmd, base+".out", 3*time.Minute, nil)
	rb, err := os.ReadFile(base + ".result")
	if err != nil {
		return nil, cr
	}
	res := &c12CfgRes{}
	if json.Unmarshal(rb, res) != nil || res.Idx != cs.Idx {
		return nil, cr
	}
	_ = os.Remove(base + ".out")
	_ = os.RemoveAll(base + ".data")
	return res, cr
}

func c12CfgJudge(run *ev.Run, work string, cs *c12CfgCase, res *c12CfgRes, cr child.Result, sampled *int) {
	run.Eval(1)
	class := c12CfgClass(cs)
	text := c12SpecText(cs.Rules)
	cfgText := fmt.Sprintf("node configuration {id: %s, firewallrules: %v}", cs.Node, text)
	if res == nil {
		base := filepath.Join(work, fmt.Sprintf("c12cfg-%d", cs.Idx))
		switch {
		case cr.Fatal != "" && !cr.TimedOut:
			run.Violation("config:crash:"+class, fmt.Sprintf("%s: the process died while starting the node: %s", cfgText, cr.Fatal), map[string]any{"node": cs.Node, "rules": text, "rules_spec": cs.Rules, "inject": cs.Inject, "fatal": cr.Fatal, "top_frame": cr.TopFrame, "stack": c12StackExcerpt(base + ".out")})
		case cr.TimedOut:
			run.Inconclusive(fmt.Sprintf("C12 configuration case %d: child watchdog fired (output in %s.out)", cs.Idx, base))
		default:
			run.Inconclusive(fmt.Sprintf("C12 configuration case %d: child ended with code %d without a result", cs.Idx, cr.ExitCode))
		}
		return
	}
	if res.Harness != "" {
		run.Inconclusive(fmt.Sprintf("C12 configuration case %d: %s", cs.Idx, res.Harness))
		return
	}
	if res.Panic != "" {
		run.Violation("config:panic:"+class, fmt.Sprintf("%s: starting the node panicked: %s", cfgText, res.Panic), map[string]any{"node": cs.Node, "rules": text, "rules_spec": cs.Rules, "inject": cs.Inject, "panic": res.Panic})
		return
	}
	ref, why := c12RefParse(cs.Rules)
	if why != "" {
		// ---- a list that cannot be interpreted: the node must refuse to start
		run.Count("D_bad_configurations", 1)
		if res.Refused {
			run.Count("D_bad_configurations_refused", 1)
			run.Distinct("D|refused|" + class + "|" + map[bool]string{true: "alone", false: "mixed"}[len(cs.Rules) == 1])
			if *sampled < 1 {
				*sampled++
				run.Sample(map[string]any{"part": "D", "node": cs.Node, "rules": text, "inject": cs.Inject, "init_error": res.Err})
			}
			return
		}
		// it started: show what the running node does with packets that the rest of the list stops
		rest := append(append([]c12RuleSpec{}, cs.Rules[:max(cs.BadAt, 0)]...), cs.Rules[max(cs.BadAt, 0)+1:]...)
		through := []string{}
		if rref, w := c12RefParse(rest); w == "" && cs.BadAt >= 0 {
			for i, mp := range cs.Pkts {
				if a, at := c12RefDecide(rref, mp.pkt()); a != "accept" && i < len(res.Obs) && res.Obs[i].Delivered > 0 {
					through = append(through, fmt.Sprintf("%s:%s -> %s:%s (the well-formed rule %s says %s) was delivered", mp.O, mp.FS, mp.D, mp.TS, c12SpecText(rest[at : at+1])[0], a))
				}
			}
		}
		what := fmt.Sprintf("%s contains a rule that cannot be interpreted (%s; reference model: %s) but the node started instead of refusing the configuration", cfgText, cs.Inject, why)
		if len(through) > 0 {
			what += "; the running node enforces less than was written: " + strings.Join(through, "; ")
		}
		run.Violation("config:bad-rules-accepted:"+class, what, map[string]any{"node": cs.Node, "rules": text, "rules_spec": cs.Rules, "inject": cs.Inject, "reference_refuses_because": why, "packets": cs.Pkts, "observed": res.Obs})
		return
	}
	// ---- a valid list: the node must start and the list must be in force
	run.Count("D_good_configurations", 1)
	if res.Refused {
		run.Violation("config:good-rules-refused:"+c12ListCaseClass(cs.Rules), fmt.Sprintf("%s is valid but the node refused to start: %s", cfgText, res.Err), map[string]any{"node": cs.Node, "rules": text, "rules_spec": cs.Rules, "error": res.Err})
		return
	}
	dec := func(_ string, p c12Pkt) (string, int) { return c12RefDecide(ref, p) }
	for i, mp := range cs.Pkts {
		if i >= len(res.Obs) {
			break
		}
		o := res.Obs[i]
		run.Count("D_packets", 1)
		exp := c12Simulate(dec, mp.c12MeshPkt)
		if strings.HasPrefix(o.SendErr, "harness watchdog") {
			run.Inconclusive(fmt.Sprintf("C12 configuration case %d packet %s: %s", cs.Idx, mp.ID, o.SendErr))
			continue
		}
		obs := c12Sim{Delivered: o.Delivered > 0, Notice: o.Notices > 0}
		prim := c12Deciding(exp.Steps, "primary")
		if obs.Delivered == exp.Delivered && obs.Notice == exp.Notice && o.SendErr == "" {
			key := "D|in-force|"
			if prim == nil {
				key += "default"
			} else {
				key += fmt.Sprintf("%d|%s|%s", prim.Rule, prim.Action, c12RuleMix(cs.Rules[prim.Rule]))
				run.Count("D_decided_"+prim.Action, 1)
			}
			if s := c12Deciding(exp.Steps, "notice"); s != nil {
				key += "|notice:" + s.Action
			}
			run.Distinct(key + "|" + exp.outcome())
			if prim != nil && prim.Action != "accept" && *sampled < 2 {
				*sampled++
				run.Sample(map[string]any{"part": "D", "node": cs.Node, "rules": text, "packet": mp, "reference_walk": exp.Steps, "expected": exp.outcome(), "observed": obs.outcome()})
			}
			continue
		}
		key := fmt.Sprintf("config:decision-differs:expect-%s:got-%s", exp.outcome(), obs.outcome())
		if !exp.Delivered && obs.Delivered {
			key = "config:good-rules-not-enforced"
		}
		if o.SendErr != "" {
			key = "config:send-failed"
		}
		run.Violation(key, fmt.Sprintf("node started from %s, node-local packet %s:%s -> %s:%s: reference expects %s (walk %s), the node's sockets observed %s%s", cfgText, mp.O, mp.FS, mp.D, mp.TS, exp.outcome(), c12WalkText(exp.Steps), obs.outcome(), map[bool]string{true: " (WriteTo: " + o.SendErr + ")", false: ""}[o.SendErr != ""]),
			map[string]any{"node": cs.Node, "rules": text, "rules_spec": cs.Rules, "packet": mp, "reference": exp, "observed": o})
	}
	run.Count("D_stray_arrivals", int64(res.Stray))
}

// c12PartD runs the configuration cases, `par` child processes at a time.
func c12PartD(run *ev.Run, work string) {
	t0 := time.Now()
	cases := genC12Cfg(run.Seed, run.Pick(18, 150), run.Pick(2, 12))
	type outcome struct {
		cs  *c12CfgCase
		res *c12CfgRes
		cr  child.Result
	}
	outs := make([]outcome, len(cases))
	sem := make(chan struct{}, 10)
	var wg sync.WaitGroup
	for i, cs := range cases {
		wg.Add(1)
		sem <- struct{}{}
		go func(i int, cs *c12CfgCase) {
			defer wg.Done()
			defer func() { <-sem }()
			res, cr := c12CfgRunOne(work, cs)
			outs[i] = outcome{cs, res, cr}
		}(i, cs)
	}
	wg.Wait()
	sort.SliceStable(outs, func(i, j int) bool { return outs[i].cs.Idx < outs[j].cs.Idx })
	sampled := 0
	for _, o := range outs {
		c12CfgJudge(run, work, o.cs, o.res, o.cr, &sampled)
	}
	run.Extra("D_wall_s", fmt.Sprintf("%.1f", time.Since(t0).Seconds()))
}
