package main

import (
	"bufio"
	"context"
	"encoding/json"
	"fmt"
	"math/rand"
	"os"
	"path/filepath"
	"runtime"
	"strings"
	"sync"
	"sync/atomic"
	"time"

	"github.com/ansible/receptor/pkg/netceptor"
	"github.com/ansible/receptor/pkg/workceptor"
)

// C14 child: one OS process of a configuration. It runs the REAL status-record API
// (workceptor.StatusFileData methods; in the "daemon" process the BaseWorkUnit methods)
// from N writer goroutines plus reader goroutines against the one shared status file and
// records what every call observed in a per-process JSONL log. No judgement happens here.

// c14Cfg is one configuration (written by the parent, read by every child).
type c14Cfg struct {
	Idx       int    `json:"idx"`
	Seed      int64  `json:"seed"`
	M         int    `json:"m"`
	N         int    `json:"n"`
	Mix       string `json:"mix"`   // full | full+basic | daemon-runner | runner-wholesale
	Sleep     string `json:"sleep"` // none | short | long  (sleep inside the callback)
	PerWriter int    `json:"per_writer"`
	Dir       string `json:"dir"`
	DataDir   string `json:"data_dir"`
	Node      string `json:"node"`
	Unit      string `json:"unit"`
	File      string `json:"file"`
	WorkType  string `json:"work_type"` // owned by the allocating Save; must never change
	Owned     string `json:"owned"`     // owned by the designated writer (ExtraData.Params)
	OwnedPid  int    `json:"owned_pid"`
	PadMax    int    `json:"pad_max"` // Detail is padded with 0..PadMax bytes: records of very different lengths, up to several read buffers long
}

func (c *c14Cfg) key() string { return fmt.Sprintf("M%d|N%d|%s|%s", c.M, c.N, c.Mix, c.Sleep) }

// c14Writer is the role of one writer goroutine, a pure function of the configuration.
type c14Writer struct {
	P, G  int
	Role  string // rmw | basic (UpdateBasicStatus, stdoutSize -1) | wholesale (UpdateBasicStatus, explicit stdoutSize)
	Owner bool   // sets ExtraData in its first update
	API   string // sfd | bwu
	Style string // fresh | reused | runner   (how the StatusFileData receiver is kept; sfd only)
	Seed  int64
}

const c14Init = "init"

func c14ID(p, g, k int) string { return fmt.Sprintf("p%dg%du%d", p, g, k) }

// c14WholesaleSize is the StdoutSize a wholesale basic-status writer passes: unique per update.
func c14WholesaleSize(cfg *c14Cfg, p, g, k int) int64 {
	return int64(1+p*cfg.N+g)*1_000_000 + int64(k)*1000
}

func c14UsesBWU(mix string) bool { return mix == "daemon-runner" || mix == "runner-wholesale" }

// c14Plan returns the writers of every process.
func c14Plan(cfg *c14Cfg) [][]c14Writer {
	rng := rand.New(rand.NewSource(cfg.Seed*1000003 + 17))
	basicKind := "basic"
	if cfg.Mix == "runner-wholesale" {
		basicKind = "wholesale"
	}
	plan := make([][]c14Writer, cfg.M)
	nBasic := 0
	var candidates []*c14Writer
	for p := 0; p < cfg.M; p++ {
		plan[p] = make([]c14Writer, cfg.N)
		for g := 0; g < cfg.N; g++ {
			w := &plan[p][g]
			*w = c14Writer{P: p, G: g, Role: "rmw", API: "sfd", Seed: rng.Int63()}
			w.Style = []string{"fresh", "reused", "runner"}[rng.Intn(3)]
			r := rng.Intn(12)
			if p == 0 && g == 0 {
				w.Owner = true
				if c14UsesBWU(cfg.Mix) {
					w.API = "bwu"
				}
				continue
			}
			switch cfg.Mix {
			case "full":
			case "full+basic":
				if r < 4 {
					w.Role = basicKind
				}
			case "daemon-runner", "runner-wholesale":
				if p == 0 {
					w.API = "bwu"
					if r < 3 {
						w.Role = basicKind
					}
				} else if g == 0 {
					// what commandRunner does: one reused record holding &CommandExtraData{}, basic updates only
					w.Role = basicKind
					w.Style = "runner"
				} else if r < 2 {
					w.Role = basicKind
				}
			}
			if w.Role != "rmw" {
				nBasic++
			} else {
				candidates = append(candidates, w)
			}
		}
	}
	if cfg.Mix != "full" && nBasic == 0 && len(candidates) > 0 {
		candidates[len(candidates)-1].Role = basicKind
	}
	return plan
}

// c14Rec is one log line.
type c14Rec struct {
	K        string `json:"k"` // rmw | basic | wholesale | load
	P        int    `json:"p"`
	G        int    `json:"g"` // readers: 1000+r
	Seq      int    `json:"seq"`
	API      string `json:"api,omitempty"`
	Self     string `json:"self,omitempty"`
	Pred     string `json:"pred,omitempty"` // rmw: Detail found; load: Detail loaded
	Size     int64  `json:"size"`           // rmw: StdoutSize found; load: StdoutSize loaded; wholesale: size passed
	WT       string `json:"wt,omitempty"`
	Owned    string `json:"owned,omitempty"` // ExtraData.Params found ("?" = not observable through this API)
	OwnedPid int    `json:"owned_pid,omitempty"`
	T0       int64  `json:"t0"`
	T1       int64  `json:"t1,omitempty"`
	T2       int64  `json:"t2,omitempty"`
	Calls    int    `json:"calls,omitempty"`
	Err      string `json:"err,omitempty"`
}

func c14Owned(ed interface{}) (string, int) {
	switch v := ed.(type) {
	case nil:
		return "", 0
	case *workceptor.CommandExtraData:
		if v == nil {
			return "", 0
		}
		return v.Params, v.Pid
	case map[string]interface{}:
		s, _ := v["Params"].(string)
		f, _ := v["Pid"].(float64)
		return s, int(f)
	default:
		return fmt.Sprintf("!unexpected ExtraData type %T", ed), 0
	}
}

func c14SleepMax(class string) int {
	switch class {
	case "short":
		return 400
	case "long":
		return 2000
	}
	return 0
}

func c14Pad(rng *rand.Rand, max int) string {
	if rng.Intn(3) == 0 {
		max = 48 // keep short records frequent: a short record after a long one is the interesting order
	}
	return strings.Repeat("~", rng.Intn(max+1))
}

func c14StripPad(s string) string { return strings.TrimRight(s, "~") }

// c14Lane is the job list of one child process: it takes part, as process P, in each listed
// configuration, in order (one start-up of the race-instrumented binary serves many configurations).
type c14Lane struct {
	Lane int      `json:"lane"`
	Jobs []c14Job `json:"jobs"`
}

type c14Job struct {
	Cfg string `json:"cfg"` // path of the configuration file
	P   int    `json:"p"`
}

func c14ChildMain(_ string, args []string) {
	if len(args) < 1 {
		os.Exit(2)
	}
	b, err := os.ReadFile(args[0])
	if err != nil {
		fmt.Println("c14child: lane:", err)
		os.Exit(2)
	}
	lane := &c14Lane{}
	if err := json.Unmarshal(b, lane); err != nil {
		fmt.Println("c14child: lane:", err)
		os.Exit(2)
	}
	ctx, cancel := context.WithCancel(context.Background())
	defer cancel()
	var nc *netceptor.Netceptor
	for _, job := range lane.Jobs {
		b, err := os.ReadFile(job.Cfg)
		if err != nil {
			fmt.Println("c14child: cfg:", err) // configuration aborted and removed by the parent
			continue
		}
		cfg := &c14Cfg{}
		if err := json.Unmarshal(b, cfg); err != nil {
			fmt.Println("c14child: cfg:", err)
			os.Exit(2)
		}
		if nc == nil {
			nc = netceptor.New(ctx, cfg.Node)
		}
		c14ChildJob(ctx, nc, cfg, job.P)
	}
	os.Exit(0)
}

// c14ChildJob runs process p of one configuration.
func c14ChildJob(ctx context.Context, nc *netceptor.Netceptor, cfg *c14Cfg, p int) {
	plan := c14Plan(cfg)[p]
	abortFile := filepath.Join(cfg.Dir, "abort")
	if _, err := os.Stat(abortFile); err == nil {
		return
	}

	// A process that touches status files always has a Workceptor main instance (the daemon and
	// its re-exec'd command runner both do); the status functions log through it on error paths.
	w, err := workceptor.New(ctx, nc, cfg.DataDir)
	if err != nil {
		fmt.Println("c14child: workceptor.New:", err)
		os.Exit(2)
	}
	workceptor.MainInstance = w

	var bwu *workceptor.BaseWorkUnit
	if c14UsesBWU(cfg.Mix) && p == 0 {
		bwu = &workceptor.BaseWorkUnit{}
		bwu.Init(w, cfg.Unit, cfg.WorkType, workceptor.FileSystem{}, nil)
		defer bwu.CancelContext()
		if bwu.StatusFileName() != cfg.File {
			fmt.Printf("c14child: BaseWorkUnit status file %q != %q\n", bwu.StatusFileName(), cfg.File)
			os.Exit(2)
		}
		if err := bwu.Load(); err != nil { // as a daemon does for a unit found on disk
			fmt.Println("c14child: initial bwu.Load:", err)
			os.Exit(2)
		}
	}

	// barrier: all processes of the configuration start their goroutines together
	_ = os.WriteFile(filepath.Join(cfg.Dir, fmt.Sprintf("ready-%d", p)), []byte("ready\n"), 0o644)
	goFile := filepath.Join(cfg.Dir, "go")
	for {
		if _, err := os.Stat(goFile); err == nil {
			break
		}
		if _, err := os.Stat(abortFile); err == nil {
			return
		}
		time.Sleep(2 * time.Millisecond)
	}

	sleepMax := c14SleepMax(cfg.Sleep)
	logs := make([][]c14Rec, len(plan)+2)
	var writersLeft int32 = int32(len(plan))
	var wg sync.WaitGroup
	start := make(chan struct{})

	for wi := range plan {
		wr := plan[wi]
		wg.Add(1)
		go func(slot int, wr c14Writer) {
			defer wg.Done()
			defer atomic.AddInt32(&writersLeft, -1)
			rng := rand.New(rand.NewSource(wr.Seed))
			var reused *workceptor.StatusFileData
			switch wr.Style {
			case "reused":
				reused = &workceptor.StatusFileData{}
			case "runner":
				reused = &workceptor.StatusFileData{ExtraData: &workceptor.CommandExtraData{}}
			}
			gapMax := []int{0, 0, 300}[rng.Intn(3)]
			out := make([]c14Rec, 0, cfg.PerWriter)
			<-start
			for k := 0; k < cfg.PerWriter; k++ {
				id := c14ID(wr.P, wr.G, k)
				detail := id + c14Pad(rng, cfg.PadMax)
				sl := 0
				if sleepMax > 0 {
					sl = rng.Intn(sleepMax + 1)
				}
				gap := 0
				if gapMax > 0 {
					gap = rng.Intn(gapMax + 1)
				}
				rec := c14Rec{K: wr.Role, P: wr.P, G: wr.G, Seq: k, API: wr.API, Self: id}
				sfd := reused
				if sfd == nil {
					sfd = &workceptor.StatusFileData{}
				}
				switch wr.Role {
				case "rmw":
					first := wr.Owner && k == 0
					cb := func(s *workceptor.StatusFileData) {
						rec.T1 = time.Now().UnixNano()
						rec.Calls++
						rec.Pred = s.Detail
						rec.Size = s.StdoutSize
						rec.WT = s.WorkType
						rec.Owned, rec.OwnedPid = c14Owned(s.ExtraData)
						s.Detail = detail
						s.StdoutSize++
						if first {
							s.ExtraData = &workceptor.CommandExtraData{Pid: cfg.OwnedPid, Params: cfg.Owned}
						}
						if sl > 0 {
							time.Sleep(time.Duration(sl) * time.Microsecond)
						}
						rec.T2 = time.Now().UnixNano()
					}
					rec.T0 = time.Now().UnixNano()
					if wr.API == "bwu" {
						bwu.UpdateFullStatus(cb)
						if e := bwu.LastUpdateError(); e != nil {
							rec.Err = e.Error()
						}
					} else if e := sfd.UpdateFullStatus(cfg.File, cb); e != nil {
						rec.Err = e.Error()
					}
				case "basic", "wholesale":
					size := int64(-1)
					if wr.Role == "wholesale" {
						size = c14WholesaleSize(cfg, wr.P, wr.G, k)
					}
					rec.Size = size
					state := workceptor.WorkStateRunning
					rec.T0 = time.Now().UnixNano()
					if wr.API == "bwu" {
						bwu.UpdateBasicStatus(state, detail, size)
						if e := bwu.LastUpdateError(); e != nil {
							rec.Err = e.Error()
						}
					} else if e := sfd.UpdateBasicStatus(cfg.File, state, detail, size); e != nil {
						rec.Err = e.Error()
					}
					rec.T2 = time.Now().UnixNano()
				}
				out = append(out, rec)
				if gap > 0 {
					time.Sleep(time.Duration(gap) * time.Microsecond)
				} else {
					runtime.Gosched()
				}
			}
			logs[slot] = out
		}(wi, wr)
	}

	// readers: reader 0 of the daemon process goes through BaseWorkUnit.Load/Status, the others
	// through StatusFileData.Load (reader 1 re-uses one record value, as MonitorLocalStatus does)
	nReaders := 1
	if p == 0 {
		nReaders = 2
	}
	for r := 0; r < nReaders; r++ {
		wg.Add(1)
		go func(r int) {
			defer wg.Done()
			rng := rand.New(rand.NewSource(cfg.Seed*31 + int64(p)*977 + int64(r)))
			var reused *workceptor.StatusFileData
			if r == 1 {
				reused = &workceptor.StatusFileData{}
			}
			out := []c14Rec{}
			<-start
			for seq := 0; ; seq++ {
				done := atomic.LoadInt32(&writersLeft) == 0
				rec := c14Rec{K: "load", P: p, G: 1000 + r, Seq: seq, API: "sfd"}
				rec.T0 = time.Now().UnixNano()
				if bwu != nil && r == 0 {
					rec.API = "bwu"
					if e := bwu.Load(); e != nil {
						rec.Err = e.Error()
					} else {
						s := bwu.Status() // a copy without ExtraData
						rec.Pred, rec.Size, rec.WT, rec.Owned = s.Detail, s.StdoutSize, s.WorkType, "?"
					}
				} else {
					s := reused
					if s == nil {
						s = &workceptor.StatusFileData{}
					}
					if e := s.Load(cfg.File); e != nil {
						rec.Err = e.Error()
					} else {
						rec.Pred, rec.Size, rec.WT = s.Detail, s.StdoutSize, s.WorkType
						rec.Owned, rec.OwnedPid = c14Owned(s.ExtraData)
					}
				}
				rec.T2 = time.Now().UnixNano()
				out = append(out, rec)
				if done {
					break
				}
				time.Sleep(time.Duration(50+rng.Intn(900)) * time.Microsecond)
			}
			logs[len(plan)+r] = out
		}(r)
	}
	close(start)
	wg.Wait()

	lf, err := os.Create(filepath.Join(cfg.Dir, fmt.Sprintf("log-%d.jsonl.tmp", p)))
	if err != nil {
		fmt.Println("c14child: log:", err)
		os.Exit(2)
	}
	bw := bufio.NewWriterSize(lf, 1<<20)
	enc := json.NewEncoder(bw)
	for _, l := range logs {
		for i := range l {
			_ = enc.Encode(&l[i])
		}
	}
	if err := bw.Flush(); err != nil {
		fmt.Println("c14child: log:", err)
		os.Exit(2)
	}
	lf.Close()
	_ = os.Rename(filepath.Join(cfg.Dir, fmt.Sprintf("log-%d.jsonl.tmp", p)), filepath.Join(cfg.Dir, fmt.Sprintf("log-%d.jsonl", p)))
}
