package main

import (
	"bufio"
	"encoding/json"
	"fmt"
	"io"
	"os"
	"path/filepath"
	"strings"
	"time"

	"verif/harness/internal/ctl"
)

// Helpers shared by the daemon-level monitors (C04, C05, C13, ...).

// ctlLine opens a fresh Unix session on d, sends one line and returns the reply line.
func ctlLine(d *ctl.Daemon, line string, timeout time.Duration) (string, error) {
	c, err := ctl.DialUnix(d.Sock(), timeout)
	if err != nil {
		return "", err
	}
	defer c.Close()
	return c.Line(line, timeout)
}

// waitRoute polls d's status until its routing table contains all wanted nodes.
func waitRoute(d *ctl.Daemon, want []string, limit time.Duration) bool {
	deadline := time.Now().Add(limit)
	for time.Now().Before(deadline) {
		if !d.Alive() {
			return false
		}
		l, err := ctlLine(d, "status", 5*time.Second)
		if err == nil {
			var m struct{ RoutingTable map[string]string }
			if json.Unmarshal([]byte(l), &m) == nil {
				ok := true
				for _, w := range want {
					if _, has := m.RoutingTable[w]; !has {
						ok = false
					}
				}
				if ok {
					return true
				}
			}
		}
		time.Sleep(100 * time.Millisecond)
	}
	return false
}

// listUnits returns `work list` of d parsed, plus the raw line.
func listUnits(d *ctl.Daemon, timeout time.Duration) (map[string]*ctl.Status, string, error) {
	l, err := ctlLine(d, "work list", timeout)
	if err != nil {
		return nil, l, err
	}
	m, err := ctl.ParseList(l)
	return m, l, err
}

// unitStatus returns `work status id` parsed.
func unitStatus(d *ctl.Daemon, id string, timeout time.Duration) (*ctl.Status, string, error) {
	l, err := ctlLine(d, "work status "+id, timeout)
	if err != nil {
		return nil, l, err
	}
	st, err := ctl.ParseStatus(l)
	return st, l, err
}

// fetchResults streams `work results id pos` until the server closes; returns the bytes and whether the
// stream ended by EOF (true) or by the read watchdog (false).
func fetchResults(d *ctl.Daemon, id string, pos int64, limit time.Duration) (first string, data []byte, eof bool, err error) {
	c, err := ctl.DialUnix(d.Sock(), 10*time.Second)
	if err != nil {
		return "", nil, false, err
	}
	defer c.Close()
	first, err = c.ResultsStart(fmt.Sprintf("work results %s %d", id, pos), 20*time.Second)
	if err != nil || !strings.HasPrefix(first, "Streaming results") {
		return first, nil, false, err
	}
	_ = c.C.SetReadDeadline(time.Now().Add(limit))
	data, rerr := io.ReadAll(c.R)
	if rerr == nil {
		return first, data, true, nil
	}
	return first, data, false, nil
}

// runnerPids returns the pids of command-runner processes (and producers) whose command line mentions unitDir.
func runnerPids(unitDir string) []int {
	out := []int{}
	ents, _ := os.ReadDir("/proc")
	for _, e := range ents {
		pid := 0
		if _, err := fmt.Sscan(e.Name(), &pid); err != nil || pid <= 1 {
			continue
		}
		b, err := os.ReadFile(filepath.Join("/proc", e.Name(), "cmdline"))
		if err != nil {
			continue
		}
		if strings.Contains(string(b), "unitdir="+unitDir) && ctl.PidAlive(pid) {
			out = append(out, pid)
		}
	}
	return out
}

// pointHit is one line of VERIF_POINT_LOG.
type pointHit struct {
	Pid    int    `json:"pid"`
	Role   string `json:"role"`
	Point  string `json:"point"`
	Detail string `json:"detail"`
	Hit    int    `json:"hit"`
	Action string `json:"action"`
	T      int64  `json:"t"` // wall clock of the hit (ns)
}

func readPointLog(path string) []pointHit {
	f, err := os.Open(path)
	if err != nil {
		return nil
	}
	defer f.Close()
	out := []pointHit{}
	sc := bufio.NewScanner(f)
	sc.Buffer(make([]byte, 1<<16), 1<<22)
	for sc.Scan() {
		var h pointHit
		if json.Unmarshal(sc.Bytes(), &h) == nil && h.Point != "" {
			out = append(out, h)
		}
	}
	return out
}

// statusWrite is one line of VERIF_STATUS_LOG.
type statusWrite struct {
	Pid         int    `json:"pid"`
	Role        string `json:"role"`
	Seq         int64  `json:"seq"`
	T           int64  `json:"t"`
	File        string `json:"file"`
	Op          string `json:"op"`
	HadOld      bool   `json:"hadOld"`
	OldState    int    `json:"oldState"`
	OldSize     int64  `json:"oldSize"`
	OldDetail   string `json:"oldDetail"`
	OldWorkType string `json:"oldWorkType"`
	NewState    int    `json:"newState"`
	NewSize     int64  `json:"newSize"`
	NewDetail   string `json:"newDetail"`
	NewWorkType string `json:"newWorkType"`
}

func readStatusLog(path string) []statusWrite {
	f, err := os.Open(path)
	if err != nil {
		return nil
	}
	defer f.Close()
	out := []statusWrite{}
	sc := bufio.NewScanner(f)
	sc.Buffer(make([]byte, 1<<16), 1<<22)
	for sc.Scan() {
		var h statusWrite
		if json.Unmarshal(sc.Bytes(), &h) == nil && h.File != "" {
			out = append(out, h)
		}
	}
	return out
}

func mustJSON(v any) []byte {
	b, _ := json.Marshal(v)
	return b
}
