package main

import (
	"fmt"
	"math/rand"
	"strings"
)

// C12 generators: rule lists (as plain key/value specs, independent of receptor's types),
// packets, the pattern dictionary and the malformation dictionary.

// c12KV is one key/value entry of a rule as a configuration file would give it.
// KT/VT name the Go type of a non-string key/value ("" = string).
type c12KV struct {
	K  string `json:"k"`
	KT string `json:"kt,omitempty"` // "", "int", "bool", "nil"
	V  string `json:"v"`
	VT string `json:"vt,omitempty"` // "", "int", "float", "bool", "nil", "list", "map"
}

type c12RuleSpec []c12KV

type c12Pkt struct {
	FN string `json:"fromnode"`
	FS string `json:"fromservice"`
	TN string `json:"tonode"`
	TS string `json:"toservice"`
}

func (p c12Pkt) field(i int) string {
	switch i {
	case 0:
		return p.FN
	case 1:
		return p.TN
	case 2:
		return p.FS
	}
	return p.TS
}

func (p *c12Pkt) set(i int, v string) {
	switch i {
	case 0:
		p.FN = v
	case 1:
		p.TN = v
	case 2:
		p.FS = v
	default:
		p.TS = v
	}
}

// field order used everywhere in the harness
var c12Fields = []string{"fromnode", "tonode", "fromservice", "toservice"}
var c12FieldCanon = []string{"FromNode", "ToNode", "FromService", "ToService"}

type c12Case struct {
	Idx    int           `json:"idx"`
	Rules  []c12RuleSpec `json:"rules"`
	Pkts   []c12Pkt      `json:"pkts"`
	Inject string        `json:"inject,omitempty"` // generator's label of the single injected malformation
}

// c12Pat is a dictionary pattern with its label (what distinguishes it), strings it must
// match in full and near misses (prefix/suffix/partial matches that a full match must refuse).
type c12Pat struct {
	P     string
	Label string
	Yes   []string
	Near  []string
}

var c12Pats = []c12Pat{
	// top-level alternations: ^a|b$ differs from ^(?:a|b)$
	{"/a|b/", "alternation", []string{"a", "b"}, []string{"ax", "xb", "ab", "xa", "bx", "axb"}},
	{"/foo|bar/", "alternation", []string{"foo", "bar"}, []string{"foobar", "food", "xbar", "barfoo", "fo"}},
	{"/node1|node2/", "alternation", []string{"node1", "node2"}, []string{"node10", "xnode2", "node1x", "node"}},
	{"/a|b|c/", "alternation", []string{"a", "b", "c"}, []string{"xbx", "ax", "xc", "abc", "d"}},
	{"/|a/", "alternation", []string{"", "a"}, []string{"b", "ba", "ab"}},
	{"/(a|b)|c/", "alternation", []string{"a", "b", "c"}, []string{"ax", "xc", "bc"}},
	{"/ab|/", "alternation", []string{"ab", ""}, []string{"abx", "x", "xab"}},
	{"/control|ping/", "alternation", []string{"control", "ping"}, []string{"control2", "xping", "pin"}},
	// alternation inside a group is not affected by anchoring
	{"/(a|b)c/", "group-alt", []string{"ac", "bc"}, []string{"a", "c", "abc", "acx", "xac"}},
	{"/(?:foo|bar)/", "group-alt", []string{"foo", "bar"}, []string{"foobar", "fo", "xbar"}},
	{"/[|]/", "class-bar", []string{"|"}, []string{"a", "||", ""}},
	{"/a\\|b/", "escape", []string{"a|b"}, []string{"a", "b", "ab"}},
	// anchors written by the user
	{"/^abc$/", "anchors", []string{"abc"}, []string{"abcd", "xabc", "", "ab"}},
	{"/^a/", "anchors", []string{"a"}, []string{"ab", "ba", ""}},
	{"/a$/", "anchors", []string{"a"}, []string{"ba", "ab"}},
	{"/\\Aabc\\z/", "anchors", []string{"abc"}, []string{"abcd", "xabc"}},
	{"/^$/", "anchors", []string{""}, []string{"a"}},
	// empty pattern and wildcards
	{"//", "empty-pattern", []string{""}, []string{"a", "abc", "/"}},
	{"/.*/", "wild", []string{"", "a", "abc", "a.c", "node1"}, nil},
	{"/.+/", "wild", []string{"a", "abc"}, []string{""}},
	{"/./", "wild", []string{"a", "x"}, []string{"", "ab"}},
	// plain bodies: names that are prefixes / suffixes / repetitions of the pattern
	{"/abc/", "regex-plain", []string{"abc"}, []string{"ab", "abcd", "xabc", "abcabc", "bc", ""}},
	{"/ab/", "regex-plain", []string{"ab"}, []string{"a", "abc", "xab", "b"}},
	{"/node1/", "regex-plain", []string{"node1"}, []string{"node10", "node", "Node1", "xnode1"}},
	{"/foo/", "regex-plain", []string{"foo"}, []string{"foobar", "fo", "oo", "xfoo"}},
	{"/a.c/", "regex", []string{"abc", "a.c", "axc"}, []string{"ac", "abcd", "abbc", "xabc"}},
	{"/[a-c]+/", "class", []string{"a", "abc", "cab"}, []string{"abd", "", "xab", "abcd"}},
	{"/node[0-9]/", "class", []string{"node1", "node2"}, []string{"node", "node10", "Node1", "nodex"}},
	{"/[^a]bc/", "class", []string{"xbc", "bbc"}, []string{"abc", "bc", "xbcd"}},
	{"/a{2,3}/", "repeat", []string{"aa", "aaa"}, []string{"a", "aaaa", ""}},
	{"/a?/", "repeat", []string{"", "a"}, []string{"aa", "b", "ab"}},
	{"/(ab)*/", "repeat", []string{"", "ab", "abab"}, []string{"aba", "a", "abx"}},
	{"/a\\.c/", "escape", []string{"a.c"}, []string{"abc", "a.cd"}},
	{"/a/b/", "inner-slash", []string{"a/b"}, []string{"a", "b", "a/b/", "/a/b/"}},
	{"///", "inner-slash", []string{"/"}, []string{"", "//", "a"}},
	{"/\\//", "inner-slash", []string{"/"}, []string{"", "\\/"}},
	// inline flags keep working under a full-match wrapper ((?m) deliberately absent)
	{"/(?i)node1/", "flags", []string{"node1", "Node1", "NODE1"}, []string{"node2", "node10", "xNode1"}},
	{"/(?i)abc/", "flags", []string{"abc", "ABC", "aBc"}, []string{"abcd", "ab", "XABC"}},
	{"/(?s)a.b/", "flags", []string{"a\nb", "axb"}, []string{"ab", "a\nbc", "a\n\nb"}},
	{"/(?i:a)b/", "flags", []string{"ab", "Ab"}, []string{"aB", "AB", "abb"}},
	{"/(?U)a+/", "flags", []string{"a", "aaa"}, []string{"", "aab"}},
	{"/日本/", "unicode", []string{"日本"}, []string{"日", "日本語"}},
}

// malformed values for one of the four match fields, by class
var c12BadVals = map[string][]string{
	"lone-slash":   {"/"},
	"unterminated": {"/abc", "/a|b", "/[a-z]+", "/foo/bar", "/abc/ ", "/.*", "/a/b"},
	"bad-regex": {
		"/[/", "/(/", "/)/", "/a)(b/", "/*/", "/+a/", "/a{2,1}/", "/\\/", "/a\\/", "/(?P<n/", "/[a-/", "/a**/",
		"/(?z)a/", "/\\8/", "/(?=a)/", "/a(?!b)/", "/[[:foo:]]/", "/(a|b/", "/a|b)/", "/\\p{Nope}/", "/x{1001}/",
	},
}

var c12BadKeys = []string{"from_node", "fromnodes", "from", "source", "", "action ", " action", "to-node", "FromNodeX", "nodes", "service", "fromnode\n", "tonode:", "Actions", "rule"}
var c12BadActions = []string{"allow", "deny", "", "acceptt", "accept ", " drop", "continue", "/accept/", "ACCEPT DROP", "rejected", "dro", "accept\n", "0", "true"}

// names used for literal rule values and packet fields
var c12Names = []string{
	"a", "b", "c", "ab", "ax", "xb", "abc", "abcd", "a.c", "a|b", "a*", ".*", "(a)", "a/b", "abc/", "node1", "node2", "Node1",
	"node10", "foo", "bar", "foobar", "control", "ping", "unreach", "x", "日本", "fo o", "aa", "bc",
}

var c12Actions = []string{"accept", "reject", "drop"}

func c12RandCase(rng *rand.Rand, s string) string {
	switch rng.Intn(4) {
	case 0:
		return s
	case 1:
		return strings.ToUpper(s)
	case 2:
		if s == "" {
			return s
		}
		return strings.ToUpper(s[:1]) + s[1:]
	}
	b := []byte(s)
	for i := range b {
		if b[i] >= 'a' && b[i] <= 'z' && rng.Intn(2) == 0 {
			b[i] -= 32
		}
	}
	return string(b)
}

func c12KeyCase(rng *rand.Rand, fi int) string {
	switch rng.Intn(5) {
	case 0:
		return c12Fields[fi]
	case 1:
		return c12FieldCanon[fi]
	case 2:
		return strings.ToUpper(c12Fields[fi])
	}
	return c12RandCase(rng, c12Fields[fi])
}

var c12PatByP = func() map[string]*c12Pat {
	m := map[string]*c12Pat{}
	for i := range c12Pats {
		m[c12Pats[i].P] = &c12Pats[i]
	}
	return m
}()

// c12ValFeature names what distinguishes a field value (harness-side label).
func c12ValFeature(v string) string {
	if v == "" {
		return "not-given"
	}
	if v[0] != '/' {
		if strings.ContainsAny(v, ".|*+?()[]{}^$\\") {
			return "literal-meta"
		}
		return "literal"
	}
	if p, ok := c12PatByP[v]; ok {
		return p.Label
	}
	body := strings.Trim(v, "/")
	if c12TopLevelBar(body) {
		return "alternation"
	}
	return "regex"
}

// c12TopLevelBar reports whether a regex body has a '|' outside groups, classes and escapes.
func c12TopLevelBar(body string) bool {
	depth, inClass := 0, false
	for i := 0; i < len(body); i++ {
		switch c := body[i]; {
		case c == '\\':
			i++
		case inClass:
			if c == ']' {
				inClass = false
			}
		case c == '[':
			inClass = true
		case c == '(':
			depth++
		case c == ')':
			depth--
		case c == '|' && depth == 0:
			return true
		}
	}
	return false
}

var c12FeatureRank = []string{"alternation", "flags", "anchors", "empty-pattern", "inner-slash", "group-alt", "class-bar", "escape", "repeat", "class", "wild", "unicode", "regex", "regex-plain", "literal-meta", "literal"}

func c12TopFeature(feats []string) string {
	for _, f := range c12FeatureRank {
		for _, g := range feats {
			if f == g {
				return f
			}
		}
	}
	if len(feats) > 0 {
		return feats[0]
	}
	return "no-fields"
}

// c12RuleValues returns the four field values of a rule spec ("" = not given) and its action.
func c12RuleValues(spec c12RuleSpec) (vals [4]string, action string) {
	for _, kv := range spec {
		k := c12Lower(kv.K)
		if k == "action" {
			action = kv.V
		}
		for fi, f := range c12Fields {
			if k == f {
				vals[fi] = kv.V
			}
		}
	}
	return vals, action
}

// c12RuleMix: literal / regex mix of the given fields of a rule.
func c12RuleMix(spec c12RuleSpec) string {
	vals, _ := c12RuleValues(spec)
	lit, re := 0, 0
	for _, v := range vals {
		if v == "" {
			continue
		}
		if v[0] == '/' {
			re++
		} else {
			lit++
		}
	}
	switch {
	case lit == 0 && re == 0:
		return "none"
	case re == 0:
		return "lit"
	case lit == 0:
		return "re"
	}
	return "mixed"
}

func c12GenValue(rng *rand.Rand) string {
	switch r := rng.Intn(100); {
	case r < 42:
		return c12Names[rng.Intn(len(c12Names))]
	case r < 95:
		return c12Pats[rng.Intn(len(c12Pats))].P
	}
	return "" // an empty value: field not given
}

func c12GenRule(rng *rand.Rand) c12RuleSpec {
	spec := c12RuleSpec{}
	for fi := range c12Fields {
		if rng.Intn(100) < 40 {
			spec = append(spec, c12KV{K: c12KeyCase(rng, fi), V: c12GenValue(rng)})
		}
	}
	spec = append(spec, c12KV{K: c12RandCase(rng, "action"), V: c12RandCase(rng, c12Actions[rng.Intn(3)])})
	rng.Shuffle(len(spec), func(i, j int) { spec[i], spec[j] = spec[j], spec[i] })
	return spec
}

var c12NonString = []c12KV{
	{VT: "int", V: "1"}, {VT: "int", V: "0"}, {VT: "float", V: "2.5"}, {VT: "bool", V: "true"}, {VT: "nil"},
	{VT: "list", V: "accept"}, {VT: "map", V: "a"}, {VT: "list", V: "/a/"},
}

// lone-slash is a single input value and each occurrence costs a child process: every run
// offers it systematically in each of the four fields (c12Systematic) and at weight 1 in 97
// in the random part.
var c12MalformedClasses = func() []string {
	out := []string{"lone-slash"}
	for i := 0; i < 12; i++ {
		out = append(out, "unterminated", "bad-regex", "unknown-key", "nonstring-key", "unknown-action", "missing-action", "non-string", "non-string-action")
	}
	return out
}()

// c12Systematic: one single-rule list per entry of the malformation dictionaries, so that
// every run offers every malformed value at least once whatever the seed.
func c12Systematic(rng *rand.Rand) []*c12Case {
	out := []*c12Case{}
	n := 0
	add := func(class, detail string, spec c12RuleSpec) {
		cs := &c12Case{Rules: []c12RuleSpec{spec}, Inject: fmt.Sprintf("%s rule=0 %q (systematic)", class, detail)}
		out = append(out, cs)
		n++
	}
	act := func() c12KV { return c12KV{K: "action", V: c12Actions[n%3]} }
	for fi := range c12Fields {
		add("lone-slash", "/", c12RuleSpec{{K: c12Fields[fi], V: "/"}, act()})
	}
	for _, class := range []string{"unterminated", "bad-regex"} {
		for _, v := range c12BadVals[class] {
			add(class, v, c12RuleSpec{act(), {K: c12FieldCanon[n%4], V: v}})
		}
	}
	for _, k := range c12BadKeys {
		add("unknown-key", k, c12RuleSpec{{K: k, V: "a"}, act()})
	}
	for _, kt := range []string{"int", "bool", "nil"} {
		add("nonstring-key", kt, c12RuleSpec{{K: "7", KT: kt, V: "a"}, act()})
	}
	for _, a := range c12BadActions {
		add("unknown-action", a, c12RuleSpec{{K: c12Fields[n%4], V: "a"}, {K: "Action", V: a}})
	}
	add("missing-action", "", c12RuleSpec{{K: "fromnode", V: "a"}})
	add("missing-action", "", c12RuleSpec{})
	for _, ns := range c12NonString {
		add("non-string", ns.VT, c12RuleSpec{{K: c12Fields[n%4], V: ns.V, VT: ns.VT}, act()})
		add("non-string-action", ns.VT, c12RuleSpec{{K: "tonode", V: "a"}, {K: "action", V: ns.V, VT: ns.VT}})
	}
	for _, cs := range out {
		cs.Pkts = c12GenPackets(rng, cs.Rules, 4)
	}
	return out
}

// c12Inject puts exactly one malformation of the class into rule ri of the list.
func c12Inject(rng *rand.Rand, rules []c12RuleSpec, class string) string {
	ri := rng.Intn(len(rules))
	spec := rules[ri]
	actionAt := -1
	for i, kv := range spec {
		if c12Lower(kv.K) == "action" {
			actionAt = i
		}
	}
	// position of a match field to overwrite, or a new one
	fieldAt := func() int {
		cand := []int{}
		for i := range spec {
			if i != actionAt {
				cand = append(cand, i)
			}
		}
		if len(cand) > 0 && rng.Intn(2) == 0 {
			return cand[rng.Intn(len(cand))]
		}
		used := map[string]bool{}
		for _, kv := range spec {
			used[c12Lower(kv.K)] = true
		}
		free := []int{}
		for fi, f := range c12Fields {
			if !used[f] {
				free = append(free, fi)
			}
		}
		if len(free) == 0 {
			return cand[rng.Intn(len(cand))]
		}
		spec = append(spec, c12KV{K: c12KeyCase(rng, free[rng.Intn(len(free))])})
		return len(spec) - 1
	}
	detail := ""
	switch class {
	case "lone-slash", "unterminated", "bad-regex":
		vs := c12BadVals[class]
		i := fieldAt()
		spec[i].V, spec[i].VT = vs[rng.Intn(len(vs))], ""
		detail = spec[i].V
	case "unknown-key":
		k := c12BadKeys[rng.Intn(len(c12BadKeys))]
		spec = append(spec, c12KV{K: k, V: c12GenValue(rng)})
		detail = k
	case "nonstring-key":
		kt := []string{"int", "bool", "nil"}[rng.Intn(3)]
		spec = append(spec, c12KV{K: "7", KT: kt, V: "a"})
		detail = kt
	case "unknown-action":
		spec[actionAt].V = c12BadActions[rng.Intn(len(c12BadActions))]
		detail = spec[actionAt].V
	case "missing-action":
		spec = append(spec[:actionAt:actionAt], spec[actionAt+1:]...)
	case "non-string":
		i := fieldAt()
		ns := c12NonString[rng.Intn(len(c12NonString))]
		spec[i].V, spec[i].VT = ns.V, ns.VT
		detail = ns.VT
	case "non-string-action":
		ns := c12NonString[rng.Intn(len(c12NonString))]
		spec[actionAt].V, spec[actionAt].VT = ns.V, ns.VT
		detail = ns.VT
	}
	rules[ri] = spec
	return fmt.Sprintf("%s rule=%d %q", class, ri, detail)
}

func c12RandName(rng *rand.Rand) string {
	if rng.Intn(25) == 0 {
		return ""
	}
	return c12Names[rng.Intn(len(c12Names))]
}

func c12MutateLiteral(rng *rand.Rand, s string) string {
	switch rng.Intn(5) {
	case 0:
		return s + "x"
	case 1:
		return "x" + s
	case 2:
		if len(s) > 1 {
			return s[:len(s)-1]
		}
		return s + s
	case 3:
		if u := strings.ToUpper(s); u != s {
			return u
		}
		return s + "0"
	}
	// a regex reading of a literal with metacharacters would match these
	return strings.NewReplacer(".", "b", "*", "", "|", "", "(", "", ")", "").Replace(s) + ""
}

// c12GenPackets draws packets so that a good share hits some rule: targeted at a rule
// (every given field satisfied), targeted-then-perturbed (near miss), or random.
func c12GenPackets(rng *rand.Rand, rules []c12RuleSpec, n int) []c12Pkt {
	out := make([]c12Pkt, 0, n)
	for len(out) < n {
		p := c12Pkt{FN: c12RandName(rng), FS: c12RandName(rng), TN: c12RandName(rng), TS: c12RandName(rng)}
		if len(rules) > 0 && rng.Intn(100) < 72 {
			vals, _ := c12RuleValues(rules[rng.Intn(len(rules))])
			given := []int{}
			for fi, v := range vals {
				if v == "" {
					continue
				}
				given = append(given, fi)
				if pat, ok := c12PatByP[v]; ok {
					p.set(fi, pat.Yes[rng.Intn(len(pat.Yes))])
				} else if v[0] != '/' {
					p.set(fi, v)
				}
			}
			if len(given) > 0 && rng.Intn(100) < 38 {
				fi := given[rng.Intn(len(given))]
				v := vals[fi]
				if pat, ok := c12PatByP[v]; ok && len(pat.Near) > 0 {
					p.set(fi, pat.Near[rng.Intn(len(pat.Near))])
				} else if v[0] != '/' {
					p.set(fi, c12MutateLiteral(rng, v))
				}
			}
		}
		out = append(out, p)
	}
	return out
}

// genC12 returns the deterministic case list of part A for (seed, number of lists).
func genC12(seed int64, lists, pktsPer int) []*c12Case {
	rng := rand.New(rand.NewSource(seed*7_000_003 + int64(lists)))
	cases := make([]*c12Case, 0, lists)
	for _, cs := range c12Systematic(rng) {
		if len(cases) < lists/4 {
			cs.Idx = len(cases)
			cases = append(cases, cs)
		}
	}
	for i := len(cases); i < lists; i++ {
		cs := &c12Case{Idx: i}
		nr := 0
		switch r := rng.Intn(100); {
		case r < 3:
			nr = 0
		case r < 25:
			nr = 1
		default:
			nr = 2 + rng.Intn(5)
		}
		for k := 0; k < nr; k++ {
			cs.Rules = append(cs.Rules, c12GenRule(rng))
		}
		if rng.Intn(100) < 25 {
			if len(cs.Rules) == 0 {
				cs.Rules = append(cs.Rules, c12GenRule(rng))
			}
			cs.Inject = c12Inject(rng, cs.Rules, c12MalformedClasses[rng.Intn(len(c12MalformedClasses))])
		}
		cs.Pkts = c12GenPackets(rng, cs.Rules, pktsPer)
		cases = append(cases, cs)
	}
	return cases
}
