package main

// C15, histories: the cells of c15.go are one command on a fresh connection against a freshly started
// key configuration. The statement quantifies over every command, whatever happened before it, so two
// kinds of history are added here.
//
//  1. Multi-command sessions: two or three commands on ONE tcp / mesh control connection, each about its
//     own verifying-type unit, each with its own token kind. The outcome of every command has to be the
//     one it has on a fresh connection: a command takes effect only if IT carries a good token, whatever
//     an earlier command on the connection carried (and a good token still works after a refused command).
//  2. Replacement of the verification key: a daemon K of its own whose configured key file is replaced
//     while it runs. "The configured key" is the content of the configured file at the time the command is
//     judged: after a replacement, tokens of the retired key must be refused without effect and tokens of
//     the newly configured key must work.

import (
	"fmt"
	mrand "math/rand"
	"os"
	"path/filepath"
	"strings"
	"sync"
	"sync/atomic"
	"time"

	"verif/harness/internal/ctl"
	"verif/harness/internal/ev"
)

var (
	c15Protected   = []string{"submit", "cancel", "release", "force-release", "results"}
	c15NonTerminal = []string{"cancel", "release", "force-release"} // an accepted one leaves the session open
)

// c15TokKind is a token class plus the form of the request that carries it.
type c15TokKind struct{ Tok, Form string }

func (k c15TokKind) label() string {
	switch k.Form {
	case "plain":
		return "absent-plaintext"
	case "null":
		return "json-null"
	case "number":
		return "json-number"
	}
	return k.Tok
}

// c15BadKinds: every way of not carrying a good token (verdict -1 of c15TokVerdict, plus the request forms).
func c15BadKinds() []c15TokKind {
	l := []c15TokKind{{"absent", ""}, {"absent", "plain"}, {"absent", "null"}, {"absent", "number"}}
	for _, t := range c15TokenClasses {
		if t != "absent" && c15TokVerdict(t) < 0 {
			l = append(l, c15TokKind{t, ""})
		}
	}
	return l
}

type c15Step struct {
	Cmd  string     `json:"cmd"`
	Kind c15TokKind `json:"-"`
	Tok  string     `json:"token_kind"`
	Exp  int        `json:"-"`
	Want string     `json:"expected"`
}

type c15Session struct {
	Idx   int       `json:"idx"`
	Conn  string    `json:"conn"`
	Shape string    `json:"shape"` // e.g. "valid,bad": which steps carry a good token
	Steps []c15Step `json:"steps"`
}

func (s c15Session) key() string {
	p := []string{"session", s.Conn}
	for _, st := range s.Steps {
		p = append(p, st.Cmd+"/"+st.Tok)
	}
	return strings.Join(p, ":")
}

func c15MkStep(cmd string, k c15TokKind) c15Step {
	st := c15Step{Cmd: cmd, Kind: k, Tok: k.label(), Exp: c15MustNot, Want: "refused without effect"}
	if c15TokVerdict(k.Tok) > 0 && k.Form == "" {
		st.Exp, st.Want = c15Must, "takes effect"
	}
	return st
}

// c15SessionPlan enumerates the sessions of a tier (a function of the seed and the tier only).
// A step that is expected to work and is not the last one is a cancel / release / force-release (an accepted
// submit or results uses the connection up); a step that has to be refused can be any protected command.
func c15SessionPlan(seed int64, full bool) []c15Session {
	rng := mrand.New(mrand.NewSource(seed*9176 + 31))
	valid := c15TokKind{"valid-rs512", ""}
	bad := c15BadKinds()
	other := bad[2:] // everything but the two plain ways of carrying no token
	pick := func(l []string) string { return l[rng.Intn(len(l))] }
	pickBad := func() c15TokKind { return bad[rng.Intn(len(bad))] }
	var out []c15Session
	add := func(conn, shape string, steps ...c15Step) {
		out = append(out, c15Session{Conn: conn, Shape: shape, Steps: steps})
	}
	for _, conn := range []string{"tcp", "mesh"} {
		// good token first, then a command without one
		for _, second := range c15Protected {
			if full {
				for _, k := range bad {
					add(conn, "valid,bad", c15MkStep(pick(c15NonTerminal), valid), c15MkStep(second, k))
				}
				for _, first := range c15NonTerminal {
					for _, k := range bad[:2] {
						add(conn, "valid,bad", c15MkStep(first, valid), c15MkStep(second, k))
					}
				}
				continue
			}
			k2 := bad[1]
			if rng.Intn(2) == 0 {
				k2 = other[rng.Intn(len(other))]
			}
			for _, k := range []c15TokKind{bad[0], k2} {
				add(conn, "valid,bad", c15MkStep(pick(c15NonTerminal), valid), c15MkStep(second, k))
			}
		}
		// refused command first: a good token must still work afterwards
		for _, first := range c15Protected {
			if full {
				for _, k := range bad {
					add(conn, "bad,valid", c15MkStep(first, k), c15MkStep(pick(c15Protected), valid))
				}
				continue
			}
			if rng.Intn(5) < 3 {
				add(conn, "bad,valid", c15MkStep(first, pickBad()), c15MkStep(pick(c15Protected), valid))
			}
		}
		// three commands
		n3 := 1
		if full {
			n3 = 10
		}
		for i := 0; i < n3; i++ {
			last := c15Protected[(i+rng.Intn(5))%5]
			add(conn, "valid,bad,valid", c15MkStep(pick(c15NonTerminal), valid), c15MkStep(pick(c15Protected), pickBad()), c15MkStep(last, valid))
			add(conn, "bad,valid,bad", c15MkStep(pick(c15Protected), pickBad()), c15MkStep(pick(c15NonTerminal), valid), c15MkStep(last, pickBad()))
			add(conn, "valid,valid,bad", c15MkStep(pick(c15NonTerminal), valid), c15MkStep(pick(c15NonTerminal), valid), c15MkStep(last, bad[rng.Intn(2)]))
			add(conn, "valid,bad,bad", c15MkStep(pick(c15NonTerminal), valid), c15MkStep(pick(c15Protected), other[rng.Intn(len(other))]), c15MkStep(last, bad[rng.Intn(2)]))
		}
	}
	rng.Shuffle(len(out), func(i, k int) { out[i], out[k] = out[k], out[i] })
	for i := range out {
		out[i].Idx = i
	}
	return out
}

const c15SessBase = 2 << 20 // cell indices of session steps (seeds of their units and tokens)

// runSession executes one session and returns one observation per step that was reached.
// broken: the connection ended before the last step (after a step that is reported by itself).
// The unit of a step that has to be refused may come from the arena's pool of verifiably untouched units
// (quick tier) and goes back there if the step left it untouched; every other step gets a fresh unit.
func (a *c15Arena) runSession(s c15Session) (obs []*c15Obs, broken string) {
	cells := make([]c15Cell, len(s.Steps))
	targets := make([]*c15Target, len(s.Steps))
	defer func() {
		for i, t := range targets {
			switch {
			case t == nil:
			case i < len(obs):
				a.putTarget(t, obs[i], s.Steps[i].Exp == c15MustNot)
			case a.reuse && s.Steps[i].Exp == c15MustNot && len(t.effects(nil)) == 0:
				// never used by this session: back to the pool as it came
				a.poolMu.Lock()
				a.pool[t.class] = append(a.pool[t.class], t)
				a.poolMu.Unlock()
			default:
				t.cleanup()
			}
		}
	}()
	errs := make([]error, len(s.Steps))
	var twg sync.WaitGroup
	for i, st := range s.Steps {
		hist := ":first"
		if i > 0 {
			hist = ":after" // what the connection has carried before this command
			for _, p := range s.Steps[:i] {
				if p.Exp == c15Must {
					hist += "-valid"
				} else {
					hist += "-bad"
				}
			}
		}
		cells[i] = c15Cell{Idx: c15SessBase + s.Idx*4 + i, Cmd: st.Cmd, Conn: s.Conn, Type: c15V, Tok: st.Kind.Tok, Form: st.Kind.Form, Exp: st.Exp,
			Origin: "session", Label: st.Tok, History: hist}
		if st.Cmd == "submit" {
			continue
		}
		twg.Add(1)
		go func(i int, reuseOK bool) {
			defer twg.Done()
			targets[i], errs[i] = a.getTarget(cells[i], reuseOK)
		}(i, a.reuse && st.Exp == c15MustNot)
	}
	twg.Wait()
	for _, err := range errs {
		if err != nil {
			return nil, "target: " + err.Error()
		}
	}
	cl, err := a.dial(s.Conn)
	if err != nil {
		return nil, "dial: " + err.Error()
	}
	defer cl.Close()
	for i, st := range s.Steps {
		c := cells[i]
		var o *c15Obs
		if st.Cmd == "submit" {
			o = a.submitOn(cl, c, nil, false)
		} else {
			t := targets[i]
			o = &c15Obs{Cell: c, Unit: t.unit}
			if pre := t.effects(nil); len(pre) > 0 {
				o.Undecided = fmt.Sprintf("target changed before the command: %v", pre)
			} else {
				a.unitOpOn(cl, c, t, st.Exp, nil, o)
			}
		}
		obs = append(obs, o)
		if o.Undecided != "" {
			return obs, "step undecided"
		}
		if i == len(s.Steps)-1 {
			break
		}
		// is the session still there for the next command? It is not after a transport error, and not
		// after a submit / results that was served (which the step's own verdict reports).
		served := len(o.Effects) > 0 && (st.Cmd == "submit" || st.Cmd == "results")
		if served || strings.HasPrefix(o.Note, "reply:") || strings.HasPrefix(o.Note, "no reply") {
			broken = fmt.Sprintf("session ended at step %d (%s, reply %q %s)", i+1, st.Cmd, c15Trunc(o.Reply, 80), o.Note)
			break
		}
	}
	// second look at the units of the refused steps, after everything later on the connection has happened
	tr := cl.Transcript()
	for i, o := range obs {
		if targets[i] == nil || s.Steps[i].Exp != c15MustNot || len(o.Effects) > 0 || o.Undecided != "" {
			continue
		}
		if eff := targets[i].effects(tr); len(eff) > 0 {
			o.Effects = eff
			o.Note += " effect seen at the end of the session (after the later commands)"
		}
	}
	return obs, broken
}

// judgeGiven applies an expectation given by the generator of the cell (must work / must be refused
// without effect); the violation key is built from the generator's labels. tab: outcome-table row ("" = none).
func (j *c15Judge) judgeGiven(o *c15Obs, tab string) bool {
	if o.Undecided != "" {
		return false
	}
	c := o.Cell
	effect := len(o.Effects) > 0
	hist := strings.TrimPrefix(c.History, ":")
	if hist == "" {
		hist = "fresh connection"
	}
	switch c.Exp {
	case c15MustNot:
		if effect {
			j.run.Violation(fmt.Sprintf("%s:effect:%s:%s:%s%s", c.Origin, c.Cmd, c.Conn, c.Label, c.History),
				fmt.Sprintf("%s: work %s over %s for a verifying work type with token %s (%s) took effect %v (reply %q); the statement demands a refusal without effect", c.Origin, c.Cmd, c.Conn, c.Label, hist, o.Effects, c15Trunc(o.Reply, 120)), o)
		}
	case c15Must:
		if !effect {
			j.run.Violation(fmt.Sprintf("%s:control-refused:%s:%s:%s%s", c.Origin, c.Cmd, c.Conn, c.Label, c.History),
				fmt.Sprintf("%s: work %s over %s for a verifying work type with token %s (%s) had no effect (reply %q)", c.Origin, c.Cmd, c.Conn, c.Label, hist, c15Trunc(o.Reply, 160)), o)
		}
	}
	if tab != "" {
		out := "no-effect"
		if effect {
			out = "effect"
		}
		j.count(tab + ":" + c15ExpName(c.Exp) + "/" + out)
	}
	return true
}

var (
	c15SessionSampled atomic.Bool
	c15SessionBusyMs  atomic.Int64 // worker time spent in sessions (diagnostic, written to the evidence)
)

// c15DoSession runs one session on arena a and judges every step.
func c15DoSession(run *ev.Run, j *c15Judge, a *c15Arena, s c15Session) {
	var obs []*c15Obs
	var broken string
	t0 := time.Now()
	defer func() { c15SessionBusyMs.Add(int64(time.Since(t0) / time.Millisecond)) }()
	for try := 0; try < 2; try++ {
		obs, broken = a.runSession(s)
		undecided := len(obs) == 0
		for _, o := range obs {
			if o.Undecided != "" {
				undecided = true
			}
		}
		if !undecided {
			break
		}
	}
	run.Eval(1)
	decided, violated := 0, false
	for i, o := range obs {
		if o.Undecided != "" {
			broken = fmt.Sprintf("step %d: %s", i+1, o.Undecided)
			break
		}
		if j.judgeGiven(o, "session") {
			decided++
		}
		if (o.Cell.Exp == c15MustNot) == (len(o.Effects) > 0) {
			violated = true
		}
	}
	run.Count("session_commands_judged", int64(decided))
	if decided == len(s.Steps) {
		run.Distinct(s.key())
		run.Count("sessions_decided", 1)
		run.SetAdd("session_shapes", s.Conn+":"+s.Shape)
		for i, st := range s.Steps[1:] {
			if st.Exp == c15MustNot && s.Steps[i].Exp == c15Must {
				run.SetAdd("session_refusal_after_valid", st.Cmd+":"+s.Conn+":"+st.Tok)
			}
		}
		if c15SessionSampled.CompareAndSwap(false, true) {
			run.Extra("session_sample", map[string]any{"session": s, "steps": c15Brief(obs)})
		}
	} else if !violated {
		// steps that were not reached because an earlier step violated are not a gap of the run
		run.Inconclusive(fmt.Sprintf("%s: %s", s.key(), broken))
	}
}

func c15Brief(obs []*c15Obs) []map[string]any {
	out := []map[string]any{}
	for _, o := range obs {
		out = append(out, map[string]any{"request": c15Trunc(o.Request, 140), "reply": c15Trunc(o.Reply, 100), "effects": o.Effects, "unit": o.Unit})
	}
	return out
}

// ---------------------------------------------------------------- replacement of the verification key

type c15KeyGen struct {
	Key    int    // index of the key configured in this generation
	Method string // how the file got its content: initial | rename | rewrite | remove-create
}

// c15KeyGens: the generations of the key file. quick: A, B (rename), A again (rewritten in place).
func c15KeyGens(full bool) []c15KeyGen {
	if !full {
		return []c15KeyGen{{0, "initial"}, {1, "rename"}, {0, "rewrite"}}
	}
	return []c15KeyGen{{0, "initial"}, {1, "rename"}, {2, "rewrite"}, {0, "remove-create"}, {2, "rename"}, {1, "rewrite"}, {1, "rename"}}
}

func c15InstallKey(file string, k *c15Keys, method string) error {
	switch method {
	case "rename":
		tmp := file + ".new"
		if err := os.WriteFile(tmp, k.PubPEM, 0o644); err != nil {
			return err
		}
		return os.Rename(tmp, file)
	case "remove-create":
		if err := os.Remove(file); err != nil {
			return err
		}
	}
	return os.WriteFile(file, k.PubPEM, 0o644)
}

// c15KeyReplacement runs the key-replacement workload on a daemon of its own. All commands of a generation are
// over (reply read, effects looked at) before the file is touched again, and the file is complete before
// the first command of the next generation is sent.
func c15KeyReplacement(run *ev.Run, j *c15Judge, base, producer string, keys []*c15Keys, full bool) (planned int) {
	gens := c15KeyGens(full)
	conns := []string{"tcp", "mesh"}
	planned = len(gens) * len(conns) * len(c15Protected) * len(keys)
	pub := filepath.Join(base, "keys", "k15-pub.pem")
	if err := os.WriteFile(pub, keys[0].PubPEM, 0o644); err != nil {
		run.Inconclusive("key replacement: writing the key file: " + err.Error())
		return planned
	}
	a := &c15Arena{idx: 90, dir: filepath.Join(base, "k"), tid: "k15", rid: "none15", mint: &c15Minter{K: keys[0], Other: keys[1]}, seed: run.Seed,
		shared: map[string]*c15Target{}, pool: map[string][]*c15Target{}, producer: producer, reuse: !full}
	a.onLate = func(prev *c15Obs, eff []string) {
		o := *prev
		o.Effects = eff
		o.Note = "effect appeared after the observation window of the command (seen when the unit was examined again)"
		j.judgeGiven(&o, "")
	}
	a.pidDir = filepath.Join(a.dir, "pids")
	_ = os.MkdirAll(a.pidDir, 0o755)
	a.T = ctl.NewDaemon(ctl.Cfg{ID: a.tid, Dir: filepath.Join(a.dir, "T"), TCPCtl: true, Listen: true, VerifyKey: pub, LogLevel: "error",
		Work: []ctl.WorkCmd{{Type: "sgen", Command: "/bin/sh", Params: producer, Verify: true}}})
	defer func() {
		a.stop()
		files, _ := filepath.Glob(filepath.Join(a.T.Dir, "race-*"))
		for _, f := range files {
			if b, err := os.ReadFile(f); err == nil {
				_ = os.WriteFile(filepath.Join(workDir(), "race-c15-k-"+filepath.Base(f)), b, 0o644)
			}
		}
	}()
	t0 := time.Now()
	if err := a.start(); err != nil {
		run.Inconclusive("key replacement: daemon k15 did not start: " + err.Error())
		return planned
	}
	run.Extra("keyfile_daemon_start_s", time.Since(t0).Seconds())
	defer func() { run.Extra("keyfile_workload_s", time.Since(t0).Seconds()) }()
	everConfigured := map[int]bool{}
	idx := 3 << 20
	var sampled atomic.Bool
	for g, gen := range gens {
		if g > 0 {
			if err := c15InstallKey(pub, keys[gen.Key], gen.Method); err != nil {
				run.Inconclusive("key replacement: " + gen.Method + ": " + err.Error())
				return planned
			}
		}
		phase := "initial"
		if g > 0 {
			phase = "replaced"
			if everConfigured[gen.Key] {
				phase = "restored" // a key that had been retired is the configured one again
			}
		}
		type kcase struct {
			c      c15Cell
			signer int
			label  string
		}
		var cases []kcase
		for _, conn := range conns {
			for _, cmd := range c15Protected {
				for ki := range keys {
					idx++
					kc := kcase{signer: ki, c: c15Cell{Idx: idx, Cmd: cmd, Conn: conn, Type: c15V, Tok: "other-key", Exp: c15MustNot, Origin: "keyfile:" + phase}}
					switch {
					case ki == gen.Key:
						kc.c.Tok, kc.c.Exp, kc.label = "valid-rs512", c15Must, "signed-by-configured-key"
					case everConfigured[ki]:
						kc.label = "signed-by-retired-key"
					default:
						kc.label = "signed-by-never-configured-key"
					}
					kc.c.Label = kc.label
					cases = append(cases, kc)
				}
			}
		}
		mrand.New(mrand.NewSource(run.Seed*31+int64(g))).Shuffle(len(cases), func(i, k int) { cases[i], cases[k] = cases[k], cases[i] })
		ch := make(chan kcase, len(cases))
		for _, kc := range cases {
			ch <- kc
		}
		close(ch)
		var wg sync.WaitGroup
		for w := 0; w < run.Pick(4, 8); w++ {
			wg.Add(1)
			go func() {
				defer wg.Done()
				for kc := range ch {
					tokf := func() (string, string) {
						m := &c15Minter{K: keys[kc.signer]}
						return m.mintExp(a.tid, time.Now().Unix()+300), fmt.Sprintf("RS512, aud=[node], exp=now+300s, %s (key %c; the file holds key %c, generation %d, written by %s)", kc.label, 'A'+kc.signer, 'A'+gen.Key, g, gen.Method)
					}
					var o *c15Obs
					ok := false
					for try := 0; try < 2 && !ok; try++ {
						if kc.c.Cmd == "submit" {
							o = a.runSubmit(kc.c, tokf)
						} else {
							o = a.runUnitOp(kc.c, tokf)
						}
						ok = j.judgeGiven(o, "keyfile:"+phase)
					}
					run.Eval(1)
					if !ok {
						run.Inconclusive(fmt.Sprintf("key replacement generation %d %s:%s:%s: %s", g, kc.c.Cmd, kc.c.Conn, kc.label, o.Undecided))
						continue
					}
					run.Distinct(fmt.Sprintf("keyfile:%d:%s:%s:%s:%s", g, gen.Method, kc.c.Cmd, kc.c.Conn, kc.label))
					run.Count("keyfile_commands_judged", 1)
					run.SetAdd("keyfile_cases", phase+":"+kc.label)
					if g > 0 && kc.label == "signed-by-retired-key" && sampled.CompareAndSwap(false, true) {
						s := *o
						s.Token = c15Trunc(s.Token, 80)
						s.Request = c15Trunc(s.Request, 160)
						run.Extra("keyfile_sample", s)
					}
				}
			}()
		}
		wg.Wait()
		everConfigured[gen.Key] = true
		run.Count("keyfile_generations", 1)
	}
	a.drainPool() // units that refused commands left untouched are looked at once more
	if !a.T.Alive() {
		fatal, top, _ := a.T.Fatal()
		run.Inconclusive(fmt.Sprintf("daemon k15 died during the run: %s at %s; tail: %s", fatal, top, c15Trunc(a.T.OutTail(600), 600)))
	}
	return planned
}
