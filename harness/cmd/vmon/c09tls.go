package main

import (
	"bytes"
	"context"
	"crypto/tls"
	"encoding/hex"
	"errors"
	"fmt"
	"io"
	mrand "math/rand"
	"net"
	"os"
	"path/filepath"
	"strings"
	"sync"
	"time"

	"verif/harness/internal/mesh"

	"github.com/ansible/receptor/pkg/backends"
	"github.com/ansible/receptor/pkg/netceptor"
)

// Layers 2-4 of C09: the same attribute-derived oracle, applied to real TLS handshakes whose
// configuration objects are produced by receptor's own configuration code.

func c09Dir() string {
	d := filepath.Join(workDir(), "c09")
	_ = os.MkdirAll(d, 0o755)
	return d
}

func c09Write(name string, data []byte) string {
	p := filepath.Join(c09Dir(), name)
	if err := os.WriteFile(p, data, 0o600); err != nil {
		panic(err)
	}
	return p
}

func pinStrings(pins [][]byte, colons bool) []string {
	out := []string{}
	for _, p := range pins {
		s := hex.EncodeToString(p)
		if colons {
			var parts []string
			for i := 0; i < len(s); i += 2 {
				parts = append(parts, strings.ToUpper(s[i:i+2]))
			}
			s = strings.Join(parts, ":")
		}
		out = append(out, s)
	}
	return out
}

// clientConfig asks receptor for the tls.Config a client would use (the client is what is under test).
func (env *c09Env) clientConfig(nc *netceptor.Netceptor, name string, certFile, keyFile string, skipNames bool, pins [][]byte, v13 bool, expected, mode string, colons bool) (*tls.Config, error) {
	tc := netceptor.TLSClientConfig{Name: name, Cert: certFile, Key: keyFile, RootCAs: filepath.Join(c09Dir(), "caS.pem"),
		PinnedServerCert: pinStrings(pins, colons), SkipReceptorNamesCheck: skipNames, MinTLS13: v13}
	cfg, fp, err := tc.PrepareTLSClientConfig(nc)
	if err != nil {
		return nil, fmt.Errorf("configuration refused: %w", err)
	}
	env.mu.Lock() // the config maps of a Netceptor are plain maps
	defer env.mu.Unlock()
	if err := nc.SetClientTLSConfig(name, cfg, fp); err != nil {
		return nil, fmt.Errorf("configuration refused: %w", err)
	}
	return nc.GetClientTLSConfig(name, expected, c09Mode(mode))
}

func (env *c09Env) serverConfig(nc *netceptor.Netceptor, name, certFile, keyFile string, skipNames, requireClient bool, pins [][]byte, v13, colons bool) (*tls.Config, error) {
	sc := netceptor.TLSServerConfig{Name: name, Cert: certFile, Key: keyFile, RequireClientCert: requireClient, PinnedClientCert: pinStrings(pins, colons),
		SkipReceptorNamesCheck: skipNames, MinTLS13: v13}
	if requireClient {
		sc.ClientCAs = filepath.Join(c09Dir(), "caC.pem")
	}
	cfg, err := sc.PrepareTLSServerConfig(nc)
	if err != nil {
		return nil, fmt.Errorf("configuration refused: %w", err)
	}
	return cfg, nil
}

// pipeHandshake runs one TLS handshake over net.Pipe and returns both sides' results.
func pipeHandshake(clientCfg, serverCfg *tls.Config) (cerr, serr error, timedOut bool) {
	c1, c2 := net.Pipe()
	dl := time.Now().Add(60 * time.Second)
	_ = c1.SetDeadline(dl)
	_ = c2.SetDeadline(dl)
	cl, sv := tls.Client(c1, clientCfg), tls.Server(c2, serverCfg)
	cch, sch := make(chan error, 1), make(chan error, 1)
	// net.Pipe is unbuffered: each side keeps reading after its handshake so that the other side's
	// late records (TLS 1.3 alerts and tickets) never block
	go func() {
		e := cl.Handshake()
		cch <- e
		if e == nil {
			_, _ = io.Copy(io.Discard, cl)
		}
	}()
	go func() {
		e := sv.Handshake()
		sch <- e
		if e == nil {
			_, _ = io.Copy(io.Discard, sv)
		}
	}()
	cerr, serr = <-cch, <-sch
	_ = c1.Close()
	_ = c2.Close()
	for _, e := range []error{cerr, serr} {
		var ne net.Error
		if e != nil && errors.As(e, &ne) && ne.Timeout() {
			timedOut = true
		}
	}
	return cerr, serr, timedOut
}

type c09Tuple struct {
	cert  int
	pins  string
	role  string
	mode  string
	index int
}

func (env *c09Env) tlsLayer(rng *mrand.Rand) {
	run := env.run
	c09Write("caS.pem", env.pki.cas["caS"].pem())
	c09Write("caC.pem", env.pki.cas["caC"].pem())
	nodeID := fmt.Sprintf("c09-tls-node-%d", run.Seed)
	nc := netceptor.New(context.Background(), nodeID)
	nc.Logger.SetOutput(io.Discard)
	defer nc.Shutdown()
	// the certificate of the server under test (clean, names this node)
	srv := env.pki.issue(c09Attr{"caS", "valid", "both", "both"}, nodeID, "x", "y", 0)
	srvCrt, srvKey := c09Write("tls-srv.crt", srv.certPEM()), c09Write("tls-srv.key", srv.keyPEM())
	combos := [][2]string{{"server", "dns"}, {"server", "receptor"}, {"client", "dns"}}
	var all []c09Tuple
	for ci := range env.certs {
		for _, pc := range c09PinClasses {
			for _, cb := range combos {
				all = append(all, c09Tuple{cert: ci, pins: pc, role: cb[0], mode: cb[1], index: len(all)})
			}
		}
	}
	perm := rng.Perm(len(all))
	want := run.Pick(60, 24000)
	var sel []c09Tuple
	taken := map[int]bool{}
	// strata first: per (role, mode) one clean control and one tuple per first false condition
	strata := map[string]bool{}
	for _, i := range perm {
		t := all[i]
		c := env.certs[t.cert]
		ne := c09NameExpected(t.role, t.mode)
		key := t.role + "/" + t.mode + "/"
		if ff := c.conds(t.role, t.mode, ne, env.e, c.pins(t.pins)).firstFalse(); ff != "" {
			key += ff
		} else if c.clean(t.role, t.mode, ne, t.pins) {
			key += "control"
		} else {
			continue
		}
		if !strata[key] {
			strata[key] = true
			taken[i] = true
			sel = append(sel, t)
		}
	}
	for _, i := range perm {
		if len(sel) >= want {
			break
		}
		if !taken[i] {
			sel = append(sel, all[i])
		}
	}
	jobs := make(chan c09Tuple, 64)
	var wg sync.WaitGroup
	for w := 0; w < 16; w++ {
		wg.Add(1)
		go func(w int) {
			defer wg.Done()
			name := fmt.Sprintf("tls%d", w)
			for t := range jobs {
				c := env.certs[t.cert]
				pins := c.pins(t.pins)
				v13 := t.index%2 == 0
				ne := c09NameExpected(t.role, t.mode)
				exp := env.e
				if !ne {
					exp = ""
				}
				cs := env.newCase("tls", c, t.pins, t.role, t.mode, exp)
				maxV := uint16(tls.VersionTLS12)
				if v13 {
					maxV = tls.VersionTLS13
				}
				var accepted bool
				var detail string
				if t.role == "server" {
					ccfg, err := env.clientConfig(nc, name, "", "", true, pins, v13, env.e, t.mode, t.index%3 == 0)
					if err != nil {
						detail = err.Error()
					} else {
						tc := c.tlsCert()
						scfg := &tls.Config{Certificates: []tls.Certificate{tc}, SessionTicketsDisabled: true, MinVersion: tls.VersionTLS12, MaxVersion: maxV}
						cerr, serr, to := pipeHandshake(ccfg, scfg)
						if to {
							run.Eval(1)
							run.Inconclusive(fmt.Sprintf("C09 tls handshake watchdog: %v / %v", cerr, serr))
							continue
						}
						accepted, detail = cerr == nil, fmt.Sprintf("client: %v; server: %v", cerr, serr)
					}
				} else {
					scfg, err := env.serverConfig(nc, name, srvCrt, srvKey, false, true, pins, v13, t.index%3 == 0)
					if err != nil {
						detail = err.Error()
					} else {
						tc := c.tlsCert()
						ccfg := &tls.Config{InsecureSkipVerify: true, MaxVersion: maxV,
							GetClientCertificate: func(*tls.CertificateRequestInfo) (*tls.Certificate, error) { return &tc, nil }}
						cerr, serr, to := pipeHandshake(ccfg, scfg)
						if to {
							run.Eval(1)
							run.Inconclusive(fmt.Sprintf("C09 tls handshake watchdog: %v / %v", cerr, serr))
							continue
						}
						accepted, detail = serr == nil, fmt.Sprintf("client: %v; server: %v", cerr, serr)
					}
				}
				if v13 {
					cs.Note = ""
					run.Count("tls_handshakes_tls13", 1)
				} else {
					run.Count("tls_handshakes_tls12", 1)
				}
				env.judge(cs, c.conds(t.role, t.mode, ne, env.e, pins), c.clean(t.role, t.mode, ne, t.pins), accepted, detail)
			}
		}(w)
	}
	for _, t := range sel {
		jobs <- t
	}
	close(jobs)
	wg.Wait()
	// a client that presents no certificate at all to a server requiring one
	if scfg, err := env.serverConfig(nc, "tlsnone", srvCrt, srvKey, false, true, nil, true, false); err == nil {
		_, serr, _ := pipeHandshake(&tls.Config{InsecureSkipVerify: true}, scfg)
		run.Eval(1)
		run.Distinct("tls|no-client-certificate")
		if serr == nil {
			run.Violation("tls:accept:no-certificate:client:dns", "a server requiring client certificates completed the handshake with a client that sent none", nil)
		}
	}
	if len(sel) > 0 {
		t := sel[0]
		run.Sample(map[string]any{"layer": "tls", "certificate": env.certs[t.cert].Attr, "pins": t.pins, "peer_role": t.role, "name_mode": t.mode, "expected": env.e})
	}
}

// ---------------------------------------------------------------- layer 3: real nodes on the in-memory mesh

type c09MeshCase struct {
	Dir    string // client: the listener verifies the dialing node; server: the dialer verifies the listener
	Attr   c09Attr
	Pins   string
	Dialer string // "A" or "P" (the node whose id contains ':')
	Note   string
	CertOf string // whose name the certificate is made for ("" = the node that must be named)
	Must   bool   // mandatory in the quick tier
}

func c09MeshCases() []c09MeshCase {
	cl := func(is, v, k, n string) c09Attr { return c09Attr{is, v, k, n} }
	return []c09MeshCase{
		{Dir: "client", Attr: cl("caC", "valid", "client", "id-expected"), Dialer: "A", Must: true},
		{Dir: "client", Attr: cl("caC", "valid", "both", "other"), Dialer: "A", Must: true, Note: "other-node-cert"},
		{Dir: "client", Attr: cl("caC", "valid", "both", "id-expected"), Dialer: "P", CertOf: "A", Note: "colon-prefix", Must: true},
		{Dir: "client", Attr: cl("caC", "valid", "both", "id-expected"), Dialer: "P", Note: "colon-id", Must: true},
		{Dir: "server", Attr: cl("caS", "valid", "server", "id-expected"), Dialer: "A", Pins: "none", Must: true},
		{Dir: "server", Attr: cl("caS", "valid", "both", "other"), Dialer: "A", Pins: "none", Must: true, Note: "other-node-cert"},
		{Dir: "client", Attr: cl("caC", "valid", "both", "several-with"), Dialer: "A"},
		{Dir: "client", Attr: cl("caC", "valid", "both", "several-without"), Dialer: "A"},
		{Dir: "client", Attr: cl("caC", "expired", "both", "id-expected"), Dialer: "A"},
		{Dir: "client", Attr: cl("caC", "expired-recent", "both", "id-expected"), Dialer: "A"},
		{Dir: "client", Attr: cl("caC", "notyet", "both", "id-expected"), Dialer: "A"},
		{Dir: "client", Attr: cl("caS", "valid", "both", "id-expected"), Dialer: "A"},
		{Dir: "client", Attr: cl("lookalike-caC", "valid", "both", "id-expected"), Dialer: "A"},
		{Dir: "client", Attr: cl("self-signed", "valid", "both", "id-expected"), Dialer: "A"},
		{Dir: "client", Attr: cl("caC-via-intermediate", "valid", "both", "id-expected"), Dialer: "A"},
		{Dir: "client", Attr: cl("caC-via-expired-intermediate", "valid", "both", "id-expected"), Dialer: "A"},
		{Dir: "client", Attr: cl("caC", "valid", "server", "id-expected"), Dialer: "A"},
		{Dir: "client", Attr: cl("caC", "valid", "other", "id-expected"), Dialer: "A"},
		{Dir: "client", Attr: cl("caC", "valid", "none", "id-expected"), Dialer: "A"},
		{Dir: "client", Attr: cl("caC", "valid", "both", "dns-only"), Dialer: "A"},
		{Dir: "client", Attr: cl("caC", "valid", "both", "none"), Dialer: "A"},
		{Dir: "client", Attr: cl("caC", "valid", "both", "near-miss"), Dialer: "A"},
		{Dir: "client", Attr: cl("caC", "valid", "both", "foreign-oid"), Dialer: "A"},
		{Dir: "server", Attr: cl("caS", "valid", "both", "several-without"), Dialer: "A", Pins: "none"},
		{Dir: "server", Attr: cl("caS", "expired", "both", "id-expected"), Dialer: "A", Pins: "none"},
		{Dir: "server", Attr: cl("caS", "notyet", "both", "id-expected"), Dialer: "A", Pins: "none"},
		{Dir: "server", Attr: cl("caC", "valid", "both", "id-expected"), Dialer: "A", Pins: "none"},
		{Dir: "server", Attr: cl("lookalike-caS", "valid", "both", "id-expected"), Dialer: "A", Pins: "none"},
		{Dir: "server", Attr: cl("self-signed", "valid", "both", "id-expected"), Dialer: "A", Pins: "none"},
		{Dir: "server", Attr: cl("caS-via-nonCA-intermediate", "valid", "both", "id-expected"), Dialer: "A", Pins: "none"},
		{Dir: "server", Attr: cl("caS", "valid", "client", "id-expected"), Dialer: "A", Pins: "none"},
		{Dir: "server", Attr: cl("caS", "valid", "both", "dns-only"), Dialer: "A", Pins: "none"},
		{Dir: "server", Attr: cl("caS", "valid", "both", "near-miss"), Dialer: "A", Pins: "none"},
		{Dir: "server", Attr: cl("caS", "valid", "both", "none"), Dialer: "A", Pins: "none"},
		{Dir: "server", Attr: cl("caS", "valid", "both", "id-expected"), Dialer: "A", Pins: "nonmatch-32"},
		{Dir: "server", Attr: cl("caS", "valid", "both", "id-expected"), Dialer: "A", Pins: "match-sha256"},
		{Dir: "server", Attr: cl("caS", "valid", "both", "id-expected"), Dialer: "A", Pins: "prefix-31-of-32"},
	}
}

// refusalText: error texts that mean "the TLS layer said no" (as opposed to the mesh not delivering).
func refusalText(s string) bool {
	for _, k := range []string{"CRYPTO_ERROR", "tls:", "x509", "certificate", "RVF", "Receptor node ID", "configuration refused"} {
		if strings.Contains(s, k) {
			return true
		}
	}
	return false
}

// dialEcho: established iff a byte written by the dialer comes back from the listener's accepted stream.
func dialEcho(inst *netceptor.Netceptor, node, svc string, cfg *tls.Config) (established bool, detail string) {
	ctx, cancel := context.WithTimeout(context.Background(), 25*time.Second)
	defer cancel()
	conn, err := inst.DialContext(ctx, node, svc, cfg)
	if err != nil {
		return false, "dial: " + err.Error()
	}
	defer conn.Close()
	_ = conn.SetDeadline(time.Now().Add(25 * time.Second))
	if _, err := conn.Write([]byte{0x5a}); err != nil {
		return false, "write: " + err.Error()
	}
	buf := make([]byte, 1)
	if _, err := io.ReadFull(conn, buf); err != nil {
		return false, "read: " + err.Error()
	}
	if buf[0] != 0x5a {
		return false, fmt.Sprintf("read: wrong byte %#x", buf[0])
	}
	return true, "echo received"
}

func echoAccept(li *netceptor.Listener, stop chan struct{}, accepted chan<- string) {
	for {
		c, err := li.Accept()
		select {
		case <-stop:
			return
		default:
		}
		if err != nil {
			if strings.Contains(err.Error(), "listener closed") {
				return
			}
			time.Sleep(5 * time.Millisecond)
			continue
		}
		go func(c net.Conn) {
			defer c.Close()
			_ = c.SetDeadline(time.Now().Add(25 * time.Second))
			buf := make([]byte, 1)
			if _, err := io.ReadFull(c, buf); err != nil {
				return
			}
			select {
			case accepted <- c.RemoteAddr().String():
			default:
			}
			_, _ = c.Write(buf)
			_, _ = c.Read(buf) // wait for the dialer to close
		}(c)
	}
}

func (env *c09Env) meshLayer(rng *mrand.Rand) {
	run := env.run
	all := c09MeshCases()
	type idset struct{ A, B, Z, Z2, label string }
	sets := []idset{{fmt.Sprintf("c09a%d", run.Seed), fmt.Sprintf("c09b%d", run.Seed), fmt.Sprintf("c09z%d", run.Seed), "c09-y", "ascii"}}
	if !run.Quick() {
		sets = append(sets, idset{fmt.Sprintf("Nodé ü/A%d", run.Seed), fmt.Sprintf("b.node/β %d", run.Seed), fmt.Sprintf("Nodé ü/a%d", run.Seed), "日本", "utf8"})
	}
	for si, ids := range sets {
		// which cases
		var sel []c09MeshCase
		extra := run.Pick(2, len(all))
		if si == 1 {
			extra = 17
		}
		perm := rng.Perm(len(all))
		pick := map[int]bool{}
		for i, c := range all {
			if c.Must {
				pick[i] = true
			}
		}
		for _, i := range perm {
			if extra == 0 {
				break
			}
			if !pick[i] {
				pick[i] = true
				extra--
			}
		}
		for i, c := range all {
			if pick[i] {
				sel = append(sel, c)
			}
		}
		env.meshRun(ids.A, ids.B, ids.Z, ids.Z2, ids.label, sel, si)
	}
}

func (env *c09Env) meshRun(idA, idB, idZ, idZ2, label string, cases []c09MeshCase, si int) {
	run := env.run
	idP := idA + ":x"
	m := mesh.New(mesh.DefaultConsts(), run.Seed*131+int64(si))
	defer m.Shutdown()
	nA, nB, nP := m.AddNode(idA).Inst(), m.AddNode(idB).Inst(), m.AddNode(idP).Inst()
	m.Connect(idA, idB, 1, false)
	m.Connect(idP, idB, 1, false)
	deadline := time.Now().Add(40 * time.Second)
	for {
		ra, rp, rb := nA.Status().RoutingTable, nP.Status().RoutingTable, nB.Status().RoutingTable
		if ra[idB] != "" && rp[idB] != "" && rb[idA] != "" && rb[idP] != "" {
			break
		}
		if time.Now().After(deadline) {
			run.Eval(len(cases))
			run.Inconclusive("C09 mesh (" + label + "): routes did not form before the watchdog")
			return
		}
		time.Sleep(50 * time.Millisecond)
	}
	pfx := fmt.Sprintf("m%d-", si)
	// B's mutually authenticated listener, configured the way the daemon does it
	bCert := env.pki.issue(c09Attr{"caS", "valid", "both", "id-expected"}, idB, idZ, idZ2, 1)
	bCrt, bKey := c09Write(pfx+"b.crt", bCert.certPEM()), c09Write(pfx+"b.key", bCert.keyPEM())
	mtlsCfg, err := env.serverConfig(nB, "mtls", bCrt, bKey, false, true, nil, true, false)
	if err != nil {
		run.Violation("mesh:control-refused:config:client:receptor", "PrepareTLSServerConfig refuses a clean server certificate naming its own node: "+err.Error(), map[string]any{"node": idB})
		return
	}
	liM, err := nB.Listen("c09mtls", mtlsCfg)
	if err != nil {
		run.Inconclusive("C09 mesh: Listen failed: " + err.Error())
		return
	}
	stop := make(chan struct{})
	defer close(stop)
	acc := make(chan string, 64)
	go echoAccept(liM, stop, acc)
	// Listeners are deliberately NOT closed one by one: netceptor.Listener.Close closes the packet conn
	// before the QUIC listener, which can deadlock inside quic-go (Transport.close holds the transport
	// mutex and waits for the server's close-once while Listener.Close holds that once and waits for the
	// mutex). That is C17's subject; here everything is torn down by mesh.Shutdown at the end.
	insts := map[string]*netceptor.Netceptor{"A": nA, "P": nP}
	nodeIDs := map[string]string{"A": idA, "P": idP}
	for i, mc := range cases {
		dialer, dialerID := insts[mc.Dialer], nodeIDs[mc.Dialer]
		name := fmt.Sprintf("%sc%d", pfx, i)
		var cs *c09Case
		var cond c09Conds
		var clean, established bool
		var detail string
		if mc.Dir == "client" {
			// the identity that must be named is the node the packets come from
			certFor := dialerID
			if mc.CertOf != "" {
				certFor = nodeIDs[mc.CertOf]
			}
			c := env.pki.issue(mc.Attr, certFor, idZ, idZ2, i)
			crt, key := c09Write(name+".crt", c.certPEM()), c09Write(name+".key", c.keyPEM())
			cs = env.newCase("mesh", c, "none", "client", "receptor", dialerID)
			cond = c.conds("client", "receptor", true, dialerID, nil)
			clean = c.clean("client", "receptor", true, "none") && certFor == dialerID
			names := false
			for _, id := range c.IDs {
				names = names || id == dialerID
			}
			cfg, err := env.clientConfig(dialer, name, crt, key, !names, nil, true, idB, "receptor", false)
			if err != nil {
				detail = err.Error()
			} else {
				established, detail = dialEcho(dialer, idB, "c09mtls", cfg)
				select {
				case ra := <-acc:
					detail += "; listener saw remote address " + ra
				default:
				}
			}
		} else {
			c := env.pki.issue(mc.Attr, idB, idZ, idZ2, i)
			crt, key := c09Write(name+".crt", c.certPEM()), c09Write(name+".key", c.keyPEM())
			pins := c.pins(mc.Pins)
			cs = env.newCase("mesh", c, mc.Pins, "server", "receptor", idB)
			cond = c.conds("server", "receptor", true, idB, pins)
			clean = c.clean("server", "receptor", true, mc.Pins)
			scfg, err := env.serverConfig(nB, name, crt, key, true, false, nil, true, false)
			if err != nil {
				run.Eval(1)
				run.Inconclusive("C09 mesh: server configuration for a hostile certificate could not be built: " + err.Error())
				continue
			}
			svc := fmt.Sprintf("s%d", i)
			li, err := nB.Listen(svc, scfg)
			if err != nil {
				run.Eval(1)
				run.Inconclusive("C09 mesh: Listen failed: " + err.Error())
				continue
			}
			st := make(chan struct{})
			go echoAccept(li, st, make(chan string, 4))
			cfg, err := env.clientConfig(dialer, name, "", "", true, pins, true, idB, "receptor", i%2 == 0)
			if err != nil {
				detail = err.Error()
			} else {
				established, detail = dialEcho(dialer, idB, svc, cfg)
			}
			close(st)
			_ = li
		}
		cs.Note = mc.Note
		if label != "ascii" {
			if cs.Note != "" {
				cs.Note += "+"
			}
			cs.Note += label + "-ids"
		}
		if !established && !refusalText(detail) {
			// neither an echo nor a TLS refusal: the mesh did not deliver (watchdog) - undecided
			run.Eval(1)
			if cond.all() && clean {
				run.Inconclusive(fmt.Sprintf("C09 mesh %s: control neither connected nor was refused by TLS: %s", cs.tupleKey(), detail))
			} else {
				run.Count("mesh_no_connection_without_tls_refusal", 1)
				run.Distinct(cs.tupleKey())
			}
			continue
		}
		// the key of a finding must not depend on the id alphabet used
		keyNote := strings.TrimSuffix(strings.TrimSuffix(cs.Note, label+"-ids"), "+")
		full := cs.Note
		cs.Note = keyNote
		if keyNote == "other-node-cert" {
			cs.Note = ""
		}
		env.judge(cs, cond, clean, established, detail+" ["+full+"]")
		if i < 3 && si == 0 {
			run.Sample(map[string]any{"layer": "mesh", "direction": mc.Dir, "dialer": dialerID, "listener": idB, "certificate": mc.Attr, "certificate_node_ids": cs.CertIDs, "note": full, "established": established, "detail": detail})
		}
	}
}

// ---------------------------------------------------------------- layer 4: the TCP backend over loopback

func (env *c09Env) backendLayer(rng *mrand.Rand) {
	run := env.run
	const host = "localhost"
	if addrs, err := net.LookupHost(host); err != nil || len(addrs) == 0 {
		run.Extra("backend_layer", "skipped: localhost does not resolve")
		return
	}
	nodeID := fmt.Sprintf("c09-be-node-%d", run.Seed)
	nc := netceptor.New(context.Background(), nodeID)
	nc.Logger.SetOutput(io.Discard)
	defer nc.Shutdown()
	srv := env.pki.issue(c09Attr{"caS", "valid", "both", "both"}, nodeID, "x", "y", 0)
	srvCrt, srvKey := c09Write("be-srv.crt", srv.certPEM()), c09Write("be-srv.key", srv.keyPEM())
	type bcase struct {
		role string
		attr c09Attr
		pins string
	}
	cases := []bcase{
		{"server", c09Attr{"caS", "valid", "server", "both"}, "none"},
		{"server", c09Attr{"caS", "valid", "both", "dns-only"}, "match-sha512"},
		{"server", c09Attr{"caS", "valid", "both", "other"}, "none"},
		{"server", c09Attr{"caS", "valid", "both", "id-expected"}, "none"},
		{"server", c09Attr{"caS", "expired", "both", "both"}, "none"},
		{"server", c09Attr{"caC", "valid", "both", "both"}, "none"},
		{"server", c09Attr{"self-signed", "valid", "both", "both"}, "none"},
		{"server", c09Attr{"caS", "valid", "client", "both"}, "none"},
		{"server", c09Attr{"caS", "valid", "both", "both"}, "nonmatch-32"},
		{"client", c09Attr{"caC", "valid", "client", "both"}, "none"},
		{"client", c09Attr{"caC", "valid", "both", "other"}, "match-sha256"},
		{"client", c09Attr{"caC", "expired", "both", "both"}, "none"},
		{"client", c09Attr{"caS", "valid", "both", "both"}, "none"},
		{"client", c09Attr{"lookalike-caC", "valid", "both", "both"}, "none"},
		{"client", c09Attr{"self-signed", "valid", "both", "both"}, "none"},
		{"client", c09Attr{"caC", "valid", "server", "both"}, "none"},
		{"client", c09Attr{"caC", "valid", "both", "both"}, "nonmatch-64"},
	}
	var wg sync.WaitGroup
	for i, bc := range cases {
		wg.Add(1)
		go func(i int, bc bcase) {
			defer wg.Done()
			c := env.pki.issue(bc.attr, host, "other.localhost", "elsewhere", i)
			pins := c.pins(bc.pins)
			name := fmt.Sprintf("be%d", i)
			ctx, cancel := context.WithCancel(context.Background())
			defer cancel()
			bwg := &sync.WaitGroup{}
			var established bool
			var detail string
			ne := bc.role == "server"
			exp := host
			if !ne {
				exp = ""
			}
			cs := env.newCase("backend", c, bc.pins, bc.role, "dns", exp)
			if bc.role == "server" {
				// receptor's dialer connects to a harness TLS server presenting the generated certificate
				tc := c.tlsCert()
				li, err := tls.Listen("tcp", "127.0.0.1:0", &tls.Config{Certificates: []tls.Certificate{tc}, MinVersion: tls.VersionTLS12})
				if err != nil {
					run.Eval(1)
					run.Inconclusive("C09 backend: listen: " + err.Error())
					return
				}
				defer li.Close()
				go func() {
					for {
						conn, err := li.Accept()
						if err != nil {
							return
						}
						go func() {
							_ = conn.SetDeadline(time.Now().Add(30 * time.Second))
							_ = conn.(*tls.Conn).Handshake()
							_, _ = io.Copy(io.Discard, conn)
							conn.Close()
						}()
					}
				}()
				_, port, _ := net.SplitHostPort(li.Addr().String())
				cfg, err := env.clientConfig(nc, name, "", "", true, pins, i%2 == 0, host, "dns", false)
				if err != nil {
					detail = err.Error()
				} else {
					// tcp.go resolves the name itself; 127.0.0.1 is what localhost means here
					d, _ := backends.NewTCPDialer(net.JoinHostPort("127.0.0.1", port), false, cfg, env.log)
					ch, err := d.Start(ctx, bwg)
					if err != nil {
						detail = "start: " + err.Error()
					} else {
						select {
						case sess, ok := <-ch:
							established = ok && sess != nil
							detail = fmt.Sprintf("dialer session delivered=%v", established)
							if established {
								_ = sess.Close()
							}
						case <-time.After(40 * time.Second):
							run.Eval(1)
							run.Inconclusive("C09 backend: dialer watchdog")
							return
						}
					}
				}
			} else {
				// a harness TLS client presenting the generated certificate connects to receptor's listener
				scfg, err := env.serverConfig(nc, name, srvCrt, srvKey, false, true, pins, i%2 == 0, true)
				if err != nil {
					detail = err.Error()
				} else {
					l, _ := backends.NewTCPListener("127.0.0.1:0", scfg, env.log)
					ch, err := l.Start(ctx, bwg)
					if err != nil {
						run.Eval(1)
						run.Inconclusive("C09 backend: listener start: " + err.Error())
						return
					}
					tc := c.tlsCert()
					payload := []byte(fmt.Sprintf("c09-backend-%d", i))
					frame := append([]byte{byte(len(payload)), byte(len(payload) >> 8)}, payload...)
					go func() {
						conn, err := tls.Dial("tcp", l.GetAddr(), &tls.Config{InsecureSkipVerify: true,
							GetClientCertificate: func(*tls.CertificateRequestInfo) (*tls.Certificate, error) { return &tc, nil }})
						if err != nil {
							return
						}
						_ = conn.SetDeadline(time.Now().Add(30 * time.Second))
						_, _ = conn.Write(frame)
						_, _ = io.Copy(io.Discard, conn)
						conn.Close()
					}()
					select {
					case sess, ok := <-ch:
						if !ok || sess == nil {
							detail = "listener delivered no session"
							break
						}
						data, err := sess.Recv(20 * time.Second)
						established = err == nil && bytes.Equal(data, payload)
						detail = fmt.Sprintf("first message through the session: err=%v", err)
						_ = sess.Close()
					case <-time.After(40 * time.Second):
						run.Eval(1)
						run.Inconclusive("C09 backend: listener watchdog")
						return
					}
				}
			}
			env.judge(cs, c.conds(bc.role, "dns", ne, host, pins), c.clean(bc.role, "dns", ne, bc.pins), established, detail)
		}(i, bc)
	}
	wg.Wait()
}
