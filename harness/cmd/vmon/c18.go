package main

import (
	"fmt"
	"math/rand"
	"sort"
	"strconv"
	"strings"
	"sync"
	"time"

	"verif/harness/internal/ev"
	"verif/harness/internal/memnet"
	"verif/harness/internal/mesh"
	"verif/harness/internal/wire"

	"github.com/ansible/receptor/pkg/netceptor"
)

// C18 — service advertisements converge; a withdrawn service is never resurrected.
//
// Every advertisement instance carries a unique generation tag, so each observation of a
// node's advertisement table identifies the instance it lists. All nodes are polled every
// few milliseconds; per node and (owner, service) the observed sequence must never go from
// a newer to an older generation, and never list a generation again after the service had
// been seen absent (withdrawn) unless a newer generation was advertised. After the last event
// and a bounded number of advertisement rounds every node's table must equal the harness's
// ledger of open advertised listeners on reachable nodes, with type and tags.

func init() { register("C18", runC18) }

type c18Event struct {
	Kind   string `json:"kind"` // open | close | join
	Node   string `json:"node"`
	Svc    string `json:"svc,omitempty"`
	Stream bool   `json:"stream,omitempty"`
	Peer   string `json:"peer,omitempty"`
	GapMs  int    `json:"gap_ms"`
}

type c18Spec struct {
	Idx     int        `json:"idx"`
	Shape   string     `json:"shape"` // tree | triangle | cycle
	Nodes   []string   `json:"nodes"`
	Links   [][2]string `json:"links"`
	Reorder bool       `json:"reorder_type2_per_link"`
	DelayMs int        `json:"ctl_delay_max_ms"`
	Events  []c18Event `json:"events"`
}

func genC18(rng *rand.Rand, idx int) *c18Spec {
	sp := &c18Spec{Idx: idx}
	n := 2 + rng.Intn(5)
	for i := 0; i < n; i++ {
		sp.Nodes = append(sp.Nodes, fmt.Sprintf("a%d", i))
	}
	switch r := rng.Intn(3); {
	case r == 0 || n < 3:
		sp.Shape = "tree"
		for i := 1; i < n; i++ {
			sp.Links = append(sp.Links, [2]string{sp.Nodes[i], sp.Nodes[rng.Intn(i)]})
		}
		sp.Reorder = rng.Intn(2) == 0
	case r == 1:
		sp.Shape = "triangle"
		sp.Links = [][2]string{{sp.Nodes[0], sp.Nodes[1]}, {sp.Nodes[1], sp.Nodes[2]}, {sp.Nodes[2], sp.Nodes[0]}}
		for i := 3; i < n; i++ {
			sp.Links = append(sp.Links, [2]string{sp.Nodes[i], sp.Nodes[rng.Intn(i)]})
		}
	default:
		sp.Shape = "cycle"
		for i := 0; i < n; i++ {
			sp.Links = append(sp.Links, [2]string{sp.Nodes[i], sp.Nodes[(i+1)%n]})
		}
	}
	sp.DelayMs = []int{5, 20, 80}[rng.Intn(3)]
	open := map[string]bool{}
	svcs := []string{"s1", "s2"}
	ne := 6 + rng.Intn(10)
	joined := 0
	for k := 0; k < ne; k++ {
		e := c18Event{GapMs: []int{0, 0, 20, 100, 300, 900}[rng.Intn(6)]}
		node := sp.Nodes[rng.Intn(len(sp.Nodes))]
		svc := svcs[rng.Intn(len(svcs))]
		key := node + "/" + svc
		switch {
		case rng.Intn(12) == 0 && joined < 2:
			joined++
			e.Kind = "join"
			e.Node = fmt.Sprintf("j%d", joined)
			e.Peer = sp.Nodes[rng.Intn(len(sp.Nodes))]
		case open[key]:
			e.Kind, e.Node, e.Svc = "close", node, svc
			open[key] = false
		default:
			e.Kind, e.Node, e.Svc, e.Stream = "open", node, svc, rng.Intn(3) == 0
			open[key] = true
		}
		sp.Events = append(sp.Events, e)
	}
	return sp
}

type c18Obs struct {
	T   time.Duration
	Gen int // 0 = absent
}

type c18Ledger struct {
	Gen    int
	Stream bool
	Tags   map[string]string
}

func c18Key(owner, svc string) string { return owner + "/" + svc }

func runC18Trial(run *ev.Run, sp *c18Spec, seed int64) {
	startLagProbe()
	trialStart := time.Now()
	c := mesh.DefaultConsts()
	c.RouteUpdate = 300 * time.Millisecond
	c.ServiceAd = 800 * time.Millisecond
	c.Idle = time.Hour
	m := mesh.New(c, seed)
	defer m.Shutdown()
	// tap: advertisement rounds originated per node (non-cancel type-2 whose NodeID is the sender), cancels, overtakes
	var tmu sync.Mutex
	adsOriginated := map[string]int{}
	cancels := 0
	type flight struct{ cancelSeen bool }
	adSeq := map[string]uint64{} // link|dir|key -> last ad time seen on that link direction (for overtakes)
	overtakes := 0
	m.Net.Tap = func(e memnet.TapEvent) {
		if len(e.Data) == 0 || e.Data[0] != wire.TAdvert || e.Dir != "recv" {
			if len(e.Data) > 0 && e.Data[0] == wire.TAdvert && e.Dir == "send" {
				if a, err := wire.DecodeAdvert(e.Data); err == nil && a.NodeID == e.From && !a.Cancel {
					tmu.Lock()
					adsOriginated[e.From]++
					tmu.Unlock()
				}
			}
			return
		}
		a, err := wire.DecodeAdvert(e.Data)
		if err != nil {
			return
		}
		tmu.Lock()
		defer tmu.Unlock()
		k := e.Link + ">" + e.To + "|" + a.NodeID + "/" + a.Service
		if a.Cancel {
			cancels++
			adSeq[k] = uint64(a.Time.UnixNano())
		} else if last, ok := adSeq[k]; ok && uint64(a.Time.UnixNano()) < last {
			overtakes++ // an advertisement older than an already delivered withdrawal arrives on the same link
		}
	}
	for _, id := range sp.Nodes {
		m.AddNode(id)
	}
	plan := memnet.Plan{CtlDelayMax: time.Duration(sp.DelayMs) * time.Millisecond, Type2Reorder: sp.Reorder, Type2MinWait: 2 * time.Millisecond}
	for _, l := range sp.Links {
		li := m.Connect(l[0], l[1], 1, false)
		li.L.SetPlan(plan)
	}
	// ---- observers
	var omu sync.Mutex
	obs := map[string]map[string][]c18Obs{} // node -> key -> observations (changes only)
	stop := make(chan struct{})
	var owg sync.WaitGroup
	start := time.Now()
	observe := func(id string) {
		defer owg.Done()
		for {
			select {
			case <-stop:
				return
			default:
			}
			nd := m.Node(id)
			if nd != nil && nd.IsAlive() {
				st := nd.Inst().Status()
				cur := map[string]int{}
				for _, a := range st.Advertisements {
					g, _ := strconv.Atoi(a.Tags["gen"])
					cur[c18Key(a.NodeID, a.Service)] = g
				}
				omu.Lock()
				if obs[id] == nil {
					obs[id] = map[string][]c18Obs{}
				}
				for k, g := range cur {
					l := obs[id][k]
					if len(l) == 0 || l[len(l)-1].Gen != g {
						obs[id][k] = append(l, c18Obs{time.Since(start), g})
					}
				}
				for k, l := range obs[id] {
					if _, ok := cur[k]; !ok && len(l) > 0 && l[len(l)-1].Gen != 0 {
						obs[id][k] = append(l, c18Obs{time.Since(start), 0})
					}
				}
				omu.Unlock()
			}
			time.Sleep(4 * time.Millisecond)
		}
	}
	for _, id := range sp.Nodes {
		owg.Add(1)
		go observe(id)
	}
	time.Sleep(300 * time.Millisecond)
	// ---- events
	ledger := map[string]*c18Ledger{}
	closers := map[string]func(){}
	gens := map[string]int{}
	kinds := map[string]bool{}
	for _, e := range sp.Events {
		time.Sleep(time.Duration(e.GapMs) * time.Millisecond)
		switch e.Kind {
		case "open":
			k := c18Key(e.Node, e.Svc)
			gens[k]++
			tags := map[string]string{"gen": fmt.Sprint(gens[k]), "owner": e.Node, "note": fmt.Sprintf("t%d-%s", sp.Idx, k)}
			inst := m.Node(e.Node).Inst()
			if e.Stream {
				li, err := inst.ListenAndAdvertise(e.Svc, nil, tags)
				if err != nil {
					continue
				}
				closers[k] = func() { _ = li.Close() }
			} else {
				pc, err := inst.ListenPacketAndAdvertise(e.Svc, tags)
				if err != nil {
					continue
				}
				closers[k] = func() { _ = pc.Close() }
			}
			ledger[k] = &c18Ledger{Gen: gens[k], Stream: e.Stream, Tags: tags}
		case "close":
			k := c18Key(e.Node, e.Svc)
			if f := closers[k]; f != nil {
				f()
				delete(closers, k)
				delete(ledger, k)
			}
		case "join":
			m.AddNode(e.Node)
			li := m.Connect(e.Node, e.Peer, 1, false)
			li.L.SetPlan(plan)
			owg.Add(1)
			go observe(e.Node)
		}
		kinds[e.Kind] = true
		run.Count("events_"+e.Kind, 1)
	}
	// ---- bounded progress: every advertising live node emits >= 4 more advertisement rounds
	base := map[string]int{}
	tmu.Lock()
	for k, v := range adsOriginated {
		base[k] = v
	}
	tmu.Unlock()
	owners := map[string]int{}
	for k := range ledger {
		owners[strings.SplitN(k, "/", 2)[0]]++
	}
	waitRounds := func(r int) bool {
		deadline := time.Now().Add(60 * time.Second)
		for time.Now().Before(deadline) {
			ok := true
			tmu.Lock()
			for o, nsvc := range owners {
				if adsOriginated[o]-base[o] < r*nsvc {
					ok = false
				}
			}
			tmu.Unlock()
			if ok {
				return true
			}
			time.Sleep(50 * time.Millisecond)
		}
		return false
	}
	nominal := 4 * c.ServiceAd
	if !waitRounds(4) {
		close(stop)
		owg.Wait()
		run.Eval(1)
		run.Inconclusive(fmt.Sprintf("C18 trial %d: watchdog before 4 advertisement rounds", sp.Idx))
		return
	}
	if len(owners) == 0 {
		time.Sleep(nominal)
	}
	// ---- convergence: evaluated three times, one round apart
	type diff struct{ Node, Key, Class, Info string }
	evaluate := func() []diff {
		ds := []diff{}
		topo := m.Topo()
		d := topo.Dist()
		for _, n := range topo.Nodes {
			st := m.Node(n).Inst().Status()
			got := map[string]*netceptor.ServiceAdvertisement{}
			for _, a := range st.Advertisements {
				got[c18Key(a.NodeID, a.Service)] = a
			}
			for k, l := range ledger {
				owner := strings.SplitN(k, "/", 2)[0]
				if dd, ok := d[n][owner]; !ok || dd > 1e300 {
					continue
				}
				a := got[k]
				if a == nil {
					ds = append(ds, diff{n, k, "missing", fmt.Sprintf("open advertised service (gen %d) not listed", l.Gen)})
					continue
				}
				wantType := byte(0)
				if l.Stream {
					wantType = 1
				}
				if a.ConnType != wantType {
					ds = append(ds, diff{n, k, "wrong-type", fmt.Sprintf("listed with type %d, expected %d", a.ConnType, wantType)})
				}
				for tk, tv := range l.Tags {
					if a.Tags[tk] != tv {
						ds = append(ds, diff{n, k, "wrong-tags", fmt.Sprintf("tag %s=%q, expected %q", tk, a.Tags[tk], tv)})
						break
					}
				}
			}
			for k, a := range got {
				if _, ok := ledger[k]; !ok {
					ds = append(ds, diff{n, k, "extra", fmt.Sprintf("lists gen %s of a service that is not open", a.Tags["gen"])})
				}
			}
		}
		return ds
	}
	verd := [][]diff{}
	rebase := func() {
		tmu.Lock()
		for k, v := range adsOriginated {
			base[k] = v
		}
		tmu.Unlock()
	}
	threeLooks := func() {
		verd = verd[:0]
		for i := 0; i < 3; i++ {
			verd = append(verd, evaluate())
			if i < 2 {
				rebase()
				if len(owners) > 0 {
					waitRounds(1)
				} else {
					time.Sleep(c.ServiceAd)
				}
			}
		}
	}
	threeLooks()
	for _, v := range verd {
		if len(v) != 0 {
			// not (yet) equal to the ledger at some look: rounds are counted where advertisements are sent, and on a
			// loaded machine the receivers may lag behind. Six more rounds and three fresh looks decide; waiting
			// longer can hide a violation but never make one.
			rebase()
			if len(owners) > 0 {
				waitRounds(6)
			} else {
				time.Sleep(6 * c.ServiceAd)
			}
			run.Count("convergence_verdicts_extended", 1)
			threeLooks()
			break
		}
	}
	close(stop)
	owg.Wait()
	run.Eval(1)
	tmu.Lock()
	ot, cc := overtakes, cancels
	tmu.Unlock()
	run.Count("withdrawals_delivered", int64(cc))
	run.Count("ads_overtaken_by_withdrawal_on_a_link", int64(ot))
	// ---- per-node observation sequences
	omu.Lock()
	defer omu.Unlock()
	resurrected := map[string]bool{} // node|key
	for node, per := range obs {
		for k, l := range per {
			maxGen := 0
			absentAfter := 0 // highest generation that had been listed before an observed absence
			for _, o := range l {
				if o.Gen == 0 {
					absentAfter = maxGen
					continue
				}
				switch {
				case absentAfter > 0 && o.Gen <= absentAfter:
					resurrected[node+"|"+k] = true
					cls := sp.Shape
					if sp.Reorder {
						cls += "+reorder"
					}
					run.Violation("resurrect:late-ad", fmt.Sprintf("trial %d (%s): node %s listed generation %d of %s again at %v after the service had been seen withdrawn (highest generation before: %d)", sp.Idx, cls, node, o.Gen, k, o.T.Round(time.Millisecond), absentAfter), map[string]any{"spec": sp, "node": node, "service": k, "observations": l})
				case o.Gen < maxGen:
					run.Violation("older-replaced-newer", fmt.Sprintf("trial %d: node %s listed generation %d of %s after having listed generation %d", sp.Idx, node, o.Gen, k, maxGen), map[string]any{"spec": sp, "node": node, "service": k, "observations": l})
				}
				if o.Gen > maxGen {
					maxGen = o.Gen
				}
			}
			run.Count("observation_changes", int64(len(l)))
		}
	}
	// ---- convergence verdict
	allWrong, allRight := true, true
	for _, v := range verd {
		if len(v) == 0 {
			allWrong = false
		} else {
			allRight = false
		}
	}
	switch {
	case allRight:
		run.Count("trials_converged", 1)
	case allWrong:
		classes := map[string]bool{}
		for _, d := range verd[2] {
			if d.Class == "extra" && resurrected[d.Node+"|"+d.Key] {
				continue // the lasting consequence of a resurrection already reported above
			}
			classes[d.Class] = true
		}
		if st, mx, tot := starved(trialStart); st && len(classes) > 0 {
			// watchdog, not a verdict: this process itself was starved of CPU while the trial ran
			run.Count("verdicts_withheld_because_the_process_was_starved", 1)
			run.Inconclusive(fmt.Sprintf("C18 trial %d: tables differ from the ledger, but this process was starved while the trial ran (largest scheduling delay %v, %v in total): no verdict", sp.Idx, mx.Round(time.Millisecond), tot.Round(time.Millisecond)))
		} else if len(classes) > 0 {
			cl := []string{}
			for c := range classes {
				cl = append(cl, c)
			}
			sort.Strings(cl)
			run.Violation("converge:"+strings.Join(cl, "+"), fmt.Sprintf("trial %d: advertisement tables differ from the ledger at 3 evaluations after >= 4 advertisement rounds and again at 3 evaluations >= 6 rounds later: %v", sp.Idx, verd[2][0]), map[string]any{"spec": sp, "diffs": verd[2]})
		}
	default:
		run.Inconclusive(fmt.Sprintf("C18 trial %d: convergence verdict unstable", sp.Idx))
	}
	if ot > 0 || (kinds["close"] && len(sp.Nodes) >= 3) {
		run.Distinct(fmt.Sprintf("%s|reorder=%v|n=%d|ev=%d|overtakes=%v", sp.Shape, sp.Reorder, len(sp.Nodes), len(sp.Events), ot > 0))
	}
	if sp.Idx < 2 {
		run.Sample(map[string]any{"spec": sp, "withdrawals_delivered": cc, "overtakes": ot})
	}
}

func runC18(tier string, args []string) {
	run := ev.New("C18", tier, "exploration")
	run.Rule("histories on trees (half of them with per-link reordering of type-2 messages), triangles and longer cycles of 2-6 nodes: seeded open/close/re-open of advertised datagram and stream listeners with unique generation tags, nodes joining late, per-link control delay; every node's advertisement table is polled every ~4 ms; per node and (owner, service): no older generation after a newer one, no generation listed again after an observed absence; after the last event and >= 4 advertisement rounds of every advertising node the tables must equal the ledger (type, tags) at 3 evaluations one round apart. distinct_nontrivial = distinct (shape, reorder, size, #events) histories containing a close on >= 3 nodes or a measured overtake of an advertisement by its withdrawal; tight churn: listeners opened and closed in quick succession while the advertisement timer runs every 2-4 ms; relay restart: the relay next to the owner restarts (knowing nothing of the owner afterwards, periodic re-advertisement far away) and the owner then closes its services - the far node must drop them")
	run.Assume("polling can miss transient states, which can only lose violations; type-2 messages get a >= 2 ms per-hop delay (a withdrawal without a matching entry is re-flooded and would otherwise circulate without bound in cyclic topologies)")
	n := run.Pick(30, 500)
	rng := rand.New(rand.NewSource(run.Seed*49979687 + 18))
	specs := []*c18Spec{}
	for i := 0; i < n; i++ {
		specs = append(specs, genC18(rng, i))
	}
	if len(args) >= 2 && args[0] == "--trial" {
		var idx int
		fmt.Sscan(args[1], &idx)
		specs = specs[idx : idx+1]
	}
	sem := make(chan struct{}, 16)
	var wg sync.WaitGroup
	for _, sp := range specs {
		wg.Add(1)
		sem <- struct{}{}
		go func(sp *c18Spec) {
			defer wg.Done()
			defer func() { <-sem }()
			runC18Trial(run, sp, run.Seed*1000+int64(sp.Idx))
		}(sp)
	}
	wg.Wait()
	if len(args) < 2 {
		var cw sync.WaitGroup
		csem := make(chan struct{}, 6) // these trials are CPU-hungry: a few at a time
		for i := 0; i < run.Pick(3, 12); i++ {
			cw.Add(1)
			go func(i int) {
				defer cw.Done()
				csem <- struct{}{}
				defer func() { <-csem }()
				runC18Churn(run, i, run.Seed*7000+int64(i))
			}(i)
		}
		for i := 0; i < run.Pick(3, 12); i++ {
			cw.Add(1)
			go func(i int) {
				defer cw.Done()
				csem <- struct{}{}
				defer func() { <-csem }()
				runC18Tight(run, i, run.Seed*7100+int64(i))
			}(i)
		}
		for i := 0; i < run.Pick(4, 24); i++ {
			cw.Add(1)
			go func(i int) {
				defer cw.Done()
				csem <- struct{}{}
				defer func() { <-csem }()
				runC18RelayRestart(run, i, run.Seed*7200+int64(i))
			}(i)
		}
		cw.Wait()
	}
	collectRaces(run, workDir())
	run.Finish(run.Pick(10, 60))
}
