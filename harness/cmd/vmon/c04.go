package main

import (
	"bytes"
	"fmt"
	"math/rand"
	"os"
	"os/exec"
	"path/filepath"
	"sort"
	"strings"
	"sync"
	"sync/atomic"
	"time"

	"verif/harness/internal/ctl"
	"verif/harness/internal/ev"
	"verif/harness/internal/prng"
)

// C04 — acknowledged work units survive crash/restart with identity and outcome.
//
// Runtime fault injection: the daemon (or a unit's runner process) is SIGKILLed at a named
// hook point (k-th hit), the daemon is restarted on the same data directory, and a ledger of
// everything the submitting client was told is compared with what the restarted node reports.

func init() { register("C04", runC04) }

type c04Obs struct {
	State         int    `json:"state"`
	Size          int64  `json:"size"`
	Detail        string `json:"detail"`
	RemoteUnitID  string `json:"remote_unit,omitempty"`
	RemoteStarted bool   `json:"remote_started,omitempty"`
}

type c04Unit struct {
	Label  string  `json:"label"`
	Remote bool    `json:"remote"`
	Spec   GenSpec `json:"spec"`
	// ledger (what the client was told before the crash)
	ID            string   `json:"id"`
	Seen          []c04Obs `json:"seen,omitempty"`
	SeenRunning   bool     `json:"seen_running"`
	SeenFinal     *c04Obs  `json:"seen_final,omitempty"`
	RemoteUnitID  string   `json:"remote_unit,omitempty"`
	RemoteStarted bool     `json:"remote_started"`
	ResultsOK     bool     `json:"results_ok_before_crash"`
	mu            sync.Mutex
}

type c04Crash struct {
	Role  string `json:"role"`
	Point string `json:"point"`
	K     int    `json:"k"`
}

func (c c04Crash) String() string { return fmt.Sprintf("%s:%s@%d", c.Role, c.Point, c.K) }

type c04Spec struct {
	Idx     int        `json:"idx"`
	Crashes []c04Crash `json:"crashes"` // first one during the workload, later ones during restarts
	Seed    int64      `json:"seed"`
	// CutAtRestartMs: the link to the remote node is down while the daemon restarts and for this long afterwards
	// (the first attempts to reach the remote node fail); the remote units must be followed all the same
	CutAtRestartMs int    `json:"cut_at_restart_ms,omitempty"`
	// LateKill: the script ends (the daemon is killed) as soon as some runner is six hits short of the runner kill
	// point of this trial. The runners of the first daemon generation stay alive across the restart, so the kill is
	// reached while the restarted daemon is already following that runner.
	LateKill bool `json:"late_kill,omitempty"`
	Strace         string `json:"strace,omitempty"` // syscall-level injector instead of a hook (thorough)
	StraceN        int    `json:"strace_n,omitempty"`
}

func c04Units(rng *rand.Rand) []*c04Unit {
	long := func() []GenChunk {
		cs := []GenChunk{}
		for i := 0; i < 7; i++ {
			cs = append(cs, GenChunk{N: 100 + rng.Intn(5000), PauseMs: 350 + rng.Intn(150)})
		}
		return cs
	}
	us := []*c04Unit{
		{Label: "local-short", Spec: GenSpec{Chunks: []GenChunk{{N: 500}, {N: 70000}}}},
		{Label: "local-empty", Spec: GenSpec{Chunks: nil}},
		{Label: "local-long", Spec: GenSpec{Chunks: long()}},
		{Label: "local-fail", Spec: GenSpec{Chunks: []GenChunk{{N: 100 + rng.Intn(100)}}, Exit: 3}},
		{Label: "remote-short", Remote: true, Spec: GenSpec{Chunks: []GenChunk{{N: 3000}, {N: 66000}}}},
		{Label: "remote-long", Remote: true, Spec: GenSpec{Chunks: long()}},
		{Label: "local-long2", Spec: GenSpec{Chunks: long()}},
	}
	for i, u := range us {
		u.Spec.Seed = uint64(rng.Int63()) | 1
		u.Spec.Pad = strings.Repeat("p", rng.Intn(300))
		_ = i
	}
	rng.Shuffle(len(us), func(i, j int) { us[i], us[j] = us[j], us[i] })
	return us
}

type c04Trial struct {
	sp                 *c04Spec
	dir                string
	L, R               *ctl.Daemon
	px                 *ctl.Proxy
	units              []*c04Unit
	run                *ev.Run
	ptLog              string
	killed             []pointHit // kill actions actually performed
	notes              []string
	stopDrv            chan struct{}
	straceKilledDaemon atomic.Bool
	// the strace lane's watchdog goroutine (c04strace.go) is told to stop, and has stopped, before the clean restart
	straceStop, straceDone chan struct{}
}

func (t *c04Trial) note(f string, a ...any) { t.notes = append(t.notes, fmt.Sprintf(f, a...)) }

func (t *c04Trial) observe(u *c04Unit) bool {
	st, _, err := unitStatus(t.L, u.ID, 5*time.Second)
	if err != nil || st == nil {
		return false
	}
	o := c04Obs{State: st.State, Size: st.StdoutSize, Detail: st.Detail}
	if st.ExtraData != nil {
		o.RemoteUnitID, _ = st.ExtraData["RemoteUnitID"].(string)
		o.RemoteStarted, _ = st.ExtraData["RemoteStarted"].(bool)
	}
	u.mu.Lock()
	defer u.mu.Unlock()
	if len(u.Seen) == 0 || u.Seen[len(u.Seen)-1] != o {
		u.Seen = append(u.Seen, o)
	}
	if o.State == 1 {
		u.SeenRunning = true
	}
	if ctl.Final(o.State) && u.SeenFinal == nil {
		oc := o
		u.SeenFinal = &oc
	}
	if o.RemoteUnitID != "" {
		u.RemoteUnitID = o.RemoteUnitID
	}
	if o.RemoteStarted {
		u.RemoteStarted = true
	}
	return true
}

// driver runs the client workload until it ends or the daemon dies.
func (t *c04Trial) driver(rng *rand.Rand) {
	gaps := []int{0, 0, 30, 120, 300}
	var wg sync.WaitGroup
	stopPoll := make(chan struct{})
	// poller: observes statuses of acknowledged units
	wg.Add(1)
	go func() {
		defer wg.Done()
		for {
			select {
			case <-stopPoll:
				return
			case <-t.stopDrv:
				return
			default:
			}
			for _, u := range t.units {
				u.mu.Lock()
				id := u.ID
				u.mu.Unlock()
				if id == "" {
					continue
				}
				if !t.observe(u) && !t.L.Alive() {
					return
				}
			}
			time.Sleep(120 * time.Millisecond)
		}
	}()
	for _, u := range t.units {
		if !t.L.Alive() || t.lateKillNear() {
			break
		}
		time.Sleep(time.Duration(gaps[rng.Intn(len(gaps))]) * time.Millisecond)
		c, err := ctl.DialUnix(t.L.Sock(), 5*time.Second)
		if err != nil {
			break
		}
		node := "l"
		if u.Remote {
			node = "r"
		}
		r := c.Submit(fmt.Sprintf("work submit %s gen", node), mustJSON(u.Spec), 15*time.Second)
		c.Close()
		if r.UnitID != "" {
			// the ID has been returned to the submitter: from here on the unit is in the ledger
			u.mu.Lock()
			u.ID = r.UnitID
			u.mu.Unlock()
		}
	}
	// keep observing for a while (the long units need ~3.5 s), fetch results of finished units once
	end := time.Now().Add(5500 * time.Millisecond)
	if t.sp.LateKill {
		end = time.Now().Add(15 * time.Second)
	}
	for time.Now().Before(end) && t.L.Alive() && !t.lateKillNear() {
		for _, u := range t.units {
			u.mu.Lock()
			id, fin, done := u.ID, u.SeenFinal, u.ResultsOK
			u.mu.Unlock()
			if id == "" || fin == nil || done || !ctl.Final(fin.State) || fin.State == 4 {
				continue
			}
			_, data, eof, err := fetchResults(t.L, id, 0, 15*time.Second)
			if err == nil && eof && int64(len(data)) == fin.Size && prng.FirstDiff(u.Spec.Seed, 0, data) < 0 {
				u.mu.Lock()
				u.ResultsOK = true
				u.mu.Unlock()
			}
		}
		time.Sleep(150 * time.Millisecond)
	}
	close(stopPoll)
	wg.Wait()
}

// lateKillNear (LateKill trials only): some runner is within six hits of the trial's runner kill point.
func (t *c04Trial) lateKillNear() bool {
	if !t.sp.LateKill {
		return false
	}
	cr := t.sp.Crashes[0]
	for _, h := range readPointLog(t.ptLog) {
		if h.Role == cr.Role && h.Point == cr.Point && h.Hit >= cr.K-6 {
			return true
		}
	}
	return false
}

func (t *c04Trial) startL(crash *c04Crash) error {
	env := []string{"VERIF_POINT_LOG=" + t.ptLog}
	if crash != nil && crash.Point != "end" {
		once := filepath.Join(t.dir, fmt.Sprintf("once-%d", time.Now().UnixNano()))
		_ = os.MkdirAll(once, 0o755)
		env = append(env, fmt.Sprintf("VERIF_POINTS=%s:%s=kill@%d", crash.Role, crash.Point, crash.K), "VERIF_POINTS_ONCE="+once)
	}
	return t.L.Start(env...)
}

func (t *c04Trial) violation(symptom string, u *c04Unit, what string, extra map[string]any) {
	first := t.sp.Crashes[0]
	key := symptom + "@" + first.Role + ":" + first.Point
	if len(t.sp.Crashes) > 1 {
		key = symptom + "@chain"
	}
	if t.sp.Strace != "" {
		key = symptom + "@strace:" + t.sp.Strace
	}
	w := map[string]any{"trial": t.sp, "what": what, "notes": t.notes, "kills_performed": t.killed}
	if u != nil {
		u.mu.Lock()
		w["unit"] = map[string]any{"label": u.Label, "id": u.ID, "seen": u.Seen, "seen_final": u.SeenFinal, "seen_running": u.SeenRunning, "remote_unit": u.RemoteUnitID, "remote_started": u.RemoteStarted, "expected_total": u.Spec.Total(), "exit": u.Spec.Exit}
		u.mu.Unlock()
	}
	for k, v := range extra {
		w[k] = v
	}
	// keep the artifacts of the failing trial next to the replay files
	keep := filepath.Join(ev.Root(), ".work", "replay", fmt.Sprintf("C04-artifacts-seed%d-trial%d", t.run.Seed, t.sp.Idx))
	if _, err := os.Stat(keep); err != nil {
		_ = exec.Command("cp", "-a", t.dir, keep).Run()
	}
	w["artifacts"] = keep
	t.run.Violation(key, fmt.Sprintf("trial %d crash %v: %s", t.sp.Idx, t.sp.Crashes, what), w)
}

// probeBlocked distinguishes a blocked query from an overloaded/dead daemon: true if a plain
// `status` on a fresh session answers while the query did not.
func (t *c04Trial) probeBlocked() bool {
	ok := 0
	for i := 0; i < 3; i++ {
		if l, err := ctlLine(t.L, "status", 10*time.Second); err == nil && strings.HasPrefix(l, "{") {
			ok++
		}
	}
	return ok == 3
}

func (t *c04Trial) execute() {
	run := t.run
	sp := t.sp
	rng := rand.New(rand.NewSource(sp.Seed))
	t.units = c04Units(rng)
	if sp.LateKill {
		// the long units first: their runners rewrite the status often enough to reach the late kill point
		sort.SliceStable(t.units, func(i, j int) bool {
			return strings.HasPrefix(t.units[i].Label, "local-long") && !strings.HasPrefix(t.units[j].Label, "local-long")
		})
	}
	t.ptLog = filepath.Join(t.dir, "points.log")
	t.stopDrv = make(chan struct{})
	genw := []ctl.WorkCmd{genWork()}
	t.R = ctl.NewDaemon(ctl.Cfg{ID: "r", Dir: filepath.Join(t.dir, "r"), Listen: true, Work: genw})
	if err := t.R.Start(); err != nil {
		run.Inconclusive(fmt.Sprintf("C04 trial %d: remote daemon did not start: %v", sp.Idx, err))
		return
	}
	defer t.R.Kill()
	px, err := ctl.NewProxy(fmt.Sprintf("127.0.0.1:%d", t.R.ListenPort), false)
	if err != nil {
		run.Inconclusive("proxy: " + err.Error())
		return
	}
	t.px = px
	defer px.Close()
	t.L = ctl.NewDaemon(ctl.Cfg{ID: "l", Dir: filepath.Join(t.dir, "l"), Peers: []string{px.Addr}, Work: genw})
	defer func() { t.L.Kill(); ctl.KillStrays(t.dir) }()
	defer func() {
		_ = os.WriteFile(filepath.Join(t.dir, "notes.txt"), []byte(strings.Join(t.notes, "\n")+"\n"), 0o644)
	}()

	first := sp.Crashes[0]
	var startErr error
	if sp.Strace != "" {
		startErr = t.startStrace()
	} else {
		startErr = t.startL(&first)
	}
	if startErr != nil {
		if !t.L.Alive() && sp.Strace != "" {
			t.note("daemon killed by the syscall injector during start-up")
		} else if !t.L.Alive() && first.Point != "end" && t.killedNow() {
			// killed during start-up already (possible for points hit while registering work types)
			t.note("daemon killed during start-up")
		} else {
			run.Inconclusive(fmt.Sprintf("C04 trial %d: daemon did not start: %v", sp.Idx, startErr))
			return
		}
	}
	if t.L.Alive() {
		if !waitRoute(t.L, []string{"r"}, 40*time.Second) && t.L.Alive() {
			run.Inconclusive(fmt.Sprintf("C04 trial %d: mesh did not form", sp.Idx))
			return
		}
		t.driver(rng)
	}
	if sp.Strace != "" && !t.L.Alive() {
		// the wrapper ends with its last tracee: the daemon was killed by the injector
		t.straceKilledDaemon.Store(true)
	}
	if t.L.Alive() {
		// crash point not reached during the workload: kill at this (arbitrary) instant instead
		if first.Role == "runner" {
			t.note("crash point %v is a runner's: the daemon itself is killed at the end of the script", first)
		} else if first.Point != "end" {
			t.note("crash point %v not reached by the workload; daemon killed at end of script instead", first)
		}
		t.L.Kill()
	}
	close(t.stopDrv)
	if t.straceStop != nil {
		// the syscall lane's watchdog must not outlive the process it watches: it would take the restarting daemon
		// (whose control socket is not up yet) for the dead one and kill it
		close(t.straceStop)
		<-t.straceDone
	}
	// further crash cycles: crash the restart itself / later status rewrites
	for i := 1; i < len(sp.Crashes); i++ {
		cr := sp.Crashes[i]
		if err := t.startL(&cr); err != nil && t.L.Alive() {
			run.Inconclusive(fmt.Sprintf("C04 trial %d: restart %d failed: %v", sp.Idx, i, err))
			return
		}
		if !t.L.WaitExit(4 * time.Second) {
			t.note("crash %v of cycle %d not reached within 4 s; killed", cr, i)
			t.L.Kill()
		}
	}
	// which unit's runner was killed (exempt from completion demands). The runners of the first daemon generation
	// outlive it and keep their kill point: a late hit (k-th status rewrite of a slow runner) can be reached after
	// the daemon has been killed and restarted, so this is read again after quiescence, just before the evaluation.
	runnerKilled := map[string]bool{}
	readKills := func() {
		t.killed = nil
		for _, h := range readPointLog(t.ptLog) {
			if h.Action == "kill" {
				t.killed = append(t.killed, h)
			}
		}
		for _, k := range t.killed {
			if k.Role == "runner" {
				for _, u := range t.units {
					if u.ID != "" && strings.Contains(k.Detail, "/"+u.ID) {
						runnerKilled[u.ID] = true
					}
				}
			}
		}
	}
	readKills()
	// runner liveness at restart time
	runnerAlive := map[string]bool{}
	for _, u := range t.units {
		if u.ID != "" && !u.Remote {
			runnerAlive[u.ID] = len(runnerPids(filepath.Join(t.L.DataDir(), u.ID))) > 0
			if sp.Strace != "" && !runnerAlive[u.ID] && u.SeenFinal == nil {
				// the syscall injector also follows the runner processes: a unit whose runner is gone
				// without a final state may have been its victim (identity and consistency only)
				runnerKilled[u.ID] = true
			}
		}
	}
	// final clean restart on the same data directory
	t.L.Bin = os.Getenv("VERIF_DAEMON")
	t.L.Wrap = nil
	if sp.Strace != "" {
		run.Count("strace_trials", 1)
		if t.straceKilledDaemon.Load() {
			run.Count("strace_trials_in_which_the_daemon_was_killed", 1)
		}
	}
	if sp.CutAtRestartMs > 0 {
		t.px.Cut()
		run.Count("restarts_with_the_remote_node_unreachable", 1)
		go func() {
			time.Sleep(time.Duration(sp.CutAtRestartMs) * time.Millisecond)
			t.px.Heal()
		}()
	}
	restartAt := time.Now().UnixNano()
	if err := t.startL(nil); err != nil {
		fatal, top, _ := t.L.Fatal()
		if fatal != "" {
			t.violation("restart-crashed", nil, "daemon died while restarting on the data directory: "+fatal+" at "+top, map[string]any{"output_tail": t.L.OutTail(3000)})
			run.Eval(1)
			return
		}
		run.Inconclusive(fmt.Sprintf("C04 trial %d: clean restart failed: %v", sp.Idx, err))
		return
	}
	if !waitRoute(t.L, []string{"r"}, 40*time.Second+time.Duration(3*sp.CutAtRestartMs)*time.Millisecond) {
		run.Inconclusive(fmt.Sprintf("C04 trial %d: mesh did not re-form after restart", sp.Idx))
		return
	}
	acked := []*c04Unit{}
	for _, u := range t.units {
		if u.ID != "" {
			acked = append(acked, u)
		}
	}
	// quiescence: every acknowledged unit final, or its runner/producer gone and the state stable
	var list map[string]*ctl.Status
	stable := 0
	lastSig := ""
	quiesced := false
	for round := 0; round < 150; round++ {
		var raw string
		var err error
		list, raw, err = listUnits(t.L, 20*time.Second)
		if err != nil {
			if t.L.Alive() && t.probeBlocked() {
				t.violation("query-blocked:list", nil, "`work list` got no valid answer after restart while `status` did: "+trunc200(raw)+" "+fmt.Sprint(err), nil)
				run.Eval(1)
				return
			}
			if !t.L.Alive() {
				fatal, top, _ := t.L.Fatal()
				t.violation("restart-crashed", nil, "daemon died after restart: "+fatal+" at "+top, map[string]any{"output_tail": t.L.OutTail(3000)})
				run.Eval(1)
				return
			}
			time.Sleep(300 * time.Millisecond)
			continue
		}
		allFinal := true
		sig := ""
		busy := false
		for _, u := range acked {
			st := list[u.ID]
			if st == nil {
				continue
			}
			sig += fmt.Sprintf("%s:%d:%d;", u.ID, st.State, st.StdoutSize)
			if !ctl.Final(st.State) {
				allFinal = false
				if !u.Remote && len(runnerPids(filepath.Join(t.L.DataDir(), u.ID))) > 0 {
					busy = true
				}
				if u.Remote {
					// a remote unit that has been started on the remote node is still running / being mirrored
					// (whether or not the client had seen that before the crash)
					if rs, _ := st.ExtraData["RemoteStarted"].(bool); rs || u.RemoteStarted {
						busy = true
					}
				}
			}
		}
		if allFinal {
			quiesced = true
			break
		}
		if sig == lastSig && !busy {
			stable++
		} else {
			stable = 0
		}
		lastSig = sig
		if stable >= 12 {
			quiesced = true
			break
		}
		time.Sleep(300 * time.Millisecond)
	}
	if list == nil {
		run.Inconclusive(fmt.Sprintf("C04 trial %d: no list after restart", sp.Idx))
		return
	}
	if !quiesced {
		// The rounds ran out. If the producer of an unfinished unit (the runner process of a local unit, or the
		// runner of its counterpart on the remote node) is still alive, nothing can be said about "followed to
		// completion" yet - on a loaded machine a producer can take this long - and a verdict now would be about
		// the load, not about the restart: the trial is inconclusive. If every producer is gone and a unit is
		// still not final after all these rounds, the evaluation below stands.
		for _, u := range acked {
			st := list[u.ID]
			if st == nil || ctl.Final(st.State) {
				continue
			}
			pdir := filepath.Join(t.L.DataDir(), u.ID)
			if u.Remote {
				ru, _ := st.ExtraData["RemoteUnitID"].(string)
				if ru == "" {
					continue
				}
				pdir = filepath.Join(t.R.DataDir(), ru)
			}
			if len(runnerPids(pdir)) > 0 {
				run.Count("trials_without_quiescence", 1)
				run.Inconclusive(fmt.Sprintf("C04 trial %d: no quiescence after 150 rounds: the runner of unit %s (%s) is still alive", sp.Idx, u.ID, u.Label))
				return
			}
		}
	}
	// the kill point of a runner may have been reached after the restart (see readKills): read the log again
	// now that no unfinished local unit has a live runner any more
	readKills()
	for _, k := range t.killed {
		if k.Role == "runner" && k.T > restartAt {
			t.note("runner kill %s:%s@%d was reached %d ms after the clean restart began", k.Role, k.Point, k.Hit, (k.T-restartAt)/1e6)
			run.Count("runner_kills_reached_only_after_the_restart", 1)
		}
	}
	// ---- evaluation against the ledger
	kinds := []string{}
	for _, u := range acked {
		kinds = append(kinds, u.Label)
		st := list[u.ID]
		if st == nil {
			t.violation("lost-unit", u, fmt.Sprintf("acknowledged unit %s (%s) is no longer listed after restart", u.ID, u.Label), nil)
			continue
		}
		wantType := "gen"
		if u.Remote {
			wantType = "remote"
		}
		if st.WorkType != wantType {
			t.violation("worktype-lost", u, fmt.Sprintf("unit %s (%s) is listed with work type %q instead of %q (state %d, detail %q)", u.ID, u.Label, st.WorkType, wantType, st.State, st.Detail), nil)
			continue
		}
		if u.Remote {
			rn, _ := st.ExtraData["RemoteNode"].(string)
			ru, _ := st.ExtraData["RemoteUnitID"].(string)
			if rn != "r" {
				t.violation("remote-binding", u, fmt.Sprintf("remote unit %s is bound to node %q instead of \"r\" after restart", u.ID, rn), nil)
				continue
			}
			if u.RemoteUnitID != "" && ru != u.RemoteUnitID {
				t.violation("remote-binding", u, fmt.Sprintf("remote unit %s is bound to remote unit %q instead of %q after restart", u.ID, ru, u.RemoteUnitID), nil)
				continue
			}
		}
		if st.State == 0 {
			t.violation("left-pending", u, fmt.Sprintf("unit %s (%s) is still Pending after restart and quiescence (detail %q)", u.ID, u.Label, st.Detail), nil)
			continue
		}
		wantState := 2
		if u.Spec.Exit != 0 {
			wantState = 3
		}
		total := u.Spec.Total()
		if u.SeenFinal != nil {
			if st.State != u.SeenFinal.State || st.StdoutSize != u.SeenFinal.Size {
				t.violation("finished-changed", u, fmt.Sprintf("unit %s (%s) had been reported finished as state %d size %d, now state %d size %d (detail %q)", u.ID, u.Label, u.SeenFinal.State, u.SeenFinal.Size, st.State, st.StdoutSize, st.Detail), nil)
				continue
			}
		}
		mustComplete := false
		switch {
		case runnerKilled[u.ID]:
			// nobody is left to finish this unit: identity and consistency only
		case u.SeenFinal != nil && u.SeenFinal.State == wantState:
			mustComplete = true
		case !u.Remote && u.SeenRunning && runnerAlive[u.ID]:
			mustComplete = true
		case u.Remote && u.RemoteStarted && u.SeenRunning:
			mustComplete = true
		}
		if mustComplete && (st.State != wantState || st.StdoutSize != total) {
			// facts needed to triage this from the printed line alone
			diag := fmt.Sprintf("kills performed %s; runner alive at restart %v, now %v; status file now %q", t.killsString(), runnerAlive[u.ID], !u.Remote && len(runnerPids(filepath.Join(t.L.DataDir(), u.ID))) > 0, trunc200(t.statusFile(u)))
			t.violation("not-followed", u, fmt.Sprintf("unit %s (%s) was running with a live runner / finished before the crash but ends as state %d size %d detail %q; expected state %d size %d [%s]", u.ID, u.Label, st.State, st.StdoutSize, st.Detail, wantState, total, diag), nil)
			continue
		}
		// output: whatever is recorded must be the expected stream; complete when the unit completed
		if st.State == 2 || st.State == 3 {
			first, data, eof, err := fetchResults(t.L, u.ID, 0, 30*time.Second)
			if err != nil || !strings.HasPrefix(first, "Streaming") {
				t.violation("results-refused", u, fmt.Sprintf("work results for finished unit %s answered %q err %v", u.ID, first, err), nil)
				continue
			}
			if !eof {
				if t.probeBlocked() {
					t.violation("query-blocked:results", u, fmt.Sprintf("work results for finished unit %s (state %d size %d) did not end; got %d bytes", u.ID, st.State, st.StdoutSize, len(data)), nil)
				} else {
					run.Inconclusive(fmt.Sprintf("C04 trial %d: results stream watchdog and the probe failed too", sp.Idx))
				}
				continue
			}
			if d := prng.FirstDiff(u.Spec.Seed, 0, data); d >= 0 {
				t.violation("output-corrupt", u, fmt.Sprintf("results of unit %s differ from the expected stream at offset %d", u.ID, d), nil)
				continue
			}
			if mustComplete && int64(len(data)) != total {
				t.violation("output-incomplete", u, fmt.Sprintf("results of completed unit %s have %d bytes, expected %d", u.ID, len(data), total), nil)
				continue
			}
			if int64(len(data)) < st.StdoutSize {
				t.violation("output-incomplete", u, fmt.Sprintf("results of unit %s have %d bytes but its recorded output size is %d", u.ID, len(data), st.StdoutSize), nil)
				continue
			}
		}
		// per-unit status query must answer too
		if _, raw, err := unitStatus(t.L, u.ID, 20*time.Second); err != nil {
			if t.probeBlocked() {
				t.violation("query-blocked:status", u, "work status got no valid answer: "+trunc200(raw)+" "+fmt.Sprint(err), nil)
			}
		}
	}
	// ---- remote binding seen from the remote node: a unit on r that had already received input from l belongs to
	// the local unit with that input, and that local unit must still name it after the restart. (In the unchanged
	// code the remote unit's id is recorded before the first byte of input is sent; the only instant at which a
	// kill can lose it is between the remote node's acknowledgement and that write, when no input has been sent.)
	if ents, err := os.ReadDir(t.R.DataDir()); err == nil {
		for _, e := range ents {
			if !e.IsDir() {
				continue
			}
			rin, err := os.ReadFile(filepath.Join(t.R.DataDir(), e.Name(), "stdin"))
			if err != nil || len(rin) == 0 {
				continue
			}
			matches := 0
			for _, u := range acked {
				if pl := mustJSON(u.Spec); u.Remote && len(rin) <= len(pl) && bytes.Equal(pl[:len(rin)], rin) {
					matches++
				}
			}
			if matches != 1 {
				continue // a short prefix shared by several inputs identifies nobody
			}
			for _, u := range acked {
				if !u.Remote {
					continue
				}
				pl := mustJSON(u.Spec)
				if len(rin) > len(pl) || !bytes.Equal(pl[:len(rin)], rin) {
					continue
				}
				run.Count("remote_units_matched_to_local_units_by_input", 1)
				st := list[u.ID]
				if st == nil {
					break
				}
				ru, _ := st.ExtraData["RemoteUnitID"].(string)
				if ru != e.Name() {
					t.violation("remote-binding:lost-after-input-transfer", u, fmt.Sprintf("remote unit %s on r holds %d bytes of the input of local unit %s (%s), but after the restart the local unit names remote unit %q", e.Name(), len(rin), u.ID, u.Label, ru), nil)
				}
				break
			}
		}
	}
	run.Eval(1)
	sort.Strings(kinds)
	for _, k := range t.killed {
		run.Distinct(fmt.Sprintf("%s:%s@%d|acked=%d", k.Role, k.Point, k.Hit, len(acked)))
		run.SetAdd("crash_points_hit", k.Role+":"+k.Point)
	}
	if sp.Strace != "" {
		run.Distinct(fmt.Sprintf("strace|%s@%d|daemon-killed=%v|acked=%d", sp.Strace, sp.StraceN, t.straceKilledDaemon.Load(), len(acked)))
	} else if len(t.killed) == 0 {
		run.Distinct(fmt.Sprintf("end|acked=%d|%v", len(acked), sp.Crashes))
	}
	if first.Point != "end" && sp.Strace == "" && len(t.killed) == 0 {
		run.Count("crash_points_not_reached", 1)
	}
	run.Count("acknowledged_units_checked", int64(len(acked)))
	run.Count("kills_performed", int64(len(t.killed)))
	if sp.Idx%9 == 0 {
		us := []map[string]any{}
		for _, u := range acked {
			us = append(us, map[string]any{"label": u.Label, "id": u.ID, "seen": u.Seen, "after_restart": list[u.ID]})
		}
		run.Sample(map[string]any{"crashes": sp.Crashes, "kills_performed": t.killed, "units": us, "notes": t.notes})
	}
}

func (t *c04Trial) killsString() string {
	ks := []string{}
	for _, k := range t.killed {
		ks = append(ks, fmt.Sprintf("%s:%s@%d(%s)", k.Role, k.Point, k.Hit, filepath.Base(strings.TrimSuffix(k.Detail, "/status"))))
	}
	return "[" + strings.Join(ks, " ") + "]"
}

func (t *c04Trial) statusFile(u *c04Unit) string {
	b, err := os.ReadFile(filepath.Join(t.L.DataDir(), u.ID, "status"))
	if err != nil {
		return err.Error()
	}
	return strings.TrimSpace(string(b))
}

func (t *c04Trial) killedNow() bool {
	for _, h := range readPointLog(t.ptLog) {
		if h.Action == "kill" {
			return true
		}
	}
	return false
}

func trunc200(s string) string {
	if len(s) > 200 {
		return s[:200] + "..."
	}
	return s
}

// c04DryRun runs the workload once without a kill and returns hits per role:point (max per process).
func c04DryRun(run *ev.Run, dir string, seed int64) map[string]int {
	t := &c04Trial{sp: &c04Spec{Idx: -1, Crashes: []c04Crash{{Role: "daemon", Point: "end", K: 1}}, Seed: seed}, dir: dir, run: run}
	_ = os.MkdirAll(dir, 0o755)
	// an "end" crash trial is itself a (clean-shutdown-free) crash/restart trial and records every point hit
	t.execute()
	hits := map[string]int{}
	perPid := map[string]int{}
	for _, h := range readPointLog(filepath.Join(dir, "points.log")) {
		k := fmt.Sprintf("%s:%s|%d", h.Role, h.Point, h.Pid)
		if h.Hit > perPid[k] {
			perPid[k] = h.Hit
		}
	}
	for k, v := range perPid {
		rp := k[:strings.Index(k, "|")]
		if v > hits[rp] {
			hits[rp] = v
		}
	}
	return hits
}

func runC04(tier string, args []string) {
	run := ev.New("C04", tier, "fault_enumeration")
	run.Rule("workload: 7 submissions (local short/empty/long/failing, remote short/long on a second daemon) with concurrent status polling; a dry run records every hook point hit per process role; then one trial per (role, point, k): the daemon or a runner process SIGKILLs itself at the k-th hit, the daemon is restarted on the same data directory (chains: the restart itself is crashed again), and after quiescence the acknowledged-unit ledger is compared with work list/status/results. quick: every point at its first hit + a middle hit + seeded later hits + restart-phase chains + runner kills reached only after the restart (the script ends when a runner is six rewrites short of its kill point) + syscall-level kills injected with strace (N-th ftruncate / write / openat of any thread of the daemon or a runner); distinct_nontrivial = distinct (role, point, hit, #acknowledged units) kills actually performed (from the point log)")
	run.Assume("SIGKILL semantics: completed file-system operations persist (power loss is out of scope)")
	run.Assume("completion is demanded only for units whose runner survived; a unit whose own runner was the killed process is judged on identity/consistency only")
	work := workDir()
	rng := rand.New(rand.NewSource(run.Seed*7919 + 4))
	hits := c04DryRun(run, filepath.Join(work, "dry"), rng.Int63())
	points := []string{}
	for k := range hits {
		points = append(points, k)
	}
	sort.Strings(points)
	run.Extra("points_seen_in_dry_run", hits)
	specs := []*c04Spec{}
	add := func(cr ...c04Crash) {
		specs = append(specs, &c04Spec{Idx: len(specs), Crashes: cr, Seed: rng.Int63()})
	}
	restartPhase := func(p string) bool {
		return strings.Contains(p, ":scan.") || strings.Contains(p, ":restart.")
	}
	mk := func(rp string, k int) c04Crash {
		i := strings.Index(rp, ":")
		return c04Crash{Role: rp[:i], Point: rp[i+1:], K: k}
	}
	for _, rp := range points {
		if restartPhase(rp) {
			continue
		}
		add(mk(rp, 1))
	}
	// a middle hit of every frequently-hit point (acknowledged units exist by then)
	for _, rp := range points {
		if !restartPhase(rp) && hits[rp] >= 4 {
			add(mk(rp, (hits[rp]+1)/2))
		}
	}
	// later hits
	maxK := run.Pick(0, 6)
	for _, rp := range points {
		if restartPhase(rp) {
			continue
		}
		for k := 2; k <= hits[rp] && k <= maxK; k++ {
			add(mk(rp, k))
		}
	}
	nSeeded := run.Pick(6, 40)
	for i := 0; i < nSeeded && len(points) > 0; i++ {
		rp := points[rng.Intn(len(points))]
		if restartPhase(rp) || hits[rp] < 2 {
			continue
		}
		add(mk(rp, 2+rng.Intn(hits[rp]-1)))
	}
	// chains: a crash during the workload, then the restart itself is crashed (once or twice)
	rpts := []c04Crash{{"daemon", "scan.before_load", 1}, {"daemon", "scan.before_restart", 1}, {"daemon", "scan.restarted", 1}, {"daemon", "restart.incomplete", 1}, {"daemon", "upd.truncated", 1}, {"daemon", "upd.loaded", 2}, {"daemon", "scan.before_load", 3}, {"daemon", "scan.restarted", 4}, {"daemon", "upd.truncated", 2}, {"daemon", "upd.written", 1}}
	firsts := []c04Crash{{"daemon", "end", 1}, {"daemon", "submit.started", 3}, {"daemon", "daemon.pid_saved", 2}, {"daemon", "submit.before_start", 4}, {"daemon", "remote.id_saved", 1}, {"daemon", "submit.input_read", 5}}
	nChains := run.Pick(8, 60)
	for i := 0; i < nChains; i++ {
		c := []c04Crash{firsts[rng.Intn(len(firsts))], rpts[i%len(rpts)]}
		if i%3 == 2 {
			c = append(c, rpts[rng.Intn(len(rpts))])
		}
		add(c...)
	}
	// the remote node is unreachable while the daemon restarts (kill at the end of the script, remote units running)
	for i := 0; i < run.Pick(2, 8); i++ {
		specs = append(specs, &c04Spec{Idx: len(specs), Crashes: []c04Crash{{Role: "daemon", Point: []string{"end", "remote.status_mirror"}[i%2], K: 1 + i}}, Seed: rng.Int63(), CutAtRestartMs: 20000 + 3000*i})
	}
	// syscall-level kills (no hook needed): ftruncate = inside a status rewrite, mkdirat = unit creation,
	// unlinkat = release, openat / write = anywhere between two file-system steps
	type sk struct {
		sc string
		ns []int
	}
	straces := []sk{{"ftruncate", []int{3}}, {"write", []int{40}}, {"openat", []int{60}}}
	if !run.Quick() {
		straces = []sk{{"ftruncate", []int{1, 2, 3, 4, 5, 6, 8, 10}}, {"mkdirat", []int{1, 2, 3, 4}}, {"unlinkat", []int{1, 2}}, {"openat", []int{5, 20, 40, 60, 100, 200}}, {"write", []int{5, 20, 40, 80, 150, 300}}, {"renameat", []int{1}}, {"fsync", []int{1, 3}}}
	}
	for _, k := range straces {
		for _, n := range k.ns {
			specs = append(specs, &c04Spec{Idx: len(specs), Crashes: []c04Crash{{Role: "any", Point: "strace:" + k.sc, K: n}}, Seed: rng.Int63(), Strace: k.sc, StraceN: n})
		}
	}
	// a runner of the first daemon generation dies only after the daemon has been killed and restarted, i.e. while
	// the restarted daemon is following it: the script ends when a runner is six status rewrites (a second and a half)
	// short of its kill point
	lateKs := []int{9, 11}
	if !run.Quick() {
		lateKs = []int{7, 8, 9, 10, 11, 8, 9, 10}
	}
	for i, k := range lateKs {
		specs = append(specs, &c04Spec{Idx: len(specs), Crashes: []c04Crash{{Role: "runner", Point: []string{"upd.truncated", "upd.written", "upd.loaded", "runner.tick"}[i%4], K: k}}, Seed: rng.Int63(), LateKill: true})
	}
	if len(args) >= 2 && args[0] == "--trial" {
		var idx int
		fmt.Sscan(args[1], &idx)
		if idx < 0 {
			idx += len(specs)
		}
		specs = []*c04Spec{specs[idx]}
	}
	par := 16
	sem := make(chan struct{}, par)
	var wg sync.WaitGroup
	for _, sp := range specs {
		wg.Add(1)
		sem <- struct{}{}
		go func(sp *c04Spec) {
			defer wg.Done()
			defer func() { <-sem }()
			t := &c04Trial{sp: sp, dir: filepath.Join(work, fmt.Sprintf("t%d", sp.Idx)), run: run}
			_ = os.MkdirAll(t.dir, 0o755)
			t.execute()
			if run.NViolations() == 0 && os.Getenv("VERIF_KEEP") == "" {
				_ = os.RemoveAll(t.dir)
			}
		}(sp)
	}
	wg.Wait()
	run.Exhaustive(true)
	run.Extra("exhaustive_over", "every (process role, hook point) pair hit by the workload's dry run, at its first hit")
	run.Finish(run.Pick(20, 60))
}

// startStrace is implemented in c04strace.go (thorough tier).
