package main

import (
	"crypto/rand"
	"crypto/rsa"
	"crypto/x509"
	"encoding/pem"
	"os"
	"path/filepath"

	"verif/harness/internal/ctl"
)

// Extra case kinds of C19 that every batch carries in addition to the drawn ones.
//
// remote-rejected: a remote submission with secrets and the valid TLS client profile that
// A accepts, stores and forwards, and that the executing node B turns down in its first
// answer. The unit then stays on A as a failed unit until it is released; the submit reply
// and every later status / list answer (also after a restart of A) are searched for the
// canaries like those of any other unit.
//
// refusal-tlsname: a remote submission with secrets whose tlsclient field is present and
// not empty, but is not the name of any TLS client profile of A (white space only, the
// valid name with white space around it, other variants of the valid name, unknown names).
// It names no TLS client profile, so it has to be refused before anything is stored or sent.

const (
	c19WtStrict = "genstrict" // on B: command work type that does not allow runtime params
	c19WtSigned = "gensigned" // on B: command work type that demands a signature
)

var c19RejectReasons = []struct {
	Label    string
	WorkType string
	SignWork bool
}{
	{"unknown-worktype", "nosuch19", false},
	{"params-not-allowed", c19WtStrict, false},
	{"signature-missing", c19WtSigned, false},
	{"signature-unexpected", "gen", true},
}

// c19TLSNames: none of these is the name of a TLS client profile configured on A (the only
// one is c19Cli; "default", which netceptor predefines, is deliberately not in the list).
var c19TLSNames = []struct {
	Val, Label, Class string
}{
	{" ", "space", "whitespace-only"},
	{" " + c19Cli, "lead-space-valid", "padded-valid"},
	{"\t", "tab", "whitespace-only"},
	{"nosuch19", "unknown", "unknown"},
	{"  ", "two-spaces", "whitespace-only"},
	{c19Cli + " ", "trail-space-valid", "padded-valid"},
	{"\n", "newline", "whitespace-only"},
	{"CLI19", "upper-valid", "variant-of-valid"},
	{" \t\r\n ", "mixed-whitespace", "whitespace-only"},
	{"\t" + c19Cli + "\n", "tab-valid-newline", "padded-valid"},
	{"\u00a0", "nbsp", "whitespace-only"},
	{"cli1", "prefix-of-valid", "variant-of-valid"},
	{"\u2003\u3000", "unicode-spaces", "whitespace-only"},
	{" " + c19Cli + " ", "both-spaces-valid", "padded-valid"},
	{c19Cli + "x", "valid-plus-suffix", "variant-of-valid"},
	{"\r", "carriage-return", "whitespace-only"},
	{c19Srv, "name-of-remote-server-profile", "unknown"},
	{c19Cli + "\u0000", "valid-plus-nul", "variant-of-valid"},
	{"\u0000", "nul", "unknown"},
}

// c19ExtraCases returns the extra cases of batch bi: nRej rejected-by-remote and nTLS
// degenerate-tlsclient submissions, a deterministic function of (seed, tier, bi). The
// variants rotate over the whole run, starting at a seed-dependent offset.
func c19ExtraCases(seed int64, tier string, bi, nRej, nTLS int, quick bool) []*c19Case {
	off := newC19rng(seed, tier, 0, 0x0FF5E7)
	offRej, offTLS := off.intn(len(c19RejectReasons)), off.intn(len(c19TLSNames))
	out := []*c19Case{}
	for j := 0; j < nRej; j++ {
		n := bi*nRej + j
		out = append(out, c19GenCaseKind(seed, tier, 1_000_000+n, quick, "remote-rejected", offRej+n))
	}
	for j := 0; j < nTLS; j++ {
		n := bi*nTLS + j
		out = append(out, c19GenCaseKind(seed, tier, 2_000_000+n, quick, "refusal-tlsname", offTLS+n))
	}
	return out
}

// c19SigningKeys writes an RSA key pair in the encodings --work-signing / --work-verification load.
func c19SigningKeys(dir string) (priv, pub string, err error) {
	k, err := rsa.GenerateKey(rand.Reader, 2048)
	if err != nil {
		return "", "", err
	}
	der, err := x509.MarshalPKIXPublicKey(&k.PublicKey)
	if err != nil {
		return "", "", err
	}
	priv, pub = filepath.Join(dir, "pki", "sign.key"), filepath.Join(dir, "pki", "sign.pub")
	if err = os.WriteFile(priv, pem.EncodeToMemory(&pem.Block{Type: "RSA PRIVATE KEY", Bytes: x509.MarshalPKCS1PrivateKey(k)}), 0o600); err != nil {
		return "", "", err
	}
	err = os.WriteFile(pub, pem.EncodeToMemory(&pem.Block{Type: "PUBLIC KEY", Bytes: der}), 0o644)
	return priv, pub, err
}

// c19RejectWork returns the two work types B has only so that it can turn submissions down.
func c19RejectWork(gen ctl.WorkCmd) []ctl.WorkCmd {
	strict, signed := gen, gen
	strict.Type, strict.AllowRuntime = c19WtStrict, false
	signed.Type, signed.Verify = c19WtSigned, true
	return []ctl.WorkCmd{strict, signed}
}
