package main

import (
	"fmt"
	"path/filepath"
	"sync"

	"verif/harness/internal/ctl"
)

func init() { register("ctlstress", ctlStress) }

// ctlStress starts many daemons at once (diagnostic for start-up failures under load).
func ctlStress(_ string, _ []string) {
	var wg sync.WaitGroup
	for i := 0; i < 24; i++ {
		wg.Add(1)
		go func(i int) {
			defer wg.Done()
			d := ctl.NewDaemon(ctl.Cfg{ID: fmt.Sprintf("s%d", i), Dir: filepath.Join(workDir(), fmt.Sprintf("s%d", i)), Listen: true, TCPCtl: true, Work: []ctl.WorkCmd{genWork()}})
			if err := d.Start(); err != nil {
				fmt.Println(i, "ERR", err, "\n", d.OutTail(1500))
				return
			}
			d.Kill()
		}(i)
	}
	wg.Wait()
	fmt.Println("done")
}
