package main

import (
	"bufio"
	"context"
	"fmt"
	"io"
	"os"
	"runtime/pprof"
	"strings"
	"time"

	"verif/harness/internal/chunkproxy"

	"github.com/ansible/receptor/pkg/backends"
	"github.com/ansible/receptor/pkg/logger"
	"github.com/ansible/receptor/pkg/netceptor"
)

// C02 over the real backends: a 3-node chain A — B — C whose two links are both of the
// transport under test, so that local delivery, 1 hop and a forwarded 2nd hop all cross it.

func c02UDPDrops() (int64, bool) {
	f, err := os.Open("/proc/net/snmp")
	if err != nil {
		return 0, false
	}
	defer f.Close()
	sc := bufio.NewScanner(f)
	var hdr []string
	for sc.Scan() {
		l := sc.Text()
		if !strings.HasPrefix(l, "Udp:") {
			continue
		}
		fs := strings.Fields(l)
		if hdr == nil {
			hdr = fs
			continue
		}
		var tot int64
		for i, h := range hdr {
			if (h == "InErrors" || h == "RcvbufErrors" || h == "SndbufErrors" || h == "InCsumErrors") && i < len(fs) {
				var v int64
				fmt.Sscan(fs[i], &v)
				tot += v
			}
		}
		return tot, true
	}
	return 0, false
}

func c02BuildReal(sp *c02Spec) (*c02World, error) {
	w := &c02World{sp: sp, extra: map[string]int64{}}
	ids := []string{}
	closers := []func(){}
	for _, n := range sp.Nodes {
		inst := netceptor.NewWithConsts(context.Background(), n.ID, c02MTU, 400*time.Millisecond, 0, time.Hour, sp.MaxHops, 60*time.Second)
		inst.Logger.SetOutput(io.Discard)
		if os.Getenv("C02_DEBUG") != "" {
			lf, _ := os.Create(fmt.Sprintf("%s/c02-%s-%d-node%d.log", workDir(), sp.Transport, sp.Idx, len(w.insts)))
			inst.Logger.SetOutput(lf)
			logger.SetGlobalLogLevel(logger.DebugLevel)
		}
		w.insts = append(w.insts, inst)
		ids = append(ids, n.ID)
	}
	a, b, c := w.insts[0], w.insts[1], w.insts[2]
	stats := []*chunkproxy.Stats{}
	proxies := []*chunkproxy.Proxy{}
	fail := func(err error) (*c02World, error) {
		for _, n := range w.insts {
			n.Shutdown()
		}
		for _, f := range closers {
			f()
		}
		return nil, err
	}
	switch sp.Transport {
	case "tcp":
		l, err := backends.NewTCPListener("127.0.0.1:0", nil, b.Logger)
		if err != nil {
			return fail(err)
		}
		if err := b.AddBackend(l); err != nil {
			return fail(err)
		}
		for i, n := range []*netceptor.Netceptor{a, c} {
			p, err := chunkproxy.NewProxy(l.GetAddr(), sp.Chunk, true, sp.Seed*10+int64(i))
			if err != nil {
				return fail(err)
			}
			proxies = append(proxies, p)
			stats = append(stats, p.Stats())
			closers = append(closers, p.Close)
			d, err := backends.NewTCPDialer(p.Addr, true, nil, n.Logger)
			if err != nil {
				return fail(err)
			}
			if err := n.AddBackend(d); err != nil {
				return fail(err)
			}
		}
	case "ws":
		l, err := backends.NewWebsocketListener("127.0.0.1:0", nil, b.Logger, nil, nil)
		if err != nil {
			return fail(err)
		}
		if err := b.AddBackend(l); err != nil {
			return fail(err)
		}
		for i, n := range []*netceptor.Netceptor{a, c} {
			p, err := chunkproxy.NewProxy(l.GetAddr(), sp.Chunk, false, sp.Seed*10+int64(i))
			if err != nil {
				return fail(err)
			}
			proxies = append(proxies, p)
			stats = append(stats, p.Stats())
			closers = append(closers, p.Close)
			d, err := backends.NewWebsocketDialer("ws://"+p.Addr, nil, "", true, n.Logger, nil)
			if err != nil {
				return fail(err)
			}
			if err := n.AddBackend(d); err != nil {
				return fail(err)
			}
		}
	case "udp":
		l, err := backends.NewUDPListener("127.0.0.1:0", b.Logger)
		if err != nil {
			return fail(err)
		}
		if err := b.AddBackend(l); err != nil {
			return fail(err)
		}
		for _, n := range []*netceptor.Netceptor{a, c} {
			d, err := backends.NewUDPDialer(l.LocalAddr().String(), true, n.Logger)
			if err != nil {
				return fail(err)
			}
			if err := n.AddBackend(d); err != nil {
				return fail(err)
			}
		}
		w.windowed = true
	case "ext":
		eb := make([]*netceptor.ExternalBackend, 3)
		for i, n := range w.insts {
			e, _ := netceptor.NewExternalBackend()
			if err := n.AddBackend(e); err != nil {
				return fail(err)
			}
			eb[i] = e
		}
		for i, pr := range [][2]int{{0, 1}, {2, 1}} {
			x, y, st, cl := chunkproxy.PipePair(sp.Chunk, sp.Seed*10+int64(i))
			stats = append(stats, st)
			closers = append(closers, cl)
			go eb[pr[0]].NewConnection(netceptor.MessageConnFromNetConn(x), true)
			go eb[pr[1]].NewConnection(netceptor.MessageConnFromNetConn(y), true)
		}
	default:
		return fail(fmt.Errorf("unknown transport %q", sp.Transport))
	}
	drops0, dropsOK := c02UDPDrops()
	w.closeFn = func() {
		for _, n := range w.insts {
			n.Shutdown()
		}
		for _, f := range closers {
			f()
		}
	}
	w.stable = func() (bool, string) {
		for _, st := range stats {
			for k, v := range st.Snapshot() {
				w.extra["chunker_"+sp.Transport+"_"+k] += v
			}
		}
		if !c02Converged(w.insts, ids) {
			return false, "routing tables no longer complete at the end"
		}
		for _, p := range proxies {
			if n := p.Stats().Snapshot()["connections"]; n != 1 {
				return false, fmt.Sprintf("a proxied link was re-established (%d connections)", n)
			}
		}
		if sp.Transport == "udp" {
			d1, ok := c02UDPDrops()
			if !ok || !dropsOK {
				return false, "kernel UDP drop counters unreadable"
			}
			if d1 != drops0 {
				return false, fmt.Sprintf("the kernel dropped %d UDP datagrams on this machine during the run", d1-drops0)
			}
		}
		return true, ""
	}
	limit := 45 * time.Second
	if sp.Transport == "ext" {
		limit = 20 * time.Second // no redial on an external backend: either the first handshake worked or it never will
	}
	if !c02WaitConverged(w.insts, ids, limit) {
		if os.Getenv("C02_DEBUG") != "" {
			pf, _ := os.Create(fmt.Sprintf("%s/c02-%s-%d-goroutines.txt", workDir(), sp.Transport, sp.Idx))
			_ = pprof.Lookup("goroutine").WriteTo(pf, 2)
			pf.Close()
		}
		w.closeFn()
		return nil, fmt.Errorf("%s chain did not converge within the watchdog", sp.Transport)
	}
	time.Sleep(500 * time.Millisecond)
	return w, nil
}
