package main

import (
	"bytes"
	"fmt"
	"io"
	"math/rand"
	"os"
	"path/filepath"
	"strings"
	"sync"
	"time"

	"verif/harness/internal/ctl"
	"verif/harness/internal/ev"
	"verif/harness/internal/prng"
)

// C05 — work results stream exactly the output from any offset and end when complete.
//
// The producer (workgen) writes a PRNG stream in seeded chunks and blocks after each chunk
// until the harness releases it ("gated"), so at every gate the exact number of bytes written
// by a still-running unit is a known fact. Readers attached at many offsets and moments must
// have received exactly expected[p:n_k] at gate k, no EOF before completion, EOF after it.
// Remote part: a 3-daemon chain whose links are cut/healed and whose relay/remote daemons are
// restarted while the output is mirrored; the local copy must be a prefix of the remote one
// at every sample and equal at the end.

func init() { register("C05", runC05) }

type c05Reader struct {
	unit   string
	pos    int64
	form   string // plain | json
	moment string
	seed   uint64
	mu     sync.Mutex
	got    int64
	eof    bool
	bad    int64 // first divergent absolute offset (-1 = none)
	first  string
	err    string
	done   chan struct{}
}

func c05StartReader(d *ctl.Daemon, unit string, pos int64, form, moment string, seed uint64) *c05Reader {
	r := &c05Reader{unit: unit, pos: pos, form: form, moment: moment, seed: seed, bad: -1, done: make(chan struct{})}
	go func() {
		defer close(r.done)
		c, err := ctl.DialUnix(d.Sock(), 10*time.Second)
		if err != nil {
			r.mu.Lock()
			r.err = err.Error()
			r.mu.Unlock()
			return
		}
		defer c.Close()
		var req any = fmt.Sprintf("work results %s %d", unit, pos)
		if form == "json" {
			req = map[string]any{"command": "work", "subcommand": "results", "unitid": unit, "startpos": pos}
		}
		first, err := c.ResultsStart(req, 30*time.Second)
		r.mu.Lock()
		r.first = first
		if err != nil {
			r.err = err.Error()
		}
		r.mu.Unlock()
		if err != nil || !strings.HasPrefix(first, "Streaming results") {
			return
		}
		buf := make([]byte, 1<<16)
		for {
			_ = c.C.SetReadDeadline(time.Now().Add(10 * time.Minute))
			n, err := c.R.Read(buf)
			if n > 0 {
				r.mu.Lock()
				if r.bad < 0 {
					if d := prng.FirstDiff(seed, pos+r.got, buf[:n]); d >= 0 {
						r.bad = pos + r.got + int64(d)
					}
				}
				r.got += int64(n)
				r.mu.Unlock()
			}
			if err != nil {
				r.mu.Lock()
				if err == io.EOF {
					r.eof = true
				} else {
					r.err = err.Error()
				}
				r.mu.Unlock()
				return
			}
		}
	}()
	return r
}

func (r *c05Reader) snap() (got int64, eof bool, bad int64, first, err string) {
	r.mu.Lock()
	defer r.mu.Unlock()
	return r.got, r.eof, r.bad, r.first, r.err
}

type c05LocalSpec struct {
	Idx    int        `json:"idx"`
	Chunks []GenChunk `json:"chunks"`
	Exit   int        `json:"exit"`
	Cancel bool       `json:"cancel"` // cancel the unit at a gate: the stream must still end
	Big    bool       `json:"big,omitempty"`
	Seed   int64      `json:"seed"`
}

var c05Sizes = []int{0, 1, 2, 100, 4095, 4096, 65535, 65536, 65537, 70000, 131072, 200000, 3, 999}

func genC05Local(rng *rand.Rand, idx int) *c05LocalSpec {
	sp := &c05LocalSpec{Idx: idx, Seed: rng.Int63()}
	k := 2 + rng.Intn(4)
	for i := 0; i < k; i++ {
		sp.Chunks = append(sp.Chunks, GenChunk{N: c05Sizes[rng.Intn(len(c05Sizes))], PauseMs: []int{0, 0, 30, 260, 600}[rng.Intn(5)]})
	}
	if idx == 0 {
		// one unit per run produces more than a million bytes, and JSON-form requests ask for offsets around and
		// beyond 1,000,000 (numbers of that size travel through JSON as floats)
		sp.Chunks = []GenChunk{{N: 700000}, {N: 450000, PauseMs: 30}, {N: 150000}}
		sp.Big = true
	}
	switch idx % 6 {
	case 1:
		sp.Chunks = nil // empty output
	case 2:
		sp.Exit = 2 // failing unit
	case 4:
		sp.Cancel = true
	}
	return sp
}

func waitFileSize(path string, want int64, limit time.Duration) bool {
	deadline := time.Now().Add(limit)
	for time.Now().Before(deadline) {
		if fi, err := os.Stat(path); err == nil && fi.Size() >= want {
			return true
		}
		if want == 0 {
			// nothing to wait for: an empty (or not yet created) file is the expected state
			return true
		}
		time.Sleep(10 * time.Millisecond)
	}
	return false
}

func c05Local(run *ev.Run, d *ctl.Daemon, dir string, sp *c05LocalSpec) {
	rng := rand.New(rand.NewSource(sp.Seed))
	gate := filepath.Join(dir, "gates", fmt.Sprintf("u%d", sp.Idx))
	_ = os.MkdirAll(filepath.Dir(gate), 0o755)
	// a leading empty chunk gives a "started but nothing written yet" gate
	chunks := append([]GenChunk{{N: 0}}, sp.Chunks...)
	spec := GenSpec{Seed: uint64(rng.Int63()) | 1, Chunks: chunks, Exit: sp.Exit, Gate: gate}
	total := spec.Total()
	c, err := ctl.DialUnix(d.Sock(), 10*time.Second)
	if err != nil {
		run.Inconclusive(fmt.Sprintf("C05 unit %d: %v", sp.Idx, err))
		return
	}
	r := c.Submit("work submit l gen", mustJSON(spec), 20*time.Second)
	c.Close()
	if r.UnitID == "" || r.Err != nil {
		run.Inconclusive(fmt.Sprintf("C05 unit %d: submit failed: %+v", sp.Idx, r))
		return
	}
	id := r.UnitID
	stdout := filepath.Join(d.DataDir(), id, "stdout")
	viol := func(key, what string, rd *c05Reader) {
		w := map[string]any{"unit": sp, "what": what}
		if rd != nil {
			got, eof, bad, first, e := rd.snap()
			w["reader"] = map[string]any{"pos": rd.pos, "form": rd.form, "attached": rd.moment, "received": got, "eof": eof, "first_bad_offset": bad, "first_line": first, "err": e}
		}
		run.Violation(key, fmt.Sprintf("unit %d (total %d bytes, exit %d, cancel %v): %s", sp.Idx, total, sp.Exit, sp.Cancel, what), w)
	}
	readers := []*c05Reader{}
	attach := func(moment string, written int64) {
		offs := []int64{0, 1, written, written - 1, written + 1, total, total - 1, total / 2}
		n := 2 + rng.Intn(3)
		for i := 0; i < n; i++ {
			p := offs[rng.Intn(len(offs))]
			if p < 0 {
				p = 0
			}
			if p > total {
				p = total
			}
			form := "plain"
			if rng.Intn(3) == 0 {
				form = "json"
			}
			readers = append(readers, c05StartReader(d, id, p, form, moment, spec.Seed))
		}
		if sp.Big && (moment == "after-completion" || written >= 1000000) {
			for _, p := range []int64{999999, 1000000, 1000001, 1234567} {
				if p <= written {
					readers = append(readers, c05StartReader(d, id, p, "json", moment, spec.Seed))
					run.Count("json_requests_at_offsets_of_a_million_or_more", 1)
				}
			}
		}
	}
	var written int64
	cancelled := false
	cancelAt := -1
	if sp.Cancel {
		cancelAt = 1 + rng.Intn(len(chunks)-1+1)
		if cancelAt >= len(chunks) {
			cancelAt = len(chunks) - 1
		}
	}
	for k, ch := range chunks {
		written += int64(ch.N)
		if !waitFileSize(stdout, written, 60*time.Second) {
			run.Inconclusive(fmt.Sprintf("C05 unit %d: producer did not reach gate %d within the watchdog", sp.Idx, k))
			releaseGates(gate, len(chunks))
			return
		}
		moment := fmt.Sprintf("gate%d", k)
		if k == 0 {
			moment = "before-output"
		}
		attach(moment, written)
		// live following: every reader with p <= written must now hold exactly expected[p:written], and no EOF
		deadline := time.Now().Add(40 * time.Second)
		for _, rd := range readers {
			if rd.pos > written {
				continue
			}
			for {
				got, eof, bad, first, e := rd.snap()
				if first != "" && !strings.HasPrefix(first, "Streaming results") {
					viol("refused", fmt.Sprintf("results request at offset %d answered %q", rd.pos, first), rd)
					break
				}
				if bad >= 0 {
					break
				}
				if eof && rd.pos+got < total {
					break
				}
				if rd.pos+got >= written {
					break
				}
				if e != "" {
					break
				}
				if time.Now().After(deadline) {
					viol("not-live", fmt.Sprintf("reader at offset %d (attached %s) holds %d bytes although the running unit wrote %d bytes at least 40 s ago", rd.pos, rd.moment, got, written), rd)
					break
				}
				time.Sleep(20 * time.Millisecond)
			}
		}
		for _, rd := range readers {
			got, eof, bad, _, _ := rd.snap()
			if bad >= 0 {
				viol("bytes-differ", fmt.Sprintf("reader at offset %d received a byte at absolute offset %d that differs from the unit's output", rd.pos, bad), rd)
			}
			if got > 0 && rd.pos+got > written && bad < 0 {
				viol("bytes-beyond-output", fmt.Sprintf("reader at offset %d holds %d bytes but the unit has only written %d bytes so far", rd.pos, got, written), rd)
			}
			if eof && !cancelled {
				viol("early-eof", fmt.Sprintf("reader at offset %d got end-of-stream after %d bytes while the unit is still running (written %d of %d)", rd.pos, got, written, total), rd)
			}
		}
		if k == cancelAt && !cancelled {
			if l, err := ctlLine(d, "work cancel "+id, 40*time.Second); err == nil && strings.Contains(l, "cancelled") {
				cancelled = true
			}
			break
		}
		_ = os.WriteFile(fmt.Sprintf("%s.%d", gate, k), nil, 0o644)
	}
	releaseGates(gate, len(chunks))
	if cancelled {
		total = written // the unit was stopped at this gate
	}
	// completion: wait for a final state (bounded), then every reader must reach EOF with exactly expected[p:total]
	final := -1
	for i := 0; i < 200; i++ {
		st, _, err := unitStatus(d, id, 15*time.Second)
		if err == nil && st != nil && ctl.Final(st.State) {
			final = st.State
			break
		}
		time.Sleep(150 * time.Millisecond)
	}
	if final < 0 {
		run.Inconclusive(fmt.Sprintf("C05 unit %d: unit did not reach a final state", sp.Idx))
		return
	}
	attach("at-completion", total)
	time.Sleep(time.Duration(rng.Intn(1200)) * time.Millisecond)
	attach("after-completion", total)
	class := "finished"
	if cancelled {
		class = "cancelled"
	} else if sp.Exit != 0 {
		class = "failed"
	}
	deadline := time.Now().Add(60 * time.Second)
	for _, rd := range readers {
		if rd.pos > total {
			// offset beyond the output of a unit that was stopped early: outside 0..size, not judged
			continue
		}
		for {
			got, eof, bad, first, e := rd.snap()
			if first != "" && !strings.HasPrefix(first, "Streaming results") {
				viol("refused", fmt.Sprintf("results request at offset %d answered %q", rd.pos, first), rd)
				break
			}
			if bad >= 0 {
				viol("bytes-differ", fmt.Sprintf("reader at offset %d received a byte at absolute offset %d that differs from the unit's output", rd.pos, bad), rd)
				break
			}
			if eof {
				if rd.pos+got != total {
					viol("eof-short:"+class, fmt.Sprintf("reader at offset %d (attached %s) got end-of-stream after %d bytes; the %s unit's output from there is %d bytes", rd.pos, rd.moment, got, class, total-rd.pos), rd)
				}
				break
			}
			if e != "" {
				viol("stream-error", fmt.Sprintf("reader at offset %d: %s", rd.pos, e), rd)
				break
			}
			if time.Now().After(deadline) {
				viol("no-eof:"+class, fmt.Sprintf("reader at offset %d (attached %s) holds %d of %d bytes and got no end-of-stream 60 s after the unit reached final state %d", rd.pos, rd.moment, got, total-rd.pos, final), rd)
				break
			}
			time.Sleep(30 * time.Millisecond)
		}
		got, _, _, _, _ := rd.snap()
		run.Count("bytes_compared", got)
		run.Count("readers", 1)
		off := "mid"
		switch rd.pos {
		case 0:
			off = "0"
		case total:
			off = "size"
		case total - 1:
			off = "size-1"
		}
		live := "post"
		if strings.HasPrefix(rd.moment, "gate") || rd.moment == "before-output" {
			live = "live"
		}
		run.Distinct(fmt.Sprintf("local|%s|%s|%s|%s", class, off, live, rd.form))
	}
	run.Eval(1)
	if sp.Idx < 2 {
		run.Sample(map[string]any{"kind": "local", "unit": sp, "total": total, "readers": len(readers), "final_state": final})
	}
}

func releaseGates(gate string, n int) {
	for k := 0; k < n; k++ {
		_ = os.WriteFile(fmt.Sprintf("%s.%d", gate, k), nil, 0o644)
	}
}

// ------------------------------------------------------------------ remote mirroring

type c05Fault struct {
	Kind  string `json:"kind"` // cutLM | cutMR | restartM | restartR
	AtPct int    `json:"at_pct"`
	ForMs int    `json:"for_ms"`
}

type c05RemoteSpec struct {
	Idx    int        `json:"idx"`
	Chunks []GenChunk `json:"chunks"`
	Faults []c05Fault `json:"faults"`
	Seed   int64      `json:"seed"`
	// BurstMs: both proxies forward only at ticks this far apart
	BurstMs int `json:"burst_ms,omitempty"`
}

func genC05Remote(rng *rand.Rand, idx int, thorough bool) *c05RemoteSpec {
	sp := &c05RemoteSpec{Idx: idx, Seed: rng.Int63()}
	n := 10 + rng.Intn(8)
	if idx == 0 {
		n = 70 // ~45 s of output: still running when the long outage ends
	}
	for i := 0; i < n; i++ {
		sp.Chunks = append(sp.Chunks, GenChunk{N: 1 + rng.Intn(30000), PauseMs: 300 + rng.Intn(300)})
	}
	kinds := []string{"cutLM", "cutMR", "restartM"}
	if thorough {
		kinds = append(kinds, "restartR", "cutLM", "cutMR")
	}
	nf := 1 + rng.Intn(2)
	if thorough {
		nf = rng.Intn(7)
	}
	for i := 0; i < nf; i++ {
		sp.Faults = append(sp.Faults, c05Fault{Kind: kinds[rng.Intn(len(kinds))], AtPct: 5 + rng.Intn(85), ForMs: 300 + rng.Intn(1700)})
	}
	if idx == 2 || idx == 3 || (thorough && idx%5 == 2) {
		// every (re)start of the transfer is a new chance for the answer line and the first bytes to arrive together:
		// two short cuts give three starts per trial
		sp.BurstMs = 700 + rng.Intn(500)
		sp.Faults = []c05Fault{{Kind: "cutLM", AtPct: 15 + rng.Intn(20), ForMs: 400}, {Kind: "cutLM", AtPct: 50 + rng.Intn(25), ForMs: 400}}
	}
	if idx == 1 || (thorough && idx%5 == 1) {
		// the submitting node itself is SIGKILLed while part of the output is mirrored and restarted on its data
		// directory: the mirror has to be resumed behind what is already stored
		sp.Faults = append(sp.Faults, c05Fault{Kind: "restartL", AtPct: 25 + rng.Intn(40), ForMs: 300 + rng.Intn(1500)})
	}
	if idx == 0 {
		// one trial per run breaks the connection for longer than the QUIC idle timeout (30 s), so that the
		// transfer in progress ends with an error after bytes were stored and has to be resumed
		sp.Faults = append(sp.Faults, c05Fault{Kind: "outageMR", AtPct: 20 + rng.Intn(40), ForMs: 34000})
	}
	// faults in order of position
	for i := range sp.Faults {
		for j := i + 1; j < len(sp.Faults); j++ {
			if sp.Faults[j].AtPct < sp.Faults[i].AtPct {
				sp.Faults[i], sp.Faults[j] = sp.Faults[j], sp.Faults[i]
			}
		}
	}
	return sp
}

func c05Remote(run *ev.Run, dir string, sp *c05RemoteSpec) {
	rng := rand.New(rand.NewSource(sp.Seed))
	genw := []ctl.WorkCmd{genWork()}
	R := ctl.NewDaemon(ctl.Cfg{ID: "r", Dir: filepath.Join(dir, "r"), Listen: true, Work: genw})
	if err := R.Start(); err != nil {
		run.Inconclusive("C05 remote: " + err.Error())
		return
	}
	defer R.Kill()
	pMR, _ := ctl.NewProxy(fmt.Sprintf("127.0.0.1:%d", R.ListenPort), false)
	if sp.BurstMs > 0 {
		pMR.SetBurst(time.Duration(sp.BurstMs) * time.Millisecond)
	}
	defer pMR.Close()
	M := ctl.NewDaemon(ctl.Cfg{ID: "m", Dir: filepath.Join(dir, "m"), Listen: true, Peers: []string{pMR.Addr}})
	if err := M.Start(); err != nil {
		run.Inconclusive("C05 remote: " + err.Error())
		return
	}
	defer M.Kill()
	pLM, _ := ctl.NewProxy(fmt.Sprintf("127.0.0.1:%d", M.ListenPort), false)
	defer pLM.Close()
	if sp.BurstMs > 0 {
		// a bursty path: what the far nodes send within one period reaches the submitting node back to back
		pLM.SetBurst(time.Duration(sp.BurstMs) * time.Millisecond)
		run.Count("remote_trials_over_a_bursty_path", 1)
	}
	L := ctl.NewDaemon(ctl.Cfg{ID: "l", Dir: filepath.Join(dir, "l"), Peers: []string{pLM.Addr}, Work: genw})
	if err := L.Start(); err != nil {
		run.Inconclusive("C05 remote: " + err.Error())
		return
	}
	defer func() { L.Kill(); ctl.KillStrays(dir) }()
	if !waitRoute(L, []string{"r"}, 60*time.Second) {
		run.Inconclusive(fmt.Sprintf("C05 remote %d: mesh did not form", sp.Idx))
		return
	}
	spec := GenSpec{Seed: uint64(rng.Int63()) | 1, Chunks: sp.Chunks}
	total := spec.Total()
	c, err := ctl.DialUnix(L.Sock(), 10*time.Second)
	if err != nil {
		run.Inconclusive("C05 remote: " + err.Error())
		return
	}
	sr := c.Submit("work submit r gen", mustJSON(spec), 40*time.Second)
	c.Close()
	if sr.UnitID == "" {
		run.Inconclusive(fmt.Sprintf("C05 remote %d: submit failed: %+v", sp.Idx, sr))
		return
	}
	id := sr.UnitID
	viol := func(key, what string, extra map[string]any) {
		w := map[string]any{"remote_trial": sp, "what": what}
		for k, v := range extra {
			w[k] = v
		}
		run.Violation(key, fmt.Sprintf("remote unit trial %d (total %d bytes, faults %v): %s", sp.Idx, total, sp.Faults, what), w)
	}
	// find the remote unit id
	remoteID := ""
	for i := 0; i < 200 && remoteID == ""; i++ {
		if st, _, err := unitStatus(L, id, 10*time.Second); err == nil && st != nil && st.ExtraData != nil {
			remoteID, _ = st.ExtraData["RemoteUnitID"].(string)
		}
		time.Sleep(50 * time.Millisecond)
	}
	if remoteID == "" {
		run.Inconclusive(fmt.Sprintf("C05 remote %d: remote unit id never appeared", sp.Idx))
		return
	}
	localOut := filepath.Join(L.DataDir(), id, "stdout")
	remoteOut := filepath.Join(R.DataDir(), remoteID, "stdout")
	// readers on the local node following the mirrored output
	readers := []*c05Reader{c05StartReader(L, id, 0, "plain", "start", spec.Seed), c05StartReader(L, id, int64(rng.Intn(int(total))), "json", "start", spec.Seed)}
	stop := make(chan struct{})
	var swg sync.WaitGroup
	samples := 0
	var sampleViol string
	swg.Add(1)
	go func() {
		defer swg.Done()
		for {
			select {
			case <-stop:
				return
			default:
			}
			// local first, remote second: the remote file only grows, so prefix comparison is sound
			lb, _ := os.ReadFile(localOut)
			rb, _ := os.ReadFile(remoteOut)
			samples++
			if len(lb) > len(rb) || !bytes.Equal(lb, rb[:len(lb)]) {
				if sampleViol == "" {
					sampleViol = fmt.Sprintf("local copy (%d bytes) is not a prefix of the remote output (%d bytes)", len(lb), len(rb))
				}
			}
			if d := prng.FirstDiff(spec.Seed, 0, lb); d >= 0 && sampleViol == "" {
				sampleViol = fmt.Sprintf("local copy differs from the expected stream at offset %d", d)
			}
			time.Sleep(25 * time.Millisecond)
		}
	}()
	applied := []string{}
	for _, f := range sp.Faults {
		at := total * int64(f.AtPct) / 100
		if !waitFileSize(localOut, at, 90*time.Second) {
			break
		}
		switch f.Kind {
		case "cutLM":
			pLM.Cut()
			time.Sleep(time.Duration(f.ForMs) * time.Millisecond)
			pLM.Heal()
		case "cutMR":
			pMR.Cut()
			time.Sleep(time.Duration(f.ForMs) * time.Millisecond)
			pMR.Heal()
		case "outageMR":
			pMR.Cut()
			time.Sleep(time.Duration(f.ForMs) * time.Millisecond)
			pMR.Heal()
		case "restartM":
			M.Kill()
			time.Sleep(time.Duration(f.ForMs) * time.Millisecond)
			_ = M.Start()
		case "restartR":
			R.Kill()
			time.Sleep(time.Duration(f.ForMs) * time.Millisecond)
			_ = R.Start()
		case "restartL":
			L.Kill()
			time.Sleep(time.Duration(f.ForMs) * time.Millisecond)
			if err := L.Start(); err != nil {
				close(stop)
				swg.Wait()
				run.Inconclusive(fmt.Sprintf("C05 remote %d: submitting daemon did not restart: %v", sp.Idx, err))
				return
			}
			// the readers' sessions ended with the daemon: they are replaced by fresh ones on the restarted daemon
			readers = []*c05Reader{c05StartReader(L, id, 0, "plain", "after-restart", spec.Seed), c05StartReader(L, id, at/2, "json", "after-restart", spec.Seed)}
		}
		applied = append(applied, f.Kind)
		run.Count("fault_"+f.Kind, 1)
	}
	// after the last fault: links healed; wait (bounded) until the mesh is whole again, then for convergence
	if !waitRoute(L, []string{"r"}, 90*time.Second) {
		close(stop)
		swg.Wait()
		run.Inconclusive(fmt.Sprintf("C05 remote %d: mesh did not re-form after the faults", sp.Idx))
		return
	}
	converged := false
	final := -1
	deadline := time.Now().Add(240 * time.Second)
	for time.Now().Before(deadline) {
		st, _, err := unitStatus(L, id, 15*time.Second)
		if err == nil && st != nil && ctl.Final(st.State) {
			final = st.State
			if fi, err := os.Stat(localOut); err == nil && fi.Size() >= total {
				converged = true
				break
			}
			if st.State != 2 {
				break
			}
		}
		time.Sleep(200 * time.Millisecond)
	}
	close(stop)
	swg.Wait()
	run.Count("mirror_samples", int64(samples))
	fk := strings.Join(applied, "+")
	if fk == "" {
		fk = "none"
	}
	if sampleViol != "" {
		viol("mirror:not-prefix", sampleViol, nil)
	}
	lb, _ := os.ReadFile(localOut)
	rb, _ := os.ReadFile(remoteOut)
	switch {
	case !converged:
		viol("mirror:not-converged", fmt.Sprintf("after faults [%s] and a re-formed mesh the local unit is in state %d with %d of %d bytes (remote has %d) after the bounded wait", fk, final, len(lb), total, len(rb)), nil)
	case !bytes.Equal(lb, rb) || prng.FirstDiff(spec.Seed, 0, lb) >= 0 || int64(len(lb)) != total:
		viol("mirror:final-differs", fmt.Sprintf("final local copy (%d bytes) differs from the remote output (%d bytes) / expected %d", len(lb), len(rb), total), nil)
	}
	if converged {
		readers = append(readers, c05StartReader(L, id, 0, "plain", "after-completion", spec.Seed))
		rdl := time.Now().Add(90 * time.Second)
		for _, rd := range readers {
			for {
				got, eof, bad, first, e := rd.snap()
				if first != "" && !strings.HasPrefix(first, "Streaming results") {
					viol("remote-results:refused", fmt.Sprintf("results at offset %d answered %q", rd.pos, first), nil)
					break
				}
				if bad >= 0 {
					viol("remote-results:bytes-differ", fmt.Sprintf("reader at offset %d got a wrong byte at offset %d", rd.pos, bad), nil)
					break
				}
				if eof {
					if rd.pos+got != total {
						viol("remote-results:eof-short", fmt.Sprintf("reader at offset %d (attached %s) got end-of-stream after %d bytes, expected %d", rd.pos, rd.moment, got, total-rd.pos), nil)
					}
					break
				}
				if e != "" || time.Now().After(rdl) {
					viol("remote-results:no-eof", fmt.Sprintf("reader at offset %d (attached %s) holds %d of %d bytes, no end-of-stream (err %q)", rd.pos, rd.moment, got, total-rd.pos, e), nil)
					break
				}
				time.Sleep(50 * time.Millisecond)
			}
			got, _, _, _, _ := rd.snap()
			run.Count("bytes_compared", got)
			run.Count("readers", 1)
		}
	}
	run.Eval(1)
	if len(applied) > 0 {
		run.Distinct("remote|" + fk)
	}
	if sp.Idx == 0 {
		run.Sample(map[string]any{"kind": "remote", "trial": sp, "faults_applied": applied, "mirror_samples": samples, "converged": converged})
	}
}

func runC05(tier string, args []string) {
	run := ev.New("C05", tier, "exploration")
	run.Rule("local: gated producer (PRNG stream, seeded chunk sizes incl. 64 KiB straddles, empty, failing, cancelled units); 2-4 readers attached at every gate and after completion with offsets from {0,1,written,written±1,size/2,size-1,size}, plain and JSON request forms; at gate k every reader with p<=n_k must hold exactly expected[p:n_k] and no EOF; after completion exactly expected[p:] then EOF. remote: unit on the far end of a 3-daemon chain while proxies cut/heal links and relay/remote daemons and the submitting daemon itself are SIGKILLed and restarted at seeded positions of the mirrored output; local stdout sampled (local first, remote second) must be a prefix of the remote file, equal at the end. distinct_nontrivial = distinct (unit class, offset class, live/post, request form) reader classes + distinct fault sequences applied")
	work := workDir()
	rng := rand.New(rand.NewSource(run.Seed*15485863 + 5))
	nLocal := run.Pick(12, 120)
	nRemote := run.Pick(4, 40)
	locals := []*c05LocalSpec{}
	for i := 0; i < nLocal; i++ {
		locals = append(locals, genC05Local(rng, i))
	}
	remotes := []*c05RemoteSpec{}
	for i := 0; i < nRemote; i++ {
		remotes = append(remotes, genC05Remote(rng, i, !run.Quick()))
	}
	var wg sync.WaitGroup
	// local units share one daemon (they are independent units)
	wg.Add(1)
	go func() {
		defer wg.Done()
		d := ctl.NewDaemon(ctl.Cfg{ID: "l", Dir: filepath.Join(work, "local"), Work: []ctl.WorkCmd{genWork()}})
		if err := d.Start(); err != nil {
			run.Inconclusive("C05 local daemon: " + err.Error())
			return
		}
		defer func() { d.Kill(); ctl.KillStrays(filepath.Join(work, "local")) }()
		sem := make(chan struct{}, 6)
		var lw sync.WaitGroup
		for _, sp := range locals {
			lw.Add(1)
			sem <- struct{}{}
			go func(sp *c05LocalSpec) {
				defer lw.Done()
				defer func() { <-sem }()
				c05Local(run, d, filepath.Join(work, "local"), sp)
			}(sp)
		}
		lw.Wait()
		if !d.Alive() {
			fatal, top, _ := d.Fatal()
			run.Violation("daemon-died", "daemon died during the local results workload: "+fatal+" at "+top, map[string]any{"tail": d.OutTail(2000)})
		}
	}()
	rsem := make(chan struct{}, 4)
	for _, sp := range remotes {
		wg.Add(1)
		rsem <- struct{}{}
		go func(sp *c05RemoteSpec) {
			defer wg.Done()
			defer func() { <-rsem }()
			dir := filepath.Join(work, fmt.Sprintf("rem%d", sp.Idx))
			_ = os.MkdirAll(dir, 0o755)
			c05Remote(run, dir, sp)
			_ = os.RemoveAll(dir)
		}(sp)
	}
	wg.Wait()
	run.Finish(run.Pick(8, 20))
}
