package main

import (
	"context"
	"fmt"
	"io"
	"math/rand"
	"net"
	"os"
	"path/filepath"
	"strings"
	"sync"
	"sync/atomic"
	"time"

	"verif/harness/internal/ev"
	"verif/harness/internal/memnet"
	"verif/harness/internal/mesh"
	"verif/harness/internal/prng"

	"github.com/ansible/receptor/pkg/controlsvc"
	"github.com/ansible/receptor/pkg/netceptor"
)

// C03 — mesh streams are reliable ordered byte pipes despite loss and re-routing.
//
// Each direction of each connection carries a PRNG stream keyed by (trial, direction); the
// reader regenerates it and compares offset by offset, so the first divergent offset is the
// witness. Links drop, duplicate, delay and reorder data datagrams under a seeded plan; in
// re-route trials the link the routing table is using is cut while a second path exists. An
// independent ping probe between the end nodes decides whether a stall or error happened
// while the nodes were mutually reachable (otherwise the trial is inconclusive).

func init() { register("C03", runC03) }

type c03Spec struct {
	Idx      int     `json:"idx"`
	Kind     string  `json:"kind"` // faulty | clean | reroute | bridged
	Hops     int     `json:"hops"`
	Ring     bool    `json:"ring"`
	SizeAB   int64   `json:"bytes_a_to_b"`
	SizeBA   int64   `json:"bytes_b_to_a"`
	Mode     string  `json:"mode"` // simplex | duplex | reqresp
	E2ELoss  float64 `json:"end_to_end_loss"`
	Dup      float64 `json:"dup"`
	DelayMs  int     `json:"delay_max_ms"`
	Reorder  bool    `json:"reorder"`
	MaxWrite int     `json:"max_write"`
	Seed     int64   `json:"seed"`
}

func genC03(rng *rand.Rand, idx int, kind string, thorough bool) *c03Spec {
	sp := &c03Spec{Idx: idx, Kind: kind, Seed: rng.Int63()}
	sp.Hops = 1 + rng.Intn(4)
	sizes := []int64{0, 1, 2, 1000, 4096, 65535, 65536, 100000, 262144}
	sp.MaxWrite = []int{1, 7, 1000, 16384, 65536, 262144}[rng.Intn(6)]
	sp.Mode = []string{"simplex", "duplex", "reqresp"}[rng.Intn(3)]
	switch kind {
	case "faulty":
		sp.SizeAB = sizes[rng.Intn(len(sizes))]
		sp.SizeBA = sizes[rng.Intn(len(sizes))]
		if thorough && rng.Intn(6) == 0 {
			sp.SizeAB = 1 << 20
		}
		sp.E2ELoss = []float64{0.02, 0.05, 0.10, 0.15}[rng.Intn(4)]
		sp.Dup = []float64{0, 0.05, 0.10}[rng.Intn(3)]
		sp.DelayMs = []int{0, 20, 150}[rng.Intn(3)]
		sp.Reorder = rng.Intn(2) == 0
		if sp.MaxWrite < 1000 && sp.SizeAB > 70000 {
			sp.MaxWrite = 1000 // byte-sized writes of large streams only cost time
		}
	case "clean":
		sp.SizeAB = 8 << 20
		sp.SizeBA = []int64{0, 8 << 20}[rng.Intn(2)]
		sp.Mode = "duplex"
		sp.MaxWrite = 262144
		sp.DelayMs = []int{0, 10}[rng.Intn(2)]
	case "reroute":
		sp.Ring = true
		sp.Hops = 2
		sp.SizeAB = 1500000 + int64(rng.Intn(1500000))
		sp.SizeBA = int64(rng.Intn(400000))
		sp.Mode = "duplex"
		sp.MaxWrite = 16384
		sp.DelayMs = 5
	case "notices":
		// loss-free links; while the transfer runs, expiry / firewall notices about datagrams of this very
		// connection arrive at both ends (what an expired or rejected datagram in transit produces)
		sp.Hops = 1 + rng.Intn(3)
		sp.SizeAB = 600000 + int64(rng.Intn(600000))
		sp.SizeBA = 300000 + int64(rng.Intn(300000))
		sp.Mode = "duplex"
		sp.MaxWrite = 16384
		sp.DelayMs = 5
	case "bridged":
		sp.SizeAB = sizes[1+rng.Intn(len(sizes)-1)]
		sp.SizeBA = sizes[1+rng.Intn(len(sizes)-1)]
		sp.Mode = "reqresp"
		sp.Hops = 1 + rng.Intn(2)
		sp.DelayMs = 5
	}
	if sp.MaxWrite < 100 && (sp.SizeAB > 5000 || sp.SizeBA > 5000) {
		sp.MaxWrite = 100 + rng.Intn(900)
	}
	return sp
}

type c03Result struct {
	read    int64
	bad     int64 // first divergent offset, -1 none
	eof     bool
	err     string
	extra   bool
	stalled bool
}

// c03Read reads the stream of (seed) until EOF or want bytes + EOF; progress is reported via *prog.
func c03Read(r io.Reader, seed uint64, want int64, prog *atomic.Int64) c03Result {
	res := c03Result{bad: -1}
	buf := make([]byte, 65536)
	for {
		n, err := r.Read(buf)
		if n > 0 {
			if res.bad < 0 {
				if d := prng.FirstDiff(seed, res.read, buf[:n]); d >= 0 {
					res.bad = res.read + int64(d)
				}
			}
			res.read += int64(n)
			prog.Add(int64(n))
			if res.read > want {
				res.extra = true
			}
		}
		if err == io.EOF {
			res.eof = true
			return res
		}
		if err != nil {
			res.err = err.Error()
			return res
		}
	}
}

func c03Write(w io.Writer, seed uint64, total int64, maxWrite int, rng *rand.Rand, prog *atomic.Int64) error {
	var off int64
	for off < total {
		n := int64(1 + rng.Intn(maxWrite))
		if off+n > total {
			n = total - off
		}
		if _, err := w.Write(prng.Bytes(seed, off, int(n))); err != nil {
			return err
		}
		off += n
		prog.Add(n)
	}
	return nil
}

func runC03Trial(run *ev.Run, sp *c03Spec) {
	_ = rand.New
	c := mesh.DefaultConsts()
	c.Idle = 20 * time.Second
	m := mesh.New(c, sp.Seed)
	defer m.Shutdown()
	var dropped, dupped, dataSeen atomic.Int64
	m.Net.Tap = func(e memnet.TapEvent) {
		if len(e.Data) > 0 && e.Data[0] == 0 {
			switch e.Dir {
			case "drop":
				dropped.Add(1)
			case "dup":
				dupped.Add(1)
			case "send":
				dataSeen.Add(1)
			}
		}
	}
	// chain a=n0 ... b=n<hops>; ring adds an alternative path of the same length
	ids := []string{}
	for i := 0; i <= sp.Hops; i++ {
		ids = append(ids, fmt.Sprintf("n%d", i))
		m.AddNode(ids[i])
	}
	perLink := sp.E2ELoss / float64(sp.Hops)
	plan := memnet.Plan{DataDrop: perLink, DataDup: sp.Dup / float64(sp.Hops), DataDelayMax: time.Duration(sp.DelayMs) * time.Millisecond, DataReorder: sp.Reorder, CtlDrop: 0.02}
	links := map[string]*mesh.LinkInfo{}
	for i := 1; i <= sp.Hops; i++ {
		li := m.Connect(ids[i-1], ids[i], 1, false)
		li.L.SetPlan(plan)
		links[ids[i-1]+"|"+ids[i]] = li
	}
	if sp.Ring {
		m.AddNode("alt")
		for _, e := range [][2]string{{ids[0], "alt"}, {"alt", ids[sp.Hops]}} {
			li := m.Connect(e[0], e[1], 1, false)
			li.L.SetPlan(plan)
			links[e[0]+"|"+e[1]] = li
		}
	}
	a, b := m.Node(ids[0]).Inst(), m.Node(ids[sp.Hops]).Inst()
	bid := ids[sp.Hops]
	// wait until a and b know each other
	okr := false
	for i := 0; i < 600; i++ {
		_, ok1 := a.Status().RoutingTable[bid]
		_, ok2 := b.Status().RoutingTable[ids[0]]
		if ok1 && ok2 {
			okr = true
			break
		}
		time.Sleep(50 * time.Millisecond)
	}
	if !okr {
		run.Eval(1)
		run.Inconclusive(fmt.Sprintf("C03 trial %d: mesh did not form", sp.Idx))
		return
	}
	// reachability probe on its own sockets
	stopProbe := make(chan struct{})
	var pmu sync.Mutex
	okTimes := []time.Time{time.Now()}
	var pwg sync.WaitGroup
	pwg.Add(1)
	go func() {
		defer pwg.Done()
		for {
			select {
			case <-stopProbe:
				return
			default:
			}
			ctx, cancel := context.WithTimeout(context.Background(), 1500*time.Millisecond)
			_, _, err := a.Ping(ctx, bid, 30)
			cancel()
			if err == nil {
				pmu.Lock()
				okTimes = append(okTimes, time.Now())
				pmu.Unlock()
			}
			time.Sleep(200 * time.Millisecond)
		}
	}()
	maxGap := func() time.Duration {
		pmu.Lock()
		defer pmu.Unlock()
		g := time.Since(okTimes[len(okTimes)-1])
		for i := 1; i < len(okTimes); i++ {
			if d := okTimes[i].Sub(okTimes[i-1]); d > g {
				g = d
			}
		}
		return g
	}
	seedAB := uint64(sp.Seed)*2 + 1
	seedBA := uint64(sp.Seed)*2 + 3
	svc := "xfer"
	li, err := b.Listen(svc, nil)
	if err != nil {
		run.Inconclusive("C03: listen: " + err.Error())
		close(stopProbe)
		return
	}
	defer li.Close()
	var progress atomic.Int64
	type side struct {
		res  c03Result
		werr error
	}
	var srv, cli side
	var wg sync.WaitGroup
	srvRng := rand.New(rand.NewSource(sp.Seed + 1))
	wg.Add(1)
	go func() {
		defer wg.Done()
		conn, err := li.Accept()
		if err != nil {
			srv.res = c03Result{bad: -1, err: "accept: " + err.Error()}
			return
		}
		// the server never aborts the connection: the client ends it once both directions are complete
		switch sp.Mode {
		case "reqresp":
			srv.res = c03Read(conn, seedAB, sp.SizeAB, &progress)
			srv.werr = c03Write(conn, seedBA, sp.SizeBA, sp.MaxWrite, srvRng, &progress)
			_ = conn.Close()
		default:
			var w sync.WaitGroup
			w.Add(1)
			go func() {
				defer w.Done()
				if sp.Mode == "duplex" {
					srv.werr = c03Write(conn, seedBA, sp.SizeBA, sp.MaxWrite, srvRng, &progress)
				}
				_ = conn.Close() // closes the writing side only
			}()
			srv.res = c03Read(conn, seedAB, sp.SizeAB, &progress)
			w.Wait()
		}
	}()
	// client side: direct mesh connection, or a control-service `connect` bridge on node a
	var cconn net.Conn
	var closeAll func()
	if sp.Kind == "bridged" {
		sock := filepath.Join(workDir(), fmt.Sprintf("c03-%d.sock", sp.Idx))
		_ = os.Remove(sock)
		cs := controlsvc.New(true, a)
		cctx, ccancel := context.WithCancel(context.Background())
		defer ccancel()
		if err := cs.RunControlSvc(cctx, "", nil, sock, 0o600, "", nil); err != nil {
			run.Inconclusive("C03: control service: " + err.Error())
			close(stopProbe)
			return
		}
		uc, err := net.DialTimeout("unix", sock, 5*time.Second)
		if err != nil {
			run.Inconclusive("C03: " + err.Error())
			close(stopProbe)
			return
		}
		rd := make([]byte, 1)
		line := func() string {
			sb := strings.Builder{}
			for {
				_ = uc.SetReadDeadline(time.Now().Add(30 * time.Second))
				if _, err := uc.Read(rd); err != nil {
					return sb.String()
				}
				if rd[0] == '\n' {
					return sb.String()
				}
				sb.WriteByte(rd[0])
			}
		}
		_ = line() // greeting
		_, _ = uc.Write([]byte(fmt.Sprintf("connect %s %s\n", bid, svc)))
		if l := line(); l != "Connecting" {
			run.Eval(1)
			run.Inconclusive(fmt.Sprintf("C03 trial %d: connect answered %q", sp.Idx, l))
			close(stopProbe)
			return
		}
		_ = uc.SetReadDeadline(time.Time{})
		cconn = uc
		closeAll = func() { _ = uc.Close() }
	} else {
		ctx, cancel := context.WithTimeout(context.Background(), 60*time.Second)
		mc, err := a.DialContext(ctx, bid, svc, nil)
		cancel()
		if err != nil {
			run.Eval(1)
			close(stopProbe)
			pwg.Wait()
			if maxGap() < 7*time.Second && sp.E2ELoss <= 0.15 {
				run.Violation("dial-failed:"+sp.Kind, fmt.Sprintf("trial %d: dial failed although the end nodes stayed reachable: %v", sp.Idx, err), map[string]any{"spec": sp})
			} else {
				run.Inconclusive(fmt.Sprintf("C03 trial %d: dial failed: %v", sp.Idx, err))
			}
			return
		}
		cconn = mc
		closeAll = func() { _ = mc.CloseConnection() }
	}
	cliRng := rand.New(rand.NewSource(sp.Seed + 2))
	halfClose := func() {
		switch x := cconn.(type) {
		case *net.UnixConn:
			_ = x.CloseWrite()
		default:
			_ = cconn.Close()
		}
	}
	wg.Add(1)
	go func() {
		defer wg.Done()
		switch sp.Mode {
		case "reqresp":
			cli.werr = c03Write(cconn, seedAB, sp.SizeAB, sp.MaxWrite, cliRng, &progress)
			halfClose()
			cli.res = c03Read(cconn, seedBA, sp.SizeBA, &progress)
		default:
			var w sync.WaitGroup
			w.Add(1)
			go func() {
				defer w.Done()
				cli.werr = c03Write(cconn, seedAB, sp.SizeAB, sp.MaxWrite, cliRng, &progress)
				halfClose()
			}()
			cli.res = c03Read(cconn, seedBA, func() int64 {
				if sp.Mode == "duplex" {
					return sp.SizeBA
				}
				return 0
			}(), &progress)
			w.Wait()
		}
	}()
	// notices: a datagram of this connection "expired in transit" / "was blocked" in either direction
	noticesSent := 0
	if sp.Kind == "notices" {
		if mc, ok := cconn.(interface{ LocalAddr() net.Addr }); ok {
			la := mc.LocalAddr().String() // "<node>:<ephemeral service>" of the dialing side
			if i := strings.LastIndex(la, ":"); i > 0 {
				eph := la[i+1:]
				relay := m.Node(ids[sp.Hops/2]).Inst()
				for _, pct := range []int64{25, 55} {
					for k := 0; k < 3000 && progress.Load() < (sp.SizeAB+sp.SizeBA)*pct/100; k++ {
						time.Sleep(5 * time.Millisecond)
					}
					for _, problem := range []string{"message expired", "blocked by firewall"} {
						// about a datagram sent by the accepting side towards the dialer ...
						n1 := fmt.Sprintf(`{"FromNode":%q,"ToNode":%q,"FromService":%q,"ToService":%q,"Problem":%q}`, bid, ids[0], svc, eph, problem)
						_ = relay.SendMessageWithHopsToLive("unreach", bid, "unreach", []byte(n1), 30)
						// ... and about one sent by the dialer towards the accepting side
						n2 := fmt.Sprintf(`{"FromNode":%q,"ToNode":%q,"FromService":%q,"ToService":%q,"Problem":%q}`, ids[0], bid, eph, svc, problem)
						_ = relay.SendMessageWithHopsToLive("unreach", ids[0], "unreach", []byte(n2), 30)
						noticesSent += 2
					}
				}
			}
		}
	}
	// re-route: cut the link the routing table of a is using once ~30 % went through
	rerouted := false
	if sp.Kind == "reroute" {
		for i := 0; i < 3000 && progress.Load() < (sp.SizeAB+sp.SizeBA)*3/10; i++ {
			time.Sleep(10 * time.Millisecond)
		}
		// the link in use next to the sending end is cut while that end is sending at full speed, the route moves to
		// the alternative, the link is healed again; repeated while the transfer lasts (up to 6 cuts), so that a cut
		// also lands in the instant in which a datagram is being handed to the dying link
		total := sp.SizeAB + sp.SizeBA
		for cuts := 0; cuts < 6 && progress.Load() < total*9/10; cuts++ {
			nh := a.Status().RoutingTable[bid]
			var cut *mesh.LinkInfo
			for k, l := range links {
				if strings.HasPrefix(k, ids[0]+"|") && strings.HasSuffix(k, "|"+nh) {
					cut = l
				}
			}
			if cut == nil {
				break
			}
			cut.L.Down()
			moved := false
			for i := 0; i < 400; i++ {
				if n2 := a.Status().RoutingTable[bid]; n2 != "" && n2 != nh {
					moved = true
					break
				}
				time.Sleep(50 * time.Millisecond)
			}
			if moved {
				rerouted = true
				run.Count("reroute_cuts_under_traffic", 1)
			}
			cut.L.Up()
			// let the transfer advance (and the healed link come back) before the next cut
			at := progress.Load()
			for i := 0; i < 300 && progress.Load() < at+total/12 && progress.Load() < total*9/10; i++ {
				time.Sleep(10 * time.Millisecond)
			}
			if !moved {
				break
			}
		}
	}
	// stall watchdog: no progress for 90 s
	done := make(chan struct{})
	go func() { wg.Wait(); close(done) }()
	stalled := false
	last, lastT := progress.Load(), time.Now()
wait:
	for {
		select {
		case <-done:
			break wait
		case <-time.After(500 * time.Millisecond):
			if p := progress.Load(); p != last {
				last, lastT = p, time.Now()
			} else if time.Since(lastT) > 90*time.Second {
				stalled = true
				break wait
			}
		}
	}
	close(stopProbe)
	closeAll()
	if stalled {
		_ = li.Close()
		<-done
	}
	pwg.Wait()
	gap := maxGap()
	run.Eval(1)
	run.Count("bytes_verified", srv.res.read+cli.res.read)
	run.Count("data_datagrams_dropped", dropped.Load())
	run.Count("data_datagrams_duplicated", dupped.Load())
	run.Count("data_datagrams_sent", dataSeen.Load())
	reachable := gap < 7*time.Second
	w := map[string]any{"spec": sp, "server_side": fmt.Sprintf("%+v", srv.res), "client_side": fmt.Sprintf("%+v", cli.res), "server_write_err": fmt.Sprint(srv.werr), "client_write_err": fmt.Sprint(cli.werr), "max_probe_gap_ms": gap.Milliseconds(), "dropped": dropped.Load(), "duplicated": dupped.Load(), "rerouted": rerouted}
	judge := func(dir string, r c03Result, want int64, werr error) {
		switch {
		case r.bad >= 0:
			run.Violation("bytes-differ:"+sp.Kind, fmt.Sprintf("trial %d %s: byte at offset %d differs from what was written", sp.Idx, dir, r.bad), w)
		case r.extra:
			run.Violation("extra-bytes:"+sp.Kind, fmt.Sprintf("trial %d %s: %d bytes were read but only %d written", sp.Idx, dir, r.read, want), w)
		case r.eof && r.read < want && werr == nil:
			run.Violation("short-eof:"+sp.Kind, fmt.Sprintf("trial %d %s: end-of-stream after %d of %d bytes although the writer wrote everything and closed afterwards", sp.Idx, dir, r.read, want), w)
		case (r.err != "" || stalled || werr != nil) && r.read < want || (r.err != "" && !r.eof):
			if reachable && !strings.Contains(r.err, "accept:") {
				run.Violation("stream-broken:"+sp.Kind, fmt.Sprintf("trial %d %s: read %d of %d bytes, then error %q / stall=%v (writer error %v) while the end nodes stayed reachable (largest probe gap %v)", sp.Idx, dir, r.read, want, r.err, stalled, werr, gap.Round(time.Millisecond)), w)
			} else {
				run.Inconclusive(fmt.Sprintf("C03 trial %d %s: stream ended with %q but the reachability probe had a gap of %v", sp.Idx, dir, r.err, gap.Round(time.Millisecond)))
			}
		}
	}
	wantBA := sp.SizeBA
	if sp.Mode == "simplex" {
		wantBA = 0
	}
	judge("a->b", srv.res, sp.SizeAB, cli.werr)
	judge("b->a", cli.res, wantBA, srv.werr)
	if sp.Kind == "reroute" {
		if rerouted {
			run.Count("reroutes_during_transfer", 1)
			run.Distinct(fmt.Sprintf("reroute|%d", sp.Idx%4))
		} else {
			run.Inconclusive(fmt.Sprintf("C03 trial %d: the route did not change during the transfer", sp.Idx))
		}
	} else if sp.Kind == "notices" {
		run.Count("expiry_and_firewall_notices_delivered_mid_stream", int64(noticesSent))
		if noticesSent > 0 {
			run.Distinct(fmt.Sprintf("notices|h%d", sp.Hops))
		}
	} else if sp.Kind == "faulty" {
		if dropped.Load()+dupped.Load() > 0 || sp.Reorder {
			run.Distinct(fmt.Sprintf("faulty|h%d|%s|loss%.2f|dup%.2f|re%v|d%d", sp.Hops, sp.Mode, sp.E2ELoss, sp.Dup, sp.Reorder, sp.DelayMs))
		}
	} else {
		run.Distinct(fmt.Sprintf("%s|h%d|%s", sp.Kind, sp.Hops, sp.Mode))
	}
	if sp.Idx < 3 {
		run.Sample(w)
	}
}

func runC03(tier string, args []string) {
	run := ev.New("C03", tier, "exploration")
	run.Rule("transfers of PRNG streams (seeded sizes 0 B..256 KiB under faults, 8 MiB clean; seeded write sizes 1 B..256 KiB; simplex, full duplex, request/response with half-close) over chains of 1-4 hops whose links drop (end-to-end loss <= 15 %), duplicate, delay and reorder data datagrams; re-route trials cut the link in use while an equal alternative exists; bridged trials go through a control-service `connect` session; notices trials deliver 'message expired' / 'blocked by firewall' notices about datagrams of the connection to both ends mid-stream (what a datagram expiring or being rejected in transit produces); long-answer trials (child process with the library's QUIC idle timeout lowered to 3 s): one end half-closes and then reads an answer lasting 2.2-3.2 idle periods, dialer and listener in either role. The reader regenerates the stream and compares offset by offset; EOF placement checked; an independent ping probe decides whether errors/stalls count. distinct_nontrivial = distinct fault/shape classes in which datagrams were actually dropped, duplicated or reordered, plus re-routes that changed the next hop mid-transfer")
	run.Assume("bounded loss = end-to-end 15 % at most (QUIC itself gives up far beyond); a stall/error is judged only if the largest gap between successful pings of the end nodes stayed below 7 s")
	rng := rand.New(rand.NewSource(run.Seed*67867967 + 3))
	specs := []*c03Spec{}
	add := func(kind string, n int) {
		for i := 0; i < n; i++ {
			specs = append(specs, genC03(rng, len(specs), kind, !run.Quick()))
		}
	}
	add("faulty", run.Pick(20, 220))
	add("clean", run.Pick(3, 12))
	add("reroute", run.Pick(4, 40))
	add("bridged", run.Pick(4, 40))
	add("notices", run.Pick(3, 30))
	if len(args) >= 2 && args[0] == "--trial" {
		var idx int
		fmt.Sscan(args[1], &idx)
		specs = specs[idx : idx+1]
	}
	sem := make(chan struct{}, 16)
	var wg sync.WaitGroup
	for _, sp := range specs {
		wg.Add(1)
		sem <- struct{}{}
		go func(sp *c03Spec) {
			defer wg.Done()
			defer func() { <-sem }()
			runC03Trial(run, sp)
		}(sp)
	}
	wg.Wait()
	if len(args) == 0 {
		runC03Long(run, run.Seed)
	}
	collectRaces(run, workDir())
	run.Finish(run.Pick(12, 60))
}

var _ = netceptor.MsgTypeData
