package main

import (
	"context"
	"crypto/sha256"
	"encoding/hex"
	"fmt"
	"math/rand"
	"sync"
	"time"

	"verif/harness/internal/ev"
	"verif/harness/internal/memnet"
	"verif/harness/internal/mesh"
	"verif/harness/internal/wire"
)

// Additional C10 sub-monitors.
//
// (1) tight budgets: chains whose length equals the configured forwarding-hop maximum, so that the
//     farthest node is exactly MaxForwardingHops links away: default-budget datagrams and pings must
//     reach it and traceroute must list every node of the path.
// (2) injected datagrams: a scripted backend peer hands a real chain raw data packets with every
//     combination of source service (incl. the reserved "unreach" and "ping"), phantom or real source
//     node and small/zero/huge TTL bytes. Whatever the packet claims to be, it may cross at most TTL
//     further links, each crossing with the TTL byte one lower.
// (3) forwarding conservation on that mesh: every data datagram a real node puts on a link is either
//     originated by it or matches a datagram it received earlier with a TTL byte exactly one higher.

type c10Key struct {
	from, to     uint64
	fsvc, tsvc   string
	payload      string
}

func c10PacketKey(d *wire.Data) c10Key {
	h := sha256.Sum256(d.Payload)
	return c10Key{d.FromHash, d.ToHash, d.FromService, d.ToService, hex.EncodeToString(h[:8])}
}

func runC10Tight(run *ev.Run, k int, seed int64) {
	c := mesh.DefaultConsts()
	c.MaxHops = byte(k)
	c.Idle = time.Hour
	m := mesh.New(c, seed)
	defer m.Shutdown()
	ids := []string{}
	for i := 0; i <= k; i++ {
		ids = append(ids, fmt.Sprintf("t%d", i))
		m.AddNode(ids[i])
		if i > 0 {
			m.Connect(ids[i-1], ids[i], 1, false)
		}
	}
	src, dst := m.Node(ids[0]).Inst(), ids[k]
	if !pollUntil(1500, func() bool {
		_, ok1 := src.Status().RoutingTable[dst]
		_, ok2 := m.Node(dst).Inst().Status().RoutingTable[ids[0]]
		return ok1 && ok2
	}) {
		run.Eval(1)
		run.Inconclusive(fmt.Sprintf("C10 tight chain k=%d did not converge", k))
		return
	}
	time.Sleep(2 * c.RouteUpdate)
	run.Eval(1)
	w := map[string]any{"chain_nodes": ids, "max_forwarding_hops": k}
	// ping with the node's default budget (= the configured maximum)
	okPing := false
	var perr error
	for i := 0; i < 3 && !okPing; i++ {
		ctx, cancel := context.WithTimeout(context.Background(), 12*time.Second)
		_, from, err := src.Ping(ctx, dst, byte(k))
		cancel()
		okPing, perr = err == nil && from == dst, err
	}
	if !okPing {
		run.Violation("tight:ping-at-limit", fmt.Sprintf("chain of %d links with forwarding-hop maximum %d: ping with budget %d does not reach the far end (%v)", k, k, k, perr), w)
	}
	// traceroute must list every node of the path
	var got []string
	for attempt := 0; attempt < 3; attempt++ {
		got = got[:0]
		ctx, cancel := context.WithTimeout(context.Background(), 60*time.Second)
		for r := range src.Traceroute(ctx, dst) {
			if r.Err != nil {
				got = append(got, "ERR:"+r.Err.Error())
			} else {
				got = append(got, r.From)
			}
		}
		cancel()
		if len(got) == k+1 {
			break
		}
	}
	want := fmt.Sprint(ids)
	if fmt.Sprint(got) != want {
		run.Violation("tight:traceroute-at-limit", fmt.Sprintf("chain of %d links with forwarding-hop maximum %d: traceroute lists %v, expected %v", k, k, got, ids), w)
	}
	run.Distinct(fmt.Sprintf("tight|k=%d", k))
}

func runC10Inject(run *ev.Run, idx int, seed int64) {
	rng := rand.New(rand.NewSource(seed))
	c := mesh.DefaultConsts()
	c.Idle = time.Hour
	m := mesh.New(c, seed)
	defer m.Shutdown()
	type ev1 struct {
		seq      uint64
		from, to string
		dir      string
		key      c10Key
		ttl      byte
	}
	var mu sync.Mutex
	events := []ev1{}
	m.Net.KeepRaw = true
	m.Net.Tap = func(e memnet.TapEvent) {
		if len(e.Data) < 36 || e.Data[0] != wire.TData || (e.Dir != "send" && e.Dir != "recv") {
			return
		}
		d, err := wire.DecodeData(e.Data)
		if err != nil {
			return
		}
		mu.Lock()
		events = append(events, ev1{e.Seq, e.From, e.To, e.Dir, c10PacketKey(d), d.TTL})
		mu.Unlock()
	}
	n := 3 + rng.Intn(3)
	ids := []string{}
	for i := 0; i < n; i++ {
		ids = append(ids, fmt.Sprintf("i%d", i))
		m.AddNode(ids[i])
		if i > 0 {
			m.Connect(ids[i-1], ids[i], 1, false)
		}
	}
	entry := m.Node(ids[0]).Inst()
	x := memnet.NewScripted("xi")
	if err := entry.AddBackend(memnet.NewOneShot(x)); err != nil {
		run.Inconclusive("C10 inject: " + err.Error())
		return
	}
	x.Deliver(wire.EncodeRoute(&wire.Route{NodeID: "xi", UpdateID: fmt.Sprintf("xi%d", idx), UpdateEpoch: 3, UpdateSequence: 1, Connections: map[string]float64{ids[0]: 1}, ForwardingNode: "xi"}), 10*time.Second)
	x.Barrier(10 * time.Second)
	last := ids[n-1]
	if !pollUntil(1500, func() bool {
		_, ok := entry.Status().RoutingTable[last]
		_, ok2 := m.Node(last).Inst().Status().RoutingTable[ids[0]]
		return ok && ok2
	}) {
		run.Eval(1)
		run.Inconclusive(fmt.Sprintf("C10 inject mesh %d did not converge", idx))
		return
	}
	// the real nodes must know the hashes of the names used: "ghost" is announced as a phantom origin
	x.Deliver(wire.EncodeRoute(&wire.Route{NodeID: "ghost", UpdateID: fmt.Sprintf("gh%d", idx), UpdateEpoch: 3, UpdateSequence: 1, Connections: map[string]float64{"xi": 1}, ForwardingNode: "xi"}), 10*time.Second)
	x.Deliver(wire.EncodeRoute(&wire.Route{NodeID: "xi", UpdateID: fmt.Sprintf("xj%d", idx), UpdateEpoch: 3, UpdateSequence: 2, Connections: map[string]float64{ids[0]: 1, "ghost": 1}, ForwardingNode: "xi"}), 10*time.Second)
	x.Barrier(10 * time.Second)
	time.Sleep(3 * c.RouteUpdate)
	type inj struct {
		key     c10Key
		ttl     byte
		label   string
		dist    int
	}
	injected := []inj{}
	svcs := []string{"unreach", "ping", "svcq", "unreach"}
	srcs := []string{"ghost", "xi", ids[0], ids[n-1]}
	ttls := []byte{0, 1, 2, 3, 255, 0, 1}
	for i := 0; i < 60; i++ {
		fs := svcs[rng.Intn(len(svcs))]
		from := srcs[rng.Intn(len(srcs))]
		di := 1 + rng.Intn(n-1)
		ttl := ttls[rng.Intn(len(ttls))]
		payload := []byte(fmt.Sprintf("inj-%d-%d-%d", idx, i, rng.Int63()))
		if fs == "unreach" {
			// a well-formed notice body, so that a delivered one is processed normally
			payload = []byte(fmt.Sprintf(`{"FromNode":"%s","ToNode":"%s","FromService":"a%d","ToService":"b%d","Problem":"message expired"}`, from, ids[di], i, rng.Intn(1000000)))
		}
		ts := "nosvc"
		if fs == "unreach" {
			ts = "unreach"
		}
		raw := wire.EncodeData(ttl, from, ids[di], fs, ts, payload)
		d, _ := wire.DecodeData(raw)
		injected = append(injected, inj{c10PacketKey(d), ttl, fmt.Sprintf("from=%s/%s ttl=%d to=%s(d=%d)", from, fs, ttl, ids[di], di), di})
		x.Deliver(raw, 5*time.Second)
	}
	x.Barrier(10 * time.Second)
	// let the traffic (and the notices it triggers) drain: poll until the tap count is stable
	lastN, stable := -1, 0
	for i := 0; i < 200 && stable < 5; i++ {
		time.Sleep(50 * time.Millisecond)
		mu.Lock()
		cur := len(events)
		mu.Unlock()
		if cur == lastN {
			stable++
		} else {
			lastN, stable = cur, 0
		}
	}
	mu.Lock()
	evs := append([]ev1(nil), events...)
	mu.Unlock()
	run.Eval(len(injected))
	run.Count("injected_datagrams", int64(len(injected)))
	run.Count("injected_mesh_traversals_observed", int64(len(evs)))
	if stable < 5 {
		run.Violation("inject:traffic-never-stops", fmt.Sprintf("mesh %d: data traffic triggered by 60 injected datagrams is still flowing after 10 s (%d tap events)", idx, len(evs)), map[string]any{"nodes": ids})
		return
	}
	// (2) per injected packet
	for _, in := range injected {
		sends := []ev1{}
		for _, e := range evs {
			if e.dir == "send" && e.key == in.key {
				sends = append(sends, e)
			}
		}
		w := map[string]any{"injected": in.label, "nodes": ids, "traversals": len(sends)}
		if len(sends) > int(in.ttl) {
			cls := "other"
			if in.key.fsvc == "unreach" {
				cls = "unreach"
			}
			run.Violation("inject:over-budget:"+cls, fmt.Sprintf("mesh %d: injected datagram (%s) crossed %d links although its hop budget was %d", idx, in.label, len(sends), in.ttl), w)
			continue
		}
		for k, e := range sends {
			if int(e.ttl) != int(in.ttl)-(k+1) {
				run.Violation("inject:ttl-not-decremented", fmt.Sprintf("mesh %d: injected datagram (%s): crossing %d carries TTL byte %d, expected %d", idx, in.label, k+1, e.ttl, int(in.ttl)-(k+1)), w)
				break
			}
		}
		rel := "<"
		if int(in.ttl) == in.dist {
			rel = "="
		} else if int(in.ttl) > in.dist {
			rel = ">"
		}
		run.Distinct(fmt.Sprintf("inject|%s|ttl%sd", in.key.fsvc, rel))
	}
	// (3) conservation: what a node sends it either originated or received with TTL+1
	type rk struct {
		node string
		key  c10Key
		ttl  byte
	}
	avail := map[rk]int{}
	for _, e := range evs {
		if e.dir == "recv" {
			avail[rk{e.to, e.key, e.ttl}]++
			continue
		}
		if e.ttl < 255 && avail[rk{e.from, e.key, e.ttl + 1}] > 0 {
			avail[rk{e.from, e.key, e.ttl + 1}]--
			continue
		}
		if e.key.from == wire.Hash(e.from) {
			continue // originated here (pings, notices)
		}
		if e.from == ids[0] {
			// the entry node forwards what the scripted peer handed it (not on a memnet link)
			okInj := false
			for _, in := range injected {
				if in.key == e.key && int(in.ttl) == int(e.ttl)+1 {
					okInj = true
				}
			}
			if okInj {
				continue
			}
		}
		run.Violation("conservation:sent-without-matching-receive", fmt.Sprintf("mesh %d: node %s put a datagram (source service %q, TTL byte %d) on the link to %s that it neither originated nor received with TTL byte %d", idx, e.from, e.key.fsvc, e.ttl, e.to, int(e.ttl)+1), map[string]any{"nodes": ids})
		break
	}
}

func runC10Extra(run *ev.Run, rng *rand.Rand) {
	var wg sync.WaitGroup
	ks := []int{1, 2, 3, 5}
	if !run.Quick() {
		ks = []int{1, 2, 3, 4, 5, 8, 12}
	}
	for _, k := range ks {
		wg.Add(1)
		go func(k int, s int64) { defer wg.Done(); runC10Tight(run, k, s) }(k, rng.Int63())
	}
	nInj := run.Pick(4, 40)
	sem := make(chan struct{}, 8)
	for i := 0; i < nInj; i++ {
		wg.Add(1)
		sem <- struct{}{}
		go func(i int, s int64) { defer wg.Done(); defer func() { <-sem }(); runC10Inject(run, i, s) }(i, rng.Int63())
	}
	wg.Wait()
}
