package main

import (
	"context"
	"crypto/sha256"
	"encoding/hex"
	"fmt"
	"io"
	"math/rand"
	"sort"
	"strings"
	"sync"
	"sync/atomic"
	"time"

	"verif/harness/internal/ev"
	"verif/harness/internal/memnet"
	"verif/harness/internal/mesh"
	"verif/harness/internal/wire"

	"github.com/anishathalye/porcupine"
	"github.com/ansible/receptor/pkg/netceptor"
)

// C06 — routing knowledge never regresses; updates are applied and relayed at most once.
//
// Monitor 1: a single real node with 2-4 scripted neighbour sessions. Crafted routing updates
// (unique UpdateID, unique marker edge) are delivered concurrently with exact barriers; the
// recorded history of deliver/notice/read operations is checked for linearizability with
// porcupine against a small sequential model (per origin: epoch, sequence, marker; global
// seen-set). Relays observed on the sessions determine which delivery was accepted.
// Monitor 2: real meshes over hostile links (delay, reorder, duplicate, drop of control
// messages, restarts): wire invariants over the tap log.

func init() { register("C06", runC06) }

// ---------------------------------------------------------------- sequential model

type c06In struct {
	Kind   string // deliver | notice | read
	Origin string
	UID    string
	E, S   uint64
	X      uint64 // suspected duplicate epoch (notice)
	Marker string
	Self   bool // origin is the node under test
	SelfE  int  // relation of E to the node's own epoch: -1 lower, 0 equal, +1 higher
}

type c06Out struct {
	Accepted bool   // deliver/notice: relayed to the other sessions
	Marker   string // read: marker currently listed for the origin ("" = none)
}

type c06State struct {
	Known  bool
	E, S   uint64
	Marker string
	Seen   string // sorted ",uid," list
}

func (s c06State) has(uid string) bool { return strings.Contains(s.Seen, ","+uid+",") }
func (s c06State) add(uid string) c06State {
	l := strings.Split(strings.Trim(s.Seen, ","), ",")
	if s.Seen == "" {
		l = nil
	}
	l = append(l, uid)
	sort.Strings(l)
	s.Seen = "," + strings.Join(l, ",") + ","
	return s
}

var c06Model = porcupine.Model{
	Partition: func(h []porcupine.Operation) [][]porcupine.Operation {
		m := map[string][]porcupine.Operation{}
		keys := []string{}
		for _, op := range h {
			o := op.Input.(c06In).Origin
			if _, ok := m[o]; !ok {
				keys = append(keys, o)
			}
			m[o] = append(m[o], op)
		}
		sort.Strings(keys)
		out := [][]porcupine.Operation{}
		for _, k := range keys {
			out = append(out, m[k])
		}
		return out
	},
	Init: func() interface{} { return c06State{} },
	Step: func(st, in, out interface{}) (bool, interface{}) {
		s := st.(c06State)
		i := in.(c06In)
		o := out.(c06Out)
		switch i.Kind {
		case "read":
			return o.Marker == s.Marker, s
		case "notice":
			if i.Self {
				// a notice naming the node itself is never taken over as routing knowledge nor relayed
				return !o.Accepted, s
			}
			if s.has(i.UID) {
				return !o.Accepted, s
			}
			s = s.add(i.UID)
			if s.Known && s.E == i.X {
				s.E, s.S = i.E, i.S
			}
			// a notice is relayed once, the picture stays
			return o.Accepted, s
		default: // deliver
			if i.Self {
				return !o.Accepted, s
			}
			if s.has(i.UID) {
				return !o.Accepted, s
			}
			s = s.add(i.UID)
			if s.Known && (i.E < s.E || (i.E == s.E && i.S <= s.S)) {
				return !o.Accepted, s
			}
			s.Known, s.E, s.S, s.Marker = true, i.E, i.S, i.Marker
			return o.Accepted, s
		}
	},
	DescribeOperation: func(in, out interface{}) string {
		i := in.(c06In)
		o := out.(c06Out)
		if i.Kind == "read" {
			return fmt.Sprintf("read(%s)=%q", i.Origin, o.Marker)
		}
		return fmt.Sprintf("%s(%s uid=%s e=%d s=%d x=%d)->accepted=%v", i.Kind, i.Origin, i.UID, i.E, i.S, i.X, o.Accepted)
	},
}

// ---------------------------------------------------------------- monitor 1

type c06Msg struct {
	In  c06In
	Raw []byte
}

type c06Op struct {
	Sess     int
	Msg      *c06Msg
	Call     int64
	Ret      int64
	ReadMark string
}

func markerOf(m map[string]float64) string {
	for k := range m {
		if strings.HasPrefix(k, "mk") {
			return k
		}
	}
	return ""
}

func runC06History(run *ev.Run, hidx int, seed int64) {
	rng := rand.New(rand.NewSource(seed))
	k := 2 + rng.Intn(3)
	n := netceptor.NewWithConsts(context.Background(), "n", 16384, 10*time.Second, 0, time.Hour, 30, time.Hour)
	n.Logger.SetOutput(io.Discard)
	defer n.Shutdown()
	sess := make([]*memnet.Scripted, k)
	names := make([]string, k)
	for i := 0; i < k; i++ {
		names[i] = fmt.Sprintf("s%d", i)
		sess[i] = memnet.NewScripted(names[i])
		if err := n.AddBackend(memnet.NewOneShot(sess[i])); err != nil {
			run.Inconclusive("C06: AddBackend: " + err.Error())
			return
		}
		hs := wire.EncodeRoute(&wire.Route{NodeID: names[i], UpdateID: fmt.Sprintf("hs%d-%d", hidx, i), UpdateEpoch: 3, UpdateSequence: 1, Connections: map[string]float64{"n": 1}, ForwardingNode: names[i]})
		if !sess[i].Deliver(hs, 10*time.Second) || !sess[i].Barrier(10*time.Second) {
			run.Inconclusive(fmt.Sprintf("C06 history %d: handshake of session %d not processed", hidx, i))
			return
		}
	}
	// the node's own epoch: read it from its own updates on a session
	var ownEpoch uint64
	sess[0].WaitGot(func(g []memnet.GotMsg) bool {
		for _, m := range g {
			if r, err := wire.DecodeRoute(m.Data); err == nil && r.NodeID == "n" {
				ownEpoch = r.UpdateEpoch
				return true
			}
		}
		return false
	}, 10*time.Second)
	if ownEpoch == 0 {
		run.Inconclusive(fmt.Sprintf("C06 history %d: own epoch not observed", hidx))
		return
	}
	// ---- generate the messages
	origins := []string{"o1", "o2", "o3"}[:1+rng.Intn(3)]
	pool := []*c06Msg{}
	uidN := 0
	mk := func(kind, origin string, e, s, x uint64) *c06Msg {
		uidN++
		uid := fmt.Sprintf("u%dx%d", hidx, uidN)
		in := c06In{Kind: kind, Origin: origin, UID: uid, E: e, S: s, X: x, Marker: "mk" + uid, Self: origin == "n"}
		if in.Self {
			switch {
			case e < ownEpoch:
				in.SelfE = -1
			case e > ownEpoch:
				in.SelfE = 1
			}
		}
		return &c06Msg{In: in}
	}
	nmsgs := 6 + rng.Intn(10)
	classes := map[string]bool{}
	for i := 0; i < nmsgs; i++ {
		r := rng.Intn(100)
		switch {
		case r < 70:
			pool = append(pool, mk("deliver", origins[rng.Intn(len(origins))], uint64(5+rng.Intn(3)), uint64(1+rng.Intn(4)), 0))
		case r < 82:
			// suspected-duplicate notice for a foreign origin: re-bases when X equals the stored epoch
			pool = append(pool, mk("notice", origins[rng.Intn(len(origins))], uint64(5+rng.Intn(4)), uint64(1+rng.Intn(4)), uint64(5+rng.Intn(3))))
			classes["notice"] = true
		default:
			// updates naming the node itself as origin: own current epoch, an older one.
			// (a higher epoch makes the node emit a duplicate notice of its own, which is allowed;
			// SuspectedDuplicate == own epoch is the protocol's shutdown signal and is not forged)
			e := ownEpoch
			if rng.Intn(2) == 0 {
				e = ownEpoch - uint64(1+rng.Intn(5))
			}
			pool = append(pool, mk("deliver", "n", e, uint64(1+rng.Intn(1000)), 0))
			classes["self"] = true
		}
	}
	for _, m := range pool {
		r := &wire.Route{NodeID: m.In.Origin, UpdateID: m.In.UID, UpdateEpoch: m.In.E, UpdateSequence: m.In.S, Connections: map[string]float64{m.In.Marker: 1}, SuspectedDuplicate: m.In.X}
		m.Raw = nil
		_ = r
	}
	// ---- per-session delivery scripts: every message on 1..k sessions, plus replays
	scripts := make([][]*c06Msg, k)
	for _, m := range pool {
		cnt := 1
		if rng.Intn(3) == 0 {
			cnt = 1 + rng.Intn(k)
		}
		perm := rng.Perm(k)[:cnt]
		for _, si := range perm {
			scripts[si] = append(scripts[si], m)
		}
		if cnt > 1 {
			classes["multi-session"] = true
		}
	}
	for si := range scripts {
		rng.Shuffle(len(scripts[si]), func(a, b int) { scripts[si][a], scripts[si][b] = scripts[si][b], scripts[si][a] })
		// replays of an earlier message of the same session
		if len(scripts[si]) > 1 && rng.Intn(2) == 0 {
			j := rng.Intn(len(scripts[si]))
			scripts[si] = append(scripts[si], scripts[si][j])
			classes["replay"] = true
		}
	}
	var clock atomic.Int64
	base := time.Now()
	now := func() int64 { return int64(time.Since(base)) + clock.Add(1) }
	ops := []c06Op{}
	var omu sync.Mutex
	var wg sync.WaitGroup
	failed := atomic.Bool{}
	for si := 0; si < k; si++ {
		wg.Add(1)
		go func(si int, jitter int64) {
			defer wg.Done()
			jr := rand.New(rand.NewSource(jitter))
			for _, m := range scripts[si] {
				if jr.Intn(3) == 0 {
					time.Sleep(time.Duration(jr.Intn(300)) * time.Microsecond)
				}
				r := &wire.Route{NodeID: m.In.Origin, UpdateID: m.In.UID, UpdateEpoch: m.In.E, UpdateSequence: m.In.S, Connections: map[string]float64{m.In.Marker: 1}, ForwardingNode: names[si], SuspectedDuplicate: m.In.X}
				raw := wire.EncodeRoute(r)
				call := now()
				if !sess[si].Deliver(raw, 10*time.Second) || !sess[si].Barrier(10*time.Second) {
					failed.Store(true)
					return
				}
				ret := now()
				omu.Lock()
				ops = append(ops, c06Op{Sess: si, Msg: m, Call: call, Ret: ret})
				omu.Unlock()
			}
		}(si, rng.Int63())
	}
	// reader
	stopRead := make(chan struct{})
	var rwg sync.WaitGroup
	rwg.Add(1)
	go func(s int64) {
		defer rwg.Done()
		jr := rand.New(rand.NewSource(s))
		for i := 0; ; i++ {
			select {
			case <-stopRead:
				return
			default:
			}
			o := origins[jr.Intn(len(origins))]
			if jr.Intn(6) == 0 {
				o = "n"
			}
			call := now()
			st := n.Status()
			ret := now()
			mkr := markerOf(st.KnownConnectionCosts[o])
			omu.Lock()
			ops = append(ops, c06Op{Sess: k, Msg: &c06Msg{In: c06In{Kind: "read", Origin: o, Self: o == "n"}}, Call: call, Ret: ret, ReadMark: mkr})
			omu.Unlock()
			time.Sleep(time.Duration(50+jr.Intn(400)) * time.Microsecond)
			if i > 400 {
				return
			}
		}
	}(rng.Int63())
	wg.Wait()
	close(stopRead)
	rwg.Wait()
	if failed.Load() {
		run.Eval(1)
		run.Inconclusive(fmt.Sprintf("C06 history %d: a delivery or barrier was not processed (session closed?)", hidx))
		return
	}
	// final reads (quiescent)
	for _, o := range append(append([]string{}, origins...), "n") {
		call := now()
		st := n.Status()
		ret := now()
		ops = append(ops, c06Op{Sess: k, Msg: &c06Msg{In: c06In{Kind: "read", Origin: o, Self: o == "n"}}, Call: call, Ret: ret, ReadMark: markerOf(st.KnownConnectionCosts[o])})
	}
	// ---- settle: relays are written by independent goroutines
	count := func() int {
		c := 0
		for _, s := range sess {
			c += len(s.Got())
		}
		return c
	}
	last, stable := count(), 0
	for i := 0; i < 400 && stable < 4; i++ {
		time.Sleep(15 * time.Millisecond)
		if c := count(); c == last {
			stable++
		} else {
			last, stable = c, 0
		}
	}
	collect := func() map[string]map[int]int {
		relays := map[string]map[int]int{}
		for si, s := range sess {
			for _, g := range s.Got() {
				r, err := wire.DecodeRoute(g.Data)
				if err != nil || r.ForwardingNode != "n" || !strings.HasPrefix(r.UpdateID, fmt.Sprintf("u%dx", hidx)) {
					continue
				}
				if relays[r.UpdateID] == nil {
					relays[r.UpdateID] = map[int]int{}
				}
				relays[r.UpdateID][si]++
			}
		}
		return relays
	}
	// a relay set that is neither empty nor complete may just be unfinished (each relay is written by
	// an independent goroutine): give such a history a long extra settle before judging it
	for try := 0; try < 20; try++ {
		partial := false
		for _, rs := range collect() {
			if len(rs) != 0 && len(rs) < k-1 {
				partial = true
			}
		}
		if !partial {
			break
		}
		time.Sleep(250 * time.Millisecond)
	}
	relays := collect()
	for si, s := range sess {
		if true {
			break
		}
		for _, g := range s.Got() {
			r, err := wire.DecodeRoute(g.Data)
			if err != nil || r.ForwardingNode != "n" || !strings.HasPrefix(r.UpdateID, fmt.Sprintf("u%dx", hidx)) {
				continue
			}
			if relays[r.UpdateID] == nil {
				relays[r.UpdateID] = map[int]int{}
			}
			relays[r.UpdateID][si]++
		}
	}
	hist := func() []string {
		sort.Slice(ops, func(a, b int) bool { return ops[a].Call < ops[b].Call })
		l := []string{}
		for _, o := range ops {
			if o.Msg.In.Kind == "read" {
				continue
			}
			l = append(l, fmt.Sprintf("s%d %s %s uid=%s e=%d s=%d x=%d [%d,%d] relays=%v", o.Sess, o.Msg.In.Kind, o.Msg.In.Origin, o.Msg.In.UID, o.Msg.In.E, o.Msg.In.S, o.Msg.In.X, o.Call, o.Ret, relays[o.Msg.In.UID]))
		}
		return l
	}
	delivered := map[string]map[int]bool{}
	for _, o := range ops {
		if o.Msg.In.Kind == "read" {
			continue
		}
		if delivered[o.Msg.In.UID] == nil {
			delivered[o.Msg.In.UID] = map[int]bool{}
		}
		delivered[o.Msg.In.UID][o.Sess] = true
	}
	direct := false
	acceptedOn := map[string]int{} // uid -> session whose delivery was accepted
	for uid, rs := range relays {
		for si, c := range rs {
			if c > 1 {
				run.Violation("relay:twice", fmt.Sprintf("history %d: update %s was relayed %d times to session %d", hidx, uid, c, si), map[string]any{"history": hist()})
				direct = true
			}
		}
		missing := []int{}
		for si := 0; si < k; si++ {
			if rs[si] == 0 {
				missing = append(missing, si)
			}
		}
		switch {
		case len(missing) == 0:
			run.Violation("relay:back-to-source", fmt.Sprintf("history %d: update %s was relayed to every session including all sessions it was delivered on %v", hidx, uid, delivered[uid]), map[string]any{"history": hist()})
			direct = true
		case len(missing) == 1 && delivered[uid][missing[0]]:
			acceptedOn[uid] = missing[0]
		case len(missing) == 1:
			run.Violation("relay:phantom", fmt.Sprintf("history %d: update %s was relayed to all sessions but %d, on which it was never delivered", hidx, uid, missing[0]), map[string]any{"history": hist()})
			direct = true
		default:
			run.Violation("relay:partial", fmt.Sprintf("history %d: update %s was relayed to only %d of %d other sessions after settling", hidx, uid, len(rs), k-1), map[string]any{"history": hist()})
			direct = true
		}
	}
	// ---- porcupine
	sort.Slice(ops, func(a, b int) bool { return ops[a].Call < ops[b].Call })
	firstOnSess := map[string]bool{}
	pops := []porcupine.Operation{}
	// call time of the accepted delivery of each uid
	accCall := map[string]int64{}
	{
		fos := map[string]bool{}
		for _, o := range ops {
			in := o.Msg.In
			if in.Kind == "read" {
				continue
			}
			key := fmt.Sprintf("%s|%d", in.UID, o.Sess)
			if s, ok := acceptedOn[in.UID]; ok && s == o.Sess && !fos[key] {
				accCall[in.UID] = o.Call
			}
			fos[key] = true
		}
	}
	dropped := 0
	// Deliveries of an UpdateID that was never accepted: receptor records the UpdateID as seen first and
	// judges staleness later, so among several deliveries of it only one reaches the staleness test, at
	// some moment inside the union of their intervals. They are merged into one operation spanning that union.
	type span struct {
		in        c06In
		call, ret int64
		n         int
	}
	merged := map[string]*span{}
	mergedOrder := []string{}
	for _, o := range ops {
		in := o.Msg.In
		out := c06Out{}
		if in.Kind != "read" {
			key := fmt.Sprintf("%s|%d", in.UID, o.Sess)
			isAcc := false
			if s, ok := acceptedOn[in.UID]; ok && s == o.Sess && !firstOnSess[key] {
				isAcc = true
			}
			ac, hasAcc := accCall[in.UID]
			if hasAcc && !isAcc && o.Ret >= ac {
				// A further delivery of an UpdateID whose accepted delivery was already under way: it may be
				// turned away (as seen) before the picture changes. It changes nothing and is not relayed
				// (checked by the relay accounting) and carries no ordering information for the model.
				firstOnSess[key] = true
				dropped++
				continue
			}
			if !hasAcc {
				firstOnSess[key] = true
				sp := merged[in.UID]
				if sp == nil {
					sp = &span{in: in, call: o.Call, ret: o.Ret}
					merged[in.UID] = sp
					mergedOrder = append(mergedOrder, in.UID)
				}
				if o.Call < sp.call {
					sp.call = o.Call
				}
				if o.Ret > sp.ret {
					sp.ret = o.Ret
				}
				sp.n++
				continue
			}
			if isAcc {
				out.Accepted = true
			}
			firstOnSess[key] = true
		} else {
			out.Marker = o.ReadMark
		}
		pops = append(pops, porcupine.Operation{ClientId: o.Sess, Input: in, Call: o.Call, Output: out, Return: o.Ret})
	}
	for i, uid := range mergedOrder {
		sp := merged[uid]
		dropped += sp.n - 1
		pops = append(pops, porcupine.Operation{ClientId: k + 1 + i, Input: sp.in, Call: sp.call, Output: c06Out{}, Return: sp.ret})
	}
	res, _ := porcupine.CheckOperationsVerbose(c06Model, pops, 20*time.Second)
	run.Eval(1)
	run.Count("operations", int64(len(pops)))
	run.Count("redundant_duplicates_left_out", int64(dropped))
	run.Count("relays_observed", int64(len(relays)))
	h := sha256.New()
	for _, o := range ops {
		if o.Msg.In.Kind != "read" {
			fmt.Fprintf(h, "%d:%s;", o.Sess, o.Msg.In.UID[strings.Index(o.Msg.In.UID, "x"):])
		}
	}
	run.SetAdd("delivery_orders", hex.EncodeToString(h.Sum(nil)[:6]))
	// classes present
	stale, equal := false, false
	best := map[string][2]uint64{}
	for _, o := range ops {
		in := o.Msg.In
		if in.Kind != "deliver" || in.Self {
			continue
		}
		b, ok := best[in.Origin]
		if ok && (in.E < b[0] || (in.E == b[0] && in.S < b[1])) {
			stale = true
		}
		if ok && in.E == b[0] && in.S == b[1] {
			equal = true
		}
		if !ok || in.E > b[0] || (in.E == b[0] && in.S > b[1]) {
			best[in.Origin] = [2]uint64{in.E, in.S}
		}
	}
	if stale {
		classes["stale"] = true
	}
	if equal {
		classes["equal"] = true
	}
	cl := []string{}
	for c := range classes {
		cl = append(cl, c)
		run.Count("histories_with_"+c, 1)
	}
	sort.Strings(cl)
	switch res {
	case porcupine.Ok:
		run.Count("porcupine_ok", 1)
	case porcupine.Unknown:
		run.Count("porcupine_unknown", 1)
		run.Inconclusive(fmt.Sprintf("C06 history %d: porcupine timed out", hidx))
	case porcupine.Illegal:
		run.Count("porcupine_illegal", 1)
		if !direct {
			run.Violation("linearizability:"+c06Diagnose(ops, acceptedOn), fmt.Sprintf("history %d (%d sessions, classes %v): the deliver/read history is not linearizable against the (epoch, sequence, seen-set) model", hidx, k, cl), map[string]any{"history": hist(), "reads": c06Reads(ops)})
		}
	}
	if len(cl) >= 2 {
		run.Distinct(fmt.Sprintf("h|%v|%d", cl, len(pops)/8))
	}
	if hidx < 2 {
		run.Sample(map[string]any{"history": hidx, "sessions": k, "classes": cl, "operations": hist(), "porcupine": string(res)})
	}
}

func c06Reads(ops []c06Op) []string {
	l := []string{}
	last := map[string]string{}
	for _, o := range ops {
		if o.Msg.In.Kind == "read" && last[o.Msg.In.Origin] != o.ReadMark {
			last[o.Msg.In.Origin] = o.ReadMark
			l = append(l, fmt.Sprintf("read %s = %q [%d,%d]", o.Msg.In.Origin, o.ReadMark, o.Call, o.Ret))
		}
	}
	return l
}

// c06Diagnose gives a coarse class of a non-linearizable history for the violation key: which
// kind of delivery was (wrongly) accepted, judged by a conservative sequential replay in call order.
func c06Diagnose(ops []c06Op, acceptedOn map[string]int) string {
	best := map[string][2]uint64{}
	seen := map[string]bool{}
	for _, o := range ops {
		in := o.Msg.In
		if in.Kind == "read" {
			continue
		}
		acc := false
		if s, ok := acceptedOn[in.UID]; ok && s == o.Sess {
			acc = true
		}
		if acc && in.Self {
			return "self-origin-accepted"
		}
		if acc && in.Kind == "deliver" {
			if seen[in.UID+"acc"] {
				return "accepted-twice"
			}
			b, ok := best[in.Origin]
			if ok && in.E == b[0] && in.S == b[1] {
				return "equal-accepted"
			}
			if ok && (in.E < b[0] || (in.E == b[0] && in.S < b[1])) {
				return "stale-accepted"
			}
			best[in.Origin] = [2]uint64{in.E, in.S}
			seen[in.UID+"acc"] = true
		}
	}
	return "other"
}

// ---------------------------------------------------------------- monitor 2: hostile meshes

type c06Mesh struct {
	mu      sync.Mutex
	sent    map[string]int            // node>peer|uid -> count
	firstTx map[string]uint64         // node|uid -> seq of first send
	rxFrom  map[string]map[string]uint64 // node|uid -> peer -> seq of first receive
	origin  map[string]*wire.Route    // uid -> decoded (first seen)
	relayed map[string][]c06Relay     // node|origin -> relays in order
	notices map[string][]uint64       // origin -> tap seqs of notices
	total   map[string]int            // uid -> transmissions
	viol    []string
}

type c06Relay struct {
	Seq  uint64
	E, S uint64
	UID  string
}

func runC06Mesh(run *ev.Run, midx int, seed int64) {
	rng := rand.New(rand.NewSource(seed))
	c := mesh.DefaultConsts()
	c.RouteUpdate = 300 * time.Millisecond
	c.Idle = time.Hour
	m := mesh.New(c, seed)
	st := &c06Mesh{sent: map[string]int{}, firstTx: map[string]uint64{}, rxFrom: map[string]map[string]uint64{}, origin: map[string]*wire.Route{}, relayed: map[string][]c06Relay{}, notices: map[string][]uint64{}, total: map[string]int{}}
	m.Net.Tap = func(e memnet.TapEvent) {
		if len(e.Data) == 0 || e.Data[0] != wire.TRoute || (e.Dir != "send" && e.Dir != "recv") {
			return
		}
		r, err := wire.DecodeRoute(e.Data)
		if err != nil {
			return
		}
		st.mu.Lock()
		defer st.mu.Unlock()
		if _, ok := st.origin[r.UpdateID]; !ok {
			st.origin[r.UpdateID] = r
		}
		if r.SuspectedDuplicate != 0 {
			st.notices[r.NodeID] = append(st.notices[r.NodeID], e.Seq)
		}
		if e.Dir == "recv" {
			k := e.To + "|" + r.UpdateID
			if st.rxFrom[k] == nil {
				st.rxFrom[k] = map[string]uint64{}
			}
			if _, ok := st.rxFrom[k][e.From]; !ok {
				st.rxFrom[k][e.From] = e.Seq
			}
			return
		}
		// send by node e.From towards e.To
		if r.ForwardingNode != e.From {
			return
		}
		st.sent[e.From+">"+e.To+"|"+r.UpdateID]++
		st.total[r.UpdateID]++
		k := e.From + "|" + r.UpdateID
		if _, ok := st.firstTx[k]; !ok {
			st.firstTx[k] = e.Seq
			if r.NodeID != e.From {
				ok2 := e.From + "|" + r.NodeID
				st.relayed[ok2] = append(st.relayed[ok2], c06Relay{Seq: e.Seq, E: r.UpdateEpoch, S: r.UpdateSequence, UID: r.UpdateID})
			}
		}
	}
	nn := 3 + rng.Intn(4)
	ids := []string{}
	for i := 0; i < nn; i++ {
		id := fmt.Sprintf("m%d", i)
		ids = append(ids, id)
		m.AddNode(id)
	}
	links := []*mesh.LinkInfo{}
	has := map[string]bool{}
	plan := memnet.Plan{CtlDelayMin: 0, CtlDelayMax: time.Duration(5+rng.Intn(60)) * time.Millisecond, CtlReorder: true, CtlDup: 0.15, CtlDrop: 0.08}
	addLink := func(a, b string) {
		if a == b || has[a+b] || has[b+a] {
			return
		}
		has[a+b] = true
		li := m.Connect(a, b, 1, false)
		li.L.SetPlan(plan)
		links = append(links, li)
	}
	for i := 1; i < nn; i++ {
		addLink(ids[i], ids[rng.Intn(i)])
	}
	for i := 0; i < nn; i++ {
		addLink(ids[rng.Intn(nn)], ids[rng.Intn(nn)])
	}
	defer m.Shutdown()
	// scripted origin at the edge: phantom origins whose updates arrive out of order, twice and late
	edge := ids[rng.Intn(nn)]
	x := memnet.NewScripted("x")
	if err := m.Node(edge).Inst().AddBackend(memnet.NewOneShot(x)); err != nil {
		run.Inconclusive("C06 mesh: " + err.Error())
		return
	}
	x.Deliver(wire.EncodeRoute(&wire.Route{NodeID: "x", UpdateID: fmt.Sprintf("xh%d", midx), UpdateEpoch: 3, UpdateSequence: 1, Connections: map[string]float64{edge: 1}, ForwardingNode: "x"}), 10*time.Second)
	x.Barrier(10 * time.Second)
	type ph struct {
		e, s uint64
		mk   string
	}
	phs := []ph{}
	for i := 0; i < 8; i++ {
		phs = append(phs, ph{uint64(5 + i/4), uint64(1 + i%4), fmt.Sprintf("mkp%d", i)})
	}
	rank := map[string]int{}
	for i, p := range phs {
		rank[p.mk] = i
	}
	// sampler: per node the marker listed for phantom origin "p" must never go back
	stop := make(chan struct{})
	var swg sync.WaitGroup
	regress := ""
	var rmu sync.Mutex
	for _, id := range ids {
		swg.Add(1)
		go func(id string) {
			defer swg.Done()
			lastRank := -1
			lastGen := 0
			for {
				select {
				case <-stop:
					return
				default:
				}
				nd := m.Node(id)
				if g := nd.Generation(); g != lastGen {
					lastGen, lastRank = g, -1 // a restarted node starts from scratch
				}
				if nd.IsAlive() {
					mk := markerOf(nd.Inst().Status().KnownConnectionCosts["p"])
					if mk != "" {
						if r, ok := rank[mk]; ok {
							if r < lastRank {
								rmu.Lock()
								if regress == "" {
									regress = fmt.Sprintf("node %s listed update #%d of origin p after having listed the newer #%d", id, r, lastRank)
								}
								rmu.Unlock()
							}
							if r > lastRank {
								lastRank = r
							}
						}
					}
				} else {
					lastRank = -1 // a restarted node starts from scratch
				}
				time.Sleep(3 * time.Millisecond)
			}
		}(id)
	}
	order := rng.Perm(len(phs))
	restarts := 0
	restarted := map[string]bool{} // nodes with more than one incarnation are not judged per node
	for step, pi := range order {
		p := phs[pi]
		times := 1 + rng.Intn(2)
		for t := 0; t < times; t++ {
			uid := fmt.Sprintf("pu%d-%d", midx, pi) // the same UpdateID when sent twice
			raw := wire.EncodeRoute(&wire.Route{NodeID: "p", UpdateID: uid, UpdateEpoch: p.e, UpdateSequence: p.s, Connections: map[string]float64{p.mk: 1}, ForwardingNode: "x"})
			m.Net.TapInject("scripted", "x", edge, "recv", raw) // logged before the hand-over, like link receives
			x.Deliver(raw, 5*time.Second)
		}
		time.Sleep(time.Duration(rng.Intn(120)) * time.Millisecond)
		if step == len(order)/2 && rng.Intn(2) == 0 {
			// restart a node other than the edge (new epoch)
			for _, id := range ids {
				if id != edge {
					nd := m.Node(id)
					if d := time.Until(nd.Started.Add(1100 * time.Millisecond)); d > 0 {
						time.Sleep(d)
					}
					restarted[id] = true
					m.RestartNode(id)
					restarts++
					break
				}
			}
		}
	}
	time.Sleep(1500 * time.Millisecond)
	close(stop)
	swg.Wait()
	st.mu.Lock()
	defer st.mu.Unlock()
	nE := len(links) + 1
	witness := func() map[string]any {
		return map[string]any{"mesh": midx, "nodes": ids, "links": len(links), "plan": fmt.Sprintf("%+v", plan), "restarts": restarts}
	}
	for k, c := range st.sent {
		if restarted[k[:strings.Index(k, ">")]] {
			continue
		}
		if c > 1 {
			run.Violation("wire:sent-twice", fmt.Sprintf("mesh %d: %s was sent %d times (node>peer|UpdateID)", midx, k, c), witness())
		}
	}
	for k, tx := range st.firstTx {
		// relayed back: the node received uid from exactly one neighbour before its first send, and sent it to that neighbour
		parts := strings.SplitN(k, "|", 2)
		node, uid := parts[0], parts[1]
		if restarted[node] {
			continue
		}
		if r := st.origin[uid]; r != nil && r.NodeID == node {
			// own origin: if it had been received before the first send, the node accepted its own update
			for from, seq := range st.rxFrom[k] {
				if seq < tx {
					run.Violation("wire:own-accepted", fmt.Sprintf("mesh %d: node %s sent update %s naming itself as origin after having received it from %s", midx, node, uid, from), witness())
				}
			}
			continue
		}
		before := []string{}
		for from, seq := range st.rxFrom[k] {
			if seq < tx {
				before = append(before, from)
			}
		}
		if len(before) == 1 && st.sent[node+">"+before[0]+"|"+uid] > 0 {
			run.Violation("wire:relayed-back", fmt.Sprintf("mesh %d: node %s relayed update %s back to %s, the only neighbour it had received it from", midx, node, uid, before[0]), witness())
		}
	}
	for k, rl := range st.relayed {
		parts := strings.SplitN(k, "|", 2)
		node, org := parts[0], parts[1]
		if restarted[node] {
			continue
		}
		var hi *c06Relay
		for i := range rl {
			r := rl[i]
			if hi != nil && (r.E < hi.E || (r.E == hi.E && r.S <= hi.S)) {
				// r is older/equal than an update relayed earlier: legitimate only if the node restarted in between
				// (fresh state), if a duplicate notice re-based the origin in between, or if the node had received r before hi was relayed
				first := uint64(1 << 62)
				for _, seq := range st.rxFrom[node+"|"+r.UID] {
					if seq < first {
						first = seq
					}
				}
				noticeBetween := false
				for _, ns := range st.notices[org] {
					if ns > hi.Seq && ns < r.Seq {
						noticeBetween = true
					}
				}
				if first > hi.Seq && !noticeBetween && st.origin[r.UID].SuspectedDuplicate == 0 {
					run.Violation("wire:stale-relayed", fmt.Sprintf("mesh %d: node %s relayed update (%d,%d) of origin %s after having relayed the newer (%d,%d); it first received the older one afterwards", midx, node, r.E, r.S, org, hi.E, hi.S), witness())
				}
			}
			if hi == nil || r.E > hi.E || (r.E == hi.E && r.S > hi.S) {
				hi = &rl[i]
			}
		}
	}
	for uid, c := range st.total {
		if c > 2*nE {
			run.Violation("wire:flood-not-bounded", fmt.Sprintf("mesh %d: update %s was transmitted %d times on a mesh with %d links", midx, uid, c, nE), witness())
		}
	}
	rmu.Lock()
	if regress != "" {
		run.Violation("picture:regress", fmt.Sprintf("mesh %d: %s", midx, regress), witness())
	}
	rmu.Unlock()
	run.Eval(1)
	run.Count("mesh_updates_observed", int64(len(st.origin)))
	run.Count("mesh_transmissions", int64(len(st.sent)))
	run.Distinct(fmt.Sprintf("mesh|n%d|l%d|r%d|d%d", nn, len(links), restarts, plan.CtlDelayMax/(20*time.Millisecond)))
}

func runC06(tier string, args []string) {
	run := ev.New("C06", tier, "exploration")
	run.Rule("monitor 1: per history a real node with 2-4 scripted sessions; 6-15 crafted updates (unique UpdateID + marker edge; epochs 5-7, sequences 1-4 so stale/equal collide; duplicate notices; self-origin updates) delivered on 1..k sessions concurrently with barriers, replays, interleaved reads of KnownConnectionCosts; relays attributed per UpdateID/session; porcupine checks the history against a sequential (epoch, sequence, marker, seen-set) model partitioned by origin. monitor 2: 3-6 real nodes over links that delay/reorder/duplicate/drop control messages, a scripted phantom origin delivering out of order/twice, restarts; monitor 3 (storms): 150-300 updates/notices each delivered on all 3-5 links of a node at the same instant (spin barrier) - at most one write per UpdateID per session, never to all. monitor 4 (link loss): the origin is a direct neighbour, its link is closed / it stops listing the node / it reconnects or restarts with a higher epoch, then not-newer updates with unseen UpdateIDs arrive via another neighbour: no change of the picture, no relay; a newer one is still taken. tap-log invariants (at most one send per UpdateID per link direction, no relay back, no own update accepted, no stale relay, bounded flood, sampled picture monotone). distinct_nontrivial = histories containing >= 2 of {stale, equal, replay, self, notice, multi-session} + distinct mesh shapes")
	run.Assume("a suspected-duplicate notice whose SuspectedDuplicate equals the stored epoch re-bases the origin's reference point (DESIGN 3a)")
	nh := run.Pick(300, 6000)
	nm := run.Pick(10, 150)
	rng := rand.New(rand.NewSource(run.Seed*2750159 + 6))
	seeds := make([]int64, nh)
	for i := range seeds {
		seeds[i] = rng.Int63()
	}
	mseeds := make([]int64, nm)
	for i := range mseeds {
		mseeds[i] = rng.Int63()
	}
	if len(args) >= 2 && args[0] == "--hist" {
		var idx int
		fmt.Sscan(args[1], &idx)
		runC06History(run, idx, seeds[idx])
		run.Finish(0)
	}
	sem := make(chan struct{}, 16)
	var wg sync.WaitGroup
	for i := 0; i < nh; i++ {
		wg.Add(1)
		sem <- struct{}{}
		go func(i int) {
			defer wg.Done()
			defer func() { <-sem }()
			runC06History(run, i, seeds[i])
		}(i)
	}
	for i := 0; i < nm; i++ {
		wg.Add(1)
		sem <- struct{}{}
		go func(i int) {
			defer wg.Done()
			defer func() { <-sem }()
			runC06Mesh(run, i, mseeds[i])
		}(i)
	}
	// storms (the same update on all links at the same instant) and link-loss histories (c06extra.go)
	nst, nll := run.Pick(12, 120), run.Pick(60, 1200)
	for i := 0; i < nst; i++ {
		wg.Add(1)
		sem <- struct{}{}
		go func(i int) {
			defer wg.Done()
			defer func() { <-sem }()
			runC06Storm(run, i, seeds[i%len(seeds)]^0x5707)
		}(i)
	}
	for i := 0; i < nll; i++ {
		wg.Add(1)
		sem <- struct{}{}
		go func(i int) {
			defer wg.Done()
			defer func() { <-sem }()
			runC06LinkLoss(run, i, seeds[i%len(seeds)]^0x1055)
		}(i)
	}
	wg.Wait()
	collectRaces(run, workDir())
	run.Finish(run.Pick(20, 100))
}
