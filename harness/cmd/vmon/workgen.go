package main

import (
	"encoding/json"
	"fmt"
	"io"
	"os"
	"os/signal"
	"time"

	"verif/harness/internal/prng"
)

// workgen is the deterministic output producer used as the command of test work types.
// It reads its specification (JSON) from stdin — i.e. from the unit's payload — so the
// complete expected output of every unit is a function of what the submitter sent.

func init() { register("workgen", func(_ string, _ []string) { workgenMain() }) }

// GenChunk is one write of the producer.
type GenChunk struct {
	N       int `json:"n"`        // bytes
	PauseMs int `json:"pause_ms"` // sleep after the write
}

// GenSpec is the payload understood by workgen.
type GenSpec struct {
	Seed    uint64     `json:"seed"`
	Chunks  []GenChunk `json:"chunks"`
	Exit    int        `json:"exit"`              // exit status
	Gate    string     `json:"gate,omitempty"`    // if set: after chunk k wait until file <gate>.<k> exists
	PidFile string     `json:"pidfile,omitempty"` // if set: write own pid there first
	StartMs int        `json:"start_ms,omitempty"`
	IgnoreInt bool     `json:"ignore_sigint,omitempty"` // do not exit on SIGINT (a command that has to be killed)
	Pad     string     `json:"pad,omitempty"` // ignored filler (lets payload sizes vary)
}

// Total returns the total output size.
func (g *GenSpec) Total() int64 {
	var t int64
	for _, c := range g.Chunks {
		t += int64(c.N)
	}
	return t
}

// Expected returns expected[off:off+n].
func (g *GenSpec) Expected(off int64, n int) []byte { return prng.Bytes(g.Seed, off, n) }

func workgenMain() {
	in, err := io.ReadAll(os.Stdin)
	if err != nil {
		fmt.Fprintln(os.Stderr, "workgen: read stdin:", err)
		os.Exit(97)
	}
	var g GenSpec
	if err := json.Unmarshal(in, &g); err != nil {
		fmt.Fprintln(os.Stderr, "workgen: bad spec:", err)
		os.Exit(98)
	}
	if g.IgnoreInt {
		signal.Ignore(os.Interrupt)
	}
	if g.PidFile != "" {
		_ = os.WriteFile(g.PidFile+".tmp", []byte(fmt.Sprint(os.Getpid())), 0o644)
		_ = os.Rename(g.PidFile+".tmp", g.PidFile)
	}
	if g.StartMs > 0 {
		time.Sleep(time.Duration(g.StartMs) * time.Millisecond)
	}
	var off int64
	for k, c := range g.Chunks {
		if c.N > 0 {
			b := prng.Bytes(g.Seed, off, c.N)
			if _, err := os.Stdout.Write(b); err != nil {
				os.Exit(96)
			}
			off += int64(c.N)
		}
		if g.Gate != "" {
			gf := fmt.Sprintf("%s.%d", g.Gate, k)
			for {
				if _, err := os.Stat(gf); err == nil {
					break
				}
				time.Sleep(5 * time.Millisecond)
			}
		}
		if c.PauseMs > 0 {
			time.Sleep(time.Duration(c.PauseMs) * time.Millisecond)
		}
	}
	os.Exit(g.Exit)
}
