package main

import (
	"crypto"
	"crypto/ecdsa"
	"crypto/elliptic"
	"crypto/rand"
	"crypto/rsa"
	"crypto/sha256"
	"crypto/sha512"
	"crypto/tls"
	"crypto/x509"
	"crypto/x509/pkix"
	"encoding/pem"
	"fmt"
	"math/big"
	"strings"
	"sync"
	"sync/atomic"
	"time"
)

// The harness's certificate factory for C09: every certificate is produced from an explicit attribute
// tuple, so the expected decision of a verifier is the conjunction of the attributes - no code of
// receptor is involved in making the certificates or in deciding what should happen to them.

type c09Attr struct {
	Issuer   string `json:"issuer"`   // see c09Issuers
	Validity string `json:"validity"` // valid | expired | expired-recent | notyet
	EKU      string `json:"eku"`      // server | client | both | other | none
	Names    string `json:"names"`    // see c09NameClasses
}

// issuers: caS is the authority configured for verifying SERVERS (tls.Config.RootCAs), caC the one
// configured for verifying CLIENTS (tls.Config.ClientCAs). A certificate of caC presented by a server
// is therefore "other authority", and vice versa.
var c09Issuers = []string{"caS", "caC", "lookalike-caS", "lookalike-caC", "self-signed",
	"caS-via-intermediate", "caC-via-intermediate", "caS-via-expired-intermediate", "caC-via-expired-intermediate", "caS-via-nonCA-intermediate"}

var c09Validities = []string{"valid", "expired", "expired-recent", "notyet"}

var c09EKUs = []string{"server", "client", "both", "other", "none"}

var c09NameClasses = []string{"id-expected", "dns-only", "both", "other", "several-with", "several-without", "none", "near-miss", "foreign-oid", "wildcard"}

type c09CA struct {
	name  string
	cert  *x509.Certificate
	key   crypto.Signer
	extra [][]byte // certificates a peer sends after its leaf (intermediates)
}

type c09Cert struct {
	Attr     c09Attr
	Expected string
	IDs      []string // receptor node ids encoded in the certificate (harness's own record)
	DNS      []string
	Cert     *x509.Certificate
	Chain    [][]byte // leaf first
	Key      *rsa.PrivateKey
	IssuerCA *c09CA // nil for self-signed
}

type c09PKI struct {
	now      time.Time
	leafKeys [2]*rsa.PrivateKey
	cas      map[string]*c09CA
	serial   atomic.Int64
}

func (c *c09Cert) tlsCert() tls.Certificate {
	return tls.Certificate{Certificate: c.Chain, PrivateKey: c.Key, Leaf: c.Cert}
}

func (c *c09Cert) certPEM() []byte {
	var out []byte
	for _, d := range c.Chain {
		out = append(out, pem.EncodeToMemory(&pem.Block{Type: "CERTIFICATE", Bytes: d})...)
	}
	return out
}

func (c *c09Cert) keyPEM() []byte {
	return pem.EncodeToMemory(&pem.Block{Type: "RSA PRIVATE KEY", Bytes: x509.MarshalPKCS1PrivateKey(c.Key)})
}

func (ca *c09CA) pem() []byte {
	return pem.EncodeToMemory(&pem.Block{Type: "CERTIFICATE", Bytes: ca.cert.Raw})
}

func (ca *c09CA) pool() *x509.CertPool {
	p := x509.NewCertPool()
	p.AddCert(ca.cert)
	return p
}

func (p *c09PKI) mkCA(name, subject string, parent *c09CA, isCA bool, nb, na time.Time) *c09CA {
	key, err := ecdsa.GenerateKey(elliptic.P256(), rand.Reader)
	if err != nil {
		panic(err)
	}
	tpl := &x509.Certificate{SerialNumber: big.NewInt(p.serial.Add(1)), Subject: pkix.Name{CommonName: subject, Organization: []string{"c09 harness"}},
		NotBefore: nb, NotAfter: na, IsCA: isCA, BasicConstraintsValid: true, KeyUsage: x509.KeyUsageCertSign | x509.KeyUsageDigitalSignature}
	signer, signerCert := crypto.Signer(key), tpl
	if parent != nil {
		signer, signerCert = parent.key, parent.cert
	}
	der, err := x509.CreateCertificate(rand.Reader, tpl, signerCert, key.Public(), signer)
	if err != nil {
		panic(err)
	}
	cert, err := x509.ParseCertificate(der)
	if err != nil {
		panic(err)
	}
	ca := &c09CA{name: name, cert: cert, key: key}
	if parent != nil {
		ca.extra = append([][]byte{der}, parent.extra...)
	}
	return ca
}

func newC09PKI(seed int64) *c09PKI {
	p := &c09PKI{now: time.Now(), cas: map[string]*c09CA{}}
	p.serial.Store(seed * 1000000)
	var wg sync.WaitGroup
	for i := range p.leafKeys {
		wg.Add(1)
		go func(i int) {
			defer wg.Done()
			k, err := rsa.GenerateKey(rand.Reader, 2048)
			if err != nil {
				panic(err)
			}
			p.leafKeys[i] = k
		}(i)
	}
	nb, na := p.now.Add(-30*24*time.Hour), p.now.Add(365*24*time.Hour)
	sS, sC := fmt.Sprintf("c09 server authority %d", seed), fmt.Sprintf("c09 client authority %d", seed)
	caS := p.mkCA("caS", sS, nil, true, nb, na)
	caC := p.mkCA("caC", sC, nil, true, nb, na)
	p.cas["caS"], p.cas["caC"] = caS, caC
	// same subject names, different keys: trusted only by name
	p.cas["lookalike-caS"] = p.mkCA("lookalike-caS", sS, nil, true, nb, na)
	p.cas["lookalike-caC"] = p.mkCA("lookalike-caC", sC, nil, true, nb, na)
	p.cas["caS-via-intermediate"] = p.mkCA("caS-via-intermediate", "c09 intermediate S", caS, true, nb, na)
	p.cas["caC-via-intermediate"] = p.mkCA("caC-via-intermediate", "c09 intermediate C", caC, true, nb, na)
	p.cas["caS-via-expired-intermediate"] = p.mkCA("caS-via-expired-intermediate", "c09 intermediate S old", caS, true, nb, p.now.Add(-time.Hour))
	p.cas["caC-via-expired-intermediate"] = p.mkCA("caC-via-expired-intermediate", "c09 intermediate C old", caC, true, nb, p.now.Add(-time.Hour))
	p.cas["caS-via-nonCA-intermediate"] = p.mkCA("caS-via-nonCA-intermediate", "c09 end entity S", caS, false, nb, na)
	wg.Wait()
	return p
}

func c09Parent(e string) string {
	if i := strings.IndexByte(e, '.'); i >= 0 {
		return e[i+1:]
	}
	return "invalid"
}

func isASCII(s string) bool {
	for i := 0; i < len(s); i++ {
		if s[i] >= 0x80 || s[i] < 0x21 {
			return false
		}
	}
	return s != ""
}

// c09Names returns what a certificate of the given name class carries when `e` is the name the
// verifier will expect; o1/o2 are other nodes' names.
func c09Names(class, e, o1, o2 string) (ids, dns, foreign []string, cn string) {
	cn = "c09 leaf"
	switch class {
	case "id-expected":
		ids = []string{e}
	case "dns-only":
		dns = []string{e}
	case "both":
		ids, dns = []string{e}, []string{e}
	case "other":
		ids, dns = []string{o1}, []string{o1}
	case "several-with":
		ids, dns = []string{o1, e, o2}, []string{o1, e}
	case "several-without":
		ids, dns = []string{o1, o2}, []string{o1, o2}
	case "none":
		cn = e // a verifier falling back to the common name would be fooled
	case "near-miss":
		ids = []string{e + "x", swapCase(e), "x" + e, e[:len(e)-1], e + " ", " " + e}
		dns = []string{"x" + e, e + "x"}
		cn = e
	case "foreign-oid":
		ids, dns, foreign = []string{o1}, []string{o1}, []string{e}
	case "wildcard":
		dns = []string{"*." + c09Parent(e)}
	default:
		panic("unknown name class " + class)
	}
	// dNSName is an IA5String: names that are not plain ASCII cannot be carried as DNS names at all
	kept := dns[:0]
	for _, d := range dns {
		if isASCII(d) {
			kept = append(kept, d)
		}
	}
	return ids, kept, foreign, cn
}

func (p *c09PKI) window(v string) (time.Time, time.Time) {
	switch v {
	case "valid":
		return p.now.Add(-time.Hour), p.now.Add(24 * time.Hour)
	case "expired":
		return p.now.Add(-48 * time.Hour), p.now.Add(-time.Hour)
	case "expired-recent":
		return p.now.Add(-48 * time.Hour), p.now.Add(-10 * time.Second)
	case "notyet":
		return p.now.Add(time.Hour), p.now.Add(48 * time.Hour)
	}
	panic("unknown validity " + v)
}

// issue makes one certificate from its attribute tuple.
func (p *c09PKI) issue(a c09Attr, e, o1, o2 string, idx int) *c09Cert {
	c := &c09Cert{Attr: a, Expected: e, Key: p.leafKeys[idx%2]}
	var foreign []string
	var cn string
	c.IDs, c.DNS, foreign, cn = c09Names(a.Names, e, o1, o2)
	var entries []sanEntry
	for _, d := range c.DNS {
		entries = append(entries, sanDNS(d))
	}
	for _, id := range c.IDs {
		entries = append(entries, sanID(id))
	}
	for _, f := range foreign {
		entries = append(entries, sanEntry{"otherOID", []byte(f)})
	}
	nb, na := p.window(a.Validity)
	tpl := &x509.Certificate{SerialNumber: big.NewInt(p.serial.Add(1)), Subject: pkix.Name{CommonName: cn},
		NotBefore: nb, NotAfter: na, KeyUsage: x509.KeyUsageDigitalSignature | x509.KeyUsageKeyEncipherment}
	if len(entries) > 0 {
		tpl.ExtraExtensions = []pkix.Extension{{Id: sanOID, Value: derSAN(entries)}}
	}
	switch a.EKU {
	case "server":
		tpl.ExtKeyUsage = []x509.ExtKeyUsage{x509.ExtKeyUsageServerAuth}
	case "client":
		tpl.ExtKeyUsage = []x509.ExtKeyUsage{x509.ExtKeyUsageClientAuth}
	case "both":
		tpl.ExtKeyUsage = []x509.ExtKeyUsage{x509.ExtKeyUsageClientAuth, x509.ExtKeyUsageServerAuth}
	case "other":
		tpl.ExtKeyUsage = []x509.ExtKeyUsage{x509.ExtKeyUsageCodeSigning}
	case "none":
	default:
		panic("unknown eku " + a.EKU)
	}
	var der []byte
	var err error
	if a.Issuer == "self-signed" {
		der, err = x509.CreateCertificate(rand.Reader, tpl, tpl, &c.Key.PublicKey, c.Key)
	} else {
		ca := p.cas[a.Issuer]
		if ca == nil {
			panic("unknown issuer " + a.Issuer)
		}
		c.IssuerCA = ca
		der, err = x509.CreateCertificate(rand.Reader, tpl, ca.cert, &c.Key.PublicKey, ca.key)
	}
	if err != nil {
		panic(fmt.Sprintf("c09 issue %+v: %v", a, err))
	}
	c.Cert, err = x509.ParseCertificate(der)
	if err != nil {
		panic(fmt.Sprintf("c09 parse %+v: %v", a, err))
	}
	c.Chain = [][]byte{der}
	if c.IssuerCA != nil {
		c.Chain = append(c.Chain, c.IssuerCA.extra...)
	}
	return c
}

// ---------------------------------------------------------------- pins

var c09PinClasses = []string{"none", "match-sha256", "match-sha512", "nonmatch-32", "nonmatch-64", "nonmatch+match", "wrong-length-20", "prefix-31-of-32", "sha256-of-issuer"}

// the pin classes that the daemon's own configuration layer can express (32 or 64 byte values)
func (c *c09Cert) pins(class string) [][]byte {
	leaf := c.Chain[0]
	s256 := sha256.Sum256(leaf)
	s512 := sha512.Sum512(leaf)
	switch class {
	case "none":
		return nil
	case "match-sha256":
		return [][]byte{s256[:]}
	case "match-sha512":
		return [][]byte{s512[:]}
	case "nonmatch-32":
		x := sha256.Sum256(append([]byte("not this one"), leaf...))
		return [][]byte{x[:]}
	case "nonmatch-64":
		x := sha512.Sum512(append([]byte("not this one"), leaf...))
		return [][]byte{x[:]}
	case "nonmatch+match":
		x := sha256.Sum256(append([]byte("not this one"), leaf...))
		return [][]byte{x[:], s256[:]}
	case "wrong-length-20":
		return [][]byte{s256[:20]}
	case "prefix-31-of-32":
		x := append([]byte{}, s256[:]...)
		x[31] ^= 0x01
		return [][]byte{x}
	case "sha256-of-issuer":
		if c.IssuerCA == nil {
			return [][]byte{s256[:]} // its own issuer
		}
		x := sha256.Sum256(c.IssuerCA.cert.Raw)
		return [][]byte{x[:]}
	}
	panic("unknown pin class " + class)
}

// ---------------------------------------------------------------- the oracle

// dnsMatches: RFC 6125 style, the harness's own: case-insensitive equality, or a pattern whose whole
// left-most label is "*" matching exactly one non-empty label.
func dnsMatches(pattern, host string) bool {
	pattern, host = strings.ToLower(pattern), strings.ToLower(host)
	if pattern == host {
		return true
	}
	if strings.HasPrefix(pattern, "*.") {
		i := strings.IndexByte(host, '.')
		return i > 0 && host[i:] == pattern[1:]
	}
	return false
}

type c09Conds struct {
	Chain, Time, Usage, Pin, Name bool
}

func (c c09Conds) all() bool { return c.Chain && c.Time && c.Usage && c.Pin && c.Name }

func (c c09Conds) firstFalse() string {
	switch {
	case !c.Chain:
		return "chain"
	case !c.Time:
		return "time"
	case !c.Usage:
		return "usage"
	case !c.Pin:
		return "pin"
	case !c.Name:
		return "name"
	}
	return ""
}

// conds decides every stated condition from the certificate's attributes.
//
//	role: "server" = the peer is a server (a client verifies it), "client" = the peer is a client
//	mode: "dns" | "receptor"; nameExpected=false when the verifier is configured without an expected name
func (c *c09Cert) conds(role, mode string, nameExpected bool, expected string, pins [][]byte) c09Conds {
	var r c09Conds
	want := "caS"
	if role == "client" {
		want = "caC"
	}
	r.Chain = c.Attr.Issuer == want || c.Attr.Issuer == want+"-via-intermediate"
	r.Time = c.Attr.Validity == "valid"
	switch c.Attr.EKU {
	case "both", "none":
		r.Usage = true
	default:
		r.Usage = c.Attr.EKU == role
	}
	r.Pin = len(pins) == 0
	leaf := c.Chain[0]
	s224, s256, s384, s512 := sha256.Sum224(leaf), sha256.Sum256(leaf), sha512.Sum384(leaf), sha512.Sum512(leaf)
	for _, p := range pins {
		if string(p) == string(s224[:]) || string(p) == string(s256[:]) || string(p) == string(s384[:]) || string(p) == string(s512[:]) {
			r.Pin = true
		}
	}
	switch {
	case !nameExpected:
		r.Name = true
	case mode == "receptor":
		for _, id := range c.IDs {
			if id == expected {
				r.Name = true
			}
		}
	default:
		for _, d := range c.DNS {
			if dnsMatches(d, expected) {
				r.Name = true
			}
		}
	}
	return r
}

// clean reports whether the tuple is a positive control: every condition true in the plainest way
// (so that a verifier that is merely stricter about unusual but acceptable cases is not an alarm).
func (c *c09Cert) clean(role, mode string, nameExpected bool, pinClass string) bool {
	want := "caS"
	if role == "client" {
		want = "caC"
	}
	if c.Attr.Issuer != want && c.Attr.Issuer != want+"-via-intermediate" {
		return false
	}
	if c.Attr.Validity != "valid" || (c.Attr.EKU != "both" && c.Attr.EKU != role) {
		return false
	}
	switch pinClass {
	case "none", "match-sha256", "match-sha512", "nonmatch+match":
	default:
		return false
	}
	switch {
	case !nameExpected:
		return c.Attr.Names == "both" || c.Attr.Names == "several-with" || c.Attr.Names == "dns-only" || c.Attr.Names == "id-expected"
	case mode == "receptor":
		return c.Attr.Names == "both" || c.Attr.Names == "several-with" || c.Attr.Names == "id-expected"
	default:
		return c.Attr.Names == "both" || c.Attr.Names == "several-with" || c.Attr.Names == "dns-only"
	}
}
