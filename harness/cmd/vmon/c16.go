package main

import (
	"context"
	"encoding/hex"
	"errors"
	"fmt"
	"math/rand"
	"os"
	"path/filepath"
	"runtime"
	"runtime/pprof"
	"strings"
	"sync"
	"sync/atomic"
	"time"
	"unicode/utf8"

	"verif/harness/internal/ev"
	"verif/harness/internal/memnet"
	"verif/harness/internal/mesh"
	"verif/harness/internal/wire"

	"github.com/ansible/receptor/pkg/netceptor"
)

// C16 — unknown service is reported to the sender only; dials fail fast; policy drops are silent.
// (uses the helpers of c10common.go)

func init() { register("C16", runC16) }

type c16Case struct {
	Idx     int    `json:"idx"`
	Kind    string `json:"kind"`  // send | dial | dropdial
	Class   string `json:"class"` // never | closed | nonutf8-to | nonutf8-from | drop
	Target  string `json:"target"`
	NameHex string `json:"service_hex"`
	NameQ   string `json:"service"`
	name    string
	Burst   int `json:"burst,omitempty"`    // closed: sends racing with Close
	After   int `json:"after,omitempty"`    // closed: sends after Close returned
	CloseAt int `json:"close_at,omitempty"` // closed: Close starts once this many burst sends were started
	Sock    int `json:"sender_socket"`
}

type c16Spec struct {
	Trial      int        `json:"trial"`
	Topo       *vTopo     `json:"topology"`
	Sender     string     `json:"sender"`
	Unrelated  int        `json:"unrelated_sockets_on_sender"`
	OtherSocks int        `json:"sockets_per_other_node"`
	BadFrom    string     `json:"nonutf8_sender_socket_hex,omitempty"`
	Cases      []*c16Case `json:"cases"`
	DropDial   bool       `json:"drop_dial_trial"`
}

var c16Runes = []rune("abcXYZ019-_.:/ \t\x01\x1f\x7f\"\\<>&éßñ€中\u2028😀\ufffd")

func c16ValidName(rng *rand.Rand) string {
	for {
		l := 1 + rng.Intn(8)
		b := []byte{}
		for len(b) < l {
			r := c16Runes[rng.Intn(len(c16Runes))]
			if rng.Intn(40) == 0 && len(b) > 0 {
				r = 0 // embedded NUL (never trailing: the wire format pads with NULs)
			}
			if len(b)+utf8.RuneLen(r) > 8 {
				if len(b) > 0 {
					break
				}
				continue
			}
			b = utf8.AppendRune(b, r)
		}
		for len(b) > 0 && b[len(b)-1] == 0 {
			b = b[:len(b)-1]
		}
		if len(b) == 0 || !utf8.Valid(b) {
			continue
		}
		return string(b)
	}
}

func c16InvalidName(rng *rand.Rand) string {
	bad := [][]byte{{0xff}, {0xc3}, {0x80}, {0xe2, 0x82}, {0xc0, 0xaf}, {0xed, 0xa0, 0x80}, {0xf8}}
	for {
		l := 1 + rng.Intn(8)
		b := []byte{}
		pos := rng.Intn(l)
		for len(b) < l {
			if len(b) >= pos && utf8.Valid(b) {
				b = append(b, bad[rng.Intn(len(bad))]...)
				continue
			}
			b = append(b, byte('a'+rng.Intn(26)))
		}
		if len(b) > 8 {
			b = b[:8]
		}
		if utf8.Valid(b) || b[len(b)-1] == 0 {
			continue
		}
		return string(b)
	}
}

func genC16(rng *rand.Rand, trial int, dropDial bool) *c16Spec {
	n := 2 + rng.Intn(4)
	kind := []string{"chain", "random", "tree", "ring"}[trial%4]
	if trial%4 == 0 {
		n = 3 + rng.Intn(3) // chains give the long routes
	}
	sp := &c16Spec{Trial: trial, Topo: genTopo(rng, kind, n), DropDial: dropDial}
	sp.Sender = sp.Topo.Nodes[rng.Intn(n)]
	switch trial % 4 {
	case 0:
		sp.Unrelated = 1
	case 1:
		sp.Unrelated = 2 + rng.Intn(4)
	case 2:
		sp.Unrelated = 6 + rng.Intn(7)
	default:
		sp.Unrelated = 13 + rng.Intn(8)
	}
	sp.OtherSocks = 1 + rng.Intn(2)
	used := map[string]bool{"ping": true, "unreach": true, "sa": true, "sb": true}
	for i := 0; i < 24; i++ {
		used[fmt.Sprintf("u%d", i)] = true
		used[fmt.Sprintf("o%d", i)] = true
	}
	uniq := func(f func(*rand.Rand) string) string {
		for {
			s := f(rng)
			if !used[s] {
				used[s] = true
				return s
			}
		}
	}
	others := []string{}
	for _, x := range sp.Topo.Nodes {
		if x != sp.Sender {
			others = append(others, x)
		}
	}
	add := func(c *c16Case) {
		c.Idx = len(sp.Cases)
		c.NameHex = hex.EncodeToString([]byte(c.name))
		c.NameQ = fmt.Sprintf("%q", c.name)
		c.Sock = rng.Intn(2)
		sp.Cases = append(sp.Cases, c)
	}
	if dropDial {
		for i := 0; i < 10; i++ {
			nm := fmt.Sprintf("dd%d", i)
			used[nm] = true
			add(&c16Case{Kind: "dropdial", Class: "drop", Target: others[rng.Intn(len(others))], name: nm})
		}
		return sp
	}
	target := func(i int) string {
		// every node gets its turn, the sender itself (local form) included
		return sp.Topo.Nodes[(i+trial)%n]
	}
	list := []*c16Case{}
	for i := 0; i < 8; i++ {
		list = append(list, &c16Case{Kind: "send", Class: "never", Target: target(i), name: uniq(c16ValidName)})
	}
	for i := 0; i < 2; i++ {
		b := 2 + rng.Intn(5)
		c := &c16Case{Kind: "send", Class: "closed", Target: target(rng.Intn(64)), name: uniq(c16ValidName), Burst: b, After: 2 + rng.Intn(2), CloseAt: rng.Intn(b + 1)}
		if i == 1 && trial%3 == 0 {
			c.CloseAt = 0
		}
		list = append(list, c)
	}
	list = append(list, &c16Case{Kind: "send", Class: "nonutf8-to", Target: others[rng.Intn(len(others))], name: uniq(c16InvalidName)})
	if trial%2 == 0 {
		sp.BadFrom = hex.EncodeToString([]byte(uniq(c16InvalidName)))
		list = append(list, &c16Case{Kind: "send", Class: "nonutf8-from", Target: others[rng.Intn(len(others))], name: uniq(c16ValidName)})
	}
	for i := 0; i < 2; i++ {
		nm := fmt.Sprintf("dp%d", i)
		used[nm] = true
		list = append(list, &c16Case{Kind: "send", Class: "drop", Target: target(rng.Intn(64)), name: nm})
	}
	nd := 1
	if trial%6 < 4 {
		nd = 2
	}
	for i := 0; i < nd; i++ {
		cl := "never"
		if rng.Intn(3) == 0 {
			cl = "closed"
		}
		list = append(list, &c16Case{Kind: "dial", Class: cl, Target: others[rng.Intn(len(others))], name: uniq(c16ValidName)})
	}
	rng.Shuffle(len(list), func(i, j int) { list[i], list[j] = list[j], list[i] })
	for _, c := range list {
		add(c)
	}
	return sp
}

// c16Obs records the 'unreach' packets on the links and which (node, service) data packets reached.
type c16Obs struct {
	evc     atomic.Uint64
	mu      sync.Mutex
	unreach []vUnreachTap
	reached map[string]int // node|toService -> data packets handed to that node
}

func (o *c16Obs) tap(e memnet.TapEvent) {
	if (e.Dir != "send" && e.Dir != "recv") || len(e.Data) == 0 || e.Data[0] != wire.TData {
		return
	}
	d, err := wire.DecodeData(e.Data)
	if err != nil {
		return
	}
	if d.FromService == "unreach" {
		u := decodeUnreachTap(e, d, o.evc.Add(1))
		o.mu.Lock()
		o.unreach = append(o.unreach, u)
		o.mu.Unlock()
		return
	}
	if e.Dir == "recv" && d.ToHash == wire.Hash(e.To) {
		o.mu.Lock()
		o.reached[e.To+"|"+d.ToService]++
		o.mu.Unlock()
	}
}

func (o *c16Obs) nUnreach() int64 { o.mu.Lock(); defer o.mu.Unlock(); return int64(len(o.unreach)) }

func (o *c16Obs) unreachAbout(toNode, toSvc string) []vUnreachTap {
	o.mu.Lock()
	defer o.mu.Unlock()
	out := []vUnreachTap{}
	for _, u := range o.unreach {
		if u.OK && u.Msg.ToNode == toNode && u.Msg.ToService == toSvc {
			out = append(out, u)
		}
	}
	return out
}

func (o *c16Obs) didReach(node, svc string) bool {
	o.mu.Lock()
	defer o.mu.Unlock()
	return o.reached[node+"|"+svc] > 0
}

type c16Trial struct {
	wedgeReported bool
	run           *ev.Run
	sp            *c16Spec
	name          string
	m             *mesh.Mesh
	obs           *c16Obs
	tabs          vTables
	S             string
	inst          *netceptor.Netceptor
	snd           []*vSock // sending sockets on S (index 2 = the non-UTF-8 named one, if any)
	idle          []*vSock // sockets that never send: unrelated ones on S, sockets on other nodes
	victims       map[int]*vSock
	raw           map[string]*vRaw
	sent          map[*vSock]map[string]bool // socket -> "node|service" it sent to
	bucket        string
	nonutf8       map[string]int
}

func c16Bucket(k int) string {
	switch {
	case k <= 1:
		return "1"
	case k <= 5:
		return "2-5"
	case k <= 12:
		return "6-12"
	}
	return "13-20"
}

func (t *c16Trial) hops(target string) int {
	w := tableWalk(t.tabs, t.S, target, 8)
	if w == nil {
		return -1
	}
	return len(w) - 1
}

func (t *c16Trial) distinct(c *c16Case, timing string) {
	t.run.Distinct(fmt.Sprintf("%s/%s|%s|socks%s|hops%d", c.Kind, c.Class, timing, t.bucket, t.hops(c.Target)))
	t.run.Count(fmt.Sprintf("judged_%s_%s", c.Kind, c.Class), 1)
}

func (t *c16Trial) fence(target string) bool {
	ok, hung := fencePingBounded(t.inst, target)
	if hung && !t.wedgeReported {
		t.wedgeReported = true
		// opening a socket subscribes it to the node's notices: a call that never returns means no sender on this
		// node can be told anything any more
		t.run.Violation("notice:node-wedged:open-socket-never-returns", fmt.Sprintf("%s: a Ping from the sender node (which opens a socket and subscribes it to the node's unreachable notices) had not returned 90 s after it was called, 78 s after its context expired: the node's notice delivery is blocked, no socket can be opened and no sender can be notified", t.name), nil)
	}
	return ok
}

// matching returns the notices of sock (from index n0 on) that name (target, svc) as destination.
func matching(s *vSock, n0 int, target, svc string) (match []vNotice, other []vNotice) {
	all := s.Notices()
	for _, n := range all[n0:] {
		if n.ToNode == target && n.ToService == svc {
			match = append(match, n)
		} else {
			other = append(other, n)
		}
	}
	return
}

func (t *c16Trial) markSent(s *vSock, target, svc string) {
	if t.sent[s] == nil {
		t.sent[s] = map[string]bool{}
	}
	t.sent[s][target+"|"+svc] = true
}

// oneSend sends one datagram to (target, svc), which is expected to be unbound, and waits (bounded
// by fences) for the notice. Returns what was observed.
type c16Seen struct {
	syncErr    bool
	writeErr   string
	match      []vNotice
	other      []vNotice
	rawNew     []vNotice
	conclusive bool
}

func (t *c16Trial) oneSend(s *vSock, target, svc string, wait bool) c16Seen {
	n0 := s.NNotices()
	r0 := len(t.raw[t.S].Got())
	t.markSent(s, target, svc)
	_, err := s.pc.WriteTo([]byte("c16"), t.inst.NewAddr(target, svc))
	seen := c16Seen{conclusive: true}
	if err != nil {
		if target == t.S && err.Error() == "service unknown" {
			seen.syncErr = true
			return seen
		}
		seen.writeErr = err.Error()
		return seen
	}
	if !wait {
		return seen
	}
	cond := func() bool { m, _ := matching(s, n0, target, svc); return len(m) > 0 }
	_, seen.conclusive = waitOutcome(cond, t.obs.nUnreach, func() bool { return t.fence(target) })
	seen.match, seen.other = matching(s, n0, target, svc)
	// notices the sender NODE was handed meanwhile that mention one of the two service names in any
	// position (late notices of earlier dials' retransmissions are about other names)
	for _, n := range t.raw[t.S].Got()[r0:] {
		for _, f := range []string{n.FromService, n.ToService} {
			if f == svc || f == s.Name {
				seen.rawNew = append(seen.rawNew, n)
				break
			}
		}
	}
	return seen
}

func (t *c16Trial) witness(c *c16Case, extra map[string]any) map[string]any {
	w := map[string]any{"trial": t.sp.Trial, "case": c, "sender": t.S, "topology": t.sp.Topo, "tables": t.tabs, "unrelated_sockets": t.sp.Unrelated,
		"unreach_packets_about_it": t.obs.unreachAbout(c.Target, c.name)}
	for k, v := range extra {
		w[k] = v
	}
	return w
}

// judgeNotice checks the fields of the notice for a send from s to (target, svc).
func (t *c16Trial) judgeFields(c *c16Case, s *vSock, n vNotice) bool {
	if n.Problem != "service unknown" || n.FromNode != t.S || n.FromService != s.Name || n.ToNode != c.Target || n.ToService != c.name {
		t.run.Violation("notice:wrong-fields", fmt.Sprintf("%s: send %s:%q -> %s:%q (%s): notice %+v", t.name, t.S, s.Name, c.Target, c.name, c.Class, n.UnreachableMessage), t.witness(c, map[string]any{"notice": n}))
		return false
	}
	return true
}

func (t *c16Trial) missing(c *c16Case, s *vSock, seen c16Seen, why string) {
	// a notice that reached the node or the socket but does not echo the addresses is a wrong-fields case
	if len(seen.other) > 0 || len(seen.rawNew) > 0 {
		var n vNotice
		if len(seen.other) > 0 {
			n = seen.other[0]
		} else {
			n = seen.rawNew[0]
		}
		t.run.Violation("notice:wrong-fields", fmt.Sprintf("%s: send %s:%q -> %s:%q (%s): the only notice that came back is %+v", t.name, t.S, s.Name, c.Target, c.name, c.Class, n.UnreachableMessage),
			t.witness(c, map[string]any{"socket_notices": seen.other, "node_notices": seen.rawNew}))
		return
	}
	t.run.Violation("notice:missing", fmt.Sprintf("%s: send %s:%q -> %s:%q (%s, %d hops, %s): no 'service unknown' notice on the sending socket", t.name, t.S, s.Name, c.Target, c.name, c.Class, t.hops(c.Target), why),
		t.witness(c, nil))
}

func (t *c16Trial) caseNever(c *c16Case) {
	s := t.snd[c.Sock]
	seen := t.oneSend(s, c.Target, c.name, true)
	t.run.Eval(1)
	t.run.Count("sends", 1)
	switch {
	case seen.writeErr != "":
		t.run.Inconclusive(fmt.Sprintf("%s: WriteTo failed: %s", t.name, seen.writeErr))
		return
	case seen.syncErr:
		t.run.Count("local_synchronous_form", 1)
	case !seen.conclusive:
		t.run.Inconclusive(fmt.Sprintf("%s: fence to %s failed", t.name, c.Target))
		return
	case len(seen.match) == 0:
		t.missing(c, s, seen, "never bound")
	default:
		t.run.Count("notices_matched", 1)
		t.judgeFields(c, s, seen.match[0])
	}
	if c.Target == t.S || t.obs.didReach(c.Target, c.name) {
		t.distinct(c, "never")
	}
}

// caseClosed: a bound service is closed at a seeded moment relative to a stream of sends.
func (t *c16Trial) caseClosed(c *c16Case) {
	s := t.snd[c.Sock]
	victim := t.victims[c.Idx]
	n0 := s.NNotices()
	type sendRec struct {
		Start, End uint64
		Sync       bool
		Err        string
	}
	recs := []sendRec{}
	var started atomic.Int32
	var closeStart, closeEnd uint64
	closed := make(chan struct{})
	go func() {
		for int(started.Load()) < c.CloseAt {
			runtime.Gosched()
		}
		closeStart = t.obs.evc.Add(1)
		_ = victim.pc.Close()
		closeEnd = t.obs.evc.Add(1) // Close has returned
		close(closed)
	}()
	one := func(wait bool) sendRec {
		started.Add(1)
		r := sendRec{Start: t.obs.evc.Add(1)} // taken before WriteTo is called
		seen := t.oneSend(s, c.Target, c.name, false)
		r.End = t.obs.evc.Add(1)
		r.Sync, r.Err = seen.syncErr, seen.writeErr
		t.run.Eval(1)
		t.run.Count("sends", 1)
		return r
	}
	for i := 0; i < c.Burst; i++ {
		recs = append(recs, one(false))
		if i%2 == 1 {
			runtime.Gosched()
		}
	}
	<-closed
	_ = victim.Close()
	count := func() int {
		m, _ := matching(s, n0, c.Target, c.name)
		return len(m)
	}
	for i := 0; i < c.After; i++ {
		c0 := count()
		r := one(false)
		recs = append(recs, r)
		if !r.Sync && r.Err == "" {
			// pacing: give this send's notice the chance to arrive before the next send
			waitOutcome(func() bool { return count() > c0 }, t.obs.nUnreach, func() bool { return t.fence(c.Target) })
		}
	}
	must, overlap, before, syncs := 0, 0, 0, 0
	for _, r := range recs {
		if r.Err != "" {
			t.run.Inconclusive(fmt.Sprintf("%s: WriteTo failed: %s", t.name, r.Err))
			return
		}
		switch {
		case r.Start > closeEnd:
			must++
			if r.Sync {
				syncs++
			}
		case r.End > closeStart:
			overlap++
		default:
			before++
		}
	}
	// every send that started strictly after Close returned must be noticed
	ok, conclusive := waitOutcome(func() bool { return count()+syncs >= must }, t.obs.nUnreach, func() bool { return t.fence(c.Target) })
	if !conclusive {
		t.run.Inconclusive(fmt.Sprintf("%s: fence to %s failed", t.name, c.Target))
		return
	}
	t.run.Count("close_overlapping_sends", int64(overlap))
	t.run.Count("sends_before_close", int64(before))
	t.run.Count("sends_after_close", int64(must))
	t.run.Count("delivered_to_closing_service", int64(victim.NRecvd()))
	timing := "after-only"
	if overlap > 0 {
		timing = "overlap"
	} else if before > 0 {
		timing = "before+after"
	}
	m, other := matching(s, n0, c.Target, c.name)
	if !ok {
		seen := c16Seen{other: other}
		t.missing(c, s, seen, fmt.Sprintf("closed; %d sends started after Close returned, %d notices", must, len(m)+syncs))
	} else {
		t.run.Count("notices_matched", int64(len(m)))
		t.run.Count("local_synchronous_form", int64(syncs))
	}
	for _, n := range m {
		if !t.judgeFields(c, s, n) {
			break
		}
	}
	if c.Target == t.S || t.obs.didReach(c.Target, c.name) {
		t.distinct(c, timing)
	}
}

// c16Mangle is what a byte string becomes when it travels as a JSON string (every byte that is not
// part of a valid UTF-8 sequence turns into U+FFFD) - the harness's own model of the transport.
func c16Mangle(s string) string {
	out := []rune{}
	for i := 0; i < len(s); {
		r, size := utf8.DecodeRuneInString(s[i:])
		out = append(out, r) // RuneError (U+FFFD) for an invalid byte, size 1
		i += size
	}
	return string(out)
}

// caseNonUTF8 only records what happens (separately labelled class, kept out of the verdict).
func (t *c16Trial) caseNonUTF8(c *c16Case) {
	s := t.snd[c.Sock]
	if c.Class == "nonutf8-from" {
		s = t.snd[2]
	}
	n0 := s.NNotices()
	r0 := len(t.raw[t.S].Got())
	mangled := c16Mangle(c.name)
	t.markSent(s, c.Target, c.name)
	t.markSent(s, c.Target, mangled) // a notice carrying the JSON-mangled name is about this send, not a leak
	about := func(n vNotice) bool { return n.ToNode == c.Target && (n.ToService == c.name || n.ToService == mangled) }
	onSock := func() *vNotice {
		for _, n := range s.Notices()[n0:] {
			if about(n) {
				return &n
			}
		}
		return nil
	}
	onNode := func() *vNotice {
		for _, n := range t.raw[t.S].Got()[r0:] {
			if about(n) {
				return &n
			}
		}
		return nil
	}
	_, err := s.pc.WriteTo([]byte("c16"), t.inst.NewAddr(c.Target, c.name))
	t.run.Eval(1)
	t.run.Count("sends", 1)
	if err != nil {
		return
	}
	// the node's raw log sees every notice first; the socket's copy (if any) follows within a few
	// scheduler rounds
	_, conclusive := waitOutcome(func() bool { return onNode() != nil || onSock() != nil }, t.obs.nUnreach, func() bool { return t.fence(c.Target) })
	if !conclusive {
		return
	}
	settleRounds()
	outcome := "no notice at all"
	if n := onSock(); n != nil {
		switch {
		case n.ToService == c.name && n.FromService == s.Name:
			outcome = "sender socket got the notice with byte-exact names"
		case n.FromService == s.Name:
			outcome = "sender socket got the notice, destination service mangled to U+FFFD form"
		default:
			outcome = "sender socket got the notice, source service mangled"
		}
	} else if n := onNode(); n != nil {
		outcome = "notice reached the sender node but NO socket (source service name mangled to U+FFFD form, so the socket filter does not match)"
		if n.FromService == s.Name {
			outcome = "notice reached the sender node with the exact source name but no socket"
		}
	}
	t.run.SetAdd("nonutf8_observations", c.Class+": "+outcome)
	t.run.Count("nonutf8_cases_"+c.Class, 1)
	// Service names are raw bytes (1-8 non-zero bytes); the notice must name the original source and
	// destination and reach the sending socket. The class has its own keys so that it is reported
	// separately from notices about UTF-8 names.
	w := map[string]any{"class": c.Class, "target_node": c.Target, "service_hex": fmt.Sprintf("%x", c.name), "sender_socket_hex": fmt.Sprintf("%x", s.Name), "outcome": outcome}
	switch {
	case strings.HasPrefix(outcome, "sender socket got the notice with byte-exact"):
	case strings.HasPrefix(outcome, "sender socket got the notice"):
		t.run.Violation("notice:"+c.Class+":names-mangled", fmt.Sprintf("datagram to unbound service %x on %s from socket %x: %s", c.name, c.Target, s.Name, outcome), w)
	case strings.HasPrefix(outcome, "notice reached the sender node"):
		t.run.Violation("notice:"+c.Class+":not-delivered-to-socket", fmt.Sprintf("datagram to unbound service %x on %s from socket %x: %s", c.name, c.Target, s.Name, outcome), w)
	default:
		t.run.Violation("notice:"+c.Class+":missing", fmt.Sprintf("datagram to unbound service %x on %s from socket %x: %s", c.name, c.Target, s.Name, outcome), w)
	}
}

func (t *c16Trial) anyNoticeAbout(c *c16Case) (string, any) {
	for _, s := range append(append([]*vSock{}, t.snd...), t.idle...) {
		for _, n := range s.Notices() {
			if n.ToService == c.name {
				return "socket " + s.Node + ":" + s.Name, n
			}
		}
	}
	for node, r := range t.raw {
		for _, n := range r.Got() {
			if n.ToService == c.name {
				return "node " + node, n
			}
		}
	}
	if u := t.obs.unreachAbout(c.Target, c.name); len(u) > 0 {
		return "link " + u[0].From + "->" + u[0].To, u[0]
	}
	return "", nil
}

func (t *c16Trial) caseDrop(c *c16Case) {
	s := t.snd[c.Sock]
	seen := t.oneSend(s, c.Target, c.name, false)
	t.run.Eval(1)
	t.run.Count("sends", 1)
	if seen.writeErr != "" || seen.syncErr {
		what := seen.writeErr
		if seen.syncErr {
			what = "service unknown"
		}
		t.run.Violation("drop:notice-sent", fmt.Sprintf("%s: send to %s:%q which a drop rule covers: WriteTo reported %q", t.name, c.Target, c.name, what), t.witness(c, nil))
		return
	}
	if !t.fence(c.Target) {
		t.run.Inconclusive(fmt.Sprintf("%s: fence to %s failed", t.name, c.Target))
		return
	}
	settleRounds()
	if where, n := t.anyNoticeAbout(c); where != "" {
		t.run.Violation("drop:notice-sent", fmt.Sprintf("%s: datagram to %s:%q was dropped by policy, yet a notice appeared at %s", t.name, c.Target, c.name, where), t.witness(c, map[string]any{"notice": n}))
	}
	if c.Target == t.S || t.obs.didReach(c.Target, c.name) {
		t.distinct(c, "never")
	}
}

func (t *c16Trial) caseDial(c *c16Case) {
	if c.Class == "closed" {
		_ = t.victims[c.Idx].Close()
	}
	ctx, cancel := context.WithTimeout(context.Background(), 90*time.Second)
	conn, err := t.inst.DialContext(ctx, c.Target, c.name, nil)
	ret := t.obs.evc.Add(1) // DialContext has returned
	cancel()
	t.run.Eval(1)
	t.run.Count("dials", 1)
	// notices about this dial that a link handed to the dialer's node before DialContext returned
	var first *vUnreachTap
	before := 0
	for _, u := range t.obs.unreachAbout(c.Target, c.name) {
		u := u
		// Dir "send" on the last link: memnet taps "send" before the packet is queued towards the node
		// ("recv" is tapped only after the hand-over, i.e. possibly after the node already reacted)
		if u.Dir == "send" && u.To == t.S && u.Msg.Problem == "service unknown" && u.Msg.FromNode == t.S && u.Ev < ret {
			if first == nil {
				first = &u
			}
			before++
		}
	}
	es := ""
	if err != nil {
		es = err.Error()
	}
	wit := t.witness(c, map[string]any{"dial_error": es, "dial_returned_at_event": ret, "notices_arrived_before_return": before})
	switch {
	case err == nil:
		_ = conn.Close()
		t.run.Violation("dial:not-cancelled-by-notice", fmt.Sprintf("%s: dial %s -> %s:%q (unbound) returned a connection", t.name, t.S, c.Target, c.name), wit)
	case errors.Is(err, context.DeadlineExceeded):
		t.run.Inconclusive(fmt.Sprintf("%s: dial %s -> %s:%q hit the 90 s watchdog", t.name, t.S, c.Target, c.name))
		return
	case errors.Is(err, context.Canceled) && first != nil:
		t.run.Count("dials_cancelled_by_notice", 1)
		if before > 1 {
			t.run.Count("dials_that_needed_more_than_one_notice", 1)
		}
	case errors.Is(err, context.Canceled):
		t.run.Violation("dial:not-cancelled-by-notice", fmt.Sprintf("%s: dial %s -> %s:%q was cancelled although no 'service unknown' packet had been put on a link into %s before it returned", t.name, t.S, c.Target, c.name, t.S), wit)
	case first == nil:
		// no notice had reached the dialer's node when QUIC gave up: on loss-free links that means the
		// machine was too slow for QUIC's wall-clock handshake timer, not that the notice was ignored
		t.run.Inconclusive(fmt.Sprintf("%s: dial %s -> %s:%q ended with %q before any notice reached %s", t.name, t.S, c.Target, c.name, es, t.S))
		return
	default:
		t.run.Violation("dial:not-cancelled-by-notice", fmt.Sprintf("%s: dial %s -> %s:%q (unbound, %d hops): %d 'service unknown' notices reached %s, yet the dial ended with %q instead of the cancellation caused by the notice", t.name, t.S, c.Target, c.name, t.hops(c.Target), before, t.S, es), wit)
	}
	t.distinct(c, map[string]string{"never": "never", "closed": "after-only"}[c.Class])
}

func (t *c16Trial) caseDropDial(c *c16Case, wg *sync.WaitGroup) {
	defer wg.Done()
	ctx, cancel := context.WithTimeout(context.Background(), 120*time.Second)
	start := time.Now()
	conn, err := t.inst.DialContext(ctx, c.Target, c.name, nil)
	cancel()
	t.run.Eval(1)
	t.run.Count("drop_dials", 1)
	es := ""
	if err != nil {
		es = err.Error()
	}
	wit := t.witness(c, map[string]any{"dial_error": es, "elapsed_s": time.Since(start).Seconds()})
	where, n := t.anyNoticeAbout(c)
	switch {
	case where != "":
		wit["notice"] = n
		t.run.Violation("drop:notice-sent", fmt.Sprintf("%s: dial to %s:%q (dropped by policy): a notice appeared at %s", t.name, c.Target, c.name, where), wit)
	case err == nil:
		_ = conn.Close()
		t.run.Violation("drop:dial-connected", fmt.Sprintf("%s: dial to %s:%q (dropped by policy) returned a connection", t.name, c.Target, c.name), wit)
	case errors.Is(err, context.DeadlineExceeded):
		t.run.Inconclusive(fmt.Sprintf("%s: drop dial hit the 120 s watchdog", t.name))
		return
	case errors.Is(err, context.Canceled):
		t.run.Violation("drop:dial-cancelled", fmt.Sprintf("%s: dial to %s:%q (dropped by policy) was cancelled early instead of running into the handshake timeout", t.name, c.Target, c.name), wit)
	default:
		t.run.Count("drop_dials_timed_out_in_handshake", 1)
		t.run.SetAdd("drop_dial_errors", es)
	}
	t.distinct(c, "never")
}

func runC16Trial(run *ev.Run, sp *c16Spec) {
	c := mesh.DefaultConsts()
	c.Idle = 60 * time.Second
	obs := &c16Obs{reached: map[string]int{}}
	m, _ := buildMesh(sp.Topo, c, run.Seed*100000+int64(sp.Trial), obs.tap)
	defer m.Shutdown()
	t := &c16Trial{run: run, sp: sp, name: fmt.Sprintf("trial %d (%s/%d, sender %s, %d unrelated sockets)", sp.Trial, sp.Topo.Kind, len(sp.Topo.Nodes), sp.Sender, sp.Unrelated),
		m: m, obs: obs, S: sp.Sender, victims: map[int]*vSock{}, raw: map[string]*vRaw{}, sent: map[*vSock]map[string]bool{}, bucket: c16Bucket(sp.Unrelated)}
	tabs, ok := waitSettled(m, 60*time.Second)
	if !ok {
		run.Eval(1)
		run.Inconclusive(t.name + ": mesh did not settle before the watchdog")
		return
	}
	t.tabs = tabs
	t.inst = m.Node(t.S).Inst()
	fail := func(err error) {
		run.Eval(1)
		run.Inconclusive(t.name + ": " + err.Error())
	}
	// policy: drop rules on the target nodes
	rules := map[string][]netceptor.FirewallRuleData{}
	for _, cs := range sp.Cases {
		if cs.Class == "drop" {
			rules[cs.Target] = append(rules[cs.Target], netceptor.FirewallRuleData{"Action": "drop", "ToService": cs.name})
		}
	}
	for node, rs := range rules {
		fr, err := netceptor.ParseFirewallRules(rs)
		if err == nil {
			err = m.Node(node).Inst().AddFirewallRules(fr, false)
		}
		if err != nil {
			fail(err)
			return
		}
	}
	all := []*vSock{}
	defer func() {
		for _, s := range all {
			_ = s.Close()
		}
	}()
	open := func(node, name string, read bool) (*vSock, error) {
		s, err := openSock(m.Node(node).Inst(), &obs.evc, node, name, read, nil)
		if err == nil {
			all = append(all, s)
		}
		return s, err
	}
	for _, nm := range []string{"sa", "sb"} {
		s, err := open(t.S, nm, false)
		if err != nil {
			fail(err)
			return
		}
		t.snd = append(t.snd, s)
		t.sent[s] = map[string]bool{}
	}
	if sp.BadFrom != "" {
		b, _ := hex.DecodeString(sp.BadFrom)
		s, err := open(t.S, string(b), false)
		if err != nil {
			fail(err)
			return
		}
		t.snd = append(t.snd, s)
		t.sent[s] = map[string]bool{}
	}
	for i := 0; i < sp.Unrelated; i++ {
		s, err := open(t.S, fmt.Sprintf("u%d", i), i%2 == 0)
		if err != nil {
			fail(err)
			return
		}
		t.idle = append(t.idle, s)
	}
	for _, n := range sp.Topo.Nodes {
		t.raw[n] = openRaw(m.Node(n).Inst(), &obs.evc, n)
		if n == t.S {
			continue
		}
		for i := 0; i < sp.OtherSocks; i++ {
			s, err := open(n, fmt.Sprintf("o%d", i), i%2 == 0)
			if err != nil {
				fail(err)
				return
			}
			t.idle = append(t.idle, s)
		}
	}
	for _, cs := range sp.Cases {
		if cs.Class == "closed" {
			s, err := open(cs.Target, cs.name, true)
			if err != nil {
				fail(err)
				return
			}
			t.victims[cs.Idx] = s
			t.idle = append(t.idle, s)
		}
	}
	var ddwg sync.WaitGroup
	for _, cs := range sp.Cases {
		switch {
		case cs.Kind == "dropdial":
			ddwg.Add(1)
			go t.caseDropDial(cs, &ddwg)
		case cs.Kind == "dial":
			t.caseDial(cs)
		case cs.Class == "never":
			t.caseNever(cs)
		case cs.Class == "closed":
			t.caseClosed(cs)
		case cs.Class == "drop":
			t.caseDrop(cs)
		default:
			t.caseNonUTF8(cs)
		}
	}
	ddwg.Wait()
	// only the sender's socket: after a fence to every node nothing may have shown up elsewhere
	for _, n := range sp.Topo.Nodes {
		if !t.fence(n) {
			run.Inconclusive(t.name + ": final fence to " + n + " failed")
			return
		}
	}
	settleRounds()
	for _, s := range t.idle {
		if nn := s.Notices(); len(nn) > 0 {
			run.Violation("notice:leaked-to-other-socket", fmt.Sprintf("%s: socket %s:%q never sent anything but received notice %+v", t.name, s.Node, s.Name, nn[0].UnreachableMessage),
				map[string]any{"trial": sp.Trial, "socket": s.Node + ":" + s.Name, "notices": nn, "sender": t.S, "topology": sp.Topo})
			break
		}
	}
	for _, s := range t.snd {
		for _, n := range s.Notices() {
			if !t.sent[s][n.ToNode+"|"+n.ToService] {
				run.Violation("notice:leaked-to-other-socket", fmt.Sprintf("%s: sending socket %s:%q received a notice about a datagram it did not send: %+v", t.name, s.Node, s.Name, n.UnreachableMessage),
					map[string]any{"trial": sp.Trial, "socket": s.Node + ":" + s.Name, "notice": n, "sender": t.S})
				break
			}
		}
	}
	for node, r := range t.raw {
		if node == t.S {
			continue
		}
		// a node may legitimately be told about its own packets (e.g. its ping reply reached a pinging
		// socket that had given up); a notice about somebody else's datagram is misdelivered
		for _, g := range r.Got() {
			if g.FromNode != node {
				run.Violation("notice:leaked-to-other-node", fmt.Sprintf("%s: node %s was handed notice %+v about a datagram of another node", t.name, node, g.UnreachableMessage),
					map[string]any{"trial": sp.Trial, "node": node, "notice": g, "sender": t.S, "topology": sp.Topo})
				break
			}
		}
	}
	obs.mu.Lock()
	un := append([]vUnreachTap(nil), obs.unreach...)
	obs.mu.Unlock()
	for _, u := range un {
		if u.OK && u.Dest != wire.Hash(u.Msg.FromNode) {
			run.Violation("notice:leaked-to-other-node", fmt.Sprintf("%s: notice %q about %s:%q->%s:%q travels on %s->%s addressed to another node than the source", t.name, u.Msg.Problem, u.Msg.FromNode, u.Msg.FromService, u.Msg.ToNode, u.Msg.ToService, u.From, u.To), u)
			break
		}
	}
	run.Count("unreach_packets_on_links", int64(len(un)))
	run.Count("trials", 1)
	run.Count("subscribed_idle_sockets", int64(len(t.idle)))
	if sp.Trial < 2 {
		n := len(sp.Cases)
		if n > 6 {
			n = 6
		}
		run.Sample(map[string]any{"trial": sp.Trial, "topology": sp.Topo, "sender": sp.Sender, "unrelated_sockets": sp.Unrelated, "first_cases": sp.Cases[:n]})
	}
	_ = memnet.BarrierByte
}

func runC16(tier string, args []string) {
	run := ev.New("C16", tier, "exploration")
	run.Rule("Seeded meshes of 2-5 real nodes (chain/ring/tree/random, weighted), one sender node with two sending sockets and 1-20 unrelated sockets, 1-2 sockets on every other node, ALL subscribed to unreachable notices (plus a raw per-node log of every notice a node was handed and the link taps). Per trial: 8 datagrams to never-bound services (names 1-8 bytes of valid UTF-8 incl. control characters, quotes, multi-byte runes, embedded NUL) on every node incl. the sender itself; 2 services closed at a seeded moment relative to a burst of sends + sends after Close returned (order by a global event counter taken before WriteTo / after Close returned; only sends started strictly after are demanded to be noticed); 2 datagrams to a service covered by a firewall drop rule; 1-2 DialContext to an unbound/closed remote service; non-UTF-8 names as a separately labelled, unjudged class. Oracle: the sending socket (and only it) gets 'service unknown' echoing FromNode/FromService/ToNode/ToService; bound = notice still missing after the wait saw no notice traffic any more and two full-budget pings to the target returned (same path, FIFO per session); local sends may instead fail synchronously with 'service unknown'; a dial must return context.Canceled AND the tap must show the notice arriving at the dialer's node before DialContext returned; drop rule => no notice at any socket, node or link (thorough: 10 dials into a dropped service must end in the QUIC handshake timeout, not in a cancellation). extras: bursts of back-to-back datagrams from one socket to an unbound service (notices conserved), dials to unbound services of the dialling node itself, and sockets closed while 1-4 datagrams for them are still undelivered because nobody read them (datagrams sent afterwards must be noticed). distinct_nontrivial = distinct (operation/target class, timing class never|after-only|before+after|overlap, unrelated-socket bucket, hops) judged where the datagram provably reached the target node")
	run.Assume("non-UTF-8 service names are a separately keyed class (notice:nonutf8-*): the notice travels as JSON and cannot carry such names byte-exactly (recorded known finding)")
	run.Assume("one sender stream per closing service (two concurrent deliverers at Close is C17's crash:recvChan-double-close)")
	rng := rand.New(rand.NewSource(run.Seed*104729 + 16))
	n := run.Pick(12, 250)
	specs := []*c16Spec{}
	if !run.Quick() {
		// first, so that its 15 s handshake timeouts overlap with everything else
		sp := genC16(rng, 100000, true)
		specs = append(specs, sp)
	}
	for i := 0; i < n; i++ {
		specs = append(specs, genC16(rng, i, false))
	}
	if len(args) >= 2 && args[0] == "--trial" {
		var idx int
		fmt.Sscan(args[1], &idx)
		for _, sp := range specs {
			if sp.Trial == idx {
				specs = []*c16Spec{sp}
				break
			}
		}
	}
	sem := make(chan struct{}, 12)
	var wg sync.WaitGroup
	for _, sp := range specs {
		wg.Add(1)
		sem <- struct{}{}
		go func(sp *c16Spec) {
			defer wg.Done()
			defer func() { <-sem }()
			c16Bounded(run, fmt.Sprintf("trial %d", sp.Trial), func() { runC16Trial(run, sp) })
		}(sp)
	}
	wg.Wait()
	collectRaces(run, workDir())
	if len(args) < 2 {
		c16Bounded(run, "extras", func() { runC16Extra(run) })
	}
	run.Finish(run.Pick(15, 40))
}

// c16Bounded runs one trial with a bound on the trial as a whole. The trials call the socket API of real nodes
// in-process (ListenPacket, WriteTo, Close, Ping, DialContext); a node whose notice delivery or listener registry is
// deadlocked never returns from such a call, and no per-call context can end it. A trial that has not finished after
// 5 minutes (ordinary trials take seconds) while this process was not starved is reported: a sender stuck in
// WriteTo / ListenPacket can be told nothing. The stuck goroutines are left behind.
func c16Bounded(run *ev.Run, what string, f func()) {
	startLagProbe()
	t0 := time.Now()
	done := make(chan struct{})
	go func() { defer close(done); f() }()
	select {
	case <-done:
	case <-time.After(5 * time.Minute):
		if st, mx, tot := starved(t0); st {
			run.Inconclusive(fmt.Sprintf("C16 %s did not finish within 5 minutes, but this process was starved (largest scheduling delay %v, %v in total)", what, mx.Round(time.Millisecond), tot.Round(time.Millisecond)))
			return
		}
		dir := filepath.Join(ev.Root(), ".work", "replay")
		_ = os.MkdirAll(dir, 0o755)
		path := filepath.Join(dir, fmt.Sprintf("C16-stuck-goroutines-seed%d.txt", run.Seed))
		if fh, err := os.Create(path); err == nil {
			_ = pprof.Lookup("goroutine").WriteTo(fh, 2)
			fh.Close()
		}
		run.Violation("wedged:socket-call-never-returns", fmt.Sprintf("%s: calls of the node's socket API (ListenPacket / WriteTo / Close / Ping) made by this trial had not returned after 5 minutes (ordinary trials take seconds, this process was not starved): the node's notice delivery is blocked, a sender can neither be notified nor even open a socket; goroutines in %s", what, path), nil)
	}
}
