package main

import (
	"context"
	"encoding/binary"
	"fmt"
	"math/rand"
	"reflect"
	"sort"
	"strings"
	"sync"
	"sync/atomic"
	"time"

	"verif/harness/internal/ev"
	"verif/harness/internal/memnet"
	"verif/harness/internal/mesh"
	"verif/harness/internal/wire"

	"github.com/ansible/receptor/pkg/netceptor"
)

// C10 — hop limit bounds forwarding; expiry is reported.
//
// Counting convention (derived from forwardMessage / handleMessageData): the origin's own
// transmission goes through forwardMessage too, which first tests the budget (<= 0 => expired,
// notice to the source) and then decrements it. Hence a datagram sent with budget h crosses at most
// h links in total; on its k-th link it carries TTL byte h-k; a destination d links away along the
// nodes' current tables is reached iff d <= h; otherwise the node at distance h along that walk
// (the origin itself for h = 0) sends 'message expired' to the source socket. Ping(h) therefore
// returns (target, nil) iff d <= h and (node at distance h, "message expired") otherwise, and
// Traceroute lists [self, hop 1, ..., target].

func init() { register("C10", runC10) }

const c10Magic = "C10"

type c10Trav struct {
	Ev   uint64 `json:"ev"`
	From string `json:"from"`
	To   string `json:"to"`
	TTL  byte   `json:"ttl"`
}

// c10Obs is the per-mesh observer fed by the memnet tap and by scripted peers.
type c10Obs struct {
	evc     atomic.Uint64
	mu      sync.Mutex
	data    map[uint64][]c10Trav // datagram id -> link traversals by real nodes
	pings   map[string][]c10Trav // hash/service of a ping request -> traversals
	pingSeq []string
	unreach []vUnreachTap
	nTrav   int64
	back    []c10Back // answers (ping replies, notices) handed to a node by a link
}

// c10Back is an answer packet (ping reply or notice) handed to node At by a link.
type c10Back struct {
	T    float64 `json:"t_s"` // memnet clock
	Kind string  `json:"kind"`
	At   string  `json:"handed_to"`
	Dest string  `json:"addressed_to_hash"`
	Svc  string  `json:"about_service"` // the pinging socket's ephemeral service
}

func newC10Obs() *c10Obs {
	return &c10Obs{data: map[uint64][]c10Trav{}, pings: map[string][]c10Trav{}}
}

func c10Payload(id uint64) []byte {
	b := make([]byte, 11)
	copy(b, c10Magic)
	binary.BigEndian.PutUint64(b[3:], id)
	return b
}

func c10ID(p []byte) (uint64, bool) {
	if len(p) < 11 || string(p[:3]) != c10Magic {
		return 0, false
	}
	return binary.BigEndian.Uint64(p[3:11]), true
}

// see records one datagram handed by a real node `from` towards `to` (a link or a scripted session).
func (o *c10Obs) see(dir, from, to string, raw []byte, e memnet.TapEvent) {
	if (dir != "send" && dir != "recv") || len(raw) == 0 || raw[0] != wire.TData {
		return
	}
	d, err := wire.DecodeData(raw)
	if err != nil {
		return
	}
	if dir == "recv" {
		// diagnostics only: which answers were handed to which node, and when
		b := c10Back{T: e.T.Seconds(), At: to, Dest: fmt.Sprintf("%016x", d.ToHash)}
		switch {
		case d.FromService == "ping":
			b.Kind, b.Svc = "ping-reply", d.ToService
		case d.FromService == "unreach":
			u := decodeUnreachTap(e, d, 0)
			b.Kind, b.Svc = "notice:"+u.Msg.Problem, u.Msg.FromService
		default:
			return
		}
		o.mu.Lock()
		o.back = append(o.back, b)
		o.mu.Unlock()
		return
	}
	evn := o.evc.Add(1)
	o.mu.Lock()
	defer o.mu.Unlock()
	switch {
	case d.FromService == "unreach":
		o.unreach = append(o.unreach, decodeUnreachTap(memnet.TapEvent{Dir: dir, From: from, To: to}, d, evn))
	case d.ToService == "ping":
		k := fmt.Sprintf("%016x/%s", d.FromHash, d.FromService)
		if _, ok := o.pings[k]; !ok {
			o.pingSeq = append(o.pingSeq, k)
		}
		o.pings[k] = append(o.pings[k], c10Trav{evn, from, to, d.TTL})
		o.nTrav++
	default:
		if id, ok := c10ID(d.Payload); ok {
			o.data[id] = append(o.data[id], c10Trav{evn, from, to, d.TTL})
			o.nTrav++
		}
	}
	_ = e
}

func (o *c10Obs) tap(e memnet.TapEvent) { o.see(e.Dir, e.From, e.To, e.Data, e) }

func (o *c10Obs) trav(id uint64) []c10Trav {
	o.mu.Lock()
	defer o.mu.Unlock()
	return append([]c10Trav(nil), o.data[id]...)
}

// newPings returns the ping-request keys of source hash h first seen at index >= from.
func (o *c10Obs) newPings(h uint64, from int) (map[string][]c10Trav, int) {
	o.mu.Lock()
	defer o.mu.Unlock()
	out := map[string][]c10Trav{}
	pre := fmt.Sprintf("%016x/", h)
	for _, k := range o.pingSeq[from:] {
		if strings.HasPrefix(k, pre) {
			out[k] = append([]c10Trav(nil), o.pings[k]...)
		}
	}
	return out, len(o.pingSeq)
}

// ---------------------------------------------------------------- case records

type c10Case struct {
	ID     uint64   `json:"id"`
	Op     string   `json:"op"` // send | ping | traceroute
	Loop   string   `json:"loop"`
	Src    string   `json:"src"`
	Dst    string   `json:"dst"`
	H      int      `json:"budget"`
	D      int      `json:"route_len"` // links on the walk of the current tables (-1: never arrives)
	Walk   []string `json:"table_walk,omitempty"`
	ExpAt  string   `json:"expected_expiry_node,omitempty"`
	Result string   `json:"result,omitempty"`
}

type c10Viol struct {
	key, what string
	walkDep   bool
	wit       any
}

// c10Trial is the shared state of one mesh.
type c10Trial struct {
	run   *ev.Run
	name  string
	m     *mesh.Mesh
	obs   *c10Obs
	nodes []string
	tabs  vTables
	snd   map[string]*c10Sender
	rcv   map[string]*vSock
	raw   map[string]*vRaw
	gotMu sync.Mutex
	got   map[uint64]string // id -> node whose receiver got it
	idc   atomic.Uint64
	vmu   sync.Mutex
	viols []c10Viol
	cases []*c10Case
	stop  atomic.Bool
	loop  string
}

// c10Sender is the sending socket of one source node. Notices do not carry a datagram id, so they
// are attributed to the (single) datagram in flight on that socket; whenever a case did not end
// cleanly the socket is replaced by a fresh one (new service name), so that a late notice of the
// undecided datagram can never be taken for the next datagram's.
type c10Sender struct {
	sock *vSock // used by the source's worker only
	old  []*vSock
	gen  int
	idx  int
}

func (t *c10Trial) renewSender(src string) {
	sd := t.snd[src]
	sd.gen++
	s, err := openSock(t.m.Node(src).Inst(), &t.obs.evc, src, fmt.Sprintf("s%d-%d", sd.idx, sd.gen), false, nil)
	if err != nil {
		return
	}
	sd.old = append(sd.old, sd.sock)
	sd.sock = s
}

func (t *c10Trial) violate(key, what string, walkDep bool, wit any) {
	t.vmu.Lock()
	t.viols = append(t.viols, c10Viol{key, what, walkDep, wit})
	n := len(t.viols)
	t.vmu.Unlock()
	if n >= 6 {
		t.stop.Store(true) // enough witnesses; do not burn time on (slow) failing cases
	}
}

func (t *c10Trial) delivered(id uint64) (string, bool) {
	t.gotMu.Lock()
	defer t.gotMu.Unlock()
	n, ok := t.got[id]
	return n, ok
}

func (t *c10Trial) openSockets() error {
	t.snd, t.rcv, t.raw = map[string]*c10Sender{}, map[string]*vSock{}, map[string]*vRaw{}
	t.got = map[uint64]string{}
	for i, n := range t.nodes {
		inst := t.m.Node(n).Inst()
		s, err := openSock(inst, &t.obs.evc, n, fmt.Sprintf("s%d", i), false, nil)
		if err != nil {
			return err
		}
		node := n
		r, err := openSock(inst, &t.obs.evc, n, fmt.Sprintf("r%d", i), true, func(p []byte) {
			if id, ok := c10ID(p); ok {
				t.gotMu.Lock()
				if _, dup := t.got[id]; !dup {
					t.got[id] = node
				}
				t.gotMu.Unlock()
			}
		})
		if err != nil {
			return err
		}
		t.snd[n], t.rcv[n] = &c10Sender{sock: s, idx: i}, r
		t.raw[n] = openRaw(inst, &t.obs.evc, n)
	}
	return nil
}

func c10Rel(h, d int) string {
	switch {
	case h < d:
		return "<"
	case h == d:
		return "="
	}
	return ">"
}

// checkTrav judges the two always-judged rules on one packet's traversal list.
func (t *c10Trial) checkTrav(c *c10Case, tr []c10Trav, what string) {
	if len(tr) > c.H {
		t.violate("over-budget", fmt.Sprintf("%s: %s %s->%s budget %d crossed %d links (loop=%s)", t.name, what, c.Src, c.Dst, c.H, len(tr), c.Loop), false,
			map[string]any{"case": c, "traversals": tr})
	}
	for k, x := range tr {
		if k+1 > c.H {
			break
		}
		if int(x.TTL) != c.H-(k+1) {
			t.violate("ttl-not-decremented", fmt.Sprintf("%s: %s %s->%s budget %d: traversal %d (%s->%s) carries TTL %d, expected %d", t.name, what, c.Src, c.Dst, c.H, k+1, x.From, x.To, x.TTL, c.H-(k+1)), false,
				map[string]any{"case": c, "traversals": tr})
			break
		}
	}
}

// expiry prediction: where a packet from src towards dst with budget h stops.
// reflect maps a scripted peer to the real node it hands packets (unchanged) back to.
func c10Predict(tabs vTables, reflectTo map[string]string, src, dst string, h int) (deliver bool, at string, ok bool) {
	cur, ttl := src, h
	for steps := 0; steps < 600; steps++ {
		if cur == dst {
			return true, cur, true
		}
		if ttl <= 0 {
			return false, cur, true
		}
		nx, has := tabs[cur][dst]
		if !has {
			return false, "", false
		}
		ttl--
		if back, scripted := reflectTo[nx]; scripted {
			cur = back
		} else {
			cur = nx
		}
	}
	return false, "", false
}

// sendCase sends one datagram and judges it. dstSvc is the addressed service.
func (t *c10Trial) sendCase(src, dst, dstSvc string, h int, walk []string, reflectTo map[string]string, fenceTo string) {
	if t.stop.Load() {
		return
	}
	c := &c10Case{ID: t.idc.Add(1), Op: "send", Loop: t.loop, Src: src, Dst: dst, H: h, D: len(walk) - 1, Walk: walk}
	inst := t.m.Node(src).Inst()
	willDeliver, at, okp := c10Predict(t.tabs, reflectTo, src, dst, h)
	if !okp {
		t.run.Inconclusive(fmt.Sprintf("%s: no table walk %s->%s", t.name, src, dst))
		return
	}
	if !willDeliver {
		c.ExpAt = at
	}
	snd := t.snd[src].sock
	nv0 := t.nViol()
	clean := false
	defer func() {
		if !clean || t.nViol() != nv0 {
			t.renewSender(src)
		}
	}()
	n0 := snd.NNotices()
	snd.pc.SetHopsToLive(byte(h))
	_, err := snd.pc.WriteTo(c10Payload(c.ID), inst.NewAddr(dst, dstSvc))
	t.run.Eval(1)
	t.run.Count("datagrams", 1)
	if err != nil {
		t.run.Inconclusive(fmt.Sprintf("%s: WriteTo %s->%s failed: %v", t.name, src, dst, err))
		return
	}
	cond := func() bool {
		if _, ok := t.delivered(c.ID); ok {
			return true
		}
		if snd.NNotices() > n0 {
			return true
		}
		// a packet that already crossed more links than its budget is decided (and may go on forever)
		t.obs.mu.Lock()
		over := len(t.obs.data[c.ID]) > h
		t.obs.mu.Unlock()
		return over
	}
	progress := func() int64 {
		t.obs.mu.Lock()
		defer t.obs.mu.Unlock()
		return int64(len(t.obs.data[c.ID]) + len(t.obs.unreach))
	}
	_, conclusive := waitOutcome(cond, progress, func() bool { return fencePing(inst, fenceTo) })
	if !conclusive {
		t.run.Inconclusive(fmt.Sprintf("%s: fence %s->%s failed", t.name, src, fenceTo))
		return
	}
	_, got := t.delivered(c.ID)
	all := snd.Notices()
	notes := all[n0:]
	tr := t.obs.trav(c.ID)
	t.checkTrav(c, tr, "datagram")
	wit := func() map[string]any {
		return map[string]any{"case": c, "traversals": tr, "notices_on_sender_socket": notes, "delivered": got, "tables": t.tabs}
	}
	if willDeliver {
		c.Result = "delivered"
		if !got {
			c.Result = "lost"
			t.violate("reach-mismatch:not-delivered-within-budget", fmt.Sprintf("%s: datagram %s->%s budget %d, route %d links: not delivered (crossed %d links)", t.name, src, dst, h, c.D, len(tr)), true, wit())
		}
		if len(notes) > 0 {
			t.violate("expiry-notice:spurious", fmt.Sprintf("%s: datagram %s->%s budget %d >= route %d: sender got %q from %s", t.name, src, dst, h, c.D, notes[0].Problem, notes[0].ReceivedFromNode), true, wit())
		}
	} else {
		c.Result = "expired"
		if got {
			c.Result = "delivered"
			t.violate("reach-mismatch:delivered-beyond-budget", fmt.Sprintf("%s: datagram %s->%s budget %d < route %d links was delivered", t.name, src, dst, h, c.D), true, wit())
		}
		switch {
		case len(notes) == 0:
			t.violate("expiry-notice:missing", fmt.Sprintf("%s: datagram %s->%s budget %d (route %d, loop=%s): sender socket got no 'message expired' (expected from %s)", t.name, src, dst, h, c.D, c.Loop, at), true, wit())
		default:
			n := notes[0]
			if n.Problem != "message expired" || n.FromNode != src || n.FromService != snd.Name || n.ToNode != dst || n.ToService != dstSvc {
				t.violate("expiry-notice:wrong-fields", fmt.Sprintf("%s: datagram %s:%s->%s:%s budget %d: notice %+v", t.name, src, snd.Name, dst, dstSvc, h, n.UnreachableMessage), true, wit())
			} else if n.ReceivedFromNode != at {
				t.violate("expiry-notice:wrong-node", fmt.Sprintf("%s: datagram %s->%s budget %d (route %d, loop=%s): 'message expired' came from %s, the budget ran out at %s", t.name, src, dst, h, c.D, c.Loop, n.ReceivedFromNode, at), true, wit())
			}
			if len(notes) > 1 {
				t.run.Count("extra_notices", int64(len(notes)-1))
			}
		}
	}
	clean = true
	t.record(c)
}

func (t *c10Trial) nViol() int { t.vmu.Lock(); defer t.vmu.Unlock(); return len(t.viols) }

func (t *c10Trial) record(c *c10Case) {
	t.vmu.Lock()
	t.cases = append(t.cases, c)
	t.vmu.Unlock()
	if c.Loop != "none" {
		t.run.Distinct(fmt.Sprintf("loop:%s|entry%d|%s", c.Loop, c.D, c10Rel(c.H, c.D)))
	} else if c.D >= 2 {
		t.run.Distinct(fmt.Sprintf("d%d|%s|none", c.D, c10Rel(c.H, c.D)))
	}
	t.run.SetAdd("classes_by_op", fmt.Sprintf("%s|%s|d%d|%s", c.Op, c.Loop, c.D, c10Rel(c.H, c.D)))
}

// pingCase runs Ping(h) and judges the answer and the request's traversals.
func (t *c10Trial) pingCase(src, dst string, h int, walk []string, reflectTo map[string]string, fenceTo string, pingIdx *int) {
	if t.stop.Load() {
		return
	}
	c := &c10Case{ID: t.idc.Add(1), Op: "ping", Loop: t.loop, Src: src, Dst: dst, H: h, D: len(walk) - 1, Walk: walk}
	inst := t.m.Node(src).Inst()
	willDeliver, at, okp := c10Predict(t.tabs, reflectTo, src, dst, h)
	if !okp {
		return
	}
	if !willDeliver {
		c.ExpAt = at
	}
	// forget requests of earlier pings (fences) of this source
	_, *pingIdx = t.obs.newPings(wire.Hash(src), *pingIdx)
	t0 := t.m.Net.Now()
	ctx, cancel := context.WithTimeout(context.Background(), 30*time.Second)
	_, remote, err := inst.Ping(ctx, dst, byte(h))
	cancel()
	t1 := t.m.Net.Now()
	t.run.Eval(1)
	t.run.Count("pings", 1)
	if t1-t0 > time.Second {
		t.run.Count("pings_slower_than_1s", 1)
	}
	reqs, nidx := t.obs.newPings(wire.Hash(src), *pingIdx)
	*pingIdx = nidx
	for _, tr := range reqs {
		t.checkTrav(c, tr, "ping request")
	}
	es := ""
	if err != nil {
		es = err.Error()
	}
	c.Result = fmt.Sprintf("remote=%q err=%q", remote, es)
	wit := map[string]any{"case": c, "request_traversals": reqs, "tables": t.tabs, "ping_started_s": t0.Seconds(), "ping_returned_s": t1.Seconds()}
	if es == "timeout" || es == "user cancelled" {
		answers := []c10Back{}
		t.obs.mu.Lock()
		for _, b := range t.obs.back {
			for k := range reqs {
				if strings.HasSuffix(k, "/"+b.Svc) {
					answers = append(answers, b)
				}
			}
		}
		t.obs.mu.Unlock()
		wit["answers_on_links"] = answers
		// Ping's own 10 s limit is wall-clock: a timeout is a verdict only if no answer packet was
		// ever handed to the pinging node (loss-free links), judged after the path went quiet and fenced.
		svcOf := func() map[string]bool {
			m := map[string]bool{}
			for k := range reqs {
				m[k[strings.Index(k, "/")+1:]] = true
			}
			return m
		}()
		arrived := func() bool {
			t.obs.mu.Lock()
			defer t.obs.mu.Unlock()
			for _, b := range t.obs.back {
				if b.At == src && svcOf[b.Svc] {
					return true
				}
			}
			return false
		}
		nback := func() int64 { t.obs.mu.Lock(); defer t.obs.mu.Unlock(); return int64(len(t.obs.back)) }
		got, conclusive := waitOutcome(arrived, nback, func() bool { return fencePing(inst, fenceTo) })
		switch {
		case got:
			t.run.Count("pings_answered_after_pings_own_10s_limit", 1)
			t.run.Inconclusive(fmt.Sprintf("%s: Ping(%s->%s,%d) gave up after its own 10 s limit but the answer did arrive later (slow machine)", t.name, src, dst, h))
		case !conclusive:
			t.run.Inconclusive(fmt.Sprintf("%s: ping %s->%s timed out and so did the fence", t.name, src, dst))
		default:
			t.violate("ping:no-answer", fmt.Sprintf("%s: Ping(%s->%s, budget %d) route %d links: %s, and no reply or notice was ever handed to %s although the path answers a full-budget ping", t.name, src, dst, h, c.D, es, src), true, wit)
		}
		t.record(c)
		return
	}
	if willDeliver {
		if err != nil || remote != dst {
			t.violate("ping:wrong-node", fmt.Sprintf("%s: Ping(%s->%s, budget %d) route %d links: expected the far end, got remote=%q err=%q", t.name, src, dst, h, c.D, remote, es), true, wit)
		}
	} else {
		if es != "message expired" || remote != at {
			t.violate("ping:wrong-node", fmt.Sprintf("%s: Ping(%s->%s, budget %d) route %d links (loop=%s): expected 'message expired' from %s, got remote=%q err=%q", t.name, src, dst, h, c.D, c.Loop, at, remote, es), true, wit)
		}
	}
	t.record(c)
}

func (t *c10Trial) tracerouteCase(src, dst string, walk []string) {
	if t.stop.Load() {
		return
	}
	c := &c10Case{ID: t.idc.Add(1), Op: "traceroute", Loop: "none", Src: src, Dst: dst, H: len(walk) - 1, D: len(walk) - 1, Walk: walk}
	inst := t.m.Node(src).Inst()
	var got, errs []string
	for attempt := 0; attempt < 3; attempt++ {
		ctx, cancel := context.WithTimeout(context.Background(), 120*time.Second)
		got, errs = []string{}, []string{}
		for r := range inst.Traceroute(ctx, dst) {
			got = append(got, r.From)
			if r.Err != nil {
				errs = append(errs, r.Err.Error())
			}
		}
		cancel()
		slow := false
		for _, e := range errs {
			if e == "timeout" || e == "user cancelled" {
				slow = true // Ping's own 10 s wall-clock limit: not a verdict, try again
			}
		}
		if !slow {
			break
		}
		if attempt == 2 {
			t.run.Eval(1)
			t.run.Inconclusive(fmt.Sprintf("%s: traceroute %s->%s ran into Ping's own 10 s limit three times", t.name, src, dst))
			return
		}
	}
	t.run.Eval(1)
	t.run.Count("traceroutes", 1)
	c.Result = strings.Join(got, ">")
	topo := t.m.Topo()
	dist := topo.Dist()
	bad := ""
	if len(errs) > 0 {
		bad = "errors " + strings.Join(errs, ",")
	} else if !reflect.DeepEqual(got, walk) {
		bad = fmt.Sprintf("listed %v, the tables' walk is %v", got, walk)
	} else {
		for i := 0; i+1 < len(got); i++ {
			adm := false
			for _, a := range topo.NextHops(dist, got[i], dst) {
				if a == got[i+1] {
					adm = true
				}
			}
			if !adm {
				bad = fmt.Sprintf("step %s->%s is not on a least-cost path to %s (%v)", got[i], got[i+1], dst, got)
			}
		}
	}
	if bad != "" {
		t.violate("traceroute:path", fmt.Sprintf("%s: Traceroute(%s->%s): %s", t.name, src, dst, bad), true,
			map[string]any{"case": c, "listed": got, "errors": errs, "tables": t.tabs, "links": topo.Adj})
	}
	t.record(c)
}

// finalSweep re-judges every datagram after the traffic stopped (late traversals, late deliveries,
// notices that went to the wrong node or the wrong socket). Returns the per-id counts.
func (t *c10Trial) finalSweep() {
	settleRounds()
	count := func() int64 { t.obs.mu.Lock(); defer t.obs.mu.Unlock(); return t.obs.nTrav }
	// the flow must stop: the traversal total must be stable across settle rounds
	prev := count()
	stable := false
	for i := 0; i < 300; i++ { // a flow that has not stopped after 300 further looks never will
		settleRounds()
		cur := count()
		if cur == prev {
			stable = true
			break
		}
		prev = cur
	}
	t.vmu.Lock()
	cases := append([]*c10Case(nil), t.cases...)
	t.vmu.Unlock()
	for _, c := range cases {
		if c.Op != "send" {
			continue
		}
		tr := t.obs.trav(c.ID)
		if len(tr) > c.H {
			t.checkTrav(c, tr, "datagram (final sweep)")
		}
		if _, got := t.delivered(c.ID); got && c.Result == "expired" {
			t.violate("reach-mismatch:delivered-beyond-budget", fmt.Sprintf("%s: datagram %s->%s budget %d < route %d links was delivered (late)", t.name, c.Src, c.Dst, c.H, c.D), true, map[string]any{"case": c, "traversals": tr})
		}
	}
	if !stable {
		t.violate("over-budget", fmt.Sprintf("%s: packets are still being forwarded after all senders stopped (loop=%s)", t.name, t.loop), false, map[string]any{"traversals_total": prev})
	}
	// every 'unreach' packet on a link must be addressed to the node named as the original source
	t.obs.mu.Lock()
	un := append([]vUnreachTap(nil), t.obs.unreach...)
	t.obs.mu.Unlock()
	for _, u := range un {
		if u.OK && u.Dest != wire.Hash(u.Msg.FromNode) {
			t.violate("expiry-notice:wrong-recipient", fmt.Sprintf("%s: notice %q about %s:%s->%s:%s travels on link %s->%s addressed to another node than the source", t.name, u.Msg.Problem, u.Msg.FromNode, u.Msg.FromService, u.Msg.ToNode, u.Msg.ToService, u.From, u.To), false, u)
			break
		}
	}
	// notices handled by a node that is not the named source; notices on sockets that did not send
	for n, r := range t.raw {
		for _, x := range r.Got() {
			if x.FromNode != n {
				t.violate("expiry-notice:wrong-recipient", fmt.Sprintf("%s: node %s was handed a notice %q about a datagram of %s:%s", t.name, n, x.Problem, x.FromNode, x.FromService), false, x)
				break
			}
		}
	}
	for n, s := range t.rcv {
		if nn := s.Notices(); len(nn) > 0 {
			t.violate("expiry-notice:wrong-recipient", fmt.Sprintf("%s: socket %s:%s never sent anything but got notice %+v", t.name, n, s.Name, nn[0].UnreachableMessage), false, nn[0])
		}
	}
}

// flush turns the trial-local findings into run violations. When the tables moved during the
// trial the walk-dependent findings cannot be trusted and the trial is inconclusive instead.
func (t *c10Trial) flush(tablesMoved bool) {
	t.vmu.Lock()
	defer t.vmu.Unlock()
	dropped := 0
	for _, v := range t.viols {
		if v.walkDep && tablesMoved {
			dropped++
			continue
		}
		t.run.Violation(v.key, v.what, v.wit)
	}
	if dropped > 0 || tablesMoved {
		t.run.Inconclusive(fmt.Sprintf("%s: routing tables changed during the trial (%d walk-dependent findings not judged)", t.name, dropped))
	}
}

func (t *c10Trial) closeSockets() {
	for _, sd := range t.snd {
		_ = sd.sock.Close()
		for _, s := range sd.old {
			_ = s.Close()
		}
	}
	for _, s := range t.rcv {
		_ = s.Close()
	}
}

// ---------------------------------------------------------------- consistent meshes

type c10Spec struct {
	Trial      int    `json:"trial"`
	Topo       *vTopo `json:"topology"`
	AllBudgets bool   `json:"all_budgets"`
}

func c10Budgets(d int, all bool) []int {
	if all {
		out := make([]int, 256)
		for i := range out {
			out[i] = i
		}
		return out
	}
	set := map[int]bool{}
	for _, h := range []int{0, 1, 2, d - 1, d, d + 1, 30, 255} {
		if h >= 0 && h <= 255 {
			set[h] = true
		}
	}
	out := []int{}
	for h := range set {
		out = append(out, h)
	}
	sort.Ints(out)
	return out
}

func runC10Mesh(run *ev.Run, sp *c10Spec) {
	c := mesh.DefaultConsts()
	c.Idle = 30 * time.Second
	obs := newC10Obs()
	m, _ := buildMesh(sp.Topo, c, run.Seed*100000+int64(sp.Trial), obs.tap)
	defer m.Shutdown()
	t := &c10Trial{run: run, name: fmt.Sprintf("mesh %d (%s/%d)", sp.Trial, sp.Topo.Kind, len(sp.Topo.Nodes)), m: m, obs: obs, nodes: sp.Topo.Nodes, loop: "none"}
	tabs, ok := waitSettled(m, 60*time.Second)
	if !ok {
		run.Eval(1)
		_, why := meshSettledWhy(m)
		run.Inconclusive(t.name + ": mesh did not settle before the watchdog: " + why)
		return
	}
	t.tabs = tabs
	if err := t.openSockets(); err != nil {
		run.Eval(1)
		run.Inconclusive(t.name + ": " + err.Error())
		return
	}
	defer t.closeSockets()
	var wg sync.WaitGroup
	for _, src := range t.nodes {
		wg.Add(1)
		go func(src string) {
			defer wg.Done()
			pingIdx := 0
			for _, dst := range t.nodes {
				walk := tableWalk(t.tabs, src, dst, len(t.nodes))
				if walk == nil {
					run.Inconclusive(fmt.Sprintf("%s: no walk %s->%s", t.name, src, dst))
					continue
				}
				d := len(walk) - 1
				budgets := c10Budgets(d, sp.AllBudgets)
				if d == 0 {
					budgets = []int{0, 1, 255}
				}
				for _, h := range budgets {
					t.sendCase(src, dst, t.rcv[dst].Name, h, walk, nil, dst)
				}
				for _, h := range c10Budgets(d, false) {
					if h == 255 && d > 1 {
						continue
					}
					t.pingCase(src, dst, h, walk, nil, dst, &pingIdx)
				}
				t.tracerouteCase(src, dst, walk)
			}
		}(src)
	}
	wg.Wait()
	t.finalSweep()
	after, still := meshSettled(m)
	moved := !still || !reflect.DeepEqual(after, t.tabs)
	t.flush(moved)
	run.Count("traversals_observed", obs.nTrav)
	run.Count("meshes", 1)
	run.SetAdd("topology_kinds", fmt.Sprintf("%s/%d", sp.Topo.Kind, len(sp.Topo.Nodes)))
	if sp.Trial < 2 {
		t.vmu.Lock()
		n := len(t.cases)
		if n > 6 {
			n = 6
		}
		run.Sample(map[string]any{"spec": sp, "tables": t.tabs, "first_cases": t.cases[:n]})
		t.vmu.Unlock()
	}
}

// ---------------------------------------------------------------- forwarding loops

type c10LoopSpec struct {
	Trial      int      `json:"trial"`
	Kind       string   `json:"kind"` // reflect2 | reflect3 | micro
	Extra      []string `json:"extra_attach"`
	AllBudgets bool     `json:"all_budgets"`
	DelayMs    int      `json:"ctl_delay_ms"`
	Ring       int      `json:"ring"`
}

// attachScripted adds a scripted session named name to host and completes the handshake.
// onSend (may be nil) is installed before the node can write to the session.
func attachScripted(inst *netceptor.Netceptor, name, host, tag string, onSend func([]byte)) (*memnet.Scripted, error) {
	s := memnet.NewScripted(name)
	s.OnSend = onSend
	if err := inst.AddBackend(memnet.NewOneShot(s)); err != nil {
		return nil, err
	}
	hs := &wire.Route{NodeID: name, UpdateID: tag + "-" + name + "-1", UpdateEpoch: 5, UpdateSequence: 1, Connections: map[string]float64{host: 1}, ForwardingNode: name}
	if !s.Deliver(wire.EncodeRoute(hs), 10*time.Second) || !s.Barrier(10*time.Second) {
		return nil, fmt.Errorf("scripted handshake %s->%s not taken", name, host)
	}
	return s, nil
}

func runC10Reflect(run *ev.Run, sp *c10LoopSpec) {
	c := mesh.DefaultConsts()
	c.Idle = 120 * time.Second
	obs := newC10Obs()
	topo := &vTopo{Kind: sp.Kind, Nodes: []string{"A"}}
	host := "A"
	if sp.Kind == "reflect3" {
		topo.Nodes = append(topo.Nodes, "B")
		topo.Links = append(topo.Links, vLink{"A", "B", 1})
		host = "B"
	}
	for i, at := range sp.Extra {
		n := fmt.Sprintf("E%d", i)
		topo.Nodes = append(topo.Nodes, n)
		topo.Links = append(topo.Links, vLink{n, at, 1})
	}
	m, _ := buildMesh(topo, c, run.Seed*100000+5000+int64(sp.Trial), obs.tap)
	defer m.Shutdown()
	t := &c10Trial{run: run, name: fmt.Sprintf("loop %d (%s, extra %v)", sp.Trial, sp.Kind, sp.Extra), m: m, obs: obs, nodes: topo.Nodes, loop: sp.Kind}
	if len(topo.Nodes) > 1 {
		if _, ok := waitSettled(m, 60*time.Second); !ok {
			run.Eval(1)
			run.Inconclusive(t.name + ": real part did not settle")
			return
		}
	}
	tag := fmt.Sprintf("c10-%d-%d", run.Seed, sp.Trial)
	zh := wire.Hash("Z")
	q := make(chan []byte, 4096)
	done := make(chan struct{})
	defer close(done)
	x, err := attachScripted(m.Node(host).Inst(), "X", host, tag, func(b []byte) {
		obs.see("send", host, "X", b, memnet.TapEvent{})
		if len(b) >= 36 && b[0] == wire.TData {
			if d, err := wire.DecodeData(b); err == nil && d.ToHash == zh {
				select {
				case q <- b: // handed back unchanged, TTL untouched
				default:
				}
			}
		}
	})
	if err != nil {
		run.Eval(1)
		run.Inconclusive(t.name + ": " + err.Error())
		return
	}
	back := x // session that hands reflected packets back to a real node
	if sp.Kind == "reflect3" {
		y, err := attachScripted(m.Node("A").Inst(), "Y", "A", tag, func(b []byte) { obs.see("send", "A", "Y", b, memnet.TapEvent{}) })
		if err != nil {
			run.Eval(1)
			run.Inconclusive(t.name + ": " + err.Error())
			return
		}
		back = y
	}
	go func() {
		for {
			select {
			case b := <-q:
				back.Deliver(b, 10*time.Second)
			case <-done:
				return
			}
		}
	}()
	// keep-alive: a session that never hands anything to its node is dropped by the node's idle timer
	// (X on B only ever receives); an ignored type byte counts as traffic
	go func() {
		for {
			select {
			case <-time.After(3 * time.Second):
				x.Deliver([]byte{memnet.BarrierByte}, 2*time.Second)
				if back != x {
					back.Deliver([]byte{memnet.BarrierByte}, 2*time.Second)
				}
			case <-done:
				return
			}
		}
	}()
	// X advertises the phantom Z behind itself; Z's own update arrives through X
	x.Deliver(wire.EncodeRoute(&wire.Route{NodeID: "X", UpdateID: tag + "-X-2", UpdateEpoch: 5, UpdateSequence: 2, Connections: map[string]float64{host: 1, "Z": 1}, ForwardingNode: "X"}), 10*time.Second)
	x.Deliver(wire.EncodeRoute(&wire.Route{NodeID: "Z", UpdateID: tag + "-Z-1", UpdateEpoch: 5, UpdateSequence: 1, Connections: map[string]float64{"X": 1}, ForwardingNode: "X"}), 10*time.Second)
	x.Barrier(10 * time.Second)
	reflectTo := map[string]string{"X": "A"}
	// wait until every real node forwards Z towards the loop and the tables stopped moving
	var tabs vTables
	deadline := time.Now().Add(60 * time.Second)
	same := 0
	for time.Now().Before(deadline) {
		cur := meshTables(m, topo.Nodes)
		good := true
		for _, n := range topo.Nodes {
			st := m.Node(n).Inst().Status()
			if !reflect.DeepEqual(st.KnownConnectionCosts["X"], map[string]float64{host: 1, "Z": 1}) || !reflect.DeepEqual(st.KnownConnectionCosts["Z"], map[string]float64{"X": 1}) {
				good = false
			}
			if _, _, ok := c10Predict(cur, reflectTo, n, "Z", 3); !ok {
				good = false
			}
		}
		if cur[host]["Z"] != "X" || (sp.Kind == "reflect3" && cur["A"]["Z"] != "B") {
			good = false
		}
		if good && tabs != nil && reflect.DeepEqual(cur, tabs) {
			same++
			if same >= 3 {
				break
			}
		} else {
			same = 0
		}
		if good {
			tabs = cur
		} else {
			tabs = nil
		}
		time.Sleep(120 * time.Millisecond)
	}
	if same < 3 {
		run.Eval(1)
		run.Inconclusive(t.name + ": phantom route did not settle")
		return
	}
	t.tabs = tabs
	if err := t.openSockets(); err != nil {
		run.Eval(1)
		run.Inconclusive(t.name + ": " + err.Error())
		return
	}
	defer t.closeSockets()
	budgets := []int{0, 1, 2, 3, 4, 5, 6, 9, 30, 255}
	if sp.AllBudgets {
		budgets = c10Budgets(0, true)
	}
	var wg sync.WaitGroup
	for _, src := range t.nodes {
		wg.Add(1)
		go func(src string) {
			defer wg.Done()
			pingIdx := 0
			// distance to the loop's first node (the walk to the scripted hop)
			entry := 0
			for cur := src; cur != host && entry < 10; entry++ {
				cur = t.tabs[cur]["Z"]
			}
			if sp.Kind == "reflect3" {
				// the loop is entered at A or B, whichever comes first
				e2 := 0
				for cur := src; cur != "A" && cur != "B" && e2 < 10; e2++ {
					cur = t.tabs[cur]["Z"]
				}
				entry = e2
			}
			// walk up to the loop's first node; its length is the "distance to the loop"
			walk := []string{src}
			for cur := src; len(walk) < entry+1; {
				cur = t.tabs[cur]["Z"]
				walk = append(walk, cur)
			}
			for _, h := range budgets {
				t.sendCase(src, "Z", "zz", h, walk, reflectTo, host)
			}
			for _, h := range []int{0, 1, 2, 3, 4, 7, 30} {
				t.pingCase(src, "Z", h, walk, reflectTo, host, &pingIdx)
			}
		}(src)
	}
	wg.Wait()
	t.finalSweep()
	after := meshTables(m, topo.Nodes)
	t.flush(!reflect.DeepEqual(after, t.tabs))
	// was the loop really exercised: some datagram crossed the reflecting hop more than once
	looped := 0
	obs.mu.Lock()
	for _, tr := range obs.data {
		n := 0
		for _, x := range tr {
			if x.To == "X" {
				n++
			}
		}
		if n >= 2 {
			looped++
		}
	}
	obs.mu.Unlock()
	run.Count("loop_setups", 1)
	run.Count("loop_setups_"+sp.Kind, 1)
	run.Count("datagrams_that_looped", int64(looped))
	run.Count("traversals_observed", obs.nTrav)
	if looped == 0 {
		run.Inconclusive(t.name + ": no datagram went round the loop")
	}
	if sp.Trial < 2 {
		t.vmu.Lock()
		n := len(t.cases)
		if n > 5 {
			n = 5
		}
		run.Sample(map[string]any{"spec": sp, "tables": t.tabs, "first_cases": t.cases[:n]})
		t.vmu.Unlock()
	}
}

// runC10Micro: ring A-T(cut), A-B, B-C, C-[D-]T. After the cut A turns to B at once while the news
// reaches B only after the control-message delay on B's links, so A and B point at each other.
func runC10Micro(run *ev.Run, sp *c10LoopSpec) {
	c := mesh.DefaultConsts()
	c.Idle = 60 * time.Second
	obs := newC10Obs()
	topo := &vTopo{Kind: "micro", Nodes: []string{"A", "B", "C", "T"}}
	topo.Links = []vLink{{"A", "T", 1}, {"A", "B", 1}, {"B", "C", 1}}
	if sp.Ring == 5 {
		topo.Nodes = append(topo.Nodes, "D")
		topo.Links = append(topo.Links, vLink{"C", "D", 1}, vLink{"D", "T", 3})
	} else {
		topo.Links = append(topo.Links, vLink{"C", "T", 3})
	}
	senders := []string{"A", "B"}
	for i, at := range sp.Extra {
		n := fmt.Sprintf("E%d", i)
		topo.Nodes = append(topo.Nodes, n)
		topo.Links = append(topo.Links, vLink{n, at, 1})
		senders = append(senders, n)
	}
	m, links := buildMesh(topo, c, run.Seed*100000+9000+int64(sp.Trial), obs.tap)
	defer m.Shutdown()
	t := &c10Trial{run: run, name: fmt.Sprintf("loop %d (micro ring%d, extra %v)", sp.Trial, sp.Ring, sp.Extra), m: m, obs: obs, nodes: topo.Nodes, loop: "micro"}
	tabs, ok := waitSettled(m, 60*time.Second)
	if !ok {
		run.Eval(1)
		run.Inconclusive(t.name + ": mesh did not settle")
		return
	}
	t.tabs = tabs
	if tabs["B"]["T"] != "A" || tabs["A"]["T"] != "T" {
		run.Eval(1)
		run.Inconclusive(t.name + ": unexpected initial tables")
		return
	}
	if err := t.openSockets(); err != nil {
		run.Eval(1)
		run.Inconclusive(t.name + ": " + err.Error())
		return
	}
	defer t.closeSockets()
	delay := time.Duration(sp.DelayMs) * time.Millisecond
	for k, li := range links {
		if strings.Contains(k, "B") {
			li.L.SetPlan(memnet.Plan{CtlDelayMin: delay, CtlDelayMax: delay})
		}
	}
	links["A|T"].L.Down()
	// wait for A to turn towards B (bounded; otherwise nothing to observe)
	turned := false
	for i := 0; i < 600; i++ {
		if m.Node("A").Inst().Status().RoutingTable["T"] == "B" {
			turned = true
			break
		}
		time.Sleep(5 * time.Millisecond)
	}
	budgets := []int{1, 2, 3, 4, 5, 8, 30, 255}
	var mu sync.Mutex
	all := []*c10Case{}
	var wg sync.WaitGroup
	windowEnd := time.Now().Add(delay + 500*time.Millisecond)
	for _, src := range senders {
		wg.Add(1)
		go func(src string) {
			defer wg.Done()
			inst := m.Node(src).Inst()
			snd := t.snd[src].sock
			for round := 0; turned && time.Now().Before(windowEnd) && round < 40; round++ {
				for _, h := range budgets {
					cs := &c10Case{ID: t.idc.Add(1), Op: "send", Loop: "micro", Src: src, Dst: "T", H: h, D: -1}
					n0 := snd.NNotices()
					snd.pc.SetHopsToLive(byte(h))
					if _, err := snd.pc.WriteTo(c10Payload(cs.ID), inst.NewAddr("T", t.rcv["T"].Name)); err != nil {
						continue // no route at this instant: nothing was sent
					}
					run.Eval(1)
					run.Count("datagrams", 1)
					mu.Lock()
					all = append(all, cs)
					mu.Unlock()
					// pacing only: wait (bounded) for either outcome, nothing is judged on it
					for i := 0; i < 400; i++ {
						if _, ok := t.delivered(cs.ID); ok || snd.NNotices() > n0 {
							break
						}
						time.Sleep(500 * time.Microsecond)
					}
				}
			}
		}(src)
	}
	wg.Wait()
	for _, li := range links {
		li.L.SetPlan(memnet.Plan{})
	}
	time.Sleep(delay + 300*time.Millisecond)
	settleRounds()
	// only the two unconditional rules are judged inside the window
	looped := 0
	for _, cs := range all {
		tr := obs.trav(cs.ID)
		t.checkTrav(cs, tr, "datagram in micro-loop window")
		ab, ba := false, false
		for _, x := range tr {
			if x.From == "A" && x.To == "B" {
				ab = true
			}
			if x.From == "B" && x.To == "A" {
				ba = true
			}
		}
		if ab && ba {
			looped++
			run.Distinct(fmt.Sprintf("loop:micro|entry%d|%s", sp.Ring-1, c10Rel(cs.H, sp.Ring-1)))
		}
	}
	t.flush(false)
	run.Count("loop_setups", 1)
	run.Count("loop_setups_micro", 1)
	run.Count("datagrams_sent_into_micro_loop_window", int64(len(all)))
	run.Count("datagrams_that_bounced_in_micro_loop", int64(looped))
	run.Count("datagrams_that_looped", int64(looped))
	run.Count("traversals_observed", obs.nTrav)
	if looped == 0 {
		// the window closed before a datagram was sent into it: nothing observed, not a verdict
		run.Count("micro_loops_not_formed", 1)
	}
}

// ---------------------------------------------------------------- driver

func runC10(tier string, args []string) {
	run := ev.New("C10", tier, "exploration")
	run.Rule("Convention (from forwardMessage): a datagram with hop budget h crosses at most h links in total (the origin's own transmission counts; h=0 never leaves the origin, which reports the expiry itself); its k-th link traversal carries TTL byte h-k; a destination d links away along the walk of the nodes' current tables is reached iff d<=h, else the node at distance h on that walk sends 'message expired' to the sending socket and to nobody else; Ping(h) = (target,nil) iff d<=h else (node at distance h,'message expired'); Traceroute = [self, hop1, ..., target] with every step a least-cost next hop per the harness's Floyd-Warshall oracle. " +
		"Cases: seeded chains/rings/trees/random weighted graphs of 2-8 real nodes, after the tables settled (every node knows the full real adjacency; tables identical at 3 looks): every ordered pair x budgets {0,1,2,d-1,d,d+1,30,255} (thorough: all 0..255 on 10 meshes) as datagrams with a unique id in the payload counted on the memnet taps, the same pairs as Ping(h) and Traceroute. " +
		"Loops: (reflect2) a scripted peer X on real node A advertises phantom Z behind itself and hands every datagram for Z straight back unchanged: A<->X; (reflect3) X on B, a second scripted session Y on A re-injects what X received: A->B->X~Y->A; senders = every real node incl. 0-2 extra nodes attached outside the loop; real-node forwards (link taps + what the scripted peers receive) must be <= h with TTL h-k, the flow must stop, and the sender must get 'message expired' from the real node holding the packet when the budget ran out; (micro) ring with the A-T link cut while control messages on B's links are delayed, so A and B point at each other: only <= h and the TTL decrement are judged. " +
		"Extras: chains whose length equals the configured forwarding-hop maximum (ping and traceroute at the limit); raw datagrams injected by a scripted backend peer with every source service incl. the reserved ones, phantom/real sources and TTL bytes {0,1,2,3,255}: at most TTL further crossings, each one lower; forwarding conservation (a node only sends what it originated or received with TTL+1). " +
		"distinct_nontrivial = distinct (route length d or distance to the loop, relation of h to it (<,=,>), loop kind) with d>=2 or a loop, plus tight-limit chains and injected (source service, TTL relation) classes")
	run.Assume("expiry notices and reach are judged on loss-free links and only while the tables observed before and after the trial are identical; inside micro-loop windows only the <= h bound and the TTL decrement are judged")
	rng := rand.New(rand.NewSource(run.Seed*7919 + 10))
	nMesh := run.Pick(12, 150)
	nLoop := run.Pick(6, 60)
	kinds := []string{"chain", "ring", "tree", "random"}
	specs := []*c10Spec{}
	for i := 0; i < nMesh; i++ {
		n := 2 + rng.Intn(7)
		if i < 4 {
			n = 5 + rng.Intn(4) // make sure long routes exist in every run
		}
		kind := kinds[i%4]
		sp := &c10Spec{Trial: i, Topo: genTopo(rng, kind, n)}
		if !run.Quick() && i < 10 {
			sp.AllBudgets = true
		}
		specs = append(specs, sp)
	}
	loops := []*c10LoopSpec{}
	for i := 0; i < nLoop; i++ {
		sp := &c10LoopSpec{Trial: i, Kind: []string{"reflect2", "reflect3", "micro"}[i%3], Ring: 4 + rng.Intn(2), DelayMs: 1200 + rng.Intn(1500)}
		attach := []string{"A"}
		if sp.Kind == "reflect3" {
			attach = []string{"A", "B"}
		}
		if sp.Kind == "micro" {
			attach = []string{"A", "B"}
		}
		ne := rng.Intn(3)
		for k := 0; k < ne; k++ {
			at := attach[rng.Intn(len(attach))]
			if k == 1 && rng.Intn(2) == 0 {
				at = "E0"
			}
			sp.Extra = append(sp.Extra, at)
		}
		if !run.Quick() && i%10 < 2 && sp.Kind != "micro" {
			sp.AllBudgets = true
		}
		loops = append(loops, sp)
	}
	// replay helpers: --mesh N / --loop N run a single trial of the same deterministic list
	if len(args) >= 2 {
		var idx int
		fmt.Sscan(args[1], &idx)
		switch args[0] {
		case "--mesh":
			specs, loops = []*c10Spec{specs[idx]}, nil
		case "--loop":
			specs, loops = nil, []*c10LoopSpec{loops[idx]}
		}
	}
	sem := make(chan struct{}, run.Pick(16, 12))
	var wg sync.WaitGroup
	launch := func(f func()) {
		wg.Add(1)
		sem <- struct{}{}
		go func() {
			defer wg.Done()
			defer func() { <-sem }()
			f()
		}()
	}
	for _, sp := range specs {
		sp := sp
		launch(func() { runC10Mesh(run, sp) })
	}
	for _, sp := range loops {
		sp := sp
		launch(func() {
			if sp.Kind == "micro" {
				runC10Micro(run, sp)
			} else {
				runC10Reflect(run, sp)
			}
		})
	}
	wg.Wait()
	if len(args) < 2 {
		runC10Extra(run, rng)
	}
	collectRaces(run, workDir())
	run.Finish(run.Pick(14, 24))
}
