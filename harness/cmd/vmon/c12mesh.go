package main

import (
	"fmt"
	"math/rand"
	"sort"
	"strconv"
	"strings"
	"sync"
	"sync/atomic"
	"time"

	"verif/harness/internal/ev"
	"verif/harness/internal/mesh"

	"github.com/ansible/receptor/pkg/netceptor"
)

// C12 part B — three real nodes a-b-c; rules installed with AddFirewallRules; datagrams and
// pings observed at real sockets and compared with the reference decision evaluated at the
// origin, the transit node and the destination in path order.

var c12Chain = []string{"a", "b", "c"}
var c12Svcs = []string{"web", "web2", "db1", "xdb1", "Web", "abc", "a.c", "q"}

const c12Fence = "fence"

var c12FenceRule = c12RuleSpec{{K: "toservice", V: c12Fence}, {K: "action", V: "accept"}}

var c12MeshNodeVals = []string{"a", "b", "c", "a", "b", "c", "A", "d", "ab",
	"/[ab]/", "/[bc]/", "/a|c/", "/./", "/.*/", "/(?i)A/", "/(?i)[BC]/", "/a|b|c/", "/[^a]/", "/b?/", "/(a|b)/", "/c|/"}
var c12MeshSvcVals = []string{"web", "web2", "db1", "xdb1", "Web", "abc", "a.c", "q", "web", "db1", "WEB", "we", "ping", "unreach", "ping", "unreach", c12Fence,
	"/web|db1/", "/web.?/", "/(web|db1)/", "/x?db1/", "/(?i)web/", "/a.c/", "/[a-z]+/", "/.*/", "/.+[0-9]/", "/web2|q/", "/db1|web2/", "/unreach|ping/", "/(?i)WEB2?/", "//", "/[a-z.]+/", "/q|/", "/ping|unreach|q/"}

type c12MeshPkt struct {
	ID string `json:"id"`
	O  string `json:"origin"`
	FS string `json:"fromservice"`
	D  string `json:"dest"`
	TS string `json:"toservice"`
}

func (mp c12MeshPkt) pkt() c12Pkt   { return c12Pkt{FN: mp.O, FS: mp.FS, TN: mp.D, TS: mp.TS} }
func (mp c12MeshPkt) tuple() string { return mp.O + "|" + mp.FS + "|" + mp.D + "|" + mp.TS }
func (mp c12MeshPkt) kind() string {
	if mp.TS == "ping" {
		return "ping"
	}
	return "datagram"
}

type c12MeshTrial struct {
	Idx   int                      `json:"trial"`
	Rules map[string][]c12RuleSpec `json:"rules"` // per node; installed bracketed by the fence rule
	Pkts  []c12MeshPkt             `json:"packets"`
}

func c12Bracket(rules []c12RuleSpec) []c12RuleSpec {
	out := []c12RuleSpec{c12FenceRule}
	out = append(out, rules...)
	return append(out, c12FenceRule)
}

type c12Step struct {
	Walk   string `json:"walk"` // primary / notice / reply
	Node   string `json:"node"`
	Role   string `json:"role"`
	Action string `json:"action"`
	Rule   int    `json:"rule"`
	pkt    c12Pkt
}

type c12Sim struct {
	Steps      []c12Step `json:"steps"`
	Delivered  bool      `json:"delivered"`
	Notice     bool      `json:"notice"`
	NoticeFrom string    `json:"notice_from,omitempty"`
	Reply      bool      `json:"reply"`
}

func (s *c12Sim) outcome() string {
	parts := []string{}
	if s.Delivered {
		parts = append(parts, "delivered")
	}
	if s.Reply {
		parts = append(parts, "reply")
	}
	if s.Notice {
		parts = append(parts, "notice")
	}
	if len(parts) == 0 {
		return "silence"
	}
	return strings.Join(parts, "+")
}

func c12Path(x, y string) []string {
	xi, yi := strings.Index("abc", x), strings.Index("abc", y)
	out := []string{}
	for i := xi; ; {
		out = append(out, c12Chain[i])
		if i == yi {
			return out
		}
		if yi > i {
			i++
		} else {
			i--
		}
	}
}

func c12Role(node string, p c12Pkt) string {
	switch {
	case p.FN == p.TN:
		return "local"
	case node == p.FN:
		return "origin"
	case node == p.TN:
		return "destination"
	}
	return "transit"
}

type c12Decider func(node string, p c12Pkt) (string, int)

// c12Simulate walks a packet (and the notice or ping reply it triggers, which are packets
// subject to the rules of the nodes they are originated at, cross and arrive at).
func c12Simulate(dec c12Decider, mp c12MeshPkt) c12Sim {
	sim := c12Sim{}
	walk := func(p c12Pkt, name string) (bool, string) {
		for _, n := range c12Path(p.FN, p.TN) {
			act, idx := dec(n, p)
			sim.Steps = append(sim.Steps, c12Step{Walk: name, Node: n, Role: c12Role(n, p), Action: act, Rule: idx, pkt: p})
			switch act {
			case "drop":
				return false, ""
			case "reject":
				return false, n
			}
		}
		return true, ""
	}
	prim := mp.pkt()
	ok, rej := walk(prim, "primary")
	switch {
	case ok && mp.TS == "ping":
		sim.Reply, _ = walk(c12Pkt{FN: mp.D, FS: "ping", TN: mp.O, TS: mp.FS}, "reply")
	case ok:
		sim.Delivered = true
	case rej != "":
		if got, _ := walk(c12Pkt{FN: rej, FS: "unreach", TN: mp.O, TS: "unreach"}, "notice"); got {
			sim.Notice, sim.NoticeFrom = true, rej
		}
	}
	return sim
}

// c12Deciding picks the step of a walk that dictated its fate.
func c12Deciding(steps []c12Step, walk string) *c12Step {
	var last *c12Step
	for i := range steps {
		s := &steps[i]
		if s.Walk != walk {
			continue
		}
		if s.Action != "accept" {
			return s
		}
		if s.Rule >= 0 {
			last = s
		}
	}
	return last
}

// c12OrderSensitive: at some node of the walks a later rule with another action also matches
// the packet, so first-match and last-match semantics give different fates.
func c12OrderSensitive(ref map[string][]c12RefRule, sim *c12Sim) bool {
	for _, st := range sim.Steps {
		if st.Rule < 0 {
			continue
		}
		rules := ref[st.Node]
		for j := st.Rule + 1; j < len(rules); j++ {
			if rules[j].Action != st.Action && rules[j].matches(st.pkt) {
				return true
			}
		}
	}
	return false
}

func c12GenMeshRule(rng *rand.Rand) c12RuleSpec {
	spec := c12RuleSpec{}
	for fi := range c12Fields {
		if rng.Intn(100) < 38 {
			vals := c12MeshSvcVals
			if fi < 2 {
				vals = c12MeshNodeVals
			}
			spec = append(spec, c12KV{K: c12KeyCase(rng, fi), V: vals[rng.Intn(len(vals))]})
		}
	}
	spec = append(spec, c12KV{K: c12RandCase(rng, "action"), V: c12RandCase(rng, c12Actions[rng.Intn(3)])})
	rng.Shuffle(len(spec), func(i, j int) { spec[i], spec[j] = spec[j], spec[i] })
	return spec
}

func c12RefDecider(ref map[string][]c12RefRule) c12Decider {
	return func(node string, p c12Pkt) (string, int) { return c12RefDecide(ref[node], p) }
}

func c12GenMeshTrials(seed int64, n, pktsPer int, tag string) []*c12MeshTrial {
	rng := rand.New(rand.NewSource(seed*9_000_011 + int64(n)*31))
	trials := []*c12MeshTrial{}
	universe := []c12MeshPkt{}
	for _, o := range c12Chain {
		for _, d := range c12Chain {
			for _, fs := range c12Svcs {
				for _, ts := range append(append([]string{}, c12Svcs...), "ping") {
					universe = append(universe, c12MeshPkt{O: o, FS: fs, D: d, TS: ts})
				}
			}
		}
	}
	for t := 0; t < n; t++ {
		tr := &c12MeshTrial{Idx: t, Rules: map[string][]c12RuleSpec{}}
		perm := rng.Perm(3)
		nn := 1
		if r := rng.Intn(100); r >= 88 {
			nn = 3
		} else if r >= 62 {
			nn = 2
		}
		ref := map[string][]c12RefRule{}
		for _, ni := range perm[:nn] {
			nr := 1 + rng.Intn(5)
			node := c12Chain[ni]
			for k := 0; k < nr; k++ {
				r := c12GenMeshRule(rng)
				if k > 0 && rng.Intn(100) < 20 {
					// a wider variant of an earlier rule with another action (shadowed for the packets the earlier one matches)
					prev := tr.Rules[node][rng.Intn(k)]
					r = c12RuleSpec{}
					for _, kv := range prev {
						if c12Lower(kv.K) == "action" {
							r = append(r, c12KV{K: kv.K, V: c12Actions[rng.Intn(3)]})
						} else if rng.Intn(2) == 0 {
							r = append(r, kv)
						}
					}
				}
				tr.Rules[node] = append(tr.Rules[node], r)
			}
			for _, act := range []string{"reject", "drop"} {
				if rng.Intn(100) < 45 {
					// a service-specific rule: it cannot match the notice (services "unreach") it causes
					r := c12RuleSpec{{K: c12KeyCase(rng, 2+rng.Intn(2)), V: c12MeshSvcVals[rng.Intn(len(c12Svcs))]}, {K: c12RandCase(rng, "action"), V: c12RandCase(rng, act)}}
					at := rng.Intn(len(tr.Rules[node]) + 1)
					tr.Rules[node] = append(tr.Rules[node][:at:at], append([]c12RuleSpec{r}, tr.Rules[node][at:]...)...)
				}
			}
			if rng.Intn(100) < 35 {
				// the usual shape of a real configuration: specific rules, then a catch-all
				tr.Rules[node] = append(tr.Rules[node], c12RuleSpec{{K: c12RandCase(rng, "action"), V: c12RandCase(rng, c12Actions[rng.Intn(3)])}})
			}
		}
		for _, node := range c12Chain {
			rr, why := c12RefParse(c12Bracket(tr.Rules[node]))
			if why != "" {
				panic("C12 harness bug: mesh rule list refused by the reference: " + why)
			}
			ref[node] = rr
		}
		dec := c12RefDecider(ref)
		buckets := map[string][]int{}
		dropClear := []int{}
		ordered := []int{} // packets matched by several rules with different actions at one node
		noticed := []int{} // packets whose rejection notice reaches the sender (needs a rule that spares the notice itself)
		for ui, mp := range universe {
			sim := c12Simulate(dec, mp)
			sig := ""
			for _, w := range []string{"primary", "notice", "reply"} {
				if s := c12Deciding(sim.Steps, w); s != nil {
					sig += fmt.Sprintf("%s:%s:%d:%s;", w, s.Node, s.Rule, s.Action)
				}
			}
			if sig != "" {
				buckets[sig+mp.kind()] = append(buckets[sig+mp.kind()], ui)
			}
			if sim.Notice {
				noticed = append(noticed, ui)
			}
			if c12OrderSensitive(ref, &sim) {
				ordered = append(ordered, ui)
			}
			if d := c12Deciding(sim.Steps, "primary"); d != nil && d.Action == "drop" {
				// a drop whose notice, were one wrongly sent, would get through to the sender
				clear := true
				for _, n := range c12Path(d.Node, mp.O) {
					if a, _ := dec(n, c12Pkt{FN: d.Node, FS: "unreach", TN: mp.O, TS: "unreach"}); a != "accept" {
						clear = false
					}
				}
				if clear {
					dropClear = append(dropClear, ui)
				}
			}
		}
		keys := make([]string, 0, len(buckets))
		for k := range buckets {
			keys = append(keys, k)
		}
		sort.Strings(keys)
		used := map[string]bool{}
		for len(tr.Pkts) < pktsPer {
			var mp c12MeshPkt
			// slot-based preference, rotating with the trial number: rejections whose notice gets
			// through, drops whose (wrong) notice would get through, order-sensitive packets, any
			// packet decided by a rule; uniform as the fallback and for one packet in five
			prefs := [][]int{noticed, dropClear, ordered, nil}
			pref := prefs[(len(tr.Pkts)+t)%4]
			for try := 0; try < 6; try++ {
				if len(pref) > 0 && rng.Intn(100) < 85 {
					mp = universe[pref[rng.Intn(len(pref))]]
				} else if len(keys) > 0 && rng.Intn(100) < 80 {
					b := buckets[keys[rng.Intn(len(keys))]]
					mp = universe[b[rng.Intn(len(b))]]
				} else {
					mp = universe[rng.Intn(len(universe))]
				}
				if !used[mp.tuple()] {
					break
				}
			}
			used[mp.tuple()] = true
			mp.ID = fmt.Sprintf("%s-t%d-p%d", tag, t, len(tr.Pkts))
			tr.Pkts = append(tr.Pkts, mp)
		}
		trials = append(trials, tr)
	}
	return trials
}

// ---------------------------------------------------------------- runtime

type c12Flight struct {
	P         c12MeshPkt
	Trial     *c12MeshTrial
	funcs     map[string][]netceptor.FirewallRuleFunc
	ref       map[string][]c12RefRule
	Exp       c12Sim
	Undecided string

	delivered int
	notices   []netceptor.UnreachableNotification
	replies   int
	echoed    bool
}

type c12Mesh struct {
	tag     string
	m       *mesh.Mesh
	nodes   map[string]*netceptor.Netceptor
	socks   map[string]netceptor.PacketConner
	mu      sync.Mutex
	byID    map[string]*c12Flight
	byTuple map[string]*c12Flight
	stray   int
	other   int
	done    chan struct{}
}

func (cm *c12Mesh) converged() bool {
	for _, id := range c12Chain {
		rt := cm.nodes[id].Status().RoutingTable
		for _, o := range c12Chain {
			if o != id {
				if _, ok := rt[o]; !ok {
					return false
				}
			}
		}
	}
	return true
}

func (cm *c12Mesh) waitConverged(limit time.Duration) bool {
	stable := 0
	for t0 := time.Now(); time.Since(t0) < limit; time.Sleep(50 * time.Millisecond) {
		if cm.converged() {
			stable++
			if stable >= 3 {
				return true
			}
		} else {
			stable = 0
		}
	}
	return false
}

func (cm *c12Mesh) reader(node, svc string, pc netceptor.PacketConner) {
	buf := make([]byte, 4096)
	for {
		n, addr, err := pc.ReadFrom(buf)
		if err != nil {
			return
		}
		payload := string(buf[:n])
		from := addr.String()
		if svc == c12Fence {
			switch {
			case strings.HasPrefix(payload, "F|"):
				// echo on the reverse path; in a goroutine because a node-local echo is handed to this very reader
				go func(p, from string) {
					parts := strings.SplitN(from, ":", 2)
					_, _ = pc.WriteTo([]byte("E|"+p[2:]), cm.nodes[node].NewAddr(parts[0], parts[1]))
				}(payload, from)
			case strings.HasPrefix(payload, "E|"):
				cm.mu.Lock()
				if f := cm.byID[payload[2:]]; f != nil {
					f.echoed = true
				}
				cm.mu.Unlock()
			}
			continue
		}
		cm.mu.Lock()
		if n == 0 && strings.HasSuffix(from, ":ping") {
			if f := cm.byTuple[node+"|"+svc+"|"+strings.TrimSuffix(from, ":ping")+"|ping"]; f != nil {
				f.replies++
			} else {
				cm.stray++
			}
		} else if f := cm.byID[payload]; f != nil && f.P.D == node && f.P.TS == svc && from == f.P.O+":"+f.P.FS {
			f.delivered++
		} else {
			cm.stray++
		}
		cm.mu.Unlock()
	}
}

func (cm *c12Mesh) noticeReader(node, svc string, ch chan netceptor.UnreachableNotification) {
	for msg := range ch {
		cm.mu.Lock()
		f := cm.byTuple[msg.FromNode+"|"+msg.FromService+"|"+msg.ToNode+"|"+msg.ToService]
		switch {
		case msg.Problem != netceptor.ProblemRejected:
			cm.other++
		case f == nil || msg.FromNode != node || msg.FromService != svc:
			cm.stray++
		default:
			f.notices = append(f.notices, msg)
		}
		cm.mu.Unlock()
	}
}

func c12NewMesh(tag string, seed int64) (*c12Mesh, error) {
	c := mesh.DefaultConsts()
	c.Idle = 30 * time.Second
	cm := &c12Mesh{tag: tag, m: mesh.New(c, seed), nodes: map[string]*netceptor.Netceptor{}, socks: map[string]netceptor.PacketConner{},
		byID: map[string]*c12Flight{}, byTuple: map[string]*c12Flight{}, done: make(chan struct{})}
	for _, id := range c12Chain {
		cm.m.AddNode(id)
		cm.nodes[id] = cm.m.Node(id).Inst()
	}
	cm.m.Connect("a", "b", 1, false)
	cm.m.Connect("b", "c", 1, false)
	for _, id := range c12Chain {
		for _, svc := range append(append([]string{}, c12Svcs...), c12Fence) {
			pc, err := cm.nodes[id].ListenPacket(svc)
			if err != nil {
				return cm, err
			}
			cm.socks[id+"|"+svc] = pc
			go cm.reader(id, svc, pc)
			if svc != c12Fence {
				go cm.noticeReader(id, svc, pc.SubscribeUnreachable(cm.done))
			}
		}
	}
	if !cm.waitConverged(90 * time.Second) {
		return cm, fmt.Errorf("routing did not converge on a-b-c within the watchdog")
	}
	return cm, nil
}

func (cm *c12Mesh) close() {
	close(cm.done)
	cm.m.Shutdown()
}

func c12SafeParse(rules []c12RuleSpec) (funcs []netceptor.FirewallRuleFunc, err error, panicked string) {
	defer func() {
		if r := recover(); r != nil {
			panicked = fmt.Sprint(r)
		}
	}()
	funcs, err = netceptor.ParseFirewallRules(c12BuildData(rules))
	return funcs, err, ""
}

func (cm *c12Mesh) poll(limit time.Duration, cond func() bool) bool {
	for t0 := time.Now(); ; time.Sleep(2 * time.Millisecond) {
		cm.mu.Lock()
		ok := cond()
		cm.mu.Unlock()
		if ok {
			return true
		}
		if time.Since(t0) > limit {
			return false
		}
	}
}

func (cm *c12Mesh) fly(f *c12Flight) {
	p := f.P
	cm.mu.Lock()
	cm.byID[p.ID] = f
	cm.byTuple[p.tuple()] = f
	cm.mu.Unlock()
	if _, err := cm.socks[p.O+"|"+p.FS].WriteTo([]byte(p.ID), cm.nodes[p.O].NewAddr(p.D, p.TS)); err != nil {
		f.Undecided = "WriteTo of the test packet failed: " + err.Error()
		return
	}
	// fence: a later datagram on the same path, echoed back by the destination
	if _, err := cm.socks[p.O+"|"+c12Fence].WriteTo([]byte("F|"+p.ID), cm.nodes[p.O].NewAddr(p.D, c12Fence)); err != nil {
		f.Undecided = "WriteTo of the fence failed: " + err.Error()
		return
	}
	if !cm.poll(20*time.Second, func() bool { return f.echoed }) {
		f.Undecided = "the fence datagram was not echoed back within the watchdog (path disturbed)"
		return
	}
	// everything the reference expects gets a generous extra wait; what it does not expect is
	// looked for after a short settle and again at the end of the mesh run
	cm.poll(5*time.Second, func() bool {
		return (!f.Exp.Delivered || f.delivered > 0) && (!f.Exp.Notice || len(f.notices) > 0) && (!f.Exp.Reply || f.replies > 0)
	})
	time.Sleep(40 * time.Millisecond)
}

func (cm *c12Mesh) runTrial(run *ev.Run, tr *c12MeshTrial) []*c12Flight {
	funcs := map[string][]netceptor.FirewallRuleFunc{}
	ref := map[string][]c12RefRule{}
	for _, node := range c12Chain {
		list := c12Bracket(tr.Rules[node])
		ref[node], _ = c12RefParse(list)
		fs, err, pan := c12SafeParse(list)
		if pan != "" {
			run.Violation("panic:valid", fmt.Sprintf("ParseFirewallRules panicked on the valid mesh rule list %v: %s", c12SpecText(list), pan), map[string]any{"rules": c12SpecText(list), "panic": pan})
			return nil
		}
		if err != nil {
			run.Violation("refused-valid:"+c12ListCaseClass(list), fmt.Sprintf("valid mesh rule list %v was refused: %v", c12SpecText(list), err), map[string]any{"rules": c12SpecText(list), "error": err.Error()})
			return nil
		}
		funcs[node] = fs
	}
	for _, node := range c12Chain {
		_ = cm.nodes[node].AddFirewallRules(funcs[node], true)
	}
	dec := c12RefDecider(ref)
	out := []*c12Flight{}
	for _, mp := range tr.Pkts {
		f := &c12Flight{P: mp, Trial: tr, funcs: funcs, ref: ref, Exp: c12Simulate(dec, mp)}
		cm.fly(f)
		if f.Undecided != "" && !cm.waitConverged(60*time.Second) {
			f.Undecided += "; routing did not re-converge"
		}
		out = append(out, f)
	}
	return out
}

func c12RulesText(tr *c12MeshTrial) map[string][]string {
	out := map[string][]string{}
	for _, node := range c12Chain {
		out[node] = c12SpecText(c12Bracket(tr.Rules[node]))
	}
	return out
}

// judge compares what the sockets saw with the reference expectation (called after the
// mesh's last flight has settled, so late arrivals are included).
func (cm *c12Mesh) judge(run *ev.Run, f *c12Flight, sampled *atomic.Int32) {
	run.Eval(1)
	if f.Undecided != "" {
		run.Inconclusive(fmt.Sprintf("C12 mesh %s packet %s: %s", cm.tag, f.P.ID, f.Undecided))
		return
	}
	cm.mu.Lock()
	obs := c12Sim{Delivered: f.delivered > 0, Notice: len(f.notices) > 0, Reply: f.replies > 0}
	if obs.Notice {
		obs.NoticeFrom = f.notices[0].ReceivedFromNode
	}
	cm.mu.Unlock()
	exp := f.Exp
	run.Count("B_packets_"+f.P.kind(), 1)
	prim := c12Deciding(exp.Steps, "primary")
	if obs.Delivered == exp.Delivered && obs.Notice == exp.Notice && obs.Reply == exp.Reply && obs.NoticeFrom == exp.NoticeFrom {
		key := "B|" + f.P.kind() + "|"
		if prim == nil {
			key += "default"
		} else {
			key += prim.Role + "|" + strconv.Itoa(prim.Rule) + "|" + prim.Action + "|" + c12RuleMix(c12Bracket(f.Trial.Rules[prim.Node])[prim.Rule])
			run.Count("B_decided_at_"+prim.Role+"_"+prim.Action, 1)
		}
		for _, w := range []string{"notice", "reply"} {
			if s := c12Deciding(exp.Steps, w); s != nil {
				key += "|" + w + ":" + s.Role + ":" + s.Action
			}
		}
		key += "|" + exp.outcome()
		if c12OrderSensitive(f.ref, &exp) {
			key += "|order-sensitive"
			run.Count("B_order_sensitive_packets", 1)
		}
		run.Distinct(key)
		run.Count("B_outcome_"+exp.outcome(), 1)
		if prim != nil && prim.Action == "reject" && exp.Notice && sampled.Add(1) <= 2 {
			run.Sample(map[string]any{"part": "B", "rules_per_node": c12RulesText(f.Trial), "packet": f.P, "reference_walk": exp.Steps, "expected": exp.outcome(), "observed": obs.outcome()})
		}
		return
	}
	// attribute: does receptor's own per-rule matching explain the observation (a matching
	// defect, same key as in part A) or is it the handling of the decision?
	rec := c12Simulate(func(node string, p c12Pkt) (string, int) {
		d, at, _ := c12Compose(f.funcs[node], p)
		return d, at
	}, f.P)
	role := "none"
	if prim != nil {
		role = prim.Role
	}
	key := fmt.Sprintf("mesh:%s:expect-%s:got-%s@%s", f.P.kind(), exp.outcome(), obs.outcome(), role)
	if obs.Delivered == exp.Delivered && obs.Notice == exp.Notice && obs.Reply == exp.Reply {
		key = fmt.Sprintf("mesh:%s:notice-from-%s-not-%s", f.P.kind(), c12Role(obs.NoticeFrom, f.P.pkt()), c12Role(exp.NoticeFrom, f.P.pkt()))
	}
	if rec.Delivered == obs.Delivered && rec.Notice == obs.Notice && rec.Reply == obs.Reply && rec.NoticeFrom == obs.NoticeFrom {
		for i := 0; i < len(rec.Steps) && i < len(exp.Steps); i++ {
			r, e := rec.Steps[i], exp.Steps[i]
			if r.Action != e.Action || r.Rule != e.Rule {
				cl, _ := c12DecisionClass(c12Bracket(f.Trial.Rules[e.Node]), f.ref[e.Node], e.pkt, e.Rule, r.Rule, e.Action, r.Action)
				key = "decision:" + cl
				break
			}
		}
	}
	run.Count("B_mismatches", 1)
	run.Violation(key, fmt.Sprintf("mesh a-b-c, rules %v, packet %s:%s -> %s:%s: reference expects %s (walk %s), sockets observed %s", c12RulesText(f.Trial), f.P.O, f.P.FS, f.P.D, f.P.TS, exp.outcome(), c12WalkText(exp.Steps), obs.outcome()),
		map[string]any{"rules_per_node": c12RulesText(f.Trial), "rules_spec": f.Trial.Rules, "packet": f.P, "reference": exp, "observed": obs, "receptor_rule_funcs_predict": rec, "notices": f.notices})
}

func c12WalkText(steps []c12Step) string {
	parts := []string{}
	for _, s := range steps {
		r := "default"
		if s.Rule >= 0 {
			r = "rule " + strconv.Itoa(s.Rule)
		}
		parts = append(parts, fmt.Sprintf("%s@%s(%s)=%s by %s", s.Walk, s.Node, s.Role, s.Action, r))
	}
	return strings.Join(parts, ", ")
}

func c12PartB(run *ev.Run) {
	meshes := run.Pick(2, 4)
	trialsPer := run.Pick(5, 50)
	const pktsPer = 3
	var wg sync.WaitGroup
	var sampled atomic.Int32 // at most two part-B samples (the other two slots are part A's)
	for k := 0; k < meshes; k++ {
		wg.Add(1)
		go func(k int) {
			defer wg.Done()
			tag := fmt.Sprintf("m%d", k)
			trials := c12GenMeshTrials(run.Seed*17+int64(k), trialsPer, pktsPer, tag)
			cm, err := c12NewMesh(tag, run.Seed*100+int64(k))
			defer cm.close()
			if err != nil {
				run.Eval(1)
				run.Inconclusive("C12 mesh " + tag + ": " + err.Error())
				return
			}
			flights := []*c12Flight{}
			for _, tr := range trials {
				flights = append(flights, cm.runTrial(run, tr)...)
			}
			time.Sleep(400 * time.Millisecond)
			for _, f := range flights {
				cm.judge(run, f, &sampled)
			}
			cm.mu.Lock()
			run.Count("B_stray_arrivals", int64(cm.stray))
			run.Count("B_other_notices", int64(cm.other))
			cm.mu.Unlock()
		}(k)
	}
	wg.Wait()
}
