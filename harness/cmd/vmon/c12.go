package main

import (
	"bufio"
	"encoding/json"
	"fmt"
	"os"
	"os/exec"
	"path/filepath"
	"regexp"
	"strconv"
	"strings"
	"sync"
	"sync/atomic"
	"time"

	"verif/harness/internal/child"
	"verif/harness/internal/ev"

	"github.com/ansible/receptor/pkg/netceptor"
)

// C12 — firewall: the first matching rule decides (accept / silent drop / reject with a
// "blocked by firewall" notice), default accept; uninterpretable rule lists are refused.
//
// Part A: differential monitor. Seeded (rule list, packet) pairs; receptor's
// ParseFirewallRules + first-non-continue composition run in a child process, judged
// against the reference model below. Part B (c12mesh.go): three real nodes a-b-c.

func init() {
	register("C12", runC12)
	register("c12child", c12Child)
}

// ---------------------------------------------------------------- reference model

func c12Lower(s string) string { // ASCII only: "any key case" is about letter case
	b := []byte(s)
	for i, c := range b {
		if c >= 'A' && c <= 'Z' {
			b[i] = c + 32
		}
	}
	return string(b)
}

type c12RefRule struct {
	Action string
	M      [4]func(string) bool // fromnode, tonode, fromservice, toservice; nil = not given
}

// c12RefParse interprets a rule list or names the reason it must be refused.
func c12RefParse(rules []c12RuleSpec) ([]c12RefRule, string) {
	out := make([]c12RefRule, 0, len(rules))
	for _, spec := range rules {
		r := c12RefRule{}
		for _, kv := range spec {
			if kv.KT != "" {
				return nil, "nonstring-key"
			}
			k, fi := c12Lower(kv.K), -1
			for i, f := range c12Fields {
				if k == f {
					fi = i
				}
			}
			if k != "action" && fi < 0 {
				return nil, "unknown-key"
			}
			if kv.VT != "" {
				return nil, "non-string"
			}
			if k == "action" {
				r.Action = c12Lower(kv.V)
				continue
			}
			v := kv.V
			switch {
			case v == "": // not given
			case v[0] != '/':
				r.M[fi] = func(s string) bool { return s == v }
			case len(v) < 2:
				return nil, "lone-slash"
			case v[len(v)-1] != '/':
				return nil, "unterminated"
			default:
				re := c12RefPattern(v[1 : len(v)-1])
				if re == nil {
					return nil, "bad-regex"
				}
				r.M[fi] = re.MatchString
			}
		}
		if r.Action != "accept" && r.Action != "reject" && r.Action != "drop" {
			return nil, "unknown-action"
		}
		out = append(out, r)
	}
	return out, ""
}

var c12RefCache sync.Map // body -> *regexp.Regexp (nil: the body does not compile)

// c12RefPattern: the body must compile on its own; it matches iff ^(?:body)$ matches.
func c12RefPattern(body string) *regexp.Regexp {
	if v, ok := c12RefCache.Load(body); ok {
		return v.(*regexp.Regexp)
	}
	var re *regexp.Regexp
	if _, err := regexp.Compile(body); err == nil {
		re, _ = regexp.Compile("^(?:" + body + ")$")
	}
	c12RefCache.Store(body, re)
	return re
}

func (r *c12RefRule) matches(p c12Pkt) bool {
	for i, m := range r.M {
		if m != nil && !m(p.field(i)) {
			return false
		}
	}
	return true
}

// c12RefDecide: the first matching rule dictates; accept when none matches (idx -1).
func c12RefDecide(rules []c12RefRule, p c12Pkt) (string, int) {
	for i := range rules {
		if rules[i].matches(p) {
			return rules[i].Action, i
		}
	}
	return "accept", -1
}

// c12SelfCheck validates the hand-written dictionaries against the reference model.
func c12SelfCheck() error {
	for _, pat := range c12Pats {
		rr, why := c12RefParse([]c12RuleSpec{{{K: "fromnode", V: pat.P}, {K: "action", V: "drop"}}})
		if why != "" {
			return fmt.Errorf("dictionary pattern %q refused by the reference: %s", pat.P, why)
		}
		for _, y := range pat.Yes {
			if !rr[0].matches(c12Pkt{FN: y}) {
				return fmt.Errorf("dictionary pattern %q should match %q", pat.P, y)
			}
		}
		for _, n := range pat.Near {
			if rr[0].matches(c12Pkt{FN: n}) {
				return fmt.Errorf("dictionary pattern %q should not match %q", pat.P, n)
			}
		}
		body := pat.P[1 : len(pat.P)-1]
		if (pat.Label == "alternation") != c12TopLevelBar(body) {
			return fmt.Errorf("dictionary pattern %q: alternation label inconsistent", pat.P)
		}
	}
	for class, vs := range c12BadVals {
		for _, v := range vs {
			if _, why := c12RefParse([]c12RuleSpec{{{K: "tonode", V: v}, {K: "action", V: "drop"}}}); why != class {
				return fmt.Errorf("malformed value %q: reference says %q, dictionary says %q", v, why, class)
			}
		}
	}
	return nil
}

// ---------------------------------------------------------------- child (receptor side)

type c12Res struct {
	I       int      `json:"i"`
	Refused bool     `json:"refused,omitempty"`
	Err     string   `json:"err,omitempty"`
	Dec     []string `json:"dec,omitempty"` // composed decision per packet
	At      []int    `json:"at,omitempty"`  // index of the first non-continue rule (-1 none)
	Per     []string `json:"per,omitempty"` // per-rule results per packet: C/A/R/D
}

func c12BuildData(rules []c12RuleSpec) []netceptor.FirewallRuleData {
	out := make([]netceptor.FirewallRuleData, 0, len(rules))
	for _, spec := range rules {
		frd := netceptor.FirewallRuleData{}
		for _, kv := range spec {
			var k, v interface{}
			switch kv.KT {
			case "":
				k = kv.K
			case "int":
				n, _ := strconv.Atoi(kv.K)
				k = n
			case "bool":
				k = true
			case "nil":
				k = nil
			}
			switch kv.VT {
			case "":
				v = kv.V
			case "int":
				n, _ := strconv.Atoi(kv.V)
				v = n
			case "float":
				f, _ := strconv.ParseFloat(kv.V, 64)
				v = f
			case "bool":
				v = kv.V == "true"
			case "nil":
				v = nil
			case "list":
				v = []interface{}{kv.V}
			case "map":
				v = map[interface{}]interface{}{kv.V: kv.V}
			}
			frd[k] = v
		}
		out = append(out, frd)
	}
	return out
}

func c12ResultName(r netceptor.FirewallResult) (string, byte) {
	switch r {
	case netceptor.FirewallResultContinue:
		return "continue", 'C'
	case netceptor.FirewallResultAccept:
		return "accept", 'A'
	case netceptor.FirewallResultReject:
		return "reject", 'R'
	case netceptor.FirewallResultDrop:
		return "drop", 'D'
	}
	return fmt.Sprintf("result(%d)", int(r)), '?'
}

// c12Compose applies a parsed rule list the way the node's packet handler does: the first
// result that is not "continue" decides; accept when every rule continues.
func c12Compose(funcs []netceptor.FirewallRuleFunc, p c12Pkt) (string, int, string) {
	md := &netceptor.MessageData{FromNode: p.FN, FromService: p.FS, ToNode: p.TN, ToService: p.TS, HopsToLive: 30, Data: []byte("x")}
	dec, at := "accept", -1
	per := make([]byte, 0, len(funcs))
	for i, f := range funcs {
		name, letter := c12ResultName(f(md))
		per = append(per, letter)
		if at < 0 && letter != 'C' {
			dec, at = name, i
		}
	}
	return dec, at, string(per)
}

func c12RunReceptor(cs *c12Case) *c12Res {
	res := &c12Res{I: cs.Idx}
	funcs, err := netceptor.ParseFirewallRules(c12BuildData(cs.Rules))
	if err != nil {
		res.Refused, res.Err = true, err.Error()
		return res
	}
	for _, p := range cs.Pkts {
		dec, at, per := c12Compose(funcs, p)
		res.Dec, res.At, res.Per = append(res.Dec, dec), append(res.At, at), append(res.Per, per)
	}
	return res
}

// c12Child: args = casesFile startLine resultsFile. One result line is written (write(2),
// unbuffered) per case before the next case is touched, so a dying child is attributed to
// the first case without a result line.
func c12Child(_ string, args []string) {
	if len(args) < 3 {
		os.Exit(2)
	}
	start, _ := strconv.Atoi(args[1])
	in, err := os.Open(args[0])
	if err != nil {
		fmt.Println("c12child:", err)
		os.Exit(2)
	}
	out, err := os.OpenFile(args[2], os.O_APPEND|os.O_CREATE|os.O_WRONLY, 0o644)
	if err != nil {
		fmt.Println("c12child:", err)
		os.Exit(2)
	}
	sc := bufio.NewScanner(in)
	sc.Buffer(make([]byte, 1<<20), 1<<24)
	for n := 0; sc.Scan(); n++ {
		if n < start {
			continue
		}
		cs := &c12Case{}
		if err := json.Unmarshal(sc.Bytes(), cs); err != nil {
			fmt.Println("c12child: bad case line", n, err)
			os.Exit(2)
		}
		b, _ := json.Marshal(c12RunReceptor(cs))
		if _, err := out.Write(append(b, '\n')); err != nil {
			os.Exit(2)
		}
	}
	out.Close()
	os.Exit(0)
}

// ---------------------------------------------------------------- parent, part A

type c12Outcome struct {
	Case  *c12Case
	Res   *c12Res // nil if the child died in this case
	Fatal string
	Top   string
	Stack []string
	Lost  string // non-empty: undecided (child vanished without a fatal line, watchdog)
}

func c12ReadResults(path string) []*c12Res {
	f, err := os.Open(path)
	if err != nil {
		return nil
	}
	defer f.Close()
	out := []*c12Res{}
	sc := bufio.NewScanner(f)
	sc.Buffer(make([]byte, 1<<20), 1<<24)
	for sc.Scan() {
		r := &c12Res{}
		if json.Unmarshal(sc.Bytes(), r) != nil {
			break // torn last line of a dying child
		}
		out = append(out, r)
	}
	return out
}

func c12StackExcerpt(outFile string) []string {
	b, err := os.ReadFile(outFile)
	if err != nil {
		return nil
	}
	lines := strings.Split(string(b), "\n")
	for i, l := range lines {
		if strings.HasPrefix(l, "panic: ") || strings.HasPrefix(l, "fatal error: ") {
			lines = lines[i:]
			break
		}
	}
	if len(lines) > 24 {
		lines = lines[:24]
	}
	return lines
}

// c12Partition feeds one slice of cases to children until every case has an outcome.
func c12Partition(work string, part int, cases []*c12Case, out chan<- c12Outcome) {
	cf := filepath.Join(work, fmt.Sprintf("c12-p%d.cases", part))
	f, err := os.Create(cf)
	if err != nil {
		for _, cs := range cases {
			out <- c12Outcome{Case: cs, Lost: "harness: " + err.Error()}
		}
		return
	}
	w := bufio.NewWriter(f)
	for _, cs := range cases {
		b, _ := json.Marshal(cs)
		w.Write(b)
		w.WriteByte('\n')
	}
	w.Flush()
	f.Close()
	pos, gen := 0, 0
	for pos < len(cases) {
		gen++
		rf := filepath.Join(work, fmt.Sprintf("c12-p%d-g%d.results", part, gen))
		of := filepath.Join(work, fmt.Sprintf("c12-p%d-g%d.out", part, gen))
		cmd := exec.Command(os.Args[0], "c12child", "quick", cf, strconv.Itoa(pos), rf)
		cmd.Env = append(os.Environ(), "GORACE=halt_on_error=0 exitcode=0 atexit_sleep_ms=0 log_path="+filepath.Join(work, fmt.Sprintf("race-c12-p%d-g%d", part, gen)))
		res := child.Run(cmd, of, 10*time.Minute, nil)
		rs := c12ReadResults(rf)
		for k, r := range rs {
			if pos+k < len(cases) && r.I == cases[pos+k].Idx {
				out <- c12Outcome{Case: cases[pos+k], Res: r}
			}
		}
		pos += len(rs)
		if pos >= len(cases) {
			break
		}
		// the child ended inside cases[pos]
		o := c12Outcome{Case: cases[pos], Fatal: res.Fatal, Top: res.TopFrame}
		switch {
		case res.TimedOut:
			o.Lost = "child watchdog fired (goroutine dump in " + of + ")"
		case res.Fatal == "":
			o.Lost = fmt.Sprintf("child exited with code %d without a fatal line", res.ExitCode)
		default:
			o.Stack = c12StackExcerpt(of)
		}
		out <- o
		pos++
		_ = os.Remove(of)
		_ = os.Remove(rf)
	}
}

// c12DecisionClass names what distinguishes the rule at which receptor's per-rule results
// first depart from the reference (labels come from the generator's dictionary).
func c12DecisionClass(rules []c12RuleSpec, ref []c12RefRule, p c12Pkt, refIdx, gotIdx int, refAct, gotAct string) (string, int) {
	if refIdx == gotIdx {
		return "action", refIdx
	}
	k := refIdx
	if k < 0 || (gotIdx >= 0 && gotIdx < k) {
		k = gotIdx
	}
	vals, _ := c12RuleValues(rules[k])
	feats := []string{}
	if k == gotIdx {
		// receptor matched although some field does not match: those fields are the culprits
		for fi, v := range vals {
			if v != "" && ref[k].M[fi] != nil && !ref[k].M[fi](p.field(fi)) {
				feats = append(feats, c12ValFeature(v))
			}
		}
	} else {
		for _, v := range vals {
			if v != "" {
				feats = append(feats, c12ValFeature(v))
			}
		}
	}
	return c12TopFeature(feats), k
}

func c12SpecText(rules []c12RuleSpec) []string {
	out := []string{}
	for _, spec := range rules {
		parts := []string{}
		for _, kv := range spec {
			k := fmt.Sprintf("%q", kv.K)
			if kv.KT != "" {
				k = kv.KT + "(" + kv.K + ")"
			}
			v := fmt.Sprintf("%q", kv.V)
			if kv.VT != "" {
				v = kv.VT + "(" + kv.V + ")"
			}
			parts = append(parts, k+": "+v)
		}
		out = append(out, "{"+strings.Join(parts, ", ")+"}")
	}
	return out
}

func c12ListCaseClass(rules []c12RuleSpec) string {
	for _, spec := range rules {
		for _, kv := range spec {
			if k := c12Lower(kv.K); k != kv.K && k != "action" {
				return "key-case"
			}
		}
	}
	for _, spec := range rules {
		for _, kv := range spec {
			if c12Lower(kv.K) == "action" && (kv.K != "action" || c12Lower(kv.V) != kv.V) {
				return "action-case"
			}
		}
	}
	return "plain"
}

func c12PartA(run *ev.Run, work string) {
	lists := run.Pick(1250, 50000)
	const pktsPer = 4
	cases := genC12(run.Seed, lists, pktsPer)
	parts := run.Pick(8, 16)
	out := make(chan c12Outcome, 4096)
	var wg sync.WaitGroup
	per := (len(cases) + parts - 1) / parts
	for p := 0; p < parts; p++ {
		lo, hi := p*per, (p+1)*per
		if hi > len(cases) {
			hi = len(cases)
		}
		if lo >= hi {
			continue
		}
		wg.Add(1)
		go func(p int, sub []*c12Case) {
			defer wg.Done()
			c12Partition(work, p, sub, out)
		}(p, cases[lo:hi])
	}
	go func() { wg.Wait(); close(out) }()

	var hits, validPairs atomic.Int64
	var sampledOK, sampledBad atomic.Bool
	judge := func(o c12Outcome) {
		cs := o.Case
		run.Eval(len(cs.Pkts))
		ref, refuse := c12RefParse(cs.Rules)
		text := c12SpecText(cs.Rules)
		if (refuse == "") != (cs.Inject == "") {
			run.Inconclusive(fmt.Sprintf("C12 harness self-check: case %d generator says %q, reference says %q", cs.Idx, cs.Inject, refuse))
			return
		}
		if refuse != "" {
			run.Count("malformed_lists_offered", 1)
		} else {
			run.Count("valid_lists_offered", 1)
		}
		class := refuse
		if class == "" {
			class = "valid"
		}
		if o.Lost != "" {
			run.Inconclusive(fmt.Sprintf("C12 case %d: %s", cs.Idx, o.Lost))
			return
		}
		if o.Res == nil {
			run.Count("panics", 1)
			run.Distinct("A|malformed|" + class + "|panic")
			run.Violation("panic:"+class, fmt.Sprintf("ParseFirewallRules / rule evaluation killed the process on rule list %v (%s): %s at %s", text, cs.Inject, o.Fatal, o.Top),
				map[string]any{"rules": text, "spec": cs.Rules, "inject": cs.Inject, "packets": cs.Pkts, "fatal": o.Fatal, "top_frame": o.Top, "stack": o.Stack})
			return
		}
		r := o.Res
		if refuse != "" {
			if r.Refused {
				run.Count("malformed_lists_refused", 1)
				run.Distinct("A|malformed|" + class + "|refused")
				if sampledBad.CompareAndSwap(false, true) {
					run.Sample(map[string]any{"part": "A", "rules": text, "reference": "refuse: " + refuse, "receptor": "refused: " + r.Err})
				}
				return
			}
			run.Count("malformed_lists_accepted", 1)
			run.Distinct("A|malformed|" + class + "|accepted")
			// show how the accepted form behaves: the reference of the list without the offending rule's field is not defined, so just record decisions
			run.Violation("accepted-malformed:"+class, fmt.Sprintf("rule list %v must be refused (%s) but ParseFirewallRules accepted it; its decisions on %v were %v (deciding rule %v)", text, cs.Inject, cs.Pkts, r.Dec, r.At),
				map[string]any{"rules": text, "spec": cs.Rules, "inject": cs.Inject, "packets": cs.Pkts, "receptor_decisions": r.Dec, "receptor_deciding_rule": r.At})
			return
		}
		// valid list
		for _, p := range cs.Pkts {
			validPairs.Add(1)
			if _, idx := c12RefDecide(ref, p); idx >= 0 {
				hits.Add(1)
			}
		}
		if r.Refused {
			run.Count("valid_lists_refused", 1)
			run.Violation("refused-valid:"+c12ListCaseClass(cs.Rules), fmt.Sprintf("valid rule list %v was refused: %s", text, r.Err), map[string]any{"rules": text, "spec": cs.Rules, "error": r.Err})
			return
		}
		if len(r.Dec) != len(cs.Pkts) {
			run.Inconclusive(fmt.Sprintf("C12 case %d: child returned %d decisions for %d packets", cs.Idx, len(r.Dec), len(cs.Pkts)))
			return
		}
		for pi, p := range cs.Pkts {
			act, idx := c12RefDecide(ref, p)
			pos, mix := "default", "-"
			if idx >= 0 {
				pos, mix = strconv.Itoa(idx), c12RuleMix(cs.Rules[idx])
			}
			if r.Dec[pi] == act && r.At[pi] == idx {
				run.Distinct("A|" + pos + "|" + act + "|" + mix)
				if idx >= 0 {
					vals, _ := c12RuleValues(cs.Rules[idx])
					for _, v := range vals {
						if v != "" {
							run.SetAdd("deciding_value_features", c12ValFeature(v))
						}
					}
				}
				if idx >= 1 && sampledOK.CompareAndSwap(false, true) {
					run.Sample(map[string]any{"part": "A", "rules": text, "packet": p, "reference": fmt.Sprintf("%s by rule %d", act, idx), "receptor": fmt.Sprintf("%s by rule %d (per-rule %s)", r.Dec[pi], r.At[pi], r.Per[pi])})
				}
				continue
			}
			cl, k := c12DecisionClass(cs.Rules, ref, p, idx, r.At[pi], act, r.Dec[pi])
			run.Count("decision_mismatches", 1)
			run.Violation("decision:"+cl, fmt.Sprintf("rule list %v, packet %+v: reference says %s (rule %d), receptor says %s (rule %d, per-rule results %s); they part at rule %d %s", text, p, act, idx, r.Dec[pi], r.At[pi], r.Per[pi], k, c12SpecText(cs.Rules[k:k+1])),
				map[string]any{"rules": text, "spec": cs.Rules, "packet": p, "reference": map[string]any{"action": act, "rule": idx}, "receptor": map[string]any{"action": r.Dec[pi], "rule": r.At[pi], "per_rule": r.Per[pi]}, "differs_at_rule": k})
		}
	}
	var jw sync.WaitGroup
	for k := 0; k < 8; k++ {
		jw.Add(1)
		go func() {
			defer jw.Done()
			for o := range out {
				judge(o)
			}
		}()
	}
	jw.Wait()
	if validPairs.Load() > 0 {
		rate := float64(hits.Load()) / float64(validPairs.Load())
		run.Extra("A_hit_rate", fmt.Sprintf("%.3f", rate))
		if rate < 0.30 {
			run.Inconclusive(fmt.Sprintf("C12 part A: only %.1f%% of the packets hit a rule (need 30%%)", rate*100))
		}
	}
	run.Count("A_pairs_on_valid_lists", validPairs.Load())
}

func runC12(tier string, args []string) {
	run := ev.New("C12", tier, "exploration")
	run.Rule("A: seeded rule lists (0-6 rules; any subset of fromnode/tonode/fromservice/toservice; literals and /regex/ patterns from a dictionary with top-level and grouped alternations, user anchors, //, wildcards, prefix/suffix names, classes, (?i) (?s) flags, inner slashes, regex metacharacters in literals; any key/action letter case; 25% of the lists carry exactly one malformation: lone '/', unterminated /abc, non-compiling body, unknown or non-string key, unknown/missing/non-string action, non-string value) x 4 packets each (72% aimed at a rule, 38% of those perturbed into a near miss); receptor's ParseFirewallRules + first-non-continue composition run in child processes (one result line per case), compared with an own reference model (equality; full match ^(?:body)$; first match wins; default accept; refuse uninterpretable lists). " +
		"B: three real nodes a-b-c over memnet; seeded rule lists installed with AddFirewallRules on one, two or three nodes (always bracketed by an explicit accept for the fence service); unique-id datagrams and pings between all node pairs from real sockets; delivery / 'blocked by firewall' notice / ping reply observed at sockets and compared with the reference decision evaluated at origin, transit and destination in path order (notices and ping replies are themselves packets subject to the rules); absence is judged after a fence datagram sent later on the same path has been echoed back. " +
		"D: node configurations (types.NodeCfg with firewallrules, as the daemon's node section produces them), each started with Init() in its own child process: lists with exactly one malformation of each class injected into one rule of an otherwise valid list must make the start-up fail; valid lists must start and be in force for node-local datagrams between real sockets of the started node (delivered / silent / 'blocked by firewall' notice as the reference model's first matching rule says; every valid case contains a packet its list stops). " +
		"distinct_nontrivial = distinct observed (part, position of the deciding rule or default, action, literal/regex mix, malformed class + refused/accepted/panic; for B also datagram/ping, role of the deciding node, fate of the notice)")
	run.Assume("a rule field given as the empty string is 'not given' (the statement speaks of 'all of its given fields')")
	run.Assume("a pattern is /body/ whose body compiles on its own with Go regexp; it matches iff ^(?:body)$ matches; (?m) is not used")
	run.Assume("two keys of one rule that differ only in letter case are never generated (the statement does not say which wins)")
	work := workDir()
	if err := c12SelfCheck(); err != nil {
		fmt.Println("C12 harness bug:", err)
		os.Exit(2)
	}
	var wg sync.WaitGroup
	wg.Add(1)
	t0 := time.Now()
	go func() {
		defer wg.Done()
		c12PartB(run)
		run.Extra("B_wall_s", fmt.Sprintf("%.1f", time.Since(t0).Seconds()))
	}()
	wg.Add(1)
	go func() {
		defer wg.Done()
		c12PartD(run, work)
	}()
	c12PartA(run, work)
	run.Extra("A_wall_s", fmt.Sprintf("%.1f", time.Since(t0).Seconds()))
	wg.Wait()
	for i := 0; i < run.Pick(1, 6); i++ {
		runC12Reconf(run, run.Seed*100+int64(i))
	}
	c12RaceVerdict(run, collectRaces(run, work))
	run.Finish(run.Pick(60, 200))
}
