package main

import (
	"encoding/json"
	"fmt"
	"os"
	"os/exec"
	"path/filepath"
	"sort"
	"strings"
	"sync"
	"sync/atomic"
	"time"

	"verif/harness/internal/ctl"
	"verif/harness/internal/ev"
)

// C19 — secret work parameters are never disclosed by status / list, non-secret ones are
// reported unchanged, and a remote submission with a secret but no TLS client profile is
// refused before anything is stored or sent.
//
// Four real daemons: A ("a19", the node under test for disclosure and refusal), B ("b19",
// executes remote work; its control service on the mesh uses a TLS server profile, which
// netceptor refuses to dial without a TLS client profile), D ("d19", executes remote work
// submitted without a TLS profile and without secrets) and C ("c19", the addressee of
// submissions that must be refused: A never has a legitimate reason to send a data
// datagram over the A–C link, so a single one is a witness of "sent"). A dials B and C
// through ctl.Tap forwarders which re-frame the backend stream and count datagrams by
// type (mesh sessions are QUIC, i.e. always encrypted: searching link bytes for a canary
// can never succeed, counting data datagrams can), and D through a plain ctl.Proxy.

func init() { register("C19", runC19) }

const (
	c19A   = "a19"
	c19B   = "b19"
	c19C   = "c19"
	c19D   = "d19"
	c19Cli = "cli19"
	c19Srv = "srv19"

	c19CmdTimeout = 30 * time.Second
)

type c19Canary struct {
	Case     int
	Key      string
	KeyClass string
	Kind     string
}

// c19Cl is a control session plus the canaries already reported on it.
type c19Cl struct {
	*ctl.Client
	node     string
	mu       sync.Mutex
	reported map[string]bool
}

type c19Hit struct {
	Canary string
	Off    int
	Info   c19Canary
}

type c19mon struct {
	run   *ev.Run
	dir   string
	A, B  *ctl.Daemon // B executes remote work, its mesh control service requires TLS
	C, D  *ctl.Daemon // C: addressee of submissions that must be refused; D executes remote work without TLS
	tapAD *ctl.Proxy
	tapAB *ctl.Tap
	tapAC *ctl.Tap

	regMu sync.RWMutex
	reg   map[string]c19Canary
	cases map[int]*c19Case

	subMu sync.RWMutex // refusal cases take it exclusively: exact before/after directory diff

	ackMu          sync.Mutex
	acked          map[string]bool
	reportedOrphan map[string]bool

	acData   atomic.Int64 // type-0 datagrams on the A–C link, both directions
	abData   atomic.Int64
	linkHits atomic.Int64
	scanned  atomic.Int64

	clMu    sync.Mutex
	clients []*c19Cl
}

func isHexLower(c byte) bool { return (c >= '0' && c <= '9') || (c >= 'a' && c <= 'f') }

// scan finds every registered canary in b. Canaries are 32 lower-case hex digits, so only
// windows inside hex runs of length >= 32 have to be looked up.
func (m *c19mon) scan(b []byte) []c19Hit {
	var hits []c19Hit
	m.regMu.RLock()
	defer m.regMu.RUnlock()
	i := 0
	for i < len(b) {
		if !isHexLower(b[i]) {
			i++
			continue
		}
		j := i
		for j < len(b) && isHexLower(b[j]) {
			j++
		}
		if j-i >= 32 {
			for k := i; k+32 <= j; k++ {
				if info, ok := m.reg[string(b[k:k+32])]; ok {
					hits = append(hits, c19Hit{Canary: string(b[k : k+32]), Off: k, Info: info})
				}
			}
		}
		i = j
	}
	return hits
}

func c19Excerpt(s string, off int) string {
	lo, hi := off-200, off+32+200
	if lo < 0 {
		lo = 0
	}
	if hi > len(s) {
		hi = len(s)
	}
	return s[lo:hi]
}

// scanReply judges clause (1) on one piece of daemon output.
func (m *c19mon) scanReply(cs *c19Case, c *c19Cl, where, request, reply string) {
	m.scanned.Add(int64(len(reply)))
	if cs != nil {
		cs.Scanned += int64(len(reply))
	}
	for _, h := range m.scan([]byte(reply)) {
		if c != nil {
			c.mu.Lock()
			c.reported[h.Canary] = true
			c.mu.Unlock()
		}
		m.reportLeak(where, h, cs, c, request, reply)
	}
}

func (m *c19mon) reportLeak(where string, h c19Hit, asker *c19Case, c *c19Cl, request, reply string) {
	m.regMu.RLock()
	owner := m.cases[h.Info.Case]
	m.regMu.RUnlock()
	w := map[string]any{"where": where, "canary": h.Canary, "secret_key": c19TruncVal(h.Info.Key), "request": c19TruncVal(request),
		"reply_excerpt": c19Excerpt(reply, h.Off), "reply_bytes": len(reply)}
	if c != nil {
		w["session"] = c.node + "/" + c.Kind
	}
	if owner != nil {
		w["owner_case"] = owner.witness()
	}
	if asker != nil && (owner == nil || asker.Idx != owner.Idx) {
		w["asking_case"] = asker.Idx
	}
	key := "leak:" + where + ":" + h.Info.KeyClass
	if h.Info.Kind == "local" {
		key = "leak-local:" + where + ":" + h.Info.KeyClass
	}
	if h.Info.Kind == "rejected" {
		key = "leak-rejected-by-remote:" + where + ":" + h.Info.KeyClass
	}
	m.run.Violation(key, fmt.Sprintf("the value of secret parameter %q (case %d, %s submit) appears in the daemon's answer to %s",
		c19TruncVal(h.Info.Key), h.Info.Case, h.Info.Kind, where), w)
}

func (m *c19mon) daemonOf(node string) *ctl.Daemon {
	switch node {
	case "a":
		return m.A
	case "b":
		return m.B
	case "d":
		return m.D
	}
	return m.C
}

func (m *c19mon) dial(node, sess string) *c19Cl {
	d := m.daemonOf(node)
	var c *ctl.Client
	var err error
	for try := 0; try < 3; try++ {
		if sess == "tcp" {
			c, err = ctl.DialTCP(fmt.Sprintf("127.0.0.1:%d", d.CtlPort), 10*time.Second)
		} else {
			c, err = ctl.DialUnix(d.Sock(), 10*time.Second)
		}
		if err == nil {
			break
		}
		time.Sleep(200 * time.Millisecond)
	}
	if err != nil {
		m.run.Count("dial_failed", 1)
		return nil
	}
	cl := &c19Cl{Client: c, node: node, reported: map[string]bool{}}
	m.clMu.Lock()
	m.clients = append(m.clients, cl)
	m.clMu.Unlock()
	return cl
}

// cmd sends one request line on the case's session of that kind (re-dialling once) and
// scans the reply.
func (m *c19mon) cmd(cs *c19Case, node, sess, cmdKind, line string) (string, bool) {
	key := node + "." + sess
	for attempt := 0; attempt < 2; attempt++ {
		c := cs.sess[key]
		if c == nil {
			c = m.dial(node, sess)
			if c == nil {
				continue
			}
			cs.sess[key] = c
		}
		reply, err := c.Line(line, c19CmdTimeout)
		if err != nil {
			c.Close()
			delete(cs.sess, key)
			continue
		}
		m.scanReply(cs, c, node+"."+cmdKind, line, reply)
		return reply, true
	}
	m.run.Count("cmd_failed", 1)
	return "", false
}

func c19Req(form, sub, id string) string {
	if form == "json" {
		r := map[string]any{"command": "work", "subcommand": sub}
		if id != "" {
			r["unitid"] = id
		}
		b, _ := json.Marshal(r)
		return string(b)
	}
	if id != "" {
		return "work " + sub + " " + id
	}
	return "work " + sub
}

// checkParams judges clause (2) on a parsed status of the case's own unit on A.
func (m *c19mon) checkParams(cs *c19Case, st *ctl.Status, where, raw string) {
	if st == nil || st.WorkType != "remote" || st.ExtraData == nil {
		return
	}
	if id, _ := st.ExtraData["RemoteUnitID"].(string); id != "" {
		cs.RemoteID = id
	}
	if b, _ := st.ExtraData["RemoteStarted"].(bool); b {
		cs.Started = true
	}
	rp, ok := st.ExtraData["RemoteParams"].(map[string]any)
	if !ok {
		rp = map[string]any{}
	}
	cs.ParamChecks++
	for _, p := range cs.Params {
		if p.Secret {
			continue
		}
		v, present := rp[p.Key]
		if !present {
			m.run.Violation("nonsecret-missing:"+p.KeyClass, fmt.Sprintf("non-secret parameter %q (%s) is missing from RemoteParams in the answer to %s", c19TruncVal(p.Key), p.KeyLabel, where),
				map[string]any{"case": cs.witness(), "where": where, "missing_key": p.Key, "reply": c19TruncVal(raw)})
			continue
		}
		if s, isStr := v.(string); !isStr || s != p.Val {
			m.run.Violation("nonsecret-altered:"+p.KeyClass, fmt.Sprintf("non-secret parameter %q (%s, value class %s) is reported with another value in the answer to %s", c19TruncVal(p.Key), p.KeyLabel, p.ValClass, where),
				map[string]any{"case": cs.witness(), "where": where, "key": p.Key, "want": c19TruncVal(p.Val), "got": c19TruncVal(fmt.Sprint(v)), "reply": c19TruncVal(raw)})
		}
	}
}

func (m *c19mon) judgeOwn(cs *c19Case, cmdKind, where, reply string) {
	if cs.UnitID == "" || strings.HasPrefix(reply, "ERROR") {
		return
	}
	switch cmdKind {
	case "status":
		if st, err := ctl.ParseStatus(reply); err == nil {
			m.checkParams(cs, st, where, reply)
		}
	case "list", "listid":
		if l, err := ctl.ParseList(reply); err == nil {
			if st := l[cs.UnitID]; st != nil {
				m.checkParams(cs, st, where, reply)
			}
		}
	}
}

func (m *c19mon) runOp(cs *c19Case, o c19Op) {
	id := cs.UnitID
	node := o.Node
	if node == "b" {
		if cs.Node == c19D {
			node = "d"
		}
		id = cs.RemoteID
		if id == "" { // never learnt the remote id: fall back to B's full list
			o.Cmd = "list"
		}
	}
	if node == "a" && id == "" {
		o.Cmd = "list"
	}
	var line string
	switch o.Cmd {
	case "status":
		line = c19Req(o.Form, "status", id)
	case "list":
		line = c19Req(o.Form, "list", "")
	case "listid":
		line = c19Req(o.Form, "list", id)
	case "cancel", "release", "force-release":
		line = c19Req(o.Form, o.Cmd, id)
	}
	reply, ok := m.cmd(cs, node, o.Sess, o.Cmd, line)
	if !ok {
		return
	}
	cs.OpsDone[o.kind()]++
	m.run.Count("cmd:"+node+"."+o.Cmd, 1)
	if node == "a" {
		m.judgeOwn(cs, o.Cmd, "a."+o.Cmd, reply)
	}
}

func c19Payload(cs *c19Case) []byte {
	spec := GenSpec{Seed: uint64(cs.Idx) + 19, Chunks: []GenChunk{{N: 16}}}
	if cs.Long {
		spec.Chunks = []GenChunk{{N: 8, PauseMs: 1200}, {N: 8, PauseMs: 1200}, {N: 8, PauseMs: 1200}, {N: 8}}
	}
	b, _ := json.Marshal(spec)
	return b
}

func c19ListDirs(dir string) map[string]bool {
	out := map[string]bool{}
	ents, _ := os.ReadDir(dir)
	for _, e := range ents {
		if e.IsDir() {
			out[e.Name()] = true
		}
	}
	return out
}

// scanTree searches every regular file under root for registered canaries.
func (m *c19mon) scanTree(root string) (hits []c19Hit, files []string) {
	_ = filepath.Walk(root, func(p string, fi os.FileInfo, err error) error {
		if err != nil || fi == nil || !fi.Mode().IsRegular() || fi.Size() > 16<<20 {
			return nil
		}
		b, err := os.ReadFile(p)
		if err != nil {
			return nil
		}
		for _, h := range m.scan(b) {
			hits = append(hits, h)
			files = append(files, p)
		}
		return nil
	})
	return
}

func (m *c19mon) register(cs *c19Case) {
	m.regMu.Lock()
	m.cases[cs.Idx] = cs
	for _, p := range cs.Params {
		if p.Secret && p.Canary != "" {
			if _, dup := m.reg[p.Canary]; !dup {
				kind := "remote"
				if cs.Kind == "local" {
					kind = "local"
				}
				if cs.Kind == "refusal" || cs.Kind == "refusal-tlsname" {
					kind = "refusal"
				}
				if cs.Kind == "remote-rejected" {
					kind = "rejected"
				}
				m.reg[p.Canary] = c19Canary{Case: cs.Idx, Key: p.Key, KeyClass: p.KeyClass, Kind: kind}
				m.run.Count("canaries_planted", 1)
			}
			if !strings.Contains(p.Val, p.Canary) {
				panic("c19: secret value without its canary")
			}
		}
	}
	m.regMu.Unlock()
}

// submit is phase 1 of a case.
func (m *c19mon) submit(cs *c19Case) {
	m.register(cs)
	c := m.dial("a", cs.SubmitVia)
	if c == nil {
		cs.submitErr = true
		m.run.Inconclusive(fmt.Sprintf("case %d: no control session on A", cs.Idx))
		return
	}
	defer c.Close()
	payload := c19Payload(cs)
	if cs.Kind == "refusal" || cs.Kind == "refusal-tlsname" {
		m.submitRefusal(cs, c, payload)
		return
	}
	m.subMu.RLock()
	res := c.Submit(cs.Line, payload, c19CmdTimeout)
	m.subMu.RUnlock()
	cs.Ack = res.Ack
	m.scanReply(cs, c, "a.submit", cs.Line, res.Ack+"\n"+res.Final)
	if res.UnitID != "" {
		cs.UnitID = res.UnitID
		m.ackMu.Lock()
		m.acked[res.UnitID] = true
		m.ackMu.Unlock()
	}
	if res.Err != nil {
		cs.submitErr = true
		m.run.Inconclusive(fmt.Sprintf("case %d (%s): transport error during submit: %v", cs.Idx, cs.Kind, res.Err))
		return
	}
	switch cs.Kind {
	case "tls-unknown":
		m.run.Count("tls_unknown_replies", 1)
		if res.UnitID != "" {
			m.run.Count("tls_unknown_accepted", 1) // not the statement's business; diagnostic
		}
		return
	case "local", "local-remotetype":
		if res.UnitID == "" {
			m.run.Inconclusive(fmt.Sprintf("case %d (%s): submit not acknowledged: %s", cs.Idx, cs.Kind, c19TruncVal(res.Ack)))
		}
		return
	case "remote-rejected":
		// positive control of the situation: A accepted and stored the unit, and the final
		// answer reports that the start failed (B's first answer was not an acknowledgement)
		switch {
		case res.UnitID == "":
			m.run.Inconclusive(fmt.Sprintf("case %d (%s/%s): valid remote submit not acknowledged by A: %s", cs.Idx, cs.Kind, cs.Reject, c19TruncVal(c19Redact(res.Ack))))
		case !strings.HasPrefix(res.Final, "ERROR"):
			m.run.Inconclusive(fmt.Sprintf("case %d (%s/%s): the remote node did not turn the submission down: %s", cs.Idx, cs.Kind, cs.Reject, c19TruncVal(c19Redact(res.Final))))
		default:
			cs.Rejected = true
			m.run.Count("rejected_by_remote_observed", 1)
			m.run.Count("rejected_by_remote:"+cs.Reject, 1)
		}
		return
	}
	// remote-tls / remote-plain: positive control — the unit has to start on B
	if res.UnitID == "" {
		m.run.Inconclusive(fmt.Sprintf("case %d (%s): valid remote submit not acknowledged: %s", cs.Idx, cs.Kind, c19TruncVal(res.Ack)))
		return
	}
	last := ""
	for poll := 0; poll < 400 && !(cs.Started && cs.RemoteID != ""); poll++ {
		reply, ok := m.cmd(cs, "a", "unix", "status", "work status "+cs.UnitID)
		if !ok {
			break
		}
		last = reply
		m.judgeOwn(cs, "status", "a.status", reply)
		if cs.Started && cs.RemoteID != "" {
			break
		}
		if st, err := ctl.ParseStatus(reply); err == nil && st.State == 3 {
			break // failed before starting
		}
		time.Sleep(150 * time.Millisecond)
	}
	if !cs.Started {
		m.run.Inconclusive(fmt.Sprintf("case %d (%s): remote unit %s did not start on B (positive control); last status: %s", cs.Idx, cs.Kind, cs.UnitID, c19TruncVal(c19Redact(last))))
	}
}

func (m *c19mon) submitRefusal(cs *c19Case, c *c19Cl, payload []byte) {
	// pfx/sfx: violation keys; noTLS: how the witness text describes the tlsclient field
	pfx, sfx, noTLS := "refusal:", "", "no TLS client profile"
	if cs.Kind == "refusal-tlsname" {
		pfx, sfx = "refusal-tlsname:", ":"+cs.TLSClass
		noTLS = fmt.Sprintf("tlsclient %q (%s), which is not the name of any TLS client profile", cs.TLS, cs.TLSLabel)
		m.run.Count("tlsname_cases", 1)
		m.run.SetAdd("tlsname_values", cs.TLSLabel)
	} else {
		m.run.Count("refusal_cases", 1)
	}
	m.subMu.Lock()
	before := c19ListDirs(m.A.DataDir())
	sentBefore := m.acData.Load()
	res := c.Submit(cs.Line, payload, c19CmdTimeout)
	sentAfter := m.acData.Load()
	after := c19ListDirs(m.A.DataDir())
	hits, files := m.scanTree(filepath.Join(m.A.Dir, "data"))
	m.subMu.Unlock()
	cs.Ack = res.Ack
	m.scanReply(cs, c, "a.submit", cs.Line, res.Ack+"\n"+res.Final)
	if res.UnitID != "" {
		cs.UnitID = res.UnitID
		m.ackMu.Lock()
		m.acked[res.UnitID] = true
		m.ackMu.Unlock()
	}
	if res.Ack == "" && res.Err != nil {
		cs.submitErr = true
		m.run.Inconclusive(fmt.Sprintf("case %d (refusal): no reply: %v", cs.Idx, res.Err))
		return
	}
	nsec, _ := cs.nSecrets()
	if !strings.HasPrefix(res.Ack, "ERROR") {
		m.run.Violation(pfx+"accepted"+sfx, fmt.Sprintf("remote submit to %s with %d secret parameter(s) and %s was not refused: %s", cs.Node, nsec, noTLS, c19TruncVal(res.Ack)),
			map[string]any{"case": cs.witness(), "reply": c19TruncVal(res.Ack), "final": c19TruncVal(res.Final)})
	} else if cs.Kind == "refusal-tlsname" {
		m.run.Count("tlsname_refusals_observed", 1)
	} else {
		m.run.Count("refusals_observed", 1)
	}
	// refusal cases are serialised (subMu) and nothing else is ever addressed to C, so data
	// datagrams that crossed the A-C link while this request was being answered belong to it
	if cs.Kind == "refusal-tlsname" && sentAfter > sentBefore {
		m.run.Violation(pfx+"sent"+sfx, fmt.Sprintf("remote submit to %s with %d secret parameter(s) and %s: %d data datagram(s) crossed the link between %s and %s while it was answered (reply %q)", cs.Node, nsec, noTLS, sentAfter-sentBefore, c19A, c19C, c19TruncVal(res.Ack)),
			map[string]any{"case": cs.witness(), "reply": c19TruncVal(res.Ack), "final": c19TruncVal(res.Final), "data_datagrams": sentAfter - sentBefore})
	}
	newDirs := []string{}
	for d := range after {
		if !before[d] {
			newDirs = append(newDirs, d)
		}
	}
	sort.Strings(newDirs)
	if len(newDirs) > 0 {
		m.ackMu.Lock()
		for _, d := range newDirs {
			m.reportedOrphan[d] = true
		}
		m.ackMu.Unlock()
		m.run.Violation(pfx+"stored-unit-dir"+sfx, fmt.Sprintf("remote submit with a secret and %s (reply %q) left unit director%s %v in A's data directory", noTLS, c19TruncVal(res.Ack), map[bool]string{true: "y", false: "ies"}[len(newDirs) == 1], newDirs),
			map[string]any{"case": cs.witness(), "reply": c19TruncVal(res.Ack), "new_dirs": newDirs})
	}
	mine := map[string]bool{}
	for _, p := range cs.Params {
		if p.Canary != "" {
			mine[p.Canary] = true
		}
	}
	for i, h := range hits {
		if mine[h.Canary] {
			m.run.Violation(pfx+"canary-on-disk"+sfx, fmt.Sprintf("remote submit with a secret and %s (reply %q): the secret value of %q was written to %s", noTLS, c19TruncVal(res.Ack), c19TruncVal(h.Info.Key), strings.TrimPrefix(files[i], m.dir)),
				map[string]any{"case": cs.witness(), "reply": c19TruncVal(res.Ack), "file": files[i], "canary": h.Canary})
			break
		}
	}
}

func (m *c19mon) parallel(cases []*c19Case, f func(cs *c19Case)) {
	sem := make(chan struct{}, 16)
	var wg sync.WaitGroup
	for _, cs := range cases {
		wg.Add(1)
		sem <- struct{}{}
		go func(cs *c19Case) {
			defer wg.Done()
			defer func() { <-sem }()
			f(cs)
		}(cs)
	}
	wg.Wait()
}

func (m *c19mon) restart(d *ctl.Daemon) bool {
	d.Kill()
	var err error
	for try := 0; try < 5; try++ {
		if err = d.Start(); err == nil {
			break
		}
		d.Kill()
		time.Sleep(time.Second) // its fixed ports may be taken for a moment by another process
	}
	if err != nil {
		m.run.Inconclusive(fmt.Sprintf("daemon %s did not restart: %v", d.ID, err))
		return false
	}
	m.run.Count("restarts:"+d.ID, 1)
	return true
}

func (m *c19mon) restartAll(ds ...*ctl.Daemon) {
	var wg sync.WaitGroup
	for _, d := range ds {
		wg.Add(1)
		go func(d *ctl.Daemon) { defer wg.Done(); m.restart(d) }(d)
	}
	wg.Wait()
}

// waitRoutes waits (bounded number of polls) until A has routes to B and C.
func (m *c19mon) waitRoutes() bool {
	for poll := 0; poll < 600; poll++ {
		c, err := ctl.DialUnix(m.A.Sock(), 5*time.Second)
		if err == nil {
			reply, err := c.Line("status", 10*time.Second)
			c.Close()
			if err == nil {
				var st struct{ RoutingTable map[string]string }
				if json.Unmarshal([]byte(reply), &st) == nil && st.RoutingTable[c19B] != "" && st.RoutingTable[c19C] != "" && st.RoutingTable[c19D] != "" {
					return true
				}
			}
		}
		time.Sleep(100 * time.Millisecond)
	}
	return false
}

func (m *c19mon) ensureAlive() bool {
	ok := true
	for _, d := range []*ctl.Daemon{m.B, m.C, m.D, m.A} {
		if !d.Alive() {
			fatal, top, _ := d.Fatal()
			m.run.Inconclusive(fmt.Sprintf("daemon %s died unexpectedly (%s at %s)", d.ID, fatal, top))
			if err := d.Start(); err != nil {
				ok = false
			}
		}
	}
	return ok
}

// closeSessions scans the complete transcript of every session opened so far for
// canaries that the per-reply scan did not attribute, then closes them.
func (m *c19mon) closeSessions(cases []*c19Case) {
	for _, cs := range cases {
		cs.sess = map[string]*c19Cl{}
	}
	m.clMu.Lock()
	cls := m.clients
	m.clients = nil
	m.clMu.Unlock()
	for _, c := range cls {
		c.Close()
		tr := c.Transcript()
		m.run.Count("transcript_bytes", int64(len(tr)))
		for _, h := range m.scan(tr) {
			c.mu.Lock()
			seen := c.reported[h.Canary]
			c.reported[h.Canary] = true
			c.mu.Unlock()
			if !seen {
				m.reportLeak(c.node+".transcript", h, nil, c, "(whole session transcript)", string(tr))
			}
		}
	}
	m.run.Count("sessions", int64(len(cls)))
}

func (m *c19mon) batchEnd(batch []*c19Case, bi int) {
	// clean-up on A: whatever is left of this batch is force-released
	m.parallel(batch, func(cs *c19Case) {
		if cs.UnitID == "" {
			return
		}
		reply, ok := m.cmd(cs, "a", "unix", "listid", "work list "+cs.UnitID)
		if ok && !strings.HasPrefix(reply, "ERROR") {
			m.judgeOwn(cs, "listid", "a.listid", reply)
			m.cmd(cs, "a", "unix", "force-release", "work force-release "+cs.UnitID)
		}
	})
	helper := &c19Case{Idx: -1, sess: map[string]*c19Cl{}, OpsDone: map[string]int{}}
	// B and D: release whatever is left (all of their units belong to this run)
	for _, n := range []string{"b", "d"} {
		if reply, ok := m.cmd(helper, n, "unix", "list", "work list"); ok {
			if l, err := ctl.ParseList(reply); err == nil {
				for id := range l {
					m.cmd(helper, n, "unix", "release", "work release "+id)
				}
			}
		}
	}
	refusals := []any{}
	anySubmitErr := false
	for _, cs := range batch {
		if cs.Kind == "refusal" || cs.Kind == "refusal-tlsname" {
			refusals = append(refusals, cs.witness())
		}
		if cs.submitErr {
			anySubmitErr = true
		}
	}
	if len(refusals) > 6 {
		refusals = refusals[:6]
	}
	// C: nothing may ever have arrived
	if reply, ok := m.cmd(helper, "c", "unix", "list", "work list"); ok {
		if l, err := ctl.ParseList(reply); err == nil && len(l) > 0 {
			ids := []string{}
			for id := range l {
				ids = append(ids, id)
				m.cmd(helper, "c", "unix", "release", "work release "+id)
			}
			sort.Strings(ids)
			m.run.Violation("refusal:sent", fmt.Sprintf("the remote daemon %s holds work unit(s) %v although every submission addressed to it had to be refused", c19C, ids),
				map[string]any{"batch": bi, "remote_units": ids, "refusal_cases_of_batch": refusals})
		}
	}
	if n := m.acData.Load(); n > 0 {
		m.run.Violation("refusal:sent", fmt.Sprintf("%d data datagram(s) crossed the link between %s and %s although every submission addressed to %s had to be refused", n, c19A, c19C, c19C),
			map[string]any{"batch": bi, "data_datagrams": n, "refusal_cases_of_batch": refusals})
		m.acData.Store(0)
	}
	// A's data directory: every unit directory must belong to an acknowledged submission,
	// and no file may contain the canary of a refused submission.
	m.subMu.Lock()
	dirs := c19ListDirs(m.A.DataDir())
	hits, files := m.scanTree(filepath.Join(m.A.Dir, "data"))
	m.subMu.Unlock()
	m.ackMu.Lock()
	orphans := []string{}
	for d := range dirs {
		if !m.acked[d] && !m.reportedOrphan[d] {
			orphans = append(orphans, d)
			m.reportedOrphan[d] = true
		}
	}
	m.ackMu.Unlock()
	sort.Strings(orphans)
	if len(orphans) > 0 {
		if anySubmitErr || len(refusals) == 0 {
			m.run.Count("unattributed_unit_dirs", int64(len(orphans)))
		} else {
			m.run.Violation("refusal:stored-unit-dir", fmt.Sprintf("unit director%s %v in A's data directory belong to no acknowledged submission of the batch", map[bool]string{true: "y", false: "ies"}[len(orphans) == 1], orphans),
				map[string]any{"batch": bi, "dirs": orphans, "refusal_cases_of_batch": refusals})
		}
	}
	for i, h := range hits {
		if h.Info.Kind == "refusal" {
			m.ackMu.Lock()
			seen := m.reportedOrphan["canary:"+h.Canary]
			m.reportedOrphan["canary:"+h.Canary] = true
			m.ackMu.Unlock()
			if seen {
				continue
			}
			m.regMu.RLock()
			owner := m.cases[h.Info.Case]
			m.regMu.RUnlock()
			m.run.Violation("refusal:canary-on-disk", fmt.Sprintf("the secret value of %q of refused case %d is stored in %s", c19TruncVal(h.Info.Key), h.Info.Case, strings.TrimPrefix(files[i], m.dir)),
				map[string]any{"case": owner.witness(), "file": files[i], "canary": h.Canary})
		}
	}
	// remove what refused submissions left behind (only ids the daemon itself lists)
	m.ackMu.Lock()
	rep := []string{}
	for d := range m.reportedOrphan {
		if dirs[d] {
			rep = append(rep, d)
		}
	}
	m.ackMu.Unlock()
	if len(rep) > 0 {
		if reply, ok := m.cmd(helper, "a", "unix", "list", "work list"); ok {
			if l, err := ctl.ParseList(reply); err == nil {
				for _, d := range rep {
					if l[d] != nil {
						m.cmd(helper, "a", "unix", "force-release", "work force-release "+d)
					}
				}
			}
		}
	}
	all := append([]*c19Case{helper}, batch...)
	m.closeSessions(all)
}

func c19Certs(dir string) (map[string]string, error) {
	pki := filepath.Join(dir, "pki")
	if err := os.MkdirAll(pki, 0o700); err != nil {
		return nil, err
	}
	bin := os.Getenv("VERIF_DAEMON")
	p := func(n string) string { return filepath.Join(pki, n) }
	runCmd := func(args ...string) error {
		cmd := exec.Command(bin, args...)
		cmd.Dir = pki
		out, err := cmd.CombinedOutput()
		if err != nil {
			return fmt.Errorf("%v: %v: %s", args, err, out)
		}
		return nil
	}
	if err := runCmd("--cert-init", "commonname=c19 test CA", "bits=2048", "outcert="+p("ca.crt"), "outkey="+p("ca.key")); err != nil {
		return nil, err
	}
	var wg sync.WaitGroup
	errs := make([]error, 2)
	for i, id := range []string{c19A, c19B} {
		wg.Add(1)
		go func(i int, id string) {
			defer wg.Done()
			if err := runCmd("--cert-makereq", "bits=2048", "commonname="+id, "nodeid="+id, "outreq="+p(id+".req"), "outkey="+p(id+".key")); err != nil {
				errs[i] = err
				return
			}
			errs[i] = runCmd("--cert-signreq", "req="+p(id+".req"), "cacert="+p("ca.crt"), "cakey="+p("ca.key"), "outcert="+p(id+".crt"), "verify=yes")
		}(i, id)
	}
	wg.Wait()
	for _, e := range errs {
		if e != nil {
			return nil, e
		}
	}
	return map[string]string{"ca": p("ca.crt"), "acrt": p(c19A + ".crt"), "akey": p(c19A + ".key"), "bcrt": p(c19B + ".crt"), "bkey": p(c19B + ".key")}, nil
}

func runC19(tier string, _ []string) {
	run := ev.New("C19", tier, "exploration")
	run.Rule("Each case is a seeded parameter map (0-8 keys drawn from a dictionary of secret_ spellings in lower/upper/mixed case, empty and " +
		"Unicode suffixes, and of non-secret keys that contain the prefix, look like it in ASCII or Unicode, are plain or are spelled like reserved " +
		"fields; every secret value embeds a fresh 32-hex canary, bare or wrapped in JSON metacharacters / control characters / long padding; " +
		"non-secret values include empty, long, metacharacter, duplicate and JSON-looking ones) submitted as one JSON line (standard or all-\\u " +
		"escaping, fixed or shuffled field order, Unix or TCP session) to real daemons: remote with a TLS client profile, remote without secrets, " +
		"remote with secrets and no TLS profile (must be refused), local, local with work type remote, unknown TLS profile; followed by 8 seeded " +
		"status / list / list <id> (plain and JSON, Unix and TCP, on A and on B for the remote unit) / cancel / release / force-release commands " +
		"with a SIGKILL restart of A and/or B between the two halves of every batch. A case is distinct by (kind, key spellings present, number " +
		"of secrets, bucket of non-secrets, TLS yes/no, kinds of follow-up commands answered, restart event) and counts as non-trivial only if it " +
		"planted at least one canary and daemon output for it was actually scanned. Every batch additionally carries (a) remote submissions with " +
		"secrets and the valid TLS profile which the executing node turns down in its first answer (unknown work type there, runtime params not " +
		"allowed there, signature missing, signature not expected), so that the unit stays on A as a failed unit whose submit reply and later " +
		"status / list answers (also after the restart) are searched like all others, and (b) submissions with secrets whose tlsclient field is " +
		"present and non-empty but not the name of a TLS client profile (white space only in ASCII and Unicode, the valid name padded with white " +
		"space, case / prefix / suffix variants of it, unknown names), which must be refused with nothing stored and no data datagram towards C.")
	run.Assume("a secret value is recognised by its 32-hex canary core, so the search covers the raw and every escaped spelling of the surrounding characters; partial or transformed (e.g. hashed) disclosure is not searched for")
	run.Assume("non-secret parameters never share a value with a secret one (otherwise 'reported unchanged' and 'never appears' would contradict each other)")
	run.Assume("'begins with secret_ in any letter case' is read with ASCII case folding; keys whose first letters are non-ASCII look-alikes are non-secret")
	run.Assume("clause 2 (non-secret parameters unchanged) is judged on ExtraData.RemoteParams of the submitting node's status/list answers, compared after JSON decoding")
	run.Assume("'sent' is judged on a dedicated link: the refused submissions are addressed to a daemon to which nothing else is ever submitted, and any type-0 datagram on that link is a witness (mesh sessions are QUIC-encrypted, so link bytes cannot be searched); refused submissions naming B or an unknown node are judged on reply, directory diff and disk content only")
	run.Assume("a tlsclient value names a TLS client profile only if it is, byte for byte, the name of a profile configured on the submitting node; white space is not trimmed and letter case is not folded by the reader of the statement")
	run.Assume("a submission that the executing node turns down is still a submitted unit of the submitting node until it is released: its submit reply and status / list answers fall under the non-disclosure clause")
	run.Assume("local submissions (node = own id / localhost) are a labelled class judged by the non-disclosure clause only; daemon log files are scanned as a diagnostic counter only")

	dir := filepath.Join(workDir(), "c19")
	_ = os.MkdirAll(dir, 0o755)
	m := &c19mon{run: run, dir: dir, reg: map[string]c19Canary{}, cases: map[int]*c19Case{}, acked: map[string]bool{}, reportedOrphan: map[string]bool{}}
	finish := func(floor int) {
		for _, d := range []*ctl.Daemon{m.A, m.B, m.C, m.D} {
			if d != nil {
				d.Kill()
			}
		}
		if m.tapAD != nil {
			m.tapAD.Close()
		}
		if m.tapAB != nil {
			m.tapAB.Close()
		}
		if m.tapAC != nil {
			m.tapAC.Close()
		}
		ctl.KillStrays(dir)
		// race-detector reports of the harness itself and of the four daemons: diagnostics
		files, _ := filepath.Glob(filepath.Join(workDir(), "race*"))
		more, _ := filepath.Glob(filepath.Join(dir, "*", "race*"))
		sigs, total := raceSignatures(append(files, more...))
		run.Count("race_reports", int64(total))
		sl := []string{}
		for sg := range sigs {
			sl = append(sl, sg)
		}
		sort.Strings(sl)
		run.Extra("race_signatures", sl)
		run.Finish(floor)
	}
	fail := func(why string) {
		run.Inconclusive(why)
		finish(1 << 30)
	}

	certs, err := c19Certs(dir)
	if err != nil {
		fail("could not create the TLS material with the daemon's certificate commands: " + err.Error())
	}
	// On the executing node the parameters arrive as fields of an ordinary submit for the
	// command work type "gen", which looks at the key "params" only (everything else,
	// secrets included, is dropped there); runtime params are allowed so that a map which
	// contains the non-secret key "params" is accepted and the unit really starts.
	gen := genWork()
	gen.AllowRuntime = true
	// B can turn a forwarded submission down for four reasons: two extra work types (no runtime
	// params / signature demanded) need a verification key on B; A can sign (signwork=true)
	signPriv, signPub, err := c19SigningKeys(dir)
	if err != nil {
		fail("could not create the work-signing key pair: " + err.Error())
	}
	// ports are picked before the daemon binds them; on a busy machine another process can
	// take one in between, so the first start is retried with fresh ports
	startFresh := func(cfg ctl.Cfg) *ctl.Daemon {
		var d *ctl.Daemon
		var err error
		for try := 0; try < 5; try++ {
			d = ctl.NewDaemon(cfg)
			if err = d.Start(); err == nil {
				return d
			}
			d.Kill()
			if !strings.Contains(d.OutTail(4000), "address already in use") {
				break
			}
		}
		fail(fmt.Sprintf("daemon %s did not start: %v\n%s", cfg.ID, err, d.OutTail(1500)))
		return nil
	}
	m.B = startFresh(ctl.Cfg{ID: c19B, Dir: filepath.Join(dir, "b"), TCPCtl: true, Listen: true, Work: append([]ctl.WorkCmd{gen}, c19RejectWork(gen)...), NoService: true, VerifyKey: signPub,
		Extra: []string{"--tls-server", "name=" + c19Srv, "cert=" + certs["bcrt"], "key=" + certs["bkey"],
			"--control-service", "service=control", "tls=" + c19Srv}})
	m.C = startFresh(ctl.Cfg{ID: c19C, Dir: filepath.Join(dir, "c"), Listen: true, Work: []ctl.WorkCmd{gen}})
	m.D = startFresh(ctl.Cfg{ID: c19D, Dir: filepath.Join(dir, "d"), TCPCtl: true, Listen: true, Work: []ctl.WorkCmd{gen}})
	count := func(ctr *atomic.Int64) func(int, []byte) {
		return func(_ int, dg []byte) {
			if len(dg) > 0 && dg[0] == 0 {
				ctr.Add(1)
			}
			if n := len(m.scan(dg)); n > 0 {
				m.linkHits.Add(int64(n))
			}
		}
	}
	if m.tapAB, err = ctl.NewTap(fmt.Sprintf("127.0.0.1:%d", m.B.ListenPort), count(&m.abData)); err != nil {
		fail("tap: " + err.Error())
	}
	if m.tapAC, err = ctl.NewTap(fmt.Sprintf("127.0.0.1:%d", m.C.ListenPort), count(&m.acData)); err != nil {
		fail("tap: " + err.Error())
	}
	if m.tapAD, err = ctl.NewProxy(fmt.Sprintf("127.0.0.1:%d", m.D.ListenPort), false); err != nil {
		fail("proxy: " + err.Error())
	}
	m.A = startFresh(ctl.Cfg{ID: c19A, Dir: filepath.Join(dir, "a"), TCPCtl: true, Peers: []string{m.tapAB.Addr, m.tapAC.Addr, m.tapAD.Addr}, Work: []ctl.WorkCmd{gen},
		Extra: []string{"--tls-client", "name=" + c19Cli, "rootcas=" + certs["ca"], "cert=" + certs["acrt"], "key=" + certs["akey"],
			"--work-signing", "privatekey=" + signPriv, "tokenexpiration=10m"}})
	if !m.waitRoutes() {
		fail("A never learnt routes to B and C")
	}

	nCases := run.Pick(60, 1500)
	batchSize := run.Pick(20, 60)
	nRej, nTLS := run.Pick(4, 8), run.Pick(7, 10) // extra cases per batch (c19x.go)
	cases := make([]*c19Case, nCases)
	for i := range cases {
		cases[i] = c19GenCase(run.Seed, run.Tier, i, run.Quick())
	}
	evr := newC19rng(run.Seed, run.Tier, 0, 0xE7E47)
	for bi, lo := 0, 0; lo < nCases; bi, lo = bi+1, lo+batchSize {
		hi := lo + batchSize
		if hi > nCases {
			hi = nCases
		}
		batch := append(append([]*c19Case{}, cases[lo:hi]...), c19ExtraCases(run.Seed, run.Tier, bi, nRej, nTLS, run.Quick())...)
		event := ""
		switch bi {
		case 0:
			event = "restart-a"
		case 1:
			event = "restart-b"
		default:
			event = []string{"restart-a", "restart-a", "restart-b", "restart-b", "restart-ab", "none", "none", "none"}[evr.intn(8)]
		}
		if !m.ensureAlive() || !m.waitRoutes() {
			run.Inconclusive(fmt.Sprintf("batch %d: the mesh did not come up", bi))
			break
		}
		t0 := time.Now()
		// phase 1: submissions (and the positive control of the remote start)
		m.parallel(batch, m.submit)
		t1 := time.Now()
		// phase 2: first half of the follow-up commands
		m.parallel(batch, func(cs *c19Case) {
			for _, o := range cs.Ops[:len(cs.Ops)/2] {
				m.runOp(cs, o)
			}
		})
		t2 := time.Now()
		// global event
		switch event {
		case "restart-a":
			m.restart(m.A)
		case "restart-b":
			m.restartAll(m.B, m.D)
		case "restart-ab":
			m.restartAll(m.B, m.D, m.A)
		}
		for _, cs := range batch {
			cs.Event = event
		}
		t3 := time.Now()
		// phase 3: status and list again, then the second half
		m.parallel(batch, func(cs *c19Case) {
			if event != "none" {
				m.runOp(cs, c19Op{Node: "a", Sess: "unix", Form: "plain", Cmd: "status"})
				m.runOp(cs, c19Op{Node: "a", Sess: "tcp", Form: "json", Cmd: "list"})
			}
			for _, o := range cs.Ops[len(cs.Ops)/2:] {
				m.runOp(cs, o)
			}
		})
		t4 := time.Now()
		m.batchEnd(batch, bi)
		t5 := time.Now()
		for _, cs := range batch {
			run.Eval(1)
			run.Count("cases:"+cs.Kind, 1)
			ns, nc := cs.nSecrets()
			run.Count("secret_params", int64(ns))
			for _, p := range cs.Params {
				run.SetAdd("key_spellings", p.KeyLabel)
				if p.Secret {
					run.SetAdd("secret_value_classes", p.ValClass)
				} else {
					run.SetAdd("nonsecret_value_classes", p.ValClass)
				}
			}
			run.Count("param_checks", int64(cs.ParamChecks))
			if nc > 0 && cs.Scanned > 0 && !cs.submitErr {
				conclusive := true
				if (cs.Kind == "remote-tls" || cs.Kind == "remote-plain") && !cs.Started {
					conclusive = false
				}
				if cs.Kind == "remote-rejected" && !cs.Rejected {
					conclusive = false
				}
				if conclusive {
					run.Distinct(cs.tuple())
				}
			}
			if bi == 0 && (cs.Idx == 0 || cs.Idx == 1) {
				w := cs.witness()
				w["bytes_scanned"] = cs.Scanned
				w["param_checks"] = cs.ParamChecks
				w["ops_done"] = cs.OpsDone
				run.Sample(w)
			}
		}
		fmt.Printf("c19 batch %d (%d cases, %s): submit %.1fs, commands %.1fs, event %.1fs, commands %.1fs, batch end %.1fs; %d bytes scanned so far\n", bi, len(batch), event,
			t1.Sub(t0).Seconds(), t2.Sub(t1).Seconds(), t3.Sub(t2).Seconds(), t4.Sub(t3).Seconds(), t5.Sub(t4).Seconds(), m.scanned.Load())
	}

	// positive control of the "sent" detector: an ordinary submission to C must make data
	// datagrams appear on the A–C link.
	if m.ensureAlive() && m.waitRoutes() {
		ctlCase := &c19Case{Idx: -2, Kind: "detector-control", sess: map[string]*c19Cl{}, OpsDone: map[string]int{}}
		seen := false
		if c := m.dial("a", "unix"); c != nil {
			before := m.acData.Load()
			res := c.Submit(fmt.Sprintf(`{"command":"work","subcommand":"submit","node":%q,"worktype":"gen","alpha":"1"}`, c19C), c19Payload(ctlCase), c19CmdTimeout)
			for poll := 0; poll < 300 && res.UnitID != ""; poll++ {
				if m.acData.Load() > before {
					seen = true
					break
				}
				time.Sleep(100 * time.Millisecond)
			}
			if res.UnitID != "" {
				m.cmd(ctlCase, "a", "unix", "force-release", "work force-release "+res.UnitID)
			}
		}
		run.Extra("sent_detector_positive_control", seen)
		if !seen {
			run.Inconclusive("positive control of the link tap failed: an ordinary submission to C produced no data datagram")
		}
		m.closeSessions([]*c19Case{ctlCase})
	}

	// diagnostics only: daemon log files
	logHits := 0
	for _, d := range []*ctl.Daemon{m.A, m.B, m.C, m.D} {
		outs, _ := filepath.Glob(filepath.Join(d.Dir, "daemon-*.out"))
		for _, f := range outs {
			if b, err := os.ReadFile(f); err == nil {
				logHits += len(m.scan(b))
			}
		}
	}
	run.Count("diag_canary_hits_in_daemon_logs", int64(logHits))
	run.Count("diag_canary_hits_in_link_bytes", m.linkHits.Load())
	run.Count("bytes_scanned", m.scanned.Load())
	run.Count("link_ab_data_datagrams", m.abData.Load())
	run.Count("link_ab_bytes", m.tapAB.Bytes[0].Load()+m.tapAB.Bytes[1].Load())
	run.Count("link_ac_bytes", m.tapAC.Bytes[0].Load()+m.tapAC.Bytes[1].Load())
	finish(run.Pick(25, 600))
}

// c19Redact keeps harness messages free of long values.
func c19Redact(s string) string {
	if i := strings.Index(s, `"RemoteParams"`); i >= 0 {
		if j := strings.Index(s[i:], "}"); j >= 0 {
			return s[:i] + `"RemoteParams":{...}` + s[i+j+1:]
		}
	}
	return s
}
