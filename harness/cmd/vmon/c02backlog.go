package main

import (
	"crypto/sha256"
	"encoding/binary"
	"fmt"
	"sync"
	"sync/atomic"
	"time"

	"verif/harness/internal/ev"
	"verif/harness/internal/mesh"
)

// C02 backlog trials: several sockets send a burst of datagrams to ONE listener whose reader is not reading yet
// (it starts a second later) - far more datagrams are outstanding than any queue in between would hold. The mesh
// is loss-free and does not change, so once the reader runs every datagram has to arrive, once, unaltered:
// a node may make a sender wait, it may not drop what it accepted.
func runC02Backlog(run *ev.Run, idx int) {
	startLagProbe()
	c := mesh.DefaultConsts()
	c.Idle = time.Hour // the listener's node is busy holding the backlog: no idle-timeout flaps
	m := mesh.New(c, run.Seed*97+int64(idx))
	defer m.Shutdown()
	hops := 1 + idx%2
	ids := []string{"ka", "kb", "kc"}[:hops+1]
	for _, id := range ids {
		m.AddNode(id)
	}
	for i := 0; i+1 < len(ids); i++ {
		m.Connect(ids[i], ids[i+1], 1, false)
	}
	a, z := m.Node(ids[0]).Inst(), m.Node(ids[len(ids)-1]).Inst()
	zid := ids[len(ids)-1]
	if !pollUntil(1500, func() bool {
		_, ok := a.Status().RoutingTable[zid]
		_, ok2 := z.Status().RoutingTable[ids[0]]
		return ok && ok2
	}) {
		run.Inconclusive("C02 backlog: mesh did not form")
		return
	}
	sink, err := z.ListenPacket("sink")
	if err != nil {
		run.Inconclusive("C02 backlog: " + err.Error())
		return
	}
	defer sink.Close()
	senders, per := 4, run.Pick(120, 600)
	total := senders * per
	var sent atomic.Int64
	var wg sync.WaitGroup
	t0 := time.Now()
	for w := 0; w < senders; w++ {
		wg.Add(1)
		go func(w int) {
			defer wg.Done()
			pc, err := a.ListenPacket("")
			if err != nil {
				return
			}
			defer pc.Close()
			for i := 0; i < per; i++ {
				p := make([]byte, 64+(i*37+w*11)%900)
				binary.BigEndian.PutUint32(p[0:], uint32(w))
				binary.BigEndian.PutUint32(p[4:], uint32(i))
				h := sha256.Sum256(p[:8])
				copy(p[8:], h[:])
				for k := 40; k < len(p); k++ {
					p[k] = byte(k*7 + i + w)
				}
				if _, err := pc.WriteTo(p, a.NewAddr(zid, "sink")); err == nil {
					sent.Add(1)
				}
			}
		}(w)
	}
	// the reader starts late
	time.Sleep(time.Duration(800+200*(idx%3)) * time.Millisecond)
	outstanding := sent.Load()
	got := map[[2]uint32]int{}
	bad := 0
	last := time.Now()
	buf := make([]byte, 20000)
	for len(got) < total && time.Since(last) < 15*time.Second {
		_ = sink.SetReadDeadline(time.Now().Add(500 * time.Millisecond))
		n, _, err := sink.ReadFrom(buf)
		if err != nil {
			continue
		}
		last = time.Now()
		if n < 40 {
			bad++
			continue
		}
		w, i := binary.BigEndian.Uint32(buf[0:]), binary.BigEndian.Uint32(buf[4:])
		h := sha256.Sum256(buf[:8])
		ok := string(h[:]) == string(buf[8:40]) && n == 64+(int(i)*37+int(w)*11)%900
		for k := 40; k < n && ok; k++ {
			ok = buf[k] == byte(k*7+int(i)+int(w))
		}
		if !ok {
			bad++
			continue
		}
		got[[2]uint32{w, i}]++
	}
	wdone := make(chan struct{})
	go func() { wg.Wait(); close(wdone) }()
	select {
	case <-wdone:
	case <-time.After(30 * time.Second):
		run.Eval(1)
		run.Inconclusive(fmt.Sprintf("C02 backlog %d: senders still blocked in WriteTo 30 s after the reader went quiet (%d of %d written, %d read)", idx, sent.Load(), total, len(got)))
		return
	}
	run.Eval(1)
	run.Count("backlog_datagrams_sent", sent.Load())
	run.Count("backlog_datagrams_outstanding_when_the_reader_started", outstanding)
	dups := 0
	for _, n := range got {
		if n > 1 {
			dups++
		}
	}
	missing := int(sent.Load()) - len(got)
	switch {
	case bad > 0:
		run.Violation("altered:backlog", fmt.Sprintf("backlog trial %d (%d hops): %d datagrams arrived altered at the late reader", idx, hops, bad), nil)
	case dups > 0:
		run.Violation("duplicate:backlog", fmt.Sprintf("backlog trial %d (%d hops): %d datagrams were delivered more than once", idx, hops, dups), nil)
	case missing > 0:
		if st, mx, tot := starved(t0); st {
			run.Inconclusive(fmt.Sprintf("C02 backlog %d: %d datagrams missing, but this process was starved (largest scheduling delay %v, %v in total)", idx, missing, mx.Round(time.Millisecond), tot.Round(time.Millisecond)))
			return
		}
		run.Violation("lost:backlog", fmt.Sprintf("backlog trial %d (%d hops, mesh unchanged and loss-free): %d sockets wrote %d datagrams to one listener whose reader started %v later (%d were outstanding by then); WriteTo returned nil for all of them, but %d never arrived although the reader then read until nothing came for 15 s", idx, hops, senders, sent.Load(), time.Duration(800+200*(idx%3))*time.Millisecond, outstanding, missing), nil)
	default:
		run.Distinct(fmt.Sprintf("backlog|hops=%d|outstanding>=%d", hops, outstanding/100*100))
	}
}
