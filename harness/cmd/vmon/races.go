package main

import (
	"bufio"
	"os"
	"path/filepath"
	"regexp"
	"sort"
	"strings"

	"verif/harness/internal/ev"
)

var raceFn = regexp.MustCompile(`^\s+([A-Za-z0-9_./\-]+(?:\(\*?[A-Za-z0-9_]+\))?[A-Za-z0-9_.\-]*)\(`)

// raceSignatures parses GORACE log files: one signature per report = the pair of the
// first receptor (or harness) frames of the two conflicting accesses, line numbers stripped.
func raceSignatures(files []string) (map[string]int, int) {
	sigs := map[string]int{}
	total := 0
	for _, fn := range files {
		f, err := os.Open(fn)
		if err != nil {
			continue
		}
		sc := bufio.NewScanner(f)
		sc.Buffer(make([]byte, 1<<20), 1<<24)
		var tops []string
		inReport := false
		wantTop := false
		flush := func() {
			if inReport {
				total++
				for len(tops) < 2 {
					tops = append(tops, "?")
				}
				p := tops[:2]
				sort.Strings(p)
				sigs[p[0]+" <-> "+p[1]]++
			}
			tops = nil
		}
		for sc.Scan() {
			line := sc.Text()
			switch {
			case strings.HasPrefix(line, "WARNING: DATA RACE"):
				flush()
				inReport = true
			case strings.HasPrefix(line, "=================="):
			case strings.HasPrefix(line, "Read at ") || strings.HasPrefix(line, "Write at ") || strings.HasPrefix(line, "Previous read at ") || strings.HasPrefix(line, "Previous write at "):
				wantTop = true
			case strings.HasPrefix(line, "Goroutine "):
				wantTop = false
			default:
				if wantTop && len(tops) < 2 {
					if m := raceFn.FindStringSubmatch(line); m != nil {
						name := m[1]
						if strings.Contains(name, "ansible/receptor") || strings.Contains(name, "verif/harness") || strings.HasPrefix(name, "main.") {
							tops = append(tops, strings.TrimPrefix(name, "github.com/ansible/receptor/"))
							wantTop = false
						}
					}
				}
			}
		}
		flush()
		f.Close()
	}
	return sigs, total
}

// collectRaces records race-detector reports found under dir as diagnostics in the evidence.
func collectRaces(run *ev.Run, dir string) map[string]int {
	files, _ := filepath.Glob(filepath.Join(dir, "race*"))
	sigs, total := raceSignatures(files)
	run.Count("race_reports", int64(total))
	l := []string{}
	for s := range sigs {
		l = append(l, s)
	}
	sort.Strings(l)
	run.Extra("race_signatures", l)
	return sigs
}
