package main

import (
	"bytes"
	"fmt"
	"unicode/utf8"
)

// The harness's OWN minimal DER walker of a subjectAltName extension value (oracle side of C20).
// It understands only what it needs: definite-length TLVs with single-byte tags, the SEQUENCE OF
// GeneralName, otherName [0] { OID, [0] EXPLICIT UTF8String }, dNSName [2], iPAddress [7].
//
// Status of a walk (severity order strict < lenient < malformed; dontcare wins over everything):
//
//	strict    every byte is accounted for by the grammar above; IDs is THE list of encoded ids
//	lenient   walkable, but with an oddity that a conforming reader may either reject or read through
//	          (bytes after the SEQUENCE / inside an otherName after its two fields / after the string,
//	          value wrapper not [0], element with tag number 0 that is not a constructed context tag,
//	          UTF8String content that is not valid UTF-8); IDs are the names present in the bytes
//	malformed a definite DER violation somewhere (truncated, indefinite or non-minimal length,
//	          otherName not starting with an OID, value that is no string); IDs are the names found
//	          in the parts that could still be walked
//	dontcare  constructs this walker refuses to judge (multi-byte tags, string types other than
//	          UTF8String whose decoding rules differ: BMPString, T61String, ...)
type derStatus int

const (
	derStrict derStatus = iota
	derLenient
	derMalformed
	derDontCare
)

func (s derStatus) String() string {
	return [...]string{"strict", "lenient", "malformed", "dontcare"}[s]
}

type sanWalk struct {
	Status    derStatus
	Why       string
	IDs       []string // receptor node ids, in encoding order
	NReceptor int      // otherName entries identified as receptor names (type-id matched)
	DNS       []string
	IPs       [][]byte
}

func (w *sanWalk) raise(s derStatus, why string) {
	if s > w.Status {
		w.Status = s
		w.Why = why
	}
}

type tlvErr int

const (
	tlvOK tlvErr = iota
	tlvTruncated
	tlvIndefinite
	tlvNonMinimal
	tlvHighTag
	tlvTooLong
)

// readTLV splits one TLV off the front of b.
func readTLV(b []byte) (tag byte, content, rest []byte, e tlvErr) {
	if len(b) < 2 {
		return 0, nil, nil, tlvTruncated
	}
	tag = b[0]
	if tag&0x1f == 0x1f {
		return tag, nil, nil, tlvHighTag
	}
	l := int(b[1])
	off := 2
	if l&0x80 != 0 {
		n := l & 0x7f
		if n == 0 {
			return tag, nil, nil, tlvIndefinite
		}
		if n > 4 {
			return tag, nil, nil, tlvTooLong
		}
		if len(b) < 2+n {
			return tag, nil, nil, tlvTruncated
		}
		if b[2] == 0 {
			return tag, nil, nil, tlvNonMinimal
		}
		l = 0
		for i := 0; i < n; i++ {
			l = l<<8 | int(b[2+i])
		}
		if l < 0x80 {
			return tag, nil, nil, tlvNonMinimal
		}
		off = 2 + n
	}
	if l > len(b)-off {
		return tag, nil, nil, tlvTruncated
	}
	return tag, b[off : off+l], b[off+l:], tlvOK
}

func (e tlvErr) String() string {
	return [...]string{"ok", "truncated", "indefinite length", "non-minimal length", "multi-byte tag", "length of length > 4"}[e]
}

var knownStringTags = map[byte]bool{0x12: true, 0x13: true, 0x14: true, 0x15: true, 0x16: true, 0x19: true, 0x1a: true, 0x1b: true, 0x1c: true, 0x1e: true}

// walkSAN decodes the extnValue of a subjectAltName extension.
func walkSAN(ext []byte) *sanWalk {
	w := &sanWalk{}
	tag, body, rest, e := readTLV(ext)
	if e == tlvHighTag {
		w.raise(derDontCare, "top: multi-byte tag")
		return w
	}
	if e != tlvOK {
		w.raise(derMalformed, "top: "+e.String())
		return w
	}
	if tag != 0x30 {
		w.raise(derMalformed, fmt.Sprintf("top: tag %#x is not SEQUENCE", tag))
		return w
	}
	if len(rest) > 0 {
		w.raise(derLenient, "bytes after the SEQUENCE")
	}
	for len(body) > 0 {
		var c []byte
		tag, c, body, e = readTLV(body)
		if e == tlvHighTag {
			w.raise(derDontCare, "element: multi-byte tag")
			return w
		}
		if e != tlvOK {
			w.raise(derMalformed, "element: "+e.String())
			return w
		}
		switch {
		case tag == 0xa0:
			w.otherName(c)
		case tag&0x1f == 0:
			w.raise(derLenient, fmt.Sprintf("element with tag number 0 but identifier %#x", tag))
		case tag == 0x82:
			w.DNS = append(w.DNS, string(c))
		case tag == 0x87:
			w.IPs = append(w.IPs, c)
		}
	}
	return w
}

func (w *sanWalk) otherName(c []byte) {
	tag, oid, rest, e := readTLV(c)
	if e == tlvHighTag {
		w.raise(derDontCare, "otherName: multi-byte tag")
		return
	}
	if e != tlvOK {
		w.raise(derMalformed, "otherName type-id: "+e.String())
		return
	}
	if tag != 0x06 {
		w.raise(derMalformed, fmt.Sprintf("otherName does not start with an OID (identifier %#x)", tag))
		return
	}
	if !bytes.Equal(oid, receptorOIDContent) {
		return // some other kind of otherName: not ours
	}
	w.NReceptor++
	wtag, val, rest2, e := readTLV(rest)
	if e == tlvHighTag {
		w.raise(derDontCare, "otherName value: multi-byte tag")
		return
	}
	if e != tlvOK {
		w.raise(derMalformed, "otherName value: "+e.String())
		return
	}
	if wtag != 0xa0 {
		w.raise(derLenient, fmt.Sprintf("otherName value wrapper %#x is not [0]", wtag))
	}
	if len(rest2) > 0 {
		w.raise(derLenient, "bytes after the otherName value")
	}
	stag, s, rest3, e := readTLV(val)
	if e == tlvHighTag {
		w.raise(derDontCare, "string: multi-byte tag")
		return
	}
	if e != tlvOK {
		w.raise(derMalformed, "string: "+e.String())
		return
	}
	if len(rest3) > 0 {
		w.raise(derLenient, "bytes after the string")
	}
	switch {
	case stag == 0x0c:
		if !utf8.Valid(s) {
			w.raise(derLenient, "UTF8String content is not valid UTF-8")
		}
		w.IDs = append(w.IDs, string(s))
	case knownStringTags[stag]:
		w.raise(derDontCare, fmt.Sprintf("string type %#x", stag))
	default:
		w.raise(derMalformed, fmt.Sprintf("value %#x is not a string", stag))
	}
}

// tlvHeaders lists (offset of the identifier octet, offset of the first length octet, header size)
// for every TLV of a well-formed SAN built by derSAN, descending into otherNames. Used by the
// tamper generator to aim at length fields and tags.
type tlvPos struct{ Tag, Len, HdrEnd, End int }

func tlvHeaders(b []byte, base int, depth int, out *[]tlvPos) {
	for off := 0; off < len(b); {
		tag, c, rest, e := readTLV(b[off:])
		if e != tlvOK {
			return
		}
		hdr := len(b[off:]) - len(c) - len(rest)
		*out = append(*out, tlvPos{base + off, base + off + 1, base + off + hdr, base + off + hdr + len(c)})
		if tag&0x20 != 0 && depth < 6 {
			tlvHeaders(c, base+off+hdr, depth+1, out)
		}
		off += hdr + len(c)
	}
}
