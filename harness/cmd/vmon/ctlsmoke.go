package main

import (
	"encoding/json"
	"fmt"
	"io"
	"os"
	"path/filepath"
	"time"

	"verif/harness/internal/ctl"
	"verif/harness/internal/prng"
)

func init() { register("ctlsmoke", ctlSmoke) }

func genWork() ctl.WorkCmd {
	return ctl.WorkCmd{Type: "gen", Command: os.Getenv("VERIF_VMON"), Params: "workgen"}
}

func ctlSmoke(_ string, _ []string) {
	dir := filepath.Join(workDir(), "smoke")
	d := ctl.NewDaemon(ctl.Cfg{ID: "n1", Dir: dir, TCPCtl: true, Listen: true, Work: []ctl.WorkCmd{genWork()},
		Env: []string{"VERIF_POINT_LOG=" + filepath.Join(dir, "points.log"), "VERIF_STATUS_LOG=" + filepath.Join(dir, "status.log")}})
	if err := d.Start(); err != nil {
		fmt.Println("start:", err, d.OutTail(2000))
		os.Exit(1)
	}
	defer d.Kill()
	c, err := ctl.DialUnix(d.Sock(), 5*time.Second)
	if err != nil {
		fmt.Println(err)
		os.Exit(1)
	}
	spec := GenSpec{Seed: 42, Chunks: []GenChunk{{N: 1000, PauseMs: 300}, {N: 70000, PauseMs: 300}, {N: 5}}}
	pl, _ := json.Marshal(spec)
	r := c.Submit("work submit n1 gen", pl, 10*time.Second)
	fmt.Printf("submit: %+v\n", r)
	c2, _ := ctl.DialTCP(fmt.Sprintf("127.0.0.1:%d", d.CtlPort), 5*time.Second)
	for i := 0; i < 40; i++ {
		l, err := c2.Line("work status "+r.UnitID, 5*time.Second)
		st, perr := ctl.ParseStatus(l)
		fmt.Println("status:", l, err, perr)
		if st != nil && ctl.Final(st.State) {
			break
		}
		time.Sleep(200 * time.Millisecond)
	}
	c3, _ := ctl.DialUnix(d.Sock(), 5*time.Second)
	first, err := c3.ResultsStart(fmt.Sprintf("work results %s 10", r.UnitID), 5*time.Second)
	fmt.Println("results:", first, err)
	_ = c3.C.SetReadDeadline(time.Now().Add(20 * time.Second))
	b, err := io.ReadAll(c3.R)
	fmt.Println("got", len(b), err, "diff at", prng.FirstDiff(42, 10, b), "expected total", spec.Total()-10)
	l, _ := c2.Line("work list", 5*time.Second)
	fmt.Println("list:", l)
	l, _ = c2.Line("work release "+r.UnitID, 5*time.Second)
	fmt.Println("release:", l)
	pl2, _ := os.ReadFile(filepath.Join(dir, "points.log"))
	fmt.Println("points log bytes:", len(pl2))
	sl, _ := os.ReadFile(filepath.Join(dir, "status.log"))
	fmt.Println("status log bytes:", len(sl))
	os.Stdout.Write(sl[:min(len(sl), 1500)])
}
