package main

import (
	"fmt"
	"math/rand"
	"sync"
	"time"

	"verif/harness/internal/ev"
	"verif/harness/internal/mesh"

	"github.com/ansible/receptor/pkg/netceptor"
)

// C18 churn trial: one owner with many advertised listeners and a short advertisement period; the
// listeners are closed at random moments, i.e. also while the owner is in the middle of sending its
// periodic advertisements. After the last close and a bounded number of advertisement periods no other
// node may list any of them.
func runC18Churn(run *ev.Run, idx int, seed int64) {
	rng := rand.New(rand.NewSource(seed))
	c := mesh.DefaultConsts()
	c.RouteUpdate = 300 * time.Millisecond
	c.ServiceAd = 120 * time.Millisecond
	c.Idle = time.Hour
	m := mesh.New(c, seed)
	defer m.Shutdown()
	m.AddNode("co")
	m.AddNode("cp")
	m.AddNode("cq")
	m.Connect("co", "cp", 1, false)
	m.Connect("cp", "cq", 1, false)
	o := m.Node("co").Inst()
	if !pollUntil(1500, func() bool {
		_, ok := m.Node("cq").Inst().Status().RoutingTable["co"]
		return ok
	}) {
		run.Eval(1)
		run.Inconclusive("C18 churn: mesh did not form")
		return
	}
	const n = 120
	for round := 0; round < 2; round++ {
		pcs := make([]netceptor.PacketConner, n)
		for i := 0; i < n; i++ {
			pc, err := o.ListenPacketAndAdvertise(fmt.Sprintf("c%03d", i), map[string]string{"gen": fmt.Sprint(round + 1)})
			if err == nil {
				pcs[i] = pc
			}
		}
		// the peers learn them
		pollUntil(300, func() bool {
			k := 0
			for _, a := range m.Node("cq").Inst().Status().Advertisements {
				if a.NodeID == "co" {
					k++
				}
			}
			return k >= n
		})
		var wg sync.WaitGroup
		for i := 0; i < n; i++ {
			if pcs[i] == nil {
				continue
			}
			wg.Add(1)
			go func(pc netceptor.PacketConner, d time.Duration) {
				defer wg.Done()
				time.Sleep(d)
				_ = pc.Close()
			}(pcs[i], time.Duration(rng.Intn(1500000))*time.Microsecond)
		}
		wg.Wait()
	}
	// bounded progress: 25 advertisement periods after the last close
	time.Sleep(25 * c.ServiceAd)
	left := map[string][]string{}
	for try := 0; try < 3; try++ {
		left = map[string][]string{}
		for _, peer := range []string{"cp", "cq", "co"} {
			for _, a := range m.Node(peer).Inst().Status().Advertisements {
				if a.NodeID == "co" {
					left[peer] = append(left[peer], a.Service+"#"+a.Tags["gen"])
				}
			}
		}
		if len(left) == 0 {
			break
		}
		time.Sleep(5 * c.ServiceAd)
	}
	run.Eval(1)
	run.Count("churn_listeners_closed", 2*n)
	if len(left) > 0 {
		run.Violation("converge:extra", fmt.Sprintf("churn trial %d: %d advertised listeners of one node were closed at random moments (advertisement period %v); 25+ periods after the last close these are still listed: %v", idx, 2*n, c.ServiceAd, left), map[string]any{"still_listed": left})
	} else {
		run.Distinct(fmt.Sprintf("churn|%d", idx%2))
	}
}
