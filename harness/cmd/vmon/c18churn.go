package main

import (
	"fmt"
	"math/rand"
	"sync"
	"time"

	"verif/harness/internal/ev"
	"verif/harness/internal/mesh"

	"github.com/ansible/receptor/pkg/netceptor"
)

// C18 churn trial: one owner with many advertised listeners and a short advertisement period; the
// listeners are closed at random moments, i.e. also while the owner is in the middle of sending its
// periodic advertisements. After the last close and a bounded number of advertisement periods no other
// node may list any of them.
func runC18Churn(run *ev.Run, idx int, seed int64) {
	startLagProbe()
	rng := rand.New(rand.NewSource(seed))
	c := mesh.DefaultConsts()
	c.RouteUpdate = 300 * time.Millisecond
	c.ServiceAd = 120 * time.Millisecond
	c.Idle = time.Hour
	m := mesh.New(c, seed)
	defer m.Shutdown()
	m.AddNode("co")
	m.AddNode("cp")
	m.AddNode("cq")
	m.Connect("co", "cp", 1, false)
	m.Connect("cp", "cq", 1, false)
	o := m.Node("co").Inst()
	if !pollUntil(1500, func() bool {
		_, ok := m.Node("cq").Inst().Status().RoutingTable["co"]
		return ok
	}) {
		run.Eval(1)
		run.Inconclusive("C18 churn: mesh did not form")
		return
	}
	const n = 120
	for round := 0; round < 2; round++ {
		pcs := make([]netceptor.PacketConner, n)
		for i := 0; i < n; i++ {
			pc, err := o.ListenPacketAndAdvertise(fmt.Sprintf("c%03d", i), map[string]string{"gen": fmt.Sprint(round + 1)})
			if err == nil {
				pcs[i] = pc
			}
		}
		// the peers learn them
		pollUntil(300, func() bool {
			k := 0
			for _, a := range m.Node("cq").Inst().Status().Advertisements {
				if a.NodeID == "co" {
					k++
				}
			}
			return k >= n
		})
		var wg sync.WaitGroup
		for i := 0; i < n; i++ {
			if pcs[i] == nil {
				continue
			}
			wg.Add(1)
			go func(pc netceptor.PacketConner, d time.Duration) {
				defer wg.Done()
				time.Sleep(d)
				_ = pc.Close()
			}(pcs[i], time.Duration(rng.Intn(1500000))*time.Microsecond)
		}
		wg.Wait()
	}
	// bounded progress: 25 advertisement periods after the last close, then up to a minute of polling (a withdrawal
	// that was delivered is never undone later, so waiting longer can hide a violation but never make one)
	time.Sleep(25 * c.ServiceAd)
	lastClose := time.Now()
	pollUntil(3000, func() bool {
		for _, peer := range []string{"cp", "cq", "co"} {
			for _, a := range m.Node(peer).Inst().Status().Advertisements {
				if a.NodeID == "co" {
					return false
				}
			}
		}
		return true
	})
	left := map[string][]string{}
	for try := 0; try < 3; try++ {
		left = map[string][]string{}
		for _, peer := range []string{"cp", "cq", "co"} {
			for _, a := range m.Node(peer).Inst().Status().Advertisements {
				if a.NodeID == "co" {
					left[peer] = append(left[peer], a.Service+"#"+a.Tags["gen"])
				}
			}
		}
		if len(left) == 0 {
			break
		}
		time.Sleep(5 * c.ServiceAd)
	}
	run.Eval(1)
	run.Count("churn_listeners_closed", 2*n)
	if st, mx, tot := starved(lastClose.Add(-30 * time.Second)); st && len(left) > 0 {
		run.Count("verdicts_withheld_because_the_process_was_starved", 1)
		run.Inconclusive(fmt.Sprintf("C18 churn %d: closed services still listed, but this process was starved (largest scheduling delay %v, %v in total): no verdict", idx, mx.Round(time.Millisecond), tot.Round(time.Millisecond)))
	} else if len(left) > 0 {
		run.Violation("converge:extra", fmt.Sprintf("churn trial %d: %d advertised listeners of one node were closed at random moments (advertisement period %v); a minute after the last close these are still listed: %v", idx, 2*n, c.ServiceAd, left), map[string]any{"still_listed": left})
	} else {
		run.Distinct(fmt.Sprintf("churn|%d", idx%2))
	}
}

// C18 tight churn: the owner's advertisement timer fires every few milliseconds while single advertised
// listeners are opened and closed in quick succession, so that a timer run lands inside Close itself. Whatever
// the interleaving of the withdrawal, the registry update and a timer run, nothing may stay listed afterwards.
func runC18Tight(run *ev.Run, idx int, seed int64) {
	startLagProbe()
	rng := rand.New(rand.NewSource(seed))
	c := mesh.DefaultConsts()
	c.RouteUpdate = 300 * time.Millisecond
	c.ServiceAd = time.Duration(2+idx%3) * time.Millisecond
	c.Idle = time.Hour
	m := mesh.New(c, seed)
	defer m.Shutdown()
	m.AddNode("to")
	m.AddNode("tp")
	m.Connect("to", "tp", 1, false)
	o, p := m.Node("to").Inst(), m.Node("tp").Inst()
	if !pollUntil(1500, func() bool {
		_, ok := p.Status().RoutingTable["to"]
		return ok
	}) {
		run.Eval(1)
		run.Inconclusive("C18 tight churn: mesh did not form")
		return
	}
	cycles := run.Pick(1200, 6000)
	workers := 3
	var wg sync.WaitGroup
	for w := 0; w < workers; w++ {
		wg.Add(1)
		go func(w int, wseed int64) {
			defer wg.Done()
			wr := rand.New(rand.NewSource(wseed))
			for i := 0; i < cycles/workers; i++ {
				pc, err := o.ListenPacketAndAdvertise(fmt.Sprintf("t%d-%04d", w, i), map[string]string{"gen": "1"})
				if err != nil {
					continue
				}
				if wr.Intn(4) == 0 {
					time.Sleep(time.Duration(wr.Intn(3000)) * time.Microsecond)
				}
				_ = pc.Close()
			}
		}(w, rng.Int63())
	}
	wg.Wait()
	// bounded progress: up to a minute of polling after the last close, then the looks that decide
	time.Sleep(400 * time.Millisecond)
	lastClose := time.Now()
	pollUntil(3000, func() bool {
		for _, peer := range []string{"tp", "to"} {
			for _, a := range m.Node(peer).Inst().Status().Advertisements {
				if a.NodeID == "to" {
					return false
				}
			}
		}
		return true
	})
	left := map[string][]string{}
	for try := 0; try < 4; try++ {
		left = map[string][]string{}
		for _, peer := range []string{"tp", "to"} {
			for _, a := range m.Node(peer).Inst().Status().Advertisements {
				if a.NodeID == "to" {
					left[peer] = append(left[peer], a.Service)
				}
			}
		}
		if len(left) == 0 {
			break
		}
		time.Sleep(300 * time.Millisecond)
	}
	run.Eval(1)
	run.Count("tight_churn_open_close_cycles", int64(cycles/workers*workers))
	if st, mx, tot := starved(lastClose.Add(-30 * time.Second)); st && len(left) > 0 {
		run.Count("verdicts_withheld_because_the_process_was_starved", 1)
		run.Inconclusive(fmt.Sprintf("C18 tight churn %d: closed services still listed, but this process was starved (largest scheduling delay %v, %v in total): no verdict", idx, mx.Round(time.Millisecond), tot.Round(time.Millisecond)))
	} else if len(left) > 0 {
		run.Violation("converge:extra:closed-during-advertisement-run", fmt.Sprintf("tight churn %d: %d advertised listeners were opened and closed in quick succession while the owner's advertisement timer ran every %v; well after the last close these closed services are still listed: %v", idx, cycles/workers*workers, c.ServiceAd, left), map[string]any{"still_listed": left})
	} else {
		run.Distinct(fmt.Sprintf("tight-churn|period=%v", c.ServiceAd))
	}
}

// C18 relay restart: chain owner - relay - far. The far node has learned the owner's service; the relay is
// restarted (it comes back knowing nothing of the owner's services, and the owner's next periodic advertisement
// is far away); as soon as the relay is connected again the owner closes the service. The withdrawal has to get
// through the relay although the relay has nothing to withdraw itself, and the far node must drop the service.
func runC18RelayRestart(run *ev.Run, idx int, seed int64) {
	rng := rand.New(rand.NewSource(seed))
	c := mesh.DefaultConsts()
	c.RouteUpdate = 300 * time.Millisecond
	c.ServiceAd = time.Hour // periodic re-advertisement never helps within the trial
	c.Idle = time.Hour
	m := mesh.New(c, seed)
	defer m.Shutdown()
	ids := []string{"ro", "rr", "rf"}
	if idx%2 == 1 {
		ids = []string{"ro", "rr", "rs", "rf"} // two relays, the one next to the owner restarts
	}
	for _, id := range ids {
		m.AddNode(id)
	}
	for i := 0; i+1 < len(ids); i++ {
		m.Connect(ids[i], ids[i+1], 1, false)
	}
	far := ids[len(ids)-1]
	o := m.Node("ro").Inst()
	routed := func() bool {
		_, ok := m.Node(far).Inst().Status().RoutingTable["ro"]
		_, ok2 := o.Status().RoutingTable[far]
		return ok && ok2
	}
	if !pollUntil(1500, routed) {
		run.Eval(1)
		run.Inconclusive("C18 relay restart: mesh did not form")
		return
	}
	nsvc := 1 + rng.Intn(3)
	pcs := []netceptor.PacketConner{}
	for i := 0; i < nsvc; i++ {
		pc, err := o.ListenPacketAndAdvertise(fmt.Sprintf("rs%d", i), map[string]string{"gen": "1"})
		if err == nil {
			pcs = append(pcs, pc)
		}
	}
	listed := func(node string) int {
		k := 0
		for _, a := range m.Node(node).Inst().Status().Advertisements {
			if a.NodeID == "ro" {
				k++
			}
		}
		return k
	}
	// advertisements are sent a few seconds after a listener opens (the owner's own timer): wait for the far node
	if !pollUntil(3000, func() bool { return listed(far) >= len(pcs) }) {
		run.Eval(1)
		run.Inconclusive(fmt.Sprintf("C18 relay restart %d: the far node never learned the owner's %d services", idx, len(pcs)))
		return
	}
	// restart the relay; documented epoch granularity: at least 1.1 s after its previous start
	if d := time.Until(m.Node("rr").Started.Add(1100 * time.Millisecond)); d > 0 {
		time.Sleep(d)
	}
	m.RestartNode("rr")
	rr := m.Node("rr").Inst() // the new instance
	relayUp := func() bool {
		// the restarted instance itself reports sessions with both neighbours and routes to both ends,
		// and both ends route through to each other
		st := rr.Status()
		conns := map[string]bool{}
		for _, c := range st.Connections {
			conns[c.NodeID] = true
		}
		_, r1 := st.RoutingTable["ro"]
		_, r2 := st.RoutingTable[far]
		return conns["ro"] && conns[ids[2]] && r1 && r2 && routed()
	}
	if !pollUntil(3000, relayUp) {
		run.Eval(1)
		run.Inconclusive(fmt.Sprintf("C18 relay restart %d: mesh did not re-form", idx))
		return
	}
	time.Sleep(2*c.RouteUpdate + time.Duration(rng.Intn(300))*time.Millisecond)
	if !relayUp() {
		run.Eval(1)
		run.Inconclusive(fmt.Sprintf("C18 relay restart %d: mesh not stable after the restart", idx))
		return
	}
	relayKnew := listed("rr")
	for _, pc := range pcs {
		_ = pc.Close()
	}
	ok := pollUntil(1500, func() bool { return listed(far) == 0 && listed("rr") == 0 })
	run.Eval(1)
	run.Count("relay_restart_withdrawals", int64(len(pcs)))
	if relayKnew == 0 {
		run.Count("relay_restart_relay_had_no_entry_at_withdrawal", 1)
	}
	if !ok {
		// was the path there all the time? (a withdrawal lost on a broken path is not this oracle's business)
		if !routed() {
			run.Inconclusive(fmt.Sprintf("C18 relay restart %d: route lost while waiting", idx))
			return
		}
		run.Violation("converge:extra:withdrawal-through-restarted-relay", fmt.Sprintf("relay restart %d (chain %v): the far node had learned %d service(s) of ro, relay rr was restarted (it listed %d of them when they were closed), then ro closed them; 30 s later (route intact) they are still listed: far=%d relay=%d", idx, ids, len(pcs), relayKnew, listed(far), listed("rr")), nil)
		return
	}
	run.Distinct(fmt.Sprintf("relay-restart|chain=%d|relay-knew=%v", len(ids), relayKnew > 0))
}
