package main

import (
	"crypto/tls"
	"crypto/x509"
	"fmt"
	"time"

	"github.com/ansible/receptor/pkg/certificates"
	"github.com/ansible/receptor/pkg/netceptor"
)

// C20, long-lived verifier: receptor's peer verification is installed when a listener is configured and
// then serves certificates that are issued later. A certificate produced by the tooling with the default
// validity window (from now on) must be accepted for its requested ids by a verifier that already existed
// when the certificate was issued.
func (e *c20Env) longLived(n int) {
	run := e.run
	pool := x509.NewCertPool()
	pool.AddCert(e.ca.Certificate)
	tlscfg := &tls.Config{RootCAs: pool, ClientCAs: pool}
	for i := 0; i < n; i++ {
		id := fmt.Sprintf("late-node-%d", i)
		vs := netceptor.ReceptorVerifyFunc(tlscfg, nil, id, netceptor.ExpectedHostnameTypeReceptor, netceptor.VerifyServer, e.log)
		vo := netceptor.ReceptorVerifyFunc(tlscfg, nil, "someone-else", netceptor.ExpectedHostnameTypeReceptor, netceptor.VerifyServer, e.log)
		// cross a full second boundary so that the certificate's NotBefore lies after the verifier's creation
		time.Sleep(time.Until(time.Now().Truncate(time.Second).Add(1100 * time.Millisecond)))
		req, _, err := certificates.CreateCertReqWithKey(&certificates.CertOptions{CommonName: "c20-late", Bits: 2048, CertNames: certificates.CertNames{NodeIDs: []string{id}}})
		if err != nil || req == nil {
			run.Inconclusive("C20 long-lived verifier: request not created: " + fmt.Sprint(err))
			return
		}
		cert, err := certificates.SignCertReq(req, e.ca, &certificates.CertOptions{})
		if err != nil || cert == nil {
			run.Inconclusive("C20 long-lived verifier: request not signed: " + fmt.Sprint(err))
			return
		}
		run.Eval(1)
		w := map[string]any{"id": id, "not_before": cert.NotBefore, "not_after": cert.NotAfter}
		if err := vs([][]byte{cert.Raw}, nil); err != nil {
			run.Violation("verify:rejects-requested:long-lived-verifier", fmt.Sprintf("a certificate issued for node id %q (validity from the moment of issue) is refused for that id by a verifier created about a second before the certificate was issued: %v", id, err), w)
			continue
		}
		if err := vo([][]byte{cert.Raw}, nil); err == nil {
			run.Violation("verify:accepts-other:long-lived-verifier", fmt.Sprintf("a certificate issued for node id %q is accepted for another id by a long-lived verifier", id), w)
			continue
		}
		run.Distinct(fmt.Sprintf("long-lived-verifier|%d", i))
	}
}
