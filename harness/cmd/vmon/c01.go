package main

import (
	"crypto/sha256"
	"encoding/hex"
	"fmt"
	"math"
	"math/rand"
	"os"
	"path/filepath"
	"runtime/pprof"
	"sort"
	"strings"
	"sync"
	"time"

	"verif/harness/internal/ev"
	"verif/harness/internal/memnet"
	"verif/harness/internal/mesh"
	"verif/harness/internal/wire"
)

// C01 — routing converges to least-cost, loop-free next hops after topology changes stop.

func init() { register("C01", runC01) }

type c01Event struct {
	Kind string  `json:"kind"`
	A    string  `json:"a,omitempty"`
	B    string  `json:"b,omitempty"`
	Cost float64 `json:"cost,omitempty"`
	Gap  int     `json:"gap_ms"`
}

type c01Spec struct {
	Trial         int        `json:"trial"`
	Nodes         []string   `json:"nodes"`
	Links         []c01Event `json:"links"`
	Script        []c01Event `json:"script"`
	CtlDelayMaxMs int        `json:"ctl_delay_max_ms"`
}

var c01Costs = []float64{0.5, 1, 2, 3, 7, 10, 4, 6}

func genC01(rng *rand.Rand, trial int) *c01Spec {
	sp := &c01Spec{Trial: trial}
	n := 2 + rng.Intn(8)
	if trial%4 == 1 {
		n = 6 + rng.Intn(4)
	}
	for i := 0; i < n; i++ {
		sp.Nodes = append(sp.Nodes, fmt.Sprintf("n%d", i))
	}
	has := map[string]bool{}
	add := func(a, b string) bool {
		if a == b || has[a+"|"+b] || has[b+"|"+a] {
			return false
		}
		has[a+"|"+b] = true
		sp.Links = append(sp.Links, c01Event{Kind: "link", A: a, B: b, Cost: c01Costs[rng.Intn(len(c01Costs))]})
		return true
	}
	// components: mostly one, sometimes two (a partitioned mesh)
	split := n
	if n >= 4 && rng.Intn(4) == 0 {
		split = 2 + rng.Intn(n-3)
	}
	for i := 1; i < n; i++ {
		if i == split {
			continue // first node of the second component
		}
		lo := 0
		if i > split {
			lo = split
		}
		add(sp.Nodes[i], sp.Nodes[lo+rng.Intn(i-lo)])
	}
	extra := rng.Intn(n)
	dense := trial%4 == 1
	if dense {
		// dense weighted graphs with many competing paths of different cost orders (no partition)
		extra = n + rng.Intn(2*n)
	}
	for k := 0; k < extra; k++ {
		a, b := rng.Intn(n), rng.Intn(n)
		if split < n && (a < split) != (b < split) {
			continue
		}
		add(sp.Nodes[a], sp.Nodes[b])
	}
	sp.CtlDelayMaxMs = []int{0, 0, 20, 100, 300}[rng.Intn(5)]
	// script
	ne := rng.Intn(13)
	if trial%7 == 0 {
		ne = 0
	}
	if dense {
		ne = rng.Intn(3) // mostly the topology itself is the subject
	}
	type lstate struct{ up, silent bool }
	ls := map[string]*lstate{}
	for _, l := range sp.Links {
		ls[l.A+"|"+l.B] = &lstate{up: true}
	}
	alive := map[string]bool{}
	for _, id := range sp.Nodes {
		alive[id] = true
	}
	gaps := []int{0, 0, 50, 200, 400, 800}
	// trials with parallel sessions: two nodes both dialling each other produce a second session between a
	// connected pair, which the receiver refuses; the refusal must leave the established connection alone.
	// (no silent failures / abrupt deaths in these trials: the oracle treats the pair as one edge of one cost)
	parallel := trial%5 == 2 && len(sp.Links) > 0
	if parallel {
		ne += 2
		l := sp.Links[rng.Intn(len(sp.Links))]
		sp.Script = append(sp.Script, c01Event{Kind: "parallel", A: l.A, B: l.B, Gap: gaps[rng.Intn(len(gaps))]})
	}
	if trial%6 == 3 && !dense && n >= 3 && len(sp.Links) > 0 {
		// restart after a long uptime: the node has originated many updates, is restarted (new epoch, sequence numbers
		// start again) and then gains or loses a link; everybody must follow the new incarnation within the usual bound
		l := sp.Links[rng.Intn(len(sp.Links))]
		x := l.A
		sp.Script = append(sp.Script, c01Event{Kind: "restart", A: x, Gap: 12000})
		other := sp.Nodes[rng.Intn(n)]
		if other != x && !has[x+"|"+other] && !has[other+"|"+x] {
			has[x+"|"+other] = true
			ls[x+"|"+other] = &lstate{up: true}
			sp.Script = append(sp.Script, c01Event{Kind: "new", A: x, B: other, Cost: c01Costs[rng.Intn(len(c01Costs))], Gap: 400})
		} else {
			ls[l.A+"|"+l.B].up = false
			sp.Script = append(sp.Script, c01Event{Kind: "down", A: l.A, B: l.B, Gap: 400})
		}
		ne = 0
	}
	for k := 0; k < ne; k++ {
		e := c01Event{Gap: gaps[rng.Intn(len(gaps))]}
		switch r := rng.Intn(100); {
		case r < 25: // link down
			keys := []string{}
			for k2, s := range ls {
				if s.up {
					keys = append(keys, k2)
				}
			}
			if len(keys) == 0 {
				continue
			}
			sort.Strings(keys)
			k2 := keys[rng.Intn(len(keys))]
			ab := strings.Split(k2, "|")
			e.Kind, e.A, e.B = "down", ab[0], ab[1]
			ls[k2].up = false
		case r < 45: // link up (a down one, or a brand-new one possibly healing a partition)
			keys := []string{}
			for k2, s := range ls {
				if !s.up {
					keys = append(keys, k2)
				}
			}
			sort.Strings(keys)
			if len(keys) > 0 && rng.Intn(2) == 0 {
				k2 := keys[rng.Intn(len(keys))]
				ab := strings.Split(k2, "|")
				e.Kind, e.A, e.B = "up", ab[0], ab[1]
				ls[k2].up = true
				ls[k2].silent = false
			} else {
				a, b := sp.Nodes[rng.Intn(n)], sp.Nodes[rng.Intn(n)]
				if a == b || has[a+"|"+b] || has[b+"|"+a] {
					continue
				}
				has[a+"|"+b] = true
				e.Kind, e.A, e.B, e.Cost = "new", a, b, c01Costs[rng.Intn(len(c01Costs))]
				ls[a+"|"+b] = &lstate{up: true}
			}
		case r < 58 && parallel: // a second session between two connected nodes (both configured to dial each other)
			keys := []string{}
			for k2, s := range ls {
				if s.up {
					keys = append(keys, k2)
				}
			}
			if len(keys) == 0 {
				continue
			}
			sort.Strings(keys)
			ab := strings.Split(keys[rng.Intn(len(keys))], "|")
			e.Kind, e.A, e.B = "parallel", ab[0], ab[1]
			if rng.Intn(2) == 0 {
				e.A, e.B = e.B, e.A
			}
		case r < 58: // silent failure
			keys := []string{}
			for k2, s := range ls {
				if s.up && !s.silent {
					keys = append(keys, k2)
				}
			}
			if len(keys) == 0 {
				continue
			}
			sort.Strings(keys)
			k2 := keys[rng.Intn(len(keys))]
			ab := strings.Split(k2, "|")
			e.Kind, e.A, e.B = "silent", ab[0], ab[1]
			ls[k2].silent = true
		case r < 70: // node stop
			id := sp.Nodes[rng.Intn(n)]
			if !alive[id] {
				continue
			}
			e.Kind, e.A = "stop", id
			alive[id] = false
		case r < 80: // abrupt death
			id := sp.Nodes[rng.Intn(n)]
			if !alive[id] {
				continue
			}
			e.Kind, e.A = "die", id
			if parallel {
				e.Kind = "stop"
			}
			alive[id] = false
		default: // restart (alive or not)
			id := sp.Nodes[rng.Intn(n)]
			e.Kind, e.A = "restart", id
			alive[id] = true
		}
		sp.Script = append(sp.Script, e)
	}
	return sp
}

type c01Trial struct {
	sp       *c01Spec
	m        *mesh.Mesh
	mu       sync.Mutex
	orig     map[string]map[string]bool // node -> set of "epoch/seq" originated
	order    []byte                     // running hash input of delivery order
	h        [32]byte
	routes   int64
	links    map[string]*mesh.LinkInfo
	silentL  map[string]bool
	dead     map[string]bool // abruptly dead nodes (zombie instance still running, isolated)
	idleEv   bool
	parallel int
}

func (t *c01Trial) tap(e memnet.TapEvent) {
	if len(e.Data) == 0 || e.Data[0] != wire.TRoute {
		return
	}
	if e.Dir == "recv" {
		t.routes++
		r, err := wire.DecodeRoute(e.Data)
		if err == nil {
			hh := sha256.Sum256(append(t.h[:], []byte(e.Link+">"+e.To+":"+r.NodeID+fmt.Sprint(r.UpdateSequence))...))
			t.h = hh
		}
		return
	}
	if e.Dir != "send" {
		return
	}
	r, err := wire.DecodeRoute(e.Data)
	if err != nil || r.NodeID != r.ForwardingNode || r.NodeID != e.From {
		return
	}
	s := t.orig[e.From]
	if s == nil {
		s = map[string]bool{}
		t.orig[e.From] = s
	}
	s[fmt.Sprintf("%d/%d", r.UpdateEpoch, r.UpdateSequence)] = true
}

func (t *c01Trial) originated() map[string]int {
	out := map[string]int{}
	// read under the tap mutex by issuing through Net? simpler: tap runs under net.tapMu;
	// we take a snapshot via a dedicated lock
	t.mu.Lock()
	for k, v := range t.orig {
		out[k] = len(v)
	}
	t.mu.Unlock()
	return out
}

func lkey(a, b string) string { return a + "|" + b }

func (t *c01Trial) findLink(a, b string) *mesh.LinkInfo {
	if l, ok := t.links[lkey(a, b)]; ok {
		return l
	}
	return t.links[lkey(b, a)]
}

func (t *c01Trial) apply(e c01Event) {
	switch e.Kind {
	case "down":
		t.findLink(e.A, e.B).L.Down()
	case "up":
		li := t.findLink(e.A, e.B)
		li.Dead = false
		t.silentL[li.L.ID] = false
		li.L.Up() // clears silence
		// a link of an abruptly dead node stays silent
		if t.dead[li.A] || t.dead[li.B] {
			li.L.Silence(true, true)
		}
	case "new":
		li := t.m.Connect(e.A, e.B, e.Cost, false)
		t.links[lkey(e.A, e.B)] = li
		if t.dead[e.A] || t.dead[e.B] {
			li.L.Silence(true, true)
		}
	case "parallel":
		// same cost as the first link of the pair, so that the oracle does not depend on which session wins
		li := t.m.Connect(e.A, e.B, t.findLink(e.A, e.B).Cost, false)
		li.L.Redial = 150 * time.Millisecond
		t.parallel++
	case "silent":
		li := t.findLink(e.A, e.B)
		li.Dead = true
		t.silentL[li.L.ID] = true
		li.L.Silence(true, true)
		t.idleEv = true
	case "stop":
		t.m.StopNode(e.A)
		delete(t.dead, e.A)
	case "die":
		n := t.m.Node(e.A)
		for _, li := range t.links {
			if li.A == e.A || li.B == e.A {
				li.L.Silence(true, true)
			}
		}
		t.dead[e.A] = true
		t.idleEv = true
		// mark not alive for the oracle; the isolated instance keeps running (nobody can hear it)
		setAlive(n, false)
	case "restart":
		n := t.m.Node(e.A)
		// documented epoch granularity: a restart is at least 1.1 s after the previous start
		if d := time.Until(n.Started.Add(1100 * time.Millisecond)); d > 0 {
			time.Sleep(d)
		}
		wasDead := t.dead[e.A]
		if wasDead {
			setAlive(n, true) // so RestartNode shuts the zombie down
		}
		delete(t.dead, e.A)
		t.m.RestartNode(e.A)
		for _, li := range t.links {
			if li.A == e.A || li.B == e.A {
				other := li.A
				if other == e.A {
					other = li.B
				}
				if !t.silentL[li.L.ID] && !t.dead[other] {
					li.L.Silence(false, false)
				}
			}
		}
	}
}

func setAlive(n *mesh.Node, v bool) {
	// Node.mu is unexported; use the exported helper
	n.SetAlive(v)
}

type c01Diff struct {
	Node  string `json:"node"`
	Dest  string `json:"dest"`
	Class string `json:"class"`
	Info  string `json:"info"`
}

func (t *c01Trial) evaluate() []c01Diff {
	topo := t.m.Topo()
	d := topo.Dist()
	diffs := []c01Diff{}
	tables := map[string]map[string]string{}
	for _, n := range topo.Nodes {
		st := t.m.Node(n).Inst().Status()
		tables[n] = st.RoutingTable
	}
	for _, n := range topo.Nodes {
		inst := t.m.Node(n).Inst()
		rt := tables[n]
		for _, dst := range topo.Nodes {
			if dst == n {
				continue
			}
			nh, ok := rt[dst]
			reach := !math.IsInf(d[n][dst], 1)
			if reach && !ok {
				diffs = append(diffs, c01Diff{n, dst, "missing", fmt.Sprintf("reachable at cost %v but not in table", d[n][dst])})
				continue
			}
			if !reach {
				if ok {
					diffs = append(diffs, c01Diff{n, dst, "extra", "unreachable but in table via " + nh})
				}
				continue
			}
			adm := topo.NextHops(d, n, dst)
			good := false
			for _, a := range adm {
				if a == nh {
					good = true
				}
			}
			if !good {
				diffs = append(diffs, c01Diff{n, dst, "nexthop", fmt.Sprintf("next hop %s not among least-cost neighbours %v", nh, adm)})
			}
			pc, err := inst.PathCost(dst)
			if err != nil || pc != d[n][dst] {
				diffs = append(diffs, c01Diff{n, dst, "cost", fmt.Sprintf("reported %v (err %v), least cost %v", pc, err, d[n][dst])})
			}
			// next-hop walk through the actual tables
			cur, steps := n, 0
			seen := map[string]bool{n: true}
			for cur != dst && steps <= len(topo.Nodes) {
				nx, ok := tables[cur][dst]
				if !ok {
					diffs = append(diffs, c01Diff{n, dst, "walk", "walk stops at " + cur})
					break
				}
				if seen[nx] {
					diffs = append(diffs, c01Diff{n, dst, "loop", "walk revisits " + nx})
					break
				}
				seen[nx] = true
				cur = nx
				steps++
			}
		}
		// entries for nodes that are not alive at all
		for dst, nh := range rt {
			if _, ok := topo.Adj[dst]; !ok {
				diffs = append(diffs, c01Diff{n, dst, "extra", "stopped node still in table via " + nh})
			}
		}
	}
	return diffs
}

// waitEstablished waits (bounded) until, for every pair of live nodes joined by a link that is up and not silently
// failed, both ends list the other as a connection.
func (t *c01Trial) waitEstablished(limit time.Duration) bool {
	deadline := time.Now().Add(limit)
	for {
		topo := t.m.Topo()
		conns := map[string]map[string]bool{}
		for _, n := range topo.Nodes {
			conns[n] = map[string]bool{}
			for _, c := range t.m.Node(n).Inst().Status().Connections {
				conns[n][c.NodeID] = true
			}
		}
		ok := true
		for a, adj := range topo.Adj {
			if t.dead[a] {
				continue
			}
			for b := range adj {
				if t.dead[b] {
					continue
				}
				if !conns[a][b] || !conns[b][a] {
					ok = false
				}
			}
		}
		if ok {
			return true
		}
		if time.Now().After(deadline) {
			return false
		}
		time.Sleep(50 * time.Millisecond)
	}
}

// waitRounds waits until every live node having a live link originated k more updates.
func (t *c01Trial) waitRounds(k int, watchdog time.Duration) bool {
	base := t.originated()
	deadline := time.Now().Add(watchdog)
	for {
		topo := t.m.Topo()
		cur := t.originated()
		ok := true
		for _, n := range topo.Nodes {
			if len(topo.Adj[n]) == 0 {
				continue
			}
			if cur[n]-base[n] < k {
				ok = false
				break
			}
		}
		if ok {
			return true
		}
		if time.Now().After(deadline) {
			return false
		}
		time.Sleep(50 * time.Millisecond)
	}
}

func runC01Trial(run *ev.Run, sp *c01Spec, seed int64) {
	startLagProbe()
	trialStart := time.Now()
	c := mesh.DefaultConsts()
	m := mesh.New(c, seed*100000+int64(sp.Trial))
	t := &c01Trial{sp: sp, m: m, orig: map[string]map[string]bool{}, links: map[string]*mesh.LinkInfo{}, silentL: map[string]bool{}, dead: map[string]bool{}}
	m.Net.Tap = func(e memnet.TapEvent) { t.mu.Lock(); t.tap(e); t.mu.Unlock() }
	defer m.Shutdown()
	for _, id := range sp.Nodes {
		m.AddNode(id)
	}
	rng := rand.New(rand.NewSource(seed*7777 + int64(sp.Trial)))
	for _, l := range sp.Links {
		li := m.Connect(l.A, l.B, l.Cost, rng.Intn(3) == 0)
		li.L.SetPlan(memnet.Plan{CtlDelayMax: time.Duration(sp.CtlDelayMaxMs) * time.Millisecond})
		t.links[lkey(l.A, l.B)] = li
	}
	// let the initial mesh form a little (not required for the verdict)
	time.Sleep(time.Duration(200+rng.Intn(600)) * time.Millisecond)
	kinds := map[string]bool{}
	for _, e := range sp.Script {
		time.Sleep(time.Duration(e.Gap) * time.Millisecond)
		t.apply(e)
		kinds[e.Kind] = true
		run.Count("events_"+e.Kind, 1)
	}
	nv := len(sp.Nodes)
	k := nv + 6
	if t.idleEv {
		k += int(math.Ceil(float64(c.Idle+10*time.Second) / float64(c.RouteUpdate)))
	}
	nominal := time.Duration(k) * c.RouteUpdate
	// The rounds are counted from the moment the sessions of the live links are up: while a session is being
	// established each end sends per-connection initialisation updates that look like originated rounds on the
	// wire, and on a loaded machine (or with delayed control messages) establishing 20 links can take longer than
	// k such messages. The wait is bounded and is not a verdict: links that never come up (or keep flapping) are
	// then judged through the tables as before. Waiting longer can only lose violations, never create one.
	if !t.waitEstablished(45 * time.Second) {
		run.Count("trials_started_counting_before_all_sessions_were_up", 1)
	}
	lastEvent := time.Now()
	ok1 := t.waitRounds(k, 10*nominal+20*time.Second)
	// isolated nodes originate nothing on the wire: they get the same number of periods as a floor
	// (waiting longer can only lose violations, never create one)
	if d := time.Until(lastEvent.Add(nominal)); d > 0 {
		time.Sleep(d)
	}
	if !ok1 && !t.waitRounds(k, 10*nominal+20*time.Second) {
		run.Eval(1)
		run.Inconclusive(fmt.Sprintf("C01 trial %d: watchdog before %d originated rounds", sp.Trial, k))
		return
	}
	verdicts := [][]c01Diff{}
	for i := 0; i < 3; i++ {
		verdicts = append(verdicts, t.evaluate())
		if i < 2 {
			t.waitRounds(1, 10*c.RouteUpdate+5*time.Second)
		}
	}
	allWrong, allRight := true, true
	for _, v := range verdicts {
		if len(v) == 0 {
			allWrong = false
		} else {
			allRight = false
		}
	}
	if !allWrong && !allRight {
		// The looks disagree with each other: one extension (k more rounds, then three fresh looks) decides. (A table
		// that is wrong at all three looks is judged as it is: extending that case as well would double the bound on
		// "eventually" and hide defects whose effect wears off, such as a restarted node ignored for as long as its
		// previous uptime. Lag of this process itself is handled by the scheduling-lag watchdog below.)
		run.Count("verdicts_extended_once", 1)
		t.waitRounds(k, 10*nominal+20*time.Second)
		verdicts = verdicts[:0]
		for i := 0; i < 3; i++ {
			verdicts = append(verdicts, t.evaluate())
			if i < 2 {
				t.waitRounds(1, 10*c.RouteUpdate+5*time.Second)
			}
		}
		allWrong, allRight = true, true
		for _, v := range verdicts {
			if len(v) == 0 {
				allWrong = false
			} else {
				allRight = false
			}
		}
	}
	run.Eval(1)
	t.mu.Lock()
	routes := t.routes
	hh := hex.EncodeToString(t.h[:8])
	t.mu.Unlock()
	run.Count("routing_messages_observed", routes)
	run.SetAdd("delivery_order_hashes", hh)
	run.Count("link_flaps", m.Net.Flaps())
	if len(sp.Script) >= 1 && nv >= 3 {
		run.Distinct(specKey(sp))
	}
	switch {
	case allRight:
		run.Count("trials_held", 1)
	case allWrong:
		classes := map[string]bool{}
		for _, d := range verdicts[2] {
			classes[d.Class] = true
		}
		cl := []string{}
		for c := range classes {
			cl = append(cl, c)
		}
		sort.Strings(cl)
		ks := []string{}
		for k := range kinds {
			ks = append(ks, k)
		}
		sort.Strings(ks)
		if st, mx, tot := starved(trialStart); st {
			// watchdog, not a verdict: this process itself was starved of CPU while the trial ran
			run.Count("verdicts_withheld_because_the_process_was_starved", 1)
			run.Inconclusive(fmt.Sprintf("C01 trial %d: tables differ from the oracle, but this process was starved while the trial ran (largest scheduling delay %v, %v in total): no verdict", sp.Trial, mx.Round(time.Millisecond), tot.Round(time.Millisecond)))
			return
		}
		// diagnostics for triage: the state of every link as the harness and as both ends see it, and (once per run)
		// a dump of all goroutines of this process
		linkStates := []string{}
		for _, li := range t.m.LinkList() {
			ea, eb := false, false
			if na := t.m.Node(li.A); na != nil && na.IsAlive() {
				for _, c := range na.Inst().Status().Connections {
					if c.NodeID == li.B {
						ea = true
					}
				}
			}
			if nb := t.m.Node(li.B); nb != nil && nb.IsAlive() {
				for _, c := range nb.Inst().Status().Connections {
					if c.NodeID == li.A {
						eb = true
					}
				}
			}
			linkStates = append(linkStates, fmt.Sprintf("%s up=%v dead=%v listed-at-%s=%v listed-at-%s=%v", li.L.ID, li.L.IsUp(), li.Dead, li.A, ea, li.B, eb))
		}
		sort.Strings(linkStates)
		c01DumpOnce.Do(func() {
			if f, err := os.Create(filepath.Join(ev.Root(), ".work", "replay", fmt.Sprintf("C01-goroutines-seed%d-trial%d.txt", run.Seed, sp.Trial))); err == nil {
				_ = pprof.Lookup("goroutine").WriteTo(f, 2)
				f.Close()
			}
		})
		known := map[string]any{}
		if len(verdicts[2]) > 0 {
			if nd := t.m.Node(verdicts[2][0].Node); nd != nil && nd.IsAlive() {
				st := nd.Inst().Status()
				known["node"] = verdicts[2][0].Node
				known["known_connection_costs"] = st.KnownConnectionCosts
				known["routing_table"] = st.RoutingTable
			}
		}
		run.Violation("route:"+strings.Join(cl, "+"), fmt.Sprintf("trial %d: routing tables wrong at 3 evaluations after %d originated rounds (events %v): %v", sp.Trial, k, ks, verdicts[2][0]),
			map[string]any{"spec": sp, "diffs": verdicts[2], "topology": t.m.Topo().Adj, "links": linkStates, "first_wrong_node": known})
	default:
		run.Inconclusive(fmt.Sprintf("C01 trial %d: verdict unstable across evaluations", sp.Trial))
	}
	run.Sample(map[string]any{"spec": sp, "delivery_order_hash": hh, "routing_messages": routes})
}

var c01DumpOnce sync.Once

func specKey(sp *c01Spec) string {
	h := sha256.New()
	fmt.Fprintf(h, "%v|%v|%v", sp.Nodes, sp.Links, sp.Script)
	return hex.EncodeToString(h.Sum(nil)[:8])
}

func runC01(tier string, args []string) {
	run := ev.New("C01", tier, "exploration")
	run.Rule("seeded random weighted graphs (2-9 nodes, connected or partitioned, per-node cost overrides on a third of links) + scripts of 0-12 events (link down/up/new, silent failure, node stop, abrupt death, restart; a sixth of the trials: restart after 12 s of uptime followed by a link change at the restarted node; a fifth: parallel sessions between connected pairs) with control-message delay per link; after the last event wait |V|+6 originated update rounds (+idle-timer rounds when a silent failure/death occurred), then compare every node's RoutingTable/PathCost with Floyd-Warshall on the harness link table at 3 evaluations; distinct_nontrivial = distinct (graph, script) with >=1 event and >=3 nodes")
	trials := run.Pick(48, 600)
	par := 16
	rng := rand.New(rand.NewSource(run.Seed*1000 + 1))
	specs := []*c01Spec{}
	for i := 0; i < trials; i++ {
		specs = append(specs, genC01(rng, i))
	}
	if len(args) > 0 && args[0] == "--trial" {
		var idx int
		fmt.Sscan(args[1], &idx)
		specs = []*c01Spec{specs[idx]}
	}
	sem := make(chan struct{}, par)
	var wg sync.WaitGroup
	for _, sp := range specs {
		wg.Add(1)
		sem <- struct{}{}
		go func(sp *c01Spec) {
			defer wg.Done()
			defer func() { <-sem }()
			runC01Trial(run, sp, run.Seed)
		}(sp)
	}
	wg.Wait()
	run.Finish(run.Pick(10, 100))
}
