package main

import (
	"context"
	"fmt"
	"io"
	"math/rand"
	"os"
	"path/filepath"
	"sync"
	"sync/atomic"
	"time"

	"verif/harness/internal/ev"

	"github.com/ansible/receptor/pkg/netceptor"
	"github.com/ansible/receptor/pkg/workceptor"
)

// (4) pick-up of a unit found on disk while its runner keeps writing.
//
// A command runner outlives the daemon and goes on with read-modify-write updates of the unit's
// status record. The restarted daemon finds the unit through the real Workceptor.scanForUnit
// (reached from outside the package by asking for the status of a unit that is not active), which
// loads the record and calls the unit's Restart(). Here the unit type is one of ours, registered
// through the exported RegisterWorker: its Restart() and Cancel() each add 1000 to StdoutSize in one
// UpdateFullStatus, the runners (their own StatusFileData receivers, as a separate process has)
// add 1 per update and dwell inside the callback for up to 1.5 ms so that the lock is almost
// always held or queued for when the scan arrives. Conservation decides: the stored counter must
// be (#runner updates) + 2000, and the work type written at creation must still be there.

type c14ScanUnit struct {
	*workceptor.BaseWorkUnit
}

func (u *c14ScanUnit) bump() {
	u.UpdateFullStatus(func(s *workceptor.StatusFileData) { s.StdoutSize += 1000 })
}
func (u *c14ScanUnit) Start() error             { return nil }
func (u *c14ScanUnit) Restart() error           { u.bump(); return nil }
func (u *c14ScanUnit) Cancel() error            { u.bump(); return nil }
func (u *c14ScanUnit) Release(force bool) error { return nil }

func runC14Scan(run *ev.Run) {
	const node = "c14scan"
	const wt = "c14scantype"
	base := filepath.Join(workDir(), "c14scan")
	_ = os.MkdirAll(base, 0o755)
	ctx, cancel := context.WithCancel(context.Background())
	defer cancel()
	nc := netceptor.New(ctx, node)
	nc.Logger.SetOutput(io.Discard)
	w, err := workceptor.New(ctx, nc, base)
	if err != nil {
		run.Inconclusive("C14 scan: workceptor.New: " + err.Error())
		return
	}
	if workceptor.MainInstance == nil {
		workceptor.MainInstance = w
	}
	err = w.RegisterWorker(wt, func(_ workceptor.BaseWorkUnitForWorkUnit, w *workceptor.Workceptor, unitID string, workType string) workceptor.WorkUnit {
		u := &c14ScanUnit{BaseWorkUnit: &workceptor.BaseWorkUnit{}}
		u.BaseWorkUnit.Init(w, unitID, workType, workceptor.FileSystem{}, nil)
		return u
	}, false)
	if err != nil {
		run.Inconclusive("C14 scan: RegisterWorker: " + err.Error())
		return
	}
	dataDir := filepath.Join(base, node)
	rng := rand.New(rand.NewSource(run.Seed*6151 + 77))
	trials := run.Pick(80, 800)
	const runners, perRunner = 3, 6
	bad, contended := 0, 0
	for t := 0; t < trials; t++ {
		unitID := fmt.Sprintf("scan%04d", t)
		unitdir := filepath.Join(dataDir, unitID)
		if err := os.MkdirAll(unitdir, 0o700); err != nil {
			run.Inconclusive("C14 scan: " + err.Error())
			return
		}
		fn := filepath.Join(unitdir, "status")
		init0 := &workceptor.StatusFileData{State: workceptor.WorkStateRunning, Detail: "Running: PID 4242", WorkType: wt}
		if err := init0.Save(fn); err != nil {
			run.Inconclusive("C14 scan: " + err.Error())
			return
		}
		var inside, entered int32
		var errs int32
		var wg sync.WaitGroup
		seeds := make([]int64, runners)
		for r := range seeds {
			seeds[r] = rng.Int63()
		}
		daemonDelay := time.Duration(rng.Intn(2000)) * time.Microsecond
		for r := 0; r < runners; r++ {
			wg.Add(1)
			go func(r int) {
				defer wg.Done()
				lr := rand.New(rand.NewSource(seeds[r]))
				sfd := &workceptor.StatusFileData{}
				for k := 0; k < perRunner; k++ {
					d := time.Duration(lr.Intn(1500)) * time.Microsecond
					if e := sfd.UpdateFullStatus(fn, func(s *workceptor.StatusFileData) {
						atomic.AddInt32(&inside, 1)
						atomic.AddInt32(&entered, 1)
						time.Sleep(d)
						s.StdoutSize++
						atomic.AddInt32(&inside, -1)
					}); e != nil {
						atomic.AddInt32(&errs, 1)
					}
				}
			}(r)
		}
		// the restarted daemon arrives once the runners are at work
		for i := 0; atomic.LoadInt32(&entered) == 0 && i < 20000; i++ {
			time.Sleep(50 * time.Microsecond)
		}
		time.Sleep(daemonDelay)
		wasInside := atomic.LoadInt32(&inside) > 0
		st, serr := w.UnitStatus(unitID)
		cerr := w.CancelUnit(unitID)
		wg.Wait()
		if wasInside {
			contended++
		}
		run.Eval(1)
		fin := &workceptor.StatusFileData{}
		lerr := fin.Load(fn)
		want := int64(runners*perRunner + 2000)
		switch {
		case serr != nil || cerr != nil || st == nil:
			bad++
			if bad <= 3 {
				run.Violation("scan:unit-not-picked-up", fmt.Sprintf("trial %d: a unit directory with a valid status record of a registered work type was not picked up by the rescan: status err=%v cancel err=%v", t, serr, cerr), nil)
			}
		case lerr != nil:
			bad++
			if bad <= 3 {
				run.Violation("scan:record-unreadable", fmt.Sprintf("trial %d: after the pick-up of a unit whose runner was writing the record cannot be loaded: %v", t, lerr), nil)
			}
		case atomic.LoadInt32(&errs) != 0:
			bad++
			if bad <= 3 {
				run.Violation("scan:runner-update-failed", fmt.Sprintf("trial %d: %d runner updates returned an error while the daemon picked the unit up", t, errs), nil)
			}
		case fin.StdoutSize != want || fin.WorkType != wt:
			bad++
			if bad <= 3 {
				run.Violation("lost-update:pick-up-while-runner-writes", fmt.Sprintf("trial %d: %d runner updates (+1 each) and the daemon's Restart and Cancel updates (+1000 each) of a unit found on disk were all applied, the stored counter is %d (want %d), work type %q (want %q); runner inside its update when the scan began: %v", t, runners*perRunner, fin.StdoutSize, want, fin.WorkType, wt, wasInside), map[string]any{"final": fin, "seed_runners": seeds, "daemon_delay_us": daemonDelay.Microseconds()})
			}
		}
		_ = os.RemoveAll(unitdir)
	}
	run.Count("scan_pickup_trials", int64(trials))
	run.Count("scan_pickup_trials_runner_inside_update_at_scan", int64(contended))
	if contended == 0 {
		run.Inconclusive("C14 scan: in none of the trials was a runner inside its update when the scan began")
	} else if bad == 0 {
		run.Distinct("scan-pickup-while-runner-writes")
	}
}
