package main

import (
	"fmt"
	"strings"
	"sync"
	"sync/atomic"
	"time"

	"verif/harness/internal/ev"
	"verif/harness/internal/mesh"

	"github.com/ansible/receptor/pkg/netceptor"
)

// C12 part C: rule lists replaced while packets are being evaluated. Two lists A and B are swapped
// continuously on the destination node while several senders (remote, through the backend session,
// and local) address a service that BOTH lists accept. Whatever list a packet meets, the first rule
// matching it says accept, so every datagram must be delivered; a packet judged by a mixture of the
// two lists (falling through to a catch-all drop) shows up as a loss, and a data race between the
// replacement and the evaluation shows up in the race detector's report.
func runC12Reconf(run *ev.Run, seed int64) {
	c := mesh.DefaultConsts()
	c.Idle = time.Hour
	m := mesh.New(c, seed)
	defer m.Shutdown()
	m.AddNode("ra")
	m.AddNode("rb")
	m.Connect("ra", "rb", 1, false)
	a, b := m.Node("ra").Inst(), m.Node("rb").Inst()
	if !pollUntil(1500, func() bool {
		_, ok := a.Status().RoutingTable["rb"]
		_, ok2 := b.Status().RoutingTable["ra"]
		return ok && ok2
	}) {
		run.Inconclusive("C12 reconfiguration trial: mesh did not form")
		return
	}
	mk := func(rules ...map[string]string) []netceptor.FirewallRuleFunc {
		data := []netceptor.FirewallRuleData{}
		for _, r := range rules {
			d := netceptor.FirewallRuleData{}
			for k, v := range r {
				d[k] = v
			}
			data = append(data, d)
		}
		fr, err := netceptor.ParseFirewallRules(data)
		if err != nil {
			panic(err)
		}
		return fr
	}
	// both lists accept service "keep" (and the notices/pings the mesh itself needs), in different positions
	listA := mk(map[string]string{"toservice": "x1", "action": "drop"}, map[string]string{"toservice": "x2", "action": "drop"}, map[string]string{"toservice": "keep", "action": "accept"}, map[string]string{"toservice": "/ping|unreach/", "action": "accept"}, map[string]string{"toservice": "/r[0-9a-zA-Z]+/", "action": "accept"}, map[string]string{"action": "drop"})
	listB := mk(map[string]string{"toservice": "keep", "action": "accept"}, map[string]string{"toservice": "/ping|unreach/", "action": "accept"}, map[string]string{"toservice": "/r[0-9a-zA-Z]+/", "action": "accept"}, map[string]string{"toservice": "y1", "action": "drop"}, map[string]string{"action": "drop"})
	_ = b.AddFirewallRules(listA, true)
	pc, err := b.ListenPacket("keep")
	if err != nil {
		run.Inconclusive("C12 reconfiguration trial: " + err.Error())
		return
	}
	defer pc.Close()
	var got sync.Map
	var nGot atomic.Int64
	go func() {
		buf := make([]byte, 200)
		for {
			n, _, err := pc.ReadFrom(buf)
			if err != nil {
				return
			}
			got.Store(string(buf[:n]), true)
			nGot.Add(1)
		}
	}()
	stop := make(chan struct{})
	var swaps atomic.Int64
	var swg sync.WaitGroup
	swg.Add(1)
	go func() {
		defer swg.Done()
		for i := 0; ; i++ {
			select {
			case <-stop:
				return
			default:
			}
			if i%2 == 0 {
				_ = b.AddFirewallRules(listB, true)
			} else {
				_ = b.AddFirewallRules(listA, true)
			}
			swaps.Add(1)
		}
	}()
	type sent struct{ id string }
	var smu sync.Mutex
	all := []string{}
	var wg sync.WaitGroup
	for s := 0; s < 4; s++ {
		wg.Add(1)
		go func(s int) {
			defer wg.Done()
			n := a
			if s%2 == 1 {
				n = b // local senders on the node whose rules are being replaced
			}
			spc, err := n.ListenPacket("")
			if err != nil {
				return
			}
			defer spc.Close()
			for i := 0; ; i++ {
				select {
				case <-stop:
					return
				default:
				}
				id := fmt.Sprintf("rc-%d-%d", s, i)
				if _, err := spc.WriteTo([]byte(id), n.NewAddr("rb", "keep")); err == nil {
					smu.Lock()
					all = append(all, id)
					smu.Unlock()
				}
			}
		}(s)
	}
	time.Sleep(2500 * time.Millisecond)
	close(stop)
	wg.Wait()
	swg.Wait()
	_ = b.AddFirewallRules(listA, true)
	// drain: everything handed to the node before now is delivered in order per sender; wait until the
	// count is stable
	last, stable := int64(-1), 0
	for i := 0; i < 200 && stable < 5; i++ {
		time.Sleep(50 * time.Millisecond)
		if g := nGot.Load(); g == last {
			stable++
		} else {
			last, stable = g, 0
		}
	}
	smu.Lock()
	defer smu.Unlock()
	lost := []string{}
	for _, id := range all {
		if _, ok := got.Load(id); !ok {
			lost = append(lost, id)
		}
	}
	run.Eval(1)
	run.Count("reconf_datagrams_sent", int64(len(all)))
	run.Count("reconf_rule_list_swaps", swaps.Load())
	if len(lost) > 0 {
		ex := lost
		if len(ex) > 5 {
			ex = ex[:5]
		}
		run.Violation("reconf:accepted-by-both-lists-but-dropped", fmt.Sprintf("%d of %d datagrams addressed to a service that both rule lists accept were not delivered while the lists were being swapped (%d swaps), e.g. %v", len(lost), len(all), swaps.Load(), ex), map[string]any{"lost": len(lost), "sent": len(all)})
	}
	if swaps.Load() > 100 && len(all) > 100 {
		run.Distinct("reconf|swaps-under-traffic")
	}
}

// c12RaceVerdict turns race-detector reports between rule replacement and rule evaluation into a
// C12 violation (both accesses are in the state the property anchors: the node's rule list).
func c12RaceVerdict(run *ev.Run, sigs map[string]int) {
	for sig, n := range sigs {
		if strings.Contains(sig, "AddFirewallRules") {
			run.Violation("race:rule-list-replaced-during-evaluation", fmt.Sprintf("the race detector reported %d unsynchronised accesses between the replacement of the firewall rule list and its evaluation: %s", n, sig), map[string]any{"signature": sig})
		}
	}
}
