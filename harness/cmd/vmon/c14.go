package main

import (
	"bufio"
	"bytes"
	"encoding/json"
	"fmt"
	"math/rand"
	"os"
	"os/exec"
	"path/filepath"
	"sort"
	"strings"
	"sync"
	"time"

	"verif/harness/internal/child"
	"verif/harness/internal/ev"

	"github.com/ansible/receptor/pkg/workceptor"
)

// C14 — status records are updated atomically with respect to every reader and writer.
//
// M OS processes (this binary re-executed as "c14child") x N goroutines apply unique
// read-modify-write updates to ONE status file through the real public API
// (StatusFileData.UpdateFullStatus / UpdateBasicStatus / Load and, in the "daemon" process of two
// of the writer mixes, the BaseWorkUnit methods). Every callback logs the version it found.
// The oracle below works offline on the logs and shares no code with receptor: since every
// update is unique, the found-version -> written-version pairs must form one chain.

func init() {
	register("C14", runC14)
	register("c14child", c14ChildMain)
}

var (
	c14Ms     = []int{1, 2, 4, 8}
	c14Ns     = []int{1, 4, 16}
	c14Mixes  = []string{"full", "full+basic", "daemon-runner", "runner-wholesale"}
	c14Sleeps = []string{"none", "short", "long"}
)

func c14Configs(seed int64, quick bool) []*c14Cfg {
	tierSalt := int64(2)
	total := 5000
	if quick {
		tierSalt = 1
		total = 800
	}
	rng := rand.New(rand.NewSource(seed*7919 + tierSalt*104729))
	var cfgs []*c14Cfg
	if quick {
		// every (M,N) pair once; each writer mix three times, each sleep class four times, seeded assignment
		mixes, sleeps := []string{}, []string{}
		for i := 0; i < 12; i++ {
			mixes = append(mixes, c14Mixes[i%4])
			sleeps = append(sleeps, c14Sleeps[i%3])
		}
		rng.Shuffle(12, func(i, j int) { mixes[i], mixes[j] = mixes[j], mixes[i] })
		rng.Shuffle(12, func(i, j int) { sleeps[i], sleeps[j] = sleeps[j], sleeps[i] })
		i := 0
		for _, m := range c14Ms {
			for _, n := range c14Ns {
				cfgs = append(cfgs, &c14Cfg{M: m, N: n, Mix: mixes[i], Sleep: sleeps[i]})
				i++
			}
		}
	} else {
		// 120 of the 144 points of the product, seeded choice
		for _, m := range c14Ms {
			for _, n := range c14Ns {
				for _, mix := range c14Mixes {
					for _, sl := range c14Sleeps {
						cfgs = append(cfgs, &c14Cfg{M: m, N: n, Mix: mix, Sleep: sl})
					}
				}
			}
		}
		rng.Shuffle(len(cfgs), func(i, j int) { cfgs[i], cfgs[j] = cfgs[j], cfgs[i] })
		cfgs = cfgs[:120]
	}
	// big configurations first (better packing of the process slots)
	sort.SliceStable(cfgs, func(i, j int) bool { return cfgs[i].M > cfgs[j].M })
	for i, c := range cfgs {
		c.Idx = i
		c.Seed = rng.Int63()
		c.PerWriter = (total + c.M*c.N/2) / (c.M * c.N)
		if c.PerWriter < 1 {
			c.PerWriter = 1
		}
		c.Node = "c14n"
		c.Unit = fmt.Sprintf("unit%d", i)
		c.WorkType = fmt.Sprintf("c14wt-%d-%d", seed, i)
		c.Owned = fmt.Sprintf("owned-by-p0g0-%d-%d", seed, i)
		c.OwnedPid = 400000 + i
		c.PadMax = []int{48, 700, 3000}[rng.Intn(3)]
	}
	return cfgs
}

// ---------------------------------------------------------------- running one configuration

type c14Result struct {
	cfg     *c14Cfg
	recs    []c14Rec
	final   []byte
	problem string // harness-level problem: the configuration is inconclusive
	crash   string // a child died with a fatal Go runtime error
	crashAt string
	outs    []string
}

// c14Prepare creates the configuration's directory, its status file and its cfg.json.
func c14Prepare(work string, cfg *c14Cfg) error {
	cfg.Dir = filepath.Join(work, fmt.Sprintf("c14-cfg%d", cfg.Idx))
	cfg.DataDir = filepath.Join(cfg.Dir, "data")
	unitDir := filepath.Join(cfg.DataDir, cfg.Node, cfg.Unit)
	cfg.File = filepath.Join(unitDir, "status")
	if err := os.MkdirAll(unitDir, 0o755); err != nil {
		return err
	}
	// the record is created once, by the allocating Save, before any reader or writer exists
	first := &workceptor.StatusFileData{State: workceptor.WorkStatePending, Detail: c14Init, StdoutSize: 0, WorkType: cfg.WorkType}
	if err := first.Save(cfg.File); err != nil {
		return fmt.Errorf("initial Save: %w", err)
	}
	b, _ := json.Marshal(cfg)
	return os.WriteFile(filepath.Join(cfg.Dir, "cfg.json"), b, 0o644)
}

// c14LaneProc is one child process; it serves, in order, its share of the configurations.
type c14LaneProc struct {
	idx  int
	jobs []c14Job
	done chan struct{} // closed when the process has exited
	res  child.Result  // valid after done
}

// c14PlanLanes spreads the processes of all configurations over nLanes child processes. Every
// lane's list is in configuration order, so the lowest unfinished configuration can always start.
func c14PlanLanes(cfgs []*c14Cfg, nLanes int) ([]*c14LaneProc, map[int][]int) {
	lanes := make([]*c14LaneProc, nLanes)
	for i := range lanes {
		lanes[i] = &c14LaneProc{idx: i, done: make(chan struct{})}
	}
	load := make([]int, nLanes)
	where := map[int][]int{} // configuration index -> lane of each process
	for _, cfg := range cfgs {
		order := make([]int, nLanes)
		for i := range order {
			order[i] = i
		}
		sort.SliceStable(order, func(a, b int) bool { return load[order[a]] < load[order[b]] })
		for p := 0; p < cfg.M; p++ {
			l := order[p]
			lanes[l].jobs = append(lanes[l].jobs, c14Job{Cfg: filepath.Join(cfg.Dir, "cfg.json"), P: p})
			load[l] += 1 + cfg.N/4
			where[cfg.Idx] = append(where[cfg.Idx], l)
		}
	}
	return lanes, where
}

func c14Exists(path string) bool { _, err := os.Stat(path); return err == nil }

// c14Await drives one configuration: releases the start barrier when all its processes are
// ready, waits for their logs, and collects them. A lane that died takes the configuration with it.
func c14Await(cfg *c14Cfg, procLanes []*c14LaneProc) *c14Result {
	res := &c14Result{cfg: cfg}
	dead := func() *c14LaneProc {
		for p, l := range procLanes {
			select {
			case <-l.done:
				if !c14Exists(filepath.Join(cfg.Dir, fmt.Sprintf("log-%d.jsonl", p))) {
					return l
				}
			default:
			}
		}
		return nil
	}
	fail := func(l *c14LaneProc) *c14Result {
		_ = os.WriteFile(filepath.Join(cfg.Dir, "abort"), []byte("abort\n"), 0o644)
		r := l.res
		res.outs = append(res.outs, r.OutFile)
		started := false
		for p, pl := range procLanes {
			if pl == l && c14Exists(filepath.Join(cfg.Dir, fmt.Sprintf("ready-%d", p))) {
				started = true
			}
		}
		switch {
		case !started:
			res.problem = fmt.Sprintf("not run: child process (lane %d) ended during an earlier configuration (%s)", l.idx, r.OutFile)
		case r.Fatal != "" && !strings.HasPrefix(r.Fatal, "harness:"):
			res.crash = child.FatalClass(r.Fatal) + " :: " + r.Fatal
			res.crashAt = r.TopFrame
		case r.TimedOut:
			res.problem = fmt.Sprintf("child process (lane %d) hit the watchdog (goroutine dump in %s)", l.idx, r.OutFile)
		default:
			res.problem = fmt.Sprintf("child process (lane %d) exited with code %d before finishing this configuration (%s) %s", l.idx, r.ExitCode, r.OutFile, r.Fatal)
		}
		return res
	}
	count := func(pattern string) int {
		n := 0
		for p := 0; p < cfg.M; p++ {
			if c14Exists(filepath.Join(cfg.Dir, fmt.Sprintf(pattern, p))) {
				n++
			}
		}
		return n
	}
	// phase 1: idle until the first process arrives, then spin towards the barrier
	for !c14Exists(filepath.Join(cfg.Dir, "ready-0")) && count("ready-%d") == 0 {
		if l := dead(); l != nil {
			return fail(l)
		}
		time.Sleep(25 * time.Millisecond)
	}
	for count("ready-%d") < cfg.M {
		if l := dead(); l != nil {
			return fail(l)
		}
		time.Sleep(2 * time.Millisecond)
	}
	_ = os.WriteFile(filepath.Join(cfg.Dir, "go"), []byte("go\n"), 0o644)
	// phase 2: wait for the logs
	for count("log-%d.jsonl") < cfg.M {
		if l := dead(); l != nil {
			return fail(l)
		}
		time.Sleep(20 * time.Millisecond)
	}
	for p := 0; p < cfg.M; p++ {
		f, err := os.Open(filepath.Join(cfg.Dir, fmt.Sprintf("log-%d.jsonl", p)))
		if err != nil {
			res.problem = fmt.Sprintf("process %d left no log", p)
			continue
		}
		sc := bufio.NewScanner(f)
		sc.Buffer(make([]byte, 1<<16), 1<<22)
		for sc.Scan() {
			var r c14Rec
			if err := json.Unmarshal(sc.Bytes(), &r); err != nil {
				res.problem = "unreadable harness log line: " + err.Error()
				break
			}
			res.recs = append(res.recs, r)
		}
		f.Close()
	}
	res.final, _ = os.ReadFile(cfg.File)
	return res
}

// ---------------------------------------------------------------- oracle

// c14Final is the harness's own view of a stored record (not receptor's type).
type c14Final struct {
	State      *int            `json:"State"`
	Detail     *string         `json:"Detail"`
	StdoutSize *int64          `json:"StdoutSize"`
	WorkType   *string         `json:"WorkType"`
	ExtraData  json.RawMessage `json:"ExtraData"`
}

func c14IsParseErr(e string) bool {
	for _, s := range []string{"unexpected end of JSON", "invalid character", "cannot unmarshal", "json:", "unexpected EOF"} {
		if strings.Contains(e, s) {
			return true
		}
	}
	return false
}

type c14Version struct {
	kind string // init | rmw | basic | wholesale
	size int64  // StdoutSize stored with this version (-1: not determined by the writer: basic with stdoutSize -1)
	rec  *c14Rec
}

type c14Verdict struct {
	key, what string
	witness   any
}

type c14Stats struct {
	rmw, basic, loads     int
	crossProc, crossGor   int
	loadsDistinctVersions int
	inconclusive          []string
}

// c14Judge checks one configuration's logs. It returns violations and statistics.
func c14Judge(res *c14Result) ([]c14Verdict, *c14Stats) {
	cfg := res.cfg
	st := &c14Stats{}
	var out []c14Verdict
	seen := map[string]int{}
	add := func(key, what string, witness any) {
		seen[key]++
		if seen[key] > 3 {
			return
		}
		out = append(out, c14Verdict{key, fmt.Sprintf("[%s] %s", cfg.key(), what), map[string]any{"config": cfg, "evidence": witness}})
	}
	counting := cfg.Mix != "runner-wholesale" // every writer either increments StdoutSize or leaves it alone
	plan := c14Plan(cfg)

	// ---- split the log
	var rmw, basics, loads []*c14Rec
	perWriter := map[[2]int]int{}
	for i := range res.recs {
		r := &res.recs[i]
		switch r.K {
		case "rmw":
			rmw = append(rmw, r)
			perWriter[[2]int{r.P, r.G}]++
		case "basic", "wholesale":
			basics = append(basics, r)
			perWriter[[2]int{r.P, r.G}]++
		case "load":
			loads = append(loads, r)
		}
	}
	st.rmw, st.basic, st.loads = len(rmw), len(basics), len(loads)
	for p := range plan {
		for g := range plan[p] {
			if perWriter[[2]int{p, g}] != cfg.PerWriter {
				st.inconclusive = append(st.inconclusive, fmt.Sprintf("writer p%dg%d logged %d of %d updates", p, g, perWriter[[2]int{p, g}], cfg.PerWriter))
				return out, st
			}
		}
	}

	// ---- update calls must have been applied exactly once
	for _, r := range append(append([]*c14Rec{}, rmw...), basics...) {
		if r.Err != "" {
			if c14IsParseErr(r.Err) {
				add("update-error:unparsable-record", fmt.Sprintf("%s update %s (%s api) failed because the stored record it found did not parse: %s", r.K, r.Self, r.API, r.Err), r)
			} else {
				st.inconclusive = append(st.inconclusive, fmt.Sprintf("update %s failed with a non-parse error: %s", r.Self, r.Err))
			}
		}
	}
	okRMW := rmw[:0:0]
	for _, r := range rmw {
		if r.Err != "" {
			continue
		}
		if r.Calls != 1 {
			add("lost-update:callback-not-applied-once", fmt.Sprintf("update %s returned success but its callback ran %d times", r.Self, r.Calls), r)
			continue
		}
		okRMW = append(okRMW, r)
	}
	R := len(okRMW)

	// ---- the versions that were ever written
	versions := map[string]*c14Version{c14Init: {kind: "init", size: 0}}
	for _, r := range okRMW {
		versions[r.Self] = &c14Version{kind: "rmw", size: r.Size + 1, rec: r}
	}
	for _, r := range basics {
		v := &c14Version{kind: r.K, size: -1, rec: r}
		if r.K == "wholesale" {
			v.size = r.Size
		}
		versions[r.Self] = v
	}

	// ---- a field value that nobody ever stored (not the owner's value, not "absent") is a mixture
	// of bytes of different records: the observer saw a partially written record
	garbled := map[*c14Rec]bool{}
	for _, r := range append(append([]*c14Rec{}, okRMW...), loads...) {
		if r.Err != "" {
			continue
		}
		what := ""
		switch {
		case r.WT != "" && r.WT != cfg.WorkType:
			what = fmt.Sprintf("WorkType %q (stored: %q)", r.WT, cfg.WorkType)
		case r.Owned != "" && r.Owned != "?" && !strings.HasPrefix(r.Owned, "!") && r.Owned != cfg.Owned:
			what = fmt.Sprintf("ExtraData.Params %q (stored: %q)", r.Owned, cfg.Owned)
		case r.OwnedPid != 0 && r.OwnedPid != cfg.OwnedPid:
			what = fmt.Sprintf("ExtraData.Pid %d (stored: %d)", r.OwnedPid, cfg.OwnedPid)
		}
		if what == "" {
			if v, ok := versions[c14StripPad(r.Pred)]; !ok || (v.size >= 0 && v.size != r.Size) {
				garbled[r] = true // reported below as unknown / mixed version; its other fields prove nothing more
			}
			continue
		}
		garbled[r] = true
		if r.K == "load" {
			add("torn-read:garbled-field", fmt.Sprintf("a Load (%s api, reader p%d r%d, load #%d) returned %s: a mixture of two records", r.API, r.P, r.G-1000, r.Seq, what), r)
		} else {
			add("stale-base:garbled-field", fmt.Sprintf("update %s was handed a record with %s: a mixture of two records", r.Self, what), r)
		}
	}

	// ---- owned fields: WorkType (set by the allocating Save) in every observation
	for _, r := range okRMW {
		if r.WT != cfg.WorkType && !garbled[r] {
			add("owned-field-wiped:WorkType", fmt.Sprintf("update %s found WorkType %q, the allocating writer stored %q", r.Self, r.WT, cfg.WorkType), r)
		}
	}
	for _, r := range loads {
		if r.Err == "" && r.WT != cfg.WorkType && !garbled[r] {
			add("owned-field-wiped:WorkType", fmt.Sprintf("a Load (reader p%d r%d) returned WorkType %q, the allocating writer stored %q", r.P, r.G-1000, r.WT, cfg.WorkType), r)
		}
	}

	// ---- no two updates may have read the same version
	consumer := map[string]*c14Rec{}
	forked := map[string]bool{}
	for _, r := range okRMW {
		id := c14StripPad(r.Pred)
		if prev, dup := consumer[id]; dup {
			forked[r.Self], forked[prev.Self] = true, true
			add("fork:same-predecessor", fmt.Sprintf("updates %s and %s both found version %q (StdoutSize %d / %d): they were not applied one at a time, one of them is lost", prev.Self, r.Self, id, prev.Size, r.Size), []*c14Rec{prev, r})
			continue
		}
		consumer[id] = r
	}

	// ---- every update must have been applied to a version that was really stored
	for _, r := range okRMW {
		id := c14StripPad(r.Pred)
		v, ok := versions[id]
		switch {
		case !ok:
			add("stale-base:unknown-version", fmt.Sprintf("update %s found Detail %q (StdoutSize %d), which no writer ever stored", r.Self, r.Pred, r.Size), r)
		case v.size >= 0 && v.size != r.Size:
			add("stale-base:mixed-version", fmt.Sprintf("update %s found Detail %q together with StdoutSize %d, but that version was stored with StdoutSize %d", r.Self, id, r.Size, v.size), []any{r, v.rec})
		}
	}

	// ---- the chain
	var fin c14Final
	finalOK := false
	// the stored record is the first JSON value of the file (receptor's own reader ignores what follows it);
	// with no process killed, nothing but white space may follow it once every writer has returned
	dec := json.NewDecoder(bytes.NewReader(res.final))
	if err := dec.Decode(&fin); err != nil || fin.Detail == nil || fin.StdoutSize == nil || fin.WorkType == nil {
		add("torn-final-record", fmt.Sprintf("the record left after all writers finished does not parse as a complete record: %q (%v)", c14Clip(string(res.final)), err), nil)
	} else {
		finalOK = true
		if tail := strings.TrimSpace(string(res.final[dec.InputOffset():])); tail != "" {
			add("final-record:stale-tail", fmt.Sprintf("after all writers returned (nobody was killed) the status file holds the final record followed by %d stale bytes of an older, longer record: %q", len(tail), c14Clip(tail)), map[string]any{"final": string(res.final)})
		}
	}
	if counting {
		// StdoutSize is a sequence number here: the update that found k is the (k+1)-th
		sorted := append([]*c14Rec{}, okRMW...)
		sort.SliceStable(sorted, func(i, j int) bool { return sorted[i].Size < sorted[j].Size })
		for i, r := range sorted {
			if r.Size == int64(i) {
				continue
			}
			if i > 0 && sorted[i-1].Size == r.Size {
				if !forked[r.Self] {
					add("lost-update", fmt.Sprintf("updates %s (found %q) and %s (found %q) both found StdoutSize %d: one increment is lost", sorted[i-1].Self, sorted[i-1].Pred, r.Self, r.Pred, r.Size), []*c14Rec{sorted[i-1], r})
				}
			} else {
				add("lost-update", fmt.Sprintf("no update found StdoutSize %d, update %s found %d: the sequence of %d increments has a hole", i, r.Self, r.Size, R), r)
			}
			break
		}
		// links: the update that found k must have found the id written by the update that found k-1
		// (or the id of a basic-status update, which replaces Detail and leaves StdoutSize alone)
		bySize := map[int64]*c14Rec{}
		for _, r := range sorted {
			if _, dup := bySize[r.Size]; !dup {
				bySize[r.Size] = r
			}
		}
		for _, r := range sorted {
			id := c14StripPad(r.Pred)
			v := versions[id]
			if v == nil || v.kind == "basic" || forked[r.Self] {
				continue
			}
			want := c14Init
			if r.Size > 0 {
				if prev := bySize[r.Size-1]; prev != nil {
					want = prev.Self
				} else {
					continue // hole, already reported
				}
			}
			if id != want {
				add("lost-update", fmt.Sprintf("update %s found StdoutSize %d but Detail %q; the update that made the size %d wrote %q: not applied to the latest stored record", r.Self, r.Size, id, r.Size, want), r)
			}
		}
		if finalOK {
			if *fin.StdoutSize != int64(R) {
				add("lost-update", fmt.Sprintf("%d read-modify-write updates each incremented StdoutSize, the final record has %d", R, *fin.StdoutSize), map[string]any{"final": string(res.final)})
			}
		}
	}
	if finalOK {
		id := c14StripPad(*fin.Detail)
		v, ok := versions[id]
		switch {
		case !ok:
			add("lost-update:final-not-a-version", fmt.Sprintf("the final record has Detail %q, which no writer stored", *fin.Detail), map[string]any{"final": string(res.final)})
		case consumer[id] != nil:
			add("lost-update:final-not-the-tail", fmt.Sprintf("the final record is version %q, but update %s was applied on top of it and has vanished", id, consumer[id].Self), map[string]any{"final": string(res.final), "successor": consumer[id]})
		case v.size >= 0 && v.size != *fin.StdoutSize:
			add("lost-update:final-mixed-version", fmt.Sprintf("the final record has Detail %q with StdoutSize %d, stored as %d", id, *fin.StdoutSize, v.size), map[string]any{"final": string(res.final)})
		}
		if *fin.WorkType != cfg.WorkType {
			add("owned-field-wiped:WorkType", fmt.Sprintf("final record has WorkType %q, the allocating writer stored %q", *fin.WorkType, cfg.WorkType), map[string]any{"final": string(res.final)})
		}
		var ed struct {
			Pid    int
			Params string
		}
		_ = json.Unmarshal(fin.ExtraData, &ed)
		if ed.Params != cfg.Owned || ed.Pid != cfg.OwnedPid {
			add("owned-field-wiped:ExtraData", fmt.Sprintf("final record has ExtraData %s, writer p0g0 stored {Pid:%d Params:%q} in its first update and nobody else touches it", c14Clip(string(fin.ExtraData)), cfg.OwnedPid, cfg.Owned), map[string]any{"final": string(res.final)})
		}
	}

	// ---- owned field ExtraData: once a thread has seen it (or set it), it must keep seeing it;
	// in counting mixes every record with StdoutSize > (the size the owner's first update found) carries it
	ownerSize := int64(-1)
	for _, r := range okRMW {
		if r.P == 0 && r.G == 0 && r.Seq == 0 {
			ownerSize = r.Size
		}
	}
	threads := map[[2]int][]*c14Rec{}
	for _, r := range okRMW {
		threads[[2]int{r.P, r.G}] = append(threads[[2]int{r.P, r.G}], r)
	}
	for _, r := range loads {
		if r.Err == "" {
			threads[[2]int{r.P, r.G}] = append(threads[[2]int{r.P, r.G}], r)
		}
	}
	hasOwned := func(r *c14Rec) bool { return r.Owned == cfg.Owned && r.OwnedPid == cfg.OwnedPid }
	for tk, l := range threads {
		sort.SliceStable(l, func(i, j int) bool { return l[i].Seq < l[j].Seq })
		var since *c14Rec
		for _, r := range l {
			if r.Owned == "?" || garbled[r] {
				continue
			}
			if strings.HasPrefix(r.Owned, "!") {
				add("owned-field-wiped:ExtraData", fmt.Sprintf("thread p%dg%d: %s", tk[0], tk[1], r.Owned), r)
				break
			}
			isOwnerFirst := r.K == "rmw" && r.P == 0 && r.G == 0 && r.Seq == 0
			if since != nil && !hasOwned(r) {
				add("owned-field-wiped:ExtraData", fmt.Sprintf("thread p%dg%d saw ExtraData {Pid:%d Params:%q} (set once by p0g0) at its operation %d and found {Pid:%d Params:%q} at operation %d (%s)", tk[0], tk[1], cfg.OwnedPid, cfg.Owned, since.Seq, r.OwnedPid, r.Owned, r.Seq, r.K), []*c14Rec{since, r})
				break
			}
			if since == nil && (hasOwned(r) || isOwnerFirst) {
				since = r
			}
			if counting && ownerSize >= 0 && r.Size > ownerSize && !hasOwned(r) && !isOwnerFirst {
				add("owned-field-wiped:ExtraData", fmt.Sprintf("%s by p%dg%d found StdoutSize %d without the ExtraData that p0g0 stored in the update that found StdoutSize %d", r.K, tk[0], tk[1], r.Size, ownerSize), r)
				break
			}
		}
	}

	// ---- loads: must parse, must be a stored version, sizes never go backwards for one reader
	lastSize := map[[2]int]*c14Rec{}
	distinctSeen := map[string]bool{}
	for _, r := range loads {
		if r.Err != "" {
			if c14IsParseErr(r.Err) {
				add("torn-read", fmt.Sprintf("a Load (%s api, reader p%d r%d, load #%d) failed to parse the record while writers were active: %s", r.API, r.P, r.G-1000, r.Seq, r.Err), r)
			} else {
				st.inconclusive = append(st.inconclusive, fmt.Sprintf("Load failed with a non-parse error: %s", r.Err))
			}
			continue
		}
		id := c14StripPad(r.Pred)
		distinctSeen[id] = true
		v, ok := versions[id]
		switch {
		case !ok:
			add("torn-read:unknown-version", fmt.Sprintf("a Load (reader p%d r%d) returned Detail %q StdoutSize %d, which no writer stored", r.P, r.G-1000, r.Pred, r.Size), r)
		case v.size >= 0 && v.size != r.Size:
			add("torn-read:mixed-version", fmt.Sprintf("a Load (reader p%d r%d) returned Detail %q with StdoutSize %d, but that version was stored with StdoutSize %d", r.P, r.G-1000, id, r.Size, v.size), []any{r, v.rec})
		case counting && (r.Size < 0 || r.Size > int64(R)):
			add("torn-read:mixed-version", fmt.Sprintf("a Load returned StdoutSize %d, outside 0..%d", r.Size, R), r)
		}
	}
	st.loadsDistinctVersions = len(distinctSeen)
	if counting {
		byReader := map[[2]int][]*c14Rec{}
		for _, r := range loads {
			if r.Err == "" {
				byReader[[2]int{r.P, r.G}] = append(byReader[[2]int{r.P, r.G}], r)
			}
		}
		for tk, l := range byReader {
			sort.SliceStable(l, func(i, j int) bool { return l[i].Seq < l[j].Seq })
			for _, r := range l {
				if prev := lastSize[tk]; prev != nil && r.Size < prev.Size {
					add("reader-regress", fmt.Sprintf("reader p%d r%d saw StdoutSize %d (load #%d) and later %d (load #%d) although every writer only increments it or leaves it alone", tk[0], tk[1]-1000, prev.Size, prev.Seq, r.Size, r.Seq), []*c14Rec{prev, r})
					break
				}
				lastSize[tk] = r
			}
		}
	}

	// ---- how much contention was really produced: consecutive critical sections (ordered by
	// callback entry) where the later call had already been issued before the earlier callback ended
	byT1 := append([]*c14Rec{}, okRMW...)
	sort.SliceStable(byT1, func(i, j int) bool { return byT1[i].T1 < byT1[j].T1 })
	for i := 1; i < len(byT1); i++ {
		a, b := byT1[i-1], byT1[i]
		if b.T0 < a.T2 {
			switch {
			case a.P != b.P:
				st.crossProc++
			case a.G != b.G:
				st.crossGor++
			}
		}
	}
	return out, st
}

func c14Clip(s string) string {
	if len(s) > 300 {
		return s[:300] + "..."
	}
	return s
}

// ---------------------------------------------------------------- main

func runC14(tier string, args []string) {
	run := ev.New("C14", tier, "exploration")
	run.Rule("configurations = (M processes in {1,2,4,8}) x (N goroutines in {1,4,16}) x writer mix {full: UpdateFullStatus only; full+basic: plus UpdateBasicStatus(stdoutSize -1) writers; daemon-runner: process 0 uses one BaseWorkUnit (UpdateFullStatus/UpdateBasicStatus/Load/Status), the others StatusFileData with a commandRunner-style basic writer; runner-wholesale: the same with explicit stdoutSize} x sleep inside the callback {none, 0-0.4ms, 0-2ms}; record length varied by a seeded pad (up to 48/700/3000 bytes per configuration); quick = every (M,N) once (12), thorough = 120 of the 144 points; roles, pads, sleeps seeded. Each update is unique (id in Detail, StdoutSize+1), p0g0 sets ExtraData once, 1-2 readers per process Load concurrently. distinct_nontrivial = configurations in which at least one cross-process AND at least one cross-goroutine pair of consecutive critical sections was measured whose later call was issued before the earlier callback ended (the lock was really contended both ways). In addition (in-process sub-monitors): concurrent first updates of a status file that does not exist yet; two long-lived writers taking turns, one repeating its values; pick-up of a unit found on disk (the real Workceptor.scanForUnit, reached through UnitStatus of an inactive unit of a work type registered by the harness whose Restart and Cancel each add 1000 to the counter in one UpdateFullStatus) while 3 runner-style writers with their own receivers add 1 per update and dwell up to 1.5 ms inside the callback: the stored counter must be the sum (80 / 800 trials, counted as contended when a runner was inside its update when the scan began); two writers owning different ExtraData fields of a remote unit's record (real startRemoteUnit against the node's own control service in a child process, Cancel() from a second goroutine after a seeded 0-30 ms, delay hook remote.acked=sleep(12) holding the submit path between reading the answer and storing the id): after a successful Cancel() the stored LocalCancelled must stay true (60 / 600 trials, contended = the id was stored and the start was not); and in-memory snapshots: per unit object (BaseWorkUnit built through the exported workceptor API, in a child process) one goroutine alternately stores record k (State, Detail and StdoutSize all derived from k) in the status file and calls Load() while 4 goroutines call Status()/UnredactedStatus() in a tight loop - every snapshot must be one of the stored records, and race-detector reports with both accesses inside the status-record functions of workunitbase.go are violations; such a unit counts as distinct when its readers saw the record change in at least 1/20 of the loads")
	run.Assume("the no-lost-update clause is judged on read-modify-write (UpdateFullStatus callback) updates; UpdateBasicStatus sets State/Detail(/StdoutSize) wholesale by definition, so it takes part in: owned fields survive, records parse, every observed (Detail,StdoutSize) pair is one stored version, and - with stdoutSize -1 - the increment count")
	run.Assume("a StatusFileData value is never shared between goroutines (BaseWorkUnit has its own mutex for that); a Load/Update error that is not a JSON parse error (resource exhaustion) makes the configuration inconclusive")
	run.Assume("Save is a blind overwrite used once at allocation (before any reader or writer starts); it is exercised by C04/C13, not here")
	work := workDir()
	cfgs := c14Configs(run.Seed, run.Quick())
	if len(args) > 0 { // replay aid: vmon C14 <tier> <config index>... runs only those configurations
		only := map[string]bool{}
		for _, a := range args {
			only[a] = true
		}
		sel := cfgs[:0:0]
		for _, c := range cfgs {
			if only[fmt.Sprint(c.Idx)] {
				sel = append(sel, c)
			}
		}
		cfgs = sel
	}
	for _, cfg := range cfgs {
		if err := c14Prepare(work, cfg); err != nil {
			run.Inconclusive("C14: cannot prepare a configuration: " + err.Error())
			run.Finish(run.Pick(4, 40))
		}
	}
	lanes, where := c14PlanLanes(cfgs, run.Pick(16, 24))
	for _, l := range lanes {
		go func(l *c14LaneProc) {
			defer close(l.done)
			if len(l.jobs) == 0 {
				return
			}
			lf := filepath.Join(work, fmt.Sprintf("c14-lane%d.json", l.idx))
			b, _ := json.Marshal(&c14Lane{Lane: l.idx, Jobs: l.jobs})
			_ = os.WriteFile(lf, b, 0o644)
			cmd := exec.Command(os.Args[0], "c14child", tier, lf)
			cmd.Env = append(c14Env(), "GORACE=halt_on_error=0 exitcode=0 log_path="+filepath.Join(work, fmt.Sprintf("race-c14-lane%d", l.idx)))
			l.res = child.Run(cmd, filepath.Join(work, fmt.Sprintf("c14-lane%d.out", l.idx)), 90*time.Minute, nil)
		}(l)
	}
	var wg sync.WaitGroup
	var mu sync.Mutex
	keep := os.Getenv("C14_KEEP") != ""
	cfgWall := map[string]float64{}
	for _, cfg := range cfgs {
		wg.Add(1)
		go func(cfg *c14Cfg) {
			defer wg.Done()
			var pl []*c14LaneProc
			for _, li := range where[cfg.Idx] {
				pl = append(pl, lanes[li])
			}
			res := c14Await(cfg, pl)
			if fi, err := os.Stat(filepath.Join(cfg.Dir, "go")); err == nil {
				mu.Lock()
				cfgWall[cfg.key()] = float64(time.Since(fi.ModTime()).Milliseconds()) / 1000
				mu.Unlock()
			}
			run.Eval(1)
			if res.crash != "" {
				run.Violation("child-crash:"+strings.SplitN(res.crash, " :: ", 2)[0], fmt.Sprintf("[%s] a process running the status workload died: %s at %s", cfg.key(), res.crash, res.crashAt), map[string]any{"config": cfg, "outputs": res.outs})
				return
			}
			if res.problem != "" {
				run.Inconclusive(fmt.Sprintf("C14 cfg %d [%s]: %s", cfg.Idx, cfg.key(), res.problem))
				return
			}
			verdicts, st := c14Judge(res)
			for _, v := range verdicts {
				run.Violation(v.key, v.what, v.witness)
			}
			for i, why := range st.inconclusive {
				if i == 0 {
					run.Inconclusive(fmt.Sprintf("C14 cfg %d [%s]: %s", cfg.Idx, cfg.key(), why))
				}
			}
			run.Count("rmw_updates", int64(st.rmw))
			run.Count("basic_updates", int64(st.basic))
			run.Count("loads", int64(st.loads))
			run.Count("contended_pairs_cross_process", int64(st.crossProc))
			run.Count("contended_pairs_cross_goroutine", int64(st.crossGor))
			run.Count("load_distinct_versions_seen", int64(st.loadsDistinctVersions))
			run.SetAdd("mix_x_M", fmt.Sprintf("%s|M%d", cfg.Mix, cfg.M))
			switch {
			case st.crossProc > 0 && st.crossGor > 0:
				run.Distinct(cfg.key())
			case st.crossProc > 0:
				run.Count("configs_contended_cross_process_only", 1)
			case st.crossGor > 0:
				run.Count("configs_contended_cross_goroutine_only", 1)
			default:
				run.Count("configs_uncontended", 1)
			}
			mu.Lock()
			if len(verdicts) == 0 && cfg.M > 1 && cfg.N > 1 {
				var first []c14Rec
				for _, r := range res.recs {
					if r.K == "rmw" && r.Size < 3 && len(first) < 3 {
						r.Pred = c14StripPad(r.Pred)
						first = append(first, r)
					}
				}
				run.Sample(map[string]any{"config": cfg.key(), "per_writer": cfg.PerWriter, "rmw_updates": st.rmw, "basic_updates": st.basic, "loads": st.loads, "contended_cross_process": st.crossProc, "contended_cross_goroutine": st.crossGor, "first_links": first, "final": strings.ReplaceAll(strings.TrimSpace(string(res.final)), "~", "")})
			}
			mu.Unlock()
			if !keep && len(verdicts) == 0 {
				_ = os.RemoveAll(cfg.Dir)
			}
		}(cfg)
	}
	wg.Wait()
	for _, l := range lanes {
		<-l.done
	}
	run.Extra("config_wall_s", cfgWall)

	// races inside the status functions decide; everything else is a diagnostic
	collectRaces(run, work)
	raceFiles, _ := filepath.Glob(filepath.Join(work, "race-c14-*"))
	for _, rr := range c14ParseRaces(raceFiles) {
		switch {
		case rr.inStatus[0] != "" && rr.inStatus[1] != "":
			pair := []string{rr.inStatus[0], rr.inStatus[1]}
			sort.Strings(pair)
			run.Violation("race:status-rmw", fmt.Sprintf("the race detector reported a data race with both accesses inside the status-record functions (%s <-> %s): two operations on one record were not serialized", pair[0], pair[1]), map[string]any{"file": rr.file, "report": rr.text})
		case rr.harnessOnly:
			run.Inconclusive("C14: race report inside harness code only (harness bug), see " + rr.file)
		}
	}
	runC14Turns(run)
	runC14Scan(run)
	runC14Remote(run)
	run.Finish(run.Pick(4, 40))
}

// c14Env is the environment of a child: the parent's, without the crash/delay hook controls
// of the verif build tag (they belong to other monitors).
func c14Env() []string {
	var env []string
	for _, e := range os.Environ() {
		if strings.HasPrefix(e, "VERIF_POINT") || strings.HasPrefix(e, "VERIF_STATUS_LOG=") || strings.HasPrefix(e, "GORACE=") {
			continue
		}
		env = append(env, e)
	}
	return env
}

type c14Race struct {
	file        string
	text        string
	inStatus    [2]string // innermost status-record function on each of the two access stacks ("" = none)
	harnessOnly bool
}

// c14ParseRaces reads race-detector logs. For each report it looks at the COMPLETE stacks of the
// two conflicting accesses (the update callback is harness code that runs inside UpdateFullStatus,
// so the innermost frame alone does not tell).
func c14ParseRaces(files []string) []c14Race {
	var out []c14Race
	isStatus := func(fn string) bool {
		return strings.Contains(fn, "pkg/workceptor.(*StatusFileData).") || strings.Contains(fn, "pkg/workceptor.(*BaseWorkUnit).")
	}
	for _, fn := range files {
		f, err := os.Open(fn)
		if err != nil {
			continue
		}
		sc := bufio.NewScanner(f)
		sc.Buffer(make([]byte, 1<<20), 1<<24)
		var cur *c14Race
		var stacks [2][]string
		idx := -1
		lines := 0
		flush := func() {
			if cur == nil {
				return
			}
			receptorFrames := 0
			for i := 0; i < 2; i++ {
				for _, fr := range stacks[i] {
					if strings.Contains(fr, "ansible/receptor") {
						receptorFrames++
					}
					if cur.inStatus[i] == "" && isStatus(fr) {
						cur.inStatus[i] = strings.TrimPrefix(fr, "github.com/ansible/receptor/")
					}
				}
			}
			cur.harnessOnly = receptorFrames == 0
			out = append(out, *cur)
			cur = nil
		}
		for sc.Scan() {
			line := sc.Text()
			switch {
			case strings.HasPrefix(line, "WARNING: DATA RACE"):
				flush()
				cur = &c14Race{file: fn}
				stacks = [2][]string{}
				idx = -1
				lines = 0
			case cur == nil:
			case strings.HasPrefix(line, "Read at ") || strings.HasPrefix(line, "Write at ") || strings.HasPrefix(line, "Previous read at ") || strings.HasPrefix(line, "Previous write at ") || strings.HasPrefix(line, "Atomic ") || strings.HasPrefix(line, "Previous atomic "):
				idx++
			case strings.HasPrefix(line, "Goroutine ") || strings.HasPrefix(line, "=================="):
				idx = 99
			default:
				if idx >= 0 && idx < 2 {
					if m := raceFn.FindStringSubmatch(line); m != nil {
						stacks[idx] = append(stacks[idx], m[1])
					}
				}
			}
			if cur != nil && lines < 60 {
				cur.text += line + "\n"
				lines++
			}
		}
		flush()
		f.Close()
	}
	return out
}
