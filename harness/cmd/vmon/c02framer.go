package main

import (
	"bytes"
	"encoding/hex"
	"fmt"
	"sort"
	"sync"

	"verif/harness/internal/ev"

	"github.com/ansible/receptor/pkg/framer"
)

// Differential monitor of pkg/framer: seeded (message list, chunking, drain discipline)
// cases against a reference deframer (uint16 little-endian length ‖ bytes).

type c02Rng struct{ x uint64 }

func (r *c02Rng) next() uint64 {
	r.x += 0x9e3779b97f4a7c15
	z := r.x
	z = (z ^ (z >> 30)) * 0xbf58476d1ce4e5b9
	z = (z ^ (z >> 27)) * 0x94d049bb133111eb
	return z ^ (z >> 31)
}
func (r *c02Rng) intn(n int) int { return int(r.next() % uint64(n)) }

// reference deframer
type c02Ref struct{ buf []byte }

func (d *c02Ref) feed(b []byte) { d.buf = append(d.buf, b...) }
func (d *c02Ref) ready() bool {
	return len(d.buf) >= 2 && len(d.buf) >= 2+(int(d.buf[0])|int(d.buf[1])<<8)
}
func (d *c02Ref) pop() []byte {
	n := int(d.buf[0]) | int(d.buf[1])<<8
	m := append([]byte{}, d.buf[2:2+n]...)
	d.buf = d.buf[2+n:]
	return m
}

var c02FramerLens = []int{0, 0, 1, 1, 2, 3, 34, 35, 36, 37, 253, 254, 255, 256, 257, 258, 511, 512, 513}
var c02ChunkClasses = []string{"whole", "byte1", "len-straddle", "len-straddle-some", "after-prefix", "frame-end", "end-minus-1", "random", "empty-chunks", "two-frames-plus-1"}
var c02Disciplines = []string{"drain-each", "drain-end", "drain-random", "get-unready"}

type c02FramerCase struct {
	Idx        int      `json:"idx"`
	Class      string   `json:"chunk_class"`
	Discipline string   `json:"discipline"`
	Lens       []int    `json:"message_lengths"`
	Cuts       []int    `json:"cut_offsets"`
	Fill       string   `json:"fill"`
	Problem    string   `json:"problem,omitempty"`
	Detail     []string `json:"detail,omitempty"`
}

func c02FramerOne(seed int64, idx int) (cs *c02FramerCase, shape string) {
	r := &c02Rng{x: uint64(seed)*0x2545F4914F6CDD1D + uint64(idx)*0x9E3779B97F4A7C15 + 1}
	cs = &c02FramerCase{Idx: idx}
	cs.Class = c02ChunkClasses[r.intn(len(c02ChunkClasses))]
	cs.Discipline = c02Disciplines[r.intn(len(c02Disciplines))]
	nm := 1 + r.intn(6)
	big := false
	for i := 0; i < nm; i++ {
		var l int
		switch q := r.intn(3000); {
		case q == 0:
			l = 65535
			big = true
		case q == 1:
			l = 16420
			big = true
		case q == 2:
			l = 65534 - r.intn(3)
			big = true
		case q < 1650:
			l = c02FramerLens[r.intn(len(c02FramerLens))]
		case q < 2550:
			l = r.intn(40)
		default:
			l = r.intn(700)
		}
		cs.Lens = append(cs.Lens, l)
	}
	cs.Fill = []string{"random", "random", "zeros", "ones", "lenlike"}[r.intn(5)]
	msgs := make([][]byte, nm)
	var stream []byte
	starts := []int{}
	f := framer.New()
	for i, l := range cs.Lens {
		m := make([]byte, l)
		switch cs.Fill {
		case "zeros":
		case "ones":
			for j := range m {
				m[j] = 1
			}
		case "lenlike":
			// bytes that read as tiny length prefixes if the deframer loses alignment
			for j := range m {
				m[j] = byte(r.intn(4))
			}
		default:
			for j := 0; j < l; j += 8 {
				v := r.next()
				for k := 0; k < 8 && j+k < l; k++ {
					m[j+k] = byte(v >> (8 * k))
				}
			}
		}
		msgs[i] = m
		starts = append(starts, len(stream))
		want := make([]byte, 2+l)
		want[0], want[1] = byte(l), byte(l>>8)
		copy(want[2:], m)
		got := f.SendData(m)
		if !bytes.Equal(got, want) {
			cs.Problem = "send-encoding"
			cs.Detail = append(cs.Detail, fmt.Sprintf("SendData(%d bytes) = %d bytes, head %s; reference head %s", l, len(got), c02Hex(got, 8), c02Hex(want, 8)))
			return cs, ""
		}
		stream = append(stream, want...)
	}
	total := len(stream)
	if cs.Class == "byte1" && total > 1200 {
		cs.Class = "random"
	}
	cutset := map[int]bool{}
	addCut := func(c int) {
		if c > 0 && c < total {
			cutset[c] = true
		}
	}
	switch cs.Class {
	case "whole":
	case "byte1":
		for c := 1; c < total; c++ {
			addCut(c)
		}
	case "len-straddle":
		for _, s := range starts {
			addCut(s + 1)
		}
	case "len-straddle-some":
		for _, s := range starts {
			if r.intn(2) == 0 {
				addCut(s + 1)
			}
		}
		addCut(starts[r.intn(len(starts))] + 1)
	case "after-prefix":
		for _, s := range starts {
			addCut(s + 2)
		}
	case "frame-end":
		for _, s := range starts {
			addCut(s)
		}
	case "end-minus-1":
		for _, s := range starts {
			addCut(s - 1)
		}
		addCut(total - 1)
	case "two-frames-plus-1":
		for i := 2; i < len(starts); i += 2 {
			addCut(starts[i] + 1)
		}
		addCut(starts[len(starts)-1] + 1)
	default:
		for k := 1 + r.intn(8); k > 0; k-- {
			addCut(r.intn(total + 1))
		}
	}
	for c := range cutset {
		cs.Cuts = append(cs.Cuts, c)
	}
	sort.Ints(cs.Cuts)
	ref := &c02Ref{}
	type kept struct {
		got  []byte
		want []byte
	}
	keep := []kept{}
	problem := func(p, d string) {
		if cs.Problem == "" {
			cs.Problem = p
		}
		if len(cs.Detail) < 6 {
			cs.Detail = append(cs.Detail, d)
		}
	}
	drain := func(step int, max int) {
		for k := 0; k < max; k++ {
			fr, rr := f.MessageReady(), ref.ready()
			if fr != rr {
				problem("ready-mismatch", fmt.Sprintf("after chunk %d: MessageReady()=%v, reference=%v", step, fr, rr))
			}
			if !rr {
				if cs.Discipline == "get-unready" {
					if m, err := f.GetMessage(); err == nil {
						problem("get-when-not-ready", fmt.Sprintf("after chunk %d: GetMessage returned %d bytes (%s) although no complete frame is buffered", step, len(m), c02Hex(m, 8)))
					}
				}
				if !fr {
					return
				}
			}
			m, err := f.GetMessage()
			if !rr {
				// framer claims a message the reference does not have
				problem("phantom-message", fmt.Sprintf("after chunk %d: GetMessage returned %d bytes, err=%v; reference has no complete frame", step, len(m), err))
				return
			}
			want := ref.pop()
			if err != nil {
				problem("missing-message", fmt.Sprintf("after chunk %d: GetMessage error %v; reference has a %d-byte message", step, err, len(want)))
				return
			}
			if !bytes.Equal(m, want) {
				problem("wrong-message", fmt.Sprintf("after chunk %d: GetMessage returned %d bytes (head %s), reference %d bytes (head %s)", step, len(m), c02Hex(m, 8), len(want), c02Hex(want, 8)))
			}
			keep = append(keep, kept{m, want})
		}
	}
	prev := 0
	bounds := append(append([]int{}, cs.Cuts...), total)
	for step, c := range bounds {
		chunk := stream[prev:c]
		prev = c
		if cs.Class == "empty-chunks" && r.intn(2) == 0 {
			f.RecvData(nil)
			f.RecvData([]byte{})
		}
		// hand over a private copy and destroy it afterwards: the framer must not keep referring to the caller's buffer
		tmp := append([]byte(nil), chunk...)
		f.RecvData(tmp)
		for i := range tmp {
			tmp[i] = 0xEE
		}
		ref.feed(chunk)
		switch cs.Discipline {
		case "drain-each", "get-unready":
			drain(step, 1<<30)
		case "drain-random":
			if r.intn(2) == 0 {
				drain(step, 1+r.intn(3))
			} else if f.MessageReady() != ref.ready() {
				problem("ready-mismatch", fmt.Sprintf("after chunk %d: MessageReady()=%v, reference=%v", step, f.MessageReady(), ref.ready()))
			}
		}
	}
	drain(len(bounds), 1<<30)
	if len(keep) != nm && cs.Problem == "" {
		problem("count", fmt.Sprintf("%d messages came out, %d went in", len(keep), nm))
	}
	// messages handed out earlier must not have been overwritten by later RecvData calls
	for i, k := range keep {
		if !bytes.Equal(k.got, k.want) {
			problem("aliased-message", fmt.Sprintf("message %d changed after it had been returned", i))
			break
		}
	}
	zero := "nz"
	for _, l := range cs.Lens {
		if l == 0 {
			zero = "z"
		}
	}
	b := "s"
	if big {
		b = "B"
	}
	shape = fmt.Sprintf("%s|%s|%s|%s", cs.Class, cs.Discipline, zero, b)
	return cs, shape
}

func c02Hex(b []byte, n int) string {
	if len(b) > n {
		b = b[:n]
	}
	return hex.EncodeToString(b)
}

func c02Framer(run *ev.Run, seed int64, n int) {
	workers := 12
	var wg sync.WaitGroup
	var mu sync.Mutex
	shapes := map[string]bool{}
	sampled := false
	for w := 0; w < workers; w++ {
		wg.Add(1)
		go func(w int) {
			defer wg.Done()
			local := map[string]bool{}
			for i := w; i < n; i += workers {
				cs, shape := c02FramerOne(seed, i)
				if cs.Problem != "" {
					run.Violation("framer:"+cs.Class+":"+cs.Problem, fmt.Sprintf("framer case %d (%s, %s, message lengths %v, cuts %v): %s", cs.Idx, cs.Class, cs.Discipline, cs.Lens, cs.Cuts, cs.Detail[0]), cs)
				}
				if shape != "" {
					local[shape] = true
				}
				if i == 7 {
					mu.Lock()
					if !sampled {
						sampled = true
						run.Sample(map[string]any{"framer_case": cs})
					}
					mu.Unlock()
				}
			}
			mu.Lock()
			for s := range local {
				shapes[s] = true
			}
			mu.Unlock()
		}(w)
	}
	wg.Wait()
	run.Eval(n)
	run.Count("framer_cases", int64(n))
	for s := range shapes {
		run.SetAdd("framer_shapes", s)
	}
	run.Count("framer_distinct_shapes", int64(len(shapes)))
}
