package main

import (
	"sync"
	"time"
)

// A scheduling-lag probe: one goroutine sleeps 5 ms at a time and records by how much each wake-up was late. Monitors
// whose bound on "eventually" is counted in protocol rounds use it as a watchdog: when this very process was starved
// of CPU while a verdict was being formed (wake-ups late by hundreds of milliseconds), message handling inside the
// real nodes lagged behind the round counter just as much, and a difference from the oracle is reported as
// inconclusive, not as a violation. On a machine that is not oversubscribed the lag stays in the low milliseconds.
type lagSample struct {
	at  time.Time
	lag time.Duration
}

var (
	lagOnce sync.Once
	lagMu   sync.Mutex
	lagRing []lagSample
)

func startLagProbe() {
	lagOnce.Do(func() {
		go func() {
			const step = 5 * time.Millisecond
			for {
				t0 := time.Now()
				time.Sleep(step)
				lag := time.Since(t0) - step
				if lag > 20*time.Millisecond {
					lagMu.Lock()
					lagRing = append(lagRing, lagSample{time.Now(), lag})
					if len(lagRing) > 20000 {
						lagRing = lagRing[len(lagRing)-10000:]
					}
					lagMu.Unlock()
				}
			}
		}()
	})
}

// lagSince returns the largest wake-up delay and the total time spent in delays > 20 ms since t.
func lagSince(t time.Time) (max, total time.Duration) {
	lagMu.Lock()
	defer lagMu.Unlock()
	for _, s := range lagRing {
		if s.at.After(t) {
			if s.lag > max {
				max = s.lag
			}
			total += s.lag
		}
	}
	return
}

// starved reports whether the process was starved since t: a single wake-up late by more than 300 ms, or more than
// a fifth of the elapsed time spent in late wake-ups.
func starved(t time.Time) (bool, time.Duration, time.Duration) {
	max, total := lagSince(t)
	el := time.Since(t)
	return max > 300*time.Millisecond || (el > time.Second && total > el/5), max, total
}
