package main

import (
	"bytes"
	"context"
	"crypto/ecdsa"
	"crypto/elliptic"
	"crypto/rand"
	"crypto/rsa"
	"crypto/sha256"
	"crypto/tls"
	"crypto/x509"
	"crypto/x509/pkix"
	"encoding/asn1"
	"encoding/hex"
	"encoding/pem"
	"fmt"
	"io"
	"math/big"
	mrand "math/rand"
	"net"
	"os"
	"os/exec"
	"path/filepath"
	"sort"
	"strconv"
	"strings"
	"sync"
	"time"
	"unicode"
	"unicode/utf8"

	"verif/harness/internal/ev"

	"github.com/ansible/receptor/pkg/certificates"
	"github.com/ansible/receptor/pkg/logger"
	"github.com/ansible/receptor/pkg/netceptor"
	"github.com/ansible/receptor/pkg/utils"
)

// C20 — a certificate issued by the built-in tooling carries exactly the requested names, chains to
// the signing authority, is accepted by receptor's own peer verification for each requested node id
// and for no other; reading node ids back returns exactly the encoded ids or an error.

func init() { register("C20", runC20) }

// c20LongID is the byte length from which the generator labels a node id "long" (the label is part
// of the violation key, see BUILDING.md rule 8). 113 is where the DER length of an otherName that
// carries the id stops fitting into one octet (11 bytes OID + 2 + 2 + len >= 128).
const c20LongID = 113

var sanOID = asn1.ObjectIdentifier{2, 5, 29, 17}

type c20Triple struct {
	Idx     int
	Origin  string // "sweep" | "random"
	Classes []string
	DNS     []string
	IPs     []net.IP
	IDs     []string
	WithKey bool
	Window  string
	Simple  bool // plainly valid input: the tooling must be able to issue it (positive control)
}

func descStr(s string) string {
	if len(s) <= 64 {
		return strconv.QuoteToASCII(s)
	}
	h := sha256.Sum256([]byte(s))
	return fmt.Sprintf("%s...(len=%d sha256=%x)", strconv.QuoteToASCII(s[:32]), len(s), h[:6])
}

func descList(l []string) []string {
	out := make([]string, len(l))
	for i, s := range l {
		out[i] = descStr(s)
	}
	return out
}

func (t *c20Triple) witness() map[string]any {
	ips := []string{}
	for _, ip := range t.IPs {
		ips = append(ips, fmt.Sprintf("%v(%d bytes)", ip, len(ip)))
	}
	lens := []int{}
	for _, id := range t.IDs {
		lens = append(lens, len(id))
	}
	return map[string]any{"triple": t.Idx, "origin": t.Origin, "classes": t.Classes, "dns": descList(t.DNS), "ips": ips,
		"node_ids": descList(t.IDs), "node_id_byte_lengths": lens, "with_preexisting_key": t.WithKey, "window": t.Window}
}

func (t *c20Triple) hasLong() bool {
	for _, id := range t.IDs {
		if len(id) >= c20LongID {
			return true
		}
	}
	return false
}

func (t *c20Triple) key() string {
	h := sha256.New()
	fmt.Fprintf(h, "%q|%q|%v|%v|%s", t.DNS, t.IDs, t.IPs, t.WithKey, t.Window)
	return hex.EncodeToString(h.Sum(nil)[:8])
}

// ------------------------------------------------------------------ generators

const c20Alnum = "abcdefghijklmnopqrstuvwxyz0123456789"

func c20ASCII(rng *mrand.Rand, n int) string {
	b := make([]byte, n)
	for i := range b {
		b[i] = c20Alnum[rng.Intn(len(c20Alnum))]
	}
	if n > 4 {
		b[rng.Intn(n-2)+1] = "-._"[rng.Intn(3)]
	}
	return string(b)
}

var c20Runes = []string{"\u00e9", "\u00fc", "\u00df", "\u65e5", "\u672c", "\u8a9e", "\U0001F642", "e\u0301", "\u03a9", "\u0436", "\u200d", "\u202e", "\u0130", "\u0131"}

// c20UTF8 returns valid multi-byte UTF-8 text of exactly n bytes (n >= 1).
func c20UTF8(rng *mrand.Rand, n int) string {
	var sb strings.Builder
	for sb.Len() < n {
		r := c20Runes[rng.Intn(len(c20Runes))]
		if sb.Len()+len(r) > n {
			sb.WriteByte(c20Alnum[rng.Intn(len(c20Alnum))])
			continue
		}
		sb.WriteString(r)
	}
	return sb.String()
}

var c20Specials = []string{" ", ":", "/", "=", "\"", "\\", "\n", "\x00", ",", "*", "\t", "'", "%", "@", ";", "#", "\x7f"}

func c20Special(rng *mrand.Rand) string {
	n := 1 + rng.Intn(12)
	var sb strings.Builder
	for i := 0; i < n; i++ {
		if rng.Intn(3) == 0 {
			sb.WriteString(c20Specials[rng.Intn(len(c20Specials))])
		} else {
			sb.WriteByte(c20Alnum[rng.Intn(len(c20Alnum))])
		}
	}
	return sb.String()
}

var c20Invalid = []string{"\xff\xfe", "a\xc3", "\xed\xa0\x80", "ok\x80ok", "\xc0\xaf", "\xf8\x88\x80\x80\x80"}

func swapCase(s string) string {
	return strings.Map(func(r rune) rune {
		switch {
		case unicode.IsUpper(r):
			return unicode.ToLower(r)
		case unicode.IsLower(r):
			return unicode.ToUpper(r)
		}
		return r
	}, s)
}

func c20GenID(rng *mrand.Rand, prev []string) (string, string) {
	switch r := rng.Intn(100); {
	case r < 30:
		return c20ASCII(rng, 1+rng.Intn(20)), "ascii"
	case r < 42:
		return c20Special(rng), "special"
	case r < 56:
		return c20UTF8(rng, 2+rng.Intn(40)), "utf8"
	case r < 59:
		return "", "empty"
	case r < 64:
		return c20Invalid[rng.Intn(len(c20Invalid))], "invalid-utf8"
	case r < 72:
		return c20ASCII(rng, 100+rng.Intn(13)), "near-boundary" // 100..112: just below the long label
	case r < 80:
		return c20ASCII(rng, 113+rng.Intn(18)), "long-boundary" // 113..130
	case r < 84:
		return c20UTF8(rng, 113+rng.Intn(18)), "long-utf8"
	case r < 88:
		return c20ASCII(rng, []int{200, 255, 256, 1000}[rng.Intn(4)]), "long"
	case r < 94:
		if len(prev) > 0 {
			return prev[rng.Intn(len(prev))], "duplicate"
		}
		return c20ASCII(rng, 3), "ascii"
	default:
		if len(prev) > 0 {
			return swapCase(prev[rng.Intn(len(prev))]), "case-variant"
		}
		return strings.ToUpper(c20ASCII(rng, 5)), "ascii"
	}
}

var c20GoodDNS = []string{"example.com", "a.b.c.example.org", "*.example.com", "localhost", "UPPER.Example.COM",
	"xn--nxasmq6b.example", "host-1", "a", strings.Repeat("l", 63) + ".example", "node1.mesh.internal"}

var c20OddDNS = []string{"trailing.dot.", "", "under_score.example", "1.2.3.4", "a b", "b\u00fccher.example",
	strings.Repeat("abcdefgh.", 28) + "x", ".leading.dot", "a..b"}

func c20GenIP(rng *mrand.Rand) (net.IP, string) {
	switch rng.Intn(10) {
	case 0, 1, 2:
		return net.IPv4(byte(rng.Intn(256)), byte(rng.Intn(256)), byte(rng.Intn(256)), byte(rng.Intn(256))).To4(), "v4"
	case 3:
		return net.IPv4(byte(rng.Intn(256)), byte(rng.Intn(256)), byte(rng.Intn(256)), byte(rng.Intn(256))), "v4-in-16"
	case 4, 5, 6:
		b := make(net.IP, 16)
		rng.Read(b)
		b[0] = 0x20
		return b, "v6"
	case 7:
		return net.ParseIP([]string{"::1", "::", "fe80::1", "ff02::1"}[rng.Intn(4)]), "v6-special"
	case 8:
		return net.ParseIP([]string{"0.0.0.0", "255.255.255.255", "127.0.0.1"}[rng.Intn(3)]), "v4-special"
	default:
		b := make(net.IP, []int{1, 5, 15, 17}[rng.Intn(4)])
		rng.Read(b)
		return b, "ip-badlen"
	}
}

var c20Windows = []string{"default", "default", "current", "current", "expired", "future", "short-past", "long", "inverted", "from-only", "until-only", "from-only", "until-only"}

func c20Window(name string, now time.Time) (nb, na time.Time) {
	d := func(y int) time.Time { return time.Date(y, 6, 1, 12, 0, 0, 0, time.UTC) }
	switch name {
	case "current":
		return now.Add(-time.Hour), now.AddDate(1, 0, 0)
	case "expired":
		return d(2001), d(2002)
	case "future":
		return d(2080), d(2081)
	case "short-past":
		return now.Add(-2 * time.Hour), now.Add(-2*time.Hour + time.Second)
	case "long":
		return d(2000), d(2089)
	case "inverted":
		return d(2031), d(2030)
	case "from-only":
		// only the start is requested: the tool picks the end (a year from now)
		return now.Add(-time.Hour), time.Time{}
	case "until-only":
		// only the end is requested: the tool picks the start (now)
		return time.Time{}, now.AddDate(0, 6, 0)
	}
	return time.Time{}, time.Time{} // "default": the tool picks now .. now+1y
}

var c20SweepLens = func() []int {
	l := []int{1, 2, 50, 100}
	for i := 110; i <= 130; i++ {
		l = append(l, i)
	}
	return append(l, 200, 255, 256, 1000, 70000)
}()

func genC20(seed int64, quick bool) []*c20Triple {
	rng := mrand.New(mrand.NewSource(seed*7919 + 20))
	var out []*c20Triple
	add := func(t *c20Triple) { t.Idx = len(out); out = append(out, t) }
	// (1) the length sweep: one id of every listed byte length, alone (so that a failure names the length)
	for _, n := range c20SweepLens {
		add(&c20Triple{Origin: "sweep", Classes: []string{fmt.Sprintf("sweep-ascii-len%d", n)}, IDs: []string{c20ASCII(rng, n)},
			WithKey: true, Window: "current", Simple: n < c20LongID})
	}
	for n := 110; n <= 130; n += 1 + rng.Intn(3) {
		add(&c20Triple{Origin: "sweep", Classes: []string{fmt.Sprintf("sweep-utf8-len%d", n)}, IDs: []string{c20UTF8(rng, n)},
			DNS: []string{"example.com"}, WithKey: true, Window: "default"})
	}
	// a long id next to short ones, and a short control next to nothing
	add(&c20Triple{Origin: "sweep", Classes: []string{"short+long"}, IDs: []string{"short-" + c20ASCII(rng, 4), c20ASCII(rng, 120+rng.Intn(8)), "z" + c20ASCII(rng, 3)},
		DNS: []string{"localhost"}, IPs: []net.IP{net.ParseIP("10.0.0.1").To4()}, WithKey: true, Window: "current"})
	add(&c20Triple{Origin: "sweep", Classes: []string{"empty-request"}, WithKey: true, Window: "current"})
	add(&c20Triple{Origin: "sweep", Classes: []string{"no-preexisting-key"}, IDs: []string{"nokey-" + c20ASCII(rng, 5)}, DNS: []string{"example.com"},
		WithKey: false, Window: "default", Simple: true})
	// (2) seeded random triples
	n := 150
	if !quick {
		n = 3000
	}
	for len(out) < n {
		t := &c20Triple{Origin: "random", Simple: true}
		cls := map[string]bool{}
		nid := []int{0, 1, 1, 1, 2, 2, 3, 4, 6}[rng.Intn(9)]
		for i := 0; i < nid; i++ {
			id, c := c20GenID(rng, t.IDs)
			t.IDs = append(t.IDs, id)
			cls["id:"+c] = true
			if c != "ascii" && c != "duplicate" && c != "case-variant" && c != "utf8" && c != "near-boundary" {
				t.Simple = false
			}
		}
		for i, nd := 0, []int{0, 0, 1, 1, 2, 4}[rng.Intn(6)]; i < nd; i++ {
			if rng.Intn(5) == 0 {
				t.DNS = append(t.DNS, c20OddDNS[rng.Intn(len(c20OddDNS))])
				cls["dns:odd"] = true
				t.Simple = false
			} else {
				t.DNS = append(t.DNS, c20GoodDNS[rng.Intn(len(c20GoodDNS))])
				cls["dns:good"] = true
			}
		}
		for i, ni := 0, []int{0, 0, 1, 1, 2, 4}[rng.Intn(6)]; i < ni; i++ {
			ip, c := c20GenIP(rng)
			t.IPs = append(t.IPs, ip)
			cls["ip:"+c] = true
			if c == "ip-badlen" {
				t.Simple = false
			}
		}
		t.WithKey = rng.Intn(16) != 0
		t.Window = c20Windows[rng.Intn(len(c20Windows))]
		cls["window:"+t.Window] = true
		if !t.WithKey {
			cls["no-preexisting-key"] = true
		}
		for c := range cls {
			t.Classes = append(t.Classes, c)
		}
		sort.Strings(t.Classes)
		add(t)
	}
	return out
}

// ------------------------------------------------------------------ environment

type c20Env struct {
	run    *ev.Run
	key    *rsa.PrivateKey // the one pre-existing request key
	ca     *certificates.CA
	pool   *x509.CertPool
	tlscfg *tls.Config
	log    *logger.ReceptorLogger
	now    time.Time
	mu     sync.Mutex
	sweep  map[string]string
}

func (e *c20Env) noteSweep(t *c20Triple, outcome string) {
	if t.Origin != "sweep" || len(t.IDs) != 1 {
		return
	}
	e.mu.Lock()
	e.sweep[fmt.Sprintf("%s/%06d", strings.Split(t.Classes[0], "-len")[0], len(t.IDs[0]))] = outcome
	e.mu.Unlock()
}

func quietLogger() *logger.ReceptorLogger {
	l := logger.NewReceptorLogger("")
	l.SetOutput(io.Discard)
	return l
}

func c20Recover(run *ev.Run, key string, witness any) {
	if r := recover(); r != nil {
		run.Violation(key, fmt.Sprintf("panic: %v", r), witness)
	}
}

func findSAN(exts []pkix.Extension) ([]byte, int) {
	var v []byte
	n := 0
	for _, e := range exts {
		if e.Id.Equal(sanOID) {
			if n == 0 {
				v = e.Value
			}
			n++
		}
	}
	return v, n
}

func strSet(l []string) map[string]int {
	m := map[string]int{}
	for _, s := range l {
		m[s]++
	}
	return m
}

func sameSet(a, b map[string]int) bool {
	if len(a) != len(b) {
		return false
	}
	for k := range a {
		if _, ok := b[k]; !ok {
			return false
		}
	}
	return true
}

func sameMultiset(a, b map[string]int) bool {
	if !sameSet(a, b) {
		return false
	}
	for k, v := range a {
		if b[k] != v {
			return false
		}
	}
	return true
}

// c20JudgeReadback applies "returns exactly the encoded ids or reports an error - never a different
// name" to one result of receptor's reader against the walker's view of the same bytes.
func c20JudgeReadback(w *sanWalk, got []string, err error) (key, outcome string) {
	if err != nil {
		return "", "error"
	}
	if w.Status == derDontCare {
		return "", "not-judged"
	}
	enc := strSet(w.IDs)
	for _, g := range got {
		if _, ok := enc[g]; !ok {
			return "readback:different-name", "different-name"
		}
	}
	if w.Status == derStrict {
		if !sameMultiset(enc, strSet(got)) {
			return "readback:incomplete", "incomplete"
		}
		return "", "exact"
	}
	if len(got) < w.NReceptor {
		return "readback:incomplete", "incomplete"
	}
	return "", "read-through"
}

func c20Others(t *c20Triple, rng *mrand.Rand) []string {
	req := strSet(t.IDs)
	cand := []string{"", "localhost", "other-node", "c20-subject", c20ASCII(rng, 8)}
	for _, id := range t.IDs {
		if !utf8.ValidString(id) {
			continue
		}
		cand = append(cand, id+"x", "x"+id, id+" ", id+"\x00", swapCase(id), strings.ToUpper(id), strings.ToLower(id))
		if len(id) > 1 {
			cand = append(cand, id[:len(id)-1], id[1:])
		}
		if i := strings.IndexAny(id, ":./"); i > 0 {
			cand = append(cand, id[:i])
		}
		if strings.Contains(id, "\u00e9") { // the other Unicode normal form is a different id
			cand = append(cand, strings.ReplaceAll(id, "\u00e9", "e\u0301"))
		}
		if strings.Contains(id, "e\u0301") {
			cand = append(cand, strings.ReplaceAll(id, "e\u0301", "\u00e9"))
		}
	}
	cand = append(cand, t.DNS...)
	for _, ip := range t.IPs {
		cand = append(cand, ip.String())
	}
	out := []string{}
	seen := map[string]bool{}
	for _, c := range cand {
		if _, ok := req[c]; ok || seen[c] || !utf8.ValidString(c) {
			continue
		}
		seen[c] = true
		out = append(out, c)
	}
	return out
}

func ipKey(ip []byte) string {
	if len(ip) == 4 || len(ip) == 16 {
		return hex.EncodeToString(net.IP(ip).To16())
	}
	return "raw:" + hex.EncodeToString(ip)
}

// c20CheckCert judges one issued certificate against the request it was issued for.
func (e *c20Env) c20CheckCert(t *c20Triple, cert *x509.Certificate, caCert *x509.Certificate, origin string) (idsOK bool) {
	run := e.run
	wit := func(extra map[string]any) map[string]any {
		w := t.witness()
		w["issued_via"] = origin
		for k, v := range extra {
			w[k] = v
		}
		return w
	}
	sfx := ""
	if origin == "cli" {
		sfx = ":cli"
	}
	san, nsan := findSAN(cert.Extensions)
	w := &sanWalk{}
	if nsan > 0 {
		w = walkSAN(san)
	}
	// --- exactly the requested names (sets; a tool that drops exact duplicates is tolerated)
	idsOK = w.Status != derMalformed && w.Status != derDontCare && sameSet(strSet(w.IDs), strSet(t.IDs))
	if !idsOK {
		// key from the generator's labels: "san:long-id" when exactly the ids labelled long (>= 113
		// bytes) are what is missing from the certificate; anything else is "names:nodeid"
		key := "names:nodeid" + sfx
		dec, onlyLongMissing := strSet(w.IDs), t.hasLong()
		for _, id := range t.IDs {
			if _, ok := dec[id]; !ok && len(id) < c20LongID {
				onlyLongMissing = false
			}
		}
		for _, id := range w.IDs {
			if _, ok := strSet(t.IDs)[id]; !ok {
				onlyLongMissing = false
			}
		}
		if onlyLongMissing {
			key = "san:long-id" // one defect, one key: the same whether issued through the library or the CLI
		}
		run.Violation(key, fmt.Sprintf("certificate issued for node ids %v: the SAN decodes (%s: %s) to %v", descList(t.IDs), w.Status, w.Why, descList(w.IDs)),
			wit(map[string]any{"decoded_ids": descList(w.IDs), "walker_status": w.Status.String(), "walker_why": w.Why, "san_hex_prefix": hex.EncodeToString(san[:min(len(san), 96)])}))
	} else if !sameMultiset(strSet(w.IDs), strSet(t.IDs)) {
		run.Count("duplicates_dropped_by_tool", 1)
	}
	wd, cd := strSet(w.DNS), strSet(cert.DNSNames)
	if rd := strSet(t.DNS); w.Status == derStrict && (!sameSet(wd, rd) || !sameSet(cd, rd)) {
		run.Violation("names:dns"+sfx, fmt.Sprintf("requested DNS names %v, certificate carries %v (crypto/x509 reads %v)", descList(t.DNS), descList(w.DNS), descList(cert.DNSNames)), wit(nil))
	}
	ri, wi, ci := map[string]int{}, map[string]int{}, map[string]int{}
	for _, ip := range t.IPs {
		ri[ipKey(ip)]++
	}
	for _, ip := range w.IPs {
		wi[ipKey(ip)]++
	}
	for _, ip := range cert.IPAddresses {
		ci[ipKey(ip)]++
	}
	if w.Status == derStrict && (!sameSet(ri, wi) || !sameSet(ri, ci)) {
		run.Violation("names:ip"+sfx, fmt.Sprintf("requested IP addresses %v, certificate carries %v", t.IPs, cert.IPAddresses), wit(nil))
	}
	// --- chains to the signing authority
	if err := cert.CheckSignatureFrom(caCert); err != nil || !bytes.Equal(cert.RawIssuer, caCert.RawSubject) {
		run.Violation("chain"+sfx, fmt.Sprintf("certificate is not signed by / issued under the signing authority: %v", err), wit(nil))
	}
	pool := x509.NewCertPool()
	pool.AddCert(caCert)
	if cert.NotAfter.After(cert.NotBefore) {
		mid := cert.NotBefore.Add(cert.NotAfter.Sub(cert.NotBefore) / 2)
		if mid.After(caCert.NotBefore) && mid.Before(caCert.NotAfter) {
			if _, err := cert.Verify(x509.VerifyOptions{Roots: pool, CurrentTime: mid, KeyUsages: []x509.ExtKeyUsage{x509.ExtKeyUsageAny}}); err != nil {
				run.Violation("chain"+sfx, fmt.Sprintf("x509 path validation to the signing authority fails inside the validity window: %v", err), wit(nil))
			}
			run.Count("chain_verified", 1)
		}
	}
	// --- receptor's own peer verification: each requested id, no other id
	tlscfg := &tls.Config{RootCAs: pool, ClientCAs: pool}
	now := time.Now()
	// "current" follows from the validity window that was REQUESTED (an unset bound is chosen by the tool: start = now,
	// end = a year from now), not from what the certificate happens to carry: a certificate whose window is not the
	// requested one and that is refused for that reason is refused for a requested id all the same
	nbReq, naReq := c20Window(t.Window, e.now)
	current := (nbReq.IsZero() || !nbReq.After(now)) && (naReq.IsZero() || naReq.Add(-60*time.Second).After(now)) && (nbReq.IsZero() || naReq.IsZero() || naReq.After(nbReq))
	if current && (cert.NotBefore.After(now) || !cert.NotAfter.After(now)) {
		run.Count("certificates_not_valid_now_although_the_requested_window_is_current", 1)
	}
	call := func(id string, vt netceptor.VerifyType) (err error) {
		defer func() {
			if r := recover(); r != nil {
				err = fmt.Errorf("PANIC %v", r)
				run.Violation("verify:panic"+sfx, fmt.Sprintf("ReceptorVerifyFunc panicked for expected id %s: %v", descStr(id), r), wit(nil))
			}
		}()
		return netceptor.ReceptorVerifyFunc(tlscfg, nil, id, netceptor.ExpectedHostnameTypeReceptor, vt, e.log)([][]byte{cert.Raw}, nil)
	}
	roles := []netceptor.VerifyType{netceptor.VerifyServer, netceptor.VerifyClient}
	// the property quantifies over UTF-8 ids: a request containing bytes that are not UTF-8 is outside
	// it; for such a request only "an error or the same bytes, never a different name" is demanded
	inDomain := true
	for _, id := range t.IDs {
		inDomain = inDomain && utf8.ValidString(id)
	}
	if !inDomain {
		run.Count("issued_although_an_id_is_not_utf8", 1)
	}
	seen := map[string]bool{}
	for _, id := range t.IDs {
		if seen[id] {
			continue
		}
		seen[id] = true
		for _, vt := range roles {
			err := call(id, vt)
			run.Count("verify_calls", 1)
			switch {
			case err == nil && current:
				run.Count("verify_accepts_requested", 1)
			case err != nil && current && !inDomain:
				run.Count("verify_rejects_requested_outside_domain(non-UTF-8 id in the set)", 1)
			case err != nil && current && idsOK:
				run.Violation("verify:rejects-requested"+sfx, fmt.Sprintf("currently valid certificate issued for %v is refused for requested id %s (role %d): %v", descList(t.IDs), descStr(id), vt, err), wit(nil))
			case err != nil && current:
				run.Count("verify_reject_follows_from_names_failure", 1)
			case err == nil:
				if now.After(cert.NotAfter.Add(time.Minute)) || now.Before(cert.NotBefore.Add(-time.Minute)) {
					run.Count("verify_accept_outside_window(C09 matter)", 1)
				} else {
					run.Count("verify_accept_near_window_edge(not judged)", 1)
				}
			}
		}
	}
	rng := mrand.New(mrand.NewSource(int64(t.Idx)*31 + e.run.Seed))
	for _, o := range c20Others(t, rng) {
		vt := roles[rng.Intn(2)]
		err := call(o, vt)
		run.Count("verify_calls", 1)
		if err == nil {
			run.Violation("verify:accepts-other"+sfx, fmt.Sprintf("certificate issued for node ids %v is accepted for the non-requested id %s", descList(t.IDs), descStr(o)), wit(map[string]any{"other": descStr(o)}))
		} else {
			run.Count("verify_rejects_other", 1)
		}
	}
	// --- reading the ids back from the certificate
	e.readback("cert"+sfx, cert.Extensions, wit(nil))
	return idsOK
}

// readback runs receptor's reader over a list of extensions and judges it against the walker.
func (e *c20Env) readback(kind string, exts []pkix.Extension, witness map[string]any) {
	var enc sanWalk
	for _, x := range exts {
		if x.Id.Equal(sanOID) {
			w := walkSAN(x.Value)
			enc.raise(w.Status, w.Why)
			enc.IDs = append(enc.IDs, w.IDs...)
			enc.NReceptor += w.NReceptor
		}
	}
	var got []string
	var err error
	func() {
		defer c20Recover(e.run, "readback:panic", witness)
		got, err = utils.ReceptorNames(exts)
	}()
	key, outcome := c20JudgeReadback(&enc, got, err)
	e.run.Count("readback_"+strings.Split(kind, ":")[0]+"_"+enc.Status.String()+"_"+outcome, 1)
	if key != "" {
		if witness == nil {
			witness = map[string]any{}
		}
		witness["reader_returned"] = descList(got)
		witness["encoded_ids"] = descList(enc.IDs)
		witness["walker_status"] = enc.Status.String() + ": " + enc.Why
		e.run.Violation(key, fmt.Sprintf("%s: the reader returned %v without error; the bytes encode (%s) %v", kind, descList(got), enc.Status, descList(enc.IDs)), witness)
	}
}

func (e *c20Env) triple(t *c20Triple) {
	run := e.run
	run.Eval(1)
	for _, c := range t.Classes {
		run.SetAdd("triple_classes", strings.TrimRight(c, "0123456789"))
	}
	opts := &certificates.CertOptions{CommonName: "c20-subject", Bits: 2048}
	opts.DNSNames, opts.NodeIDs, opts.IPAddresses = t.DNS, t.IDs, t.IPs
	var req *x509.CertificateRequest
	var err error
	func() {
		defer c20Recover(run, "tool-panic:makereq", t.witness())
		if t.WithKey {
			req, err = certificates.CreateCertReq(opts, e.key)
		} else {
			req, _, err = certificates.CreateCertReqWithKey(opts)
		}
	}()
	if req == nil {
		run.Count("refused_at_request", 1)
		e.noteSweep(t, "refused at request")
		if t.Simple {
			run.Violation("tool-refused:simple", fmt.Sprintf("the tooling cannot make a request for a plainly valid name set: %v", err), t.witness())
		}
		return
	}
	// reading the ids back from the request
	func() {
		defer c20Recover(run, "readback:panic", t.witness())
		names, gerr := certificates.GetReqNames(req)
		san, _ := findSAN(req.Extensions)
		w := walkSAN(san)
		var got []string
		if names != nil {
			got = names.NodeIDs
		}
		key, outcome := c20JudgeReadback(w, got, gerr)
		run.Count("readback_request_"+w.Status.String()+"_"+outcome, 1)
		if key != "" {
			run.Violation(key, fmt.Sprintf("GetReqNames returned %v without error; the request encodes %v", descList(got), descList(w.IDs)), t.witness())
		}
	}()
	sopts := &certificates.CertOptions{}
	sopts.NotBefore, sopts.NotAfter = c20Window(t.Window, e.now)
	var cert *x509.Certificate
	func() {
		defer c20Recover(run, "tool-panic:sign", t.witness())
		cert, err = certificates.SignCertReq(req, e.ca, sopts)
	}()
	if cert == nil {
		run.Count("refused_at_signing", 1)
		e.noteSweep(t, "refused at signing")
		if t.Simple {
			run.Violation("tool-refused:simple", fmt.Sprintf("the tooling cannot sign a request for a plainly valid name set: %v", err), t.witness())
		}
		return
	}
	run.Count("certificates_issued", 1)
	if e.c20CheckCert(t, cert, e.ca.Certificate, "library") {
		e.noteSweep(t, "ids exact")
	} else {
		e.noteSweep(t, "IDS NOT DECODABLE")
	}
	if len(t.IDs)+len(t.DNS)+len(t.IPs) > 0 {
		run.Distinct(t.key())
	}
	for _, id := range t.IDs {
		switch {
		case len(id) >= c20LongID:
			run.Count("issued_ids_len>=113", 1)
		case len(id) >= 100:
			run.Count("issued_ids_len100-112", 1)
		default:
			run.Count("issued_ids_len<100", 1)
		}
	}
}

// ------------------------------------------------------------------ tampered extensions

type c20Tampered struct {
	Base, Mut []byte
	Op        string
}

func c20RandEntries(rng *mrand.Rand) []sanEntry {
	var es []sanEntry
	n := rng.Intn(6)
	for i := 0; i < n; i++ {
		switch r := rng.Intn(10); {
		case r < 6:
			var s string
			switch rng.Intn(5) {
			case 0:
				s = c20UTF8(rng, 2+rng.Intn(20))
			case 1:
				s = c20ASCII(rng, 110+rng.Intn(30))
			case 2:
				s = c20ASCII(rng, 250+rng.Intn(20))
			default:
				s = c20ASCII(rng, 1+rng.Intn(12))
			}
			es = append(es, sanID(s))
		case r < 8:
			es = append(es, sanDNS(c20GoodDNS[rng.Intn(len(c20GoodDNS))]))
		case r < 9:
			ip, _ := c20GenIP(rng)
			es = append(es, sanIP(ip))
		default:
			es = append(es, sanEntry{"otherOID", []byte(c20ASCII(rng, 1+rng.Intn(8)))})
		}
	}
	return es
}

var c20TagSwaps = map[byte][]byte{0xa0: {0x80, 0xa1, 0x30, 0x20, 0x60, 0xe0, 0xbf}, 0x0c: {0x16, 0x04, 0x1e, 0x13, 0x2c, 0x14}, 0x06: {0x0c, 0x0d, 0x86}, 0x30: {0x31, 0x10, 0xa0}, 0x82: {0xa0, 0x80}, 0x87: {0xa0}}

func c20Mutate(rng *mrand.Rand, base []byte) ([]byte, string) {
	m := append([]byte{}, base...)
	var pos []tlvPos
	tlvHeaders(base, 0, 0, &pos)
	switch op := rng.Intn(12); {
	case op == 0 || len(m) == 0:
		return m, "untouched"
	case op == 1:
		i := rng.Intn(len(m))
		m[i] ^= 1 << uint(rng.Intn(8))
		return m, "bitflip"
	case op == 2:
		m[rng.Intn(len(m))] = byte(rng.Intn(256))
		return m, "byte-replace"
	case op == 3:
		return m[:rng.Intn(len(m))], "truncate"
	case op == 4:
		extra := make([]byte, 1+rng.Intn(6))
		rng.Read(extra)
		return append(m, extra...), "append"
	case op == 5:
		i := rng.Intn(len(m))
		return append(m[:i:i], m[i+1:]...), "delete-byte"
	case op == 6:
		i := rng.Intn(len(m) + 1)
		out := append([]byte{}, m[:i]...)
		out = append(out, byte(rng.Intn(256)))
		return append(out, m[i:]...), "insert-byte"
	case op <= 9 && len(pos) > 0: // length-field tampering
		p := pos[rng.Intn(len(pos))]
		switch rng.Intn(7) {
		case 0:
			m[p.HdrEnd-1]++
			return m, "len+1"
		case 1:
			m[p.HdrEnd-1]--
			return m, "len-1"
		case 2:
			m[p.Len] = 0
			return m, "len=0"
		case 3:
			m[p.Len] = 0x80
			return m, "len=indefinite"
		case 4:
			if p.HdrEnd-p.Len == 1 { // short form -> non-minimal long form of the same value
				out := append([]byte{}, m[:p.Len]...)
				out = append(out, 0x81, m[p.Len])
				return append(out, m[p.HdrEnd:]...), "len-nonminimal"
			}
			m[p.Len] = 0x84
			return m, "len-of-len"
		case 5:
			m[p.Len] = 0xff
			return m, "len=ff"
		default:
			out := append([]byte{}, m[:p.Len]...)
			out = append(out, 0x82, 0x00, m[p.Len])
			return append(out, m[p.Len+1:]...), "len-leading-zero"
		}
	case op == 10 && len(pos) > 0: // tag swap
		p := pos[rng.Intn(len(pos))]
		if alts := c20TagSwaps[m[p.Tag]]; len(alts) > 0 {
			m[p.Tag] = alts[rng.Intn(len(alts))]
			return m, "tag-swap"
		}
		m[p.Tag] ^= 0x20
		return m, "tag-constructed-bit"
	default: // re-declare the outer length to cut an element in half, keeping the bytes
		if len(pos) > 1 && pos[0].HdrEnd-pos[0].Len == 1 && m[pos[0].Len] > 2 {
			m[pos[0].Len] -= byte(1 + rng.Intn(int(m[pos[0].Len])-1))
			return m, "outer-len-shrunk"
		}
		i := rng.Intn(len(m))
		m[i] ^= 0x80
		return m, "bitflip"
	}
}

func genC20Tampered(seed int64, n int) []c20Tampered {
	rng := mrand.New(mrand.NewSource(seed*104729 + 2020))
	out := make([]c20Tampered, 0, n)
	for len(out) < n {
		var base []byte
		if rng.Intn(4) == 0 {
			// a tool-made extension (receptor's encoder) as the base, including the long-id shapes
			ids := []string{}
			for i, k := 0, rng.Intn(4); i < k; i++ {
				ids = append(ids, c20ASCII(rng, []int{3, 20, 112, 113, 127, 128, 260}[rng.Intn(7)]))
			}
			ext, err := utils.MakeReceptorSAN([]string{"example.com"}[:rng.Intn(2)], nil, ids)
			if err != nil {
				continue
			}
			base = ext.Value
		} else {
			base = derSAN(c20RandEntries(rng))
		}
		k := 1 + rng.Intn(8)
		for i := 0; i < k && len(out) < n; i++ {
			m, op := c20Mutate(rng, base)
			if rng.Intn(6) == 0 {
				var op2 string
				m, op2 = c20Mutate(rng, m)
				op += "+" + op2
			}
			out = append(out, c20Tampered{Base: base, Mut: m, Op: op})
		}
	}
	return out
}

type c20Rewrap struct {
	caKey, leafKey *ecdsa.PrivateKey
	ca             *x509.Certificate
	pool           *x509.CertPool
}

func newC20Rewrap() *c20Rewrap {
	r := &c20Rewrap{}
	r.caKey, _ = ecdsa.GenerateKey(elliptic.P256(), rand.Reader)
	r.leafKey, _ = ecdsa.GenerateKey(elliptic.P256(), rand.Reader)
	tpl := &x509.Certificate{SerialNumber: big.NewInt(1), Subject: pkix.Name{CommonName: "c20 rewrap CA"}, NotBefore: time.Now().Add(-time.Hour),
		NotAfter: time.Now().AddDate(1, 0, 0), IsCA: true, BasicConstraintsValid: true, KeyUsage: x509.KeyUsageCertSign | x509.KeyUsageDigitalSignature}
	der, err := x509.CreateCertificate(rand.Reader, tpl, tpl, &r.caKey.PublicKey, r.caKey)
	if err != nil {
		panic(err)
	}
	r.ca, _ = x509.ParseCertificate(der)
	r.pool = x509.NewCertPool()
	r.pool.AddCert(r.ca)
	return r
}

// wrap signs a leaf whose SAN extension value is ext, verbatim.
func (r *c20Rewrap) wrap(ext []byte, serial int64) (*x509.Certificate, error) {
	tpl := &x509.Certificate{SerialNumber: big.NewInt(serial), Subject: pkix.Name{CommonName: "c20 rewrapped"}, NotBefore: time.Now().Add(-time.Hour),
		NotAfter: time.Now().AddDate(0, 1, 0), KeyUsage: x509.KeyUsageDigitalSignature,
		ExtKeyUsage:     []x509.ExtKeyUsage{x509.ExtKeyUsageClientAuth, x509.ExtKeyUsageServerAuth},
		ExtraExtensions: []pkix.Extension{{Id: sanOID, Value: ext}}}
	der, err := x509.CreateCertificate(rand.Reader, tpl, r.ca, &r.leafKey.PublicKey, r.caKey)
	if err != nil {
		return nil, err
	}
	return x509.ParseCertificate(der)
}

func (e *c20Env) tampered(i int, tc c20Tampered, rw *c20Rewrap, rewrap bool) {
	run := e.run
	run.Eval(1)
	wit := map[string]any{"tampered_index": i, "operation": tc.Op, "base_hex": hex.EncodeToString(tc.Base[:min(len(tc.Base), 400)]), "tampered_hex": hex.EncodeToString(tc.Mut[:min(len(tc.Mut), 400)]), "tampered_len": len(tc.Mut)}
	exts := []pkix.Extension{{Id: sanOID, Value: tc.Mut}}
	if i%7 == 3 { // two SAN extensions in one list: the reader concatenates
		exts = append(exts, pkix.Extension{Id: sanOID, Value: tc.Base})
		wit["second_extension"] = "base"
	}
	if i%2 == 0 {
		e.readback("tampered", exts, wit)
	} else {
		// the same bytes through the request-side reader
		var enc sanWalk
		for _, x := range exts {
			w := walkSAN(x.Value)
			enc.raise(w.Status, w.Why)
			enc.IDs = append(enc.IDs, w.IDs...)
			enc.NReceptor += w.NReceptor
		}
		var got []string
		var err error
		func() {
			defer c20Recover(run, "readback:panic", wit)
			var names *certificates.CertNames
			names, err = certificates.GetReqNames(&x509.CertificateRequest{Extensions: exts})
			if names != nil {
				got = names.NodeIDs
			}
		}()
		key, outcome := c20JudgeReadback(&enc, got, err)
		run.Count("readback_tampered_"+enc.Status.String()+"_"+outcome, 1)
		if key != "" {
			wit["reader_returned"], wit["encoded_ids"] = descList(got), descList(enc.IDs)
			run.Violation(key, fmt.Sprintf("tampered request extension (%s): GetReqNames returned %v without error; the bytes encode (%s) %v", tc.Op, descList(got), enc.Status, descList(enc.IDs)), wit)
		}
	}
	w := walkSAN(tc.Mut)
	run.SetAdd("tamper_operations", tc.Op)
	if !bytes.Equal(tc.Base, tc.Mut) {
		h := sha256.Sum256(tc.Mut)
		run.Distinct("t:" + hex.EncodeToString(h[:8]))
	}
	if !rewrap {
		return
	}
	// the tampered extension inside a certificate that chains to a trusted authority: receptor's peer
	// verification may accept only names that the bytes encode
	cert, err := rw.wrap(tc.Mut, int64(i)+2)
	if err != nil {
		run.Count("rewrap_unparseable", 1)
		return
	}
	run.Count("rewrap_parsed", 1)
	if w.Status == derDontCare {
		return
	}
	enc := strSet(w.IDs)
	cands := map[string]bool{}
	for _, id := range w.IDs {
		cands[id] = true
	}
	for _, id := range walkSAN(tc.Base).IDs {
		cands[id] = true
		if len(id) > 1 {
			cands[id[:len(id)-1]] = true
		}
	}
	cands[""] = true
	tlscfg := &tls.Config{RootCAs: rw.pool, ClientCAs: rw.pool}
	for id := range cands {
		if !utf8.ValidString(id) {
			continue
		}
		var verr error
		func() {
			defer c20Recover(run, "verify:panic", wit)
			verr = netceptor.ReceptorVerifyFunc(tlscfg, nil, id, netceptor.ExpectedHostnameTypeReceptor, netceptor.VerifyClient, e.log)([][]byte{cert.Raw}, nil)
		}()
		run.Count("rewrap_verify_calls", 1)
		if _, ok := enc[id]; verr == nil && !ok {
			wit["accepted_id"] = descStr(id)
			run.Violation("verify:accepts-unencoded", fmt.Sprintf("certificate with tampered SAN (%s) is accepted for id %s which its bytes do not encode (%v)", tc.Op, descStr(id), descList(w.IDs)), wit)
		}
	}
}

// ------------------------------------------------------------------ the real CLI

func c20RunCLI(ctx context.Context, bin, dir string, args ...string) (string, error) {
	cmd := exec.CommandContext(ctx, bin, args...)
	cmd.Dir = dir
	cmd.Env = append(os.Environ(), "GORACE=halt_on_error=0 exitcode=0")
	out, err := cmd.CombinedOutput()
	return string(out), err
}

func loadPEMCert(path string) (*x509.Certificate, error) {
	b, err := os.ReadFile(path)
	if err != nil {
		return nil, err
	}
	blk, _ := pem.Decode(b)
	if blk == nil || blk.Type != "CERTIFICATE" {
		return nil, fmt.Errorf("no CERTIFICATE block in %s", path)
	}
	return x509.ParseCertificate(blk.Bytes)
}

// cliSafe: argv elements the command-line layer passes through verbatim (no NUL; not starting with
// '-', '[', '{', '"', '@'; no newline) - everything else would test the option parser, not the tooling.
func cliSafe(s string) bool {
	if s == "" || !utf8.ValidString(s) || strings.ContainsAny(s, "\x00\n\r\t\"'\\") || strings.ContainsAny(s[:1], "-[{@ ") || strings.HasSuffix(s, " ") {
		return false
	}
	return true
}

func (e *c20Env) cli(bin string, triples []*c20Triple, n int) {
	run := e.run
	dir := filepath.Join(workDir(), "c20cli")
	_ = os.MkdirAll(dir, 0o755)
	ctx, cancel := context.WithTimeout(context.Background(), 10*time.Minute)
	defer cancel()
	if out, err := c20RunCLI(ctx, bin, dir, "--cert-init", "commonname=c20 cli ca", "bits=2048", "notbefore=2000-01-01T00:00:00Z", "notafter=2090-01-01T00:00:00Z", "outcert=ca.crt", "outkey=ca.key"); err != nil {
		run.Inconclusive(fmt.Sprintf("C20 cli: --cert-init failed: %v %s", err, out))
		return
	}
	caCert, err := loadPEMCert(filepath.Join(dir, "ca.crt"))
	if err != nil {
		run.Violation("cli:ca-unreadable", "the CA certificate written by --cert-init cannot be parsed: "+err.Error(), nil)
		return
	}
	keyPEM := pem.EncodeToMemory(&pem.Block{Type: "RSA PRIVATE KEY", Bytes: x509.MarshalPKCS1PrivateKey(e.key)})
	_ = os.WriteFile(filepath.Join(dir, "in.key"), keyPEM, 0o600)
	// choose the sample: triples whose every name survives argv, with at least one name
	var sel []*c20Triple
	for _, t := range triples {
		ok := len(t.IDs)+len(t.DNS)+len(t.IPs) > 0
		for _, s := range append(append([]string{}, t.IDs...), t.DNS...) {
			ok = ok && cliSafe(s) && len(s) < 2000
		}
		for _, ip := range t.IPs {
			ok = ok && (len(ip) == 4 || len(ip) == 16)
		}
		if ok && t.Window != "inverted" {
			sel = append(sel, t)
		}
		if len(sel) == n {
			break
		}
	}
	sem := make(chan struct{}, 8)
	var wg sync.WaitGroup
	for _, t := range sel {
		wg.Add(1)
		sem <- struct{}{}
		go func(t *c20Triple) {
			defer wg.Done()
			defer func() { <-sem }()
			run.Eval(1)
			p := fmt.Sprintf("t%d", t.Idx)
			args := []string{"--cert-makereq", "commonname=c20-subject", "outreq=" + p + ".req"}
			if t.WithKey {
				args = append(args, "inkey=in.key")
			} else {
				args = append(args, "bits=2048", "outkey="+p+".key")
			}
			for _, s := range t.DNS {
				args = append(args, "dnsname="+s)
			}
			for _, s := range t.IDs {
				args = append(args, "nodeid="+s)
			}
			for _, ip := range t.IPs {
				args = append(args, "ipaddress="+ip.String())
			}
			if out, err := c20RunCLI(ctx, bin, dir, args...); err != nil {
				if ctx.Err() != nil {
					run.Inconclusive("C20 cli: watchdog")
					return
				}
				run.Count("cli_refused_at_request", 1)
				if t.Simple {
					run.Violation("tool-refused:simple:cli", fmt.Sprintf("--cert-makereq refuses a plainly valid name set: %v %s", err, out), t.witness())
				}
				return
			}
			sargs := []string{"--cert-signreq", "req=" + p + ".req", "cacert=ca.crt", "cakey=ca.key", "outcert=" + p + ".crt", "verify=true"}
			nb, na := c20Window(t.Window, e.now)
			if !nb.IsZero() {
				sargs = append(sargs, "notbefore="+nb.UTC().Format(time.RFC3339))
			}
			if !na.IsZero() {
				sargs = append(sargs, "notafter="+na.UTC().Format(time.RFC3339))
			}
			if out, err := c20RunCLI(ctx, bin, dir, sargs...); err != nil {
				if ctx.Err() != nil {
					run.Inconclusive("C20 cli: watchdog")
					return
				}
				run.Count("cli_refused_at_signing", 1)
				if t.Simple {
					run.Violation("tool-refused:simple:cli", fmt.Sprintf("--cert-signreq refuses a plainly valid name set: %v %s", err, out), t.witness())
				}
				return
			}
			cert, err := loadPEMCert(filepath.Join(dir, p+".crt"))
			if err != nil {
				run.Violation("cli:cert-unreadable", "the certificate written by --cert-signreq cannot be parsed: "+err.Error(), t.witness())
				return
			}
			run.Count("cli_certificates_issued", 1)
			e.c20CheckCert(t, cert, caCert, "cli")
			run.Distinct("cli:" + t.key())
		}(t)
	}
	wg.Wait()
}

// ------------------------------------------------------------------ driver

func runC20(tier string, args []string) {
	run := ev.New("C20", tier, "exploration")
	run.Rule("triples (DNS names, IPv4/IPv6 addresses, node ids) = a fixed length sweep (one id of 1,2,50,100, every length 110-130, 200,255,256,1000,70000 bytes; multi-byte ids of 110-130 bytes) + seeded random triples (0-6 ids: ASCII / punctuation and control characters / multi-byte UTF-8 / empty / invalid UTF-8 / 100-130 bytes / 200-1000 bytes / duplicates / case variants; 0-4 DNS names incl. odd ones; 0-4 addresses incl. wrong-length ones; with and without a pre-existing key; validity window default/current/expired/future/1 s/90 years/inverted) -> CreateCertReq[WithKey] -> SignCertReq -> judged with the harness's own DER walker of the SAN, x509 path validation, ReceptorVerifyFunc (receptor-name mode, both roles) for every requested id and for near-miss ids, ReceptorNames/GetReqNames read-back; plus tampered SAN extension values (bit flips, byte edits, truncation, length-field and tag tampering of harness-encoded and tool-encoded extensions) fed to the readers and, re-wrapped into harness-signed certificates, to ReceptorVerifyFunc; thorough also drives --cert-init/--cert-makereq/--cert-signreq of the built binary. distinct_nontrivial = distinct triples with >=1 name for which a certificate was issued and judged + distinct tampered byte strings that differ from their base")
	run.Assume("names are compared as sets: a tool that drops exact duplicates would be tolerated (the current tool keeps them)")
	run.Assume("a refusal by the tooling (error, no certificate) is not a violation except for plainly valid short names (positive control); invalid UTF-8 ids must be refused or encoded byte-exactly")
	run.Assume("peer-verification acceptance is demanded only for certificates whose validity window contains the present and does not end within 60 s")
	run.Assume("read-back on tampered bytes: an error is always fine; without error, every returned name must be one the bytes encode, and no otherName identified as a receptor name may be silently skipped; extensions using string types other than UTF8String or multi-byte tags are not judged")
	quick := run.Quick()
	env := &c20Env{run: run, log: quietLogger(), now: time.Now(), sweep: map[string]string{}}
	var err error
	var wg0 sync.WaitGroup
	wg0.Add(1)
	go func() { defer wg0.Done(); env.key, _ = rsa.GenerateKey(rand.Reader, 2048) }()
	env.ca, err = certificates.CreateCA(&certificates.CertOptions{CommonName: fmt.Sprintf("c20 authority %d", run.Seed), Bits: 2048,
		NotBefore: time.Date(2000, 1, 1, 0, 0, 0, 0, time.UTC), NotAfter: time.Date(2090, 1, 1, 0, 0, 0, 0, time.UTC)}, &certificates.RsaWrapper{})
	wg0.Wait()
	if err != nil || env.key == nil {
		run.Violation("tool-refused:ca", fmt.Sprintf("CreateCA failed: %v", err), nil)
		run.Finish(2)
	}
	if !env.ca.Certificate.IsCA || env.ca.Certificate.CheckSignatureFrom(env.ca.Certificate) != nil {
		run.Violation("chain:ca", "CreateCA produced a certificate that is not a self-signed CA", nil)
	}
	triples := genC20(run.Seed, quick)
	if len(args) > 1 && args[0] == "--triple" {
		i, _ := strconv.Atoi(args[1])
		triples = triples[i : i+1]
	}
	sem := make(chan struct{}, 16)
	var wg sync.WaitGroup
	// the sweep runs first and in order, so that the witnesses kept for a key are its smallest cases
	for len(triples) > 0 && triples[0].Origin == "sweep" {
		env.triple(triples[0])
		triples = triples[1:]
	}
	all := genC20(run.Seed, quick)
	for _, t := range triples {
		wg.Add(1)
		sem <- struct{}{}
		go func(t *c20Triple) {
			defer wg.Done()
			defer func() { <-sem }()
			env.triple(t)
		}(t)
	}
	wg.Wait()
	// samples: the smallest failing sweep case is what a reader wants to see; plus two ordinary ones
	for _, i := range []int{0, len(c20SweepLens) + 3, len(all) - 1} {
		if i >= 0 && i < len(all) {
			run.Sample(all[i].witness())
		}
	}
	run.Extra("length_sweep_outcomes", env.sweep)
	// tampered extensions
	nt := run.Pick(2000, 100000)
	every := run.Pick(10, 20)
	tam := genC20Tampered(run.Seed, nt)
	rw := newC20Rewrap()
	idx := make(chan int, 64)
	for wkr := 0; wkr < 16; wkr++ {
		wg.Add(1)
		go func() {
			defer wg.Done()
			for i := range idx {
				env.tampered(i, tam[i], rw, i%every == 0)
			}
		}()
	}
	for i := range tam {
		idx <- i
	}
	close(idx)
	wg.Wait()
	if len(tam) > 5 {
		run.Sample(map[string]any{"tampered_index": 5, "operation": tam[5].Op, "base_hex": hex.EncodeToString(tam[5].Base[:min(len(tam[5].Base), 120)]), "tampered_hex": hex.EncodeToString(tam[5].Mut[:min(len(tam[5].Mut), 120)])})
	}
	// the real CLI
	bin := os.Getenv("VERIF_DAEMON")
	if _, serr := os.Stat(bin); bin != "" && serr == nil {
		env.cli(bin, all, run.Pick(6, 60))
	} else {
		run.Extra("cli", "skipped: daemon binary not built (VERIF_DAEMON)")
		if !quick {
			run.Inconclusive("C20 cli layer skipped: no daemon binary (build with BUILD_DAEMON=1)")
		}
	}
	collectRaces(run, workDir())
	env.longLived(run.Pick(2, 10))
	run.Finish(run.Pick(800, 30000))
}
