package main

import (
	"context"
	"encoding/json"
	"fmt"
	"io"
	"math/rand"
	"os"
	"os/exec"
	"path/filepath"
	"strconv"
	"time"

	"verif/harness/internal/child"
	"verif/harness/internal/ev"

	"github.com/ansible/receptor/pkg/controlsvc"
	"github.com/ansible/receptor/pkg/netceptor"
	"github.com/ansible/receptor/pkg/workceptor"
)

// (5) two writers of one record that own different fields of ExtraData: the submit path of a remote
// unit (stores RemoteUnitID after the remote node's answer, RemoteStarted after the input transfer)
// and the cancel path (stores LocalCancelled). One node, in a child process: netceptor + control
// service + workceptor; the remote unit names its own node as the remote node, so the real
// startRemoteUnit talks to the real "work submit" over a mesh stream. A harness work type does nothing.
// Start() runs in one goroutine, Cancel() in another after a seeded delay; the delay hook
// remote.acked (between reading the answer and storing the id, guard verif) sleeps 12 ms so that a
// good part of the cancels fall into that read-modify-write gap. Oracle: once Cancel() has returned
// nil and Start() has returned, the stored record still has LocalCancelled=true - a field stored by
// one writer may not be reverted by the other's update.

func init() { register("c14remchild", c14RemChildMain) }

type c14RemTrial struct {
	Trial          int    `json:"trial"`
	DelayUS        int64  `json:"delay_us"`
	CancelErr      string `json:"cancel_err,omitempty"`
	Hung           bool   `json:"hung,omitempty"`
	LocalCancelled bool   `json:"LocalCancelled"`
	RemoteUnitID   string `json:"RemoteUnitID"`
	RemoteStarted  bool   `json:"RemoteStarted"`
	Unreadable     string `json:"unreadable,omitempty"`
}

type c14RemNoop struct{ *workceptor.BaseWorkUnit }

func (u *c14RemNoop) Start() error {
	u.UpdateBasicStatus(workceptor.WorkStateRunning, "noop running", 0)
	return nil
}
func (u *c14RemNoop) Restart() error { return nil }
func (u *c14RemNoop) Cancel() error {
	u.UpdateBasicStatus(workceptor.WorkStateCanceled, "noop cancelled", 0)
	return nil
}
func (u *c14RemNoop) Release(force bool) error { return u.BaseWorkUnit.Release(force) }

// c14RemChildMain: vmon c14remchild <tier> <dir> <trials> <seed>
func c14RemChildMain(_ string, args []string) {
	if len(args) < 3 {
		os.Exit(2)
	}
	dir := args[0]
	trials, _ := strconv.Atoi(args[1])
	seed, _ := strconv.ParseInt(args[2], 10, 64)
	const node = "c14rem"
	ctx, cancel := context.WithCancel(context.Background())
	defer cancel()
	nc := netceptor.New(ctx, node)
	nc.Logger.SetOutput(io.Discard)
	w, err := workceptor.New(ctx, nc, filepath.Join(dir, "data"))
	if err != nil {
		fmt.Println("c14remchild: workceptor.New:", err)
		os.Exit(2)
	}
	workceptor.MainInstance = w
	cs := controlsvc.New(true, nc)
	if err := w.RegisterWithControlService(cs); err != nil {
		fmt.Println("c14remchild: RegisterWithControlService:", err)
		os.Exit(2)
	}
	if err := cs.RunControlSvc(ctx, "control", nil, "", 0, "", nil); err != nil {
		fmt.Println("c14remchild: RunControlSvc:", err)
		os.Exit(2)
	}
	err = w.RegisterWorker("c14noop", func(_ workceptor.BaseWorkUnitForWorkUnit, w *workceptor.Workceptor, unitID string, workType string) workceptor.WorkUnit {
		u := &c14RemNoop{BaseWorkUnit: &workceptor.BaseWorkUnit{}}
		u.BaseWorkUnit.Init(w, unitID, workType, workceptor.FileSystem{}, nil)
		return u
	}, false)
	if err != nil {
		fmt.Println("c14remchild: RegisterWorker:", err)
		os.Exit(2)
	}
	rng := rand.New(rand.NewSource(seed*7877 + 5))
	var out []c14RemTrial
	for t := 0; t < trials; t++ {
		tr := c14RemTrial{Trial: t, DelayUS: int64(rng.Intn(30000))}
		unit, err := w.AllocateRemoteUnit(node, "c14noop", "", "", false, map[string]string{})
		if err != nil {
			fmt.Println("c14remchild: AllocateRemoteUnit:", err)
			os.Exit(2)
		}
		_ = os.WriteFile(filepath.Join(unit.UnitDir(), "stdin"), []byte("c14rem input\n"), 0o600)
		startDone := make(chan struct{})
		go func() { defer close(startDone); _ = unit.Start() }()
		time.Sleep(time.Duration(tr.DelayUS) * time.Microsecond)
		cancelDone := make(chan error, 1)
		go func() { cancelDone <- unit.Cancel() }()
		watchdog := time.After(60 * time.Second)
		select {
		case e := <-cancelDone:
			if e != nil {
				tr.CancelErr = e.Error()
			}
		case <-watchdog:
			tr.Hung = true
		}
		if !tr.Hung {
			select {
			case <-startDone:
			case <-watchdog:
				tr.Hung = true
			}
		}
		if tr.Hung {
			out = append(out, tr)
			break // the unit's goroutines are still at work: no further trials in this process
		}
		// the record as stored (read under the lock, through the public loader; ExtraData of a plain
		// StatusFileData arrives as a generic map)
		sfd := &workceptor.StatusFileData{}
		if err := sfd.Load(unit.StatusFileName()); err != nil {
			tr.Unreadable = err.Error()
		} else if m, ok := sfd.ExtraData.(map[string]interface{}); ok {
			tr.LocalCancelled, _ = m["LocalCancelled"].(bool)
			tr.RemoteUnitID, _ = m["RemoteUnitID"].(string)
			tr.RemoteStarted, _ = m["RemoteStarted"].(bool)
		} else {
			tr.Unreadable = fmt.Sprintf("ExtraData is %T", sfd.ExtraData)
		}
		out = append(out, tr)
	}
	b, _ := json.Marshal(out)
	tmp := filepath.Join(dir, "result.json.tmp")
	_ = os.WriteFile(tmp, b, 0o644)
	_ = os.Rename(tmp, filepath.Join(dir, "result.json"))
	os.Exit(0)
}

func runC14Remote(run *ev.Run) {
	work := workDir()
	dir := filepath.Join(work, "c14rem")
	_ = os.MkdirAll(dir, 0o755)
	trials := run.Pick(60, 600)
	cmd := exec.Command(os.Args[0], "c14remchild", run.Tier, dir, fmt.Sprint(trials), fmt.Sprint(run.Seed))
	cmd.Env = append(c14Env(), "VERIF_POINTS=daemon:remote.acked=sleep(12)", "GORACE=halt_on_error=0 exitcode=0 log_path="+filepath.Join(work, "race-c14rem"))
	cr := child.Run(cmd, filepath.Join(work, "c14rem.out"), 30*time.Minute, nil)
	b, rerr := os.ReadFile(filepath.Join(dir, "result.json"))
	if rerr != nil {
		run.Inconclusive(fmt.Sprintf("C14 remote fields: the child left no result (exit code %d, %s) %s", cr.ExitCode, cr.OutFile, cr.Fatal))
		return
	}
	var res []c14RemTrial
	if err := json.Unmarshal(b, &res); err != nil {
		run.Inconclusive("C14 remote fields: unreadable result: " + err.Error())
		return
	}
	inGap, bad, judged := 0, 0, 0
	for _, tr := range res {
		switch {
		case tr.Hung:
			run.Inconclusive(fmt.Sprintf("C14 remote fields: trial %d (cancel %d us after start) did not return within 60 s; not judged here (C13/C17 judge hangs)", tr.Trial, tr.DelayUS))
			continue
		case tr.CancelErr != "" || tr.Unreadable != "":
			continue // nothing was promised by a failed cancel; unreadable records are judged by the main lanes
		}
		judged++
		if tr.RemoteUnitID != "" && !tr.RemoteStarted {
			inGap++
		}
		if !tr.LocalCancelled {
			bad++
			if bad <= 3 {
				run.Violation("lost-update:field-of-other-writer:LocalCancelled", fmt.Sprintf("trial %d: Cancel() of a remote unit returned nil %d us after Start() was called, and after both had returned the stored record has LocalCancelled=false (RemoteUnitID=%q, RemoteStarted=%v): the update of the submit path reverted a field stored by the cancel path", tr.Trial, tr.DelayUS, tr.RemoteUnitID, tr.RemoteStarted), map[string]any{"trial": tr})
			}
		}
	}
	run.Eval(judged)
	run.Count("remote_field_trials_judged", int64(judged))
	run.Count("remote_field_trials_cancel_between_submit_and_start", int64(inGap))
	if judged > 0 && inGap == 0 {
		run.Inconclusive("C14 remote fields: no cancel fell between the remote node's answer and the start")
	} else if bad == 0 && inGap > 0 {
		run.Distinct("remote-fields-cancel-during-submit")
	}
}
