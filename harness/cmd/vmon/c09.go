package main

import (
	"crypto/tls"
	"crypto/x509"
	"encoding/hex"
	"fmt"
	mrand "math/rand"
	"strings"
	"sync"

	"verif/harness/internal/ev"

	"github.com/ansible/receptor/pkg/logger"
	"github.com/ansible/receptor/pkg/netceptor"
)

// C09 — with TLS configured a backend connection or mesh stream is established only if the peer's
// certificate chains to the configured authority, is currently valid and usable for its role, matches
// a pinned fingerprint when pins are configured and - where a receptor node is expected - names that
// node's id in its receptor name extension.

func init() { register("C09", runC09) }

// c09Case is one evaluated tuple of any layer.
type c09Case struct {
	Layer    string   `json:"layer"` // verifier | tls | mesh | backend
	Attr     c09Attr  `json:"certificate"`
	Pins     string   `json:"pins"`
	Role     string   `json:"peer_role"` // server = a client verifies a server certificate; client = a server verifies a client certificate
	Mode     string   `json:"name_mode"` // dns | receptor
	Expected string   `json:"expected_name"`
	Note     string   `json:"note,omitempty"`
	CertIDs  []string `json:"certificate_node_ids"`
	CertDNS  []string `json:"certificate_dns_names"`
}

func (cs *c09Case) tupleKey() string {
	return fmt.Sprintf("%s|%s|%s|%s|%s|%s|%s|%s|%s", cs.Layer, cs.Attr.Issuer, cs.Attr.Validity, cs.Attr.EKU, cs.Attr.Names, cs.Pins, cs.Role, cs.Mode, cs.Note)
}

type c09Env struct {
	run *ev.Run
	pki *c09PKI
	log *logger.ReceptorLogger
	e   string // expected name of the product (a node id that is also a DNS name)
	o1  string
	o2  string
	// the product's certificates
	certs []*c09Cert
	mu    sync.Mutex
	shown map[string]bool
}

// judge applies the one-directional rule to one observed decision.
//
//	accepted=true with a false condition  -> violation accept:<first false>:<role>:<mode>
//	accepted=false on a clean control      -> violation control-refused:<role>:<mode>
func (env *c09Env) judge(cs *c09Case, cond c09Conds, clean bool, accepted bool, detail string) {
	run := env.run
	run.Eval(1)
	prefix := ""
	if cs.Layer != "verifier" {
		prefix = cs.Layer + ":"
	}
	ff := cond.firstFalse()
	if ff != "" {
		run.Distinct(cs.tupleKey())
	}
	wit := map[string]any{"case": cs, "conditions": cond, "observed": detail}
	// one defect, one key: everything observed on a node whose id contains ':' is keyed "colon-id"
	colon := strings.HasPrefix(cs.Note, "colon")
	switch {
	case accepted && ff != "":
		sub := ff
		if cs.Note != "" {
			sub = ff + "-" + cs.Note
		}
		key := fmt.Sprintf("%saccept:%s:%s:%s", prefix, sub, cs.Role, cs.Mode)
		if colon {
			key = fmt.Sprintf("%scolon-id:%s:%s", prefix, cs.Role, cs.Mode)
		}
		run.Violation(key,
			fmt.Sprintf("%s layer: a %s certificate {issuer %s, %s, usage %s, names %s (ids %v dns %v)} with pins %s was ACCEPTED for expected %s name %q although condition %q is false",
				cs.Layer, cs.Role, cs.Attr.Issuer, cs.Attr.Validity, cs.Attr.EKU, cs.Attr.Names, descList(cs.CertIDs), cs.CertDNS, cs.Pins, cs.Mode, cs.Expected, ff), wit)
	case accepted:
		run.Count(cs.Layer+"_accepted_all_conditions_true", 1)
	case ff != "":
		run.Count(cs.Layer+"_refused_first_false_"+ff, 1)
	case clean:
		key := fmt.Sprintf("%scontrol-refused:%s:%s", prefix, cs.Role, cs.Mode)
		if colon {
			key = fmt.Sprintf("%scolon-id:%s:%s", prefix, cs.Role, cs.Mode)
		} else if cs.Note != "" {
			key = fmt.Sprintf("%scontrol-refused:%s:%s:%s", prefix, cs.Note, cs.Role, cs.Mode)
		}
		run.Violation(key,
			fmt.Sprintf("%s layer: the clean control {issuer %s, %s, usage %s, names %s (ids %v), pins %s} was REFUSED for expected %s name %q: %s",
				cs.Layer, cs.Attr.Issuer, cs.Attr.Validity, cs.Attr.EKU, cs.Attr.Names, descList(cs.CertIDs), cs.Pins, cs.Mode, cs.Expected, detail), wit)
	default:
		run.Count(cs.Layer+"_refused_all_true_but_not_a_control(stricter verifier, tolerated)", 1)
	}
	if clean && accepted {
		run.Count(cs.Layer+"_controls_accepted", 1)
	}
}

func (env *c09Env) newCase(layer string, c *c09Cert, pins, role, mode, expected string) *c09Case {
	return &c09Case{Layer: layer, Attr: c.Attr, Pins: pins, Role: role, Mode: mode, Expected: expected, CertIDs: c.IDs, CertDNS: c.DNS}
}

func c09VerifyType(role string) netceptor.VerifyType {
	if role == "server" {
		return netceptor.VerifyServer
	}
	return netceptor.VerifyClient
}

func c09Mode(mode string) netceptor.ExpectedHostnameType {
	if mode == "dns" {
		return netceptor.ExpectedHostnameTypeDNS
	}
	return netceptor.ExpectedHostnameTypeReceptor
}

// nameExpected mirrors how receptor itself configures the four verifier kinds: a server that verifies
// clients in DNS mode (TLS server configuration of a backend listener or of a service) has no
// expected name; the other three have one.
func c09NameExpected(role, mode string) bool { return !(role == "client" && mode == "dns") }

// layer 1: the complete product of direct calls of the function returned by ReceptorVerifyFunc.
func (env *c09Env) verifierProduct() {
	tlscfg := &tls.Config{RootCAs: env.pki.cas["caS"].pool(), ClientCAs: env.pki.cas["caC"].pool()}
	type job struct{ c *c09Cert }
	jobs := make(chan *c09Cert, 64)
	var wg sync.WaitGroup
	for w := 0; w < 16; w++ {
		wg.Add(1)
		go func() {
			defer wg.Done()
			for c := range jobs {
				for _, pc := range c09PinClasses {
					pins := c.pins(pc)
					for _, role := range []string{"server", "client"} {
						for _, mode := range []string{"dns", "receptor"} {
							ne := c09NameExpected(role, mode)
							exp := env.e
							if !ne {
								exp = ""
							}
							cs := env.newCase("verifier", c, pc, role, mode, exp)
							var err error
							func() {
								defer func() {
									if r := recover(); r != nil {
										err = fmt.Errorf("PANIC: %v", r)
										env.run.Violation("verifier:panic", fmt.Sprintf("ReceptorVerifyFunc panicked: %v", r), cs)
									}
								}()
								err = netceptor.ReceptorVerifyFunc(tlscfg, pins, exp, c09Mode(mode), c09VerifyType(role), env.log)(c.Chain, nil)
							}()
							env.judge(cs, c.conds(role, mode, ne, env.e, pins), c.clean(role, mode, ne, pc), err == nil, fmt.Sprint(err))
						}
					}
				}
			}
		}()
	}
	for _, c := range env.certs {
		jobs <- c
	}
	close(jobs)
	wg.Wait()
	// no certificate at all / unparseable bytes must be refused too
	for _, role := range []string{"server", "client"} {
		for _, raw := range [][][]byte{nil, {}, {[]byte{0x30, 0x03, 0x02, 0x01, 0x01}}, {env.certs[0].Chain[0][:40]}} {
			f := netceptor.ReceptorVerifyFunc(tlscfg, nil, env.e, netceptor.ExpectedHostnameTypeReceptor, c09VerifyType(role), env.log)
			var err error
			func() {
				defer func() {
					if r := recover(); r != nil {
						env.run.Violation("verifier:panic", fmt.Sprintf("ReceptorVerifyFunc panicked on %d raw certificates: %v", len(raw), r), nil)
						err = fmt.Errorf("panic")
					}
				}()
				err = f(raw, nil)
			}()
			env.run.Eval(1)
			if err == nil {
				env.run.Violation("accept:no-certificate:"+role+":receptor", fmt.Sprintf("the verifier accepted a peer that sent %d (unparseable or no) certificates", len(raw)), nil)
			}
			env.run.Distinct(fmt.Sprintf("verifier|raw%d|%s", len(raw), role))
		}
	}
}

func runC09(tier string, args []string) {
	run := ev.New("C09", tier, "exploration")
	run.Exhaustive(true)
	run.Rule("certificates are generated by the harness from explicit attributes (own x509 templates, own DER encoding of the receptor otherName SAN): issuer {authority configured for servers (RootCAs), authority configured for clients (ClientCAs), look-alike authorities with the same subject but another key, self-signed, via a good / expired / non-CA intermediate} x validity {valid, expired 1 h ago, expired 10 s ago, valid in 1 h} x usage {server, client, both, other-only, none} x names {expected id, expected as DNS name only, both, other, several incl./excl. the expected one, none (CN = expected), near misses (case, prefix, suffix, blanks), expected under a foreign otherName type, wildcard} x pins {none, sha256, sha512, non-matching 32/64 bytes, non-matching+matching, 20 bytes, 31 of 32 bytes equal, sha256 of the issuer} x peer role {server, client} x name mode {DNS, receptor}; the expected decision is the conjunction of the attributes; one-directional (accept => every condition true) + clean controls must be accepted. Layers: (1) the COMPLETE product as direct calls of the function returned by ReceptorVerifyFunc (this is the exhaustive part; plus one verifier instance serving several peers, and ONE long-lived node asked for client configurations of the same profile and the same expected name alternately in DNS and in receptor mode, both orders, several names, each returned configuration used for real handshakes against trusted certificates that carry the name only as DNS name / only as node id / with the other kind naming somebody else), (2) a seeded stratified sample as real TLS 1.2/1.3 handshakes over net.Pipe with configurations produced by PrepareTLSClientConfig+SetClientTLSConfig+GetClientTLSConfig / PrepareTLSServerConfig, (3) real nodes on the in-memory mesh: Listen(RequireAndVerifyClientCert)+DialContext incl. a node presenting another node's valid certificate and node ids containing ':', (4) backends.NewTCPDialer/NewTCPListener over loopback with the same configurations. distinct_nontrivial = distinct (layer, attribute tuple, pins, role, mode) with at least one false condition that were evaluated")
	run.Assume("a verifier that refuses more than the statement demands is not an alarm; only the plainest all-true tuples are positive controls")
	run.Assume("expiry is tested >= 10 s away from the boundary; 'not yet valid' is 1 h ahead")
	run.Assume("a server verifying clients in DNS mode has no expected name (this is how PrepareTLSServerConfig builds it): the name condition is vacuous there")
	run.Assume("a pin 'matches' when it equals the SHA-224/256/384/512 digest of the peer's leaf certificate")
	env := &c09Env{run: run, log: quietLogger(), shown: map[string]bool{}}
	env.e = fmt.Sprintf("node-e%d.c09.example", run.Seed)
	env.o1 = fmt.Sprintf("node-o%d.c09.example", run.Seed)
	env.o2 = fmt.Sprintf("node-p%d.other.example", run.Seed)
	env.pki = newC09PKI(run.Seed)
	// all certificates of the product
	type spec struct {
		a   c09Attr
		idx int
	}
	var specs []spec
	for _, is := range c09Issuers {
		for _, v := range c09Validities {
			for _, k := range c09EKUs {
				for _, n := range c09NameClasses {
					specs = append(specs, spec{c09Attr{is, v, k, n}, len(specs)})
				}
			}
		}
	}
	env.certs = make([]*c09Cert, len(specs))
	var wg sync.WaitGroup
	sem := make(chan struct{}, 16)
	for _, s := range specs {
		wg.Add(1)
		sem <- struct{}{}
		go func(s spec) {
			defer wg.Done()
			defer func() { <-sem }()
			env.certs[s.idx] = env.pki.issue(s.a, env.e, env.o1, env.o2, s.idx)
		}(s)
	}
	wg.Wait()
	run.Count("certificates_generated", int64(len(env.certs)))
	// sanity of the harness's own certificates: crypto/x509 must read back what was put in
	for _, c := range env.certs {
		w := &sanWalk{}
		if san, n := findSAN(c.Cert.Extensions); n > 0 {
			w = walkSAN(san)
		}
		if w.Status != derStrict || !sameMultiset(strSet(w.IDs), strSet(c.IDs)) || !sameMultiset(strSet(c.Cert.DNSNames), strSet(c.DNS)) {
			panic(fmt.Sprintf("harness bug: certificate %+v does not carry what was asked for: %v %v", c.Attr, w, c.Cert.DNSNames))
		}
	}
	env.verifierProduct()
	env.verifierReuse()
	env.verifierAging()
	env.modeMixing()
	if c := env.certs[len(env.certs)/3]; true {
		run.Sample(map[string]any{"layer": "verifier", "certificate": c.Attr, "node_ids": c.IDs, "dns": c.DNS, "leaf_sha256_pin": hex.EncodeToString(c.pins("match-sha256")[0]), "expected": env.e})
	}
	rng := mrand.New(mrand.NewSource(run.Seed*6007 + 9))
	env.tlsLayer(rng)
	env.meshLayer(rng)
	env.backendLayer(rng)
	collectRaces(run, workDir())
	run.Finish(run.Pick(20000, 20000))
}

var _ = x509.NewCertPool
