package main

import (
	"encoding/hex"
	"encoding/json"
	"fmt"
	"sort"
	"strings"
	"unicode/utf16"
)

// Case generator of C19: parameter maps, request encodings and follow-up command
// sequences, all a deterministic function of (VERIF_SEED, tier, case index).

type c19rng struct{ s uint64 }

func c19mix(x uint64) uint64 {
	x += 0x9E3779B97F4A7C15
	x = (x ^ (x >> 30)) * 0xBF58476D1CE4E5B9
	x = (x ^ (x >> 27)) * 0x94D049BB133111EB
	return x ^ (x >> 31)
}

func newC19rng(seed int64, tier string, idx int, salt uint64) *c19rng {
	t := uint64(1)
	if tier == "thorough" {
		t = 2
	}
	s := c19mix(uint64(seed)*0x100000001B3 ^ t<<56)
	s = c19mix(s ^ uint64(idx)*0xD6E8FEB86659FD93)
	s = c19mix(s ^ salt)
	return &c19rng{s: s}
}

func (r *c19rng) next() uint64 {
	r.s += 0x9E3779B97F4A7C15
	z := r.s
	z = (z ^ (z >> 30)) * 0xBF58476D1CE4E5B9
	z = (z ^ (z >> 27)) * 0x94D049BB133111EB
	return z ^ (z >> 31)
}
func (r *c19rng) intn(n int) int {
	if n <= 0 {
		return 0
	}
	return int(r.next() % uint64(n))
}
func (r *c19rng) chance(num, den int) bool { return r.intn(den) < num }
func (r *c19rng) canary() string {
	var b [16]byte
	for i := 0; i < 16; i += 8 {
		v := r.next()
		for j := 0; j < 8; j++ {
			b[i+j] = byte(v >> (8 * j))
		}
	}
	return hex.EncodeToString(b[:])
}

// c19IsSecretKey is the oracle's own reading of the statement: a name that begins with
// "secret_" in any (ASCII) letter case. It shares no code with receptor.
func c19IsSecretKey(k string) bool {
	const p = "secret_"
	if len(k) < len(p) {
		return false
	}
	for i := 0; i < len(p); i++ {
		c := k[i]
		if c >= 'A' && c <= 'Z' {
			c += 'a' - 'A'
		}
		if c != p[i] {
			return false
		}
	}
	return true
}

// c19SecretClass labels the spelling of a secret key by what the harness controls: the
// letter case of the prefix and whether the suffix is empty.
func c19SecretClass(k string) string {
	p := k[:7]
	c := "mixed"
	switch p {
	case "secret_":
		c = "lower"
	case "SECRET_":
		c = "upper"
	}
	if len(k) == 7 {
		c += "-empty"
	}
	return c
}

type c19DictKey struct {
	K     string
	Label string // fine label for coverage
	Class string // non-secret keys: class used in violation keys
}

var c19SecretKeys = []c19DictKey{
	{"secret_x", "lower", ""},
	{"secret_password", "lower", ""},
	{"SECRET_X", "upper", ""},
	{"SECRET_TOKEN", "upper", ""},
	{"SeCrEt_tok", "mixed", ""},
	{"Secret_Key", "mixed-capitalised", ""},
	{"sECRET_z", "mixed-inverted", ""},
	{"secreT_t", "mixed-lastletter", ""},
	{"secret_", "lower-empty-suffix", ""},
	{"SECRET_", "upper-empty-suffix", ""},
	{"Secret_", "mixed-empty-suffix", ""},
	{"secret_пароль", "lower-unicode-suffix", ""},
	{"secret__", "lower-double-underscore", ""},
	{"secret_ x", "lower-space-suffix", ""},
	{"SECRET_x.y-z", "upper-punct-suffix", ""},
	{"secret_secret_", "lower-repeated", ""},
	{"secret_" + strings.Repeat("k", 120), "lower-long", ""},
	{"SECRET_é中", "upper-unicode-suffix", ""},
}

var c19PlainKeys = []c19DictKey{
	// merely contain the prefix
	{"my_secret_x", "contains-infix", "contains"},
	{"xsecret_", "contains-suffix", "contains"},
	{"not_SECRET_", "contains-upper", "contains"},
	{"a.secret_b", "contains-dotted", "contains"},
	{"_secret_x", "contains-leading-underscore", "contains"},
	{" secret_x", "contains-leading-space", "contains"},
	// look alike (ASCII)
	{"secret-x", "lookalike-dash", "lookalike"},
	{"secretx", "lookalike-no-underscore", "lookalike"},
	{"secret", "lookalike-bare", "lookalike"},
	{"ecret_x", "lookalike-truncated", "lookalike"},
	{"secre_t", "lookalike-moved-underscore", "lookalike"},
	{"secret x", "lookalike-space", "lookalike"},
	{"SECRET-X", "lookalike-upper-dash", "lookalike"},
	{"secrets_x", "lookalike-plural", "lookalike"},
	// Unicode look-alikes
	{"ѕecret_x", "unicode-cyrillic-dze", "unicode"},
	{"secret＿x", "unicode-fullwidth-underscore", "unicode"},
	{"sеcret_x", "unicode-cyrillic-ie", "unicode"},
	{"ｓecret_x", "unicode-fullwidth-s", "unicode"},
	{"secret‗x", "unicode-double-low-line", "unicode"},
	// ordinary
	{"alpha", "plain", "plain"},
	{"k1", "plain", "plain"},
	{"env", "plain", "plain"},
	{"x", "plain-short", "plain"},
	{"ünïcode", "plain-unicode", "plain"},
	{"", "plain-empty-key", "emptykey"},
	// spelled like reserved submit fields, in another case (reserved names are matched exactly)
	{"Node", "reserved-case", "reserved"},
	{"TLSClient", "reserved-case", "reserved"},
	{"Command", "reserved-case", "reserved"},
	{"WorkType", "reserved-case", "reserved"},
	{"unitid", "reserved-other-command", "reserved"},
	// the one key a command work type on the remote side interprets
	{"params", "params", "params"},
}

// c19Param is one entry of a generated parameter map.
type c19Param struct {
	Key      string `json:"key"`
	Val      string `json:"val"`
	Secret   bool   `json:"secret"`
	KeyClass string `json:"key_class"` // violation-key class
	KeyLabel string `json:"key_label"`
	ValClass string `json:"val_class"`
	Canary   string `json:"canary,omitempty"`
}

type c19Op struct {
	Node string `json:"node"` // a | b
	Sess string `json:"sess"` // unix | tcp
	Form string `json:"form"` // plain | json
	Cmd  string `json:"cmd"`  // status | list | listid | cancel | release | force-release
}

func (o c19Op) kind() string {
	if o.Node == "b" {
		return "b-" + o.Cmd
	}
	return o.Cmd
}

// c19Case is one generated submission plus its follow-up commands, and what was observed.
type c19Case struct {
	Idx       int        `json:"idx"`
	Kind      string     `json:"kind"` // remote-tls | remote-plain | refusal | local | local-remotetype | tls-unknown
	Node      string     `json:"node"`
	WorkType  string     `json:"worktype"`
	TLS       string     `json:"tlsclient"`
	TLSGiven  bool       `json:"tlsclient_present"`
	Params    []c19Param `json:"params"`
	Escape    string     `json:"escape"` // std | uescape
	Shuffled  bool       `json:"fields_shuffled"`
	SubmitVia string     `json:"submit_via"`
	Long      bool       `json:"long_running"`
	Ops       []c19Op    `json:"ops"`
	Line      string     `json:"-"`
	// remote-rejected: why the executing node turns the forwarded submission down
	Reject   string `json:"reject_reason,omitempty"`
	SignWork bool   `json:"signwork,omitempty"`
	// refusal-tlsname: label of the degenerate tlsclient value and its class (used in violation keys)
	TLSLabel string `json:"tlsclient_label,omitempty"`
	TLSClass string `json:"tlsclient_class,omitempty"`

	// observations (owned by the goroutine that runs the case; read after the barriers)
	UnitID      string            `json:"unit_id,omitempty"`
	RemoteID    string            `json:"remote_unit_id,omitempty"`
	Ack         string            `json:"ack,omitempty"`
	Started     bool              `json:"remote_started"`
	Rejected    bool              `json:"rejected_by_remote"`
	Scanned     int64             `json:"bytes_scanned"`
	ParamChecks int               `json:"param_checks"`
	OpsDone     map[string]int    `json:"ops_done,omitempty"`
	Event       string            `json:"restart_event,omitempty"`
	sess        map[string]*c19Cl `json:"-"`
	submitErr   bool
}

func (cs *c19Case) nSecrets() (n, withCanary int) {
	for _, p := range cs.Params {
		if p.Secret {
			n++
			if p.Canary != "" {
				withCanary++
			}
		}
	}
	return
}

func c19TruncVal(s string) string {
	if len(s) > 160 {
		return fmt.Sprintf("%s...(%d bytes)", s[:160], len(s))
	}
	return s
}

// witness returns a copy of the case with long values shortened.
func (cs *c19Case) witness() map[string]any {
	ps := []map[string]any{}
	for _, p := range cs.Params {
		ps = append(ps, map[string]any{"key": c19TruncVal(p.Key), "val": c19TruncVal(p.Val), "secret": p.Secret,
			"key_class": p.KeyClass, "key_label": p.KeyLabel, "val_class": p.ValClass, "canary": p.Canary})
	}
	w := map[string]any{"idx": cs.Idx, "kind": cs.Kind, "node": cs.Node, "worktype": cs.WorkType, "tlsclient": cs.TLS,
		"tlsclient_present": cs.TLSGiven, "params": ps, "escape": cs.Escape, "submit_via": cs.SubmitVia,
		"request_line": c19TruncVal(cs.Line), "ops": cs.Ops, "unit_id": cs.UnitID, "remote_unit_id": cs.RemoteID,
		"ack": c19TruncVal(cs.Ack), "remote_started": cs.Started, "restart_event": cs.Event}
	if cs.Reject != "" {
		w["reject_reason"], w["signwork"], w["rejected_by_remote"] = cs.Reject, cs.SignWork, cs.Rejected
	}
	if cs.TLSLabel != "" {
		w["tlsclient_label"], w["tlsclient_class"] = cs.TLSLabel, cs.TLSClass
	}
	return w
}

func c19JSONString(s string, style string) string {
	if style != "uescape" {
		b, _ := json.Marshal(s)
		return string(b)
	}
	var sb strings.Builder
	sb.WriteByte('"')
	for _, r := range s {
		if r >= 0x10000 {
			a, b := utf16.EncodeRune(r)
			fmt.Fprintf(&sb, "\\u%04x\\u%04x", a, b)
		} else {
			fmt.Fprintf(&sb, "\\u%04x", r)
		}
	}
	sb.WriteByte('"')
	return sb.String()
}

func c19SecretValue(r *c19rng, canary string, quick bool) (string, string) {
	switch r.intn(10) {
	case 0:
		return `"` + canary + `\`, "meta-quote-backslash"
	case 1:
		return "{\"k\":[" + canary + "]},:", "meta-braces"
	case 2:
		return "line1\n" + canary + "\tend\u0000\u001b", "control-chars"
	case 3:
		n := 300 + r.intn(700)
		if !quick {
			n = 300 + r.intn(3000)
		}
		return strings.Repeat("q", n) + canary + strings.Repeat("w", r.intn(50)), "long"
	case 4:
		return "<" + canary + ">&'", "html"
	case 5:
		return "ключ-" + canary + "-值\U0001F600", "unicode"
	case 6:
		return " " + canary + " ", "spaces"
	default:
		return canary, "bare"
	}
}

func c19PlainValue(r *c19rng, quick bool, others []string) (string, string) {
	switch r.intn(14) {
	case 0:
		return "", "empty"
	case 1:
		return `a"b\c{d}[e],:f'`, "meta"
	case 2:
		return "line1\nline2\ttab\u0000nul\u001besc\r", "control-chars"
	case 3:
		return "<tag>&amp;' ", "html"
	case 4:
		return "значение 値 \U0001F600", "unicode"
	case 5:
		n := 1000 + r.intn(3000)
		if !quick {
			n = 1000 + r.intn(7000)
		}
		return strings.Repeat("z", n), "long"
	case 6:
		if len(others) > 0 {
			return others[r.intn(len(others))], "equal-to-other-param"
		}
		return "dup", "plain"
	case 7:
		return `{"secret_x":"zz","State":2}`, "looks-like-json"
	case 8:
		return "12345", "number-like"
	case 9:
		return "secret_", "looks-like-prefix"
	case 10:
		return "\\u0041\\n", "literal-escape-text"
	default:
		return fmt.Sprintf("v%d", r.intn(100000)), "plain"
	}
}

var c19OpWeights = []struct {
	op string
	w  int
}{{"status", 25}, {"list", 15}, {"listid", 15}, {"b-status", 10}, {"b-list", 7}, {"b-listid", 8}, {"cancel", 8}, {"release", 8}, {"force-release", 4}}

func c19GenOps(r *c19rng, n int, hasB bool) []c19Op {
	tot := 0
	for _, w := range c19OpWeights {
		tot += w.w
	}
	ops := []c19Op{}
	for len(ops) < n {
		x := r.intn(tot)
		name := ""
		for _, w := range c19OpWeights {
			if x < w.w {
				name = w.op
				break
			}
			x -= w.w
		}
		if (name == "release" || name == "force-release") && len(ops) < n/2 && !r.chance(1, 4) {
			continue // most units live through the restart event
		}
		o := c19Op{Node: "a", Cmd: name, Sess: "unix", Form: "plain"}
		if strings.HasPrefix(name, "b-") {
			o.Cmd = strings.TrimPrefix(name, "b-")
			if hasB {
				o.Node = "b"
			}
		}
		if r.chance(2, 5) {
			o.Sess = "tcp"
		}
		if r.chance(2, 5) {
			o.Form = "json"
		}
		ops = append(ops, o)
	}
	return ops
}

// c19KindPattern makes the first cases of every run cover every kind; later ones are drawn.
var c19KindPattern = []string{"remote-tls", "refusal", "remote-tls", "remote-plain", "local", "remote-tls", "refusal", "tls-unknown", "remote-tls", "local-remotetype"}

func c19GenCase(seed int64, tier string, idx int, quick bool) *c19Case {
	return c19GenCaseKind(seed, tier, idx, quick, "", 0)
}

// c19GenCaseKind generates case idx; a non-empty kind forces the kind (the extra cases of
// c19x.go: "remote-rejected", "refusal-tlsname"), variant selects the rejection reason or
// the degenerate tlsclient value.
func c19GenCaseKind(seed int64, tier string, idx int, quick bool, kind string, variant int) *c19Case {
	r := newC19rng(seed, tier, idx, 0xC19)
	cs := &c19Case{Idx: idx, WorkType: "gen", Escape: "std", SubmitVia: "unix", OpsDone: map[string]int{}, sess: map[string]*c19Cl{}}
	if kind != "" {
		cs.Kind = kind
	} else if idx < len(c19KindPattern) {
		cs.Kind = c19KindPattern[idx]
	} else {
		switch x := r.intn(100); {
		case x < 46:
			cs.Kind = "remote-tls"
		case x < 58:
			cs.Kind = "remote-plain"
		case x < 78:
			cs.Kind = "refusal"
		case x < 88:
			cs.Kind = "local"
		case x < 93:
			cs.Kind = "local-remotetype"
		default:
			cs.Kind = "tls-unknown"
		}
	}
	nsec, nnon := 0, 0
	switch cs.Kind {
	case "remote-tls":
		cs.Node, cs.TLS, cs.TLSGiven = c19B, c19Cli, true
		tot := r.intn(9)
		for i := 0; i < tot; i++ {
			if r.chance(11, 20) {
				nsec++
			} else {
				nnon++
			}
		}
		if nsec == 0 && r.chance(17, 20) {
			nsec = 1
			if nnon == 8 {
				nnon = 7
			}
		}
	case "remote-plain":
		cs.Node = c19D // the node whose control service takes plain connections
		nnon = r.intn(9)
		if r.chance(1, 3) { // a TLS profile without any secret is fine as well
			cs.Node, cs.TLS, cs.TLSGiven = c19B, c19Cli, true
		}
	case "refusal":
		switch r.intn(8) {
		case 0, 1:
			cs.Node = c19B
		case 2:
			cs.Node = "nosuch19"
		default:
			cs.Node = c19C
		}
		nsec = 1 + r.intn(4)
		nnon = r.intn(9 - nsec)
		if nnon > 4 {
			nnon = 4
		}
		if r.chance(1, 3) { // present but empty names no profile either
			cs.TLSGiven = true
		}
	case "local":
		cs.Node = []string{c19A, "localhost", "LocalHost"}[r.intn(3)]
		nsec = 1 + r.intn(3)
		nnon = r.intn(4)
		if r.chance(1, 2) {
			cs.TLS, cs.TLSGiven = c19Cli, true
		}
	case "local-remotetype":
		cs.Node = []string{c19A, "localhost"}[r.intn(2)]
		cs.WorkType = "remote"
		nsec = 1 + r.intn(3)
		nnon = r.intn(4)
	case "tls-unknown":
		cs.Node, cs.TLS, cs.TLSGiven = c19B, "nosuchprofile", true
		nsec = 1 + r.intn(3)
		nnon = r.intn(3)
	case "remote-rejected":
		// accepted by A (valid TLS client profile), turned down by B in its first answer
		cs.Node, cs.TLS, cs.TLSGiven = c19B, c19Cli, true
		rj := c19RejectReasons[variant%len(c19RejectReasons)]
		cs.Reject, cs.WorkType, cs.SignWork = rj.Label, rj.WorkType, rj.SignWork
		nsec = 1 + r.intn(3)
		nnon = r.intn(4)
	case "refusal-tlsname":
		tn := c19TLSNames[variant%len(c19TLSNames)]
		cs.TLS, cs.TLSGiven, cs.TLSLabel, cs.TLSClass = tn.Val, true, tn.Label, tn.Class
		cs.Node = c19C
		if r.chance(1, 4) {
			cs.Node = c19B
		}
		nsec = 1 + r.intn(3)
		nnon = r.intn(4)
	}
	used := map[string]bool{}
	if cs.Reject == "params-not-allowed" {
		used["params"] = true // added below, non-empty
	}
	var secretVals, plainVals []string
	var sharedCanary string
	for i := 0; i < nsec; i++ {
		var d c19DictKey
		k := ""
		for try := 0; try < 50; try++ {
			d = c19SecretKeys[r.intn(len(c19SecretKeys))]
			k = d.K
			if used[k] {
				if len(k) == 7 {
					continue
				}
				k = fmt.Sprintf("%s%d", k, 2+r.intn(7))
				if used[k] {
					continue
				}
			}
			break
		}
		if used[k] || k == "" {
			continue
		}
		used[k] = true
		p := c19Param{Key: k, Secret: true, KeyClass: c19SecretClass(k), KeyLabel: d.Label}
		switch {
		case r.chance(1, 25):
			p.Val, p.ValClass = "", "empty" // nothing to search for; counted separately
		case sharedCanary != "" && r.chance(1, 6):
			p.Canary, p.Val, p.ValClass = sharedCanary, sharedCanary, "equal-to-other-secret"
		default:
			p.Canary = r.canary()
			p.Val, p.ValClass = c19SecretValue(r, p.Canary, quick)
			if p.ValClass == "bare" {
				sharedCanary = p.Canary
			}
		}
		secretVals = append(secretVals, p.Val)
		cs.Params = append(cs.Params, p)
	}
	for i := 0; i < nnon; i++ {
		var d c19DictKey
		k := ""
		ok := false
		for try := 0; try < 50; try++ {
			d = c19PlainKeys[r.intn(len(c19PlainKeys))]
			k = d.K
			if d.Class == "params" && (cs.Kind == "refusal" || cs.Kind == "tls-unknown" || cs.Kind == "refusal-tlsname" || cs.Reject == "params-not-allowed") {
				continue
			}
			if used[k] {
				if k == "" || d.Class == "params" || d.Class == "reserved" {
					continue
				}
				k = fmt.Sprintf("%s%d", k, 2+r.intn(7))
				if used[k] {
					continue
				}
			}
			ok = true
			break
		}
		if !ok {
			continue
		}
		used[k] = true
		p := c19Param{Key: k, KeyClass: d.Class, KeyLabel: d.Label}
		if d.Class == "params" {
			// becomes command-line words of the producer on the executing node: keep it shell-neutral
			p.Val, p.ValClass = fmt.Sprintf("p%d q%d", r.intn(1000), r.intn(1000)), "plain-words"
		} else {
			p.Val, p.ValClass = c19PlainValue(r, quick, plainVals)
		}
		plainVals = append(plainVals, p.Val)
		cs.Params = append(cs.Params, p)
	}
	_ = secretVals
	if cs.Reject == "params-not-allowed" {
		cs.Params = append(cs.Params, c19Param{Key: "params", KeyClass: "params", KeyLabel: "params",
			Val: fmt.Sprintf("p%d q%d", r.intn(1000), r.intn(1000)), ValClass: "plain-words"})
	}
	// interleave secret and non-secret entries
	for i := len(cs.Params) - 1; i > 0; i-- {
		j := r.intn(i + 1)
		cs.Params[i], cs.Params[j] = cs.Params[j], cs.Params[i]
	}
	for _, p := range cs.Params {
		if c19IsSecretKey(p.Key) != p.Secret {
			panic(fmt.Sprintf("c19 generator: key %q labelled secret=%v", p.Key, p.Secret))
		}
	}
	if r.chance(1, 5) {
		cs.Escape = "uescape"
	}
	if r.chance(2, 5) {
		cs.SubmitVia = "tcp"
	}
	cs.Shuffled = r.chance(1, 3)
	cs.Long = r.chance(2, 5)
	// request line
	type field struct{ k, v string }
	fields := []field{{`"command"`, `"work"`}, {`"subcommand"`, `"submit"`}, {`"node"`, c19JSONString(cs.Node, "std")}, {`"worktype"`, c19JSONString(cs.WorkType, "std")}}
	if cs.TLSGiven {
		fields = append(fields, field{`"tlsclient"`, c19JSONString(cs.TLS, "std")})
	}
	if cs.SignWork {
		fields = append(fields, field{`"signwork"`, `"true"`})
	}
	for _, p := range cs.Params {
		fields = append(fields, field{c19JSONString(p.Key, cs.Escape), c19JSONString(p.Val, cs.Escape)})
	}
	if cs.Shuffled {
		for i := len(fields) - 1; i > 0; i-- {
			j := r.intn(i + 1)
			fields[i], fields[j] = fields[j], fields[i]
		}
	}
	var sb strings.Builder
	sb.WriteByte('{')
	for i, f := range fields {
		if i > 0 {
			sb.WriteByte(',')
		}
		sb.WriteString(f.k + ":" + f.v)
	}
	sb.WriteByte('}')
	cs.Line = sb.String()
	// the line must decode to exactly the intended map (harness self-check)
	var back map[string]string
	if err := json.Unmarshal([]byte(cs.Line), &back); err != nil {
		panic("c19 generator: request line is not valid JSON: " + err.Error())
	}
	for _, p := range cs.Params {
		if back[p.Key] != p.Val {
			panic(fmt.Sprintf("c19 generator: key %q does not round-trip", p.Key))
		}
	}
	if cs.TLSGiven && back["tlsclient"] != cs.TLS {
		panic("c19 generator: tlsclient does not round-trip")
	}
	switch cs.Kind {
	case "remote-rejected":
		cs.Ops = c19GenOps(r, 6, true)
	case "refusal", "tls-unknown", "refusal-tlsname":
		cs.Ops = c19GenOps(r, 2, false)
		for i := range cs.Ops {
			cs.Ops[i].Cmd = "list"
		}
	case "local", "local-remotetype":
		cs.Ops = c19GenOps(r, 8, false)
	default:
		cs.Ops = c19GenOps(r, 8, true)
	}
	return cs
}

// c19Tuple is the distinct-case signature measured after the case ran.
func (cs *c19Case) tuple() string {
	cl := map[string]bool{}
	nnon := 0
	for _, p := range cs.Params {
		cl[p.KeyLabel] = true
		if !p.Secret {
			nnon++
		}
	}
	ls := []string{}
	for k := range cl {
		ls = append(ls, k)
	}
	sort.Strings(ls)
	ops := []string{}
	for k := range cs.OpsDone {
		ops = append(ops, k)
	}
	sort.Strings(ops)
	nb := "0"
	switch {
	case nnon >= 3:
		nb = "3+"
	case nnon >= 1:
		nb = "1-2"
	}
	ns, _ := cs.nSecrets()
	tls := "no"
	if cs.TLS != "" {
		tls = "yes"
	}
	kind := cs.Kind
	if cs.Reject != "" {
		kind += "/" + cs.Reject
	}
	if cs.TLSLabel != "" {
		kind += "/" + cs.TLSLabel
		tls = "degenerate"
	}
	return fmt.Sprintf("%s|keys=%s|sec=%d|non=%s|tls=%s|ops=%s|ev=%s", kind, strings.Join(ls, ","), ns, nb, tls, strings.Join(ops, ","), cs.Event)
}
