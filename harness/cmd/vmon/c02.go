package main

import (
	"bytes"
	"crypto/sha256"
	"encoding/binary"
	"encoding/hex"
	"fmt"
	"math/rand"
	"net"
	"os"
	"reflect"
	"runtime/pprof"
	"sort"
	"strings"
	"sync"
	"sync/atomic"
	"time"

	"verif/harness/internal/ev"
	"verif/harness/internal/memnet"
	"verif/harness/internal/mesh"
	"verif/harness/internal/wire"

	"github.com/ansible/receptor/pkg/logger"
	"github.com/ansible/receptor/pkg/netceptor"
)

// C02 — datagrams arrive intact, only at the addressed service, with the true source.
//
// Files: c02.go (dictionaries, case generator, traffic engine, offline oracle, memnet meshes),
// c02real.go (the same accounting over the real TCP / websocket / UDP / external backends),
// c02framer.go (differential monitor of pkg/framer against a reference deframer).

func init() { register("C02", runC02) }

const c02MTU = 16384 // netceptor's advertised MTU (MTU() of a default node); no layer enforces it

// ------------------------------------------------------------------ dictionaries

type c02ID struct {
	ID    string
	Class string
	Pair  string // partner differing only in letter case ("" if none)
}

var c02NodeDict = []c02ID{
	{"a", "1byte", "A"}, {"A", "1byte", "a"}, {"7", "1byte", ""}, {"Z", "1byte", ""},
	{strings.Repeat("L", 292) + "-300node", "300byte", strings.Repeat("l", 292) + "-300node"},
	{strings.Repeat("l", 292) + "-300node", "300byte", strings.Repeat("L", 292) + "-300node"},
	{strings.Repeat("L", 292) + "-300nodf", "300byte", ""},
	{"ñodo-日本語", "utf8", ""}, {"Ж", "utf8", "ж"}, {"ж", "utf8", "Ж"}, {"🙂node", "utf8", ""},
	{"Node", "case", "node"}, {"node", "case", "Node"}, {"NODE", "case", "node"},
	{"Éclair", "case", "éclair"}, {"éclair", "case", "Éclair"},
	{"controller", "case", "Controller"}, {"Controller", "case", "controller"},
	{"n:1", "punct", ""}, {"a/b", "punct", ""}, {"sp ace", "punct", ""}, {`q"uote`, "punct", ""},
	{"a:b:c", "punct", ""}, {"x<&>y", "punct", ""}, {" lead", "punct", ""}, {"trail ", "punct", ""}, {`back\slash`, "punct", ""},
	{"tab\there", "ctl", ""}, {"nl\nx", "ctl", ""}, {"\x01\x02", "ctl", ""}, {"u sep", "ctl", ""},
	{"localhost2", "near-alias", ""}, {"xlocalhost", "near-alias", ""}, {"local", "near-alias", ""},
	{"LOCALHOST.", "near-alias", ""}, {"localhos", "near-alias", ""}, {"localhost:1", "near-alias", ""},
	{"ping", "svc-like", ""}, {"unreach", "svc-like", ""}, {"abc", "svc-like", "ABC"}, {"ABC", "svc-like", "abc"}, {"ab", "svc-like", ""},
}

var c02SvcFamilies = [][]string{
	{"a", "ab", "abc"},
	{"abcdefg", "abcdefgh", "abcdefgX"},
	{"ab", "ab ", "ab\x01", " ab"},
	{"\x01", "\x01\x01", "\xff", "\xff\xff\xff\xff\xff\xff\xff\xff"},
	{"abc", "ABC", "Abc"},
	{"abcdefg\x01", "abcdefg ", "abcdefg"},
	{"pin", "pingx", "unreac", "unreachx"},
	{"s p", "\xc3\x28", "\x7f\x80", "a\xffb"},
	{"x", "xxxxxxxx", "xxxxxxx"},
	{"12345678", "1234567\x01", "1234567 "},
}

// c02NegExtra raises the share of datagrams addressed to unbound names (experiments only: C02_NEG=<percent>).
var c02NegExtra = func() int {
	var v int
	fmt.Sscan(os.Getenv("C02_NEG"), &v)
	return v
}()

func c02Reserved(s string) bool { return s == "ping" || s == "unreach" }

func c02ValidSvc(s string) bool {
	return len(s) >= 1 && len(s) <= 8 && !strings.Contains(s, "\x00") && !c02Reserved(s)
}

// ------------------------------------------------------------------ case specification

type c02Svc struct {
	Name  string `json:"name"`
	Class string `json:"class"`
}

type c02NodeSpec struct {
	ID    string   `json:"id"`
	Class string   `json:"class"`
	Svcs  []c02Svc `json:"svcs"`
}

type c02Send struct {
	Seq      int    `json:"seq"`
	Sender   int    `json:"sender"` // goroutine index; -1 = the serial lane of 0-3 byte payloads; -2.. = fence rounds
	SrcNode  int    `json:"src_node"`
	SrcSock  int    `json:"src_sock"`
	DstNode  int    `json:"dst_node"`
	DstSvc   string `json:"dst_svc"`
	DstSock  int    `json:"dst_sock"` // -1: no listener bound to that name on that node (nothing may be delivered)
	Len      int    `json:"len"`
	Off      int    `json:"off"` // offset of the 16-byte id (-1: none, identified by unique content / serial lane)
	Fill     string `json:"fill"`
	PSeed    int64  `json:"pseed"`
	Scribble bool   `json:"scribble"` // sender overwrites its buffer (except the id) right after WriteTo returned
	Hops     int    `json:"hops"`
	Fence    int    `json:"fence"` // 0 = ordinary send, r>0 = fence of round r
	Near     string `json:"near,omitempty"`

	id    [16]byte
	hash  [32]byte
	short []byte // the payload itself, for 0-3 byte (serial lane) datagrams
	// runtime
	tried   atomic.Bool
	err     atomic.Value // string
	deliv   atomic.Int32
	delivCh chan struct{}
}

type c02Spec struct {
	Idx       int           `json:"idx"`
	Kind      string        `json:"kind"`      // graph | chain6 | chain30 | tcp | ws | udp | ext
	Transport string        `json:"transport"` // mem | tcp | ws | udp | ext
	Chunk     string        `json:"chunk"`
	MaxHops   byte          `json:"max_hops"`
	Nodes     []c02NodeSpec `json:"nodes"`
	Links     [][2]int      `json:"links"`
	Senders   int           `json:"senders"`
	NSends    int           `json:"nsends"`
	Seed      int64         `json:"seed"`
	sends     []*c02Send
	dist      [][]int
	nFence    int
}

var c02Lens = []int{0, 1, 2, 3, 4, 15, 16, 17, 35, 36, 37, 255, 256, 1024, 4095, 4096, c02MTU - 37, c02MTU - 36, c02MTU - 35, c02MTU - 1, c02MTU}

func c02LenClass(n int) string {
	for _, v := range c02Lens {
		if n == v {
			return fmt.Sprint(n)
		}
	}
	switch {
	case n < 16:
		return "5-14"
	case n < 255:
		return "18-254"
	case n < 4095:
		return "257-4094"
	default:
		return "4097-16382"
	}
}

func c02SvcClass(name string, own []string, ids map[string]bool) string {
	tags := []string{}
	if ids[name] {
		tags = append(tags, "nodeid")
	}
	if len(name) == 8 {
		tags = append(tags, "8byte")
	} else if len(name) == 1 {
		tags = append(tags, "1byte")
	}
	ctl := false
	for i := 0; i < len(name); i++ {
		if name[i] <= 0x20 || name[i] >= 0x7f {
			ctl = true
		}
	}
	if ctl {
		tags = append(tags, "ctl")
	}
	pre, cs := false, false
	for _, o := range own {
		if o == name {
			continue
		}
		if strings.HasPrefix(o, name) || strings.HasPrefix(name, o) {
			pre = true
		}
		if strings.EqualFold(o, name) {
			cs = true
		}
	}
	if pre {
		tags = append(tags, "prefix")
	}
	if cs {
		tags = append(tags, "case")
	}
	if len(tags) == 0 {
		return "plain"
	}
	return strings.Join(tags, "+")
}

func c02SwapCase(s string) string {
	b := []byte(s)
	for i, c := range b {
		switch {
		case c >= 'a' && c <= 'z':
			b[i] = c - 32
		case c >= 'A' && c <= 'Z':
			b[i] = c + 32
		}
	}
	return string(b)
}

// c02NearMisses returns names that are NOT bound on the node but look like bound ones.
func c02NearMisses(own []string, all []string) []string {
	bound := map[string]bool{}
	for _, s := range own {
		bound[s] = true
	}
	seen := map[string]bool{}
	out := []string{}
	add := func(s string) {
		if c02ValidSvc(s) && !bound[s] && !seen[s] {
			seen[s] = true
			out = append(out, s)
		}
	}
	for _, s := range own {
		add(s[:len(s)-1])
		add(s + "x")
		add(s + " ")
		add(s + "\x01")
		add(c02SwapCase(s))
		add(strings.TrimRight(s, " \x01"))
		add(strings.TrimSpace(s))
		if len(s) == 8 {
			add(s[:7])
			add(s[:7] + "\x01")
		}
	}
	for _, s := range all {
		add(s)
	}
	sort.Strings(out)
	return out
}

func c02PickIDs(rng *rand.Rand, n int, plainOnly bool) []c02ID {
	out := []c02ID{}
	used := map[string]bool{}
	take := func(e c02ID) {
		if !used[e.ID] && len(out) < n {
			used[e.ID] = true
			out = append(out, e)
		}
	}
	find := func(id string) (c02ID, bool) {
		for _, e := range c02NodeDict {
			if e.ID == id {
				return e, true
			}
		}
		return c02ID{}, false
	}
	guard := 0
	for len(out) < n && guard < 400 && !plainOnly {
		guard++
		e := c02NodeDict[rng.Intn(len(c02NodeDict))]
		take(e)
		if e.Pair != "" && rng.Intn(5) != 0 {
			if p, ok := find(e.Pair); ok {
				take(p)
			}
		}
		if len(out) >= len(c02NodeDict) {
			break
		}
	}
	for i := 0; len(out) < n; i++ {
		take(c02ID{ID: fmt.Sprintf("n%d", i), Class: "plain"})
	}
	rng.Shuffle(len(out), func(i, j int) { out[i], out[j] = out[j], out[i] })
	return out
}

func c02BFS(n int, links [][2]int) [][]int {
	adj := make([][]int, n)
	for _, l := range links {
		adj[l[0]] = append(adj[l[0]], l[1])
		adj[l[1]] = append(adj[l[1]], l[0])
	}
	d := make([][]int, n)
	for s := 0; s < n; s++ {
		d[s] = make([]int, n)
		for i := range d[s] {
			d[s][i] = -1
		}
		d[s][s] = 0
		q := []int{s}
		for len(q) > 0 {
			x := q[0]
			q = q[1:]
			for _, y := range adj[x] {
				if d[s][y] < 0 {
					d[s][y] = d[s][x] + 1
					q = append(q, y)
				}
			}
		}
	}
	return d
}

// genC02Spec builds the complete, deterministic case list of one mesh.
func genC02Spec(seed int64, idx int, kind string, nsends int) *c02Spec {
	rng := rand.New(rand.NewSource(seed))
	sp := &c02Spec{Idx: idx, Kind: kind, Transport: "mem", Chunk: "-", MaxHops: 30, NSends: nsends, Seed: seed}
	nn := 2 + rng.Intn(7)
	maxSvc := 7
	switch kind {
	case "chain6":
		nn, sp.MaxHops = 7, 6
	case "chain30":
		nn, maxSvc = 31, 2
	case "tcp", "ws", "udp", "ext":
		nn = 3
		sp.Transport = kind
	}
	ids := c02PickIDs(rng, nn, false)
	idset := map[string]bool{}
	for _, e := range ids {
		idset[e.ID] = true
	}
	// topology
	switch kind {
	case "graph":
		for i := 1; i < nn; i++ {
			sp.Links = append(sp.Links, [2]int{rng.Intn(i), i})
		}
		has := map[[2]int]bool{}
		for _, l := range sp.Links {
			has[l] = true
		}
		for k := rng.Intn(nn); k > 0; k-- {
			a, b := rng.Intn(nn), rng.Intn(nn)
			if a > b {
				a, b = b, a
			}
			if a != b && !has[[2]int{a, b}] {
				has[[2]int{a, b}] = true
				sp.Links = append(sp.Links, [2]int{a, b})
			}
		}
	default:
		for i := 1; i < nn; i++ {
			sp.Links = append(sp.Links, [2]int{i - 1, i})
		}
	}
	sp.dist = c02BFS(nn, sp.Links)
	// listeners
	svcIDs := []string{}
	for _, e := range ids {
		if c02ValidSvc(e.ID) {
			svcIDs = append(svcIDs, e.ID)
		}
	}
	allNames := map[string]bool{}
	for i, e := range ids {
		names := []string{}
		has := map[string]bool{}
		add := func(s string) {
			if c02ValidSvc(s) && !has[s] && len(names) < maxSvc+2 {
				has[s] = true
				names = append(names, s)
			}
		}
		nf := 1 + rng.Intn(2)
		if maxSvc <= 2 {
			nf = 1
		}
		for f := 0; f < nf; f++ {
			fam := c02SvcFamilies[rng.Intn(len(c02SvcFamilies))]
			if maxSvc <= 2 {
				a := rng.Intn(len(fam))
				add(fam[a])
				add(fam[(a+1)%len(fam)])
			} else {
				for _, s := range fam {
					if rng.Intn(6) != 0 {
						add(s)
					}
				}
			}
		}
		if len(svcIDs) > 0 && maxSvc > 2 {
			for k := rng.Intn(3); k > 0; k-- {
				s := svcIDs[rng.Intn(len(svcIDs))]
				if s != e.ID || rng.Intn(2) == 0 {
					add(s)
				}
			}
		}
		if len(names) == 0 {
			add(fmt.Sprintf("z%d", i))
		}
		ns := c02NodeSpec{ID: e.ID, Class: e.Class}
		for _, s := range names {
			ns.Svcs = append(ns.Svcs, c02Svc{Name: s, Class: c02SvcClass(s, names, idset)})
			allNames[s] = true
		}
		sp.Nodes = append(sp.Nodes, ns)
	}
	all := []string{}
	for s := range allNames {
		all = append(all, s)
	}
	sort.Strings(all)
	near := make([][]string, nn)
	for i, n := range sp.Nodes {
		own := []string{}
		for _, s := range n.Svcs {
			own = append(own, s.Name)
		}
		near[i] = c02NearMisses(own, all)
	}
	// senders
	sp.Senders = 1 + rng.Intn(16)
	if idx%3 == 0 {
		sp.Senders = 16
	}
	if kind == "udp" {
		sp.Senders = 1 + rng.Intn(4)
	}
	senderNode := make([]int, sp.Senders)
	for g := range senderNode {
		senderNode[g] = rng.Intn(nn)
	}
	usedContent := map[string]bool{}
	mk := func(sender, src int) *c02Send {
		s := &c02Send{Seq: len(sp.sends), Sender: sender, SrcNode: src, SrcSock: rng.Intn(len(sp.Nodes[src].Svcs)), Off: -1, PSeed: rng.Int63()}
		// destination by hop distance, so that far hops are as frequent as near ones
		byHop := map[int][]int{}
		hops := []int{}
		for d := 0; d < nn; d++ {
			h := sp.dist[src][d]
			if h < 0 || h > int(sp.MaxHops) {
				continue
			}
			if _, ok := byHop[h]; !ok {
				hops = append(hops, h)
			}
			byHop[h] = append(byHop[h], d)
		}
		sort.Ints(hops)
		h := hops[rng.Intn(len(hops))]
		s.DstNode = byHop[h][rng.Intn(len(byHop[h]))]
		s.Hops = h
		return s
	}
	setPositive := func(s *c02Send) {
		s.DstSock = rng.Intn(len(sp.Nodes[s.DstNode].Svcs))
		s.DstSvc = sp.Nodes[s.DstNode].Svcs[s.DstSock].Name
	}
	for len(sp.sends) < nsends {
		r := rng.Intn(100)
		var s *c02Send
		if r < 6 {
			// serial lane: 0-3 bytes, arbitrary content, one outstanding at a time
			s = mk(-1, rng.Intn(nn))
			s.Len = rng.Intn(4)
			s.Fill = []string{"random", "zero", "ff"}[rng.Intn(3)]
			setPositive(s)
		} else {
			g := rng.Intn(sp.Senders)
			s = mk(g, senderNode[g])
			switch q := rng.Intn(10); {
			case q < 6:
				s.Len = c02Lens[4+rng.Intn(len(c02Lens)-4)]
			case q < 8:
				s.Len = 4 + rng.Intn(300)
			default:
				s.Len = 4 + rng.Intn(c02MTU-3)
			}
			if s.Len < 16 {
				s.Fill = "unique"
			} else {
				s.Fill = []string{"random", "random", "zero", "ff", "nested", "text"}[rng.Intn(6)]
				switch rng.Intn(3) {
				case 0:
					s.Off = 0
				case 1:
					s.Off = s.Len - 16
				default:
					s.Off = rng.Intn(s.Len - 15)
				}
				if s.Fill == "nested" {
					if s.Len < 96 {
						s.Fill = "random"
					} else {
						s.Off = s.Len - 16
					}
				}
				s.Scribble = s.Len >= 17 && rng.Intn(4) == 0
			}
			if r < 18+c02NegExtra && len(near[s.DstNode]) > 0 {
				// negative: addressed to a name nobody listens on at that node
				s.DstSock = -1
				s.DstSvc = near[s.DstNode][rng.Intn(len(near[s.DstNode]))]
				s.Near = "unbound"
			} else {
				setPositive(s)
			}
		}
		sp.sends = append(sp.sends, s)
	}
	// unique short contents and payload hashes
	buf := make([]byte, c02MTU)
	for _, s := range sp.sends {
		c02Prepare(sp, s, buf, usedContent)
	}
	// fences: three rounds over every (source socket, destination listener) pair used by a positive send
	type pair struct{ sn, ss, dn, ds int }
	seen := map[pair]bool{}
	pairs := []pair{}
	for _, s := range sp.sends {
		if s.DstSock < 0 {
			continue
		}
		p := pair{s.SrcNode, s.SrcSock, s.DstNode, s.DstSock}
		if !seen[p] {
			seen[p] = true
			pairs = append(pairs, p)
		}
	}
	for r := 1; r <= 3; r++ {
		for _, p := range pairs {
			s := &c02Send{Seq: len(sp.sends), Sender: -1 - r, SrcNode: p.sn, SrcSock: p.ss, DstNode: p.dn, DstSock: p.ds,
				DstSvc: sp.Nodes[p.dn].Svcs[p.ds].Name, Len: 16 + rng.Intn(48), Fill: "random", PSeed: rng.Int63(), Hops: sp.dist[p.sn][p.dn], Fence: r}
			s.Off = rng.Intn(s.Len - 15)
			c02Prepare(sp, s, buf, usedContent)
			sp.sends = append(sp.sends, s)
			if r == 1 {
				sp.nFence++
			}
		}
	}
	return sp
}

func c02Prepare(sp *c02Spec, s *c02Send, buf []byte, used map[string]bool) {
	h := sha256.Sum256([]byte(fmt.Sprintf("c02-id|%d|%d|%d", sp.Seed, sp.Idx, s.Seq)))
	copy(s.id[:], h[:16])
	if s.Fill == "unique" {
		// 4-15 bytes: the content itself must be unique inside this mesh
		for {
			p := c02Payload(sp, s, buf)
			if !used[string(p)] {
				used[string(p)] = true
				break
			}
			s.PSeed++
		}
	}
	p := c02Payload(sp, s, buf)
	s.hash = sha256.Sum256(p)
	if s.Len < 4 {
		s.short = append([]byte{}, p...)
	}
	s.delivCh = make(chan struct{})
}

// c02Payload regenerates the payload of a send into buf (deterministic in the spec).
func c02Payload(sp *c02Spec, s *c02Send, buf []byte) []byte {
	p := buf[:s.Len]
	switch s.Fill {
	case "zero":
		for i := range p {
			p[i] = 0
		}
	case "ff":
		for i := range p {
			p[i] = 0xff
		}
	case "text":
		const t = "The quick brown fox; localhost:ping unreach\r\n\x00"
		for i := range p {
			p[i] = t[i%len(t)]
		}
	default:
		// xorshift: fast enough for tens of megabytes under the race detector
		x := uint64(s.PSeed)*2685821657736338717 + 1442695040888963407
		i := 0
		for ; i+8 <= len(p); i += 8 {
			x ^= x << 13
			x ^= x >> 7
			x ^= x << 17
			binary.LittleEndian.PutUint64(p[i:], x)
		}
		for ; i < len(p); i++ {
			x ^= x << 13
			x ^= x >> 7
			x ^= x << 17
			p[i] = byte(x >> 24)
		}
		if s.Fill == "nested" {
			// the payload starts with something that looks like a complete framed data packet for another listener
			dn := sp.Nodes[s.DstNode]
			other := dn.Svcs[int(uint64(s.PSeed)%uint64(len(dn.Svcs)))].Name
			inner := wire.Frame(wire.EncodeData(5, sp.Nodes[s.SrcNode].ID, dn.ID, "nested", other, []byte("nested-payload")))
			copy(p, inner)
		}
	}
	if s.Off >= 0 {
		copy(p[s.Off:], s.id[:])
	}
	return p
}

// ------------------------------------------------------------------ world

type c02Sock struct {
	node, idx int
	pc        netceptor.PacketConner
}

type c02World struct {
	sp       *c02Spec
	insts    []*netceptor.Netceptor
	socks    [][]*c02Sock
	closeFn  func()
	stable   func() (bool, string) // no link flapped / reconnected during the run
	windowed bool                  // senders wait for the delivery of their previous datagram (UDP)
	extra    map[string]int64
}

type c02Recv struct {
	Node, Sock int
	N          int
	Hash       [32]byte
	FromNode   string
	FromSvc    string
	FromStr    string
	AddrOK     bool
	Seq        int // matched send, -1 unknown
	Raw        []byte
	Order      int64
}

type c02Engine struct {
	run     *ev.Run
	w       *c02World
	sp      *c02Spec
	byHash  map[[32]byte]int
	byID    map[[16]byte]int
	mu      sync.Mutex
	recvs   []*c02Recv
	nrecv   atomic.Int64
	laneCur atomic.Int64
	laneCh  chan struct{}
	lane    []*c02Send
	beat    atomic.Int64 // max heartbeat gap in ms
	quiet   bool
}

func c02AddrParts(a net.Addr) (node, svc string, ok bool) {
	na, ok := a.(netceptor.Addr)
	if !ok {
		return "", "", false
	}
	v := reflect.ValueOf(na)
	return v.FieldByName("node").String(), v.FieldByName("service").String(), true
}

func (e *c02Engine) reader(s *c02Sock) {
	buf := make([]byte, 70000)
	for {
		n, addr, err := s.pc.ReadFrom(buf)
		if err != nil {
			return
		}
		r := &c02Recv{Node: s.node, Sock: s.idx, N: n, Seq: -1}
		r.Hash = sha256.Sum256(buf[:n])
		if addr != nil {
			r.FromStr = addr.String()
			r.FromNode, r.FromSvc, r.AddrOK = c02AddrParts(addr)
		}
		if n < 4 {
			// serial lane: normally the one outstanding short datagram; a straggler (duplicate) is matched to the
			// most recent earlier lane datagram with this content for this listener
			r.Raw = append([]byte(nil), buf[:n]...)
			cur := int(e.laneCur.Load())
			r.Seq = cur
			if cur < 0 || !bytes.Equal(e.sp.sends[cur].short, r.Raw) {
				for i := len(e.lane) - 1; i >= 0; i-- {
					c := e.lane[i]
					if c.tried.Load() && c.Seq != cur && c.DstNode == s.node && c.DstSock == s.idx && bytes.Equal(c.short, r.Raw) {
						r.Seq = c.Seq
						break
					}
				}
			}
		} else if q, ok := e.byHash[r.Hash]; ok {
			r.Seq = q
		} else {
			// not byte-identical to anything sent: look for an embedded id
			r.Raw = append([]byte(nil), buf[:n]...)
			for i := 0; i+16 <= n; i++ {
				var k [16]byte
				copy(k[:], buf[i:i+16])
				if q, ok := e.byID[k]; ok {
					r.Seq = q
					break
				}
			}
		}
		e.mu.Lock()
		r.Order = int64(len(e.recvs))
		e.recvs = append(e.recvs, r)
		e.mu.Unlock()
		e.nrecv.Add(1)
		if r.Seq >= 0 && r.Seq < len(e.sp.sends) {
			sd := e.sp.sends[r.Seq]
			if sd.deliv.Add(1) == 1 {
				close(sd.delivCh)
			}
		}
		if n < 4 {
			select {
			case e.laneCh <- struct{}{}:
			default:
			}
		}
	}
}

// c02ViaAlias: half of the datagrams a node sends to itself are addressed to "localhost" instead of its id.
func c02ViaAlias(s *c02Send) bool { return s.Hops == 0 && s.SrcNode == s.DstNode && s.PSeed%2 == 0 }

func (e *c02Engine) doSend(s *c02Send) {
	// a fresh buffer per datagram: the only buffer reuse in this monitor is the labelled "scribble" below
	p := c02Payload(e.sp, s, make([]byte, s.Len))
	sock := e.w.socks[s.SrcNode][s.SrcSock]
	dst := e.w.insts[s.SrcNode].NewAddr(e.sp.Nodes[s.DstNode].ID, s.DstSvc)
	if c02ViaAlias(s) {
		// the documented alias of the sending node itself
		dst = e.w.insts[s.SrcNode].NewAddr("localhost", s.DstSvc)
	}
	_, err := sock.pc.WriteTo(p, dst)
	if err != nil {
		s.err.Store(err.Error())
	} else {
		s.err.Store("")
	}
	s.tried.Store(true)
	if s.Scribble {
		// what an application that reuses its buffer does; the 16-byte id stays so that the datagram remains identifiable
		for i := range p {
			if i < s.Off || i >= s.Off+16 {
				p[i] = 0xA5
			}
		}
	}
}

func (s *c02Send) errStr() string {
	v, _ := s.err.Load().(string)
	return v
}

func (s *c02Send) await(d time.Duration) bool {
	t := time.NewTimer(d)
	defer t.Stop()
	select {
	case <-s.delivCh:
		return true
	case <-t.C:
		return false
	}
}

// traffic runs the whole case list on a built world and judges it.
func (e *c02Engine) traffic() {
	sp, w := e.sp, e.w
	tag := fmt.Sprintf("mesh %d (%s/%s/%s)", sp.Idx, sp.Kind, sp.Transport, sp.Chunk)
	e.byHash = map[[32]byte]int{}
	e.byID = map[[16]byte]int{}
	for _, s := range sp.sends {
		if s.Len >= 4 {
			e.byHash[s.hash] = s.Seq
		}
		if s.Off >= 0 {
			e.byID[s.id] = s.Seq
		}
	}
	e.laneCh = make(chan struct{}, 16)
	e.laneCur.Store(-1)
	for _, s := range sp.sends {
		if s.Fence == 0 && s.Sender == -1 {
			e.lane = append(e.lane, s)
		}
	}
	for _, ss := range w.socks {
		for _, s := range ss {
			go e.reader(s)
		}
	}
	stopBeat := make(chan struct{})
	go func() {
		last := time.Now()
		for {
			select {
			case <-stopBeat:
				return
			case <-time.After(50 * time.Millisecond):
			}
			g := time.Since(last).Milliseconds()
			last = time.Now()
			if g > e.beat.Load() {
				e.beat.Store(g)
			}
		}
	}()
	defer close(stopBeat)
	if os.Getenv("C02_DEBUG") != "" {
		go func() {
			last, same := int64(-1), 0
			for {
				select {
				case <-stopBeat:
					return
				case <-time.After(time.Second):
				}
				cur := e.nrecv.Load()
				if cur == last {
					same++
				} else {
					same = 0
				}
				last = cur
				if same == 12 {
					pf, _ := os.Create(fmt.Sprintf("%s/c02-stall-%s-%d-goroutines.txt", workDir(), sp.Transport, sp.Idx))
					_ = pprof.Lookup("goroutine").WriteTo(pf, 2)
					pf.Close()
					fmt.Printf("debug stall mesh %d: no receipt for 12 s (recv %d)\n", sp.Idx, cur)
				}
			}
		}()
	}

	var wg sync.WaitGroup
	per := make([][]*c02Send, sp.Senders)
	lane := e.lane
	fences := map[int][]*c02Send{}
	for _, s := range sp.sends {
		switch {
		case s.Fence > 0:
			fences[s.Fence] = append(fences[s.Fence], s)
		case s.Sender == -1:
		default:
			per[s.Sender] = append(per[s.Sender], s)
		}
	}
	for g := range per {
		wg.Add(1)
		go func(list []*c02Send) {
			defer wg.Done()
			for _, s := range list {
				e.doSend(s)
				if w.windowed && s.DstSock >= 0 && s.errStr() == "" {
					s.await(5 * time.Second)
				}
			}
		}(per[g])
	}
	laneSkipped := 0
	wg.Add(1)
	go func() {
		defer wg.Done()
		for i, s := range lane {
			for len(e.laneCh) > 0 {
				<-e.laneCh
			}
			e.laneCur.Store(int64(s.Seq))
			e.doSend(s)
			if s.errStr() != "" {
				e.laneCur.Store(-1)
				continue
			}
			if !s.await(60 * time.Second) {
				// keep it outstanding (so a late arrival is still attributed) and stop the lane
				laneSkipped = len(lane) - i - 1
				if os.Getenv("C02_DEBUG") != "" {
					fmt.Printf("debug lane stop mesh %d %s seq %d len %d hops %d src %d dst %d/%d skipped %d\n", sp.Idx, sp.Transport, s.Seq, s.Len, s.Hops, s.SrcNode, s.DstNode, s.DstSock, laneSkipped)
				}
				return
			}
			e.laneCur.Store(-1)
		}
	}()
	wg.Wait()

	// Fence rounds. Every stage between a WriteTo and the reader of a listener is FIFO (WriteChan hand-off,
	// protoWriter, link, protoReader, the sequential protocol loop, the unbuffered recvChan, one reader per
	// listener), and every fence is written after all ordinary WriteTo calls returned. So once the fence of a
	// (source socket, listener) pair has been recorded, every earlier datagram of that pair that will ever
	// arrive has been recorded too: no clock is needed to call the others lost.
	watchdog := time.Now().Add(240 * time.Second)
	outstanding := func(upto int) int {
		n := 0
		for _, s := range sp.sends {
			if s.DstSock >= 0 && s.Fence <= upto && s.tried.Load() && s.errStr() == "" && s.deliv.Load() == 0 {
				n++
			}
		}
		return n
	}
	rounds := 0
	timedOut := false
	quiet := false // the last wait ended because nothing at all arrived for 10 s
	e.beat.Store(0)
	for r := 1; r <= 3 && !timedOut; r++ {
		rounds = r
		for _, s := range fences[r] {
			e.doSend(s)
			if w.windowed && s.errStr() == "" {
				s.await(5 * time.Second)
			}
		}
		quietPolls, last := 0, int64(-1)
		quiet = false
		for {
			if outstanding(r) == 0 {
				break
			}
			t0 := time.Now()
			time.Sleep(100 * time.Millisecond)
			cur := e.nrecv.Load()
			if cur == last && time.Since(t0) < 350*time.Millisecond {
				quietPolls++
			} else {
				quietPolls = 0 // something arrived, or this process itself is being starved: silence proves nothing
			}
			last = cur
			if quietPolls >= 100 {
				quiet = true
				break
			}
			if time.Now().After(watchdog) {
				timedOut = true
				break
			}
		}
		if outstanding(r) == 0 {
			break
		}
	}
	if outstanding(3) > 0 {
		time.Sleep(time.Second) // let readers that were handed a datagram record it
	}
	maxGap := e.beat.Load()
	okStable, whyUnstable := true, ""
	if w.stable != nil {
		okStable, whyUnstable = w.stable()
	}
	e.quiet = quiet
	e.judge(tag, rounds, timedOut, okStable, whyUnstable, maxGap, laneSkipped)
}

type c02Witness struct {
	Mesh      string         `json:"mesh"`
	Send      map[string]any `json:"send,omitempty"`
	Delivered map[string]any `json:"delivered,omitempty"`
	Note      string         `json:"note,omitempty"`
	Spec      any            `json:"spec_nodes,omitempty"`
}

func (e *c02Engine) sendInfo(s *c02Send) map[string]any {
	sp := e.sp
	return map[string]any{
		"seq": s.Seq, "sender": s.Sender, "transport": sp.Transport, "chunk": sp.Chunk,
		"src_node": fmt.Sprintf("%q", c02Short(sp.Nodes[s.SrcNode].ID)), "src_svc": fmt.Sprintf("%q", sp.Nodes[s.SrcNode].Svcs[s.SrcSock].Name),
		"dst_node": fmt.Sprintf("%q", c02Short(sp.Nodes[s.DstNode].ID)), "dst_svc": fmt.Sprintf("%q", s.DstSvc), "listener_bound": s.DstSock >= 0,
		"len": s.Len, "id_offset": s.Off, "fill": s.Fill, "payload_seed": s.PSeed, "hops": s.Hops, "buffer_reused_after_write": s.Scribble,
		"id": hex.EncodeToString(s.id[:]), "sha256": hex.EncodeToString(s.hash[:]), "writeto_error": s.errStr(), "fence_round": s.Fence,
	}
}

func c02Short(s string) string {
	if len(s) > 40 {
		return fmt.Sprintf("%s...(%d bytes)...%s", s[:12], len(s), s[len(s)-12:])
	}
	return s
}

func (e *c02Engine) recvInfo(r *c02Recv) map[string]any {
	sp := e.sp
	m := map[string]any{
		"at_node": fmt.Sprintf("%q", c02Short(sp.Nodes[r.Node].ID)), "at_svc": fmt.Sprintf("%q", sp.Nodes[r.Node].Svcs[r.Sock].Name),
		"len": r.N, "sha256": hex.EncodeToString(r.Hash[:]), "from_node": fmt.Sprintf("%q", c02Short(r.FromNode)), "from_svc": fmt.Sprintf("%q", r.FromSvc), "order": r.Order,
	}
	if r.Raw != nil {
		k := len(r.Raw)
		if k > 96 {
			k = 96
		}
		m["raw_head"] = hex.EncodeToString(r.Raw[:k])
	}
	return m
}

func c02Relation(addressed, actual string) string {
	switch {
	case addressed == actual:
		return "same-name"
	case strings.HasPrefix(addressed, actual):
		return "prefix"
	case strings.HasPrefix(actual, addressed):
		return "extension"
	case strings.EqualFold(addressed, actual):
		return "casefold"
	case strings.TrimRight(addressed, " \x01") == strings.TrimRight(actual, " \x01"):
		return "trimmed"
	}
	return "other"
}

// attribute finds the dimension shared by all failing sends (and on which most sends fail).
func (e *c02Engine) attribute(bad []*c02Send) string {
	sp := e.sp
	dims := []struct {
		name string
		f    func(*c02Send) string
	}{
		{"svc", func(s *c02Send) string {
			if s.DstSock < 0 {
				return "unbound"
			}
			return sp.Nodes[s.DstNode].Svcs[s.DstSock].Class
		}},
		{"dstnode", func(s *c02Send) string { return sp.Nodes[s.DstNode].Class }},
		{"srcnode", func(s *c02Send) string { return sp.Nodes[s.SrcNode].Class }},
		{"len", func(s *c02Send) string { return c02LenClass(s.Len) }},
		{"hops", func(s *c02Send) string {
			if s.Hops == 0 {
				return "0"
			}
			if s.Hops == int(sp.MaxHops) {
				return "limit"
			}
			return "n"
		}},
	}
	for _, d := range dims {
		v := d.f(bad[0])
		same := true
		for _, s := range bad {
			if d.f(s) != v {
				same = false
				break
			}
		}
		if !same {
			continue
		}
		tot, nb := 0, len(bad)
		for _, s := range sp.sends {
			if s.tried.Load() && s.DstSock >= 0 && d.f(s) == v {
				tot++
			}
		}
		if nb*2 >= tot {
			return d.name + "=" + v
		}
	}
	return "mixed"
}

func (e *c02Engine) judge(tag string, rounds int, timedOut, okStable bool, whyUnstable string, maxGap int64, laneSkipped int) {
	sp, run := e.sp, e.run
	e.mu.Lock()
	recvs := append([]*c02Recv(nil), e.recvs...)
	e.mu.Unlock()
	tried, positives, negatives := 0, 0, 0
	for _, s := range sp.sends {
		if s.tried.Load() {
			tried++
			if s.Fence > 0 {
				run.Count("fence_datagrams", 1)
			} else if s.DstSock >= 0 {
				positives++
			} else {
				negatives++
			}
		}
	}
	run.Eval(tried)
	run.Count("sends", int64(tried))
	run.Count("sends_to_unbound_names", int64(negatives))
	run.Count("deliveries", int64(len(recvs)))
	run.Count("lane_sends_skipped", int64(laneSkipped))
	run.Count("meshes_"+sp.Transport, 1)
	nodesBrief := []string{}
	for _, n := range sp.Nodes {
		l := []string{}
		for _, s := range n.Svcs {
			l = append(l, fmt.Sprintf("%q", s.Name))
		}
		nodesBrief = append(nodesBrief, fmt.Sprintf("%q: %s", c02Short(n.ID), strings.Join(l, " ")))
	}
	wit := func(s *c02Send, r *c02Recv, note string) c02Witness {
		w := c02Witness{Mesh: tag, Note: note, Spec: nodesBrief}
		if s != nil {
			w.Send = e.sendInfo(s)
		}
		if r != nil {
			w.Delivered = e.recvInfo(r)
		}
		return w
	}
	first := map[int]*c02Recv{}
	for _, r := range recvs {
		if r.Seq < 0 || r.Seq >= len(sp.sends) {
			run.Violation("spurious:"+sp.Transport, fmt.Sprintf("%s: a listener was handed a %d-byte payload that matches no datagram sent", tag, r.N), wit(nil, r, "no send with this hash, no known id inside"))
			continue
		}
		s := sp.sends[r.Seq]
		srcID, srcSvc := sp.Nodes[s.SrcNode].ID, sp.Nodes[s.SrcNode].Svcs[s.SrcSock].Name
		here := sp.Nodes[r.Node].Svcs[r.Sock].Name
		// exactly the addressed listener
		if r.Node != s.DstNode || r.Sock != s.DstSock {
			rel := c02Relation(s.DstSvc, here)
			where := "same-node"
			if r.Node != s.DstNode {
				where = "other-node"
				if strings.EqualFold(sp.Nodes[s.DstNode].ID, sp.Nodes[r.Node].ID) {
					where = "other-node-id-differs-in-case-only"
				}
			}
			bound := "bound"
			if s.DstSock < 0 {
				bound = "unbound"
			}
			run.Violation(fmt.Sprintf("misdelivered:%s:%s:%s", bound, where, rel),
				fmt.Sprintf("%s: datagram addressed to (%q,%q) was handed to listener (%q,%q)", tag, c02Short(sp.Nodes[s.DstNode].ID), s.DstSvc, c02Short(sp.Nodes[r.Node].ID), here), wit(s, r, ""))
		}
		// byte-identical
		if r.Hash != s.hash {
			key := "altered:" + sp.Transport + ":len=" + c02LenClass(s.Len)
			note := ""
			if r.N != s.Len {
				key = "altered:" + sp.Transport + ":length-changed:len=" + c02LenClass(s.Len)
			} else if s.Scribble && r.Raw != nil {
				orig := c02Payload(sp, s, make([]byte, s.Len))
				only := true
				for i := range orig {
					if r.Raw[i] != orig[i] && r.Raw[i] != 0xA5 {
						only = false
						break
					}
				}
				if only {
					loc := "remote"
					if s.Hops == 0 {
						loc = "local"
					}
					if c02ViaAlias(s) {
						loc = "local-via-localhost-alias"
					}
					key = "altered:sender-buffer-reuse:" + loc
					note = "the delivered bytes are the sender's buffer as overwritten AFTER WriteTo returned: the datagram still aliased the caller's slice"
				}
			}
			if s.Len < 4 {
				key = "altered:" + sp.Transport + ":short-lane"
			}
			run.Violation(key, fmt.Sprintf("%s: payload delivered to (%q,%q) differs from the %d bytes sent", tag, c02Short(sp.Nodes[r.Node].ID), here, s.Len), wit(s, r, note))
		}
		// true source
		if !r.AddrOK || r.FromNode != srcID || r.FromSvc != srcSvc || r.FromStr != srcID+":"+srcSvc {
			f := "service"
			if r.FromNode != srcID {
				f = "node:direct"
				if s.Hops >= 2 {
					f = "node:forwarded"
				}
			}
			if !r.AddrOK {
				f = "type"
			}
			run.Violation("wrong-source:"+f, fmt.Sprintf("%s: ReadFrom reported source (%q,%q), the sender was (%q,%q)", tag, c02Short(r.FromNode), r.FromSvc, c02Short(srcID), srcSvc), wit(s, r, ""))
		}
		// at most once
		if p, dup := first[r.Seq]; dup {
			nh := "n"
			if s.Hops == 0 {
				nh = "0"
			}
			run.Violation("duplicate:"+sp.Transport+":hops="+nh, fmt.Sprintf("%s: datagram %d was delivered more than once", tag, s.Seq), wit(s, r, fmt.Sprintf("first delivery was receive #%d", p.Order)))
		} else {
			first[r.Seq] = r
			if s.DstSock >= 0 && r.Node == s.DstNode && r.Sock == s.DstSock && r.Hash == s.hash && s.Fence == 0 {
				run.Distinct(strings.Join([]string{c02LenClass(s.Len), sp.Nodes[s.DstNode].Svcs[s.DstSock].Class, fmt.Sprint(s.Hops), sp.Transport, sp.Chunk}, "|"))
				run.SetAdd("dst_node_id_classes", sp.Nodes[s.DstNode].Class)
				run.SetAdd("src_node_id_classes", sp.Nodes[s.SrcNode].Class)
				run.SetAdd("hops_delivered", fmt.Sprintf("%02d/limit%d", s.Hops, sp.MaxHops))
				run.SetAdd("length_classes", c02LenClass(s.Len))
				run.SetAdd("fill_classes", s.Fill)
				run.SetAdd("service_name_classes", sp.Nodes[s.DstNode].Svcs[s.DstSock].Class)
				run.SetAdd("concurrent_senders", fmt.Sprintf("%02d", sp.Senders))
				run.Count("deliveries_checked_ok", 1)
				if s.Hops == int(sp.MaxHops) {
					run.Count("delivered_at_hop_limit", 1)
				}
				if s.Len == c02MTU {
					run.Count("delivered_len_mtu_"+sp.Transport, 1)
				}
			}
		}
	}
	// refused / lost
	refused, undel := []*c02Send{}, []*c02Send{}
	type pk struct{ sn, ss, dn, ds int }
	type nk struct{ sn, dn int }
	pairFence, nodeFence := map[pk]int{}, map[nk]int{}
	lastRoundAlive := false
	for _, s := range sp.sends {
		if !s.tried.Load() || s.DstSock < 0 {
			continue
		}
		if s.errStr() != "" {
			refused = append(refused, s)
		} else if s.deliv.Load() == 0 {
			undel = append(undel, s)
		} else if s.Fence > 0 {
			if s.Seq > pairFence[pk{s.SrcNode, s.SrcSock, s.DstNode, s.DstSock}] {
				pairFence[pk{s.SrcNode, s.SrcSock, s.DstNode, s.DstSock}] = s.Seq
			}
			if s.Seq > nodeFence[nk{s.SrcNode, s.DstNode}] {
				nodeFence[nk{s.SrcNode, s.DstNode}] = s.Seq
			}
			if s.Fence == rounds {
				lastRoundAlive = true
			}
		}
	}
	// decided by a later fence of the same pair / same node path (logical), else by the quiet period (guarded)
	lost, undecided := []*c02Send{}, []*c02Send{}
	how := map[*c02Send]string{}
	for _, s := range undel {
		switch {
		case pairFence[pk{s.SrcNode, s.SrcSock, s.DstNode, s.DstSock}] > s.Seq:
			lost = append(lost, s)
			how[s] = "a fence written later from the same socket to the same listener was delivered"
		case nodeFence[nk{s.SrcNode, s.DstNode}] > s.Seq:
			lost = append(lost, s)
			how[s] = "a fence written later from the same node to another listener of the same destination node was delivered"
		case e.quiet && maxGap < 1000 && lastRoundAlive && !timedOut:
			lost = append(lost, s)
			how[s] = fmt.Sprintf("nothing at all arrived for 10 s after fence round %d although other fences of that round were delivered", rounds)
		default:
			undecided = append(undecided, s)
		}
	}
	if len(refused)+len(undel) > 0 && os.Getenv("C02_DEBUG") != "" {
		pf, _ := os.Create(fmt.Sprintf("%s/c02-lost-%s-%d-goroutines.txt", workDir(), sp.Transport, sp.Idx))
		_ = pprof.Lookup("goroutine").WriteTo(pf, 2)
		pf.Close()
		fmt.Printf("debug mesh %d: refused %d undelivered %d (lost %d undecided %d) rounds %d quiet %v maxgap %d timedout %v\n", sp.Idx, len(refused), len(undel), len(lost), len(undecided), rounds, e.quiet, maxGap, timedOut)
	}
	if len(refused)+len(undel) > 0 {
		switch {
		case !okStable:
			run.Inconclusive(fmt.Sprintf("C02 %s: %d refused / %d undelivered datagrams but the mesh did not stay unchanged (%s)", tag, len(refused), len(undel), whyUnstable))
		default:
			if len(refused) > 0 {
				s := refused[0]
				run.Violation("refused:"+sp.Transport+":"+e.attribute(refused), fmt.Sprintf("%s: WriteTo to a bound listener over a converged route returned %q (%d such sends)", tag, s.errStr(), len(refused)), wit(s, nil, ""))
			}
			if len(lost) > 0 {
				key := "lost:" + sp.Transport + ":" + e.attribute(lost)
				for i, s := range lost {
					if i >= 3 {
						break
					}
					run.Violation(key, fmt.Sprintf("%s: WriteTo returned nil but the datagram was never handed to (%q,%q) (%d datagrams lost, fences included, of %d ordinary sends to bound listeners)", tag, c02Short(sp.Nodes[s.DstNode].ID), s.DstSvc, len(lost), positives), wit(s, nil, how[s]))
				}
				run.Count("lost", int64(len(lost)))
			}
			if len(undecided) > 0 {
				run.Inconclusive(fmt.Sprintf("C02 %s: %d datagrams undelivered and not decidable (watchdog %v, quiet %v, max scheduling gap %d ms, fence rounds %d)", tag, len(undecided), timedOut, e.quiet, maxGap, rounds))
			}
		}
	}
	// samples
	n := 0
	for _, s := range sp.sends {
		if r, ok := first[s.Seq]; ok && s.Fence == 0 && s.Len >= 16 && (s.Hops >= 2 || sp.Transport != "mem") && n < 1 && sp.Idx%2 == 0 {
			n++
			run.Sample(map[string]any{"mesh": tag, "nodes_and_listeners": nodesBrief, "send": e.sendInfo(s), "delivered": e.recvInfo(r)})
		}
	}
}

// ------------------------------------------------------------------ memnet meshes

func c02Converged(insts []*netceptor.Netceptor, ids []string) bool {
	for i, n := range insts {
		rt := n.Status().RoutingTable
		for j, id := range ids {
			if i == j {
				continue
			}
			if _, ok := rt[id]; !ok {
				return false
			}
		}
	}
	return true
}

func c02WaitConverged(insts []*netceptor.Netceptor, ids []string, d time.Duration) bool {
	deadline := time.Now().Add(d)
	for !c02Converged(insts, ids) {
		if time.Now().After(deadline) {
			return false
		}
		time.Sleep(100 * time.Millisecond)
	}
	return true
}

func c02OpenSocks(w *c02World) error {
	sp := w.sp
	w.socks = make([][]*c02Sock, len(sp.Nodes))
	for i, n := range sp.Nodes {
		for j, s := range n.Svcs {
			pc, err := w.insts[i].ListenPacket(s.Name)
			if err != nil {
				return fmt.Errorf("ListenPacket(%q) on %q: %v", s.Name, c02Short(n.ID), err)
			}
			w.socks[i] = append(w.socks[i], &c02Sock{node: i, idx: j, pc: pc})
		}
	}
	return nil
}

func c02BuildMem(sp *c02Spec) (*c02World, error) {
	c := mesh.DefaultConsts()
	c.MaxHops = sp.MaxHops
	c.MTU = c02MTU
	c.Idle = 60 * time.Second // nothing fails in these meshes; do not let a loaded machine fake an idle timeout
	m := mesh.New(c, sp.Seed)
	w := &c02World{sp: sp}
	ids := []string{}
	for i, n := range sp.Nodes {
		inst := m.AddNode(n.ID).Inst()
		if os.Getenv("C02_DEBUG") == "2" {
			lf, _ := os.Create(fmt.Sprintf("%s/c02-mem-%d-node%d.log", workDir(), sp.Idx, i))
			inst.Logger.SetOutput(lf)
			logger.SetGlobalLogLevel(logger.InfoLevel)
		}
		w.insts = append(w.insts, inst)
		ids = append(ids, n.ID)
	}
	for k, l := range sp.Links {
		// like mesh.Connect, but with a redial pause long enough for both ends to forget a session that
		// receptor itself closed during the handshake (otherwise the two ends reject each other in turns)
		ln := m.Net.NewLink(fmt.Sprintf("L%d", k), sp.Nodes[l[0]].ID, sp.Nodes[l[1]].ID, 1, sp.Seed*1000003+int64(k))
		ln.Redial = 1500 * time.Millisecond
		ba, bb := memnet.NewBackend(), memnet.NewBackend()
		if err := w.insts[l[0]].AddBackend(ba, netceptor.BackendConnectionCost(1)); err != nil {
			m.Shutdown()
			return nil, err
		}
		if err := w.insts[l[1]].AddBackend(bb, netceptor.BackendConnectionCost(1)); err != nil {
			m.Shutdown()
			return nil, err
		}
		ln.SetBackends(ba, bb)
		ln.Up()
	}
	w.closeFn = m.Shutdown
	var flaps0 int64
	w.stable = func() (bool, string) {
		if f := m.Net.Flaps() - flaps0; f != 0 {
			return false, fmt.Sprintf("%d link flaps during the traffic", f)
		}
		if !c02Converged(w.insts, ids) {
			return false, "routing tables no longer complete at the end"
		}
		return true, ""
	}
	if !c02WaitConverged(w.insts, ids, 60*time.Second) {
		m.Shutdown()
		return nil, fmt.Errorf("mesh did not converge within the watchdog")
	}
	time.Sleep(c.RouteUpdate + 100*time.Millisecond)
	flaps0 = m.Net.Flaps()
	return w, nil
}

func c02RunSpec(run *ev.Run, sp *c02Spec) {
	// Building the mesh is not the property under test: a mesh whose handshakes went wrong (receptor
	// sometimes rejects a fresh session under load, and an ExternalBackend link is never redialled) is rebuilt.
	var w *c02World
	var err error
	for attempt := 1; attempt <= 3; attempt++ {
		if sp.Transport == "mem" {
			w, err = c02BuildMem(sp)
		} else {
			w, err = c02BuildReal(sp)
		}
		if err == nil {
			break
		}
		run.Count("mesh_build_retries", 1)
	}
	if err != nil {
		run.Eval(1)
		run.Inconclusive(fmt.Sprintf("C02 mesh %d (%s/%s): %v (3 attempts)", sp.Idx, sp.Kind, sp.Chunk, err))
		return
	}
	defer w.closeFn()
	if os.Getenv("C02_DEBUG") != "" {
		t0 := time.Now()
		defer func() {
			fmt.Printf("debug mesh %d %s/%s/%s nodes=%d senders=%d traffic+judge %.1fs\n", sp.Idx, sp.Kind, sp.Transport, sp.Chunk, len(sp.Nodes), sp.Senders, time.Since(t0).Seconds())
		}()
	}
	if err := c02OpenSocks(w); err != nil {
		run.Eval(1)
		run.Violation("listen:"+sp.Transport, fmt.Sprintf("mesh %d: a listener with a valid 1-8 byte name could not be opened: %v", sp.Idx, err), nil)
		return
	}
	e := &c02Engine{run: run, w: w, sp: sp}
	e.traffic()
	for k, v := range w.extra {
		run.Count(k, v)
	}
	if w.extra != nil {
		w.extra = nil
	}
}

// ------------------------------------------------------------------ entry

func runC02(tier string, args []string) {
	run := ev.New("C02", tier, "exploration")
	run.Rule("seeded meshes of real netceptor nodes (random unit-cost graphs of 2-8 nodes, 7-node chains with hop limit 6 so that the limit itself is reached, a 31-node chain at the default limit 30; node IDs from a dictionary: 1 byte, 300 bytes, UTF-8, pairs differing only in case, punctuation/control characters, near-aliases of localhost, IDs equal to service names; 2-9 datagram listeners per node from families of prefix-related, 8-byte, 0x01/0xFF/space-containing, case-variant and node-ID-equal names). 1-16 concurrent senders WriteTo seeded payloads (0..MTU=16384 bytes; random/zero/0xFF/text/nested-frame fills; a 16-byte id at a seeded offset; 4-15 byte payloads unique by content; 0-3 byte payloads on a serial lane), a quarter of them overwriting their buffer after WriteTo returned, half of the node-local ones addressed to the alias localhost, ~12% addressed to near-miss names nobody listens on. One reader per listener logs (listener, source address, sha256, id); the offline join demands: delivered only at the addressed listener, byte-identical, true source, at most once, and - mesh unchanged, loss-free - delivered at all: a datagram is lost when a fence written later on the same (socket, listener) pair, or from the same node to the same destination node, was delivered (every stage in between is FIFO), or, failing that, when nothing arrived for 10 s while this process was demonstrably not starved. The same accounting runs over 3-node chains linked by real TCP (through a frame-aware chunking proxy: cuts inside the 2-byte length, after it, inside the header, at the header/payload boundary, mid-payload; coalesced frames), websocket (blind chunking proxy), UDP and ExternalBackend over MessageConnFromNetConn (chunked, buffered pipe pair); pkg/framer is driven differentially against a reference deframer. Backlog trials: 4 sockets burst 120-600 datagrams each at one listener whose reader starts a second later; all must arrive once, unaltered. distinct_nontrivial = distinct (length class, listener-name class, hops, transport, chunk mode) tuples of datagrams delivered and checked")
	run.Assume("\"payload up to the advertised MTU\" = 0..Netceptor.MTU() (16384) payload bytes; no layer enforces the MTU, the 36-byte header is additional (16420 bytes < the stream backends' uint16 frame limit 65535 and < the UDP backend's 65507)")
	run.Assume("node IDs are valid UTF-8 text (they travel in JSON) and never a case variant of the alias localhost; service names are arbitrary 1-8 non-zero bytes other than ping/unreach")
	run.Assume("UDP over loopback is only judged for loss when the kernel's UDP drop counters did not move; senders there keep one datagram in flight each")
	run.Assume("a sender may reuse its buffer as soon as WriteTo has returned (net.PacketConn / io.Writer convention)")
	run.Assume("links are not driven into two-way saturation: receptor's protocol loop sends unreachable notices and ping replies synchronously into the session's writer, so two saturated directions of one link dead-lock (observed with an unbuffered net.Pipe under an ExternalBackend; reported separately); the in-memory links and the chunkers therefore buffer like a kernel socket pair")
	work := workDir()
	quick := run.Quick()
	nMesh := run.Pick(6, 60)
	nSends := run.Pick(400, 3000)
	base := run.Seed*7919 + int64(len(tier))*104729

	type job struct {
		kind  string
		chunk string
		n     int
	}
	jobs := []job{}
	for i := 0; i < nMesh; i++ {
		k := "graph"
		switch {
		case i == 1:
			k = "chain30"
		case i == 0 || i%7 == 0:
			k = "chain6"
		}
		jobs = append(jobs, job{k, "-", nSends})
	}
	realN := run.Pick(160, 1500)
	if v := os.Getenv("C02_REALN"); v != "" {
		fmt.Sscan(v, &realN)
	}
	if quick {
		jobs = append(jobs, job{"tcp", "mixed", realN}, job{"ext", "mixed", realN}, job{"ws", "random", realN}, job{"udp", "-", realN})
	} else {
		for _, m := range []string{"tiny", "split", "coalesce", "random", "mixed", "mixed"} {
			jobs = append(jobs, job{"tcp", m, realN}, job{"ext", m, realN})
		}
		for _, m := range []string{"tiny", "coalesce", "random", "mixed"} {
			jobs = append(jobs, job{"ws", m, realN})
		}
		jobs = append(jobs, job{"udp", "-", realN}, job{"udp", "-", realN})
	}
	only := ""
	if len(args) >= 2 && args[0] == "--only" {
		only = args[1] // mem | tcp | ws | udp | ext | framer
	}
	par := run.Pick(10, 8)
	sem := make(chan struct{}, par)
	var wg sync.WaitGroup
	if only == "" || only == "framer" {
		wg.Add(1)
		go func() {
			defer wg.Done()
			c02Framer(run, base, run.Pick(20000, 1000000))
		}()
	}
	for i, j := range jobs {
		tr := "mem"
		if j.chunk != "-" || j.kind == "udp" {
			tr = j.kind
		}
		if only != "" && only != tr {
			continue
		}
		wg.Add(1)
		sem <- struct{}{}
		go func(i int, j job) {
			defer wg.Done()
			defer func() { <-sem }()
			sp := genC02Spec(base*1000+int64(i), i, j.kind, j.n)
			sp.Chunk = j.chunk
			c02RunSpec(run, sp)
		}(i, j)
	}
	wg.Wait()
	if len(args) == 0 {
		for i := 0; i < run.Pick(4, 16); i++ {
			runC02Backlog(run, i)
		}
	}
	collectRaces(run, work)
	floor := run.Pick(150, 600)
	if only != "" {
		floor = 2
	}
	_ = os.Stdout.Sync()
	run.Finish(floor)
}
